//! Descriptors shared by C28/C29/C30: acceptor configuration, request, observed outcome,
//! their Coq printers and the runners (hook and loopback TCP).
#![allow(dead_code)]
use dicom_ul::association::server::ServerAssociationOptions;
use dicom_ul::association::{Association, Error as AErr};
use dicom_ul::pdu::*;
use serde_json::{json, Value};
use std::io::Write;
use std::net::{TcpListener, TcpStream};
use std::time::Duration;
use vhc::*;

pub const APP_CTX: &str = "1.2.840.10008.3.1.1.1";
pub const ILE: &str = "1.2.840.10008.1.2";
pub const ELE: &str = "1.2.840.10008.1.2.1";
pub const MAXIMUM: u32 = 4294967288;
pub const DEFAULT_MAX: u32 = 32762;
pub const MINIMUM: u32 = 1018;
/// socket timeouts of the associations under test: generous, so that a loaded machine cannot turn a slow
/// peer into a spurious transport error; only a genuine hang costs this much
pub const IO_TIMEOUT: Duration = Duration::from_millis(30000);


/// Strings that occur in almost every case (the UIDs of the bounded universe, every registry UID, their
/// NUL-padded forms, the usual AE titles): printed as `(u k)`, an index into the table `upool` that
/// `tables` writes into Gen/GenTsSupport.v from this very list, instead of a code-point list.
/// (coqc spends its time parsing literals: this makes a shard several times smaller.)
pub fn pool() -> &'static (Vec<String>, std::collections::HashMap<String, usize>) {
    use dicom_transfer_syntax_registry::TransferSyntaxRegistry;
    static POOL: std::sync::OnceLock<(Vec<String>, std::collections::HashMap<String, usize>)> = std::sync::OnceLock::new();
    POOL.get_or_init(|| {
        let mut uids: Vec<String> = vec![APP_CTX.into(), ILE.into(), ELE.into(), "1.2.840.10008.1.1".into(), "1.2.840.10008.5.1.4.1.1.7".into(),
            "1.2.840.10008.5.1.4.1.1.2".into(), "1.2.840.10008.5.1.4.1.1.4".into(), "1.2.3.4".into(), "1.2.840.10008.3.1.1.2".into(), "1.2.840.10008.1.2.1.98".into()];
        let mut reg: Vec<String> = TransferSyntaxRegistry.iter().map(|t| t.uid().to_string()).collect();
        reg.sort();
        for u in reg { if !uids.contains(&u) { uids.push(u); } }
        let mut v: Vec<String> = vec![];
        for u in &uids { v.push(u.clone()); v.push(format!("{u}\0")); }
        for t in ["THIS-SCP", "SCU", "STORE", "OTHER", "A", "B", "X Y", "this-scp", "STORE-SCU", "ANY-SCP", "A-VERY-LONG-AE-TITLE-X", "A-VERY-LONG-AE-TI"] { v.push(t.into()); }
        let m = v.iter().enumerate().map(|(i, s)| (s.clone(), i)).collect();
        (v, m)
    })
}
/// Coq term of a string: pool index when it is a pooled string, code-point list otherwise
pub fn cs(s: &str) -> String {
    match pool().1.get(s) { Some(k) => format!("(u {})", k), None => c_str(s) }
}

/// strip the DICOM UID padding (trailing NULs): the oracle's own notion of "the same UID"
pub fn strip(u: &str) -> &str { u.trim_end_matches('\0') }
/// true when the only trailing padding of `u` is NULs (no trailing white space anywhere in the tail)
pub fn plain_padding(u: &str) -> bool { !strip(u).ends_with(|c: char| c.is_whitespace()) }

#[derive(Clone, Debug)]
pub struct SCfg {
    pub access_called: bool,
    pub ae_title: String,
    pub abs: Vec<String>,
    pub ts: Vec<String>,
    pub max_pdu: u32,
    pub promiscuous: bool,
}
impl SCfg {
    pub fn coq(&self) -> String {
        c_tuple(&[
            (if self.access_called { "AcceptCalledAeTitle" } else { "AcceptAny" }).to_string(),
            cs(&self.ae_title),
            c_list(self.abs.iter().map(|s| cs(s))),
            c_list(self.ts.iter().map(|s| cs(s))),
            c_n(self.max_pdu),
            c_bool(self.promiscuous),
        ])
    }
    pub fn json(&self) -> Value {
        json!({"access_called": self.access_called, "ae_title": self.ae_title, "abstract": self.abs, "ts": self.ts,
               "max_pdu": self.max_pdu, "promiscuous": self.promiscuous})
    }
}

#[derive(Clone, Debug)]
pub enum UV { Max(u32), ImplClass, ImplVersion, ExtNeg, Role, UserId }

#[derive(Clone, Debug)]
pub struct PcP { pub id: u8, pub abs: String, pub ts: Vec<String> }

#[derive(Clone, Debug)]
pub struct Rq {
    pub proto: u16,
    pub calling: String,
    pub called: String,
    pub app_ctx: String,
    pub pcs: Vec<PcP>,
    pub uvars: Vec<UV>,
}

#[derive(Clone, Debug)]
pub enum Msg { Rq(Rq), ReleaseRQ, AC, RJ, PData, ReleaseRP, Abort, Unknown }

impl Rq {
    pub fn pdu(&self) -> Pdu {
        Pdu::AssociationRQ(AssociationRQ {
            protocol_version: self.proto,
            calling_ae_title: self.calling.clone(),
            called_ae_title: self.called.clone(),
            application_context_name: self.app_ctx.clone(),
            presentation_contexts: self.pcs.iter().map(|p| PresentationContextProposed {
                id: p.id, abstract_syntax: p.abs.clone(), transfer_syntaxes: p.ts.clone() }).collect(),
            user_variables: self.uvars.iter().map(|u| match u {
                UV::Max(n) => UserVariableItem::MaxLength(*n),
                UV::ImplClass => UserVariableItem::ImplementationClassUID("1.2.3.99".into()),
                UV::ImplVersion => UserVariableItem::ImplementationVersionName("VERIF".into()),
                UV::ExtNeg => UserVariableItem::SopClassExtendedNegotiationSubItem("1.2.840.10008.5.1.4.1.2.2.1".into(), vec![1, 0, 1]),
                UV::Role => UserVariableItem::ScuScpRoleSelectionSubItem("1.2.840.10008.1.1".into(), RequestorRoles { scu: true, scp: true }),
                UV::UserId => UserVariableItem::UserIdentityItem(UserIdentity::new(false, UserIdentityType::Username, b"user".to_vec(), vec![])),
            }).collect(),
        })
    }
    pub fn from_pdu(p: &AssociationRQ) -> Rq {
        Rq {
            proto: p.protocol_version,
            calling: p.calling_ae_title.clone(),
            called: p.called_ae_title.clone(),
            app_ctx: p.application_context_name.clone(),
            pcs: p.presentation_contexts.iter().map(|c| PcP { id: c.id, abs: c.abstract_syntax.clone(), ts: c.transfer_syntaxes.clone() }).collect(),
            uvars: p.user_variables.iter().map(|u| match u {
                UserVariableItem::MaxLength(n) => UV::Max(*n),
                UserVariableItem::ImplementationClassUID(_) => UV::ImplClass,
                UserVariableItem::ImplementationVersionName(_) => UV::ImplVersion,
                UserVariableItem::SopClassExtendedNegotiationSubItem(..) => UV::ExtNeg,
                UserVariableItem::ScuScpRoleSelectionSubItem(..) => UV::Role,
                _ => UV::UserId,
            }).collect(),
        }
    }
    pub fn coq(&self) -> String {
        format!("(Build_assoc_rq {} {} {} {} {} {})", self.proto, cs(&self.calling), cs(&self.called), cs(&self.app_ctx),
            c_list(self.pcs.iter().map(|p| format!("Build_pc_proposed {} {} {}", p.id, cs(&p.abs), c_list(p.ts.iter().map(|t| cs(t)))))),
            c_list(self.uvars.iter().map(|u| match u { UV::Max(n) => format!("UvMaxLength {}", n), _ => "UvOther".to_string() })))
    }
    pub fn json(&self) -> Value {
        json!({"proto": self.proto, "calling": self.calling, "called": self.called, "app_ctx": self.app_ctx,
               "pcs": self.pcs.iter().map(|p| json!({"id": p.id, "abs": p.abs, "ts": p.ts})).collect::<Vec<_>>(),
               "uvars": self.uvars.iter().map(|u| format!("{:?}", u)).collect::<Vec<_>>()})
    }
}

impl Msg {
    pub fn pdu(&self) -> Pdu {
        match self {
            Msg::Rq(r) => r.pdu(),
            Msg::ReleaseRQ => Pdu::ReleaseRQ,
            Msg::ReleaseRP => Pdu::ReleaseRP,
            Msg::Abort => Pdu::AbortRQ { source: AbortRQSource::ServiceUser },
            Msg::PData => Pdu::PData { data: vec![PDataValue { presentation_context_id: 1, value_type: PDataValueType::Command, is_last: true, data: vec![0; 8] }] },
            Msg::RJ => Pdu::AssociationRJ(AssociationRJ { result: AssociationRJResult::Transient,
                source: AssociationRJSource::ServiceUser(AssociationRJServiceUserReason::NoReasonGiven) }),
            Msg::AC => Pdu::AssociationAC(AssociationAC { protocol_version: 1, calling_ae_title: "A".into(), called_ae_title: "B".into(),
                application_context_name: APP_CTX.into(), presentation_contexts: vec![], user_variables: vec![UserVariableItem::MaxLength(16384)] }),
            Msg::Unknown => Pdu::Unknown { pdu_type: 0x2a, data: vec![1, 2, 3, 4] },
        }
    }
    pub fn coq(&self) -> String {
        match self {
            Msg::Rq(r) => format!("(InRQ {})", r.coq()),
            Msg::ReleaseRQ => "InReleaseRQ".into(),
            Msg::Unknown => "InUnknown".into(),
            _ => "InOtherKnown".into(),
        }
    }
    pub fn json(&self) -> Value {
        match self { Msg::Rq(r) => r.json(), m => json!(format!("{:?}", m)) }
    }
}

/// (id, reason, ts, abs)
pub type PcN = (u8, u8, String, String);
/// (id, reason, ts)
pub type PcR = (u8, u8, String);

#[derive(Clone, Debug, PartialEq)]
pub enum Out {
    Accept { pcs: Vec<PcN>, peer_max: u32, ac_pcs: Vec<PcR>, ac_max: u64, app_ctx: String, calling: String, called: String },
    Reject(u8, u8),
    ReleaseRP,
    Abort(u8, u8),
    /// anything the model has no constructor for (prints as a term that can never match)
    Other(String),
}

pub fn reason_code(r: &PresentationContextResultReason) -> u8 {
    match r {
        PresentationContextResultReason::Acceptance => 0,
        PresentationContextResultReason::UserRejection => 1,
        PresentationContextResultReason::NoReason => 2,
        PresentationContextResultReason::AbstractSyntaxNotSupported => 3,
        PresentationContextResultReason::TransferSyntaxesNotSupported => 4,
    }
}
pub fn rj_codes(rj: &AssociationRJ) -> Option<(u8, u8)> {
    if rj.result != AssociationRJResult::Permanent { return None; }
    Some(match &rj.source {
        AssociationRJSource::ServiceUser(r) => (1, match r {
            AssociationRJServiceUserReason::NoReasonGiven => 1,
            AssociationRJServiceUserReason::ApplicationContextNameNotSupported => 2,
            AssociationRJServiceUserReason::CallingAETitleNotRecognized => 3,
            AssociationRJServiceUserReason::CalledAETitleNotRecognized => 7,
            AssociationRJServiceUserReason::Reserved(x) => *x,
        }),
        AssociationRJSource::ServiceProviderASCE(r) => (2, match r {
            AssociationRJServiceProviderASCEReason::NoReasonGiven => 1,
            AssociationRJServiceProviderASCEReason::ProtocolVersionNotSupported => 2,
        }),
        AssociationRJSource::ServiceProviderPresentation(_) => (3, 0),
    })
}
pub fn err_class(e: &AErr) -> u8 {
    match e {
        AErr::Rejected { .. } => 1,
        AErr::Aborted { .. } => 2,
        AErr::UnexpectedPdu { .. } => 3,
        AErr::UnknownPdu { .. } => 4,
        AErr::MissingAbstractSyntax { .. } => 5,
        AErr::NoAcceptedPresentationContexts { .. } => 6,
        AErr::ProtocolVersionMismatch { .. } => 7,
        AErr::SendTooLongPdu { .. } => 8,
        AErr::ReceivePdu { .. } => 9,
        AErr::ConnectionClosed { .. } => 10,
        AErr::SendPdu { .. } => 11,
        AErr::WireSend { .. } => 12,
        AErr::Timeout { .. } => 13,
        AErr::TooManyPresentationContexts { .. } => 14,
        _ => 99,
    }
}
pub fn pcn(p: &PresentationContextNegotiated) -> PcN { (p.id, reason_code(&p.reason), p.transfer_syntax.clone(), p.abstract_syntax.clone()) }

/// What the acceptor answered + what it kept, as an `Out`.
pub fn out_of(reply: &Pdu, kept: Option<(Vec<PcN>, u32, String, String)>, err: Option<u8>) -> Out {
    match (reply, kept, err) {
        (Pdu::AssociationAC(ac), Some((pcs, peer_max, calling, called)), None) => {
            let maxes: Vec<u32> = ac.user_variables.iter().filter_map(|u| if let UserVariableItem::MaxLength(n) = u { Some(*n) } else { None }).collect();
            if ac.protocol_version != 1 || ac.calling_ae_title != calling || ac.called_ae_title != called {
                return Out::Other(format!("AC header differs from the request: {:?}", ac));
            }
            Out::Accept {
                pcs, peer_max,
                ac_pcs: ac.presentation_contexts.iter().map(|c| (c.id, reason_code(&c.reason), c.transfer_syntax.clone())).collect(),
                ac_max: if maxes.len() == 1 { maxes[0] as u64 } else { 1u64 << 40 },
                app_ctx: ac.application_context_name.clone(), calling, called,
            }
        }
        (Pdu::AssociationRJ(rj), None, Some(1)) => match rj_codes(rj) { Some((s, r)) => Out::Reject(s, r), None => Out::Other(format!("{:?}", rj)) },
        (Pdu::ReleaseRP, None, Some(2)) => Out::ReleaseRP,
        (Pdu::AbortRQ { source: AbortRQSource::ServiceProvider(r) }, None, Some(e)) => Out::Abort(match r {
            AbortRQServiceProviderReason::ReasonNotSpecified => 0,
            AbortRQServiceProviderReason::UnrecognizedPdu => 1,
            AbortRQServiceProviderReason::UnexpectedPdu => 2,
            _ => 9,
        }, e),
        (p, k, e) => Out::Other(format!("reply {:?} kept {:?} err {:?}", p.short_description().to_string(), k.is_some(), e)),
    }
}

impl Out {
    pub fn coq(&self) -> String {
        match self {
            Out::Accept { pcs, peer_max, ac_pcs, ac_max, app_ctx, calling, called } => format!(
                "(OAccept {} {} {} {} {} {} {})",
                c_list(pcs.iter().map(|p| format!("Build_pc_negotiated {} {} {} {}", p.0, p.1, cs(&p.2), cs(&p.3)))),
                peer_max,
                c_list(ac_pcs.iter().map(|p| format!("Build_pc_result {} {} {}", p.0, p.1, cs(&p.2)))),
                ac_max, cs(app_ctx), cs(calling), cs(called)),
            Out::Reject(s, r) => format!("(OReject {} {})", s, r),
            Out::ReleaseRP => "OReleaseRP".into(),
            Out::Abort(r, e) => format!("(OAbort {} {})", r, e),
            Out::Other(_) => "(OAbort 99 99)".into(),
        }
    }
    pub fn json(&self) -> Value { json!(format!("{:?}", self)) }
}

pub fn base_opts(cfg: &SCfg) -> ServerAssociationOptions<'static, dicom_ul::association::server::AcceptAny, dicom_ul::association::server::DefaultNegotiation> {
    let mut o = ServerAssociationOptions::new().ae_title(cfg.ae_title.clone()).max_pdu_length(cfg.max_pdu).promiscuous(cfg.promiscuous)
        .read_timeout(IO_TIMEOUT).write_timeout(IO_TIMEOUT);
    for a in &cfg.abs { o = o.with_abstract_syntax(a.clone()); }
    for t in &cfg.ts { o = o.with_transfer_syntax(t.clone()); }
    o
}

/// Run the private request processing through the verification hook.
pub fn run_hook(cfg: &SCfg, msg: Pdu) -> Option<Out> {
    let base = base_opts(cfg);
    let res = catch(|| if cfg.access_called { base.accept_called_ae_title().verif_process_rq(msg) } else { base.verif_process_rq(msg) })?;
    Some(match res {
        Ok((reply, pcs, peer_max, calling, called)) => out_of(&reply, Some((pcs.iter().map(pcn).collect(), peer_max, calling, called)), None),
        Err((reply, e)) => out_of(&reply, None, Some(err_class(&e))),
    })
}

pub fn read_one(sock: &mut TcpStream, max: u32) -> Result<Pdu, AErr> {
    let mut buf = bytes::BytesMut::with_capacity(65536);
    dicom_ul::association::read_pdu_from_wire(sock, &mut buf, max, false)
}

/// Run the same request through `establish` over loopback TCP (no hook):
/// a raw socket plays the requestor. Returns None on transport trouble.
pub fn run_tcp(cfg: &SCfg, msg: &Pdu) -> Option<Out> {
    let listener = TcpListener::bind("127.0.0.1:0").ok()?;
    let addr = listener.local_addr().ok()?;
    let cfg2 = cfg.clone();
    let server = std::thread::spawn(move || -> Option<Result<(Vec<PcN>, u32, String, String), u8>> {
        let (stream, _) = listener.accept().ok()?;
        let base = base_opts(&cfg2);
        let r = if cfg2.access_called {
            base.accept_called_ae_title().establish(stream).map(|a| (a.presentation_contexts().iter().map(pcn).collect(), a.requestor_max_pdu_length(), a.peer_ae_title().to_string(), a.called_ae_title().to_string()))
        } else {
            base.establish(stream).map(|a| (a.presentation_contexts().iter().map(pcn).collect(), a.requestor_max_pdu_length(), a.peer_ae_title().to_string(), a.called_ae_title().to_string()))
        };
        Some(r.map_err(|e| err_class(&e)))
    });
    let mut sock = TcpStream::connect_timeout(&addr, IO_TIMEOUT).ok()?;
    sock.set_read_timeout(Some(IO_TIMEOUT)).ok()?;
    sock.set_write_timeout(Some(IO_TIMEOUT)).ok()?;
    let mut bytes = vec![];
    write_pdu(&mut bytes, msg).ok()?;
    sock.write_all(&bytes).ok()?;
    let reply = read_one(&mut sock, MAXIMUM);
    let kept = server.join().ok()??;
    let reply = reply.ok()?;
    Some(match kept {
        Ok(k) => out_of(&reply, Some(k), None),
        Err(e) => out_of(&reply, None, Some(e)),
    })
}
