#!/bin/sh
# Regenerate the coq_makefile Makefile from the .v files present (Base, Gen, Spec, Model, Proofs, Properties).
cd "$(dirname "$0")" || exit 2
files=$(find Base Gen Spec Model Proofs Properties -name '*.v' 2>/dev/null | sort)
new=$(printf '%s\n' "$files" | sha1sum | cut -d' ' -f1)
if [ ! -f Makefile ] || [ "$(cat .mk.sha 2>/dev/null)" != "$new" ]; then
  coq_makefile -f _CoqProject $files -o Makefile >/dev/null || exit 2
  echo "$new" > .mk.sha
fi
