(** Independent specification written from DICOM PS3.5 (2024), NOT from the
    dicom-rs sources: value representations (section 6.2), data element
    layout (section 7.1, Tables 7.1-1, 7.1-2, 7.1-3), item and delimiter
    encoding (section 7.5, Table 7.5-1..3). *)
From Coq Require Import String Ascii.
From DicomV Require Export Base.Endian Model.Vr.
Open Scope N_scope.

(** PS3.5 Table 6.2-1: the two-character VR names. *)
Definition ps35_vr_name (v : vr) : string :=
  match v with
  | AE => "AE" | AS => "AS" | AT => "AT" | CS => "CS" | DA => "DA" | DS => "DS" | DT => "DT"
  | FL => "FL" | FD => "FD" | IS => "IS" | LO => "LO" | LT => "LT" | OB => "OB" | OD => "OD"
  | OF => "OF" | OL => "OL" | OV => "OV" | OW => "OW" | PN => "PN" | SH => "SH" | SL => "SL"
  | SQ => "SQ" | SS => "SS" | ST => "ST" | SV => "SV" | TM => "TM" | UC => "UC" | UI => "UI"
  | UL => "UL" | UN => "UN" | UR => "UR" | US => "US" | UT => "UT" | UV => "UV"
  end%string.

Fixpoint ascii_bytes (s : string) : bytes :=
  match s with
  | EmptyString => []
  | String a s' => N_of_ascii a :: ascii_bytes s'
  end.

Definition ps35_vr_code (v : vr) : bytes := ascii_bytes (ps35_vr_name v).

(** The defined two-byte VR codes: exactly these 34. *)
Definition ps35_defined_codes : list bytes := map ps35_vr_code all_vrs.

(** PS3.5 7.1.2: "for VRs of AE, AS, AT, CS, DA, DS, DT, FL, FD, IS, LO, LT, PN,
    SH, SL, SS, ST, TM, UI, UL and US the Value Length Field is the 16-bit
    unsigned integer following the two byte VR Field (Table 7.1-2)". *)
Definition ps35_len16_vrs : list vr :=
  [AE; AS; AT; CS; DA; DS; DT; FL; FD; IS; LO; LT; PN; SH; SL; SS; ST; TM; UI; UL; US].
Definition ps35_len16 (v : vr) : bool := existsb (vr_eqb v) ps35_len16_vrs.

(** Byte ordering of 16/32-bit fields per transfer syntax (section 7.3). *)
Definition ps35_u16 (c : codec) (n : N) : bytes := match c with EBE => be_bytes 2 n | _ => le_bytes 2 n end.
Definition ps35_u32 (c : codec) (n : N) : bytes := match c with EBE => be_bytes 4 n | _ => le_bytes 4 n end.

(** Data element header layout. [t] = (group, element).
    Implicit VR (Table 7.1-3): tag, 32-bit length.
    Explicit VR, 16-bit form (Table 7.1-2): tag, VR, 16-bit length.
    Explicit VR, other VRs (Table 7.1-1): tag, VR, reserved 0000H, 32-bit length. *)
Definition ps35_header (c : codec) (t : N * N) (v : vr) (len : N) : bytes :=
  match c with
  | ILE => ps35_u16 c (fst t) ++ ps35_u16 c (snd t) ++ ps35_u32 c len
  | _ =>
      if ps35_len16 v
      then ps35_u16 c (fst t) ++ ps35_u16 c (snd t) ++ ps35_vr_code v ++ ps35_u16 c len
      else ps35_u16 c (fst t) ++ ps35_u16 c (snd t) ++ ps35_vr_code v ++ [0; 0] ++ ps35_u32 c len
  end.

(** Items and delimiters (section 7.5): tag (FFFE,E000)/(FFFE,E00D)/(FFFE,E0DD)
    followed by a 32-bit length; delimiters have length 00000000H. *)
Definition ps35_item_header (c : codec) (len : N) : bytes :=
  ps35_u16 c 65534 ++ ps35_u16 c 57344 ++ ps35_u32 c len.
Definition ps35_item_delim (c : codec) : bytes :=
  ps35_u16 c 65534 ++ ps35_u16 c 57357 ++ ps35_u32 c 0.
Definition ps35_seq_delim (c : codec) : bytes :=
  ps35_u16 c 65534 ++ ps35_u16 c 57565 ++ ps35_u32 c 0.

Definition undefined_length : N := 4294967295.
