(** Independent specification written from DICOM PS3.5 (2024), NOT from the
    dicom-rs sources: value representations (section 6.2), data element
    layout (section 7.1, Tables 7.1-1, 7.1-2, 7.1-3), item and delimiter
    encoding (section 7.5, Table 7.5-1..3). *)
From Coq Require Import String Ascii.
From DicomV Require Export Base.Endian Model.Vr.
Open Scope N_scope.

(** PS3.5 Table 6.2-1: the two-character VR names. *)
Definition ps35_vr_name (v : vr) : string :=
  match v with
  | AE => "AE" | AS => "AS" | AT => "AT" | CS => "CS" | DA => "DA" | DS => "DS" | DT => "DT"
  | FL => "FL" | FD => "FD" | IS => "IS" | LO => "LO" | LT => "LT" | OB => "OB" | OD => "OD"
  | OF => "OF" | OL => "OL" | OV => "OV" | OW => "OW" | PN => "PN" | SH => "SH" | SL => "SL"
  | SQ => "SQ" | SS => "SS" | ST => "ST" | SV => "SV" | TM => "TM" | UC => "UC" | UI => "UI"
  | UL => "UL" | UN => "UN" | UR => "UR" | US => "US" | UT => "UT" | UV => "UV"
  end%string.

Fixpoint ascii_bytes (s : string) : bytes :=
  match s with
  | EmptyString => []
  | String a s' => N_of_ascii a :: ascii_bytes s'
  end.

Definition ps35_vr_code (v : vr) : bytes := ascii_bytes (ps35_vr_name v).

(** The defined two-byte VR codes: exactly these 34. *)
Definition ps35_defined_codes : list bytes := map ps35_vr_code all_vrs.

(** PS3.5 7.1.2: "for VRs of AE, AS, AT, CS, DA, DS, DT, FL, FD, IS, LO, LT, PN,
    SH, SL, SS, ST, TM, UI, UL and US the Value Length Field is the 16-bit
    unsigned integer following the two byte VR Field (Table 7.1-2)". *)
Definition ps35_len16_vrs : list vr :=
  [AE; AS; AT; CS; DA; DS; DT; FL; FD; IS; LO; LT; PN; SH; SL; SS; ST; TM; UI; UL; US].
Definition ps35_len16 (v : vr) : bool := existsb (vr_eqb v) ps35_len16_vrs.

(** Byte ordering of 16/32-bit fields per transfer syntax (section 7.3). *)
Definition ps35_u16 (c : codec) (n : N) : bytes := match c with EBE => be_bytes 2 n | _ => le_bytes 2 n end.
Definition ps35_u32 (c : codec) (n : N) : bytes := match c with EBE => be_bytes 4 n | _ => le_bytes 4 n end.

(** Data element header layout. [t] = (group, element).
    Implicit VR (Table 7.1-3): tag, 32-bit length.
    Explicit VR, 16-bit form (Table 7.1-2): tag, VR, 16-bit length.
    Explicit VR, other VRs (Table 7.1-1): tag, VR, reserved 0000H, 32-bit length. *)
Definition ps35_header (c : codec) (t : N * N) (v : vr) (len : N) : bytes :=
  match c with
  | ILE => ps35_u16 c (fst t) ++ ps35_u16 c (snd t) ++ ps35_u32 c len
  | _ =>
      if ps35_len16 v
      then ps35_u16 c (fst t) ++ ps35_u16 c (snd t) ++ ps35_vr_code v ++ ps35_u16 c len
      else ps35_u16 c (fst t) ++ ps35_u16 c (snd t) ++ ps35_vr_code v ++ [0; 0] ++ ps35_u32 c len
  end.

(** Items and delimiters (section 7.5): tag (FFFE,E000)/(FFFE,E00D)/(FFFE,E0DD)
    followed by a 32-bit length; delimiters have length 00000000H. *)
Definition ps35_item_header (c : codec) (len : N) : bytes :=
  ps35_u16 c 65534 ++ ps35_u16 c 57344 ++ ps35_u32 c len.
Definition ps35_item_delim (c : codec) : bytes :=
  ps35_u16 c 65534 ++ ps35_u16 c 57357 ++ ps35_u32 c 0.
Definition ps35_seq_delim (c : codec) : bytes :=
  ps35_u16 c 65534 ++ ps35_u16 c 57565 ++ ps35_u32 c 0.

Definition undefined_length : N := 4294967295.

(** * Values (PS3.5 6.2, 7.8): a value field has even length; an odd-length
    value is padded with one trailing byte: NUL (00H) for UI and for the
    binary VRs (OB, UN, ...), SPACE (20H) for the other character string VRs. *)
Definition ps35_text_vr (v : vr) : bool :=
  match v with
  | AE | AS | CS | DA | DS | DT | IS | LO | LT | PN | SH | ST | TM | UC | UI | UR | UT => true
  | _ => false
  end.
Definition ps35_pad (v : vr) : N := if ps35_text_vr v then (match v with UI => 0 | _ => 32 end) else 0.
Definition ps35_padded (v : vr) (raw : bytes) : bytes := if Nat.odd (length raw) then raw ++ [ps35_pad v] else raw.

(** * Canonical data sets and the reference encoder (sections 7.1, 7.5, A.4).
    A primitive element carries its value field (wire form); a sequence is a
    list of items, each flagged explicit-length or undefined-length, and is
    itself explicit-length or undefined-length; the lengths are computed here. *)
Inductive celem : Type :=
| CPrim (t : N * N) (v : vr) (val : bytes)
| CSeq (t : N * N) (explicit : bool) (items : list (bool * list celem))
| CPix (ot : list N) (frags : list bytes).

Definition ps35_len (b : bytes) : N := N.of_nat (length b).

Fixpoint canon_elem (c : codec) (e : celem) : bytes :=
  let items_enc :=
    fix items_enc (its : list (bool * list celem)) : bytes :=
      match its with
      | [] => []
      | (ex, es) :: rest =>
          let elems_enc :=
            fix elems_enc (es : list celem) : bytes :=
              match es with [] => [] | e :: es' => canon_elem c e ++ elems_enc es' end in
          let body := elems_enc es in
          (if ex then ps35_item_header c (ps35_len body) ++ body
           else ps35_item_header c undefined_length ++ body ++ ps35_item_delim c) ++ items_enc rest
      end in
  match e with
  | CPrim t v val => ps35_header c t v (ps35_len val) ++ val
  | CSeq t ex its =>
      let body := items_enc its in
      if ex then ps35_header c t SQ (ps35_len body) ++ body
      else ps35_header c t SQ undefined_length ++ body ++ ps35_seq_delim c
  | CPix ot frags =>
      ps35_header c (32736, 16) OB undefined_length
        ++ ps35_item_header c (4 * N.of_nat (length ot)) ++ flat_map (ps35_u32 c) ot
        ++ flat_map (fun f => ps35_item_header c (ps35_len f) ++ f) frags
        ++ ps35_seq_delim c
  end.
Fixpoint canon_encode (c : codec) (es : list celem) : bytes :=
  match es with [] => [] | e :: es' => canon_elem c e ++ canon_encode c es' end.
Fixpoint canon_items (c : codec) (its : list (bool * list celem)) : bytes :=
  match its with
  | [] => []
  | (ex, es) :: rest =>
      (if ex then ps35_item_header c (ps35_len (canon_encode c es)) ++ canon_encode c es
       else ps35_item_header c undefined_length ++ canon_encode c es ++ ps35_item_delim c) ++ canon_items c rest
  end.

(** * Structural validator (independent recursive-descent parser, explicit fuel).
    [is_sq]: in implicit VR, which tags are sequences (there is no VR on the wire).
    Checks: every header is complete; in explicit VR the VR code is a defined
    one, the 16-bit form is used exactly for the listed VRs and the reserved
    bytes are zero; every defined length is even and the value bytes are
    present; defined-length sequences and items end exactly where their
    length says; undefined-length ones are closed by the matching delimiter
    (with zero length); no stray delimiters; encapsulated pixel data is a
    sequence of defined, even-length items closed by a sequence delimiter. *)
Definition ps35_take (k : nat) (b : bytes) : option (bytes * bytes) :=
  if Nat.ltb (length b) k then None else Some (firstn k b, skipn k b).
Definition ps35_rd (c : codec) (b : bytes) : N := match c with EBE => be_val b | _ => le_val b end.
Definition bytes_eqb (a b : bytes) : bool := list_eqb N.eqb a b.
Definition ps35_vr_of_code (code : bytes) : option vr := find (fun v => bytes_eqb (ps35_vr_code v) code) all_vrs.

(* header of a data element: (tag, is-sequence-VR?, is-OB-or-unknown?, length, rest) *)
Definition ps35_parse_header (c : codec) (is_sq : N * N -> bool) (b : bytes)
  : option ((N * N) * bool * bool * N * bytes) :=
  match ps35_take 4 b with
  | None => None
  | Some (tg, r) =>
      let t := (ps35_rd c (firstn 2 tg), ps35_rd c (skipn 2 tg)) in
      match c with
      | ILE =>
          match ps35_take 4 r with
          | None => None
          | Some (l, r') => Some (t, is_sq t, true, ps35_rd c l, r')
          end
      | _ =>
          match ps35_take 2 r with
          | None => None
          | Some (code, r1) =>
              match ps35_vr_of_code code with
              | None => None
              | Some v =>
                  if ps35_len16 v then
                    match ps35_take 2 r1 with
                    | None => None
                    | Some (l, r2) => Some (t, vr_eqb v SQ, vr_eqb v OB, ps35_rd c l, r2)
                    end
                  else
                    match ps35_take 2 r1 with
                    | Some ([0; 0], r2) =>
                        match ps35_take 4 r2 with
                        | None => None
                        | Some (l, r3) => Some (t, vr_eqb v SQ, vr_eqb v OB, ps35_rd c l, r3)
                        end
                    | _ => None
                    end
              end
          end
      end
  end.

(* item-level header: (element number of group FFFE, length, rest) *)
Definition ps35_parse_item (c : codec) (b : bytes) : option (N * N * bytes) :=
  match ps35_take 8 b with
  | None => None
  | Some (h, r) =>
      if N.eqb (ps35_rd c (firstn 2 h)) 65534
      then Some (ps35_rd c (firstn 2 (skipn 2 h)), ps35_rd c (skipn 4 h), r)
      else None
  end.

Definition is_even (n : N) : bool := N.eqb (n mod 2) 0.

(* pixel fragments until the sequence delimiter; returns the rest *)
Fixpoint v_frags (fuel : nat) (c : codec) (b : bytes) : option bytes :=
  match fuel with
  | O => None
  | S f =>
      match ps35_parse_item c b with
      | Some (57565, 0, r) => Some r
      | Some (57344, len, r) =>
          if N.eqb len undefined_length || negb (is_even len) then None
          else match ps35_take (N.to_nat len) r with
               | Some (_, r') => v_frags f c r'
               | None => None
               end
      | _ => None
      end
  end.

(* [v_elems fuel c is_sq in_undef_item b]: the elements of a container.
   A defined-length container is validated on exactly its bytes ([in_undef_item = false]: must
   end at the end of [b], returns [Some []]); an undefined-length item ends at its item
   delimiter and the rest is returned. *)
Fixpoint v_elems (fuel : nat) (c : codec) (is_sq : N * N -> bool) (in_undef_item : bool) (b : bytes)
  : option bytes :=
  match fuel with
  | O => None
  | S f =>
      match b with
      | [] => if in_undef_item then None else Some []
      | _ =>
          match ps35_parse_item c b with
          | Some (57357, len, r) => if in_undef_item && N.eqb len 0 then Some r else None
          | Some _ => None     (* any other group-FFFE tag is not a data element *)
          | None =>
              match ps35_parse_header c is_sq b with
              | None => None
              | Some (t, sq, ob, len, r) =>
                  let items :=
                    fix items (g : nat) (undef_seq : bool) (b : bytes) : option bytes :=
                      match g with
                      | O => None
                      | S g' =>
                          match b with
                          | [] => if undef_seq then None else Some []
                          | _ =>
                              match ps35_parse_item c b with
                              | Some (57565, 0, r) => if undef_seq then Some r else None
                              | Some (57344, ilen, r) =>
                                  if N.eqb ilen undefined_length then
                                    match v_elems f c is_sq true r with
                                    | Some r' => items g' undef_seq r'
                                    | None => None
                                    end
                                  else if negb (is_even ilen) then None
                                  else
                                    match ps35_take (N.to_nat ilen) r with
                                    | Some (chunk, r') =>
                                        match v_elems f c is_sq false chunk with
                                        | Some _ => items g' undef_seq r'
                                        | None => None
                                        end
                                    | None => None
                                    end
                              | _ => None
                              end
                          end
                      end in
                  if N.eqb (fst t) 32736 && N.eqb (snd t) 16 && N.eqb len undefined_length && negb sq then
                    if ob then match v_frags fuel c r with
                               | Some r' => v_elems f c is_sq in_undef_item r'
                               | None => None end
                    else None
                  else if sq || N.eqb len undefined_length then
                    if N.eqb len undefined_length then
                      match items fuel true r with
                      | Some r' => v_elems f c is_sq in_undef_item r'
                      | None => None
                      end
                    else if negb (is_even len) then None
                    else
                      match ps35_take (N.to_nat len) r with
                      | Some (chunk, r') =>
                          match items fuel false chunk with
                          | Some _ => v_elems f c is_sq in_undef_item r'
                          | None => None
                          end
                      | None => None
                      end
                  else if negb (is_even len) then None
                  else
                    match ps35_take (N.to_nat len) r with
                    | Some (_, r') => v_elems f c is_sq in_undef_item r'
                    | None => None
                    end
              end
          end
      end
  end.

Definition ps35_valid (c : codec) (is_sq : N * N -> bool) (b : bytes) : bool :=
  match v_elems (S (length b)) c is_sq false b with Some _ => true | None => false end.
