(** Independent structural check of one PDU against DICOM PS3.8 section 9.3
    (and PS3.7 Annex D for the user information sub-items): every length field
    describes exactly the bytes that follow it, items and sub-items tile their
    container exactly, and only the item types allowed in a container occur.
    Written from the standard's tables; shares no code with Model/Pdu.v. *)
From DicomV Require Export Base.Prelude Base.Endian.

Definition nlen (b : bytes) : N := N.of_nat (length b).

(** [b] is a sequence of items "type(1) reserved(1) length(2) content(length)";
    returns (type, content) of each, or None if they do not tile [b] exactly. *)
Fixpoint tlv16 (fuel : nat) (b : bytes) : option (list (N * bytes)) :=
  match b with
  | [] => Some []
  | t :: _ :: l1 :: l0 :: r =>
      match fuel with
      | O => None
      | S f =>
          let l := N.to_nat (be_val [l1; l0]) in
          if (length r <? l)%nat then None
          else match tlv16 f (skipn l r) with
               | Some items => Some ((t, firstn l r) :: items)
               | None => None
               end
      end
  | _ => None
  end.
Definition items16 (b : bytes) : option (list (N * bytes)) := tlv16 (length b) b.

(** PS3.7 D.3.3: user information sub-items with an inner structure *)
Definition user_sub_ok (tc : N * bytes) : bool :=
  let '(t, c) := tc in
  if t =? 81 then nlen c =? 4                                   (* 51H maximum length: 4 bytes *)
  else if t =? 84 then                                           (* 54H SCP/SCU role: uid-length, uid, 2 role bytes *)
    match c with u1 :: u0 :: r => nlen r =? be_val [u1; u0] + 2 | _ => false end
  else if t =? 86 then                                           (* 56H SOP class extended negotiation: uid-length, uid, info *)
    match c with u1 :: u0 :: r => be_val [u1; u0] <=? nlen r | _ => false end
  else if t =? 88 then                                           (* 58H user identity: type, flag, 2 length-prefixed fields *)
    match c with
    | _ :: _ :: p1 :: p0 :: r =>
        let pl := N.to_nat (be_val [p1; p0]) in
        (pl + 2 <=? length r)%nat &&
        match skipn pl r with s1 :: s0 :: r2 => nlen r2 =? be_val [s1; s0] | _ => false end
    | _ => false
    end
  else true.

(** PS3.8 9.3.2 / 9.3.3: variable items of A-ASSOCIATE-RQ / -AC *)
Definition assoc_item_ok (tc : N * bytes) : bool :=
  let '(t, c) := tc in
  if t =? 32 then                                                (* 20H: id + 3 reserved, then 30H / 40H sub-items *)
    (4 <=? length c)%nat &&
    match items16 (skipn 4 c) with
    | Some subs => forallb (fun s => (fst s =? 48) || (fst s =? 64)) subs
    | None => false
    end
  else if t =? 33 then                                           (* 21H: id, reserved, result, reserved, then 40H *)
    (4 <=? length c)%nat &&
    match items16 (skipn 4 c) with
    | Some subs => forallb (fun s => fst s =? 64) subs
    | None => false
    end
  else if t =? 80 then                                           (* 50H: user information *)
    match items16 c with Some subs => forallb user_sub_ok subs | None => false end
  else true.

(** PS3.8 9.3.5: presentation data value items: length(4) >= 2, context id, header, data *)
Fixpoint pdvs_ok (fuel : nat) (b : bytes) : bool :=
  match b with
  | [] => true
  | l3 :: l2 :: l1 :: l0 :: r =>
      match fuel with
      | O => false
      | S f =>
          let il := N.to_nat (be_val [l3; l2; l1; l0]) in
          (2 <=? il)%nat && (il <=? length r)%nat && pdvs_ok f (skipn il r)
      end
  | _ => false
  end.

(** one complete PDU, nothing before or after *)
Definition ps38_valid (b : bytes) : bool :=
  match b with
  | t :: _ :: l3 :: l2 :: l1 :: l0 :: body =>
      (be_val [l3; l2; l1; l0] =? nlen body) &&
      if (t =? 1) || (t =? 2) then
        (68 <=? length body)%nat &&
        match items16 (skipn 68 body) with
        | Some items => forallb assoc_item_ok items
        | None => false
        end
      else if (t =? 3) || (t =? 5) || (t =? 6) || (t =? 7) then nlen body =? 4
      else if t =? 4 then pdvs_ok (length body) body
      else true
  | _ => false
  end.
