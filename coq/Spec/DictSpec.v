(** What the published table prescribes for a tag (the precedence text of property
    C15), written over the entry table alone: no maps, no sets, no masks.
    [TagRange] documentation: Group100 = "(GGxx,EEEE): the two rightmost digits
    of the group are open", Element100 = "(GGGG,EExx)". *)
From DicomV Require Export Model.DictBase.
Open Scope N_scope.

Section Spec.
Variable entries : list entry.
Variable group_length_entry private_creator_entry : entry.

Definition s_group (en : entry) : N := e_tag en / 65536.
Definition s_elem (en : entry) : N := e_tag en mod 65536.

(** the entry for exactly this tag *)
Definition is_exact (g e : N) (en : entry) : bool :=
  (e_kind en =? K_SINGLE) && (s_group en =? g) && (s_elem en =? e).
(** a repeating-group entry (GGxx,EEEE) covering the tag *)
Definition covers_group100 (g e : N) (en : entry) : bool :=
  (e_kind en =? K_GROUP100) && (s_group en / 256 =? g / 256) && (s_elem en =? e).
(** a repeating-element entry (GGGG,EExx) covering the tag *)
Definition covers_element100 (g e : N) (en : entry) : bool :=
  (e_kind en =? K_ELEMENT100) && (s_group en =? g) && (s_elem en / 256 =? e / 256).

Definition is_private_creator_tag (g e : N) : bool := N.odd g && (16 <=? e) && (e <=? 255).
Definition is_group_length_tag (g e : N) : bool := e =? 0.

Definition spec_lookup (g e : N) : option entry :=
  match find (is_exact g e) entries with
  | Some en => Some en
  | None =>
  match find (covers_group100 g e) entries with
  | Some en => Some en
  | None =>
  match find (covers_element100 g e) entries with
  | Some en => Some en
  | None =>
      if is_private_creator_tag g e then Some private_creator_entry
      else if is_group_length_tag g e then Some group_length_entry
      else None
  end end end.

(** "the" entry: at most one table row answers each of the three questions *)
Definition unambiguous : Prop :=
  forall g e a b, In a entries -> In b entries ->
    (is_exact g e a = true /\ is_exact g e b = true) \/
    (covers_group100 g e a = true /\ covers_group100 g e b = true) \/
    (covers_element100 g e a = true /\ covers_element100 g e b = true) -> a = b.
End Spec.
