(** PS3.3 C.7.6.3.1 (stored values), C.11.1 (modality rescale), C.11.2.1.2.1
    (LINEAR), C.11.2.1.3.2 (LINEAR_EXACT), C.11.2.1.3.1 (SIGMOID), written from
    the standard, independently of the model of the Rust code.

    Two readings of the formulas are given: over the reals ([R], the standard's
    mathematics) and in binary64 arithmetic with the standard's operation
    order (what an implementation that "evaluates the formula in f64" gets). *)
From Coq Require Import Floats Reals.
From DicomV Require Export Base.Prelude.

(** The pixel value of a raw sample: only the [bits] (Bits Stored) low bits count
    (High Bit = Bits Stored - 1); with Pixel Representation 1 they are a two's
    complement number, i.e. the top stored bit weighs -2^(bits-1). *)
Definition stored_value (bits : N) (signed : bool) (raw : N) : Z :=
  let v := N.land raw (N.ones bits) in
  if signed && N.testbit v (bits - 1) then (Z.of_N v - 2 ^ Z.of_N bits)%Z else Z.of_N v.

(** *** over the reals *)
Section Reals.
  Local Open Scope R_scope.
  Definition R_rescale (m b x : R) : R := m * x + b.
  (* y_min = 0 *)
  Definition R_linear (x c w ymax : R) : R :=
    if Rle_dec x (c - 0.5 - (w - 1) / 2) then 0
    else if Rlt_dec (c - 0.5 + (w - 1) / 2) x then ymax
    else ((x - (c - 0.5)) / (w - 1) + 0.5) * (ymax - 0) + 0.
  Definition R_linear_exact (x c w ymax : R) : R :=
    if Rle_dec x (c - w / 2) then 0
    else if Rlt_dec (c + w / 2) x then ymax
    else ((x - c) / w + 0.5) * (ymax - 0) + 0.
End Reals.

(** *** in binary64, the standard's operation order, y_min = 0 *)
Section F64.
  Local Open Scope float_scope.
  Definition F_rescale (m b x : float) : float := m * x + b.
  Definition F_linear (x c w ymax : float) : float :=
    if x <=? c - 0.5 - (w - 1) / 2 then 0
    else if c - 0.5 + (w - 1) / 2 <? x then ymax
    else ((x - (c - 0.5)) / (w - 1) + 0.5) * ymax.
  Definition F_linear_exact (x c w ymax : float) : float :=
    if x <=? c - w / 2 then 0
    else if c + w / 2 <? x then ymax
    else ((x - c) / w + 0.5) * ymax.
  Variable fexp : float -> float.
  Definition F_sigmoid (x c w ymax : float) : float := ymax / (1 + fexp (-4 * (x - c) / w)).
End F64.
