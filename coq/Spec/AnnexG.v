(** PS3.5 Annex G (RLE Lossless) written from the standard, independent of the
    decoder model: the PackBits relation (G.3.1, G.3.2), the composite pixel
    code / byte segment order (G.2) and the RLE header (G.5). *)
From DicomV Require Export Base.Endian.

(** G.3: a Byte Segment is encoded as a sequence of Literal Runs (header n in
    0..127 followed by n+1 literal bytes) and Replicate Runs (header -n, n in
    1..127, i.e. the byte 256-n, followed by one byte to be repeated n+1
    times, so 2..128 copies); the header -128 (byte 128) is a no-op a decoder
    must skip. The relation admits EVERY segmentation of the data into such
    runs: where runs start and end, whether a repetition is coded as a
    replicate run or literally, runs of any length (split at 128), no-op
    bytes anywhere between runs. *)
Inductive packbits_enc : bytes -> bytes -> Prop :=
| pb_end : packbits_enc [] []
| pb_literal (l d b : bytes) :
    (1 <= length l <= 128)%nat -> packbits_enc d b ->
    packbits_enc (l ++ d) (N.of_nat (length l - 1) :: l ++ b)
| pb_replicate (x : N) (n : nat) (d b : bytes) :
    (2 <= n <= 128)%nat -> packbits_enc d b ->
    packbits_enc (repeat x n ++ d) (257 - N.of_nat n :: x :: b)
| pb_noop (d b : bytes) :
    packbits_enc d b -> packbits_enc d (128 :: b).

(** G.2: the Composite Pixel Code of a pixel is the concatenation of its
    sample values, first sample most significant; it is split into bytes, most
    significant byte first; Byte Segment k holds byte k of every pixel's
    Composite Pixel Code, in pixel order. A pixel is the list of its sample
    values, [bps] bytes per sample. *)
Definition composite (bps : nat) (px : list N) : bytes := flat_map (be_bytes bps) px.
Definition byte_segment (bps : nat) (pixels : list (list N)) (k : nat) : bytes :=
  map (fun px => nth k (composite bps px) 0) pixels.
Definition byte_segments (bps spp : nat) (pixels : list (list N)) : list bytes :=
  map (byte_segment bps pixels) (seq 0 (spp * bps)).

(** G.3.1: each RLE segment is padded with a zero byte to an even length. *)
Definition pad_even (b : bytes) : bytes := if Nat.even (length b) then b else b ++ [0].

(** G.5: the header is 16 unsigned 32-bit little-endian words: the number of
    segments, the byte offset of each segment from the start of the header,
    unused offsets zero; the segments follow immediately. *)
Fixpoint seg_offsets (start : N) (segs : list bytes) : list N :=
  match segs with
  | [] => []
  | s :: rest => start :: seg_offsets (start + N.of_nat (length s)) rest
  end.
Definition rle_header (segs : list bytes) : bytes :=
  le32 (N.of_nat (length segs)) ++ flat_map le32 (seg_offsets 64 segs)
  ++ repeat 0 (4 * (15 - length segs)).
Definition rle_fragment (segs : list bytes) : bytes := rle_header segs ++ concat segs.

(** [annexg_enc bps spp pixels frag]: [frag] is an Annex G encoding of the
    frame [pixels] for some choice of run segmentation of every byte segment. *)
Inductive annexg_enc (bps spp : nat) (pixels : list (list N)) : bytes -> Prop :=
| annexg_intro (encs : list bytes) :
    Forall2 packbits_enc (byte_segments bps spp pixels) encs ->
    annexg_enc bps spp pixels (rle_fragment (map pad_even encs)).

(** The native form the decoder must produce: little-endian samples, pixel
    interleaved (sample 0, sample 1, ... of pixel 0, then pixel 1, ...). *)
Definition native_pixel (bps : nat) (px : list N) : bytes := flat_map (le_bytes bps) px.
Definition native_frame (bps : nat) (pixels : list (list N)) : bytes := flat_map (native_pixel bps) pixels.

(** well-formed frame: every pixel has [spp] samples (values are reduced mod 256^bps by the byte split) *)
Definition wf_frame (spp : nat) (pixels : list (list N)) : Prop :=
  Forall (fun px => length px = spp) pixels.
