(** PS3.18 Annex F (DICOM JSON Model) as a validator over JSON value trees,
    written from the standard (F.2.2 - F.2.7, Table F.2.3-1), independent of the
    serialiser model: it shares with [Model.Json] only the JSON tree type.

    A DICOM JSON data set is an object whose keys are eight upper-case
    hexadecimal digits in ascending order; every attribute object has exactly
    one "vr" (a known VR code) and at most one of "Value", "BulkDataURI",
    "InlineBinary"; "Value" is a non-empty array whose items follow the VR. *)
From DicomV Require Import Model.Json.
From Coq Require String.
Import String.StringSyntax.
Delimit Scope string_scope with string.

Definition is_upper_hex (c : N) : bool := ((48 <=? c) && (c <=? 57)) || ((65 <=? c) && (c <=? 70)).
Definition upper_hex_val (c : N) : N := if c <=? 57 then c - 48 else c - 55.
Definition is_hex8 (s : str) : bool := (length s =? 8)%nat && forallb is_upper_hex s.
(* numeric value of a key, for the ordering *)
Definition key_num (s : str) : N := fold_left (fun a c => a * 16 + upper_hex_val c) s 0.

(* base64 (RFC 4648 section 4) with padding, canonical *)
Definition b64_index (c : N) : option N :=
  if (65 <=? c) && (c <=? 90) then Some (c - 65)
  else if (97 <=? c) && (c <=? 122) then Some (c - 97 + 26)
  else if (48 <=? c) && (c <=? 57) then Some (c - 48 + 52)
  else if c =? 43 then Some 62 else if c =? 47 then Some 63 else None.
Fixpoint is_base64 (s : str) : bool :=
  match s with
  | [] => true
  | [a; b; c; d] =>
      match b64_index a, b64_index b with
      | Some _, Some vb =>
          if c =? 61 then (d =? 61) && (vb mod 16 =? 0)
          else match b64_index c with
               | Some vc => if d =? 61 then vc mod 4 =? 0 else is_some (b64_index d)
               | None => false
               end
      | _, _ => false
      end
  | a :: b :: c :: d :: r =>
      is_some (b64_index a) && is_some (b64_index b) && is_some (b64_index c) && is_some (b64_index d) && is_base64 r
  | _ => false
  end.

(** Table F.2.3-1: JSON data type per VR *)
Inductive jtype := TString | TTag | TPerson | TNumber | TNumOrStr | TIntOrStr | TInt (lo hi : Z) | TBase64 | TSeq.
Definition vr_table : list (str * jtype) :=
  [ (L"AE", TString); (L"AS", TString); (L"AT", TTag); (L"CS", TString); (L"DA", TString);
    (L"DS", TNumOrStr); (L"DT", TString); (L"FL", TNumber); (L"FD", TNumber); (L"IS", TNumOrStr);
    (L"LO", TString); (L"LT", TString); (L"OB", TBase64); (L"OD", TBase64); (L"OF", TBase64);
    (L"OL", TBase64); (L"OV", TBase64); (L"OW", TBase64); (L"PN", TPerson); (L"SH", TString);
    (L"SL", TInt (-2147483648) 2147483647); (L"SQ", TSeq); (L"SS", TInt (-32768) 32767); (L"ST", TString);
    (L"SV", TIntOrStr); (L"TM", TString); (L"UC", TString); (L"UI", TString);
    (L"UL", TInt 0 4294967295); (L"UN", TBase64); (L"UR", TString); (L"US", TInt 0 65535);
    (L"UT", TString); (L"UV", TIntOrStr) ].
Fixpoint lookup_vr (s : str) (t : list (str * jtype)) : option jtype :=
  match t with [] => None | (k, v) :: r => if str_eqb k s then Some v else lookup_vr s r end.

(* F.2.2: a person name is an object of component groups, each a string *)
Definition no_eq_sign (s : str) : bool := negb (existsb (N.eqb 61) s).
Definition pn_key (k : str) : bool :=
  str_eqb k (L"Alphabetic") || str_eqb k (L"Ideographic") || str_eqb k (L"Phonetic").
Definition count_key (k : str) (m : list (str * json)) : nat :=
  length (filter (fun kv => str_eqb (fst kv) k) m).
Definition ok_person (j : json) : bool :=
  match j with
  | JObj m =>
      let l := jmembers_list m in
      forallb (fun kv => pn_key (fst kv) && match snd kv with JStr s => no_eq_sign s | _ => false end) l
      && (count_key (L"Alphabetic") l =? 1)%nat
      && (count_key (L"Ideographic") l <=? 1)%nat && (count_key (L"Phonetic") l <=? 1)%nat
  | _ => false
  end.

(* items of a "Value" array other than sequence items *)
Definition ok_item (t : jtype) (j : json) : bool :=
  match t, j with
  | TString, JStr _ => true
  | TString, JNull => true          (* F.2.5: an empty value within a multi-valued attribute is null *)
  | TTag, JStr s => is_hex8 s
  | TPerson, _ => ok_person j
  | TNumber, JInt _ => true
  | TNumber, JFloat _ => true
  | TNumber, JStr s => str_eqb s (L"NaN") || str_eqb s (L"inf") || str_eqb s (L"-inf")   (* the documented strings *)
  | TNumOrStr, JInt _ => true
  | TNumOrStr, JFloat _ => true
  | TNumOrStr, JStr _ => true
  | TIntOrStr, JInt _ => true
  | TIntOrStr, JStr _ => true
  | TInt lo hi, JInt z => (lo <=? z)%Z && (z <=? hi)%Z
  | _, _ => false
  end.

Definition value_keys : list str := [L"Value"; L"InlineBinary"; L"BulkDataURI"].
Definition vr_of_members (m : jmembers) : option jtype :=
  match filter (fun kv => str_eqb (fst kv) (L"vr")) (jmembers_list m) with
  | [(_, JStr s)] => lookup_vr s vr_table
  | _ => None
  end.
Definition value_member_count (m : jmembers) : nat :=
  length (filter (fun kv => existsb (str_eqb (fst kv)) value_keys) (jmembers_list m)).

Fixpoint ok_ds (j : json) : bool :=
  match j with JObj m => ok_ds_members m None | _ => false end
with ok_ds_members (m : jmembers) (prev : option N) : bool :=
  match m with
  | MNil => true
  | MCons k j tl =>
      is_hex8 k && tag_above prev (key_num k) && ok_attr j && ok_ds_members tl (Some (key_num k))
  end
with ok_attr (j : json) : bool :=
  match j with
  | JObj m =>
      match vr_of_members m with
      | Some t => (value_member_count m <=? 1)%nat && ok_attr_members t m
      | None => false
      end
  | _ => false
  end
with ok_attr_members (t : jtype) (m : jmembers) : bool :=
  match m with
  | MNil => true
  | MCons k j tl =>
      (if str_eqb k (L"vr") then true
       else if str_eqb k (L"Value") then
         match j with
         | JArr JNil => false                         (* F.2.5: an empty attribute has no "Value" *)
         | JArr l => match t with
                     | TSeq => ok_seq_items l
                     | TBase64 => false
                     | _ => forallb (ok_item t) (jlist_list l)
                     end
         | _ => false
         end
       else if str_eqb k (L"InlineBinary") then
         match t, j with
         | TBase64, JStr s => negb (is_nil s) && is_base64 s
         | _, _ => false
         end
       else if str_eqb k (L"BulkDataURI") then match j with JStr _ => true | _ => false end
       else false)
      && ok_attr_members t tl
  end
with ok_seq_items (l : jlist) : bool :=
  match l with
  | JNil => true
  | JCons j tl => ok_ds j && ok_seq_items tl
  end.

Definition annexf_ok (j : json) : bool := ok_ds j.

(** correspondence for C24: the model serialiser agrees with to_value, and this
    validator agrees with the harness' (Rust) validator on the real output *)
Definition check_case (c : jcase) : bool :=
  match c with
  | CaseRT X d out back annexf _ conf _ =>
      Bool.eqb (conf_dset X d) conf &&
      outcome_eqb json_eqb (ser X d) out &&
      match out with Ok j => Bool.eqb (annexf_ok j) annexf | _ => true end
  | CaseDe _ _ _ => true
  end.
