(** Reference semantics of attribute operations, written from the documentation of
    core/src/ops.rs ([AttributeAction], [AttributeSelector], [ApplyOp]) — NOT from the code of
    InMemDicomObject.  An object is a finite map from tags to (VR, value); a value is a primitive
    value, a sequence of objects, or pixel data fragments.  The finite map is the same
    representation the model uses (list in tag order, [get]/[put]/[del] of Model/Ops.v); what is
    independent here is the meaning of each action and of nested selectors:

    - an operation either succeeds with a new object or fails WITHOUT changing anything
      ("an error is returned and no changes to the receiver are made");
    - a nested step (tag, item) selects item [item] of the sequence at [tag]; for constructive
      actions (the Set, SetIfMissing and Push families) a missing sequence is created and "the next item"
      (index = current number of items) is appended; everything else on a missing path fails;
    - Remove / Empty / SetVr / Replace / Truncate do nothing when the attribute does not exist;
    - Set creates or fully resets; SetIfMissing only creates; Push appends or creates;
    - for objects supporting nested data sets, an empty value under the VR SQ is an empty sequence. *)
From DicomV Require Export Model.Ops.

Section Spec.
Variable dict : N -> option N.

(* the VR a new attribute gets: the dictionary's, else [default] *)
Definition s_vr (t default : N) : N := match dict t with Some v => v | None => default end.
(* the value stored when a primitive value is assigned under a VR *)
Definition s_store (vr : N) (p : prim) : value :=
  if (vr =? VR_SQ) && prim_is_empty p then VSeq [] else VPrim p.

Definition s_assign (o : obj) (t : N) (p : prim) : obj :=
  let vr := match get o t with Some e => e_vr e | None => s_vr t VR_UN end in
  put o (t, vr, s_store vr p).

Definition s_push_prim (a : action) (p : prim) : outcome prim :=
  match a with
  | APushStr s => extend_str p s
  | APushNum own casts text => extend_num p own casts text
  | _ => Ok p
  end.
Definition s_fresh (a : action) : prim :=
  match a with
  | APushStr s => PStr s
  | APushNum own casts _ => PNum own [nth (N.to_nat own) casts 0]
  | _ => PEmpty
  end.
Definition s_fresh_vr (t : N) (a : action) : N :=
  match a with
  | APushNum own _ _ => s_vr t (default_vr own)
  | _ => s_vr t VR_UN
  end.

(* the VR change is taken as a hint: it is ignored when the value cannot be encoded under it *)
Definition s_vr_fits (nvr : N) (v : value) : bool :=
  match v with VSeq _ => nvr =? VR_SQ | VPix _ _ => nvr =? VR_OB | VPrim _ => negb (nvr =? VR_SQ) end.

Definition spec_leaf (t : N) (a : action) (o : obj) : outcome obj :=
  match get o t, a with
  (* the attribute does not exist *)
  | None, (ARemove | AEmpty | ASetVr _ | AReplace _ | ATruncate _) => Ok o
  | None, (ASet p | ASetIfMissing p) => Ok (s_assign o t p)
  | None, (APushStr _ | APushNum _ _ _) => Ok (put o (t, s_fresh_vr t a, VPrim (s_fresh a)))
  (* the attribute exists *)
  | Some e, ARemove => Ok (del o t)
  | Some e, AEmpty => Ok (put o (t, e_vr e, s_store (e_vr e) PEmpty))
  | Some e, ASetVr nvr => Ok (if s_vr_fits nvr (e_val e) then put o (t, nvr, e_val e) else o)
  | Some e, (ASet p | AReplace p) => Ok (s_assign o t p)
  | Some e, ASetIfMissing _ => Ok o
  | Some e, (APushStr _ | APushNum _ _ _) =>
      match e_val e with
      | VPrim p => p' <- s_push_prim a p ;; Ok (put o (t, e_vr e, VPrim p'))
      | _ => Err e_incompatible
      end
  | Some e, ATruncate n => Ok (put o (t, e_vr e, value_truncate n (e_val e)))
  end.

Fixpoint spec_apply (steps : list (N * N)) (leaf : N) (a : action) (o : obj) : outcome obj :=
  match steps with
  | [] => spec_leaf leaf a o
  | (t, item) :: rest =>
    match get o t with
    | None =>
        if constructive a then
          (* a sequence can be created for attributes the dictionary lists as SQ or does not list *)
          if negb (s_vr t VR_UN =? VR_SQ) && negb (s_vr t VR_UN =? VR_UN) then Err e_not_a_seq
          else if item =? 0 then it <- spec_apply rest leaf a [] ;; Ok (put o (t, VR_SQ, VSeq [it]))
          else Err e_missing_seq
        else Err e_missing_seq
    | Some (_, vr, VSeq items) =>
        match nth_error items (N.to_nat item) with
        | Some it0 => it <- spec_apply rest leaf a it0 ;; Ok (put o (t, vr, VSeq (set_nth items (N.to_nat item) it)))
        | None =>
            if (item =? N.of_nat (length items)) && constructive a
            then it <- spec_apply rest leaf a [] ;; Ok (put o (t, vr, VSeq (items ++ [it])))
            else Err e_missing_seq
        end
    | Some _ => Err e_not_a_seq
    end
  end.

Definition spec_op (o : obj) (x : op) : outcome obj :=
  let '(steps, leaf, a) := x in spec_apply steps leaf a o.
(* histories: a failed operation leaves the object as it was *)
Definition spec_step (o : obj) (x : op) : obj := match spec_op o x with Ok o' => o' | _ => o end.
Definition spec_all (ops : list op) (o : obj) : obj := fold_left spec_step ops o.
End Spec.
