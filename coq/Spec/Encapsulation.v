(** PS3.5 A.4 (encapsulated pixel data) written from the standard: after the
    Basic Offset Table item, the value is a sequence of items, each an 8-byte
    header (tag FFFE,E000 + 32-bit length) followed by a fragment of even
    length. The Basic Offset Table has one entry per frame: the byte offset of
    the first byte of the item tag of the frame's first fragment, measured
    from the first byte of the item tag of the first fragment after the table
    (so the first entry is 0). *)
From DicomV Require Export Base.Prelude.

Definition len (d : bytes) : N := N.of_nat (length d).
Definition sumN (l : list N) : N := fold_right N.add 0 l.

(* length of a fragment as written: values are padded to even length *)
Definition wire_len (f : bytes) : N := len f + len f mod 2.
Definition item_size (f : bytes) : N := 8 + wire_len f.
(* bytes occupied by the items of one frame *)
Definition frame_bytes (frame : list bytes) : N := sumN (map item_size frame).

(** [bot_spec start frames]: the offset table of [frames] (each a list of
    fragments) when the first frame's first item is at offset [start]. *)
Fixpoint bot_spec (start : N) (frames : list (list bytes)) : list N :=
  match frames with
  | [] => []
  | fr :: rest => start :: bot_spec (start + frame_bytes fr) rest
  end.

Definition even_frag (f : bytes) : Prop := len f mod 2 = 0.
