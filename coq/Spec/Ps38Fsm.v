(** The part of the DICOM Upper Layer state machine that governs an ESTABLISHED
    association, written from PS3.8 section 9.2 (Table 9-10 "DICOM Upper Layer
    Protocol State Transition Table", with the actions of Tables 9-6 .. 9-9),
    independently of the dicom-rs code.

    States kept: Sta1 (idle, no transport connection), Sta6 (association
    established, ready for data transfer), Sta7 (awaiting A-RELEASE-RP PDU),
    Sta8 (awaiting local A-RELEASE response primitive), Sta9 / Sta10 (release
    collision, requestor / acceptor side: awaiting A-RELEASE response primitive /
    awaiting A-RELEASE-RP PDU), Sta11 / Sta12 (release collision, requestor side:
    awaiting A-RELEASE-RP PDU / acceptor side: awaiting A-RELEASE response
    primitive), Sta13 (awaiting transport connection close).

    A transition yields the next state and the PDU the machine sends, if any. *)
From Coq Require Import List.
Import ListNotations.

Inductive role := AssocRequestor | AssocAcceptor.

Inductive sta := Sta1 | Sta6 | Sta7 | Sta8 | Sta9 | Sta10 | Sta11 | Sta12 | Sta13.

Inductive pdu := PDataTf | AReleaseRq | AReleaseRp | AAbort.

Inductive event :=
(* service primitives issued by the local user *)
| EvPDataReq          (* P-DATA request *)
| EvReleaseReq        (* A-RELEASE request *)
| EvReleaseRsp        (* A-RELEASE response *)
| EvAbortReq          (* A-ABORT request *)
(* PDUs received on the transport connection *)
| EvRecv (p : pdu)
(* local transport service / timer *)
| EvConnClosed        (* transport connection closed indication *)
| EvArtimExpired.     (* ARTIM timer expired *)

(** AA-8: send A-ABORT PDU (service-provider source), issue A-P-ABORT indication, start ARTIM -> Sta13 *)
Definition aa8 : option (sta * option pdu) := Some (Sta13, Some AAbort).
(** AA-1: send A-ABORT PDU (service-user source), start (or restart) ARTIM -> Sta13 *)
Definition aa1 : option (sta * option pdu) := Some (Sta13, Some AAbort).
(** AA-3: issue A-ABORT / A-P-ABORT indication and close the transport connection -> Sta1 *)
Definition aa3 : option (sta * option pdu) := Some (Sta1, None).
(** AA-4: issue A-P-ABORT indication -> Sta1 *)
Definition aa4 : option (sta * option pdu) := Some (Sta1, None).

Definition ps38_step (r : role) (s : sta) (e : event) : option (sta * option pdu) :=
  match s, e with
  (* ---- Sta6: association established *)
  | Sta6, EvPDataReq => Some (Sta6, Some PDataTf)                  (* DT-1 *)
  | Sta6, EvRecv PDataTf => Some (Sta6, None)                      (* DT-2 *)
  | Sta6, EvReleaseReq => Some (Sta7, Some AReleaseRq)             (* AR-1 *)
  | Sta6, EvRecv AReleaseRq => Some (Sta8, None)                   (* AR-2 *)
  | Sta6, EvRecv AReleaseRp => aa8
  | Sta6, EvAbortReq => aa1
  | Sta6, EvRecv AAbort => aa3
  | Sta6, EvConnClosed => aa4
  (* ---- Sta7: awaiting A-RELEASE-RP *)
  | Sta7, EvRecv PDataTf => Some (Sta7, None)                      (* AR-6 *)
  | Sta7, EvRecv AReleaseRq =>                                     (* AR-8: release collision *)
      Some (match r with AssocRequestor => Sta9 | AssocAcceptor => Sta10 end, None)
  | Sta7, EvRecv AReleaseRp => Some (Sta1, None)                   (* AR-3: confirmation, close transport *)
  | Sta7, EvAbortReq => aa1
  | Sta7, EvRecv AAbort => aa3
  | Sta7, EvConnClosed => aa4
  (* ---- Sta8: awaiting local A-RELEASE response *)
  | Sta8, EvPDataReq => Some (Sta8, Some PDataTf)                  (* AR-7 *)
  | Sta8, EvReleaseRsp => Some (Sta13, Some AReleaseRp)            (* AR-4: send RP, start ARTIM *)
  | Sta8, EvRecv PDataTf => aa8
  | Sta8, EvRecv AReleaseRq => aa8
  | Sta8, EvRecv AReleaseRp => aa8
  | Sta8, EvAbortReq => aa1
  | Sta8, EvRecv AAbort => aa3
  | Sta8, EvConnClosed => aa4
  (* ---- Sta9: release collision, requestor side, awaiting A-RELEASE response *)
  | Sta9, EvReleaseRsp => Some (Sta11, Some AReleaseRp)            (* AR-9 *)
  | Sta9, EvRecv PDataTf => aa8
  | Sta9, EvRecv AReleaseRq => aa8
  | Sta9, EvRecv AReleaseRp => aa8
  | Sta9, EvAbortReq => aa1
  | Sta9, EvRecv AAbort => aa3
  | Sta9, EvConnClosed => aa4
  (* ---- Sta10: release collision, acceptor side, awaiting A-RELEASE-RP *)
  | Sta10, EvRecv AReleaseRp => Some (Sta12, None)                 (* AR-10 *)
  | Sta10, EvRecv PDataTf => aa8
  | Sta10, EvRecv AReleaseRq => aa8
  | Sta10, EvAbortReq => aa1
  | Sta10, EvRecv AAbort => aa3
  | Sta10, EvConnClosed => aa4
  (* ---- Sta11: release collision, requestor side, awaiting A-RELEASE-RP *)
  | Sta11, EvRecv AReleaseRp => Some (Sta1, None)                  (* AR-3 *)
  | Sta11, EvRecv PDataTf => aa8
  | Sta11, EvRecv AReleaseRq => aa8
  | Sta11, EvAbortReq => aa1
  | Sta11, EvRecv AAbort => aa3
  | Sta11, EvConnClosed => aa4
  (* ---- Sta12: release collision, acceptor side, awaiting A-RELEASE response *)
  | Sta12, EvReleaseRsp => Some (Sta13, Some AReleaseRp)           (* AR-4 *)
  | Sta12, EvRecv PDataTf => aa8
  | Sta12, EvRecv AReleaseRq => aa8
  | Sta12, EvRecv AReleaseRp => aa8
  | Sta12, EvAbortReq => aa1
  | Sta12, EvRecv AAbort => aa3
  | Sta12, EvConnClosed => aa4
  (* ---- Sta13: awaiting transport connection close *)
  | Sta13, EvRecv AAbort => Some (Sta1, None)                      (* AA-2: stop ARTIM, close transport *)
  | Sta13, EvRecv _ => Some (Sta13, None)                          (* AA-6: ignore PDU *)
  | Sta13, EvConnClosed => Some (Sta1, None)                       (* AR-5: stop ARTIM *)
  | Sta13, EvArtimExpired => Some (Sta1, None)                     (* AA-2: close transport *)
  (* every other (state, event) pair is not a legal move of the machine
     (primitives the user may not issue in that state; nothing happens in Sta1) *)
  | _, _ => None
  end.

(** A peer's observable behaviour: the events it went through, each with the PDU
    it put on the wire at that moment (None = nothing sent). *)
Definition obs := list (event * option pdu).

Definition opdu_eqb (a b : option pdu) : bool :=
  match a, b with
  | None, None => true
  | Some PDataTf, Some PDataTf | Some AReleaseRq, Some AReleaseRq
  | Some AReleaseRp, Some AReleaseRp | Some AAbort, Some AAbort => true
  | _, _ => false
  end.

(** run the machine over a behaviour; the PDU sent at each step must be the one the machine sends *)
Fixpoint ps38_run (r : role) (s : sta) (o : obs) : option sta :=
  match o with
  | [] => Some s
  | (e, sent) :: o' =>
      match ps38_step r s e with
      | Some (s', out) => if opdu_eqb out sent then ps38_run r s' o' else None
      | None => None
      end
  end.

Definition ps38_accepts (r : role) (o : obs) : bool :=
  match ps38_run r Sta6 o with Some _ => true | None => false end.
