(** Correspondence checkers for C01/C02/C04 (data-set level): compare what the
    implementation did on one generated data set with the models of
    Model/Dataset.v (tokens), Model/Writer.v (bytes) and Model/Reader.v (read-back). *)
From DicomV Require Export Model.Writer Model.Reader.

(* run of [n] copies of [v] (printing aid for long constant values) *)
Definition nrep (v n : N) : list N := repeat v (N.to_nat n).

Definition mk_dict (rows : list (tag * (N * bool))) : dict_t :=
  fun t => match find (fun r => tag_eqb (fst r) t) rows with
           | Some (_, (vi, xs)) => match vr_of_index vi with Some v => Some (v, xs) | None => None end
           | None => None
           end.

Definition out_bytes_eqb (m i : outcome bytes) : bool :=
  match m, i with
  | Ok a, Ok b => str_eqb a b
  | Err 99, _ => true                 (* value the model does not cover (float to text) *)
  | Err a, Err b => N.eqb a b
  | Panic _, Panic _ => true
  | _, _ => false
  end.
Definition out_elems_eqb (m i : outcome (list elem)) : bool :=
  match m, i with
  | Ok a, Ok b => elems_eqb a b
  | Err a, Err b => N.eqb a b
  | Panic _, Panic _ => true
  | _, _ => false
  end.

Inductive ds_case : Type :=
(* codec (0 ILE, 1 ELE, 2 EBE; deflated streams are inflated by the harness), strategy NoChange?,
   charset_changed flag, dictionary rows, the in-memory data set, the implementation's tokens
   (and whether the token iterator panicked after them), the bytes it wrote, and what it read back *)
| DsCase (c : N) (nochange inv : bool) (dict : list (tag * (N * bool))) (es : list elem)
         (toks : list token) (toks_panic : bool) (wr : outcome bytes) (rd : option (outcome (list elem)))
(* reading an arbitrary stream: codec, dictionary rows, bytes, what the implementation read *)
| RdCase (c : N) (dict : list (tag * (N * bool))) (input : bytes) (rd : outcome (list elem)).

Definition check_ds_case (k : ds_case) : bool :=
  match k with
  | DsCase c nochange inv dict es toks tp wr rd =>
      let cd := codec_of_index c in
      let s := elems_tokens inv es in
      list_eqb token_eqb (fst s) toks && Bool.eqb (snd s) tp
      && out_bytes_eqb (write_dataset cd nochange inv es) wr
      && match wr, rd with
         | Ok b, Some r => out_elems_eqb (read_dataset cd (mk_dict dict) b) r
         | _, _ => true
         end
  | RdCase c dict input rd => out_elems_eqb (read_dataset (codec_of_index c) (mk_dict dict) input) rd
  end.

(** C04: value-level or data-set-level case. *)
Inductive c04_any : Type := C4P (k : c04_case) | C4D (k : ds_case).
Definition check_c04_case (k : c04_any) : bool :=
  match k with C4P k => check_prim_case k | C4D k => check_ds_case k end.

(** C02: reading the canonical stream, then (when it could be read) rewriting what was read. *)
Definition check_c02_case (k : ds_case * option ds_case) : bool :=
  check_ds_case (fst k) && match snd k with Some k2 => check_ds_case k2 | None => true end.
