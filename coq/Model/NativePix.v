(** Model of the native (non-encapsulated) arms of pixeldata/src/lib.rs:
    [PixelDecoder::decode_pixel_data] (DicomValue::Primitive arm),
    [decode_pixel_data_frame] (DicomValue::Primitive arm) and
    [DecodedPixelData::frame_data], as they are after the two `fix:` commits
    (1-bit samples packed continuously across frames; whole-object decoding
    excludes trailing padding).

    Numbers are unbounded [N]: the Rust code computes in 64-bit [usize]; the
    products rows*cols*spp*bytes*frames of u16/u16/u16/u16/u32 values can
    exceed 2^64 only for images of more than 2^64 samples, which cannot be
    stored; that overflow is outside the model (recorded assumption). *)
From DicomV Require Export Base.Endian.

Record img := {
  rows : N; cols : N; spp : N;        (* u16 attributes *)
  bits : N;                           (* Bits Allocated, u16 *)
  nframes : N;                        (* Number Of Frames, u32 *)
  data : bytes                        (* the Pixel Data element's bytes (p.to_bytes()) *)
}.

Definition E_range : N := 1.          (* FrameOutOfRange *)

(* usize::div_ceil *)
Definition div_ceil (a b : N) : N := (a + (b - 1)) / b.
(* bits_allocated.div_ceil(8) *)
Definition bytes_per_sample (b : N) : N := div_ceil b 8.

(* (0..8).map(move |bit| ((byte >> bit) & 1) * 255) *)
Definition expand_byte (b : N) : list N :=
  map (fun k => N.land (N.shiftr b k) 1 * 255) [0; 1; 2; 3; 4; 5; 6; 7].
(* .iter().flat_map(..) *)
Definition expand (d : bytes) : list N := flat_map expand_byte d.

Definition len (d : bytes) : N := N.of_nat (length d).

(* slice.get(a..b) *)
Definition get_range (d : bytes) (a b : N) : option bytes :=
  if (a <=? b) && (b <=? len d)
  then Some (firstn (N.to_nat (b - a)) (skipn (N.to_nat a) d))
  else None.

Definition frame_samples (i : img) : N := rows i * cols i * spp i.

(** decode_pixel_data, DicomValue::Primitive arm: the decoded byte vector. *)
Definition decode_whole (i : img) : outcome bytes :=
  if bits i =? 1 then
    let samples_all := frame_samples i * nframes i in
    let frame_size_all := div_ceil samples_all 8 in
    match get_range (data i) 0 frame_size_all with
    | None => Err E_range
    | Some fd => Ok (firstn (N.to_nat samples_all) (expand fd))   (* .take(samples_all) *)
    end
  else
    let expected := frame_samples i * bytes_per_sample (bits i) * nframes i in
    (* data[..expected.min(data.len())] *)
    Ok (firstn (N.to_nat (N.min expected (len (data i)))) (data i)).

(** decode_pixel_data_frame, DicomValue::Primitive arm. *)
Definition decode_frame (i : img) (frame : N) : outcome bytes :=
  let fs := frame_samples i in
  let '(frame_offset, frame_size, skip_bits) :=
    if bits i =? 1 then
      let bit_offset := fs * frame in
      let frame_offset := bit_offset / 8 in
      let frame_end := div_ceil (bit_offset + fs) 8 in
      (frame_offset, frame_end - frame_offset, bit_offset mod 8)
    else
      let frame_size := fs * bytes_per_sample (bits i) in
      (frame_size * frame, frame_size, 0) in
  match get_range (data i) frame_offset (frame_offset + frame_size) with
  | None => Err E_range
  | Some fd =>
      if bits i =? 1
      then Ok (firstn (N.to_nat fs) (skipn (N.to_nat skip_bits) (expand fd)))
      else Ok fd
  end.

(** DecodedPixelData::frame_data on a decoded byte vector [d] carrying the
    attributes of [i] (rows/cols widened to u32, same values). *)
Definition frame_data (i : img) (d : bytes) (frame : N) : outcome bytes :=
  let frame_length := rows i * cols i * spp i * bytes_per_sample (bits i) in
  let frame_start := frame_length * frame in
  let frame_end := frame_start + frame_length in
  if len d <? frame_end then Err E_range
  else Ok (firstn (N.to_nat (frame_end - frame_start)) (skipn (N.to_nat frame_start) d)).

(** Specification-side definitions (PS3.5 8.1.1 / Annex D: the first 1-bit
    sample is the least significant bit of the first byte, and so on without
    regard to frame boundaries). *)
Definition bit_at (d : bytes) (k : N) : N := (nth (N.to_nat (k / 8)) d 0 / 2 ^ (k mod 8)) mod 2.
(* the [n] samples starting at bit index [from] *)
Fixpoint bits_from (d : bytes) (from : N) (n : nat) : list N :=
  match n with
  | O => []
  | S n' => 255 * bit_at d from :: bits_from d (from + 1) n'
  end.
Definition slice (d : bytes) (from n : N) : bytes := firstn (N.to_nat n) (skipn (N.to_nat from) d).

(* size of one decoded frame in bytes (= samples for 1-bit images: one byte each) *)
Definition out_frame_size (i : img) : N := frame_samples i * bytes_per_sample (bits i).
(* the stored data holds all frames *)
Definition stored_ok (i : img) : Prop :=
  if bits i =? 1 then div_ceil (frame_samples i * nframes i) 8 <= len (data i)
  else out_frame_size i * nframes i <= len (data i).

(** Correspondence case. *)
Definition out_eqb (a b : outcome bytes) : bool :=
  match a, b with
  | Ok x, Ok y => str_eqb x y
  | Err x, Err y => N.eqb x y
  | Panic _, Panic _ => true
  | _, _ => false
  end.

(** How the Pixel Data value is held: [PrimitiveValue::to_bytes] of a numeric
    value of [k]-byte elements is the little-endian image of its elements
    (U8: k = 1, the bytes themselves; U16/I16 (what reading VR OW yields):
    k = 2; U32/I32: 4; U64/I64: 8; signed elements as their two's complement). *)
Definition value_bytes (k : nat) (vals : list N) : bytes := flat_map (le_bytes k) vals.

(* (rows, cols, spp, bits, frames, element width k, elements of the value, impl whole result,
    [(frame, impl decode_pixel_data_frame, impl frame_data on the whole result)]) *)
Definition check_case
  (c : N * N * N * N * N * nat * list N * outcome bytes * list (N * outcome bytes * outcome bytes)) : bool :=
  let '(r, co, s, b, nf, k, vals, w, fl) := c in
  let i := {| rows := r; cols := co; spp := s; bits := b; nframes := nf; data := value_bytes k vals |} in
  let mw := decode_whole i in
  out_eqb mw w &&
  forallb (fun '(f, pf, fd) =>
    out_eqb (decode_frame i f) pf &&
    match mw with
    | Ok dw => out_eqb (frame_data i dw f) fd
    | _ => true
    end) fl.
