(** dictionary-std instance of the selector parser: [by_name] is the keyword
    table regenerated on every run from the code's behaviour
    (Gen/GenKeywords.v, written by `vh_core C14 tables`: every alias that
    occurs in dictionary-std/src/tags.rs plus the two generic entries, each
    with what the real [StandardDataDictionary.by_name(alias).tag()] answered),
    and the correspondence checker for C14. *)
From DicomV Require Export Model.TagText.
From DicomV Require Import Gen.GenKeywords.

(** ---- keyword packing: the bytes of the keyword, most significant first,
    below a leading 01 byte, as one binary number (so that packing is
    injective on byte strings and a table row is a single literal). *)
Definition pack (s : bytes) : N := fold_left (fun acc b => N.shiftl acc 8 + b) s 1.

Fixpoint unpack_n (fuel : nat) (n : N) : bytes :=
  match fuel with
  | O => []
  | S f => if n <=? 1 then [] else unpack_n f (N.shiftr n 8) ++ [N.land n 255]
  end.
(** fuel: one step per byte; a number has at most [N.size n] / 8 + 1 bytes *)
Definition unpack (n : N) : bytes := unpack_n (S (N.to_nat (N.size n / 8))) n.

Definition row_key (r : N * N) : bytes := unpack (snd r).
Definition row_tag (r : N * N) : tag := (fst r / 65536, fst r mod 65536).

Fixpoint assoc (tbl : list (N * N)) (k : N) : option tag :=
  match tbl with
  | [] => None
  | r :: tbl' => if snd r =? k then Some (row_tag r) else assoc tbl' k
  end.

(** StandardDataDictionary::by_name(s).map(|e| e.tag()) *)
Definition std_by_name (s : bytes) : option tag := assoc kw_rows (pack s).

(** the sweep used by C14_keywords: every keyword resolves to its tag through
    [parse_tag] (so it is not shadowed by a tag literal) and contains no
    selector punctuation *)
Definition kw_row_ok (r : N * N) : bool :=
  good_key_charsb (row_key r)
  && outcome_eqb (opt_eqb tag_eqb) (parse_tag_dict std_by_name (row_key r)) (Ok (Some (row_tag r))).

(** ---- correspondence cases *)
Inductive case :=
| CTagParse (s : bytes) (r : outcome tag)                       (* Tag::from_str *)
| CTagPrint (t : tag) (printed : bytes)                          (* Display for Tag *)
| CSelNew (dbg : bool) (steps : list step) (r : outcome (option (selector * bytes)))
                                                                 (* AttributeSelector::new, then Display *)
| CSelParse (dbg : bool) (s : bytes) (r : outcome selector)      (* StandardDataDictionary.parse_selector *)
| CDictTag (s : bytes) (r : outcome (option tag))                (* StandardDataDictionary.parse_tag *)
| CTagRange (s : bytes) (r : outcome (N * tag))                  (* TagRange::from_str: kind 0 Single, 1 Group100, 2 Element100 *)
| CVr (s : bytes) (r : outcome N).                               (* VR::from_str *)

Definition selpr_eqb (a b : selector * bytes) : bool :=
  sel_eqb (fst a) (fst b) && bytes_eqb (snd a) (snd b).

Definition check_case (c : case) : bool :=
  match c with
  | CTagParse s r => outcome_eqb tag_eqb (tag_from_str s) r
  | CTagPrint t p => bytes_eqb (display_tag t) p
  | CSelNew dbg steps r =>
      outcome_eqb (opt_eqb selpr_eqb)
        (match selector_new dbg steps with
         | Ok (Some sel) => Ok (Some (sel, print_selector sel))
         | Ok None => Ok None
         | Err e => Err e
         | Panic w => Panic w
         end) r
  | CSelParse dbg s r => outcome_eqb sel_eqb (parse_selector std_by_name dbg s) r
  | CDictTag s r => outcome_eqb (opt_eqb tag_eqb) (parse_tag_dict std_by_name s) r
  | CTagRange s r =>
      outcome_eqb (fun a b => (fst a =? fst b) && tag_eqb (snd a) (snd b))
        (match tag_range_from_str s with
         | Ok (TRSingle t) => Ok (0, t) | Ok (TRGroup100 t) => Ok (1, t) | Ok (TRElement100 t) => Ok (2, t)
         | Err e => Err e | Panic w => Panic w end) r
  | CVr s r => outcome_eqb N.eqb (vr_from_str s) r
  end.
