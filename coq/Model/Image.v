(** C35 — image import (fromimage) and export (toimage).

    Transcription of fromimage/src/main.rs [inject_image] + [update_from_img]
    (image -> Image Pixel module attributes + native-endian sample bytes, host
    = little endian), of the export paths of toimage/src/main.rs
    [convert_single_file]: [--unwrap] = encoding/src/adapters.rs
    [frame_pixel_data] for native pixel data, and the decoded path for colour
    images = pixeldata/src/lib.rs [decode_pixel_data_frame] (native branch) +
    [to_dynamic_image_with_options] (3 samples per pixel: no Modality/VOI LUT).
    The PNG codec, the CLI and the DICOM file reader/writer are outside.
    No proofs in this file. *)
From DicomV Require Export Base.Prelude Base.Endian.

(** An image as the [image] crate hands it over after decoding: L8, L16, Rgb8 or Rgb16. *)
Record image := mk_image {
  i_w : N; i_h : N;
  i_chans : N;            (* 1 = Luma, 3 = Rgb *)
  i_depth : N;            (* 8 or 16 bits per sample *)
  i_samples : list N;     (* row-major, interleaved *)
}.

Definition wf_image (im : image) : Prop :=
  (i_chans im = 1 \/ i_chans im = 3) /\ (i_depth im = 8 \/ i_depth im = 16)
  /\ N.of_nat (length (i_samples im)) = i_w im * i_h im * i_chans im
  /\ Forall (fun s => s < 2 ^ i_depth im) (i_samples im).

Definition MONOCHROME2 : str := [77;79;78;79;67;72;82;79;77;69;50].
Definition RGB : str := [82;71;66].

(** The Image Pixel module as found in the file written by fromimage. *)
Record dicom_img := mk_dimg {
  d_pi : str;             (* Photometric Interpretation *)
  d_spp : N;              (* Samples per Pixel *)
  d_planar : option N;    (* Planar Configuration (absent for one sample per pixel) *)
  d_cols : N; d_rows : N;
  d_alloc : N; d_stored : N; d_high : N; d_repr : N;
  d_ob : bool;            (* Pixel Data VR: OB (true) or OW *)
  d_pixels : bytes;       (* Pixel Data value as stored in the file (even length) *)
}.

Definition u16 (n : N) : N := n mod 65536.        (* `width as u16` *)

(** [DynamicImage::into_bytes]: 8-bit samples as they are, 16-bit samples in
    native (little endian) byte order. *)
Definition into_bytes (depth : N) (samples : list N) : bytes :=
  if depth =? 8 then samples else flat_map le16 samples.

(** the data element writer pads an odd-length OB value with one zero byte *)
Definition pad_even (b : bytes) : bytes := if N.odd (N.of_nat (length b)) then b ++ [0] else b.

Definition inject (im : image) : dicom_img :=
  let spp := i_chans im in
  mk_dimg (if spp =? 1 then MONOCHROME2 else RGB) spp
          (if 1 <? spp then Some 0 else None)
          (u16 (i_w im)) (u16 (i_h im))
          (i_depth im) (i_depth im) (i_depth im - 1) 0
          (i_depth im =? 8)
          (pad_even (into_bytes (i_depth im) (i_samples im))).

(** ** Export *)
Definition frame_size (d : dicom_img) : N :=
  d_rows d * d_cols d * d_spp d * ((d_alloc d + 7) / 8).

(** [toimage --unwrap]: [frame_pixel_data(0)] of native pixel data (Bits
    Allocated > 1, not YBR_FULL_422): the first frame's bytes, or failure. *)
Definition export_unwrap (d : dicom_img) : option bytes :=
  let n := frame_size d in
  if n <=? N.of_nat (length (d_pixels d)) then Some (firstn (N.to_nat n) (d_pixels d)) else None.

Fixpoint unpack16 (b : bytes) : list N :=
  match b with
  | lo :: hi :: r => le_val [lo; hi] :: unpack16 r
  | _ => []
  end.
Definition samples_of (alloc : N) (b : bytes) : list N := if alloc =? 8 then b else unpack16 b.

(** what the raw frame means, read with the attributes of the same file *)
Definition image_of (d : dicom_img) (frame : bytes) : image :=
  mk_image (d_cols d) (d_rows d) (d_spp d) (d_alloc d) (samples_of (d_alloc d) frame).
Definition read_back_unwrap (d : dicom_img) : option image :=
  match export_unwrap d with Some b => Some (image_of d b) | None => None end.

(** [toimage] without [--unwrap], colour images: [decode_pixel_data_frame(0)]
    takes the first frame of the native value, then
    [to_dynamic_image_with_options] with 3 samples per pixel builds an
    Rgb8/Rgb16 image buffer of (Columns, Rows) from the frame; Modality and VOI
    LUT are not applied to colour images.  (Monochrome images go through the
    LUT pipeline of C22 and are not part of this model.) *)
Definition export_decoded_rgb (d : dicom_img) : option image :=
  if (d_spp d =? 3) && str_eqb (d_pi d) RGB
     && match d_planar d with Some 0 | None => true | _ => false end
     && ((d_alloc d =? 8) || (d_alloc d =? 16)) then
    let n := frame_size d in
    if n <=? N.of_nat (length (d_pixels d)) then
      Some (image_of d (firstn (N.to_nat n) (d_pixels d)))
    else None
  else None.

(** ** Correspondence *)
Definition image_eqb (a b : image) : bool :=
  (i_w a =? i_w b) && (i_h a =? i_h b) && (i_chans a =? i_chans b) && (i_depth a =? i_depth b)
  && str_eqb (i_samples a) (i_samples b).
Definition dimg_eqb (a b : dicom_img) : bool :=
  str_eqb (d_pi a) (d_pi b) && (d_spp a =? d_spp b) && opt_eqb N.eqb (d_planar a) (d_planar b)
  && (d_cols a =? d_cols b) && (d_rows a =? d_rows b) && (d_alloc a =? d_alloc b)
  && (d_stored a =? d_stored b) && (d_high a =? d_high b) && (d_repr a =? d_repr b)
  && Bool.eqb (d_ob a) (d_ob b) && str_eqb (d_pixels a) (d_pixels b).

(** case = ((w, h, chans, depth, samples),
            attributes read from the file fromimage wrote,
            bytes toimage --unwrap wrote (None = it failed),
            image decoded from the PNG toimage wrote (None = not run / failed)) *)
Definition case_t : Type :=
  (N * N * N * N * list N)
  * (str * N * option N * N * N * (N * N * N * N) * bool * bytes)
  * option bytes * option (N * N * N * N * list N).
(* the harness prints every case as [(term : Image.case_t)], so that [None] and [[]] are typed *)
Definition check_case (c : case_t) : bool :=
  let '(im, dd, unwrapped, decoded) := c in
  let '(w, h, ch, dp, ss) := im in
  let '(pi, spp, planar, cols, rows, bits, ob, px) := dd in
  let '(alloc, stored, high, repr) := bits in
  let img := mk_image w h ch dp ss in
  let d := mk_dimg pi spp planar cols rows alloc stored high repr ob px in
  dimg_eqb (inject img) d
  && opt_eqb str_eqb (export_unwrap d) unwrapped
  && match decoded with
     | Some (w', h', ch', dp', ss') => opt_eqb image_eqb (export_decoded_rgb d) (Some (mk_image w' h' ch' dp' ss'))
     | None => true
     end.
