(** Model of object/src/lib.rs [FileDicomObject::write_all] / [write_to_file]
    (same body), [write_meta] and [write_dataset] / [write_dataset_impl]:
    128 zero bytes, "DICM", the file meta group ([FileMetaTable::write], model
    [Meta.write_meta] of Model/Meta.v, Explicit VR LE), then the data set
    written by [DataSetWriter::with_ts] (default options: SetUndefined) from
    [(&obj).into_tokens()] in the transfer syntax that the registry returns for
    the meta table's Transfer Syntax UID (trailing white space / NUL ignored),
    through the data set adapter when the registry entry has one.

    The registry is a parameter [reg] (uid, (encoder index, codec kind)):
    encoder index = what [TransferSyntax::encoder_for] selects (0 Implicit VR LE,
    1 Explicit VR LE, 2 Explicit VR BE, anything else: none); codec kind
    0 = [Codec::None] / [Codec::EncapsulatedPixelData], 1 = [Codec::Dataset(Some _)],
    2 = [Codec::Dataset(None)]. The compressor of the adapter is a parameter
    [deflate]. Sinks are in memory: no I/O errors. *)
From DicomV Require Export Model.Writer.
From DicomV Require Model.Meta.

Definition file_preamble : bytes := repeat 0 128.
Definition file_magic : bytes := [68; 73; 67; 77].

Definition E_PrintMeta : N := 60.          (* WriteError::PrintMetaDataSet *)
Definition E_UnrecognizedTs : N := 61.     (* WriteError::WriteUnrecognizedTransferSyntax *)
Definition E_UnsupportedTs : N := 62.      (* WriteUnsupportedTransferSyntax(WithSuggestion) *)
Definition E_CreatePrinter : N := 63.      (* WriteError::CreatePrinter *)

Definition ts_reg : Type := list (str * (N * N)).
Fixpoint reg_get (reg : ts_reg) (uid : str) : option (N * N) :=
  match reg with
  | [] => None
  | (u, r) :: reg' => if str_eqb u uid then Some r else reg_get reg' uid
  end.
Definition enc_of_index (n : N) : option codec :=
  if n =? 0 then Some ILE else if n =? 1 then Some ELE else if n =? 2 then Some EBE else None.

(* write_dataset_impl; [inv] = the object's charset_changed flag *)
Definition write_file_dataset (reg : ts_reg) (deflate : bytes -> bytes) (t : Meta.meta) (inv : bool) (obj : list elem)
  : outcome bytes :=
  match reg_get reg (Meta.trim_pad (Meta.m_ts t)) with
  | None => Err E_UnrecognizedTs
  | Some (ci, kind) =>
      if kind =? 2 then Err E_UnsupportedTs else
      match enc_of_index ci with
      | None => Err E_CreatePrinter
      | Some c =>
          match write_dataset c false inv obj with
          | Ok b => Ok (if kind =? 1 then deflate b else b)
          | Err e => Err e
          | Panic w => Panic w
          end
      end
  end.

(* write_meta *)
Definition write_file_meta (t : Meta.meta) : outcome bytes :=
  match Meta.write_meta t with Ok m => Ok m | Err _ => Err E_PrintMeta | Panic w => Panic w end.

(* write_all / write_to_file *)
Definition write_file (reg : ts_reg) (deflate : bytes -> bytes) (t : Meta.meta) (inv : bool) (obj : list elem)
  : outcome bytes :=
  match write_file_meta t with
  | Ok m =>
      match write_file_dataset reg deflate t inv obj with
      | Ok d => Ok (file_preamble ++ file_magic ++ m ++ d)
      | Err e => Err e
      | Panic w => Panic w
      end
  | Err e => Err e
  | Panic w => Panic w
  end.
