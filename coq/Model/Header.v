(** Model of the element/item header codecs:
    encoding/src/encode/{explicit_le,explicit_be,implicit_le}.rs
      [encode_element_header], [encode_item_header], [encode_item_delimiter],
      [encode_sequence_delimiter], [encode_tag]
    encoding/src/decode/{explicit_le,explicit_be,implicit_le}.rs
      [decode_header], [decode_item_header], [decode_tag]
    core/src/header.rs [SequenceItemHeader::new].
    The source is a byte list; [read_exact] of k bytes fails when fewer remain. *)
From DicomV Require Export Base.Endian Model.Vr.

Definition tag : Type := (N * N)%type.
Definition tag_eqb (a b : tag) : bool := N.eqb (fst a) (fst b) && N.eqb (snd a) (snd b).

(** Byte order of the codec. *)
Definition u16 (c : codec) (n : N) : bytes := match c with EBE => be16 n | _ => le16 n end.
Definition u32 (c : codec) (n : N) : bytes := match c with EBE => be32 n | _ => le32 n end.
Definition rd (c : codec) (b : bytes) : N := match c with EBE => be_val b | _ => le_val b end.

(** The 16-bit-length match arm. The source repeats this list in seven places
    (3 encoders, 2 explicit decoders, adaptive decoder, and implicitly nowhere
    in ILE); [Gen/GenHeaderLayout.v] tabulates the observed class of each and
    [Proofs/HeaderP.v] proves they all coincide with this function. *)
Definition short_vr (v : vr) : bool :=
  match v with
  | AE | AS | AT | CS | DA | DS | DT | FL | FD | IS | LO | LT | PN | SH | SL | SS | ST | TM
  | UI | UL | US => true
  | _ => false
  end.

(** Error classes. *)
Definition E_TooLong : N := 1.         (* encode::Error::WriteHeaderTooLong *)
Definition E_ReadHeaderTag : N := 11.
Definition E_ReadItemHeader : N := 12.
Definition E_ReadItemLength : N := 13.
Definition E_ReadTag : N := 14.
Definition E_ReadReserved : N := 15.
Definition E_ReadLength : N := 16.
Definition E_ReadVr : N := 17.
Definition E_BadSeqHeader : N := 18.

(** [encode_element_header]: bytes written and the returned byte count. *)
Definition enc_header (c : codec) (t : tag) (v : vr) (len : N) : outcome (bytes * N) :=
  match c with
  | ILE => Ok (u16 c (fst t) ++ u16 c (snd t) ++ u32 c len, 8)
  | _ =>
      if short_vr v then
        if 65535 <? len then Err E_TooLong
        else Ok (u16 c (fst t) ++ u16 c (snd t) ++ vr_bytes v ++ u16 c len, 8)
      else Ok (u16 c (fst t) ++ u16 c (snd t) ++ vr_bytes v ++ [0; 0] ++ u32 c len, 12)
  end.

Definition enc_tag (c : codec) (t : tag) : bytes := u16 c (fst t) ++ u16 c (snd t).
Definition enc_item_header (c : codec) (len : N) : bytes := u16 c 65534 ++ u16 c 57344 ++ u32 c len.
Definition enc_item_delim (c : codec) : bytes := u16 c 65534 ++ u16 c 57357 ++ [0; 0; 0; 0].
Definition enc_seq_delim (c : codec) : bytes := u16 c 65534 ++ u16 c 57565 ++ [0; 0; 0; 0].

(** [read_exact] of [k] bytes. *)
Definition take (k : nat) (b : bytes) : option (bytes * bytes) :=
  if Nat.ltb (length b) k then None else Some (firstn k b, skipn k b).

Definition dec_tag (c : codec) (e : N) (b : bytes) : outcome (tag * bytes) :=
  match take 4 b with
  | None => Err e
  | Some (h, r) => Ok ((rd c (firstn 2 h), rd c (skipn 2 h)), r)
  end.

(** Implicit VR: the VR comes from the dictionary ([dict t] = relaxed VR of the
    entry for [t], if any), except Pixel Data and Overlay Data which are OW. *)
Definition ile_vr (dict : tag -> option vr) (t : tag) : vr :=
  if tag_eqb t (32736, 16) || (N.eqb (fst t / 256) 96 && N.eqb (snd t) 12288) then OW
  else match dict t with Some v => v | None => UN end.

(** [decode_header]: tag, VR, length, bytes consumed, remaining source. *)
Definition dec_header (c : codec) (dict : tag -> option vr) (b : bytes)
  : outcome (tag * vr * N * N * bytes) :=
  match dec_tag c E_ReadHeaderTag b with
  | Err e => Err e | Panic w => Panic w
  | Ok (t, r) =>
      match c with
      | ILE =>
          match take 4 r with
          | None => Err E_ReadLength
          | Some (l, r') => Ok (t, ile_vr dict t, rd c l, 8, r')
          end
      | _ =>
          if N.eqb (fst t) 65534 then
            match take 4 r with
            | None => Err E_ReadItemLength
            | Some (l, r') => Ok (t, UN, rd c l, 8, r')
            end
          else
            match take 2 r with
            | None => Err E_ReadVr
            | Some (vb, r1) =>
                let v := match vr_of_bytes (nth 0 vb 0) (nth 1 vb 0) with Some v => v | None => UN end in
                if short_vr v then
                  match take 2 r1 with
                  | None => Err (match c with EBE => E_ReadItemLength | _ => E_ReadLength end)
                  | Some (l, r2) => Ok (t, v, rd c l, 8, r2)
                  end
                else
                  match take 2 r1 with
                  | None => Err E_ReadReserved
                  | Some (_, r2) =>
                      match take 4 r2 with
                      | None => Err E_ReadLength
                      | Some (l, r3) => Ok (t, v, rd c l, 12, r3)
                      end
                  end
            end
      end
  end.

Inductive item_hdr : Type := Item (len : N) | ItemDelim | SeqDelim.

(** [SequenceItemHeader::new]. *)
Definition item_header_new (t : tag) (len : N) : outcome item_hdr :=
  if tag_eqb t (65534, 57344) then Ok (Item len)
  else if tag_eqb t (65534, 57357) then (if N.eqb len 0 then Ok ItemDelim else Err E_BadSeqHeader)
  else if tag_eqb t (65534, 57565) then Ok SeqDelim
  else Err E_BadSeqHeader.

(** [decode_item_header]: explicit codecs read 8 bytes at once, the implicit
    one reads the tag then the length. *)
Definition dec_item_header (c : codec) (b : bytes) : outcome (item_hdr * bytes) :=
  match c with
  | ILE =>
      match dec_tag c E_ReadHeaderTag b with
      | Err e => Err e | Panic w => Panic w
      | Ok (t, r) =>
          match take 4 r with
          | None => Err E_ReadLength
          | Some (l, r') =>
              match item_header_new t (rd c l) with
              | Ok h => Ok (h, r') | Err e => Err e | Panic w => Panic w
              end
          end
      end
  | _ =>
      match take 8 b with
      | None => Err E_ReadItemHeader
      | Some (h, r) =>
          let t := (rd c (firstn 2 h), rd c (firstn 2 (skipn 2 h))) in
          match item_header_new t (rd c (skipn 4 h)) with
          | Ok x => Ok (x, r) | Err e => Err e | Panic w => Panic w
          end
      end
  end.

(** ------------------------------------------------------------------ *)
(** Correspondence cases (what the implementation did on one input). *)
Inductive c03_case : Type :=
(* encode_element_header codec g e vr len => Ok (bytes, returned count) / Err class *)
| CEnc (c g e v len : N) (r : outcome (bytes * N))
(* decode_header codec (dictionary answer for the tag in the input, if any) input
   => Ok (g, e, vr, len, bytes_read, number of bytes left in the source) *)
| CDec (c : N) (dictvr : option N) (input : bytes) (r : outcome (N * N * N * N * N * N))
(* encode_item_header (kind 0, len) / item delimiter (1) / sequence delimiter (2) *)
| CItemEnc (c kind len : N) (out : bytes)
(* decode_item_header => Ok (kind, len, bytes left) *)
| CItemDec (c : N) (input : bytes) (r : outcome (N * N * N))
(* VR::from_binary [a; b] and, for a VR index, VR::to_bytes *)
| CVrCode (a b : N) (r : option N)
| CVrBytes (v : N) (a b : N).

Definition outcome_eqb {A} (eqb : A -> A -> bool) (x y : outcome A) : bool :=
  match x, y with
  | Ok a, Ok b => eqb a b
  | Err a, Err b => N.eqb a b
  | Panic _, Panic _ => true
  | _, _ => false
  end.

Definition item_kind (h : item_hdr) : N * N :=
  match h with Item l => (0, l) | ItemDelim => (1, 0) | SeqDelim => (2, 0) end.

Definition check_case (k : c03_case) : bool :=
  match k with
  | CEnc c g e v len r =>
      outcome_eqb (fun x y => str_eqb (fst x) (fst y) && N.eqb (snd x) (snd y))
        (enc_header (codec_of_index c) (g, e) (vr_of_index_d v) len) r
  | CDec c dv input r =>
      let dict := fun _ : tag => match dv with Some i => vr_of_index i | None => None end in
      let m := match dec_header (codec_of_index c) dict input with
               | Ok (t, v, len, size, rest) => Ok (fst t, snd t, vr_index v, len, size, N.of_nat (length rest))
               | Err e => Err e | Panic w => Panic w end in
      outcome_eqb (fun x y => match x, y with
                              | (a1, a2, a3, a4, a5, a6), (b1, b2, b3, b4, b5, b6) =>
                                  N.eqb a1 b1 && N.eqb a2 b2 && N.eqb a3 b3 && N.eqb a4 b4 && N.eqb a5 b5 && N.eqb a6 b6
                              end) m r
  | CItemEnc c kind len out =>
      let cd := codec_of_index c in
      str_eqb out (match kind with 0 => enc_item_header cd len | 1 => enc_item_delim cd | _ => enc_seq_delim cd end)
  | CItemDec c input r =>
      let m := match dec_item_header (codec_of_index c) input with
               | Ok (h, rest) => Ok (fst (item_kind h), snd (item_kind h), N.of_nat (length rest))
               | Err e => Err e | Panic w => Panic w end in
      outcome_eqb (fun x y => match x, y with
                              | (a1, a2, a3), (b1, b2, b3) => N.eqb a1 b1 && N.eqb a2 b2 && N.eqb a3 b3
                              end) m r
  | CVrCode a b r => opt_eqb N.eqb (option_map vr_index (vr_of_bytes a b)) r
  | CVrBytes v a b => N.eqb (fst (vr_chars (vr_of_index_d v))) a && N.eqb (snd (vr_chars (vr_of_index_d v))) b
  end.
