(** C06 — token-level model of what the lazy reader and the collector do relative to the
    eager token stream.

    - [lazy_view]: the lazy reader (parser/src/dataset/lazy_read.rs) yields the eager reader's
      tokens, except that an element value is a lazy value (header + something to read or skip)
      and BOTH kinds of item values (offset table, fragment) are plain lazy item values;
      [own] is [LazyDataToken::into_owned].
    - object/src/collector.rs: [collect_elements] (with peek, stop tags and the collector state),
      [collect_sequence], [build_encapsulated_data] (with its first-item flag), [skip_until],
      [read_dataset_up_to] / [read_dataset_to_end] / [read_next_fragment] / [read_basic_offset_table].
    - object/src/mem.rs: [build_object] with [read_until]/[read_to], [build_sequence],
      [build_encapsulated_data] over the eager tokens (what open_file does).
    - [tokens_of_obj]: the token stream of a data set (what a conforming writer's output reads as).

    Values are the [prim]/[value]/[obj] of Model/Ops.v; an element value token also carries the raw
    bytes of the value (what [read_to_vec] delivers for native pixel data). *)
From DicomV Require Export Model.Ops Base.Endian.

Inductive token :=
| THeader (tag vr len : N)
| TValue (p : prim) (raw : bytes)
| TSeqStart (tag len : N)
| TPixStart
| TSeqEnd
| TItemStart (len : N)
| TItemEnd
| TOffsets (l : list N)
| TItemValue (b : bytes).

Inductive ltoken :=
| LHeader (tag vr len : N)
| LValue (tag vr len : N) (p : prim) (raw : bytes)
| LSeqStart (tag len : N)
| LPixStart
| LSeqEnd
| LItemStart (len : N)
| LItemEnd
| LItemValue (b : bytes).

Definition blen (b : bytes) : N := N.of_nat (length b).
Definition T_PIXEL : N := 2145386512.
Definition VR_OB : N := 20290.

Section Endian.
Variable big : bool.   (* big endian transfer syntax *)
Definition enc32 (x : N) : bytes := if big then be32 x else le32 x.
Definition dec32 (b : bytes) : N := if big then be_val b else le_val b.
Definition words_bytes (l : list N) : bytes := flat_map enc32 l.
(* read_u32_to_vec(len): len / 4 words *)
Fixpoint bytes_words (fuel : nat) (b : bytes) : list N :=
  match fuel with
  | O => []
  | S f => match b with
           | b0 :: b1 :: b2 :: b3 :: r => dec32 [b0; b1; b2; b3] :: bytes_words f r
           | _ => []
           end
  end.
Definition words_of (b : bytes) : list N := bytes_words (length b) b.

(** * The lazy reader seen from the eager token stream *)
Fixpoint lazy_view (last : N * N * N) (ts : list token) : list ltoken :=
  match ts with
  | [] => []
  | THeader t vr len :: r => LHeader t vr len :: lazy_view (t, vr, len) r
  | TValue p raw :: r => let '(t, vr, len) := last in LValue t vr len p raw :: lazy_view last r
  | TSeqStart t len :: r => LSeqStart t len :: lazy_view last r
  | TPixStart :: r => LPixStart :: lazy_view last r
  | TSeqEnd :: r => LSeqEnd :: lazy_view last r
  | TItemStart len :: r => LItemStart len :: lazy_view last r
  | TItemEnd :: r => LItemEnd :: lazy_view last r
  | TOffsets l :: r => LItemValue (words_bytes l) :: lazy_view last r
  | TItemValue b :: r => LItemValue b :: lazy_view last r
  end.
(* into_owned; the offset table comes back as an item value *)
Definition own (t : ltoken) : token :=
  match t with
  | LHeader t vr len => THeader t vr len
  | LValue _ _ _ p raw => TValue p raw
  | LSeqStart t len => TSeqStart t len
  | LPixStart => TPixStart
  | LSeqEnd => TSeqEnd
  | LItemStart len => TItemStart len
  | LItemEnd => TItemEnd
  | LItemValue b => TItemValue b
  end.
(* the eager stream with offset tables turned into item values *)
Definition as_item_values (t : token) : token :=
  match t with TOffsets l => TItemValue (words_bytes l) | t => t end.

(** * Collector (object/src/collector.rs) *)
Definition e_unexpected_token : N := 1.
Definition e_unexpected_data_token : N := 2.
Definition e_missing_value : N := 3.
Definition e_premature_end : N := 4.
Definition e_peek : N := 5.
Definition e_in_pixel : N := 6.
Definition e_fuel : N := 99.

(* collector states that matter once the meta group is read *)
Inductive cstate := SMeta | SDataset | SPixel.

Definition stops (until to : option N) (t : N) : bool :=
  match until with Some u => u <=? t | None => false end
  || match to with Some u => u <? t | None => false end.

(* build_encapsulated_data: (offset table, fragments, rest of the stream) *)
Fixpoint build_encaps (ts : list ltoken) (first has_value : bool) (bot : option (list N)) (frags : list bytes)
  : outcome (list N * list bytes * list ltoken) :=
  match ts with
  | [] => Ok (match bot with Some b => b | None => [] end, frags, [])
  | LItemValue b :: r =>
      if first then build_encaps r first true (Some (words_of b)) frags
      else build_encaps r first true bot (frags ++ [b])
  | LItemEnd :: r =>
      if first then build_encaps r false has_value (match bot with Some b => Some b | None => Some [] end) frags
      else if has_value then build_encaps r false has_value bot frags
      else build_encaps r false has_value bot (frags ++ [[]])
  | LItemStart _ :: r => build_encaps r first false bot frags
  | LSeqEnd :: r => Ok (match bot with Some b => b | None => [] end, frags, r)
  | _ :: _ => Err e_unexpected_token
  end.

(* collect_elements / collect_sequence, mutually recursive over the stream; fuel = stream length *)
Fixpoint collect_elements (fuel : nat) (in_item : bool) (until to : option N) (st : cstate)
         (ts : list ltoken) (acc : list elem) {struct fuel} : outcome (list elem * list ltoken * cstate) :=
  match fuel with
  | O => Err e_fuel
  | S f =>
    match ts with
    | [] => Ok (acc, [], st)
    | LPixStart :: r =>
        if stops until to T_PIXEL then Ok (acc, ts, st) else
        x <- build_encaps r true false None [] ;;
        let '(bot, frags, r') := x in
        collect_elements f in_item until to SPixel r' (acc ++ [(T_PIXEL, VR_OB, VPix bot frags)])
    | LHeader t vr len :: r =>
        if stops until to t then Ok (acc, ts, st) else
        match r with
        | [] => Err e_missing_value
        | LValue _ _ _ p _ :: r' => collect_elements f in_item until to SDataset r' (acc ++ [(t, vr, VPrim p)])
        | LItemValue b :: r' => collect_elements f in_item until to SDataset r' (acc ++ [(t, vr, VPrim (PNum 0 b))])
        | _ :: _ => Err e_unexpected_token
        end
    | LSeqStart t len :: r =>
        if stops until to t then Ok (acc, ts, st) else
        x <- collect_sequence f SDataset r [] ;;
        let '(items, r', st') := x in
        collect_elements f in_item until to st' r' (acc ++ [(t, VR_SQ, VSeq items)])
    | LItemEnd :: r => if in_item then Ok (acc, r, st) else Err e_unexpected_data_token
    | LValue _ _ _ _ _ :: _ | LItemValue _ :: _ => Err e_peek
    | _ :: _ => Err e_unexpected_data_token
    end
  end
with collect_sequence (fuel : nat) (st : cstate) (ts : list ltoken) (items : list obj) {struct fuel}
  : outcome (list obj * list ltoken * cstate) :=
  match fuel with
  | O => Err e_fuel
  | S f =>
    match ts with
    | [] => Err e_premature_end
    | LItemStart _ :: r =>
        x <- collect_elements f true None None st r [] ;;
        let '(es, r', st') := x in
        (* to.extend(elements) on an empty object *)
        collect_sequence f st' r' (items ++ [fold_left put es []])
    | LSeqEnd :: r => Ok (items, r, st)
    | _ :: _ => Err e_unexpected_token
    end
  end.

(* the collector after the meta group: state, rest of the stream *)
Definition coll : Type := cstate * list ltoken.

(* read_dataset_up_to / read_dataset_to_end: the elements are put into [o] *)
Definition read_up_to (stop : option N) (c : coll) (o : obj) : outcome (coll * obj) :=
  x <- collect_elements (S (length (snd c))) false stop None (fst c) (snd c) [] ;;
  let '(es, r, st) := x in Ok ((st, r), fold_left put es o).

(* read_dataset_up_to_pixeldata: "equivalent to read_dataset_up_to(tags::PIXEL_DATA, to)" *)
Definition read_up_to_pixeldata (c : coll) (o : obj) : outcome (coll * obj) := read_up_to (Some T_PIXEL) c o.
(* read_dataset_to_end *)
Definition read_to_end (c : coll) (o : obj) : outcome (coll * obj) := read_up_to None c o.

(* token.skip() consumes the value; the stream of tokens is what remains *)
Definition is_pixel_start (t : ltoken) : bool :=
  match t with
  | LHeader tag _ len => (tag =? T_PIXEL) && negb (len =? 4294967295)
  | LPixStart => true
  | _ => false
  end.
(* skip_until: the matching token is consumed *)
Fixpoint skip_until (ts : list ltoken) : list ltoken :=
  match ts with
  | [] => []
  | t :: r => if is_pixel_start t then r else skip_until r
  end.

(* the common loop of read_next_fragment / read_basic_offset_table *)
Fixpoint next_value (ts : list ltoken) : option (ltoken * list ltoken) :=
  match ts with
  | [] => None
  | (LValue _ _ _ _ _ as t) :: r | (LItemValue _ as t) :: r => Some (t, r)
  | LItemStart len :: r => if len =? 0 then Some (LItemStart 0, r) else next_value r
  | _ :: r => next_value r
  end.

Definition read_next_fragment (c : coll) : coll * option (N * bytes) :=
  let ts := match fst c with SPixel => snd c | _ => skip_until (snd c) end in
  match next_value ts with
  | None => ((SPixel, []), None)
  | Some (LValue _ _ len _ raw, r) => ((SPixel, r), Some (len, raw))
  | Some (LItemValue b, r) => ((SPixel, r), Some (blen b, b))
  | Some (_, r) => ((SPixel, r), Some (0, []))
  end.

Definition read_offset_table (c : coll) : outcome (coll * option (N * list N)) :=
  match fst c with
  | SPixel => Err e_in_pixel
  | _ =>
    match next_value (skip_until (snd c)) with
    | None => Ok ((SPixel, []), None)
    | Some (LValue _ _ _ _ _, r) => Ok ((SPixel, r), None)       (* native pixel data: the value is skipped *)
    | Some (LItemValue b, r) => Ok ((SPixel, r), Some (blen b, words_of b))
    | Some (_, r) => Ok ((SPixel, r), Some (0, []))
    end
  end.

(* all fragments, one call after the other (fuel bounds the number of calls) *)
Fixpoint all_fragments (fuel : nat) (c : coll) : list (N * bytes) :=
  match fuel with
  | O => []
  | S f => match read_next_fragment c with
           | (c', Some x) => x :: all_fragments f c'
           | (_, None) => []
           end
  end.

(** * Eager object building (object/src/mem.rs) *)
Fixpoint build_encaps_e (ts : list token) (first has_value : bool) (bot : option (list N)) (frags : list bytes)
  : outcome (list N * list bytes * list token) :=
  match ts with
  | [] => Ok (match bot with Some b => b | None => [] end, frags, [])
  | TOffsets l :: r => build_encaps_e r first true (Some l) frags
  | TItemValue b :: r => build_encaps_e r first true bot (frags ++ [b])
  | TItemEnd :: r =>
      if first then build_encaps_e r false has_value (match bot with Some b => Some b | None => Some [] end) frags
      else if has_value then build_encaps_e r false has_value bot frags
      else build_encaps_e r false has_value bot (frags ++ [[]])
  | TItemStart _ :: r => build_encaps_e r first false bot frags
  | TSeqEnd :: r => Ok (match bot with Some b => b | None => [] end, frags, r)
  | _ :: _ => Err e_unexpected_token
  end.

Fixpoint build_object (fuel : nat) (in_item : bool) (until to : option N) (ts : list token) (o : obj) {struct fuel}
  : outcome (obj * list token) :=
  match fuel with
  | O => Err e_fuel
  | S f =>
    match ts with
    | [] => Ok (o, [])
    | TPixStart :: r =>
        if stops until to T_PIXEL then Ok (o, r) else
        x <- build_encaps_e r true false None [] ;;
        let '(bot, frags, r') := x in
        build_object f in_item until to r' (put o (T_PIXEL, VR_OB, VPix bot frags))
    | THeader t vr len :: r =>
        if stops until to t then Ok (o, r) else
        match r with
        | [] => Err e_missing_value
        | TValue p _ :: r' => build_object f in_item until to r' (put o (t, vr, VPrim p))
        | _ :: _ => Err e_unexpected_token
        end
    | TSeqStart t len :: r =>
        if stops until to t then Ok (o, r) else
        x <- build_sequence f r [] ;;
        let '(items, r') := x in
        build_object f in_item until to r' (put o (t, VR_SQ, VSeq items))
    | TItemEnd :: r => if in_item then Ok (o, r) else Err e_unexpected_token
    | _ :: _ => Err e_unexpected_token
    end
  end
with build_sequence (fuel : nat) (ts : list token) (items : list obj) {struct fuel} : outcome (list obj * list token) :=
  match fuel with
  | O => Err e_fuel
  | S f =>
    match ts with
    | [] => Err e_premature_end
    | TItemStart _ :: r =>
        x <- build_object f true None None r [] ;;
        let '(it, r') := x in build_sequence f r' (items ++ [it])
    | TSeqEnd :: r => Ok (items, r)
    | _ :: _ => Err e_unexpected_token
    end
  end.

Definition open_whole (until to : option N) (ts : list token) : outcome obj :=
  x <- build_object (S (length ts)) false until to ts [] ;; Ok (fst x).
End Endian.

(** * The token stream of a data set *)
(* item lengths: what matters to the readers modelled here is only whether an item of pixel data is
   empty; lengths of sequences and data set items are arbitrary ([ulen]) *)
Section Tokens.
Variable ulen : N.   (* the length recorded for sequences and their items, e.g. 0xFFFFFFFF *)
Variable plen : prim -> N. (* the length recorded in an element header *)
Variable raw_of : prim -> bytes.

Fixpoint tokens_of_value (t vr : N) (v : value) : list token :=
  match v with
  | VPrim p => [THeader t vr (plen p); TValue p (raw_of p)]
  | VSeq items =>
      TSeqStart t ulen ::
      flat_map (fun it : obj =>
                  TItemStart ulen :: flat_map (fun e : elem => tokens_of_value (fst (fst e)) (snd (fst e)) (snd e)) it ++ [TItemEnd])
               items ++ [TSeqEnd]
  | VPix bot frags =>
      TPixStart ::
      (TItemStart (4 * N.of_nat (length bot)) :: match bot with [] => [] | _ => [TOffsets bot] end ++ [TItemEnd]) ++
      flat_map (fun f : bytes => TItemStart (N.of_nat (length f)) :: match f with [] => [] | _ => [TItemValue f] end ++ [TItemEnd]) frags
      ++ [TSeqEnd]
  end.
Definition tokens_of_elem (e : elem) : list token := tokens_of_value (e_tag e) (e_vr e) (e_val e).
Definition tokens_of_obj (o : obj) : list token := flat_map tokens_of_elem o.

(* the same data set as the lazy reader delivers it *)
Variable big : bool.
Fixpoint ltokens_of_value (t vr : N) (v : value) : list ltoken :=
  match v with
  | VPrim p => [LHeader t vr (plen p); LValue t vr (plen p) p (raw_of p)]
  | VSeq items =>
      LSeqStart t ulen ::
      flat_map (fun it : obj =>
                  LItemStart ulen :: flat_map (fun e : elem => ltokens_of_value (fst (fst e)) (snd (fst e)) (snd e)) it ++ [LItemEnd])
               items ++ [LSeqEnd]
  | VPix bot frags =>
      LPixStart ::
      (LItemStart (4 * N.of_nat (length bot)) :: match bot with [] => [] | _ => [LItemValue (words_bytes big bot)] end ++ [LItemEnd]) ++
      flat_map (fun f : bytes => LItemStart (N.of_nat (length f)) :: match f with [] => [] | _ => [LItemValue f] end ++ [LItemEnd]) frags
      ++ [LSeqEnd]
  end.
Definition ltokens_of_elem (e : elem) : list ltoken := ltokens_of_value (e_tag e) (e_vr e) (e_val e).
Definition ltokens_of_obj (o : obj) : list ltoken := flat_map ltokens_of_elem o.
End Tokens.

(** * Correspondence case *)
Definition lens_erased (t : token) : token :=
  match t with
  | THeader tag vr _ => THeader tag vr 0
  | TValue p _ => TValue p []
  | TSeqStart tag _ => TSeqStart tag 0
  | TItemStart len => TItemStart 0
  | t => t
  end.

Definition token_eqb (a b : token) : bool :=
  match a, b with
  | THeader t v l, THeader t' v' l' => (t =? t') && (v =? v') && (l =? l')
  | TValue p r, TValue p' r' => prim_eqb p p' && list_eqb N.eqb r r'
  | TSeqStart t l, TSeqStart t' l' => (t =? t') && (l =? l')
  | TPixStart, TPixStart | TSeqEnd, TSeqEnd | TItemEnd, TItemEnd => true
  | TItemStart l, TItemStart l' => l =? l'
  | TOffsets l, TOffsets l' => list_eqb N.eqb l l'
  | TItemValue b, TItemValue b' => list_eqb N.eqb b b'
  | _, _ => false
  end.

(* a portion request: (true, _) = read_dataset_up_to_pixeldata, (false, t) = read_dataset_up_to(t) *)
Definition split_stop (s : bool * N) : N := if fst s then T_PIXEL else snd s.
(* run the collector over the split tags, then to the end; the objects after every portion *)
Fixpoint run_splits (big : bool) (splits : list N) (c : coll) (o : obj) (acc : list obj) : outcome (list obj * obj) :=
  match splits with
  | [] => x <- read_up_to big None c o ;; Ok (acc, snd x)
  | s :: r => x <- read_up_to big (Some s) c o ;; run_splits big r (fst x) (snd x) (acc ++ [snd x])
  end.

Definition frag_obs : Type := option (option (N * list N)) * list (N * bytes).
Definition run_fragments (big : bool) (bot_first : bool) (ts : list ltoken) : outcome frag_obs :=
  let c0 : coll := (SMeta, ts) in
  if bot_first then
    x <- read_offset_table big c0 ;;
    Ok (Some (snd x), all_fragments (S (length ts)) (fst x))
  else Ok (None, all_fragments (S (length ts)) c0).

Definition pair_eqb {A B} (ea : A -> A -> bool) (eb : B -> B -> bool) (x y : A * B) : bool :=
  ea (fst x) (fst y) && eb (snd x) (snd y).
Definition frag_obs_eqb (a b : frag_obs) : bool :=
  opt_eqb (opt_eqb (pair_eqb N.eqb (list_eqb N.eqb))) (fst a) (fst b)
  && list_eqb (pair_eqb N.eqb (list_eqb N.eqb)) (snd a) (snd b).

Definition out_eqb {A} (eq : A -> A -> bool) (m i : outcome A) : bool :=
  match m, i with
  | Ok x, Ok y => eq x y
  | Err _, Err _ => true        (* the harness reports any collector error as Err 9 *)
  | Panic _, Panic _ => true
  | _, _ => false
  end.

Inductive case :=
| CFile (big : bool) (eager lazy : list token) (whole : obj)
        (splits : list (bool * N)) (parts : list obj) (final : outcome obj)
        (bot_first : bool) (frags : outcome frag_obs)
        (until_to : option N * option N) (partial : outcome obj).

Definition check_case (c : case) : bool :=
  match c with
  | CFile big eager lazy whole splits parts final bot_first frags until_to partial =>
    let lt := lazy_view big (0, 0, 0) eager in
    (* the real lazy reader's owned tokens are the eager ones, offset tables as item values *)
    list_eqb token_eqb (map (fun t => match t with TValue p _ => TValue p [] | t => t end) lazy)
                       (map (fun t => match t with TValue p _ => TValue p [] | t => t end) (map own lt))
    (* opening the whole file *)
    && out_eqb obj_eqb (open_whole None None eager) (Ok whole)
    (* the eager stream has the shape of the token stream of that object *)
    && list_eqb token_eqb (map lens_erased eager) (map lens_erased (tokens_of_obj 1 (fun _ => 0) (fun _ => []) whole))
    (* collector over the splits *)
    && match final with
       | Ok fin => out_eqb (pair_eqb (list_eqb obj_eqb) obj_eqb) (run_splits big (map split_stop splits) (SMeta, lt) [] []) (Ok (parts, fin))
       | _ => out_eqb (pair_eqb (list_eqb obj_eqb) obj_eqb) (run_splits big (map split_stop splits) (SMeta, lt) [] []) (Err 9)
       end
    (* fragments one by one *)
    && out_eqb frag_obs_eqb (run_fragments big bot_first lt) frags
    (* read_until / read_to *)
    && out_eqb obj_eqb (open_whole (fst until_to) (snd until_to) eager) partial
  end.
