(** Model of lossless transcoding (C19):
    - pixeldata/src/transcode.rs: [Transcode::transcode_with_options] case split,
      [decode_inline], [decode_and_encode];
    - pixeldata/src/lib.rs: [decode_pixel_data] (codec arm and native arms,
      8/16 bits allocated);
    - encoding/src/adapters.rs: the frame loop of [PixelDataWriter::encode]
      (fragments only; the basic offset table belongs to C18);
    - transfer-syntax-registry/src/adapters/uncompressed.rs and deflated.rs:
      [encode_frame], [decode] with deflate/inflate abstract (Section
      variables);
    - the effect of writing an object to a stream and reading it back on the
      Pixel Data element: values and fragments of odd length come back with
      one padding byte (parser/src/stateful/encode.rs [write_bytes]).
    No proofs here. *)
From DicomV Require Export Base.Prelude.

(** Transfer syntaxes: 0 Implicit VR LE, 1 Explicit VR LE, 2 Explicit VR BE (native);
    3 Encapsulated Uncompressed Explicit VR LE, 4 Deflated Image Frame Compression. *)
Definition TS_ILE : N := 0. Definition TS_ELE : N := 1. Definition TS_EBE : N := 2.
Definition TS_EU : N := 3.  Definition TS_DEFL : N := 4.
Definition is_encaps (ts : N) : bool := (ts =? TS_EU) || (ts =? TS_DEFL).

Inductive pix := PNone | PNative (b : bytes) | PFrags (f : list bytes).

Record obj := {
  ts : N;
  rows : N; cols : N; spp : N; ba : N;   (* Rows, Columns, Samples per Pixel, Bits Allocated *)
  nframes : option Z;                    (* Number of Frames, absent = 1 *)
  total : option N;                      (* (7FE0,0003) Encapsulated Pixel Data Value Total Length *)
  pixv : pix }.

Definition set_ts (o : obj) (t : N) : obj :=
  {| ts := t; rows := rows o; cols := cols o; spp := spp o; ba := ba o;
     nframes := nframes o; total := total o; pixv := pixv o |}.
Definition set_pix (o : obj) (p : pix) : obj :=
  {| ts := ts o; rows := rows o; cols := cols o; spp := spp o; ba := ba o;
     nframes := nframes o; total := total o; pixv := p |}.

Definition blen (b : bytes) : N := N.of_nat (length b).
Definition pad_even (b : bytes) : bytes := if N.odd (blen b) then b ++ [0] else b.
Definition slice (b : bytes) (from to : N) : option bytes :=
  if (from <=? to) && (to <=? blen b) then Some (firstn (N.to_nat (to - from)) (skipn (N.to_nat from) b)) else None.

(* error classes: 2 invalid Number of Frames, 3 no pixel data, 4 unsupported bits allocated,
   5 frame out of bounds (encoder), 6 inflate failed;  panic 2: odd byte count for 16-bit samples *)
Definition frame_size (o : obj) : N := cols o * rows o * spp o * (ba o / 8).

Section Codec.
  (** flate2's raw deflate encoder / decoder *)
  Variable deflate : bytes -> bytes.
  Variable inflate : bytes -> option bytes.

  (** *** adapters *)
  (* uncompressed.rs strip_padding *)
  Definition strip_padding (fs : N) (frag : bytes) : bytes :=
    if N.odd fs && (blen frag =? fs + 1) then firstn (N.to_nat fs) frag else frag.

  Definition eu_decode (o : obj) (frags : list bytes) : bytes :=
    concat (map (strip_padding (frame_size o)) frags).

  Fixpoint defl_decode (frags : list bytes) : outcome bytes :=
    match frags with
    | [] => Ok []
    | f :: r => match inflate f with
                | Some d => r' <- defl_decode r ;; Ok (d ++ r')
                | None => Err 6
                end
    end.

  (* encode_frame of both adapters: the frame's slice of the native bytes, padded to even length *)
  Definition encode_frame (t : N) (o : obj) (raw : bytes) (frame : N) : outcome bytes :=
    let fs := frame_size o in
    match slice raw (fs * frame) (fs * (frame + 1)) with
    | None => Err 5
    | Some d => Ok (pad_even (if t =? TS_EU then d else deflate d))
    end.

  (* PixelDataWriter::encode: one fragment per frame, frames = NumberOfFrames (as u32) or 1 *)
  Fixpoint encode_frames (t : N) (o : obj) (raw : bytes) (frame : N) (todo : nat) : outcome (list bytes) :=
    match todo with
    | O => Ok []
    | S k => f <- encode_frame t o raw frame ;; r <- encode_frames t o raw (frame + 1) k ;; Ok (f :: r)
    end.
  Definition writer_frames (o : obj) : N :=
    match nframes o with
    | Some n => if (0 <=? n)%Z && (n <? 4294967296)%Z then Z.to_N n else 1
    | None => 1
    end.

  (** *** lib.rs decode_pixel_data *)
  Definition decode_pixel_data (o : obj) : outcome bytes :=
    nf <- match nframes o with
          | None => Ok 1
          | Some n => if (0 <? n)%Z then Ok (Z.to_N n) else Err 2
          end ;;
    match pixv o with
    | PNone => Err 3
    | PNative b =>
        if ts o =? TS_EU then Ok (eu_decode o [b])
        else if ts o =? TS_DEFL then defl_decode [b]
        else (* native: leave out anything after the last frame *)
          let expected := rows o * cols o * spp o * ((ba o + 7) / 8) * nf in
          Ok (firstn (N.to_nat (N.min expected (blen b))) b)
    | PFrags fs =>
        if ts o =? TS_EU then Ok (eu_decode o fs)
        else if ts o =? TS_DEFL then defl_decode fs
        else Ok (concat fs)
    end.

  (** *** transcode.rs *)
  Definition decode_inline (o : obj) (t : N) : outcome obj :=
    d <- decode_pixel_data o ;;
    if ba o =? 8 then Ok (set_ts (set_pix o (PNative d)) t)
    else if ba o =? 16 then
      if N.odd (blen d) then Panic 2 else Ok (set_ts (set_pix o (PNative d)) t)
    else Err 4.

  Definition sum_len (l : list bytes) : N := fold_right (fun f a => blen f + a) 0 l.

  Definition decode_and_encode (o : obj) (t : N) : outcome obj :=
    o1 <- decode_inline o TS_ELE ;;
    match pixv o1 with
    | PNative raw =>
        frags <- encode_frames t o1 raw 0 (N.to_nat (writer_frames o1)) ;;
        Ok {| ts := t; rows := rows o1; cols := cols o1; spp := spp o1; ba := ba o1;
              nframes := Some (Z.of_nat (length frags));
              total := Some (sum_len frags);
              pixv := PFrags frags |}
    | _ => Err 3
    end.

  Definition transcode (o : obj) (t : N) : outcome obj :=
    if ts o =? t then Ok o
    else match is_encaps (ts o), is_encaps t with
         | false, false => Ok (set_ts o t)
         | true, false => decode_inline o t
         | _, true => decode_and_encode o t
         end.

  (** writing the object to a stream and reading it back *)
  Definition write_read (o : obj) : obj :=
    set_pix o match pixv o with
              | PNone => PNone
              | PNative b => PNative (pad_even b)
              | PFrags fs => PFrags (map pad_even fs)
              end.

  (** a path: transcode to each target in turn (optionally through a stream), then to Explicit VR LE *)
  Fixpoint run_steps (o : obj) (steps : list (N * bool)) : list obj * outcome obj :=
    match steps with
    | [] => ([], Ok o)
    | (t, via) :: r =>
        match transcode o t with
        | Ok o1 => let o2 := if via then write_read o1 else o1 in
                   let '(l, res) := run_steps o2 r in (o2 :: l, res)
        | Err e => ([], Err e)
        | Panic w => ([], Panic w)
        end
    end.
End Codec.

(** ** Correspondence cases.
    The real deflate is replaced by a toy self-delimiting codec (a length
    element followed by the data): the harness reports what each real
    fragment inflates to, and the comparison for Deflated Image Frame states is
    made on inflated contents. What is tied is the framing logic, not flate2. *)
Definition toy_deflate (b : bytes) : bytes := blen b :: b.
Definition toy_inflate (s : bytes) : option bytes :=
  match s with
  | n :: r => if n <=? blen r then Some (firstn (N.to_nat n) r) else None
  | [] => None
  end.

Definition bytes_eqb : bytes -> bytes -> bool := list_eqb N.eqb.
Definition optN_eqb := opt_eqb N.eqb.
Definition optZ_eqb := opt_eqb Z.eqb.

Definition pix_matches (t : N) (model observed : pix) : bool :=
  match model, observed with
  | PNone, PNone => true
  | PNative a, PNative b => bytes_eqb a b
  | PFrags a, PFrags b =>
      if t =? TS_DEFL
      then list_eqb (opt_eqb bytes_eqb) (map toy_inflate a) (map Some b)
      else list_eqb bytes_eqb a b
  | _, _ => false
  end.

(* observed snapshot: (ts, pixel value, NumberOfFrames, (7FE0,0003)) *)
Definition snap_matches (m : obj) (s : N * pix * option Z * option N) : bool :=
  let '(t, p, nf, tot) := s in
  (ts m =? t) && pix_matches t (pixv m) p && optZ_eqb (nframes m) nf
  && (if t =? TS_EU then optN_eqb (total m) tot else true).

Fixpoint snaps_match (ms : list obj) (ss : list (N * pix * option Z * option N)) : bool :=
  match ms, ss with
  | [], [] => true
  | m :: mr, s :: sr => snap_matches m s && snaps_match mr sr
  | _, _ => false
  end.

(** case: ((rows, cols, spp, ba, NumberOfFrames, pixel bytes), source ts, steps, 0, (status, snapshots))
    status 0 ok / 1 error / 2 panic; the implementation's path ends with "to Explicit VR LE" *)
Definition check_case (c : (N * N * N * N * option N * bytes) * N * list (N * bool) * N
                           * (N * list (N * pix * option Z * option N))) : bool :=
  let '((r, cl, sp, b, nf, px), src, steps, _, (status, snaps)) := c in
  let o := {| ts := src; rows := r; cols := cl; spp := sp; ba := b;
              nframes := option_map Z.of_N nf; total := None; pixv := PNative px |} in
  let '(ms, res) := run_steps toy_deflate toy_inflate o (steps ++ [(TS_ELE, false)]) in
  match res, status with
  | Ok _, 0 => snaps_match ms snaps
  | Err _, 1 => snaps_match ms snaps
  | Panic _, 2 => true
  | _, _ => false
  end.
