(** Scalar layer of the DICOM JSON model (C23, C24): hexadecimal and decimal
    text, UTF-8, base64 (written out), binary32/binary64 bit patterns with
    the conversions the code performs ([f32 as f64], [f64 as f32], integer to
    float), Rust integer parsing. No proofs here. *)
From DicomV Require Export Base.Str Base.Endian.
From Coq Require Import DecimalN Decimal.
From Coq Require String Ascii.
Import String.StringSyntax.
Delimit Scope string_scope with string.

(** string literals as code-point lists *)
Fixpoint str_of_string (s : String.string) : str :=
  match s with
  | String.EmptyString => []
  | String.String a r => Ascii.N_of_ascii a :: str_of_string r
  end.
Notation "'L' s" := (str_of_string s%string) (at level 0, s at level 0, only parsing).

(** ** hexadecimal *)
Definition hexd (n : N) : N := if n <? 10 then 48 + n else 55 + n.   (* upper case *)
Definition hex4 (v : N) : str :=
  [hexd ((v / 4096) mod 16); hexd ((v / 256) mod 16); hexd ((v / 16) mod 16); hexd (v mod 16)].
(* tags are single numbers g * 65536 + e *)
Definition hex8 (t : N) : str := hex4 (t / 65536) ++ hex4 (t mod 65536).
Definition tag_display (t : N) : str := [40] ++ hex4 (t / 65536) ++ [44] ++ hex4 (t mod 65536) ++ [41].

(* char::is_ascii_hexdigit + to_digit(16) *)
Definition hexval (c : N) : option N :=
  if (48 <=? c) && (c <=? 57) then Some (c - 48)
  else if (65 <=? c) && (c <=? 70) then Some (c - 55)
  else if (97 <=? c) && (c <=? 102) then Some (c - 87)
  else None.

(** ** UTF-8 *)
Definition utf8_char (c : N) : bytes :=
  if c <? 128 then [c]
  else if c <? 2048 then [192 + c / 64; 128 + c mod 64]
  else if c <? 65536 then [224 + c / 4096; 128 + (c / 64) mod 64; 128 + c mod 64]
  else [240 + (c / 262144) mod 8; 128 + (c / 4096) mod 64; 128 + (c / 64) mod 64; 128 + c mod 64].
Definition utf8 (s : str) : bytes := flat_map utf8_char s.
Definition utf8_len (s : str) : N := N.of_nat (length (utf8 s)).

(** ** [Tag::from_str] (core/src/header.rs, after fix 802bc14): the byte length
    selects the form; every off-boundary / non-hex input is an error.
    In code points: the first four characters must be ASCII hex digits. *)
Definition take4hex (s : str) : option (N * str) :=
  match s with
  | a :: b :: c :: d :: r =>
      match hexval a, hexval b, hexval c, hexval d with
      | Some x, Some y, Some z, Some w => Some (x * 4096 + y * 256 + z * 16 + w, r)
      | _, _, _, _ => None
      end
  | _ => None
  end.

Definition tag_from_str (s : str) : option N :=
  let n := utf8_len s in
  if n =? 8 then
    match take4hex s with
    | Some (g, r) => match take4hex r with Some (e, _) => Some (g * 65536 + e) | None => None end
    | None => None
    end
  else if n =? 9 then
    match take4hex s with
    | Some (g, 44 :: r) => match take4hex r with Some (e, _) => Some (g * 65536 + e) | None => None end
    | _ => None
    end
  else if n =? 11 then
    match s with
    | 40 :: r0 =>
        match take4hex r0 with
        | Some (g, 44 :: r) =>
            match take4hex r with Some (e, [41]) => Some (g * 65536 + e) | _ => None end
        | _ => None
        end
    | _ => None
    end
  else None.

(** ** decimal integers: Rust [Display] and [FromStr] of the integer types *)
Fixpoint uint_chars (u : uint) : str :=
  match u with
  | Nil => []
  | D0 u => 48 :: uint_chars u | D1 u => 49 :: uint_chars u | D2 u => 50 :: uint_chars u
  | D3 u => 51 :: uint_chars u | D4 u => 52 :: uint_chars u | D5 u => 53 :: uint_chars u
  | D6 u => 54 :: uint_chars u | D7 u => 55 :: uint_chars u | D8 u => 56 :: uint_chars u
  | D9 u => 57 :: uint_chars u
  end.
Fixpoint chars_uint (s : str) : option uint :=
  match s with
  | [] => Some Nil
  | c :: r =>
      match chars_uint r with
      | None => None
      | Some u =>
          if c =? 48 then Some (D0 u) else if c =? 49 then Some (D1 u) else if c =? 50 then Some (D2 u)
          else if c =? 51 then Some (D3 u) else if c =? 52 then Some (D4 u) else if c =? 53 then Some (D5 u)
          else if c =? 54 then Some (D6 u) else if c =? 55 then Some (D7 u) else if c =? 56 then Some (D8 u)
          else if c =? 57 then Some (D9 u) else None
      end
  end.
Definition dec_N (n : N) : str := uint_chars (N.to_uint n).
Definition dec_Z (z : Z) : str := if (z <? 0)%Z then 45 :: dec_N (Z.abs_N z) else dec_N (Z.to_N z).
(* non-empty, digits only *)
Definition parse_dec (s : str) : option N :=
  match s with [] => None | _ => option_map N.of_uint (chars_uint s) end.
(* <iN/uN as FromStr>::from_str: optional '+', '-' only for signed types, range checked *)
Definition parse_int (signed : bool) (lo hi : Z) (s : str) : option Z :=
  let pos r := match parse_dec r with
               | Some n => if (Z.of_N n <=? hi)%Z then Some (Z.of_N n) else None
               | None => None end in
  match s with
  | [] => None
  | 43 :: r => pos r
  | 45 :: r =>
      if signed then
        match parse_dec r with
        | Some n => if (lo <=? - Z.of_N n)%Z then Some (- Z.of_N n)%Z else None
        | None => None end
      else None
  | _ => pos s
  end.

(** ** base64, standard alphabet, canonical padding required (base64 0.22
    [general_purpose::STANDARD]) *)
Definition b64c (i : N) : N :=
  if i <? 26 then 65 + i else if i <? 52 then 71 + i else if i <? 62 then i - 4
  else if i =? 62 then 43 else 47.
Definition b64v (c : N) : option N :=
  if (65 <=? c) && (c <=? 90) then Some (c - 65)
  else if (97 <=? c) && (c <=? 122) then Some (c - 71)
  else if (48 <=? c) && (c <=? 57) then Some (c + 4)
  else if c =? 43 then Some 62 else if c =? 47 then Some 63 else None.

Fixpoint b64enc (b : bytes) : str :=
  match b with
  | x :: y :: z :: r =>
      b64c (x / 4) :: b64c ((x mod 4) * 16 + y / 16) :: b64c ((y mod 16) * 4 + z / 64) :: b64c (z mod 64) :: b64enc r
  | [x; y] => [b64c (x / 4); b64c ((x mod 4) * 16 + y / 16); b64c ((y mod 16) * 4); 61]
  | [x] => [b64c (x / 4); b64c ((x mod 4) * 16); 61; 61]
  | [] => []
  end.

Definition is_nil {A} (l : list A) : bool := match l with [] => true | _ => false end.

Fixpoint b64dec (s : str) : option bytes :=
  match s with
  | [] => Some []
  | a :: b :: c :: d :: r =>
      match b64v a, b64v b with
      | Some va, Some vb =>
          if c =? 61 then
            if (d =? 61) && is_nil r && (vb mod 16 =? 0) then Some [va * 4 + vb / 16] else None
          else
            match b64v c with
            | None => None
            | Some vc =>
                if d =? 61 then
                  if is_nil r && (vc mod 4 =? 0) then Some [va * 4 + vb / 16; (vb mod 16) * 16 + vc / 4] else None
                else
                  match b64v d with
                  | None => None
                  | Some vd =>
                      match b64dec r with
                      | None => None
                      | Some t => Some (va * 4 + vb / 16 :: (vb mod 16) * 16 + vc / 4 :: (vc mod 4) * 64 + vd :: t)
                      end
                  end
            end
      | _, _ => None
      end
  | _ => None
  end.

(** ** IEEE 754 bit patterns. binary32 values are [N < 2^32], binary64 [N < 2^64]. *)
Definition f32_exp (b : N) : N := (b / 2 ^ 23) mod 256.
Definition f32_man (b : N) : N := b mod 2 ^ 23.
Definition f32_neg (b : N) : bool := 2 ^ 31 <=? b.
Definition f32_finite (b : N) : bool := negb (f32_exp b =? 255).
Definition f32_is_nan (b : N) : bool := (f32_exp b =? 255) && negb (f32_man b =? 0).
Definition f64_exp (b : N) : N := (b / 2 ^ 52) mod 2048.
Definition f64_man (b : N) : N := b mod 2 ^ 52.
Definition f64_neg (b : N) : bool := 2 ^ 63 <=? b.
Definition f64_finite (b : N) : bool := negb (f64_exp b =? 2047).
Definition f64_is_nan (b : N) : bool := (f64_exp b =? 2047) && negb (f64_man b =? 0).

Definition f32_nan : N := 2143289344.              (* 0x7FC00000 = f32::NAN *)
Definition f32_inf : N := 2139095040.              (* 0x7F800000 *)
Definition f32_ninf : N := 4286578688.             (* 0xFF800000 *)
Definition f64_nan : N := 9221120237041090560.     (* 0x7FF8000000000000 = f64::NAN *)
Definition f64_inf : N := 9218868437227405312.     (* 0x7FF0000000000000 *)
Definition f64_ninf : N := 18442240474082181120.   (* 0xFFF0000000000000 *)

(* round x / 2^sh to nearest, ties to even *)
Definition rne (x sh : N) : N :=
  if sh =? 0 then x else
  let q := x / 2 ^ sh in
  let r := x mod 2 ^ sh in
  let h := 2 ^ (sh - 1) in
  if (h <? r) || ((r =? h) && N.odd q) then q + 1 else q.

(* magnitude bits of the binary float with [mb] mantissa and [eb] exponent
   bits nearest to sig * 2^e (overflow gives the infinity pattern) *)
Definition fp_round (mb eb : N) (sig : N) (e : Z) : N :=
  if sig =? 0 then 0 else
  let bias := Z.of_N (2 ^ (eb - 1) - 1) in
  let emin := (1 - bias)%Z in
  let ex := (Z.of_N (N.log2 sig) + e)%Z in
  let qe := (Z.max ex emin - Z.of_N mb)%Z in
  let m := if (qe <=? e)%Z then sig * 2 ^ Z.to_N (e - qe) else rne sig (Z.to_N (qe - e)) in
  let base := if (emin <=? ex)%Z then Z.to_N (ex + bias - 1) * 2 ^ mb else 0 in
  let r := base + m in
  let inf := 2 ^ mb * (2 ^ eb - 1) in
  if inf <=? r then inf else r.

(* [x as f64] for x : f32 (exact) *)
Definition f32_to_f64 (b : N) : N :=
  let e := f32_exp b in
  let m := f32_man b in
  (if f32_neg b then 2 ^ 63 else 0) +
  (if e =? 255 then 2047 * 2 ^ 52 + (if m =? 0 then 0 else 2 ^ 51 + (m mod 2 ^ 22) * 2 ^ 29)
   else if e =? 0 then
     (if m =? 0 then 0 else let k := N.log2 m in (k + 874) * 2 ^ 52 + (m - 2 ^ k) * 2 ^ (52 - k))
   else (e + 896) * 2 ^ 52 + m * 2 ^ 29).

(* [x as f32] for x : f64 (round to nearest even, overflow to infinity) *)
Definition f64_to_f32 (b : N) : N :=
  let e := f64_exp b in
  let m := f64_man b in
  (if f64_neg b then 2 ^ 31 else 0) +
  (if e =? 2047 then (if m =? 0 then 255 * 2 ^ 23 else 255 * 2 ^ 23 + 2 ^ 22 + (m / 2 ^ 29) mod 2 ^ 22)
   else if e =? 0 then fp_round 23 8 m (-1074)
   else fp_round 23 8 (2 ^ 52 + m) (Z.of_N e - 1075)).

(* [z as f32] / [z as f64] for a 64-bit integer z *)
Definition int_to_f32 (z : Z) : N :=
  if (z <? 0)%Z then 2 ^ 31 + fp_round 23 8 (Z.abs_N z) 0 else fp_round 23 8 (Z.to_N z) 0.
Definition int_to_f64 (z : Z) : N :=
  if (z <? 0)%Z then 2 ^ 63 + fp_round 52 11 (Z.abs_N z) 0 else fp_round 52 11 (Z.to_N z) 0.

(** ** Rust [trim_end_matches([' ', '\0'])] *)
Definition is_pad (c : N) : bool := (c =? 32) || (c =? 0).
Fixpoint trim_pad (s : str) : str :=
  match s with
  | [] => []
  | c :: r => let r' := trim_pad r in if is_pad c && is_nil r' then [] else c :: r'
  end.

(** [s.splitn(2, c)]: text before the first [c], and the rest if there is one *)
Fixpoint split_first (c : N) (s : str) : str * option str :=
  match s with
  | [] => ([], None)
  | x :: r => if x =? c then ([], Some r) else let '(a, b) := split_first c r in (x :: a, b)
  end.
