(** Model of the encapsulation bookkeeping around the pixel data encoders:
    pixeldata/src/encapsulation.rs ([encapsulate], [encapsulate_single_frame]),
    encoding/src/adapters.rs ([PixelDataWriter::encode] default method as of
    its `fix:` commit, [PixelDataObject::frame_pixel_data] encapsulated arms),
    pixeldata/src/transcode.rs ([decode_and_encode]: Number of Frames and
    Encapsulated Pixel Data Value Total Length). The encoders' output bytes
    are inputs of the model (opaque). *)
From DicomV Require Export Model.Fragments.

(** sequencing a list of outcomes (the [.map(..).collect()] over frames: the first panic wins) *)
Fixpoint all_ok {A} (l : list (outcome A)) : outcome (list A) :=
  match l with
  | [] => Ok []
  | x :: r => a <- x ;; b <- all_ok r ;; Ok (a :: b)
  end.

(** a list of (frame data, fragment size) through Fragments::new and .into() *)
Definition helper (frames : list (bytes * N)) : outcome (list N * list bytes) :=
  fl <- all_ok (map (fun df => fragments_new (fst df) (snd df)) frames) ;; from_frames fl.
(* encapsulate(frames) *)
Definition encapsulate (frames : list bytes) := helper (map (fun d => (d, 0)) frames).
(* encapsulate_single_frame(frame, fragment_size) *)
Definition encapsulate_single_frame (frame : bytes) (fs : N) := helper [(frame, fs)].

(** PixelDataWriter::encode (default): one fragment per frame as produced by
    encode_frame; offsets accumulate 8 + len.next_multiple_of(2) in u32. *)
Fixpoint encode_loop (lens : list N) (offset : N) (bot : list N) : outcome (list N) :=
  match lens with
  | [] => Ok (rev bot)
  | l :: rest =>
      let o := offset + (8 + u32 (l + l mod 2)) in
      if 2 ^ 32 <=? o then Panic P_overflow else encode_loop rest o (offset :: bot)
  end.
Definition encode_bot (lens : list N) : outcome (list N) := encode_loop lens 0 [].

(** decode_and_encode after the writer returned: (offset table, Number of Frames, total length) *)
Definition transcode_book (lens : list N) : outcome (list N * N * N) :=
  bot <- encode_bot lens ;;
  Ok (bot, N.of_nat (length bot), sumN lens).

(** PixelDataObject::frame_pixel_data for encapsulated pixel data *)
Fixpoint fpd_loop (frags : list bytes) (offset base : N) (next : option N) (acc : bytes) : bytes :=
  match frags with
  | [] => acc
  | fr :: rest =>
      let acc' := if base <=? offset then acc ++ fr else acc in
      let offset' := offset + len fr + 8 in
      match next with
      | Some nx => if nx <=? offset' then acc' else fpd_loop rest offset' base next acc'
      | None => fpd_loop rest offset' base next acc'
      end
  end.

Definition frame_pixel_data (nframes : option N) (bot : list N) (frags : list bytes) (frame : N)
    : option bytes :=
  let nfrag := N.of_nat (length frags) in
  if nfrag =? (match nframes with Some n => n | None => 1 end)
  then nth_error frags (N.to_nat frame)
  else
    let base_offset := nth_error bot (N.to_nat frame) in
    match (if frame =? 0 then Some (match base_offset with Some b => b | None => 0 end) else base_offset) with
    | None => None
    | Some base => Some (fpd_loop frags 0 base (nth_error bot (N.to_nat frame + 1)) [])
    end.

(** Correspondence cases. *)
Definition res_eqb (a b : outcome (list N * list bytes)) : bool :=
  match a, b with
  | Ok (b1, f1), Ok (b2, f2) => list_eqb N.eqb b1 b2 && list_eqb str_eqb f1 f2
  | Panic _, Panic _ => true
  | _, _ => false
  end.
Definition optb_eqb (a b : option bytes) : bool := opt_eqb str_eqb a b.

Inductive c18_case :=
(* frames with fragment sizes through Fragments::new + into(); what the implementation
   returned; Number of Frames put into the object; frame_pixel_data(f) for some f *)
| KHelper (frames : list (bytes * N)) (res : outcome (list N * list bytes))
          (nframes : option N) (extr : list (N * option bytes))
(* transcoding: fragment lengths produced by the encoder; offset table, Number of Frames and
   total length found in the object afterwards *)
| KTrans (lens : list N) (bot : list N) (nframes : N) (total : N)
(* frame_pixel_data on an arbitrary fragment sequence *)
| KExtract (nframes : option N) (bot : list N) (frags : list bytes) (extr : list (N * option bytes)).

Definition check_extr nf bot frags (extr : list (N * option bytes)) : bool :=
  forallb (fun '(f, r) => optb_eqb (frame_pixel_data nf bot frags f) r) extr.

Definition check_case (c : c18_case) : bool :=
  match c with
  | KHelper frames res nf extr =>
      let m := helper frames in
      res_eqb m res &&
      match m with Ok (bot, frags) => check_extr nf bot frags extr | _ => true end
  | KTrans lens bot nf total =>
      match transcode_book lens with
      | Ok (b, n, t) => list_eqb N.eqb b bot && (n =? nf) && (t =? total)
      | _ => false
      end
  | KExtract nf bot frags extr => check_extr nf bot frags extr
  end.
