(** Model of parser/src/dataset/write.rs [DataSetWriter::write] / [write_impl]
    over the stateful encoder of Model/Prim.v, and of
    object/src/mem.rs [write_dataset_with_ts(_cs)(_options)].
    [nochange] = ExplicitLengthSqItemStrategy::NoChange (false = SetUndefined, the default). *)
From DicomV Require Export Model.Dataset.

Definition E_UnexpectedToken : N := 3.

Record wstate : Type := {
  w_stack : list (bool * N);          (* seq_tokens: (is item?, length) *)
  w_last : option (tag * vr * N);     (* last_de *)
  w_out : bytes                       (* everything written so far; bytes_written = its length *)
}.
Definition w_init : wstate := {| w_stack := []; w_last := None; w_out := [] |}.

Definition last_is_encaps (l : option (tag * vr * N)) : bool :=
  match l with Some (t, _, len) => is_encaps_header t len | None => false end.

Definition emit (st : wstate) (stack : list (bool * N)) (last : option (tag * vr * N)) (b : bytes) : wstate :=
  {| w_stack := stack; w_last := last; w_out := w_out st ++ b |}.

Definition write_token (c : codec) (nochange : bool) (st : wstate) (tk : token) : outcome wstate :=
  match tk with
  | TSeqStart t len =>
      let len' := if nochange then len else undef in
      match st_enc_header c t SQ len' with
      | Ok h => Ok (emit st ((false, len') :: w_stack st) (w_last st) h)
      | Err e => Err e | Panic w => Panic w
      end
  | TItemStart len =>
      let len' := if nochange then len else if last_is_encaps (w_last st) then len else undef in
      Ok (emit st ((true, len') :: w_stack st) (w_last st) (st_enc_item_header c len'))
  | TItemEnd =>
      match w_stack st with
      | [] => Ok st
      | (is_item, len) :: rest =>
          Ok (emit st rest (w_last st) (if is_item && N.eqb len undef then enc_item_delim c else []))
      end
  | TSeqEnd =>
      (* last_de is cleared at the end of any sequence (fix 'writer forgets the pixel data header') *)
      match w_stack st with
      | [] => Ok (emit st [] None [])
      | (is_item, len) :: rest =>
          Ok (emit st rest None (if negb is_item && N.eqb len undef then enc_seq_delim c else []))
      end
  | TElemHeader t v len => Ok (emit st (w_stack st) (Some (t, v, len)) [])
  | TPixStart =>
      match st_enc_header c pixel_tag OB undef with
      | Ok h => Ok (emit st ((false, undef) :: w_stack st) (Some (pixel_tag, OB, undef)) h)
      | Err e => Err e | Panic w => Panic w
      end
  | TPrim p =>
      match w_last st with
      | None => Err E_UnexpectedToken
      | Some (t, v, _) =>
          match enc_prim_element c t v p with
          | Ok b => Ok (emit st (w_stack st) None b)
          | Err e => Err e | Panic w => Panic w
          end
      end
  | TOffsetTable l => Ok (emit st (w_stack st) (w_last st) (st_enc_offset_table c l))
  | TItemValue b => Ok (emit st (w_stack st) (w_last st) (st_write_bytes b))
  end.

(** The increment of [StatefulEncoder::bytes_written] caused by one token
    (state before the token), from the counts the code adds. *)
Definition count_token (c : codec) (nochange : bool) (st : wstate) (tk : token) : outcome N :=
  match tk with
  | TSeqStart t len => count_header c t SQ (if nochange then len else undef)
  | TItemStart _ => Ok 8
  | TItemEnd =>
      match w_stack st with
      | (is_item, len) :: _ => Ok (if is_item && N.eqb len undef then 8 else 0)
      | [] => Ok 0
      end
  | TSeqEnd =>
      match w_stack st with
      | (is_item, len) :: _ => Ok (if negb is_item && N.eqb len undef then 8 else 0)
      | [] => Ok 0
      end
  | TElemHeader _ _ _ => Ok 0
  | TPixStart => count_header c pixel_tag OB undef
  | TPrim p =>
      match w_last st with
      | None => Err E_UnexpectedToken
      | Some (t, v, _) => count_prim_element c t v p
      end
  | TOffsetTable l => Ok (nlen l * 4)
  | TItemValue b => Ok (blen b + (if Nat.odd (length b) then 1 else 0))
  end.

(** writer with the counter: state, bytes_written *)
Fixpoint write_tokens_counted (c : codec) (nochange : bool) (st : wstate) (k : N) (tks : list token)
  : outcome (wstate * N) :=
  match tks with
  | [] => Ok (st, k)
  | tk :: rest =>
      match count_token c nochange st tk, write_token c nochange st tk with
      | Ok n, Ok st' => write_tokens_counted c nochange st' (k + n) rest
      | Err e, _ => Err e | _, Err e => Err e
      | _, _ => Panic 0
      end
  end.

Fixpoint write_tokens (c : codec) (nochange : bool) (st : wstate) (tks : list token) : outcome wstate :=
  match tks with
  | [] => Ok st
  | tk :: rest =>
      match write_token c nochange st tk with
      | Ok st' => write_tokens c nochange st' rest
      | Err e => Err e | Panic w => Panic w
      end
  end.

(** The tokens are produced lazily: a panic of the token generator is only
    reached when everything before it was written without error. *)
Definition write_stream (c : codec) (nochange : bool) (s : tstream) : outcome bytes :=
  match write_tokens c nochange w_init (fst s) with
  | Ok st => if snd s then Panic P_Unreachable else Ok (w_out st)
  | Err e => Err e | Panic w => Panic w
  end.

(** [InMemDicomObject::write_dataset_with_ts_options]; [inv] = the object's charset_changed flag. *)
Definition write_dataset (c : codec) (nochange inv : bool) (es : list elem) : outcome bytes :=
  write_stream c nochange (elems_tokens inv es).
