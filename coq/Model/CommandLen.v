(** Model for C31: command sets and their Command Group Length.

    Transcribed from
      object/src/mem.rs      InMemDicomObject::command_from_iter_with_dict, even_len
      core/src/value/primitive.rs  PrimitiveValue::calculate_byte_len, HasLength
      parser/src/stateful/encode.rs  StatefulEncoder::encode_primitive_element,
                                     encode_text_element, encode_texts_element,
                                     encode_element_header, even_len
      encoding/src/encode/implicit_le.rs  encode_element_header (tag, u32 length)
      encoding/src/encode/basic.rs        encode_primitive (little endian)
    The object is a BTreeMap keyed by tag: a list sorted by tag, later
    insertions replace earlier ones.

    Inside the model: primitive values Empty, Str, Strs, U8..F64 (as bit
    patterns with their width), Tags; any VR code; any tags (duplicates too).
    Outside the model ([modelled] is false): text that is not ASCII (the writer
    re-encodes it in the default repertoire, so bytes differ from the UTF-8
    length), numeric values under VR DS/IS (written as decimal text),
    Date/Time/DateTime values, sequences. *)
From DicomV Require Import Base.Prelude Base.Endian.

Definition lenN {A} (l : list A) : N := N.of_nat (length l).

(** ** Values and elements *)
Inductive pvalue :=
| VEmpty
| VStr (s : bytes)                (* one string, its UTF-8 bytes *)
| VStrs (l : list bytes)          (* several strings *)
| VNum (k : N) (vals : list N)    (* U8/I16/U16/I32/U32/F32/I64/U64/F64: k bytes per value, bit patterns *)
| VTags (l : list (N * N)).

Record elem := mkE { e_group : N; e_elem : N; e_vr : N (* b0*256+b1 *); e_val : pvalue }.

Definition VR_UI : N := 21833.  (* "UI" *)
Definition VR_UL : N := 21836.  (* "UL" *)
Definition VR_DS : N := 17491.  (* "DS" *)
Definition VR_IS : N := 18771.  (* "IS" *)

(** ** core: calculate_byte_len / HasLength *)
Definition clear_bit0 (n : N) : N := 2 * (n / 2).             (* n & !1 *)
Definition even_len (l : N) : N := clear_bit0 (l + 1).          (* (l + 1) & !1 *)

Definition strs_sum (l : list bytes) : N := fold_right (fun s a => lenN s + 1 + a) 0 l.

Definition calc_byte_len (v : pvalue) : N :=
  match v with
  | VEmpty => 0
  | VStr s => lenN s
  | VStrs l => clear_bit0 (strs_sum l)
  | VNum k vals => lenN vals * k
  | VTags l => lenN l * 4
  end.

(* Length::defined(calculate_byte_len() as u32) *)
Definition value_length (v : pvalue) : N := calc_byte_len v mod 2 ^ 32.

(** ** object: BTreeMap<Tag, element> *)
Definition tagkey (e : elem) : N := e_group e * 65536 + e_elem e.

Fixpoint insert (x : elem) (m : list elem) : list elem :=
  match m with
  | [] => [x]
  | y :: r =>
      if tagkey x <? tagkey y then x :: m
      else if tagkey x =? tagkey y then x :: r
      else y :: insert x r
  end.

Definition collect (es : list elem) : list elem := fold_left (fun m e => insert e m) es [].

Definition is_cmd (e : elem) : bool := (e_group e =? 0) && negb (e_elem e =? 0).

Definition sumN (l : list N) : N := fold_right N.add 0 l.

(* `if l.is_defined() { even_len(l.0) } else { 0 } + 8`; a primitive value's
   length is 0xFFFF_FFFF (undefined) only for a 4 GiB value *)
Definition elem_cost (e : elem) : N :=
  let l := value_length (e_val e) in
  (if l =? 4294967295 then 0 else even_len l) + 8.

(** The u32 sum panics on overflow (debug profile, which the harness builds;
    release wraps). *)
Definition group_length (m : list elem) : outcome N :=
  let t := sumN (map elem_cost (filter is_cmd m)) in
  if t <? 2 ^ 32 then Ok t else Panic 1.

Definition gl_elem (gl : N) : elem := mkE 0 0 VR_UL (VNum 4 [gl]).

(** command_from_iter_with_dict, after `fix: count the command group length
    over the elements retained`: collect into the map, count, insert (0000,0000). *)
Definition command_from_iter (es : list elem) : outcome (list elem) :=
  let m := collect es in
  gl <- group_length m ;;
  Ok (insert (gl_elem gl) m).

(** The computation as it was before the fix: counted while iterating, so an
    element given twice was counted twice although only the last one is kept. *)
Definition group_length_iter_old (es : list elem) : N := sumN (map elem_cost (filter is_cmd es)).

Definition get (g e : N) (m : list elem) : option elem :=
  find (fun x => tagkey x =? g * 65536 + e) m.

(** ** parser/encoding: Implicit VR Little Endian writer *)
Definition pad_even (pad : N) (b : bytes) : bytes :=
  if N.odd (lenN b) then b ++ [pad] else b.

Fixpoint join_bs (l : list bytes) : bytes :=
  match l with
  | [] => []
  | [s] => s
  | s :: r => s ++ 92 :: join_bs r
  end.

Definition text_pad (vr : N) : N := if vr =? VR_UI then 0 else 32.

Definition value_bytes (vr : N) (v : pvalue) : bytes :=
  match v with
  | VEmpty => []
  | VStr s => pad_even (text_pad vr) s
  | VStrs l => pad_even (text_pad vr) (join_bs l)
  | VNum k vals => pad_even 0 (concat (map (le_bytes (N.to_nat k)) vals))
  | VTags l => concat (map (fun t => le16 (fst t) ++ le16 (snd t)) l)
  end.

(* implicit_le.rs encode_element_header: tag then the (even) length as u32 *)
Definition ile_header (g e len : N) : bytes := le16 g ++ le16 e ++ le32 (even_len len mod 2 ^ 32).

Definition write_elem (x : elem) : bytes :=
  let vb := value_bytes (e_vr x) (e_val x) in
  ile_header (e_group x) (e_elem x) (lenN vb) ++ vb.

Definition write_ile (m : list elem) : bytes := concat (map write_elem m).

(** Where the writer model is faithful. *)
Definition ascii (s : bytes) : bool := forallb (fun c => c <? 128) s.
Definition width_ok (k : N) : bool := (k =? 1) || (k =? 2) || (k =? 4) || (k =? 8).
Definition modelled (x : elem) : bool :=
  (e_group x <? 65536) && (e_elem x <? 65536) &&
  (calc_byte_len (e_val x) <? 4294967295) &&   (* the value fits a defined 32-bit length *)
  match e_val x with
  | VEmpty => true
  | VStr s => ascii s
  | VStrs l => forallb ascii l
  | VNum k _ => width_ok k && negb ((e_vr x =? VR_DS) || (e_vr x =? VR_IS))
  | VTags _ => negb ((e_vr x =? VR_DS) || (e_vr x =? VR_IS))
  end.

(** ** Correspondence case: the elements given, and what the implementation
    returned: the value of (0000,0000) and the bytes written by
    write_dataset_with_ts(IMPLICIT_VR_LITTLE_ENDIAN). *)
Definition gl_of (m : list elem) : option N :=
  match get 0 0 m with
  | Some x => match e_val x with VNum 4 [n] => Some n | _ => None end
  | None => None
  end.

Definition check_case (c : list elem * outcome (N * bytes)) : bool :=
  let '(es, got) := c in
  match command_from_iter es, got with
  | Ok m, Ok (gl, b) => forallb modelled m && opt_eqb N.eqb (gl_of m) (Some gl) && str_eqb (write_ile m) b
  | Panic _, Panic _ => true
  | _, _ => false
  end.
