(** Model for C08: the adaptive (flexible) VR decoder.

    The state machine itself — encoding/src/decode/adaptive_le.rs
    AdaptiveVRLittleEndianDecoder::decode_header with its Unknown / Explicit /
    Implicit state ([d_vrst] = 0 / 1 / 2), vr_compatible_with_virtual
    ([vr_compat]), resolve_vr, decode_explicit_length / decode_implicit_length,
    decode_item_header — lives in Model/ValueRead.v ([adaptive_tail],
    [decode_header_raw] with kind [ADA]) next to the explicit and implicit
    decoders it is compared with, and is driven by the same reader model
    (parser/src/dataset/read.rs: DataSetReaderOptions::flexible_decoding puts
    a StandardAdaptiveVRLittleEndianDecoder under the same StatefulDecoder and
    DataSetReader). This file adds what C08 needs on top: the ambiguity side
    conditions as executable predicates and the correspondence checker. *)
From DicomV Require Import Base.Prelude Base.Endian Model.ValueRead.

(** Overwrite the adaptive state of a decoder / reader state. *)
Definition dwith (x : N) (d : dstate) : dstate :=
  mkD (d_src d) (d_position d) (d_signed d) x (d_short d).
Definition with_vr (x : N) (st : rstate) : rstate :=
  mkR (dwith x (r_dec st)) (r_in_seq st) (r_ot_next st) (r_pending st) (r_stack st) (r_last st).
Definition map_n (f : rstate -> rstate) (r : nres) : nres :=
  match r with NTok t st => NTok t (f st) | x => x end.

(** The first header of the stream, as the probe sees it: tag, and the two
    bytes behind the tag (the VR field of an explicit element = the low half
    of the length of an implicit element). *)
Definition first_probe (b : bytes) : option (N * N * N) :=
  match dec_tag false b with
  | Some (g, e, r) =>
      match take 2 r with
      | Some (v, _) => Some (g, e, be_val v)
      | None => None
      end
  | None => None
  end.

Section WithDict.
Variable dict : N -> option vvr.

(** "spells a VR compatible with that attribute's dictionary entry"; an
    attribute the dictionary does not know cannot be cross-checked: any VR
    code is taken as compatible (this is what the decoder does). *)
Definition spells_compatible_vr (g e c : N) : bool :=
  known_vr c && match dict (tkey g e) with Some vv => vr_compat c vv | None => true end.

(** Explicit VR LE stream: the first element (not in group FFFE) carries a VR
    code the decoder recognises and which is compatible with the dictionary. *)
Definition explicit_first_ok (b : bytes) : bool :=
  match first_probe b with
  | Some (g, e, c) => negb (g =? 65534) && spells_compatible_vr g e c
  | None => false
  end.

(** Implicit VR LE stream: the first element is unambiguous = its first two
    length bytes do NOT spell a compatible VR (the property's side condition). *)
Definition implicit_first_ok (b : bytes) : bool :=
  match first_probe b with
  | Some (g, e, c) => negb (g =? 65534) && negb (spells_compatible_vr g e c)
  | None => false
  end.

(** The standard dictionary has no entry in group FFFE (item and delimiters). *)
Definition dict_no_fffe : Prop := forall e, dict (tkey 65534 e) = None.

End WithDict.

(** ** Correspondence case: dictionary rows, rejected texts, stream, value and
    odd-length strategies, and what the real reader with
    flexible_decoding(true) produced: tokens with the bytes counted after each,
    and the final status. (The decoder built inside the reader cannot be
    spied on, so position() is not part of a C08 case.) *)
Definition obs2_eqb (a b : token * N) : bool := token_eqb (fst a) (fst b) && (snd a =? snd b).

Definition check_case
  (c : (N * N) * list (N * vvr) * list (N * bytes) * bytes * list (token * N) * N) : bool :=
  let '(cfg, drows, rej, stream, steps, status) := c in
  let '(strat, odd) := cfg in
  let '(msteps, mstatus) :=
    run (dict_of drows) (rejects_of rej) step_limit ADA strat odd (blen stream) (init 0 stream) in
  list_eqb obs2_eqb (map (fun s => (st_tok s, st_cons s)) msteps) steps && (mstatus =? status)
  (* the rows given for group FFFE must be absent, as the implicit-direction theorem assumes *)
  && negb (existsb (fun r => fst r / 65536 =? 65534) drows).
