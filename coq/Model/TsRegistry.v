(** Model of transfer-syntax-registry/src/lib.rs ([register], [get], construction of
    the registry from the descriptors of entries.rs) and of the capability queries of
    encoding/src/transfer_syntax/mod.rs, over the tables regenerated from /repo on
    every run for two feature sets (Gen/GenTs.v). No proofs here. *)
From DicomV Require Export Model.TsRegistryBase.
From DicomV Require Export Gen.GenTs.
From Coq Require Import String Ascii.   (* only for the compact correspondence cases below; not exported *)
Open Scope N_scope.

(** [Codec<D, R, W>], forgetting the adapters themselves. *)
Inductive codec :=
| CNone
| CDataset (adapter : bool)
| CEncaps (reader writer : bool).

Definition codec_of (n : N) : option codec :=
  if n =? 0 then Some CNone
  else if n =? 1 then Some (CDataset false)
  else if n =? 2 then Some (CDataset true)
  else if n =? 3 then Some (CEncaps false false)
  else if n =? 4 then Some (CEncaps false true)
  else if n =? 5 then Some (CEncaps true false)
  else if n =? 6 then Some (CEncaps true true)
  else None.

(** the [matches!] of each capability query *)
Definition is_fully_supported (c : codec) : bool :=
  match c with CNone | CDataset true | CEncaps true true => true | _ => false end.
Definition is_codec_free (c : codec) : bool := match c with CNone => true | _ => false end.
Definition is_unsupported (c : codec) : bool := match c with CDataset false => true | _ => false end.
Definition is_encapsulated_pixel_data (c : codec) : bool := match c with CEncaps _ _ => true | _ => false end.
Definition is_unsupported_pixel_encapsulation (c : codec) : bool :=
  match c with CDataset false | CEncaps false false => true | _ => false end.
Definition can_decode_all (c : codec) : bool :=
  match c with CNone | CDataset true | CEncaps true _ => true | _ => false end.
Definition can_decode_dataset (c : codec) : bool :=
  match c with CNone | CDataset true | CEncaps _ _ => true | _ => false end.
Definition pixel_data_reader (c : codec) : bool := match c with CEncaps r _ => r | _ => false end.
Definition pixel_data_writer (c : codec) : bool := match c with CEncaps _ w => w | _ => false end.

Definition answers (c : codec) : list bool :=
  [is_fully_supported c; is_codec_free c; is_unsupported c; is_encapsulated_pixel_data c;
   is_unsupported_pixel_encapsulation c; can_decode_all c; can_decode_dataset c].

(** [decoder_for] / [encoder_for]: chosen by (byte order, explicit VR) alone. *)
Definition dataset_codec (big explicit : bool) : N :=
  match big, explicit with
  | false, false => L_ILE
  | false, true => L_ELE
  | true, true => L_EBE
  | true, false => L_NONE
  end.
(** [explicit_vr] is a private field: it is read off the decoder the descriptor hands out. *)
Definition row_explicit (r : ts_row) : bool := (t_dec r =? L_ELE) || (t_dec r =? L_EBE).
Definition row_implicit (r : ts_row) : bool := (t_dec r =? L_ILE) || (t_enc r =? L_ILE).

(** a row is what the model says about a descriptor with that byte order, explicitness and codec *)
Definition row_consistent (r : ts_row) : bool :=
  match codec_of (t_codec r) with
  | Some c =>
      list_eqb Bool.eqb (t_q r) (answers c) && Bool.eqb (t_pdr r) (pixel_data_reader c) && Bool.eqb (t_pdw r) (pixel_data_writer c)
      && (t_dec r =? dataset_codec (t_big r) (row_explicit r)) && (t_enc r =? dataset_codec (t_big r) (row_explicit r))
  | None => false
  end.

(** [register]: a descriptor replaces a registered one with the same UID only when it
    brings a codec the registered one lacks. *)
Definition replaces (old new : codec) : bool :=
  match old, new with
  | CDataset false, CDataset true => true
  | CEncaps false false, CEncaps _ _ => true
  | CEncaps true false, CEncaps true true => true
  | CEncaps false true, CEncaps true true => true
  | _, _ => false
  end.
Definition row_replaces (old new : ts_row) : bool :=
  match codec_of (t_codec old), codec_of (t_codec new) with
  | Some a, Some b => replaces a b
  | _, _ => false
  end.
(** the map [m] as an association list with unique keys *)
Fixpoint register (m : list ts_row) (ts : ts_row) : list ts_row :=
  match m with
  | [] => [ts]
  | x :: m' =>
      if str_eqb (t_uid x) (t_uid ts)
      then (if row_replaces x ts then ts :: m' else x :: m')
      else x :: register m' ts
  end.
Definition build_registry (declared : list ts_row) : list ts_row := fold_left register declared [].

(** [get]: [uid.trim_end_matches(|c| c.is_whitespace() || c == '\0')], then the map lookup. *)
Definition is_pad (c : N) : bool := is_ws c || (c =? 0).
Fixpoint drop_while (p : N -> bool) (s : str) : str :=
  match s with
  | c :: s' => if p c then drop_while p s' else s
  | [] => []
  end.
Definition trim_end_pad (s : str) : str := rev (drop_while is_pad (rev s)).
Definition get (m : list ts_row) (uid : str) : option ts_row :=
  find (fun x => str_eqb (t_uid x) (trim_end_pad uid)) m.

(** the two feature sets of Gen/GenTs.v *)
Definition observed (k : N) : list ts_row := fst (nth (N.to_nat k) feature_sets ([], [])).
Definition declared (k : N) : list ts_row := snd (nth (N.to_nat k) feature_sets ([], [])).
Definition MODEL_REGISTRIES : list (list ts_row) := map (fun f => build_registry (snd f)) feature_sets.
Definition model_registry (k : N) : list ts_row := nth (N.to_nat k) MODEL_REGISTRIES [].

Definition same_rows (a b : list ts_row) : bool :=
  (N.of_nat (List.length a) =? N.of_nat (List.length b))
  && forallb (fun x => existsb (row_eqb x) b) a && forallb (fun x => existsb (row_eqb x) a) b.

(** UIDs named by the property *)
Definition UID_IMPLICIT_VR_LE : str := [49;46;50;46;56;52;48;46;49;48;48;48;56;46;49;46;50].        (* 1.2.840.10008.1.2 *)
Definition UID_EXPLICIT_VR_BE : str := [49;46;50;46;56;52;48;46;49;48;48;48;56;46;49;46;50;46;50].  (* 1.2.840.10008.1.2.2 *)

(** Correspondence cases: feature set, query, what the implementation answered.
    Compact forms (shards parse much faster): the query is an ASCII string literal followed by the
    remaining code points; the answer is coded, 0 = None, 1 + i = row i of [observed fs] (the
    harness uses the code only when the returned transfer syntax dumps to exactly that row). *)
Fixpoint codes_of_string (s : string) : str :=
  match s with
  | EmptyString => []
  | String a s' => N_of_ascii a :: codes_of_string s'
  end.
Definition decode_row (fs code : N) : option (option ts_row) :=
  if code =? 0 then Some None
  else match nth_error (observed fs) (N.to_nat (code - 1)) with Some r => Some (Some r) | None => None end.

Inductive case :=
| G (fs : N) (prefix : string) (rest : str) (code : N)
| R (fs : N) (i : N)
| D (fs : N) (i : N)                        (* descriptor i of [declared fs], as declared *)
| GetCase (fs : N) (query : str) (r : option ts_row)
| RowCase (fs : N) (r : ts_row).

Definition check_row (fs : N) (r : ts_row) : bool := existsb (row_eqb r) (model_registry fs) && row_consistent r.
Definition check_case (c : case) : bool :=
  match c with
  | G fs p rest code =>
      match decode_row fs code with
      | Some r => opt_eqb row_eqb (get (model_registry fs) (codes_of_string p ++ rest)) r
      | None => false
      end
  | R fs i => match nth_error (observed fs) (N.to_nat i) with Some r => check_row fs r | None => false end
  | D fs i => match nth_error (declared fs) (N.to_nat i) with Some r => row_consistent r | None => false end
  | GetCase fs q r => opt_eqb row_eqb (get (model_registry fs) q) r
  | RowCase fs r => check_row fs r
  end.
