(** Model of dictionary-std/src/data_element.rs (registry construction [index] = [reg_index] here,
    [init_dictionary]; lookups [indexed_tag], [by_name]) and of
    dictionary-std/src/sop_class.rs ([index_all], [by_uid], [by_keyword]), over the
    tables regenerated from /repo on every run (Gen/GenDict*.v, Gen/GenUids.v).
    Tags are [group * 65536 + element]. No proofs here. *)
From DicomV Require Export Model.DictBase.
From DicomV Require Export Gen.GenDict Gen.GenUids.
From Coq Require Export FMapPositive.
Module PM := PositiveMap.
Open Scope N_scope.

Definition mk_tag (g e : N) : N := g * 65536 + e.
Definition tag_group (t : N) : N := t / 65536.
Definition tag_elem (t : N) : N := t mod 65536.

(** [HashMap<Tag, _>] / [HashSet<Tag>]: finite maps keyed by the tag. *)
Definition key (t : N) : positive := N.succ_pos t.

(** The two generic entries (statics of data_element.rs). *)
Definition GROUP_LENGTH_ENTRY : entry := E K_GROUP_LENGTH 0 "GenericGroupLength" 21836.   (* UL *)
Definition PRIVATE_CREATOR_ENTRY : entry := E K_PRIVATE_CREATOR 0 "PrivateCreator" 19535.  (* LO *)

(** [TagRange::inner]. *)
Definition inner (en : entry) : N :=
  if e_kind en =? K_GROUP_LENGTH then 0
  else if e_kind en =? K_PRIVATE_CREATOR then mk_tag 9 16
  else e_tag en.

Record registry := {
  r_by_name : list (string * entry);   (* HashMap<&str, _>: newest binding first *)
  r_by_tag : PM.t entry;               (* HashMap<Tag, _> *)
  r_ggxx : PM.t unit;                  (* HashSet<Tag>, repeating groups *)
  r_eexx : PM.t unit }.                (* HashSet<Tag>, repeating elements *)

Definition empty_registry : registry :=
  {| r_by_name := []; r_by_tag := PM.empty entry; r_ggxx := PM.empty unit; r_eexx := PM.empty unit |}.

(** [StandardDataDictionaryRegistry::index]: insertions overwrite. *)
Definition reg_index (r : registry) (en : entry) : registry :=
  {| r_by_name := (e_alias en, en) :: r_by_name r;
     r_by_tag := PM.add (key (inner en)) en (r_by_tag r);
     r_ggxx := if e_kind en =? K_GROUP100 then PM.add (key (e_tag en)) tt (r_ggxx r) else r_ggxx r;
     r_eexx := if e_kind en =? K_ELEMENT100 then PM.add (key (e_tag en)) tt (r_eexx r) else r_eexx r |}.

(** [init_dictionary]: every generated entry in source order ([BASE]), then the two
    generic keywords are added to the keyword index only. *)
Definition with_generic_names (d : registry) : registry :=
  {| r_by_name := (e_alias PRIVATE_CREATOR_ENTRY, PRIVATE_CREATOR_ENTRY)
                  :: (e_alias GROUP_LENGTH_ENTRY, GROUP_LENGTH_ENTRY) :: r_by_name d;
     r_by_tag := r_by_tag d; r_ggxx := r_ggxx d; r_eexx := r_eexx d |}.
Definition init_dictionary (entries : list entry) : registry :=
  with_generic_names (fold_left reg_index entries empty_registry).

Definition BASE : registry := fold_left reg_index ENTRIES empty_registry.
Definition DICT : registry := with_generic_names BASE.

(** [Tag(tag.0 & 0xFF00, tag.1)] and [Tag(tag.0, tag.1 & 0xFF00)]. *)
Definition group_trimmed (g e : N) : N := mk_tag (N.land g 65280) e.
Definition elem_trimmed (g e : N) : N := mk_tag g (N.land e 65280).

(** The generic fallbacks of [indexed_tag]. *)
Definition generic_entry (g e : N) : option entry :=
  if N.odd g && (16 <=? e) && (e <=? 255) then Some PRIVATE_CREATOR_ENTRY
  else if e =? 0 then Some GROUP_LENGTH_ENTRY
  else None.

(** [StandardDataDictionary::indexed_tag]. *)
Definition indexed_tag (r : registry) (g e : N) : option entry :=
  let found :=
    match PM.find (key (mk_tag g e)) (r_by_tag r) with
    | Some en => Some en
    | None =>
        if PM.mem (key (group_trimmed g e)) (r_ggxx r) then PM.find (key (group_trimmed g e)) (r_by_tag r)
        else if PM.mem (key (elem_trimmed g e)) (r_eexx r) then PM.find (key (elem_trimmed g e)) (r_by_tag r)
        else None
    end in
  match found with
  | Some en => Some en
  | None => generic_entry g e
  end.

Definition by_tag (g e : N) : option entry := indexed_tag DICT g e.

(** [HashMap::get] on the keyword index: the newest binding of the key. *)
Fixpoint assoc {V} (s : string) (l : list (string * V)) : option V :=
  match l with
  | [] => None
  | (k, v) :: l' => if String.eqb k s then Some v else assoc s l'
  end.
Definition by_name (s : string) : option entry := assoc s (r_by_name DICT).

(** sop_class.rs: [index_all] extends both maps in table order. *)
Definition insert_all {V} (k : V -> string) (l : list V) (m : list (string * V)) : list (string * V) :=
  fold_left (fun m v => (k v, v) :: m) l m.
Definition SOP_BY_KEYWORD : list (string * uid_entry) := insert_all u_alias SOP_CLASSES [].
Definition SOP_BY_UID : list (string * uid_entry) := insert_all u_uid SOP_CLASSES [].
Definition sop_by_keyword (s : string) : option uid_entry := assoc s SOP_BY_KEYWORD.
Definition sop_by_uid (s : string) : option uid_entry := assoc s SOP_BY_UID.

(** Correspondence cases: the query and what the real dictionary answered.
    Answers are normally coded (shards parse much faster): 0 = None, 1 = the generic group
    length entry, 2 = the generic private creator entry, 3 + i = row i of [ENTRIES]
    (for SOP classes: 0 = None, 1 + i = row i of [SOP_CLASSES]); the harness uses a code only
    when the returned entry is field-by-field equal to that row, else the explicit form. *)
Definition ROW_INDEX : PM.t entry :=
  fst (fold_left (fun mi en => (PM.add (key (snd mi)) en (fst mi), snd mi + 1)) ENTRIES (PM.empty entry, 0)).
Definition SOP_ROW_INDEX : PM.t uid_entry :=
  fst (fold_left (fun mi u => (PM.add (key (snd mi)) u (fst mi), snd mi + 1)) SOP_CLASSES (PM.empty uid_entry, 0)).
(* [None] = a code that names no row *)
Definition decode_answer (c : N) : option (option entry) :=
  if c =? 0 then Some None
  else if c =? 1 then Some (Some GROUP_LENGTH_ENTRY)
  else if c =? 2 then Some (Some PRIVATE_CREATOR_ENTRY)
  else match PM.find (key (c - 3)) ROW_INDEX with Some en => Some (Some en) | None => None end.
Definition decode_sop_answer (c : N) : option (option uid_entry) :=
  if c =? 0 then Some None
  else match PM.find (key (c - 1)) SOP_ROW_INDEX with Some u => Some (Some u) | None => None end.

Inductive case :=
| T (tag code : N)                         (* by_tag, coded answer; tag = group * 65536 + element *)
| Nm (s : string) (code : N)               (* by_name, coded answer *)
| SU (s : string) (code : N)               (* SOP class by_uid, coded answer *)
| SK (s : string) (code : N)               (* SOP class by_keyword, coded answer *)
| ByTag (g e : N) (r : option entry)       (* explicit forms *)
| ByName (s : string) (r : option entry)
| SopUid (s : string) (r : option uid_entry)
| SopKw (s : string) (r : option uid_entry).

Definition check_case (c : case) : bool :=
  match c with
  | T t code => match decode_answer code with Some r => opt_eqb entry_eqb (by_tag (tag_group t) (tag_elem t)) r | None => false end
  | Nm s code => match decode_answer code with Some r => opt_eqb entry_eqb (by_name s) r | None => false end
  | SU s code => match decode_sop_answer code with Some r => opt_eqb uid_entry_eqb (sop_by_uid s) r | None => false end
  | SK s code => match decode_sop_answer code with Some r => opt_eqb uid_entry_eqb (sop_by_keyword s) r | None => false end
  | ByTag g e r => opt_eqb entry_eqb (by_tag g e) r
  | ByName s r => opt_eqb entry_eqb (by_name s) r
  | SopUid s r => opt_eqb uid_entry_eqb (sop_by_uid s) r
  | SopKw s r => opt_eqb uid_entry_eqb (sop_by_keyword s) r
  end.
