(** Model of transfer-syntax-registry/src/adapters/rle_lossless.rs:
    [read_rle_header], [PackBitsReader::new], and the segment placement loops
    of [RleLosslessAdapter::decode] / [decode_frame] (as of the `fix:` commit
    that corrected the [start] formula). Indices are [nat], bytes and header
    numbers are [N]. Panics of slice/index expressions are explicit. *)
From DicomV Require Export Base.Endian.

Definition len (d : bytes) : N := N.of_nat (length d).

(* error / panic classes *)
Definition E_custom : N := 1.       (* whatever!(..): bits allocated, PackBits read error, missing fragment *)
Definition E_frame_range : N := 2.  (* FrameRangeOutOfBounds *)
Definition P_slice : N := 1.        (* slice range out of bounds / start > end *)
Definition P_index : N := 2.        (* index out of bounds *)
Definition P_overflow : N := 3.     (* u32 arithmetic overflow (dev profile) *)

(** PackBitsReader::new(reader over [seg], seg.len()): the decoded buffer.
    header h as i8: 0..=127 literal run of h+1 bytes (silently shorter at the
    end of the segment: io::copy of a Take), -127..=-1 (129..=255) replicate
    the next byte 1-h times (read_exact fails at the end: Err), -128 no-op. *)
Fixpoint unpack_fuel (fuel : nat) (seg : bytes) : outcome bytes :=
  match fuel with
  | O => Ok []
  | S fuel =>
      match seg with
      | [] => Ok []
      | h :: rest =>
          if h <=? 127 then
            let n := S (N.to_nat h) in
            r <- unpack_fuel fuel (skipn n rest) ;; Ok (firstn n rest ++ r)
          else if h =? 128 then unpack_fuel fuel rest
          else
            match rest with
            | [] => Err E_custom
            | x :: rest' =>
                r <- unpack_fuel fuel rest' ;; Ok (repeat x (N.to_nat (257 - h)) ++ r)
            end
      end
  end.
(* every round consumes at least one byte *)
Definition unpack (seg : bytes) : outcome bytes := unpack_fuel (length seg) seg.

(** LittleEndian::read_u32_into over [n] groups of 4 bytes *)
Fixpoint read_u32s (n : nat) (b : bytes) : list N :=
  match n with
  | O => []
  | S n' => le_val (firstn 4 b) :: read_u32s n' (skipn 4 b)
  end.

(** read_rle_header *)
Definition read_rle_header (frag : bytes) : outcome (list N) :=
  if len frag <? 4 then Err E_custom                       (* fragment.get(0..4)? *)
  else
    let nr := le_val (firstn 4 frag) in
    if 15 <? nr then Err E_custom                          (* more segments than a header can describe *)
    else if len frag <? 4 * (nr + 1) then Err E_custom     (* fragment.get(4..4 * (nr + 1))? *)
    else Ok (read_u32s (N.to_nat nr) (skipn 4 frag)).

(** dst[i] = x *)
Definition upd (l : bytes) (i : nat) (x : N) : bytes := firstn i l ++ x :: skipn (S i) l.

(** for (decoded_index, dst_index) in (idx..endi).step_by(step).enumerate()
      { dst[dst_index] = decoded_segment[decoded_index] } *)
Fixpoint place (seg : bytes) (idx step endi : nat) (dst : bytes) : outcome bytes :=
  if (endi <=? idx)%nat then Ok dst
  else match seg with
       | [] => Err E_custom                                (* decoded_segment.get(..): "RLE segment is too short" *)
       | x :: seg' => place seg' (idx + step) step endi (upd dst idx x)
       end.

(* &fragment[a..b] *)
Definition slice_range (frag : bytes) (a b : N) : outcome bytes :=
  if (a <=? b) && (b <=? len frag)
  then Ok (firstn (N.to_nat (b - a)) (skipn (N.to_nat a) frag))
  else Err E_custom.                                     (* fragment.get(start..end) = None *)

(* offsets.get(ii) *)
Definition index (l : list N) (i : nat) : outcome N :=
  match nth_error l i with Some x => Ok x | None => Err E_custom end.

(** loop order: for sample_number in 0..spp { for byte_offset in (0..bps).rev() {..} } *)
Definition sb_list (spp bps : nat) : list (nat * nat) :=
  flat_map (fun s => map (fun b => (s, b)) (rev (seq 0 bps))) (seq 0 spp).

(** segment ii = s*bps+b: &fragment[offsets[ii]..offsets[ii+1]], PackBits, .take(rows*cols) *)
Definition decoded_segment (frag : bytes) (offsets : list N) (npix bps : nat) (sb : nat * nat)
    : outcome bytes :=
  let '(s, b) := sb in
  let ii := (s * bps + b)%nat in
  a <- index offsets ii ;;
  e <- index offsets (S ii) ;;
  segment <- slice_range frag a e ;;
  dec <- unpack segment ;;
  Ok (firstn npix dec).

(* destination offset of the first byte of segment (s, b) within a frame:
   byte [b] counted from the most significant one, little-endian output *)
Definition seg_pos (bps : nat) (sb : nat * nat) : nat := (fst sb * bps + (bps - 1 - snd sb))%nat.

(** one round of the inner loop: decode the segment, strided copy *)
Definition step_sb (frag : bytes) (offsets : list N) (npix bps spp frame_start frame_size : nat)
    (acc : outcome bytes) (sb : nat * nat) : outcome bytes :=
  dst <- acc ;;
  ds <- decoded_segment frag offsets npix bps sb ;;
  place ds (frame_start + seg_pos bps sb) (bps * spp) (frame_start + frame_size) dst.

(** decoding one fragment into dst[frame_start .. frame_start + frame_size] *)
Definition decode_into (rows cols spp bps : nat) (frag : bytes) (frame_start : nat) (dst : bytes)
    : outcome bytes :=
  let frame_size := (bps * cols * rows * spp)%nat in
  hdr <- read_rle_header frag ;;
  let offsets := hdr ++ [len frag mod 2 ^ 32] in            (* offsets.push(fragment.len() as u32) *)
  fold_left (step_sb frag offsets (rows * cols) bps spp frame_start frame_size) (sb_list spp bps) (Ok dst).

Record rle_obj := { o_rows : N; o_cols : N; o_spp : N; o_bits : N; o_frags : list bytes }.

Definition bits_ok (b : N) : bool := (b =? 8) || (b =? 16).
Definition frame_size_of (o : rle_obj) : nat :=
  (N.to_nat (o_bits o / 8) * N.to_nat (o_cols o) * N.to_nat (o_rows o) * N.to_nat (o_spp o))%nat.

(** RleLosslessAdapter::decode_frame with an empty destination *)
Definition decode_frame (o : rle_obj) (frame : N) : outcome bytes :=
  if negb (bits_ok (o_bits o)) then Err E_custom
  else if N.of_nat (length (o_frags o)) <=? frame then Err E_frame_range   (* ensure!(nr_frames > frame) *)
  else
    match nth_error (o_frags o) (N.to_nat frame) with
    | None => Err E_custom
    | Some frag =>
        decode_into (N.to_nat (o_rows o)) (N.to_nat (o_cols o)) (N.to_nat (o_spp o)) (N.to_nat (o_bits o / 8))
                    frag 0 (repeat 0 (frame_size_of o))
    end.

(** RleLosslessAdapter::decode with an empty destination:
    dst.resize(frame_size * nr_frames, 0); for i in 0..nr_frames { .. } *)
Fixpoint decode_loop (o : rle_obj) (frags : list bytes) (i : nat) (acc : outcome bytes) : outcome bytes :=
  match frags with
  | [] => acc
  | frag :: rest =>
      decode_loop o rest (S i)
        (dst <- acc ;;
         decode_into (N.to_nat (o_rows o)) (N.to_nat (o_cols o)) (N.to_nat (o_spp o)) (N.to_nat (o_bits o / 8))
                     frag (i * frame_size_of o) dst)
  end.
Definition decode (o : rle_obj) : outcome bytes :=
  if negb (bits_ok (o_bits o)) then Err E_custom
  else decode_loop o (o_frags o) 0 (Ok (repeat 0 (frame_size_of o * length (o_frags o)))).

(** Specification-side: the concatenation of per-frame results, in frame order
    (the first failing frame decides the failure). *)
Fixpoint concat_frames (l : list (outcome bytes)) : outcome bytes :=
  match l with
  | [] => Ok []
  | x :: r => a <- x ;; b <- concat_frames r ;; Ok (a ++ b)
  end.
Definition frame_indices (o : rle_obj) : list N := map N.of_nat (seq 0 (length (o_frags o))).

(** Correspondence case: values are compared exactly; a rejection is compared
    as a rejection (whether the code answers Err or panics on malformed
    fragments is C05's business, not this property's). *)
Definition agree (m i : outcome bytes) : bool :=
  match m, i with
  | Ok x, Ok y => str_eqb x y
  | Ok _, _ | _, Ok _ => false
  | _, _ => true
  end.
(* (rows, cols, spp, bits, fragments, impl whole-object result, [(frame, impl frame result)]) *)
Definition check_case (c : N * N * N * N * list bytes * outcome bytes * list (N * outcome bytes)) : bool :=
  let '(r, co, s, b, fr, w, fl) := c in
  let o := {| o_rows := r; o_cols := co; o_spp := s; o_bits := b; o_frags := fr |} in
  agree (decode o) w && forallb (fun '(f, pf) => agree (decode_frame o f) pf) fl.
