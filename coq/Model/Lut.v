(** Model of pixeldata/src/lut.rs ([Lut::new_with_fn], the constructors built on
    it, [Lut::get]), pixeldata/src/transform.rs ([Rescale::apply],
    [WindowLevelTransform::new/apply], the window functions) and the LUT part
    of [DecodedPixelData::convert_pixel_slice] (pixeldata/src/lib.rs).

    f64 values are Coq primitive floats (IEEE binary64, round to nearest even:
    the same arithmetic as Rust's f64 [+ - * /] and comparisons), so the model
    is evaluated bit-exactly by [vm_compute]. No proofs here. *)
From Coq Require Import Floats Uint63.
From DicomV Require Export Base.Prelude.


(** ** Integers to f64 ([as f64]; exact below 2^53, models are used below 2^33) *)
Definition n2f (n : N) : float := PrimFloat.of_uint63 (Uint63.of_Z (Z.of_N n)).
Definition z2f (z : Z) : float :=
  match z with
  | Z0 => 0%float
  | Zpos p => n2f (Npos p)
  | Zneg p => (- n2f (Npos p))%float
  end.

(** ** f64 to integer, truncating toward zero ([to_int_unchecked] after the range check).
    [frshiftexp y = (m, e)] with [y = m * 2^(e - shift)], [m] in [[0.5, 1)];
    [normfr_mantissa m = m * 2^53]. Meaningful for finite [y]. *)
Definition trunc_pos (y : float) : Z :=
  let '(m, e) := PrimFloat.frshiftexp y in
  let mant := Uint63.to_Z (PrimFloat.normfr_mantissa m) in
  let ex := (Uint63.to_Z e - FloatOps.shift - 53)%Z in
  match ex with
  | Z0 => mant
  | Zpos p => Z.shiftl mant (Zpos p)
  | Zneg p => Z.shiftr mant (Zpos p)
  end.
Definition trunc (y : float) : Z :=
  if (y <? 0)%float then Z.opp (trunc_pos (- y)%float) else trunc_pos y.

(** ** Output types [T] of [Lut<T>] and [NumCast::from(f64)] (num-traits 0.2:
    accepted iff [MIN-1 < y < MAX+1], then truncation; NaN fails both tests). *)
Inductive target := TU8 | TU16 | TI16 | TI32.
Definition tgt_min (t : target) : Z :=
  match t with TU8 | TU16 => 0 | TI16 => -32768 | TI32 => -2147483648 end%Z.
Definition tgt_max (t : target) : Z :=
  match t with TU8 => 255 | TU16 => 65535 | TI16 => 32767 | TI32 => 2147483647 end%Z.
Definition cast_between (lo_m1 hi_p1 y : float) : option Z :=
  if (lo_m1 <? y)%float && (y <? hi_p1)%float then Some (trunc y) else None.
Definition cast (t : target) (y : float) : option Z :=
  cast_between (z2f (tgt_min t - 1)) (z2f (tgt_max t + 1)) y.

(** ** transform.rs *)
Record rescale := { slope : float; intercept : float }.
Definition rescale_apply (r : rescale) (v : float) : float := (slope r * v + intercept r)%float.

Inductive voi_function := Linear | LinearExact | Sigmoid.
Record window_level := { width : float; center : float }.

(* f64::max: a NaN operand is ignored *)
Definition fmax (a b : float) : float :=
  if PrimFloat.is_nan a then b else if PrimFloat.is_nan b then a else if (a <? b)%float then b else a.

(* WindowLevelTransform::new: the width is clamped *)
Record wl_transform := { wl_fun : voi_function; wl_width : float; wl_center : float }.
Definition wl_new (f : voi_function) (w : window_level) : wl_transform :=
  {| wl_fun := f;
     wl_width := match f with LinearExact => fmax (width w) 0%float | _ => fmax (width w) 1%float end;
     wl_center := center w |}.

Definition window_level_linear (value ww wc y_max : float) : float :=
  (let min := wc - 0.5 - (ww - 1) / 2 in
   let max := wc - 0.5 + (ww - 1) / 2 in
   if value <=? min then 0
   else if max <? value then y_max
   else ((value - (wc - 0.5)) / (ww - 1) + 0.5) * y_max)%float.

Definition window_level_linear_exact (value ww wc y_max : float) : float :=
  (let min := wc - ww / 2 in
   let max := wc + ww / 2 in
   if value <=? min then 0
   else if max <? value then y_max
   else ((value - wc) / ww + 0.5) * y_max)%float.

Section Sigmoid.
  (* f64::exp is external (libm): a Section variable, never evaluated by the checks *)
  Variable fexp : float -> float.
  Definition window_level_sigmoid (value ww wc y_max : float) : float :=
    (y_max / (1 + fexp (-4 * (value - wc) / ww)))%float.

  Definition wl_apply (t : wl_transform) (value y_max : float) : float :=
    match wl_fun t with
    | Linear => window_level_linear value (wl_width t) (wl_center t) y_max
    | LinearExact => window_level_linear_exact value (wl_width t) (wl_center t) y_max
    | Sigmoid => window_level_sigmoid value (wl_width t) (wl_center t) y_max
    end.
End Sigmoid.

(** ** lut.rs *)
Definition lut_size (bits : N) : N := (2 ^ bits)%N.

(* the input pixel value of table index [i]: `i as f64 - size as f64` for the upper half when signed *)
Definition index_value (bits : N) (signed : bool) (i : N) : Z :=
  let size := lut_size bits in
  if signed && (size / 2 <=? i)%N then (Z.of_N i - Z.of_N size)%Z else Z.of_N i.
(* [half = size / 2] and [fsize = size as f64] are passed in so that a whole table
   computes them once *)
Definition x_at (half : N) (fsize : float) (signed : bool) (i : N) : float :=
  if signed && (half <=? i)%N then (n2f i - fsize)%float else n2f i.
Definition x_of_index (bits : N) (signed : bool) (i : N) : float :=
  let size := lut_size bits in x_at (size / 2) (n2f size) signed i.

(* [0; 1; ...; n-1] *)
Fixpoint nseq_from (fuel : nat) (i : N) : list N :=
  match fuel with O => [] | S k => i :: nseq_from k (N.succ i) end.
Definition nseq (n : N) : list N := nseq_from (N.to_nat n) 0%N.

Record lut := { table : list Z; sample_mask : N }.

(* entries before collection: None = the cast failed at that index *)
Definition lut_entries (bits : N) (signed : bool) (f : float -> float) (t : target) : list (option Z) :=
  let size := lut_size bits in
  let half := (size / 2)%N in
  let fsize := n2f size in
  let lo := z2f (tgt_min t - 1) in
  let hi := z2f (tgt_max t + 1) in
  map (fun i => cast_between lo hi (f (x_at half fsize signed i))) (nseq size).

Fixpoint collect (l : list (option Z)) : option (list Z) :=
  match l with
  | [] => Some []
  | None :: _ => None
  | Some z :: r => match collect r with Some r' => Some (z :: r') | None => None end
  end.

(* Ok lut | Err 1 (CreateLutError) | Panic 1 (assert bits_stored != 0 && <= 32) *)
Definition new_with_fn (bits : N) (signed : bool) (f : float -> float) (t : target) : outcome lut :=
  if (bits =? 0)%N || (32 <? bits)%N then Panic 1%N
  else match collect (lut_entries bits signed f t) with
       | Some tb => Ok {| table := tb; sample_mask := (lut_size bits - 1)%N |}
       | None => Err 1%N
       end.

(* `sample_value.into() & self.sample_mask`, then `self.table[val]` *)
Definition lut_get (l : lut) (sample : N) : Z :=
  nth (N.to_nat (N.land sample (sample_mask l))) (table l) 0%Z.

(* (bits_stored as usize).next_power_of_two(), y_max = ((1 << bits_allocated) - 1) as f64 *)
Definition next_pow2 (n : N) : N :=
  match n with
  | 0 => 1
  | _ => 2 ^ (N.log2_up n)
  end%N.
Definition y_max_of_bits (bits : N) : float := n2f (2 ^ next_pow2 bits - 1)%N.

Section Ctors.
  Variable fexp : float -> float.
  Definition new_rescale bits signed r t := new_with_fn bits signed (rescale_apply r) t.
  Definition new_rescale_and_window bits signed r voi t :=
    new_with_fn bits signed (fun v => wl_apply fexp voi (rescale_apply r v) (y_max_of_bits bits)) t.
  Definition new_window bits signed voi t :=
    new_with_fn bits signed (fun v => wl_apply fexp voi v (y_max_of_bits bits)) t.
  Definition new_rescale_and_window_8bit bits signed r voi :=
    new_with_fn bits signed (fun v => wl_apply fexp voi (rescale_apply r v) 255%float) TU8.
  Definition new_window_8bit bits signed voi :=
    new_with_fn bits signed (fun v => wl_apply fexp voi v 255%float) TU8.

  (** the function each constructor tabulates, and its target type *)
  Definition ctor_fn (ctor bits : N) (r : rescale) (voi : wl_transform) : float -> float :=
    match ctor with
    | 0 => rescale_apply r
    | 1 => fun v => wl_apply fexp voi (rescale_apply r v) (y_max_of_bits bits)
    | 2 => fun v => wl_apply fexp voi v (y_max_of_bits bits)
    | 3 => fun v => wl_apply fexp voi (rescale_apply r v) 255%float
    | _ => fun v => wl_apply fexp voi v 255%float
    end%N.
  Definition ctor_target (ctor : N) (t : target) : target :=
    match ctor with 3 | 4 => TU8 | _ => t end%N.
End Ctors.

(** ** lib.rs: the LUT part of [convert_pixel_slice] for monochrome images.
    8 bits allocated: the LUT is indexed by the 8-bit samples and built with
    [bits_stored.clamp(1, 8)] bits; 16 bits allocated: little-endian 16-bit
    samples, LUT of [bits_stored] bits. [voi = None]: VoiLutOption::Default
    (modality LUT only); [Some (f, w)]: CustomWithFunction. *)
Definition lut_bits_of (bits_allocated bits_stored : N) : N :=
  if (bits_allocated =? 8)%N then N.max 1 (N.min bits_stored 8)%N else bits_stored.

Section Pipeline.
  Variable fexp : float -> float.
  Definition convert_samples (bits_allocated bits_stored : N) (signed : bool) (r : rescale)
             (voi : option (voi_function * window_level)) (t : target) (samples : list N)
    : outcome (list Z) :=
    let bits := lut_bits_of bits_allocated bits_stored in
    l <- match voi with
         | None => new_rescale bits signed r t
         | Some (f, w) => new_rescale_and_window fexp bits signed r (wl_new f w) t
         end ;;
    Ok (map (lut_get l) samples).
End Pipeline.

(** ** Correspondence cases *)
Definition target_of (n : N) : target :=
  match n with 0 => TU8 | 1 => TU16 | 2 => TI16 | _ => TI32 end%N.
Definition fun_of (n : N) : voi_function :=
  match n with 0 => Linear | 1 => LinearExact | _ => Sigmoid end%N.

(* numeric identity of floats as the harness prints them (NaN = NaN, +0 <> -0) *)
Definition feqb (a b : float) : bool :=
  match Prim2SF a, Prim2SF b with
  | S754_zero s1, S754_zero s2 => Bool.eqb s1 s2
  | S754_infinity s1, S754_infinity s2 => Bool.eqb s1 s2
  | S754_nan, S754_nan => true
  | S754_finite s1 m1 e1, S754_finite s2 m2 e2 => Bool.eqb s1 s2 && Pos.eqb m1 m2 && Z.eqb e1 e2
  | _, _ => false
  end.

(* the sigmoid function is never evaluated by a case (sigmoid cases carry no Coq term) *)
Definition no_exp (x : float) : float := PrimFloat.nan.

(* two checksums over the whole table, as the harness computes them from [get(i)],
   i < 2^bits: the plain sum and the sum of all prefix sums (position dependent) *)
Fixpoint sums (l : list Z) (p b : Z) : Z * Z :=
  match l with
  | [] => (p, b)
  | e :: r => let p' := (p + e)%Z in sums r p' (b + p')%Z
  end.

Fixpoint all_none_free (l : list (option Z)) : bool :=
  match l with [] => true | None :: _ => false | Some _ :: r => all_none_free r end.

(** LUT-level case:
    (ctor, bits, signed, tgt, (slope, intercept), (func, center, width), (status, a, b, yv), samples)
    status 0: Ok, (a, b) = checksums of all entries (and the table has 2^bits entries); samples = (raw value, get raw)
    status 1: CreateLutError {index = a, y_value = yv} (any failing index: rayon)
    status 2: panic *)
Definition check_lut (c : N * N * bool * N * (float * float) * (N * float * float)
                          * (N * Z * Z * float) * list (N * Z)) : bool :=
  let '(ctor, bits, signed, tg, (sl, ic), (fn, wc, ww), (status, a, b, yv), samples) := c in
  let r := {| slope := sl; intercept := ic |} in
  let voi := wl_new (fun_of fn) {| width := ww; center := wc |} in
  let f := ctor_fn no_exp ctor bits r voi in
  let t := ctor_target ctor (target_of tg) in
  match new_with_fn bits signed f t, status with
  | Ok l, 0%N =>
      (let '(a', b') := sums (table l) 0 0 in Z.eqb a a' && Z.eqb b b')%Z
      && forallb (fun sv => Z.eqb (lut_get l (fst sv)) (snd sv)) samples
  | Err _, 1%N =>
      (* the reported entry really fails in the model, with the same y value *)
      let y := f (x_of_index bits signed (Z.to_N a)) in
      (Z.to_N a <? lut_size bits)%N && feqb y yv
      && match cast t y with None => true | Some _ => false end
  | Panic _, 2%N => true
  | _, _ => false
  end.

(** Pipeline case ([to_vec_with_options] on a one-frame monochrome image):
    (bits_allocated, bits_stored, signed, tgt, (slope, intercept), voi, samples, result)
    voi = None | Some (func, center, width); result = Ok values | Err 1 | Panic 0 *)
Definition outcome_eqb (a b : outcome (list Z)) : bool :=
  match a, b with
  | Ok x, Ok y => list_eqb Z.eqb x y
  | Err _, Err _ => true
  | Panic _, Panic _ => true
  | _, _ => false
  end.

Definition check_pipe (c : N * N * bool * N * (float * float) * option (N * float * float)
                           * list N * outcome (list Z)) : bool :=
  let '(ba, bs, signed, tg, (sl, ic), voi, samples, res) := c in
  let voi' := match voi with
              | None => None
              | Some (fn, wc, ww) => Some (fun_of fn, {| width := ww; center := wc |})
              end in
  outcome_eqb (convert_samples no_exp ba bs signed {| slope := sl; intercept := ic |} voi'
                               (target_of tg) samples) res.

Inductive lut_case :=
| CLut (c : N * N * bool * N * (float * float) * (N * float * float) * (N * Z * Z * float) * list (N * Z))
| CPipe (c : N * N * bool * N * (float * float) * option (N * float * float) * list N * outcome (list Z)).

Definition check_case (c : lut_case) : bool :=
  match c with CLut c => check_lut c | CPipe c => check_pipe c end.
