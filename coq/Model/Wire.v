(** Model of PDU reception over a byte stream:
      ul/src/association/mod.rs  read_pdu_from_wire, read_pdu_from_wire_async
    Both functions are the same loop: try [read_pdu] on the bytes accumulated in
    [read_buffer]; if it is incomplete, append whatever one read of the transport
    delivers and retry; a read of 0 bytes is "connection closed".
    - sync: a fresh [BufReader] per call; [fill_buf] performs ONE read of the
      underlying reader (up to 8192 bytes) because its buffer is always empty
      (everything obtained is copied to [read_buffer] and consumed);
    - async: [read_buf] performs one [poll_read] into the spare capacity of
      [read_buffer].
    The transport is the list of byte chunks its successive reads deliver, so
    "how the stream is segmented" is exactly this list.  No proofs here. *)
From DicomV Require Export Model.Pdu.

Definition E_Closed : N := 50.        (* ConnectionClosed *)

(** one call: result, new [read_buffer], remaining transport.
    On an error of [read_pdu] the buffer is left untouched. *)
Fixpoint receive (max : N) (strict : bool) (buf : bytes) (chunks : list bytes)
  : outcome pdu * bytes * list bytes :=
  match read_pdu max strict buf with
  | Ok (Some (p, rest)) => (Ok p, rest, chunks)
  | Err e => (Err e, buf, chunks)
  | Panic w => (Panic w, buf, chunks)
  | Ok None =>
      match chunks with
      | [] => (Err E_Closed, buf, [])                     (* the transport reports end of stream: read of 0 bytes *)
      | c :: cs =>
          match c with
          | [] => (Err E_Closed, buf, cs)                 (* a read that returns 0 bytes *)
          | _ :: _ => receive max strict (buf ++ c) cs
          end
      end
  end.

(** [n] successive calls sharing the read buffer *)
Fixpoint receive_n (max : N) (strict : bool) (n : nat) (buf : bytes) (chunks : list bytes)
  : list (outcome pdu) * bytes * list bytes :=
  match n with
  | O => ([], buf, chunks)
  | S n' =>
      let '(r, buf', chunks') := receive max strict buf chunks in
      let '(rs, buf'', chunks'') := receive_n max strict n' buf' chunks' in
      (r :: rs, buf'', chunks'')
  end.

(** Correspondence case: the chunks the scripted transport delivered (in order,
    as logged by the transport), max/strict, and for each call of the real
    function its result; finally the content of [read_buffer]. *)
Definition ROk (p : pdu) : outcome pdu := Ok p.
Definition RFail (e : N) : outcome pdu := Err e.
Definition RAbort : outcome pdu := Panic 0.
(* the segmentation is transported as the whole stream plus the chunk sizes *)
Fixpoint split_sizes (stream : bytes) (sizes : list N) : list bytes :=
  match sizes with
  | [] => []
  | k :: r => firstn (N.to_nat k) stream :: split_sizes (skipn (N.to_nat k) stream) r
  end.
Record wire_case := mk_wire {
  wc_stream : bytes; wc_sizes : list N; wc_max : N; wc_strict : bool;
  wc_results : list (outcome pdu); wc_final : bytes }.
Definition check_wire (c : wire_case) : bool :=
  let '(rs, buf, _) := receive_n (wc_max c) (wc_strict c) (length (wc_results c)) []
                                 (split_sizes (wc_stream c) (wc_sizes c)) in
  list_eqb (outcome_eqb pdu_eqb) rs (wc_results c) && bytes_eqb buf (wc_final c).
