(** Primitive values and their encoding:
    core/src/value/primitive.rs  [PrimitiveValue], [calculate_byte_len], [da/tm/dt_byte_len], [to_str] (integers)
    core/src/value/partial.rs    [DicomDate/DicomTime/DicomDateTime::to_encoded]
    core/src/value/serialize.rs  [encode_date/time/datetime]
    encoding/src/encode/mod.rs   [BasicEncode::encode_primitive] (bytes AND returned count), [encode_collection_delimited]
    parser/src/stateful/encode.rs [StatefulEncoder::encode_element_header] (even_len),
        [encode_primitive_element], [encode_text_element], [encode_texts_element],
        [encode_element_as_text], [write_bytes], [encode_item_header], [encode_offset_table].
    Text is a list of code points; the text codec is the ISO 8859-1 family
    (default repertoire and ISO_IR 100: one byte per code point < 256, strict). *)
From DicomV Require Export Model.Header.

(** * Values *)
Inductive date : Type := DYear (y : N) | DMonth (y m : N) | DDay (y m d : N).
Inductive time : Type :=
| THour (h : N) | TMinute (h m : N) | TSecond (h m s : N) | TFraction (h m s f fp : N).
(* date, optional time, optional UTC offset: (negative?, absolute seconds) *)
Record datetime : Type := { dt_date : date; dt_time : option time; dt_tz : option (bool * N) }.

Inductive prim : Type :=
| PEmpty
| PStr (s : str)
| PStrs (l : list str)
| PTags (l : list tag)
| PU8 (l : list N)
| PI16 (l : list N)   (* integers are carried as unsigned bit patterns of their width *)
| PU16 (l : list N)
| PI32 (l : list N)
| PU32 (l : list N)
| PI64 (l : list N)
| PU64 (l : list N)
| PF32 (l : list N)   (* IEEE bit patterns *)
| PF64 (l : list N)
| PDate (l : list date)
| PTime (l : list time)
| PDateTime (l : list datetime).

(** * Decimal text *)
Definition digit (n : N) : N := 48 + n mod 10.
(* exactly k digits: the k low decimal digits of n *)
Fixpoint fixed_dec (k : nat) (n : N) : bytes :=
  match k with O => [] | S k' => fixed_dec k' (n / 10) ++ [digit n] end.
(* natural decimal representation (fuel 20 digits covers u64) *)
Fixpoint nat_dec_aux (fuel : nat) (n : N) (acc : bytes) : bytes :=
  match fuel with
  | O => acc
  | S f => let acc' := digit n :: acc in if n / 10 =? 0 then acc' else nat_dec_aux f (n / 10) acc'
  end.
Definition nat_dec (n : N) : bytes := nat_dec_aux 20 n [].
(* Rust {:0k}: at least k digits *)
Definition pad_dec (k : nat) (n : N) : bytes := if n <? 10 ^ N.of_nat k then fixed_dec k n else nat_dec n.
(* signed integer of [w] bits given as bit pattern *)
Definition signed_dec (w : N) (n : N) : bytes :=
  if n <? 2 ^ (w - 1) then nat_dec n else 45 :: nat_dec (2 ^ w - n).

Definition date_text (d : date) : bytes :=
  match d with
  | DYear y => pad_dec 4 y
  | DMonth y m => pad_dec 4 y ++ pad_dec 2 m
  | DDay y m d => pad_dec 4 y ++ pad_dec 2 m ++ pad_dec 2 d
  end.
Definition time_text (t : time) : bytes :=
  match t with
  | THour h => pad_dec 2 h
  | TMinute h m => pad_dec 2 h ++ pad_dec 2 m
  | TSecond h m s => pad_dec 2 h ++ pad_dec 2 m ++ pad_dec 2 s
  | TFraction h m s f fp =>
      (* (10^fp + f).to_string()[1..] *)
      pad_dec 2 h ++ pad_dec 2 m ++ pad_dec 2 s ++ [46] ++ tl (nat_dec (10 ^ fp + f))
  end.
(* chrono FixedOffset Display with ':' removed: +HHMM, or +HHMMSS when seconds are non-zero *)
Definition tz_text (z : bool * N) : bytes :=
  let '(neg, off) := z in
  let sec := off mod 60 in let mins := off / 60 in
  (if neg then 45 else 43) :: pad_dec 2 (mins / 60) ++ pad_dec 2 (mins mod 60)
    ++ (if sec =? 0 then [] else pad_dec 2 sec).
Definition datetime_text (d : datetime) : bytes :=
  date_text (dt_date d) ++ (match dt_time d with Some t => time_text t | None => [] end)
    ++ (match dt_tz d with Some z => tz_text z | None => [] end).

(** [da_byte_len], [tm_byte_len], [dt_byte_len] *)
Definition da_byte_len (d : date) : N := match d with DYear _ => 4 | DMonth _ _ => 6 | DDay _ _ _ => 8 end.
Definition tm_byte_len (t : time) : N :=
  match t with THour _ => 2 | TMinute _ _ => 4 | TSecond _ _ _ => 6 | TFraction _ _ _ _ fp => 7 + fp end.
Definition dt_byte_len (d : datetime) : N :=
  da_byte_len (dt_date d) + (match dt_time d with Some t => tm_byte_len t | None => 0 end)
    + (match dt_tz d with Some _ => 5 | None => 0 end).

Definition blen (b : bytes) : N := N.of_nat (length b).
Definition nlen {A} (l : list A) : N := N.of_nat (length l).
Definition sum_N (l : list N) : N := fold_right N.add 0 l.
Definition clear_low_bit (n : N) : N := 2 * (n / 2).          (* n & !1 *)
Definition even_len (n : N) : N := clear_low_bit ((n + 1) mod 4294967296).  (* (l + 1) & !1 on u32 *)

(** UTF-8 length of a code point ([str::len] counts UTF-8 bytes). *)
Definition utf8_len (c : N) : N := if c <? 128 then 1 else if c <? 2048 then 2 else if c <? 65536 then 3 else 4.
Definition str_utf8_len (s : str) : N := sum_N (map utf8_len s).

(** [PrimitiveValue::calculate_byte_len] *)
Definition calc_byte_len (p : prim) : N :=
  match p with
  | PEmpty => 0
  | PU8 l => nlen l
  | PI16 l | PU16 l => nlen l * 2
  | PU32 l | PI32 l | PF32 l | PTags l => nlen l * 4
  | PU64 l | PI64 l | PF64 l => nlen l * 8
  | PStr s => str_utf8_len s
  | PStrs l => clear_low_bit (sum_N (map (fun s => str_utf8_len s + 1) l))
  | PDate l => clear_low_bit (sum_N (map (fun d => da_byte_len d + 1) l))
  | PTime l => clear_low_bit (sum_N (map (fun d => tm_byte_len d + 1) l))
  | PDateTime l => clear_low_bit (sum_N (map (fun d => dt_byte_len d + 1) l))
  end.

(** * [encode_primitive]: bytes written and returned count *)
Fixpoint join_bs (l : list bytes) : bytes :=
  match l with
  | [] => []
  | [x] => x
  | x :: t => x ++ [92] ++ join_bs t
  end.
(* [encode_collection_delimited] accumulates the per-item counts plus one per separator *)
Fixpoint delimited_count (l : list N) : N :=
  match l with
  | [] => 0
  | [x] => x
  | x :: t => x + 1 + delimited_count t
  end.

Definition utf8_enc (c : N) : bytes :=
  if c <? 128 then [c]
  else if c <? 2048 then [192 + c / 64; 128 + c mod 64]
  else if c <? 65536 then [224 + c / 4096; 128 + (c / 64) mod 64; 128 + c mod 64]
  else [240 + c / 262144; 128 + (c / 4096) mod 64; 128 + (c / 64) mod 64; 128 + c mod 64].
Definition str_utf8 (s : str) : bytes := flat_map utf8_enc s.

Definition enc_words (c : codec) (k : nat) (l : list N) : bytes :=
  flat_map (fun n => match c with EBE => be_bytes k n | _ => le_bytes k n end) l.

Definition enc_prim (c : codec) (p : prim) : bytes * N :=
  match p with
  | PEmpty => ([], 0)
  | PDate l => (join_bs (map date_text l), delimited_count (map (fun d => blen (date_text d)) l))
  | PTime l => (join_bs (map time_text l), delimited_count (map (fun d => blen (time_text d)) l))
  | PDateTime l => (join_bs (map datetime_text l), delimited_count (map (fun d => blen (datetime_text d)) l))
  | PStr s => (str_utf8 s, str_utf8_len s)
  | PStrs l => (join_bs (map str_utf8 l), delimited_count (map str_utf8_len l))
  | PF32 l | PU32 l | PI32 l => (enc_words c 4 l, nlen l * 4)
  | PF64 l | PU64 l | PI64 l => (enc_words c 8 l, nlen l * 8)
  | PU16 l | PI16 l => (enc_words c 2 l, nlen l * 2)
  | PU8 l => (l, nlen l)
  | PTags l => (flat_map (fun t => u16 c (fst t) ++ u16 c (snd t)) l, nlen l * 4)
  end.

(** * Stateful encoder *)
Definition P_Unreachable : N := 1.
Definition E_EncodeText : N := 2.
Definition E_Unmodelled : N := 99.   (* float to text: not modelled *)

(* ISO 8859-1, EncoderTrap::Strict *)
Definition latin1_enc (s : str) : outcome bytes :=
  if forallb (fun c => c <? 256) s then Ok s else Err E_EncodeText.

Fixpoint latin1_enc_all (l : list str) : outcome (list bytes) :=
  match l with
  | [] => Ok []
  | s :: t =>
      match latin1_enc s with
      | Ok b => match latin1_enc_all t with Ok r => Ok (b :: r) | Err e => Err e | Panic w => Panic w end
      | Err e => Err e | Panic w => Panic w
      end
  end.

(** [StatefulEncoder::encode_element_header]: a defined length is made even first. *)
Definition st_enc_header (c : codec) (t : tag) (v : vr) (len : N) : outcome bytes :=
  let len' := if len =? 4294967295 then len else even_len len in
  match enc_header c t v len' with
  | Ok (b, _) => Ok b | Err e => Err e | Panic w => Panic w
  end.

Definition text_pad (v : vr) : N := match v with UI => 0 | _ => 32 end.
Definition pad_even (pad : N) (b : bytes) : bytes := if Nat.odd (length b) then b ++ [pad] else b.

(* header (with the encoded length) followed by the padded text *)
Definition enc_text_value (c : codec) (t : tag) (v : vr) (raw : bytes) : outcome bytes :=
  let val := pad_even (text_pad v) raw in
  match st_enc_header c t v (blen val mod 4294967296) with
  | Ok h => Ok (h ++ val) | Err e => Err e | Panic w => Panic w
  end.

(* [PrimitiveValue::to_str] for the integer variants (joined with backslash) *)
Definition int_text (p : prim) : option bytes :=
  match p with
  | PU8 l | PU16 l | PU32 l | PU64 l => Some (join_bs (map nat_dec l))
  | PI16 l => Some (join_bs (map (signed_dec 16) l))
  | PI32 l => Some (join_bs (map (signed_dec 32) l))
  | PI64 l => Some (join_bs (map (signed_dec 64) l))
  | _ => None
  end.

(* the regular (non-text) path of [encode_primitive_element] *)
Definition enc_binary (c : codec) (t : tag) (v : vr) (p : prim) : outcome bytes :=
  let '(val, count) := enc_prim c p in
  match st_enc_header c t v (calc_byte_len p mod 4294967296) with
  | Ok h =>
      let pad := match v with DA | DT | TM => 32 | _ => 0 end in
      Ok (h ++ val ++ (if N.odd count then [pad] else []))
  | Err e => Err e | Panic w => Panic w
  end.

(** [encode_primitive_element]: all bytes written for one primitive element. *)
Definition enc_prim_element (c : codec) (t : tag) (v : vr) (p : prim) : outcome bytes :=
  match p with
  | PStr s =>
      match latin1_enc s with
      | Ok raw => enc_text_value c t v raw | Err e => Err e | Panic w => Panic w end
  | PStrs l =>
      match latin1_enc_all l with
      | Ok raws => enc_text_value c t v (join_bs raws) | Err e => Err e | Panic w => Panic w end
  | _ =>
      match v with
      | DS | IS =>
          (* numeric (or empty) values of DS/IS go through encode_element_as_text;
             dates, times and tags take the regular path *)
          match p with
          | PEmpty => st_enc_header c t v 0
          | PF32 _ | PF64 _ => Err E_Unmodelled
          | PDate _ | PTime _ | PDateTime _ | PTags _ => enc_binary c t v p
          | _ =>
              match int_text p with
              | Some txt =>
                  match st_enc_header c t v (even_len (blen txt mod 4294967296)) with
                  | Ok h => Ok (h ++ pad_even 32 txt) | Err e => Err e | Panic w => Panic w
                  end
              | None => Panic P_Unreachable
              end
          end
      | _ => enc_binary c t v p
      end
  end.

(** * [StatefulEncoder::bytes_written]: the increments the code adds, computed
    from the byte counts REPORTED by the encoding layer (returned value of
    [encode_element_header] and [encode_primitive], constants 8 for item
    headers and delimiters, [len()] of buffers it wrote itself). *)
Definition count_header (c : codec) (t : tag) (v : vr) (len : N) : outcome N :=
  let len' := if len =? 4294967295 then len else even_len len in
  match enc_header c t v len' with
  | Ok (_, n) => Ok n | Err e => Err e | Panic w => Panic w
  end.
Definition count_text_value (c : codec) (t : tag) (v : vr) (raw : bytes) : outcome N :=
  let val := pad_even (text_pad v) raw in
  match count_header c t v (blen val mod 4294967296) with
  | Ok n => Ok (n + blen val) | Err e => Err e | Panic w => Panic w
  end.
Definition count_binary (c : codec) (t : tag) (v : vr) (p : prim) : outcome N :=
  let count := snd (enc_prim c p) in
  match count_header c t v (calc_byte_len p mod 4294967296) with
  | Ok n => Ok (n + count + (if N.odd count then 1 else 0))
  | Err e => Err e | Panic w => Panic w
  end.
Definition count_prim_element (c : codec) (t : tag) (v : vr) (p : prim) : outcome N :=
  match p with
  | PStr s =>
      match latin1_enc s with
      | Ok raw => count_text_value c t v raw | Err e => Err e | Panic w => Panic w end
  | PStrs l =>
      match latin1_enc_all l with
      | Ok raws => count_text_value c t v (join_bs raws) | Err e => Err e | Panic w => Panic w end
  | _ =>
      match v with
      | DS | IS =>
          match p with
          | PEmpty => count_header c t v 0
          | PF32 _ | PF64 _ => Err E_Unmodelled
          | PDate _ | PTime _ | PDateTime _ | PTags _ => count_binary c t v p
          | _ =>
              match int_text p with
              | Some txt =>
                  match count_header c t v (even_len (blen txt mod 4294967296)) with
                  | Ok n => Ok (n + (if Nat.odd (length txt) then blen txt + 1 else blen txt))
                  | Err e => Err e | Panic w => Panic w
                  end
              | None => Panic P_Unreachable
              end
          end
      | _ => count_binary c t v p
      end
  end.

(** [encode_item_header], [write_bytes], [encode_offset_table]. *)
Definition st_enc_item_header (c : codec) (len : N) : bytes :=
  enc_item_header c (if len =? 4294967295 then len else even_len len).
Definition st_write_bytes (b : bytes) : bytes := pad_even 0 b.
Definition st_enc_offset_table (c : codec) (l : list N) : bytes := enc_words c 4 l.

(** ------------------------------------------------------------------ *)
(** Correspondence for C04 (value level): what the implementation did with one value. *)
Definition prim_eqb_bytes := str_eqb.

Inductive c04_case : Type :=
(* BasicEncode::encode_primitive (codec) value => bytes, returned count; calculate_byte_len *)
| CPrim (c : N) (p : prim) (out : bytes) (count : N) (byte_len : N)
(* StatefulEncoder::encode_primitive_element codec tag vr value => bytes written / error; bytes_written counter *)
| CElem (c : N) (g e v : N) (p : prim) (r : outcome (bytes * N)).

Definition check_prim_case (k : c04_case) : bool :=
  match k with
  | CPrim c p out count byte_len =>
      let '(b, n) := enc_prim (codec_of_index c) p in
      str_eqb b out && N.eqb n count && N.eqb (calc_byte_len p) byte_len
  | CElem c g e v p r =>
      match enc_prim_element (codec_of_index c) (g, e) (vr_of_index_d v) p, r with
      | Ok b, Ok (b', n) =>
          (* bytes, and the bytes_written counter as the model computes it from the reported counts *)
          str_eqb b b' && match count_prim_element (codec_of_index c) (g, e) (vr_of_index_d v) p with
                          | Ok k => N.eqb k n | _ => false end
      | Err 99, _ => true
      | Err x, Err y => N.eqb x y
      | Panic _, Panic _ => true
      | _, _ => false
      end
  end.
