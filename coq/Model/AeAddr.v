(** Model of ul/src/address.rs: [Display] and [FromStr] of [FullAeAddr<T>] and
    [AeAddr<T>]. Strings are lists of Unicode scalar values (only
    [split_once('@')], [replace('@', "\\@")], [contains('@')] and [is_empty]
    are used, none of which depends on the byte encoding).

    The socket-address type [T] is abstract: [print_addr] is its [Display],
    [parse_addr] its [FromStr] (error class irrelevant, any [Err]). *)
From DicomV Require Export Base.Str.

Definition at_sign : N := 64.
Definition backslash : N := 92.

(** [s.split_once(sep)]: split at the FIRST occurrence. *)
Fixpoint split_once (sep : N) (s : str) : option (str * str) :=
  match s with
  | [] => None
  | c :: s' =>
      if c =? sep then Some ([], s')
      else match split_once sep s' with
           | Some (a, b) => Some (c :: a, b)
           | None => None
           end
  end.

(** [t.replace('@', "\\@")] *)
Definition escape_at (t : str) : str :=
  flat_map (fun c => if c =? at_sign then [backslash; at_sign] else [c]) t.

Definition contains (c : N) (s : str) : bool := existsb (N.eqb c) s.

Definition is_empty (s : str) : bool := match s with [] => true | _ => false end.

(** error classes *)
Definition E_missing_part : N := 1.
Definition E_parse_socket : N := 2.

Section Addr.
  Variable A : Type.
  Variable print_addr : A -> str.
  Variable parse_addr : str -> outcome A.

  (** impl Display for FullAeAddr<T> *)
  Definition full_print (x : str * A) : str :=
    escape_at (fst x) ++ [at_sign] ++ print_addr (snd x).

  (** impl FromStr for FullAeAddr<T> *)
  Definition full_parse (s : str) : outcome (str * A) :=
    match split_once at_sign s with
    | Some (title, addr) =>
        if is_empty title then Err E_missing_part
        else match parse_addr addr with
             | Ok a => Ok (title, a)
             | Err _ => Err E_parse_socket
             | Panic w => Panic w
             end
    | None => Err E_missing_part
    end.

  (** impl Display for AeAddr<T> *)
  Definition ae_print (x : option str * A) : str :=
    let sa := print_addr (snd x) in
    match fst x with
    | Some t => escape_at t ++ [at_sign]
    | None => if contains at_sign sa then [at_sign] else []
    end ++ sa.

  (** impl FromStr for AeAddr<T> (the error is the address type's own error) *)
  Definition ae_parse (s : str) : outcome (option str * A) :=
    match split_once at_sign s with
    | Some (title, addr) =>
        match parse_addr addr with
        | Ok a => Ok ((if is_empty title then None else Some title), a)
        | Err _ => Err E_parse_socket
        | Panic w => Panic w
        end
    | None =>
        match parse_addr s with
        | Ok a => Ok (None, a)
        | Err _ => Err E_parse_socket
        | Panic w => Panic w
        end
    end.
End Addr.

(** Property-side definitions. *)
Definition no_at (t : str) : Prop := ~ In at_sign t.
Definition no_atb (t : str) : bool := negb (contains at_sign t).
(** The known failing class: the empty title (see docs/C36.md). *)
Definition empty_title (t : str) : Prop := t = [].

(** ---- correspondence ------------------------------------------------------
    The address type is instantiated by [str] (the canonical printed form of
    the address): [print_addr] is the identity and [parse_addr] is a finite
    table recorded from the implementation for the strings the parser can ask
    about (the whole text and the text after the first '@'); a string outside
    the table is an error the implementation never reports (class 99 on
    purpose: it makes the case disagree). *)
Fixpoint lookup (tbl : list (str * outcome str)) (s : str) : outcome str :=
  match tbl with
  | [] => Panic 99
  | (k, v) :: tbl' => if str_eqb k s then v else lookup tbl' s
  end.

Definition out_eqb {X} (eqb : X -> X -> bool) (a b : outcome X) : bool :=
  match a, b with
  | Ok x, Ok y => eqb x y
  | Err e, Err f => e =? f
  | Panic _, Panic _ => true
  | _, _ => false
  end.

Definition pair_eqb {X Y} (ex : X -> X -> bool) (ey : Y -> Y -> bool) (a b : X * Y) : bool :=
  ex (fst a) (fst b) && ey (snd a) (snd b).

(* case = (kind (0 = FullAeAddr, 1 = AeAddr), title, canonical address text,
           what the implementation printed, text handed to the parser,
           address-parser table, what the implementation parsed (title, canonical address)) *)
Definition check_case
  (c : N * option str * str * str * str * list (str * outcome str) * outcome (option str * str)) : bool :=
  let '(kind, title, addr, printed, text, tbl, parsed) := c in
  let pr := fun a : str => a in
  let pa := lookup tbl in
  if kind =? 0 then
    str_eqb (full_print str pr (match title with Some t => t | None => [] end, addr)) printed
    && out_eqb (pair_eqb (opt_eqb str_eqb) str_eqb)
         (match full_parse str pa text with
          | Ok (t, a) => Ok (Some t, a) | Err e => Err e | Panic w => Panic w end) parsed
  else
    str_eqb (ae_print str pr (title, addr)) printed
    && out_eqb (pair_eqb (opt_eqb str_eqb) str_eqb) (ae_parse str pa text) parsed.
