(** Model for C07 (and the header decoders used by C08): the stateful decoder
    and the eager data set reader.

    Transcribed from (after the three `fix:` commits named in docs/C07.md)
      encoding/src/decode/explicit_le.rs, explicit_be.rs, implicit_le.rs,
        adaptive_le.rs         decode_header, decode_item_header
      core/src/header.rs       SequenceItemHeader::new, is_encapsulated_pixeldata
      parser/src/stateful/decode.rs  StatefulDecoder::{decode_header,
        decode_item_header, read_value, read_value_preserved, read_value_bytes,
        read_value_* helpers, read_to_vec/read_to, read_u32_to_vec, position}
      parser/src/dataset/read.rs     DataSetReader::{next, update_seq_delimiters,
        push_sequence_token, sanitize_length}, OddLengthStrategy, ValueReadStrategy

    The source is the list of bytes not yet handed out; "consumed" is therefore
    (initial length - remaining length) and is NOT a field the code could get
    wrong: [d_position] is the decoder's own counter, the theorems relate the two.

    Abstracted: the data dictionary ([dict], a function; the correspondence
    instantiates it with the rows the real dictionary returned for the tags of
    the case), the text/number/date parsers of the Interpreted strategy
    ([rejects]: which element texts the real parser refused; the model does not
    parse them), text decoding (default repertoire = identity on bytes; cases
    which switch the character set are not compared). *)
From DicomV Require Import Base.Prelude Base.Endian.

Definition blen (b : bytes) : N := N.of_nat (length b).

(** * Value representations (code = first byte * 256 + second byte) *)
Definition AE : N := 16709. Definition AS : N := 16723. Definition AT : N := 16724.
Definition CS : N := 17235. Definition DA : N := 17473. Definition DS : N := 17491.
Definition DT : N := 17492. Definition FL : N := 17996. Definition FD : N := 17988.
Definition IS : N := 18771. Definition LO : N := 19535. Definition LT : N := 19540.
Definition OB : N := 20290. Definition OD : N := 20292. Definition OF : N := 20294.
Definition OL : N := 20300. Definition OV : N := 20310. Definition OW : N := 20311.
Definition PN : N := 20558. Definition SH : N := 21320. Definition SL : N := 21324.
Definition SQ : N := 21329. Definition SS : N := 21331. Definition ST : N := 21332.
Definition SV : N := 21334. Definition TM : N := 21581. Definition UC : N := 21827.
Definition UI : N := 21833. Definition UL : N := 21836. Definition UN : N := 21838.
Definition UR : N := 21842. Definition US : N := 21843. Definition UT : N := 21844.
Definition UV : N := 21846.

Definition all_vrs : list N :=
  [AE; AS; AT; CS; DA; DS; DT; FL; FD; IS; LO; LT; OB; OD; OF; OL; OV; OW; PN; SH; SL; SQ; SS;
   ST; SV; TM; UC; UI; UL; UN; UR; US; UT; UV].
Definition mem (x : N) (l : list N) : bool := existsb (N.eqb x) l.
(* VR::from_binary(..).is_some() *)
Definition known_vr (c : N) : bool := mem c all_vrs.
(* the VRs with a 16-bit length field in the explicit VR syntaxes *)
Definition short_vrs : list N :=
  [AE; AS; AT; CS; DA; DS; DT; FL; FD; IS; LO; LT; PN; SH; SL; SS; ST; TM; UI; UL; US].
Definition short_len_vr (c : N) : bool := mem c short_vrs.

(** Dictionary VRs (core VirtualVr). *)
Inductive vvr := VExact (vr : N) | VXs | VOx | VPx | VLt.
Definition relaxed (v : vvr) : N :=
  match v with VExact vr => vr | VXs => US | VOx => OW | VPx => OW | VLt => OW end.
(* adaptive_le.rs vr_compatible_with_virtual *)
Definition vr_compat (probed : N) (v : vvr) : bool :=
  match v with
  | VExact vr => probed =? vr
  | VXs => (probed =? US) || (probed =? SS)
  | VOx => (probed =? OB) || (probed =? OW)
  | VPx => (probed =? OB) || (probed =? OW)
  | VLt => (probed =? US) || (probed =? OW)
  end.
Definition is_xs (o : option vvr) : bool := match o with Some VXs => true | _ => false end.

Definition UNDEF : N := 4294967295.

Record hdr := mkH { h_g : N; h_e : N; h_vr : N; h_len : N }.
Definition tkey (g e : N) : N := g * 65536 + e.

(** Decoder kinds. *)
Definition ILE : N := 0. Definition ELE : N := 1. Definition EBE : N := 2. Definition ADA : N := 3.
Definition big (kind : N) : bool := kind =? EBE.

(** * The source *)
Definition take (n : N) (s : bytes) : option (bytes * bytes) :=
  if n <=? blen s then Some (firstn (N.to_nat n) s, skipn (N.to_nat n) s) else None.

Definition dec (be : bool) (b : bytes) : N := if be then be_val b else le_val b.

Section WithDict.
Variable dict : N -> option vvr.            (* StandardDataDictionary.by_tag(tag).map(vr) *)
Variable rejects : N -> bytes -> bool.       (* interpreted parser refuses this element text *)

(** * Element header decoders (encoding crate) *)
Inductive hres := HEof | HErr | HOk (h : hdr) (n : N) (vrst : N) (rest : bytes).

Definition dec_tag (be : bool) (s : bytes) : option (N * N * bytes) :=
  match take 4 s with
  | None => None
  | Some (t, r) => Some (dec be (firstn 2 t), dec be (skipn 2 t), r)
  end.

Definition explicit_length (be : bool) (g e vr vrst : N) (r1 : bytes) : hres :=
  if short_len_vr vr then
    match take 2 r1 with
    | None => HErr
    | Some (l, r2) => HOk (mkH g e vr (dec be l)) 8 vrst r2
    end
  else
    match take 2 r1 with
    | None => HErr
    | Some (_, r2) =>
        match take 4 r2 with
        | None => HErr
        | Some (l, r3) => HOk (mkH g e vr (dec be l)) 12 vrst r3
        end
    end.

Definition explicit_tail (be : bool) (g e vrst : N) (r : bytes) : hres :=
  match take 2 r with
  | None => HErr
  | Some (v, r1) =>
      let c := be_val v in
      explicit_length be g e (if known_vr c then c else UN) vrst r1
  end.

Definition resolve_vr (g e : N) : N :=
  if ((g =? 32736) && (e =? 16)) || ((g / 256 =? 96) && (e =? 12288)) then OW
  else match dict (tkey g e) with Some v => relaxed v | None => UN end.

Definition implicit_tail (g e vrst : N) (r : bytes) : hres :=
  match take 4 r with
  | None => HErr
  | Some (l, r1) => HOk (mkH g e (resolve_vr g e) (le_val l)) 8 vrst r1
  end.

Definition delim_tail (be : bool) (g e vrst : N) (r : bytes) : hres :=
  match take 4 r with
  | None => HErr
  | Some (l, r1) => HOk (mkH g e UN (dec be l)) 8 vrst r1
  end.

(* adaptive_le.rs: state 0 = Unknown, 1 = Explicit, 2 = Implicit *)
Definition adaptive_implicit_rest (g e : N) (lo r1 : bytes) : hres :=
  match take 2 r1 with
  | None => HErr
  | Some (hi, r2) => HOk (mkH g e (resolve_vr g e) (le_val (lo ++ hi))) 8 2 r2
  end.

Definition adaptive_tail (g e vrst : N) (r : bytes) : hres :=
  if vrst =? 1 then explicit_tail false g e 1 r
  else if vrst =? 2 then implicit_tail g e 2 r
  else
    match take 2 r with
    | None => HErr
    | Some (v, r1) =>
        let c := be_val v in
        if known_vr c then
          if match dict (tkey g e) with Some vv => negb (vr_compat c vv) | None => false end
          then adaptive_implicit_rest g e v r1
          else explicit_length false g e c 1 r1
        else adaptive_implicit_rest g e v r1
    end.

Definition decode_header_raw (kind vrst : N) (s : bytes) : hres :=
  match dec_tag (big kind) s with
  | None => HEof
  | Some (g, e, r) =>
      if kind =? ILE then implicit_tail g e vrst r
      else if g =? 65534 then delim_tail (big kind) g e vrst r
      else if kind =? ADA then adaptive_tail g e vrst r
      else explicit_tail (big kind) g e vrst r
  end.

(** Item headers: 0 = Item, 1 = ItemDelimiter, 2 = SequenceDelimiter. *)
Inductive ihres := IEof | IErr | IOk (what : N) (len : N) (rest : bytes).
Definition decode_item_raw (kind : N) (s : bytes) : ihres :=
  match take 8 s with
  | None => IEof
  | Some (b, r) =>
      let g := dec (big kind) (firstn 2 b) in
      let e := dec (big kind) (firstn 2 (skipn 2 b)) in
      let len := dec (big kind) (skipn 4 b) in
      if (g =? 65534) && (e =? 57344) then IOk 0 len r
      else if (g =? 65534) && (e =? 57357) then (if len =? 0 then IOk 1 0 r else IErr)
      else if (g =? 65534) && (e =? 57565) then IOk 2 len r
      else IErr
  end.

(** * StatefulDecoder *)
Record dstate := mkD {
  d_src : bytes;            (* bytes the source has not handed out yet *)
  d_position : N;           (* the decoder's `position` field *)
  d_signed : option bool;   (* signed_pixeldata *)
  d_vrst : N;               (* adaptive decoder state *)
  d_short : N               (* ghost: bytes read_to counted although the source had ended *)
}.

Inductive dres := DEof | DErr | DOk (h : hdr) (st : dstate).
Definition dec_header (kind : N) (st : dstate) : dres :=
  match decode_header_raw kind (d_vrst st) (d_src st) with
  | HEof => DEof
  | HErr => DErr
  | HOk h n vrst rest =>
      let vr := if (match d_signed st with Some true => true | _ => false end)
                   && is_xs (dict (tkey (h_g h) (h_e h))) then SS else h_vr h in
      DOk (mkH (h_g h) (h_e h) vr (h_len h))
          (mkD rest (d_position st + n) (d_signed st) vrst (d_short st))
  end.

Inductive dires := DIEof | DIErr | DIOk (what len : N) (st : dstate).
Definition dec_item (kind : N) (st : dstate) : dires :=
  match decode_item_raw kind (d_src st) with
  | IEof => DIEof
  | IErr => DIErr
  | IOk w len rest => DIOk w len (mkD rest (d_position st + 8) (d_signed st) (d_vrst st) (d_short st))
  end.

(** Values. PNum kinds: 1 U16, 2 I16, 3 U32, 4 I32, 5 U64, 6 I64, 7 F32, 8 F64
    (all as unsigned bit patterns). PInterp kinds: 1 Date, 2 Time, 3 DateTime,
    4 F64 from DS, 5 I32 from IS, with the number of values. *)
Inductive pval :=
| PEmpty | PU8 (b : bytes) | PNum (kind : N) (vals : list N) | PTags (l : list (N * N))
| PStr (b : bytes) | PStrs (l : list bytes) | PInterp (kind : N) (count : N).

Fixpoint chunks (k n : nat) (b : bytes) : list bytes :=
  match n with
  | O => []
  | S n' => firstn k b :: chunks k n' (skipn k b)
  end.

Fixpoint split92 (cur : bytes) (b : bytes) : list bytes :=
  match b with
  | [] => [rev cur]
  | c :: r => if c =? 92 then rev cur :: split92 [] r else split92 (c :: cur) r
  end.
Definition split_bs (b : bytes) : list bytes := split92 [] b.

Fixpoint drop_pad (b : bytes) : bytes :=
  match b with
  | c :: r => if (c =? 32) || (c =? 0) then drop_pad r else b
  | [] => []
  end.
(* trim_trail_empty_bytes *)
Definition trim_trail (b : bytes) : bytes := rev (drop_pad (rev b)).

(** How a VR is read: the reader class per strategy (0 Interpreted, 1 Preserved, 2 Raw). *)
Inductive rclass :=
| RErr | RTags | RStrs | RStr | RBytes | RBin (kind : N) (log2size : N) | RInterp (kind : N).

Definition class_common (vr : N) : rclass :=
  if vr =? SQ then RErr
  else if vr =? AT then RTags
  else if mem vr [AE; AS; PN; SH; LO; UC; UI; CS] then RStrs
  else if mem vr [UT; ST; UR; LT] then RStr
  else if mem vr [US; OW] then RBin 1 1
  else if vr =? SS then RBin 2 1
  else if mem vr [FD; OD] then RBin 8 3
  else if mem vr [FL; OF] then RBin 7 2
  else if vr =? SL then RBin 4 2
  else if vr =? SV then RBin 6 3
  else if mem vr [OL; UL] then RBin 3 2
  else if mem vr [OV; UV] then RBin 5 3
  else RBytes.   (* UN, OB *)

Definition read_class (strat vr : N) : rclass :=
  if strat =? 2 then (if vr =? SQ then RErr else RBytes)
  else if strat =? 1 then (if mem vr [IS; DS; DA; TM; DT] then RStrs else class_common vr)
  else if vr =? DA then RInterp 1
  else if vr =? TM then RInterp 2
  else if vr =? DT then RInterp 3
  else if vr =? DS then RInterp 4
  else if vr =? IS then RInterp 5
  else class_common vr.

Definition tags_of (be : bool) (n : nat) (data : bytes) : list (N * N) :=
  map (fun c => (dec be (firstn 2 c), dec be (skipn 2 c))) (chunks 4 n data).

Definition first_nonzero (l : list N) : option bool :=
  match l with [] => None | x :: _ => Some (negb (x =? 0)) end.

Inductive vres := VErr | VOk (v : pval) (st : dstate).

(** read_value / read_value_preserved / read_value_bytes. Every reader takes
    exactly [h_len] bytes from the source (the binary readers keep len >> k
    components and drop the rest) and adds [h_len] to the position. *)
Definition read_value (kind strat : N) (h : hdr) (st : dstate) : vres :=
  if h_len h =? 0 then VOk PEmpty st
  else
    match read_class strat (h_vr h) with
    | RErr => VErr
    | cls =>
        if h_len h =? UNDEF then VErr
        else
          match take (h_len h) (d_src st) with
          | None => VErr
          | Some (data, rest) =>
              let st' := mkD rest (d_position st + h_len h) (d_signed st) (d_vrst st) (d_short st) in
              match cls with
              | RErr => VErr
              | RTags => VOk (PTags (tags_of (big kind) (N.to_nat (h_len h / 4)) data)) st'
              | RStrs => VOk (PStrs (split_bs data)) st'
              | RStr => VOk (PStr data) st'
              | RBytes => VOk (PU8 data) st'
              | RBin k lg =>
                  let vals := map (dec (big kind))
                                  (chunks (N.to_nat (2 ^ lg)) (N.to_nat (h_len h / 2 ^ lg)) data) in
                  let sg := if (k =? 1) && (h_g h =? 40) && (h_e h =? 259)
                            then first_nonzero vals else d_signed st in
                  VOk (PNum k vals) (mkD rest (d_position st + h_len h) sg (d_vrst st) (d_short st))
              | RInterp k =>
                  let t := trim_trail data in
                  match t with
                  | [] => VOk PEmpty st'
                  | _ => if rejects (h_vr h) data then VErr
                         else VOk (PInterp k (N.of_nat (length (split_bs t)))) st'
                  end
              end
          end
    end.

(** read_to_vec -> read_to: io::copy of at most [len] bytes; a source that ends
    early is NOT an error, yet [len] is added to the position. *)
Definition read_to_vec (len : N) (st : dstate) : bytes * dstate :=
  let n := N.to_nat (N.min len (blen (d_src st))) in
  let data := firstn n (d_src st) in
  (data, mkD (skipn n (d_src st)) (d_position st + len) (d_signed st) (d_vrst st)
             (d_short st + (len - blen data))).

(** read_u32_to_vec: len >> 2 numbers, then the len & 3 trailing bytes. *)
Definition read_u32_to_vec (kind : N) (len : N) (st : dstate) : option (list N * dstate) :=
  match take len (d_src st) with
  | None => None
  | Some (data, rest) =>
      Some (map (dec (big kind)) (chunks 4 (N.to_nat (len / 4)) data),
            mkD rest (d_position st + len) (d_signed st) (d_vrst st) (d_short st))
  end.

(** * DataSetReader *)
Record seqtok := mkS { s_item : bool; s_len : N; s_pix : bool; s_base : N }.

Record rstate := mkR {
  r_dec : dstate;
  r_in_seq : bool;
  r_ot_next : bool;
  r_pending : bool;
  r_stack : list seqtok;       (* head = last pushed *)
  r_last : option hdr
}.

Inductive token :=
| TElem (g e vr len : N) | TSeqStart (g e len : N) | TPixStart | TSeqEnd
| TItemStart (len : N) | TItemEnd | TValue (v : pval) | TItemValue (b : bytes) | TOffsets (l : list N).

(** Error classes of dataset::read::Error: 1 InvalidElementLength, 2 InvalidItemLength,
    3 ReadHeader, 4 ReadItemHeader, 5 ReadValue, 6 ReadItemValue, 7 InconsistentSequenceEnd,
    8 UnexpectedItemTag, 9 UnexpectedItemHeader, 10 UndefinedItemLength. *)
Inductive nres := NTok (t : token) (st : rstate) | NEnd | NErr (class : N) | NFuel.

(* sanitize_length; odd: 0 Accept, 1 NextEven, 2 Fail *)
Definition sanitize (odd : N) (len : N) : option N :=
  if negb (len =? UNDEF) && N.odd len then
    (if odd =? 0 then Some len else if odd =? 1 then Some (len + 1) else None)
  else Some len.

Definition push (st : rstate) (item : bool) (len : N) (pix : bool) : list seqtok :=
  mkS item len pix (d_position (r_dec st)) :: r_stack st.

Inductive ures := UErr | UTok (t : token) (st : rstate) | UNone (st : rstate).
Definition update_seq_delimiters (st : rstate) : ures :=
  match r_stack st with
  | sd :: rest =>
      if s_len sd =? UNDEF then
        UNone (mkR (r_dec st) (r_in_seq st) (r_ot_next st) false (r_stack st) (r_last st))
      else
        let e := s_base sd + s_len sd in
        let pos := d_position (r_dec st) in
        if e =? pos then
          if s_item sd
          then UTok TItemEnd (mkR (r_dec st) true (r_ot_next st) (r_pending st) rest (r_last st))
          else UTok TSeqEnd (mkR (r_dec st) false (r_ot_next st) (r_pending st) rest (r_last st))
        else if e <? pos then UErr
        else UNone (mkR (r_dec st) (r_in_seq st) (r_ot_next st) false (r_stack st) (r_last st))
  | [] => UNone (mkR (r_dec st) (r_in_seq st) (r_ot_next st) false (r_stack st) (r_last st))
  end.

Definition encapsulated (h : hdr) : bool :=
  (h_g h =? 32736) && (h_e h =? 16) && (h_len h =? UNDEF).

Definition top_pix (st : rstate) : bool :=
  match r_stack st with t :: _ => s_pix t | [] => false end.

(* at sequence level, expecting an item header *)
Definition next_in_seq (kind odd : N) (st : rstate) : nres :=
  match dec_item kind (r_dec st) with
  | DIOk w len d =>
      let st1 := mkR d (r_in_seq st) (r_ot_next st) (r_pending st) (r_stack st) (r_last st) in
      if w =? 0 then
        match sanitize odd len with
        | None => NErr 2
        | Some len' =>
            match r_stack st with
            | [] => NErr 9
            | last :: _ =>
                NTok (TItemStart len')
                     (mkR d false (r_ot_next st) (if len' =? 0 then true else r_pending st)
                          (push st1 true len' (s_pix last)) (r_last st))
            end
        end
      else if w =? 1 then
        NTok TItemEnd (mkR d true (r_ot_next st) true (tl (r_stack st)) (r_last st))
      else
        NTok TSeqEnd (mkR d false (r_ot_next st) true (tl (r_stack st)) (r_last st))
  | DIEof => if negb (kind =? ILE) && top_pix st then NEnd else NErr 4
  | DIErr => NErr 4
  end.

(* inside an item of an encapsulated pixel data element *)
Definition next_pixel_item (kind : N) (len : N) (st : rstate) : nres :=
  if len =? UNDEF then NErr 10
  else if r_ot_next st then
    match read_u32_to_vec kind len (r_dec st) with
    | Some (l, d) => NTok (TOffsets l) (mkR d (r_in_seq st) false true (r_stack st) (r_last st))
    | None => NErr 6
    end
  else
    let '(data, d) := read_to_vec len (r_dec st) in
    NTok (TItemValue data) (mkR d (r_in_seq st) (r_ot_next st) true (r_stack st) (r_last st)).

(* a header was read before: its value (or the first item of encapsulated pixel data) follows *)
Definition next_after_header (kind strat odd : N) (h : hdr) (st : rstate) : nres :=
  if encapsulated h then
    let stack1 := push st false UNDEF true in
    match dec_item kind (r_dec st) with
    | DIOk w len d =>
        let st1 := mkR d (r_in_seq st) (r_ot_next st) (r_pending st) stack1 None in
        if w =? 0 then
          match sanitize odd len with
          | None => NErr 2
          | Some len' =>
              NTok (TItemStart len')
                   (mkR d false (if len' =? 0 then r_ot_next st else true)
                        (if len' =? 0 then true else r_pending st)
                        (push st1 true len' true) None)
          end
        else if w =? 2 then
          NTok TSeqEnd (mkR d false (r_ot_next st) (r_pending st) (tl stack1) None)
        else NErr 8
    | DIEof => NErr 4
    | DIErr => NErr 4
    end
  else
    match read_value kind strat h (r_dec st) with
    | VErr => NErr 5
    | VOk v d => NTok (TValue v) (mkR d (r_in_seq st) (r_ot_next st) true (r_stack st) None)
    end.

(* a data element header or item delimiter is expected;
   [HCont d] = `continue` after a stray item delimiter outside any sequence *)
Inductive hnres := HR (r : nres) | HCont (d : dstate).
Definition next_header (kind odd : N) (st : rstate) : hnres :=
  match dec_header kind (r_dec st) with
  | DEof => HR NEnd
  | DErr => HR (NErr 3)
  | DOk h d =>
      let st1 := mkR d (r_in_seq st) (r_ot_next st) (r_pending st) (r_stack st) (r_last st) in
      if h_vr h =? SQ then
        match sanitize odd (h_len h) with
        | None => HR (NErr 1)
        | Some len' =>
            HR (NTok (TSeqStart (h_g h) (h_e h) len')
                       (mkR d true (r_ot_next st) (if len' =? 0 then true else r_pending st)
                            (push st1 false len' false) (r_last st)))
        end
      else if (h_g h =? 65534) && (h_e h =? 57357) then
        match r_stack st with
        | [] => HCont d
        | _ :: rest => HR (NTok TItemEnd (mkR d true (r_ot_next st) true rest (r_last st)))
        end
      else if encapsulated h then
        HR (NTok TPixStart (mkR d (r_in_seq st) (r_ot_next st) (r_pending st) (r_stack st) (Some h)))
      else if h_len h =? UNDEF then
        HR (NTok (TSeqStart (h_g h) (h_e h) UNDEF)
                   (mkR d true (r_ot_next st) (r_pending st) (push st1 false UNDEF false) (r_last st)))
      else
        match sanitize odd (h_len h) with
        | None => HR (NErr 1)
        | Some len' =>
            let h' := mkH (h_g h) (h_e h) (h_vr h) len' in
            HR (NTok (TElem (h_g h) (h_e h) (h_vr h) len')
                       (mkR d (r_in_seq st) (r_ot_next st) (r_pending st) (r_stack st) (Some h')))
        end
  end.

Definition set_dec (st : rstate) (d : dstate) : rstate :=
  mkR d (r_in_seq st) (r_ot_next st) (r_pending st) (r_stack st) (r_last st).

(** Iterator::next. [k] is the `continue` of the loop (a stray item delimiter
    outside any sequence was skipped); the fuel only bounds those (each
    consumes 8 bytes). *)
Definition next_go (k : rstate -> nres) (kind strat odd : N) (st : rstate) : nres :=
  if r_in_seq st then next_in_seq kind odd st
  else
    match (match r_stack st with
           | t :: _ => if s_item t && s_pix t then Some (s_len t) else None
           | [] => None
           end) with
    | Some len => next_pixel_item kind len st
    | None =>
        match r_last st with
        | Some h => next_after_header kind strat odd h st
        | None =>
            match next_header kind odd st with
            | HR r => r
            | HCont d => k (set_dec st d)
            end
        end
    end.

Definition next_step (k : rstate -> nres) (kind strat odd : N) (st : rstate) : nres :=
  if r_pending st then
    match update_seq_delimiters st with
    | UErr => NErr 7
    | UTok t st' => NTok t st'
    | UNone st' => next_go k kind strat odd st'
    end
  else next_go k kind strat odd st.

Fixpoint next (fuel : nat) (kind strat odd : N) (st : rstate) : nres :=
  match fuel with
  | O => NFuel
  | S f => next_step (next f kind strat odd) kind strat odd st
  end.

Definition next_fuel (st : rstate) : nat := S (length (d_src (r_dec st))).

(** One observation per token: the token, the decoder's position, and the
    number of bytes the source has handed out. *)
(* [st_short] is a ghost: bytes an item value lacked because the source had ended *)
Record step := mkStep { st_tok : token; st_pos : N; st_cons : N; st_short : N }.

Fixpoint run (fuel : nat) (kind strat odd : N) (total : N) (st : rstate) : list step * N :=
  match fuel with
  | O => ([], 2000)
  | S f =>
      match next (next_fuel st) kind strat odd st with
      | NTok t st' =>
          let '(l, s) := run f kind strat odd total st' in
          (mkStep t (d_position (r_dec st')) (total - blen (d_src (r_dec st'))) (d_short (r_dec st')) :: l, s)
      | NEnd => ([], 0)
      | NErr c => ([], c)
      | NFuel => ([], 3000)
      end
  end.

Definition init_dec (base : N) (b : bytes) : dstate := mkD b base None 0 0.
Definition init (base : N) (b : bytes) : rstate := mkR (init_dec base b) false false false [] None.

End WithDict.

(** * Correspondence *)
Fixpoint lookup {A} (k : N) (t : list (N * A)) : option A :=
  match t with
  | [] => None
  | (k', v) :: r => if k =? k' then Some v else lookup k r
  end.
Definition dict_of (t : list (N * vvr)) : N -> option vvr := fun k => lookup k t.
Definition rejects_of (t : list (N * bytes)) : N -> bytes -> bool :=
  fun vr b => existsb (fun p => (fst p =? vr) && str_eqb (snd p) b) t.

Definition pair_eqb (a b : N * N) : bool := (fst a =? fst b) && (snd a =? snd b).
Definition pval_eqb (a b : pval) : bool :=
  match a, b with
  | PEmpty, PEmpty => true
  | PU8 x, PU8 y => str_eqb x y
  | PNum k x, PNum k' y => (k =? k') && str_eqb x y
  | PTags x, PTags y => list_eqb pair_eqb x y
  | PStr x, PStr y => str_eqb x y
  | PStrs x, PStrs y => list_eqb str_eqb x y
  | PInterp k n, PInterp k' n' => (k =? k') && (n =? n')
  | _, _ => false
  end.
Definition token_eqb (a b : token) : bool :=
  match a, b with
  | TElem g e v l, TElem g' e' v' l' => (g =? g') && (e =? e') && (v =? v') && (l =? l')
  | TSeqStart g e l, TSeqStart g' e' l' => (g =? g') && (e =? e') && (l =? l')
  | TPixStart, TPixStart => true
  | TSeqEnd, TSeqEnd => true
  | TItemStart l, TItemStart l' => l =? l'
  | TItemEnd, TItemEnd => true
  | TValue v, TValue v' => pval_eqb v v'
  | TItemValue b, TItemValue b' => str_eqb b b'
  | TOffsets l, TOffsets l' => str_eqb l l'
  | _, _ => false
  end.
Definition obs_eqb (a b : token * N * N) : bool :=
  let '(t, p, c) := a in let '(t', p', c') := b in token_eqb t t' && (p =? p') && (c =? c').
Definition obs_of (s : step) : token * N * N := (st_tok s, st_pos s, st_cons s).

Definition step_limit : nat := 400.

(** case = ((kind, strategy, odd), dictionary rows, rejected texts, stream,
            observed steps (token, position(), bytes counted), final status) *)
Definition check_case
  (c : (N * N * N) * list (N * vvr) * list (N * bytes) * bytes * list (token * N * N) * N) : bool :=
  let '(cfg, drows, rej, stream, steps, status) := c in
  let '(kind, strat, odd) := cfg in
  let '(msteps, mstatus) :=
    run (dict_of drows) (rejects_of rej) step_limit kind strat odd (blen stream) (init 0 stream) in
  list_eqb obs_eqb (map obs_of msteps) steps && (mstatus =? status).
