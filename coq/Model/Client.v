(** Model of the association requestor's side of the negotiation:
    ul/src/association/client.rs
      [ClientAssociationOptions::with_presentation_context], [max_pdu_length],
      [create_a_associate_req], [process_a_association_resp], [establish_impl];
    ul/src/association/mod.rs [encode_pdu] and the [send] implementations
      (send-size limit);
    the composition with the acceptor (Model/Negotiate.v) through the wire
    (the PDU reader trims white space around AE titles and UIDs).
    No proofs here. *)
From DicomV Require Export Model.Negotiate.

(** Error classes of association::Error (continuing Model/Negotiate.v) *)
Definition E_MISSING_ABSTRACT : N := 5.
Definition E_NONE_ACCEPTED : N := 6.
Definition E_PROTO_MISMATCH : N := 7.
Definition E_SEND_TOO_LONG : N := 8.
Definition E_TOO_MANY_CONTEXTS : N := 14.

Record client_cfg := {
  cc_calling : str; cc_called : option str; cc_app_ctx : str;
  cc_pcs : list (str * list str);   (* as stored by with_presentation_context *)
  cc_proto : N; cc_max_pdu : N;
  cc_extra : nat                    (* extended negotiation / role selection / user identity items *) }.

(** [with_presentation_context]: abstract syntax and transfer syntaxes go through trim_uid *)
Definition with_presentation_context (c : client_cfg) (a : str) (tss : list str) : client_cfg :=
  {| cc_calling := cc_calling c; cc_called := cc_called c; cc_app_ctx := cc_app_ctx c;
     cc_pcs := cc_pcs c ++ [(trim_uid a, map trim_uid tss)];
     cc_proto := cc_proto c; cc_max_pdu := cc_max_pdu c; cc_extra := cc_extra c |}.

(** "ANY-SCP" *)
Definition any_scp : str := [65;78;89;45;83;67;80].

(** ids 1, 3, 5, ...: [(2 * i + 1) as u8] *)
Fixpoint propose_from (i : N) (pcs : list (str * list str)) : list pc_proposed :=
  match pcs with
  | [] => []
  | (a, tss) :: rest =>
      {| pp_id := (2 * i + 1) mod 256; pp_abs := a; pp_ts := tss |} :: propose_from (i + 1) rest
  end.

(** the largest number of presentation contexts an A-ASSOCIATE-RQ can carry (odd ids 1..255) *)
Definition MAX_CONTEXTS : nat := 128.

(** [create_a_associate_req] *)
Definition create_rq (c : client_cfg) (ae_title : option str) : outcome (list pc_proposed * assoc_rq) :=
  match cc_pcs c with
  | [] => Err E_MISSING_ABSTRACT
  | _ =>
    if Nat.ltb MAX_CONTEXTS (length (cc_pcs c)) then Err E_TOO_MANY_CONTEXTS else
    let called := match cc_called c, ae_title with
                  | Some aec, _ => aec
                  | None, Some aet => aet
                  | None, None => any_scp
                  end in
    let proposed := propose_from 0 (cc_pcs c) in
    Ok (proposed,
        {| rq_proto := cc_proto c; rq_calling := cc_calling c; rq_called := called;
           rq_app_ctx := cc_app_ctx c; rq_pcs := proposed;
           rq_uvars := UvMaxLength (cc_max_pdu c) :: UvOther :: UvOther :: repeat UvOther (cc_extra c) |})
  end.

(** The acceptor's answer as far as the requestor distinguishes it. *)
Record assoc_ac := { ac_proto : N; ac_pcs : list pc_result; ac_uvars : list uvar; ac_called : str }.
Inductive resp_pdu :=
| RespAC (ac : assoc_ac)
| RespRJ (source reason : N)
| RespOtherKnown       (* A-ABORT, A-RELEASE-RQ/RP, A-ASSOCIATE-RQ, P-DATA-TF *)
| RespUnknown.

(** the FIRST Max Length item of the answer *)
Fixpoint first_max (uv : list uvar) : option N :=
  match uv with
  | [] => None
  | UvMaxLength n :: _ => Some n
  | UvOther :: uv' => first_max uv'
  end.
Definition acceptor_max (uv : list uvar) : N :=
  norm_max (match first_max uv with Some n => n | None => DEFAULT_MAX_PDU end).

Definition find_proposed (id : N) (proposed : list pc_proposed) : option pc_proposed :=
  find (fun p => pp_id p =? id) proposed.

(** accepted results whose id was proposed, with the abstract syntax of the
    FIRST proposed context carrying that id *)
Fixpoint accepted_contexts (proposed : list pc_proposed) (rs : list pc_result) : list pc_negotiated :=
  match rs with
  | [] => []
  | r :: rs' =>
      if pr_reason r =? R_ACCEPT then
        match find_proposed (pr_id r) proposed with
        | Some p => {| pn_id := pr_id r; pn_reason := pr_reason r; pn_ts := pr_ts r; pn_abs := pp_abs p |}
                    :: accepted_contexts proposed rs'
        | None => accepted_contexts proposed rs'
        end
      else accepted_contexts proposed rs'
  end.

(** [process_a_association_resp]: (negotiated contexts, acceptor max PDU length, peer AE title) *)
Definition process_resp (c : client_cfg) (proposed : list pc_proposed) (msg : resp_pdu)
  : outcome (list pc_negotiated * N * str) :=
  match msg with
  | RespAC ac =>
      if negb (cc_proto c =? ac_proto ac) then Err E_PROTO_MISMATCH
      else match accepted_contexts proposed (ac_pcs ac) with
           | [] => Err E_NONE_ACCEPTED
           | pcs => Ok (pcs, acceptor_max (ac_uvars ac), ac_called ac)
           end
  | RespRJ _ _ => Err E_REJECTED
  | RespOtherKnown => Err E_UNEXPECTED
  | RespUnknown => Err E_UNKNOWN
  end.

(** * The wire between the two (PDU writer + reader of the other side) *)
(** AE titles are written as 16 bytes (truncated / space padded) and trimmed when read *)
Definition wire_ae (s : str) : str := trim (firstn 16 s).
(** UIDs are written as they are and trimmed of white space when read *)
Definition wire_uid (s : str) : str := trim s.
Definition wire_pc (p : pc_proposed) : pc_proposed :=
  {| pp_id := pp_id p; pp_abs := wire_uid (pp_abs p); pp_ts := map wire_uid (pp_ts p) |}.
Definition wire_rq (rq : assoc_rq) : assoc_rq :=
  {| rq_proto := rq_proto rq; rq_calling := wire_ae (rq_calling rq); rq_called := wire_ae (rq_called rq);
     rq_app_ctx := wire_uid (rq_app_ctx rq); rq_pcs := map wire_pc (rq_pcs rq); rq_uvars := rq_uvars rq |}.
Definition wire_result (r : pc_result) : pc_result :=
  {| pr_id := pr_id r; pr_reason := pr_reason r; pr_ts := wire_uid (pr_ts r) |}.

(** what the acceptor writes back for a given outcome, as the requestor reads it *)
Definition reply_of (sc : server_cfg) (o : rq_outcome) : resp_pdu :=
  match o with
  | OAccept _ _ acs am _ _ called =>
      RespAC {| ac_proto := sc_proto sc; ac_pcs := map wire_result acs;
                ac_uvars := [UvMaxLength am; UvOther; UvOther]; ac_called := wire_ae called |}
  | OReject s r => RespRJ s r
  | OReleaseRP => RespOtherKnown
  | OAbort _ _ => RespOtherKnown
  end.

(** Both ends of one negotiation: what the acceptor did with the request and
    what the requestor made of the answer. *)
Definition negotiate_pair (reg : str -> option bool) (cc : client_cfg) (sc : server_cfg) (ae : option str)
  : outcome (list pc_proposed * rq_outcome * outcome (list pc_negotiated * N * str)) :=
  match create_rq cc ae with
  | Ok (proposed, rq) =>
      let so := process_rq reg sc (InRQ (wire_rq rq)) in
      Ok (proposed, so, process_resp cc proposed (reply_of sc so))
  | Err e => Err e
  | Panic w => Panic w
  end.

(** * Views compared by the agreement property *)
Definition view (p : pc_negotiated) : N * str * str := (pn_id p, pn_abs p, pn_ts p).
Definition accepted_view (pcs : list pc_negotiated) : list (N * str * str) :=
  map view (filter (fun p => pn_reason p =? R_ACCEPT) pcs).

(** a string that the wire leaves alone *)
Definition wire_clean (s : str) : Prop := trim s = s.
Definition cfg_wire_clean (c : client_cfg) : Prop :=
  Forall (fun pc => wire_clean (fst pc) /\ Forall wire_clean (snd pc)) (cc_pcs c).
(** stored abstract syntaxes are fixed points of trim_uid (true of everything the builder stores) *)
Definition cfg_normal (c : client_cfg) : Prop :=
  Forall (fun pc => trim_uid (fst pc) = fst pc) (cc_pcs c).

(** * Send-size limit: [encode_pdu] called by every [send] with [peer_max + PDU_HEADER_SIZE] *)
Definition U32_MAX : N := 4294967295.
(** [len] = number of bytes [write_pdu] produced; the limit is computed in u32:
    [peer_max + 6] panics (debug) / wraps (release) beyond u32::MAX *)
Definition send_check (peer_max len : N) : outcome unit :=
  if U32_MAX <? peer_max + PDU_HEADER_SIZE then Panic 1
  else if peer_max + PDU_HEADER_SIZE <? len then Err E_SEND_TOO_LONG
  else Ok tt.

(** local receive limit: [read_pdu] refuses to work with a maximum outside
    [MINIMUM_PDU_SIZE, MAXIMUM_PDU_SIZE] *)
Definition valid_local_max (m : N) : bool := (MINIMUM_PDU_SIZE <=? m) && (m <=? MAXIMUM_PDU_SIZE).

(** * Equality tests for the correspondence check *)
Definition pp_eqb (a b : pc_proposed) : bool :=
  (pp_id a =? pp_id b) && str_eqb (pp_abs a) (pp_abs b) && list_eqb str_eqb (pp_ts a) (pp_ts b).
Definition uvar_eqb (a b : uvar) : bool :=
  match a, b with
  | UvMaxLength x, UvMaxLength y => x =? y
  | UvOther, UvOther => true
  | _, _ => false
  end.
Definition rq_eqb (a b : assoc_rq) : bool :=
  (rq_proto a =? rq_proto b) && str_eqb (rq_calling a) (rq_calling b) && str_eqb (rq_called a) (rq_called b)
  && str_eqb (rq_app_ctx a) (rq_app_ctx b) && list_eqb pp_eqb (rq_pcs a) (rq_pcs b)
  && list_eqb uvar_eqb (rq_uvars a) (rq_uvars b).
Definition client_out_eqb (a b : outcome (list pc_negotiated * N * str)) : bool :=
  match a, b with
  | Ok (p1, m1, t1), Ok (p2, m2, t2) => list_eqb pcn_eqb p1 p2 && (m1 =? m2) && str_eqb t1 t2
  | Err e1, Err e2 => e1 =? e2
  | Panic _, Panic _ => true
  | _, _ => false
  end.
