(** In-memory data sets and their token streams:
    object/src/mem.rs         [InMemDicomObject] (entries sorted by tag, recorded item length [len], [charset_changed])
    core/src/header.rs        [DataElement] = header (tag, VR, recorded length) + value
    core/src/value/mod.rs     [Value::{Primitive, Sequence, PixelSequence}]
    parser/src/dataset/mod.rs [DataToken], [From<DataElementHeader> for DataToken], [DataElementTokens],
                              [ItemTokens], [ItemValueTokens], [OffsetTableItemTokens], [FlattenTokens]
    object/src/tokens.rs      [InMemObjectTokens]. *)
From DicomV Require Export Model.Prim.

Definition undef : N := 4294967295.
Definition pixel_tag : tag := (32736, 16).

(** An element: header (tag, VR, recorded length) and value. A sequence value
    is a list of items (recorded item length, elements). *)
Inductive elem : Type :=
| EPrim (t : tag) (v : vr) (hlen : N) (p : prim)
| ESeq (t : tag) (v : vr) (hlen : N) (items : list (N * list elem))
| EPix (t : tag) (v : vr) (hlen : N) (ot : list N) (frags : list bytes).

Definition item : Type := (N * list elem)%type.
Definition elem_tag (e : elem) : tag :=
  match e with EPrim t _ _ _ | ESeq t _ _ _ | EPix t _ _ _ _ => t end.

Inductive token : Type :=
| TElemHeader (t : tag) (v : vr) (len : N)
| TSeqStart (t : tag) (len : N)
| TPixStart
| TSeqEnd
| TItemStart (len : N)
| TItemEnd
| TPrim (p : prim)
| TItemValue (b : bytes)
| TOffsetTable (l : list N).

(** A lazily produced token stream that may panic after a prefix. *)
Definition tstream : Type := (list token * bool)%type.   (* tokens, panics afterwards *)
Definition ts_app (a b : tstream) : tstream :=
  if snd a then a else (fst a ++ fst b, snd b).
Definition ts_of (l : list token) : tstream := (l, false).
Definition ts_panic : tstream := ([], true).

Definition is_encaps_header (t : tag) (len : N) : bool := tag_eqb t pixel_tag && N.eqb len undef.

(** [ItemValueTokens] / [OffsetTableItemTokens] *)
Definition frag_tokens (inv : bool) (b : bytes) : list token :=
  match b with
  | [] => [TItemStart 0; TItemEnd]
  | _ => [TItemStart (if inv then undef else blen b mod 4294967296); TItemValue b; TItemEnd]
  end.
Definition ot_tokens (ot : list N) : list token :=
  match ot with
  | [] => [TItemStart 0; TItemEnd]
  | _ => [TItemStart ((nlen ot mod 4294967296 * 4) mod 4294967296); TOffsetTable ot; TItemEnd]
  end.

(** [DataElementTokens] for one element; [inv] = force_invalidate_sq_length. *)
Fixpoint elem_tokens (inv : bool) (e : elem) : tstream :=
  let items_tokens :=
    fix items_tokens (its : list item) : tstream :=
      match its with
      | [] => ts_of []
      | (ilen, es) :: rest =>
          let len' := if negb (N.eqb ilen 0) && inv then undef else ilen in
          let elems_tokens :=
            fix elems_tokens (es : list elem) : tstream :=
              match es with
              | [] => ts_of []
              | e :: es' => ts_app (elem_tokens inv e) (elems_tokens es')
              end in
          ts_app (ts_of [TItemStart len']) (ts_app (elems_tokens es) (ts_app (ts_of [TItemEnd]) (items_tokens rest)))
      end in
  match e with
  | EPrim t v hlen p =>
      if vr_eqb v OB && is_encaps_header t hlen then ts_app (ts_of [TPixStart]) ts_panic  (* unreachable!() *)
      else if vr_eqb v SQ then
        let hlen' := if inv then undef else hlen in
        if N.eqb hlen' undef then ts_of [] else ts_of [TElemHeader t SQ hlen'; TPrim p]
      else ts_of [TElemHeader t v hlen; TPrim p]
  | ESeq t v hlen its =>
      if vr_eqb v OB && is_encaps_header t hlen then ts_app (ts_of [TPixStart]) ts_panic
      else if vr_eqb v SQ then
        let hlen' := if inv then undef else hlen in
        ts_app (ts_of [TSeqStart t hlen']) (ts_app (items_tokens its) (ts_of [TSeqEnd]))
      else ts_app (ts_of [TElemHeader t v hlen]) ts_panic   (* Header state: unreachable!() *)
  | EPix t v hlen ot frags =>
      if vr_eqb v OB && is_encaps_header t hlen then
        ts_of ([TPixStart] ++ ot_tokens ot ++ flat_map (frag_tokens false) frags ++ [TSeqEnd])  (* fragments: into_tokens() without options *)
      else if vr_eqb v SQ then ts_of []
      else ts_app (ts_of [TElemHeader t v hlen]) ts_panic
  end.

Fixpoint elems_tokens (inv : bool) (es : list elem) : tstream :=
  match es with
  | [] => ts_of []
  | e :: es' => ts_app (elem_tokens inv e) (elems_tokens inv es')
  end.

Fixpoint items_tokens (inv : bool) (its : list item) : tstream :=
  match its with
  | [] => ts_of []
  | (ilen, es) :: rest =>
      let len' := if negb (N.eqb ilen 0) && inv then undef else ilen in
      ts_app (ts_of [TItemStart len']) (ts_app (elems_tokens inv es) (ts_app (ts_of [TItemEnd]) (items_tokens inv rest)))
  end.

(** ** Sizes (for fuel and induction) *)
Fixpoint elem_size (e : elem) : nat :=
  let items_size :=
    fix items_size (its : list item) : nat :=
      match its with
      | [] => O
      | (_, es) :: rest =>
          let elems_size :=
            fix elems_size (es : list elem) : nat :=
              match es with [] => O | e :: es' => (elem_size e + elems_size es')%nat end in
          S (elems_size es + items_size rest)%nat
      end in
  match e with
  | EPrim _ _ _ _ => 1%nat
  | ESeq _ _ _ its => S (items_size its)
  | EPix _ _ _ _ frags => S (length frags)
  end.
Fixpoint elems_size (es : list elem) : nat :=
  match es with [] => O | e :: es' => (elem_size e + elems_size es')%nat end.
Fixpoint items_size (its : list item) : nat :=
  match its with [] => O | (_, es) :: rest => S (elems_size es + items_size rest) end.

(** ** Boolean equality (used by the correspondence) *)
Definition tag_list_eqb := list_eqb tag_eqb.
Definition nlist_eqb := list_eqb N.eqb.
Definition date_eqb (a b : date) : bool :=
  match a, b with
  | DYear y, DYear y' => N.eqb y y'
  | DMonth y m, DMonth y' m' => N.eqb y y' && N.eqb m m'
  | DDay y m d, DDay y' m' d' => N.eqb y y' && N.eqb m m' && N.eqb d d'
  | _, _ => false
  end.
Definition time_eqb (a b : time) : bool :=
  match a, b with
  | THour h, THour h' => N.eqb h h'
  | TMinute h m, TMinute h' m' => N.eqb h h' && N.eqb m m'
  | TSecond h m s, TSecond h' m' s' => N.eqb h h' && N.eqb m m' && N.eqb s s'
  | TFraction h m s f p, TFraction h' m' s' f' p' => N.eqb h h' && N.eqb m m' && N.eqb s s' && N.eqb f f' && N.eqb p p'
  | _, _ => false
  end.
Definition prim_eqb (a b : prim) : bool :=
  match a, b with
  | PEmpty, PEmpty => true
  | PStr x, PStr y => str_eqb x y
  | PStrs x, PStrs y => list_eqb str_eqb x y
  | PTags x, PTags y => tag_list_eqb x y
  | PU8 x, PU8 y | PI16 x, PI16 y | PU16 x, PU16 y | PI32 x, PI32 y | PU32 x, PU32 y
  | PI64 x, PI64 y | PU64 x, PU64 y | PF32 x, PF32 y | PF64 x, PF64 y => nlist_eqb x y
  | PDate x, PDate y => list_eqb date_eqb x y
  | PTime x, PTime y => list_eqb time_eqb x y
  | PDateTime x, PDateTime y =>
      list_eqb (fun a b => date_eqb (dt_date a) (dt_date b) && opt_eqb time_eqb (dt_time a) (dt_time b)
                           && opt_eqb (fun p q => Bool.eqb (fst p) (fst q) && N.eqb (snd p) (snd q)) (dt_tz a) (dt_tz b)) x y
  | _, _ => false
  end.

Definition token_eqb (a b : token) : bool :=
  match a, b with
  | TElemHeader t v l, TElemHeader t' v' l' => tag_eqb t t' && vr_eqb v v' && N.eqb l l'
  | TSeqStart t l, TSeqStart t' l' => tag_eqb t t' && N.eqb l l'
  | TPixStart, TPixStart | TSeqEnd, TSeqEnd | TItemEnd, TItemEnd => true
  | TItemStart l, TItemStart l' => N.eqb l l'
  | TPrim p, TPrim p' => prim_eqb p p'
  | TItemValue x, TItemValue y => str_eqb x y
  | TOffsetTable x, TOffsetTable y => nlist_eqb x y
  | _, _ => false
  end.

Fixpoint elem_eqb (a b : elem) : bool :=
  let items_eqb :=
    fix items_eqb (x y : list item) : bool :=
      match x, y with
      | [], [] => true
      | (l, es) :: x', (l', es') :: y' =>
          let elems_eqb :=
            fix elems_eqb (p q : list elem) : bool :=
              match p, q with
              | [], [] => true
              | e :: p', e' :: q' => elem_eqb e e' && elems_eqb p' q'
              | _, _ => false
              end in
          N.eqb l l' && elems_eqb es es' && items_eqb x' y'
      | _, _ => false
      end in
  match a, b with
  | EPrim t v l p, EPrim t' v' l' p' => tag_eqb t t' && vr_eqb v v' && N.eqb l l' && prim_eqb p p'
  | ESeq t v l its, ESeq t' v' l' its' => tag_eqb t t' && vr_eqb v v' && N.eqb l l' && items_eqb its its'
  | EPix t v l ot fr, EPix t' v' l' ot' fr' =>
      tag_eqb t t' && vr_eqb v v' && N.eqb l l' && nlist_eqb ot ot' && list_eqb str_eqb fr fr'
  | _, _ => false
  end.
Definition elems_eqb := list_eqb elem_eqb.
