(** Projection of the two-peer transition system (Model/UlLts.v) onto the
    PS3.8 state machine (Spec/Ps38Fsm.v): for each peer, the sequence of
    state-machine events it went through, each with the PDU it put on the wire.

    Reading of the dicom-rs behaviours in PS3.8 terms:
    - send / receive / release / answering a release request / abort are the
      P-DATA, A-RELEASE and A-ABORT primitives and the receipt of the PDUs;
      a PDU "arrives" at the machine when the application calls receive()
      (the library reads lazily);
    - after sending A-RELEASE-RP or A-ABORT, dicom-rs closes the socket at
      once: ARTIM timer of zero duration (Sta13, ARTIM expired, AA-2);
    - dropping the association without A-ABORT (plain drop, failed send, and
      the failed release: P-DATA or A-RELEASE-RQ received while waiting for the
      release reply) has no service primitive in PS3.8; on the wire it is a
      transport connection that closes, which is the event "transport
      connection closed" of Table 9-10 (AA-4) for both ends.  These are the
      labels singled out by [abrupt]. *)
From DicomV Require Export Model.UlLts Spec.Ps38Fsm.

Definition role_of (p : peer) : role := match p with Requestor => AssocRequestor | Acceptor => AssocAcceptor end.
Definition pdu_of (k : kind) : pdu :=
  match k with KData => PDataTf | KRq => AReleaseRq | KRp => AReleaseRp | KAbort => AAbort end.

Definition sta_of (x : pstate) : sta :=
  match x with Est => Sta6 | AwaitRp => Sta7 | GotRq => Sta8 | Done _ => Sta1 end.

Definition own_events (l : label) : obs :=
  match l with
  | LSendData _ => [(EvPDataReq, Some PDataTf)]
  | LSendFail _ => [(EvConnClosed, None)]
  | LRecv _ k => [(EvRecv (pdu_of k), None)]
  | LRecvFin _ => [(EvConnClosed, None)]
  | LRelease _ => [(EvReleaseReq, Some AReleaseRq)]
  | LAwait _ (IPdu KRp) => [(EvRecv AReleaseRp, None)]
  | LAwait _ (IPdu KAbort) => [(EvRecv AAbort, None)]
  | LAwait _ (IPdu k) => [(EvRecv (pdu_of k), None); (EvConnClosed, None)]
  | LAwait _ Fin => [(EvConnClosed, None)]
  | LSendRp _ => [(EvReleaseRsp, Some AReleaseRp); (EvArtimExpired, None)]
  | LAbort _ => [(EvAbortReq, Some AAbort); (EvArtimExpired, None)]
  | LClose _ => [(EvConnClosed, None)]
  | LLose _ => []
  end.

Definition project1 (p : peer) (l : label) : obs :=
  match actor l with
  | Some q => if peer_eqb p q then own_events l else []
  | None => []
  end.
Definition project (p : peer) (tr : list label) : obs := flat_map (project1 p) tr.

(** labels where dicom-rs closes the connection although PS3.8 has no primitive for it *)
Definition abrupt (l : label) : bool :=
  match l with
  | LClose _ => true
  | LAwait _ (IPdu KData) | LAwait _ (IPdu KRq) => true
  | _ => false
  end.
