(** C32 — where and what the storage SCP tool stores.

    Transcription of storescp/src/main.rs [instance_file_name], and of the
    P-DATA handling loop [inner] of storescp/src/store_sync.rs and
    store_async.rs (the two are the same code up to [.await]).

    Paths are Unix paths: byte strings ([list N]); [PathBuf::push] and the
    lexical walk of a path (what the kernel does when no component is a
    symbolic link) are modelled here, not assumed.  No proofs in this file. *)
From DicomV Require Export Base.Prelude Base.Str.

Definition slash : N := 47.
Definition dot : N := 46.
Definition nul : N := 0.
Definition underscore : N := 95.

(** ** std::path::PathBuf::push (Unix) *)
Definition is_absolute (p : str) : bool :=
  match p with c :: _ => c =? slash | [] => false end.
(** "a separator is needed if the rightmost byte is not a separator" *)
Definition need_sep (s : str) : bool :=
  match rev s with c :: _ => negb (c =? slash) | [] => false end.
Definition path_push (self p : str) : str :=
  if is_absolute p then p                       (* an absolute argument REPLACES the path *)
  else if need_sep self then self ++ slash :: p
  else self ++ p.

(** ** Lexical resolution of a path: the list of directory entries walked from
    the root, for a process whose working directory is [cwd] (already
    resolved).  Empty components and "." are skipped, ".." goes to the parent
    (the parent of the root is the root). *)
Definition comp_step (acc : list str) (c : str) : list str :=
  match c with
  | [] => acc
  | [46] => acc
  | [46; 46] => removelast acc
  | _ => acc ++ [c]
  end.
Definition resolve_from (start : list str) (p : str) : list str :=
  fold_left comp_step (split_on slash p) start.
Definition resolve (cwd : list str) (p : str) : list str :=
  if is_absolute p then resolve_from [] p else resolve_from cwd p.

(** A "normal" directory entry name: what can name a file directly in a directory. *)
Definition normal_name (c : str) : Prop :=
  c <> [] /\ c <> [46] /\ c <> [46; 46] /\ ~ In slash c /\ ~ In nul c.
Definition normal_nameb (c : str) : bool :=
  negb (list_eqb N.eqb c []) && negb (list_eqb N.eqb c [46]) && negb (list_eqb N.eqb c [46; 46])
  && no_charb slash c && no_charb nul c.

(** ** The file name of a stored instance (storescp/src/main.rs [instance_file_name])

    [sop_instance_uid.trim_end_matches('\0')], every character outside
    [A-Za-z0-9._-] replaced by '_', then [+ ".dcm"].  The argument is a Rust
    [String] (code points); the result is pure ASCII, so its UTF-8 bytes are
    its code points. *)
Fixpoint drop_while_nul (s : str) : str :=
  match s with c :: s' => if c =? nul then drop_while_nul s' else s | [] => [] end.
Definition trim_end_nul (s : str) : str := rev (drop_while_nul (rev s)).

Definition is_ascii_alnum (c : N) : bool :=
  ((48 <=? c) && (c <=? 57)) || ((65 <=? c) && (c <=? 90)) || ((97 <=? c) && (c <=? 122)).
Definition safe_char (c : N) : bool :=
  is_ascii_alnum c || (c =? dot) || (c =? 45) || (c =? underscore).
Definition sanitize (c : N) : N := if safe_char c then c else underscore.
Definition dcm_ext : str := [46; 100; 99; 109].  (* ".dcm" *)
Definition file_name (uid : str) : str := map sanitize (trim_end_nul uid) ++ dcm_ext.

(** [file_path = out_dir.to_path_buf(); file_path.push(instance_file_name(uid))] *)
Definition store_path (out uid : str) : str := path_push out (file_name uid).

(** The code before the repair (kept only to exhibit the defect):
    [file_path.push(uid.trim_end_matches('\0').to_string() + ".dcm")]. *)
Definition old_file_name (uid : str) : str := trim_end_nul uid ++ dcm_ext.
Definition old_store_path (out uid : str) : str := path_push out (old_file_name uid).

(** ** The P-DATA loop of [inner] *)

(** What reading a command fragment gives (the command set decoder itself is
    outside this model: the correspondence harness classifies each command it
    sends with the same dicom-object calls the tool makes). *)
Inductive cmd_parse :=
| CmdBad                                    (* unreadable, or a required field is missing: handler returns Err *)
| CmdEcho                                   (* Command Field = 0x0030 *)
| CmdOther (msgid : N) (class inst : str).  (* any other command: ids are remembered *)

Inductive pdv :=
| PCmd (last : bool) (pc : N) (c : cmd_parse)
| PData (last : bool) (pc : N) (data : bytes).

Record stored := mk_stored {
  s_path : str;        (* path given to write_to_file *)
  s_ts : str;          (* file meta: transfer syntax *)
  s_class : str;       (* file meta: media storage SOP class UID *)
  s_inst : str;        (* file meta: media storage SOP instance UID *)
  s_data : bytes;      (* the data set written: what was read from the buffer, encoded again *)
}.

Inductive output :=
| Stored (f : stored)
| EchoRsp (pc msgid : N)
| StoreRsp (pc msgid : N) (class inst : str).

Record state := mk_state {
  st_buf : bytes; st_msgid : N; st_class : str; st_inst : str;
}.
Definition init_state : state := mk_state [] 1 [] [].

(** Error classes of the handler (association is dropped). *)
Definition E_CMD : N := 1.      (* command unreadable / field missing *)
Definition E_NO_PC : N := 2.    (* "missing presentation context" *)
Definition E_DATASET : N := 3.  (* data set unreadable or without SOP class / instance UID *)
Definition E_WRITE : N := 4.    (* write_to_file failed *)

Section Loop.
  (** the configured output directory, the accepted presentation contexts
      (id, transfer syntax), what [read_dataset_with_ts] + the two [element]
      look-ups + [write_to_file] give for a byte buffer in a transfer syntax
      (SOP class and instance UID of the data set, and the bytes of the data
      set as written to the file: the object is decoded and encoded again),
      and the longest directory entry name the file system takes (255 on
      Linux). *)
  Variable out : str.
  Variable pcs : list (N * str).
  Variable parse_ds : str -> bytes -> option (str * str * bytes).
  Variable name_max : N.

  Fixpoint find_pc (l : list (N * str)) (id : N) : option str :=
    match l with
    | (i, ts) :: l' => if i =? id then Some ts else find_pc l' id
    | [] => None
    end.

  Definition step (s : state) (v : pdv) : outcome (state * list output) :=
    match v with
    | PData false _ d => Ok (mk_state (st_buf s ++ d) (st_msgid s) (st_class s) (st_inst s), [])
    | PCmd true pc c =>
        match c with
        | CmdBad => Err E_CMD
        | CmdEcho => Ok (mk_state [] (st_msgid s) (st_class s) (st_inst s), [EchoRsp pc (st_msgid s)])
        | CmdOther m cl ins => Ok (mk_state [] m cl ins, [])
        end
    | PData true pc d =>
        let buf := st_buf s ++ d in
        match find_pc pcs pc with
        | None => Err E_NO_PC
        | Some ts =>
            match parse_ds ts buf with
            | None => Err E_DATASET
            | Some (cl, ins, written) =>
                if name_max <? N.of_nat (length (file_name (st_inst s))) then Err E_WRITE
                else
                  Ok (mk_state buf (st_msgid s) (st_class s) (st_inst s),
                      [Stored (mk_stored (store_path out (st_inst s)) ts cl ins written);
                       StoreRsp pc (st_msgid s) (st_class s) (st_inst s)])
            end
        end
    | PCmd false _ _ => Ok (s, [])        (* a command fragment that is not the last one is ignored *)
    end.

  (** Run over the P-DATA values of an association, in arrival order; returns
      everything done before the first error, and the error if any. *)
  Fixpoint run (s : state) (vs : list pdv) : list output * option N :=
    match vs with
    | [] => ([], None)
    | v :: vs' =>
        match step s v with
        | Ok (s', o) => let '(os, e) := run s' vs' in (o ++ os, e)
        | Err e => ([], Some e)
        | Panic _ => ([], Some 0)
        end
    end.

  Definition files_of (os : list output) : list stored :=
    flat_map (fun o => match o with Stored f => [f] | _ => [] end) os.
  Definition responses_of (os : list output) : list output :=
    filter (fun o => match o with Stored _ => false | _ => true end) os.
End Loop.

(** A complete C-STORE message: the command in one fragment, then the data
    set cut in any number of fragments [chunks ++ [lastchunk]]. *)
Record message := mk_message {
  m_pc : N; m_msgid : N; m_class : str; m_inst : str;
  m_chunks : list bytes; m_last : bytes;
}.
Definition m_data (m : message) : bytes := concat (m_chunks m) ++ m_last m.
Definition pdvs_of (m : message) : list pdv :=
  PCmd true (m_pc m) (CmdOther (m_msgid m) (m_class m) (m_inst m))
  :: map (PData false (m_pc m)) (m_chunks m) ++ [PData true (m_pc m) (m_last m)].

(** ** Correspondence: the file system after the run.  Later writes to the same
    resolved location replace earlier ones. *)
Definition comps_eqb : list str -> list str -> bool := list_eqb str_eqb.

Record observed := mk_observed {
  o_loc : list str;   (* resolved location: directory entries from the root *)
  o_ts : str; o_class : str; o_inst : str; o_data : bytes;
}.

Fixpoint fs_put (fs : list observed) (f : observed) : list observed :=
  match fs with
  | [] => [f]
  | g :: fs' => if comps_eqb (o_loc g) (o_loc f) then f :: fs' else g :: fs_put fs' f
  end.
Definition fs_of (cwd : list str) (fl : list stored) : list observed :=
  fold_left (fun fs f => fs_put fs (mk_observed (resolve cwd (s_path f)) (s_ts f) (s_class f) (s_inst f) (s_data f))) fl [].

Definition observed_eqb (a b : observed) : bool :=
  comps_eqb (o_loc a) (o_loc b) && str_eqb (o_ts a) (o_ts b) && str_eqb (o_class a) (o_class b)
  && str_eqb (o_inst a) (o_inst b) && str_eqb (o_data a) (o_data b).
Definition fs_eqb (a b : list observed) : bool :=
  (length a =? length b)%nat && forallb (fun x => existsb (observed_eqb x) b) a.

(** responses seen on the wire: (0 = C-ECHO-RSP | 1 = C-STORE-RSP, pc, msgid, class, inst) *)
Definition rsp_tuple (o : output) : list (N * N * N * str * str) :=
  match o with
  | Stored _ => []
  | EchoRsp pc m => [(0, pc, m, [], [])]
  | StoreRsp pc m c i => [(1, pc, m, c, i)]
  end.
Definition rsp_eqb (a b : N * N * N * str * str) : bool :=
  let '(k1, p1, m1, c1, i1) := a in let '(k2, p2, m2, c2, i2) := b in
  (k1 =? k2) && (p1 =? p2) && (m1 =? m2) && str_eqb c1 c2 && str_eqb i1 i2.

Fixpoint lookup_parse (tbl : list (str * bytes * option (str * str * bytes))) (ts : str) (b : bytes) : option (str * str * bytes) :=
  match tbl with
  | (t, d, r) :: tbl' => if str_eqb t ts && str_eqb d b then r else lookup_parse tbl' ts b
  | [] => None
  end.

(** case = ((cwd components, out dir, contexts, parse table, P-DATA values sent),
            (files found below the scratch root, responses received, association survived to the release)) *)
Definition case_t : Type :=
  (list str * str * list (N * str) * list (str * bytes * option (str * str * bytes)) * list pdv)
  * (list (list str * str * str * str * bytes) * list (N * N * N * str * str) * bool).
(* the harness prints every case as [(term : StorePath.case_t)], so that [None] and [[]] are typed *)
Definition check_case (c : case_t) : bool :=
  let '((cwd, out, pcs, tbl, vs), (files, rsps, alive)) := c in
  let '(os, e) := run out pcs (lookup_parse tbl) 255 init_state vs in
  fs_eqb (fs_of cwd (files_of os))
         (map (fun t => let '(l, ts, cl, ins, d) := t in mk_observed l ts cl ins d) files)
  && list_eqb rsp_eqb (flat_map rsp_tuple os) rsps
  && Bool.eqb alive (match e with None => true | Some _ => false end).
