(** Correspondence checker of C04 including whole files: the registry table is
    the generated one (Gen/GenTsWrite.v); the harness inflates the body of a
    file whose registry entry carries a data set adapter, so the model is run
    with the identity as compressor. *)
From DicomV Require Export Model.DsCheck Model.File.
From DicomV Require Import Gen.GenTsWrite.
From DicomV Require Model.Meta.

Inductive c04f_any : Type :=
| C4A (k : c04_any)
(* meta table, charset_changed flag, data set, what write_all produced *)
| C4F (t : Meta.meta) (inv : bool) (obj : list elem) (res : outcome bytes).

Definition check_c04f_case (k : c04f_any) : bool :=
  match k with
  | C4A k => check_c04_case k
  | C4F t inv obj res => out_bytes_eqb (write_file gen_ts_write (fun b => b) t inv obj) res
  end.
