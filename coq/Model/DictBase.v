(** Types of the regenerated dictionary tables (Gen/GenDict*.v, Gen/GenUids.v)
    and of the dictionary model (Model/Dict.v). No proofs. *)
From DicomV Require Export Base.Prelude.
From Coq Require Export String.

(** [TagRange] variants (core/src/dictionary/data_element.rs). *)
Definition K_SINGLE : N := 0.
Definition K_GROUP100 : N := 1.
Definition K_ELEMENT100 : N := 2.
Definition K_GROUP_LENGTH : N := 3.
Definition K_PRIVATE_CREATOR : N := 4.

(** A dictionary entry [DataDictionaryEntryRef]: the tag range (kind + inner tag
    as group * 65536 + element; 0 for the two generic kinds), the keyword, and the
    virtual VR (two ASCII bytes b0 * 256 + b1 for [Exact vr]; 1 Xs, 2 Ox, 3 Px, 4 Lt). *)
Record entry := E { e_kind : N; e_tag : N; e_alias : string; e_vr : N }.

(** [pub const NAME: Tag/TagRange]: keyword in the constant's doc comment, kind and
    value of the compiled constant (the constant's name is a comment in the table). *)
Record tag_const := C { c_alias : string; c_kind : N; c_tag : N }.

(** [UidDictionaryEntryRef]: uid, name, keyword, type (0 = SOP class, 2 = transfer syntax, ...), retired. *)
Record uid_entry := U { u_uid : string; u_name : string; u_alias : string; u_type : N; u_retired : bool }.

Definition entry_eqb (a b : entry) : bool :=
  (e_kind a =? e_kind b) && (e_tag a =? e_tag b) && String.eqb (e_alias a) (e_alias b) && (e_vr a =? e_vr b).
Definition uid_entry_eqb (a b : uid_entry) : bool :=
  String.eqb (u_uid a) (u_uid b) && String.eqb (u_name a) (u_name b) && String.eqb (u_alias a) (u_alias b)
  && (u_type a =? u_type b) && Bool.eqb (u_retired a) (u_retired b).
