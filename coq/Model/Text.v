(** Model of text encoding/decoding in dicom-rs (property C10).

    - encoding/src/text.rs: [SpecificCharacterSet::from_code], [name], [encode],
      [decode] (the 16 supported sets) and [decode_text_trap];
    - the codecs of the `encoding` crate the sets are wired to: the single-byte
      codec (codec/singlebyte.rs) over per-set tables REGENERATED from the
      code's behaviour (Gen/GenCharsets.v), and the UTF-8 codec (codec/utf_8.rs)
      written out; the five multi-byte sets stay abstract (a parameter [mb]);
    - parser/src/stateful/encode.rs: [encode_text_element], [encode_texts_element],
      [convert_text_untrailed], [try_new_codec];
    - parser/src/stateful/decode.rs: [read_value_preserved] for text VRs,
      [read_value_strs], [read_value_str], [read_value_cs], [set_character_set].

    Strings are lists of Unicode scalar values, byte strings lists of bytes.
    No proofs of properties here. *)
From Coq Require Import String Ascii.
From DicomV Require Export Base.Str Model.Utf8.
From DicomV Require Import Gen.GenCharsets.
Open Scope N_scope.

(* ------------------------------------------------------------------ sets *)
Inductive charset :=
| CsDefault | IR13 | IR87 | IR100 | IR101 | IR109 | IR110 | IR126
| IR127 | IR138 | IR144 | IR149 | IR166 | IR192 | Gb18030 | Gbk.

Definition all_charsets : list charset :=
  [CsDefault; IR13; IR87; IR100; IR101; IR109; IR110; IR126;
   IR127; IR138; IR144; IR149; IR166; IR192; Gb18030; Gbk].

Definition cs_index (cs : charset) : N :=
  match cs with
  | CsDefault => 0 | IR13 => 1 | IR87 => 2 | IR100 => 3 | IR101 => 4 | IR109 => 5
  | IR110 => 6 | IR126 => 7 | IR127 => 8 | IR138 => 9 | IR144 => 10 | IR149 => 11
  | IR166 => 12 | IR192 => 13 | Gb18030 => 14 | Gbk => 15
  end.
Definition cs_of_index (n : N) : option charset :=
  find (fun cs => cs_index cs =? n) all_charsets.
Definition cs_eqb (a b : charset) : bool := cs_index a =? cs_index b.

Fixpoint s2l (s : string) : str :=
  match s with
  | EmptyString => []
  | String a s' => N_of_ascii a :: s2l s'
  end.

(** [TextCodec::name] of [CharsetImpl]. *)
Definition name_s (cs : charset) : string :=
  match cs with
  | CsDefault => "ISO_IR 6" | IR13 => "ISO_IR 13" | IR87 => "ISO_IR 87"
  | IR100 => "ISO_IR 100" | IR101 => "ISO_IR 101" | IR109 => "ISO_IR 109"
  | IR110 => "ISO_IR 110" | IR126 => "ISO_IR 126" | IR127 => "ISO_IR 127"
  | IR138 => "ISO_IR 138" | IR144 => "ISO_IR 144" | IR149 => "ISO_IR 149"
  | IR166 => "ISO_IR 166" | IR192 => "ISO_IR 192" | Gb18030 => "GB18030" | Gbk => "GBK"
  end%string.
Definition name (cs : charset) : str := s2l (name_s cs).

(** [CharsetImpl::from_code]: the accepted code strings, after [trim_end]. *)
Definition code_table : list (string * charset) :=
  [("Default", CsDefault); ("ISO_IR_6", CsDefault); ("ISO_IR 6", CsDefault); ("ISO 2022 IR 6", CsDefault);
   ("ISO_IR_13", IR13); ("ISO_IR 13", IR13); ("ISO 2022 IR 13", IR13);
   ("ISO_IR_87", IR87); ("ISO_IR 87", IR87); ("ISO 2022 IR 87", IR87);
   ("ISO_IR_100", IR100); ("ISO_IR 100", IR100); ("ISO 2022 IR 100", IR100);
   ("ISO_IR_101", IR101); ("ISO_IR 101", IR101); ("ISO 2022 IR 101", IR101);
   ("ISO_IR_109", IR109); ("ISO_IR 109", IR109); ("ISO 2022 IR 109", IR109);
   ("ISO_IR_110", IR110); ("ISO_IR 110", IR110); ("ISO 2022 IR 110", IR110);
   ("ISO_IR_126", IR126); ("ISO_IR 126", IR126); ("ISO 2022 IR 126", IR126);
   ("ISO_IR_127", IR127); ("ISO_IR 127", IR127); ("ISO 2022 IR 127", IR127);
   ("ISO_IR_138", IR138); ("ISO_IR 138", IR138); ("ISO 2022 IR 138", IR138);
   ("ISO_IR_144", IR144); ("ISO_IR 144", IR144); ("ISO 2022 IR 144", IR144);
   ("ISO_IR_149", IR149); ("ISO_IR 149", IR149); ("ISO 2022 IR 149", IR149);
   ("ISO_IR_166", IR166); ("ISO_IR 166", IR166); ("ISO 2022 IR 166", IR166);
   ("ISO_IR_192", IR192); ("ISO_IR 192", IR192);
   ("GB18030", Gb18030);
   ("GBK", Gbk); ("GB2312", Gbk); ("ISO 2022 IR 58", Gbk)]%string.

Definition from_code (t : str) : option charset :=
  let t' := trim_end t in
  option_map snd (find (fun p => str_eqb (s2l (fst p)) t') code_table).

(* ------------------------------------------------------------------ codecs *)
Inductive kind := KSingle | KUtf8 | KMulti.
Definition kind_of (cs : charset) : kind :=
  match cs with
  | IR13 | IR87 | IR149 | Gb18030 | Gbk => KMulti
  | IR192 => KUtf8
  | _ => KSingle
  end.

(** Single-byte sets: tables regenerated from the implementation (decode of each
    of the 256 bytes; every scalar value encode accepts, with its byte). *)
Fixpoint assoc {A} (k : N) (l : list (N * A)) : option A :=
  match l with
  | [] => None
  | (k', v) :: l' => if k' =? k then Some v else assoc k l'
  end.

Definition sb_tables (cs : charset) : list (list N) * list (N * N) :=
  match assoc (cs_index cs) gen_sb with Some t => t | None => ([], []) end.
Definition sb_dec (cs : charset) : list (list N) := fst (sb_tables cs).
Definition sb_enc (cs : charset) : list (N * N) := snd (sb_tables cs).

(* EncoderTrap::Strict: the first unrepresentable character fails the whole call *)
Fixpoint sb_encode (tbl : list (N * N)) (s : str) : outcome bytes :=
  match s with
  | [] => Ok []
  | c :: s' =>
      match assoc c tbl with
      | Some b => r <- sb_encode tbl s' ;; Ok (b :: r)
      | None => Err err_encode
      end
  end.
Definition sb_decode_byte (tbl : list (list N)) (b : N) : str := nth (N.to_nat b) tbl [].
Definition sb_decode (tbl : list (list N)) (bs : bytes) : outcome str :=
  Ok (flat_map (sb_decode_byte tbl) bs).

Record codec := { c_enc : str -> outcome bytes; c_dec : bytes -> outcome str }.

(** The codec of a set; [mb] supplies the multi-byte ones. *)
Definition codec_of (mb : charset -> codec) (cs : charset) : codec :=
  match kind_of cs with
  | KSingle => {| c_enc := sb_encode (sb_enc cs); c_dec := sb_decode (sb_dec cs) |}
  | KUtf8 => {| c_enc := utf8_encode; c_dec := utf8_decode |}
  | KMulti => mb cs
  end.
Definition encode mb cs := c_enc (codec_of mb cs).
Definition decode mb cs := c_dec (codec_of mb cs).

(** Repertoire of the modelled sets (what [encode] accepts, character by character). *)
Definition in_repb (cs : charset) (c : N) : bool :=
  match kind_of cs with
  | KSingle => match assoc c (sb_enc cs) with Some _ => true | None => false end
  | KUtf8 => is_scalar c
  | KMulti => false
  end.

(* ------------------------------------------------------------------ data-set level *)
Inductive vr := AE | AS | CS | DA | DS | DT | IS | LO | LT | PN | SH | ST | TM | UC | UI | UR | UT.
Definition all_vrs : list vr := [AE; AS; CS; DA; DS; DT; IS; LO; LT; PN; SH; ST; TM; UC; UI; UR; UT].
Definition vr_of_index (n : N) : vr := nth (N.to_nat n) all_vrs UT.

(* StatefulEncoder::convert_text_untrailed: "these VRs always use the default character repertoire" *)
Definition enc_default_vr (v : vr) : bool :=
  match v with AE | AS | CS | DA | DS | DT | IS | TM | UI => true | _ => false end.
(* read_value_preserved: UT | ST | UR | LT => read_value_str (one string, declared set) *)
Definition dec_single_vr (v : vr) : bool :=
  match v with UT | ST | UR | LT => true | _ => false end.
(* read_value_strs: use_charset_declared *)
Definition dec_declared_vr (anyvr : bool) (v : vr) : bool :=
  match v with
  | DA | DS | DT | IS | TM => false
  | AE | CS | AS | UR | UI => anyvr
  | _ => true
  end.

Inductive value := VEmpty | VStr (s : str) | VStrs (l : list str).

Definition scs_tag : N := 524293. (* (0008,0005) *)

Fixpoint mapM {A B} (f : A -> outcome B) (l : list A) : outcome (list B) :=
  match l with
  | [] => Ok []
  | a :: l' => b <- f a ;; r <- mapM f l' ;; Ok (b :: r)
  end.

Definition pad_byte (v : vr) : N := match v with UI => 0 | _ => 32 end.
Definition pad (v : vr) (b : bytes) : bytes :=
  if N.odd (N.of_nat (List.length b)) then b ++ [pad_byte v] else b.

Section DataSet.
  Variable mb : charset -> codec.

  Definition conv (cur : charset) (v : vr) (t : str) : outcome bytes :=
    encode mb (if enc_default_vr v then CsDefault else cur) t.

  (** value bytes written for one element (after padding) *)
  Definition write_value (cur : charset) (v : vr) (x : value) : outcome bytes :=
    match x with
    | VEmpty => Ok []
    | VStr t => b <- conv cur v t ;; Ok (pad v b)
    | VStrs ts => bs <- mapM (conv cur v) ts ;; Ok (pad v (join 92 bs))
    end.

  (** try_new_codec: an unknown term is ignored *)
  Definition switch (cur : charset) (t : str) : charset :=
    match from_code t with Some c => c | None => cur end.
  (* the value handed to try_new_codec *)
  Definition first_term (x : value) : option str :=
    match x with
    | VStr t => Some (hd [] (split_on 92 t))
    | VStrs (t :: _) => Some t
    | _ => None
    end.
  Definition next_write_cs (cur : charset) (tag : N) (x : value) : charset :=
    if tag =? scs_tag then match first_term x with Some t => switch cur t | None => cur end else cur.

  Fixpoint write_ds (cur : charset) (es : list (N * vr * value)) : outcome (list bytes) :=
    match es with
    | [] => Ok []
    | (tag, v, x) :: r =>
        b <- write_value cur v x ;;
        bs <- write_ds (next_write_cs cur tag x) r ;;
        Ok (b :: bs)
    end.

  (** read_value_preserved on the value bytes of one text element *)
  Definition read_value (anyvr : bool) (cur : charset) (v : vr) (b : bytes) : outcome value :=
    match b with
    | [] => Ok VEmpty
    | _ =>
        if dec_single_vr v then s <- decode mb cur b ;; Ok (VStr s)
        else
          let k := if dec_declared_vr anyvr v then cur else CsDefault in
          vs <- mapM (decode mb k) (split_on 92 b) ;; Ok (VStrs vs)
    end.
  (* read_value_cs *)
  Definition next_read_cs (cur : charset) (tag : N) (v : vr) (x : value) : charset :=
    match v, x with
    | CS, VStrs (t :: _) => if tag =? scs_tag then switch cur t else cur
    | _, _ => cur
    end.

  Fixpoint read_ds (anyvr : bool) (cur : charset) (es : list (N * vr * bytes)) : outcome (list value) :=
    match es with
    | [] => Ok []
    | (tag, v, b) :: r =>
        x <- read_value anyvr cur v b ;;
        xs <- read_ds anyvr (next_read_cs cur tag v x) r ;;
        Ok (x :: xs)
    end.
End DataSet.

(* ------------------------------------------------------------------ property-side definitions *)
(** What the data-set layer needs from a codec on strings over a repertoire [P]:
    [pads] are the padding bytes that may follow the encoded value. *)
Record good_codec (pads : N -> Prop) (P : N -> Prop) (k : codec) : Prop := {
  gc_nil : c_enc k [] = Ok [];
  gc_rt : forall t, Forall P t ->
    exists b, c_enc k t = Ok b /\ c_dec k b = Ok t
              /\ (~ In 92 t -> ~ In 92 b)
              /\ (forall p, pads p -> c_dec k (b ++ [p]) = Ok (t ++ [p]))
}.

Definition pad_any (p : N) : Prop := p = 0 \/ p = 32.
Definition pad_space (p : N) : Prop := p = 32.

(** repertoire of a set: computed for the modelled ones, [mbrep] for the multi-byte ones *)
Definition rep (mbrep : charset -> N -> Prop) (cs : charset) (c : N) : Prop :=
  match kind_of cs with KMulti => mbrep cs c | _ => in_repb cs c = true end.

Definition eff (cur : charset) (v : vr) : charset := if enc_default_vr v then CsDefault else cur.
Definition flat (x : value) : str :=
  match x with VEmpty => [] | VStr t => t | VStrs ts => join 92 ts end.
(** what the reader makes of a non-empty text: one string, or the backslash-separated values *)
Definition shape (v : vr) (t : str) : value :=
  match t with
  | [] => VEmpty
  | _ => if dec_single_vr v then VStr t else VStrs (split_on 92 t)
  end.
Definition texts (x : value) : list str :=
  match x with VEmpty => [] | VStr t => [t] | VStrs ts => ts end.

Definition value_ok (P : N -> Prop) (v : vr) (x : value) : Prop :=
  match x with
  | VEmpty => True
  | VStr t => Forall P t /\ (dec_single_vr v = false -> ~ In 92 t)
  | VStrs ts => dec_single_vr v = false /\ Forall (fun t => Forall P t /\ ~ In 92 t) ts
  end.

(** the value read back is the text written plus at most one padding character *)
Definition readback (e : N * vr * value) (x' : value) : Prop :=
  let '(_, v, x) := e in
  exists pp, (pp = [] \/ pp = [pad_byte v]) /\ x' = shape v (flat x ++ pp).

Definition wire_elems (es : list (N * vr * value)) (wire : list bytes) : list (N * vr * bytes) :=
  map (fun p => let '((t, v, _), b) := p in (t, v, b)) (combine es wire).

Definition ds_rt (mb : charset -> codec) (cur : charset) (es : list (N * vr * value)) : Prop :=
  exists wire, write_ds mb cur es = Ok wire /\
  exists xs, read_ds mb false cur (wire_elems es wire) = Ok xs /\ Forall2 readback es xs.

Fixpoint cs_after (cur : charset) (es : list (N * vr * value)) : charset :=
  match es with
  | [] => cur
  | (tag, _, x) :: r => cs_after (next_write_cs cur tag x) r
  end.

Definition pn_tag : N := 1048592. (* (0010,0010) *)


Section DsOk.
  Variable mbrep : charset -> N -> Prop.
  (* multi-byte sets whose codec is assumed to behave (see [good_codec]) *)
  Variable good : charset -> Prop.

  Definition usable (cur : charset) (v : vr) : Prop :=
    enc_default_vr v = true \/ kind_of cur <> KMulti \/ good cur.

  Fixpoint ds_ok (cur : charset) (es : list (N * vr * value)) : Prop :=
    match es with
    | [] => True
    | (tag, v, x) :: r =>
        usable cur v /\ value_ok (rep mbrep (eff cur v)) v x /\ (tag = scs_tag -> v = CS)
        /\ ds_ok (next_write_cs cur tag x) r
    end.

End DsOk.

(** the full statement for the multi-byte sets (see Properties/C10.v) *)
Definition multibyte_stmt (mb : charset -> codec) (mbrep : charset -> N -> Prop) : Prop :=
  (forall cs s, Forall (rep mbrep cs) s -> (b <- encode mb cs s ;; decode mb cs b) = Ok s)
  /\ (forall cur es, ds_ok mbrep (fun _ => True) cur es -> ds_rt mb cur es).

(* ------------------------------------------------------------------ correspondence *)
Definition outcome_eqb {A} (eqb : A -> A -> bool) (a b : outcome A) : bool :=
  match a, b with
  | Ok x, Ok y => eqb x y
  | Err e, Err f => e =? f
  | Panic _, Panic _ => true
  | _, _ => false
  end.
Definition value_eqb (a b : value) : bool :=
  match a, b with
  | VEmpty, VEmpty => true
  | VStr s, VStr t => str_eqb s t
  | VStrs l, VStrs m => list_eqb str_eqb l m
  | _, _ => false
  end.

(* multi-byte codecs as finite maps observed from the implementation for this case *)
Fixpoint lookup2 {A} (i : N) (k : list N) (l : list (N * list N * outcome A)) : outcome A :=
  match l with
  | [] => Panic 99
  | (i', k', v) :: l' => if (i' =? i) && str_eqb k' k then v else lookup2 i k l'
  end.
Definition mb_of (mbe : list (N * str * outcome bytes)) (mbd : list (N * bytes * outcome str)) (cs : charset) : codec :=
  {| c_enc := fun s => lookup2 (cs_index cs) s mbe; c_dec := fun b => lookup2 (cs_index cs) b mbd |}.
Definition no_mb (cs : charset) : codec := {| c_enc := fun _ => Panic 98; c_dec := fun _ => Panic 98 |}.

Definition cs_at (n : N) : charset := match cs_of_index n with Some c => c | None => CsDefault end.
Definition elems_of {A} (l : list (N * N * A)) : list (N * vr * A) :=
  map (fun e => let '(t, v, x) := e in (t, vr_of_index v, x)) l.

Inductive case :=
| CEnc (cs : N) (s : str) (r : outcome bytes)
| CDec (cs : N) (b : bytes) (r : outcome str)
| CCode (t : str) (r : option N)
| CDsW (cs0 : N) (es : list (N * N * value))
       (mbe : list (N * str * outcome bytes)) (mbd : list (N * bytes * outcome str))
       (w : outcome (list bytes)) (r : outcome (list value))
| CDsR (cs0 : N) (anyvr : bool) (es : list (N * N * bytes))
       (mbd : list (N * bytes * outcome str)) (r : outcome (list value))
| CMbEnc (cs : N) (s : str) (r : outcome bytes)   (* a multi-byte codec observed: premises of the known findings *)
| CMbDec (cs : N) (b : bytes) (r : outcome str).

(** Facts about the multi-byte codecs that Properties/C10.v uses as premises of the
    refutation theorems; every run re-observes them on the implementation. *)
Definition mb_enc_facts : list (N * str * outcome bytes) :=
  [(1, [12477], Ok [131; 92]); (2, [23665], Ok [27; 36; 66; 59; 51])].
Definition mb_dec_facts : list (N * bytes * outcome str) :=
  [(2, [27; 36; 66; 59; 51; 32], Ok [23665; 92; 48; 52; 48])].
Fixpoint fact_ok {A} (eqb : A -> A -> bool) (i : N) (k : list N) (r : outcome A) (l : list (N * list N * outcome A)) : bool :=
  match l with
  | [] => true
  | (i', k', v) :: l' => (if (i' =? i) && str_eqb k' k then outcome_eqb eqb v r else true) && fact_ok eqb i k r l'
  end.

Definition check_case (c : case) : bool :=
  match c with
  | CEnc cs s r => outcome_eqb str_eqb (encode no_mb (cs_at cs) s) r
  | CDec cs b r => outcome_eqb str_eqb (decode no_mb (cs_at cs) b) r
  | CCode t r => opt_eqb N.eqb (option_map cs_index (from_code t)) r
  | CDsW cs0 es mbe mbd w r =>
      let mb := mb_of mbe mbd in
      let es' := elems_of es in
      let mw := write_ds mb (cs_at cs0) es' in
      outcome_eqb (list_eqb str_eqb) mw w &&
      match w with
      | Ok wire =>
          outcome_eqb (list_eqb value_eqb)
            (read_ds mb false (cs_at cs0) (map (fun p => let '((t, v, _), b) := p in (t, v, b)) (combine es' wire))) r
      | _ => true
      end
  | CDsR cs0 anyvr es mbd r =>
      outcome_eqb (list_eqb value_eqb) (read_ds (mb_of [] mbd) anyvr (cs_at cs0) (elems_of es)) r
  | CMbEnc cs s r => fact_ok str_eqb cs s r mb_enc_facts
  | CMbDec cs b r => fact_ok str_eqb cs b r mb_dec_facts
  end.
