(** C33 — which presentation context and transfer syntax the storage SCU tool
    uses for a file.

    Transcription of storescu/src/main.rs [check_presentation_contexts]
    (three-stage search) over a capability table of the transfer syntax
    registry, and of the bookkeeping of [send_file] (storescu/src/store_sync.rs,
    store_async.rs): which presentation context id the command and data go out
    on and in which transfer syntax the data set is written.
    No proofs in this file. *)
From DicomV Require Export Base.Prelude Base.Str.

(** ** The transfer syntax registry as a capability table *)
Record ts_entry := mk_ts {
  t_uid : str;             (* canonical UID *)
  t_codec_free : bool;     (* TransferSyntax::is_codec_free  *)
  t_decode_all : bool;     (* TransferSyntax::can_decode_all *)
}.
Definition registry := list ts_entry.

(** [TransferSyntaxRegistry.get]: trailing white space and NUL are trimmed, then exact look-up. *)
Fixpoint drop_pad (s : str) : str :=
  match s with c :: s' => if is_ws c || (c =? 0) then drop_pad s' else s | [] => [] end.
Definition trim_uid (s : str) : str := rev (drop_pad (rev s)).
Fixpoint reg_find (reg : registry) (uid : str) : option ts_entry :=
  match reg with
  | t :: reg' => if str_eqb (t_uid t) uid then Some t else reg_find reg' uid
  | [] => None
  end.
Definition reg_get (reg : registry) (uid : str) : option ts_entry := reg_find reg (trim_uid uid).

Definition ILE : str := [49;46;50;46;56;52;48;46;49;48;48;48;56;46;49;46;50].          (* "1.2.840.10008.1.2"   *)
Definition ELE : str := [49;46;50;46;56;52;48;46;49;48;48;48;56;46;49;46;50;46;49].    (* "1.2.840.10008.1.2.1" *)

(** ** Accepted presentation contexts and files *)
Record pctx := mk_pc { pc_id : N; pc_ts : str; pc_abs : str }.
Record dfile := mk_file { f_class : str; f_ts : str }.

Definition E_FILE_TS : N := 1.   (* UnsupportedFileTransferSyntax *)
Definition E_NO_PC : N := 2.     (* NoPresentationContext *)
Definition E_NEG_TS : N := 3.    (* NoNegotiatedTransferSyntax *)

Section Choice.
  Variable reg : registry.
  Variable f : dfile.
  Variable ignore_sop_class : bool.
  Variable never_transcode : bool.

  Definition class_ok (pc : pctx) : bool := ignore_sop_class || str_eqb (pc_abs pc) (f_class f).

  (** stage 2 predicate: same transfer syntax, or both ends need no codec *)
  Definition compatible (fts : ts_entry) (pc : pctx) : bool :=
    class_ok pc
    && (str_eqb (pc_ts pc) (t_uid fts)
        || match reg_get reg (pc_ts pc) with
           | Some t => t_codec_free fts && t_codec_free t
           | None => false
           end).

  (** stage 3: transcode to Explicit VR LE, else Implicit VR LE.
      [filtered_ile] = true is the code after the repair (the Implicit VR LE
      fallback honours the SOP class like every other stage); false is the
      code before it. *)
  Definition fallback (filtered_ile : bool) (pcs : list pctx) : option pctx :=
    match find (fun pc => class_ok pc && str_eqb (pc_ts pc) ELE) pcs with
    | Some pc => Some pc
    | None => find (fun pc => (negb filtered_ile || class_ok pc) && str_eqb (pc_ts pc) ILE) pcs
    end.

  Definition choose_gen (filtered_ile : bool) (pcs : list pctx) : outcome (pctx * str) :=
    match reg_get reg (f_ts f) with
    | None => Err E_FILE_TS
    | Some fts =>
        match find (fun pc => class_ok pc && str_eqb (pc_ts pc) (t_uid fts)) pcs with
        | Some pc => Ok (pc, pc_ts pc)
        | None =>
            pc <- match find (compatible fts) pcs with
                  | Some pc => Ok pc
                  | None =>
                      if never_transcode || negb (t_decode_all fts) then Err E_NO_PC
                      else match fallback filtered_ile pcs with
                           | Some pc => Ok pc
                           | None => Err E_NO_PC
                           end
                  end ;;
            match reg_get reg (pc_ts pc) with
            | Some t => Ok (pc, t_uid t)
            | None => Err E_NEG_TS
            end
        end
    end.

  Definition choose := choose_gen true.        (* the code that exists (after fix) *)
  Definition old_choose := choose_gen false.   (* before the repair *)

  (** When is a result transfer syntax legitimate for this file: its own, or
      one the tool can convert to — codec-free to codec-free (re-encoding of
      the data set only), or decoding the file completely into one of the two
      uncompressed little-endian syntaxes (unless transcoding was forbidden). *)
  Definition ts_legit (fts : ts_entry) (pc : pctx) (ts : str) : Prop :=
    ts = t_uid fts
    \/ (exists t, reg_get reg (pc_ts pc) = Some t /\ t_uid t = ts /\ t_codec_free fts = true /\ t_codec_free t = true)
    \/ (never_transcode = false /\ t_decode_all fts = true
        /\ (pc_ts pc = ELE \/ pc_ts pc = ILE) /\ exists t, reg_get reg (pc_ts pc) = Some t /\ t_uid t = ts).
End Choice.

(** ** What goes on the wire for one file ([send_file]): the command and the
    data set both carry the chosen context's id; the data set is the file's
    data set written in the chosen transfer syntax ([encode] abstract: the
    codecs are C01/C19). *)
Section Send.
  Variable DS : Type.
  Variable encode : str -> DS -> bytes.
  Definition send_file (sel : outcome (pctx * str)) (ds : DS) : option (N * N * bytes) :=
    match sel with
    | Ok (pc, ts) => Some (pc_id pc, pc_id pc, encode ts ds)   (* (command pc id, data pc id, data) *)
    | _ => None                                             (* nothing is sent for this file *)
    end.
End Send.

(** ** Correspondence with the real binary *)
Definition pctx_eqb (a b : pctx) : bool :=
  (pc_id a =? pc_id b) && str_eqb (pc_ts a) (pc_ts b) && str_eqb (pc_abs a) (pc_abs b).

(** observation for one file: None = nothing was sent for it;
    Some (id, ok) = one C-STORE on context [id], and [ok] = the received data
    set decoded, in the transfer syntax the model predicts, to the file's data set *)
Definition file_agrees (reg : registry) (ign never : bool) (pcs : list pctx)
           (fo : dfile * option (N * str)) : bool :=
  let '(f, obs) := fo in
  match choose reg f ign never pcs, obs with
  | Ok (pc, ts), Some (id, ts') => (pc_id pc =? id) && str_eqb ts ts'
  | Ok _, None => false
  | _, None => true
  | _, Some _ => false
  end.

(** case = (registry slice, ignore_sop_class, never_transcode, accepted contexts in A-ASSOCIATE-AC order,
            files with what was received for each) *)
Definition case_t : Type :=
  list (str * bool * bool) * bool * bool * list (N * str * str) * list (str * str * option (N * str)).
(* the harness prints every case as [(term : ScuChoice.case_t)], so that [None] and [[]] are typed *)
Definition check_case (c : case_t) : bool :=
  let '(regl, ign, never, pcl, fl) := c in
  let reg := map (fun t => let '(u, cf, da) := t in mk_ts u cf da) regl in
  let pcs := map (fun t => let '(i, ts, a) := t in mk_pc i ts a) pcl in
  forallb (fun t => let '(cl, ts, obs) := t in file_agrees reg ign never pcs (mk_file cl ts, obs)) fl.
