(** C34 — I/O failures are always reported: model of public write / read
    operations over FALLIBLE sinks and sources.

    Abstraction. A public write operation (data set writer, file writer, PDU
    writer, ...) is the sequence of [write_all] calls it performs on the sink,
    split into
      - [checked]: calls whose error is propagated (`?` / snafu context), and
      - [at_drop]: calls made when an adapter is dropped, whose result is
        ignored (flate2's encoder writes the final deflate block on Drop).
    The sink accepts bytes in chunks of at most [o_chunk] (0 = unlimited) until
    [o_fail] bytes have been received; from then on every call answers with an
    error ([KErr]) or a zero-length write ([KZero]).  The P-DATA writers have
    their own faithful model (Model/PData.v) with per-call fault schedules.
    A read operation is a sequence of read_exact-like demands followed by an
    optional probe for end-of-data; every error is propagated.  No proofs here. *)
From DicomV Require Export Model.PData.

Inductive fkind := KErr | KZero.
Record osink := mk_osink { o_chunk : N; o_fail : option N; o_kind : fkind }.

Definition fault_class (k : fkind) : N := match k with KErr => E_INJECTED | KZero => E_WRITE_ZERO end.

(** one [write(buf)] call with a non-empty buffer: bytes accepted, or a fault *)
Definition osink_write (sk : osink) (recv buf : bytes) : option N :=
  let k0 := if o_chunk sk =? 0 then len buf else N.min (len buf) (o_chunk sk) in
  match o_fail sk with
  | None => Some k0
  | Some f => if f <=? len recv then None else Some (N.min k0 (f - len recv))
  end.

(** write_all: loop until the buffer is written; Ok(0) is WriteZero *)
Fixpoint owrite_all (fuel : nat) (sk : osink) (recv buf : bytes) : outcome unit * bytes :=
  match buf with
  | [] => (Ok tt, recv)
  | _ =>
    match fuel with
    | O => (Err E_FUEL, recv)
    | S fu =>
      match osink_write sk recv buf with
      | None => (Err (fault_class (o_kind sk)), recv)
      | Some k => if k =? 0 then (Err E_WRITE_ZERO, recv) else owrite_all fu sk (recv ++ take k buf) (drop k buf)
      end
    end
  end.

Fixpoint run_units (sk : osink) (recv : bytes) (units : list bytes) : outcome unit * bytes :=
  match units with
  | [] => (Ok tt, recv)
  | u :: us =>
    match owrite_all (length u) sk recv u with
    | (Ok _, r') => run_units sk r' us
    | e => e
    end
  end.

Record wop := mk_wop { checked : list bytes; at_drop : list bytes }.

(** the operation's result is that of the checked phase; the drop phase runs
    in any case (also after an error) and its result is ignored *)
Definition run_wop (sk : osink) (op : wop) : outcome unit * bytes :=
  let '(r, recv) := run_units sk [] (checked op) in
  (r, snd (run_units sk recv (at_drop op))).

Definition wop_bytes (op : wop) : bytes := concat (checked op) ++ concat (at_drop op).

(** the known class (KNOWN_FINDINGS: DeflateFinalBlockAtDrop): the operation
    has a drop phase and the sink fails inside it *)
Definition fails_in_drop_phase (sk : osink) (op : wop) : Prop :=
  at_drop op <> [] /\
  match o_fail sk with Some f => len (concat (checked op)) <= f < len (wop_bytes op) | None => False end.

(* ------------------------------------------------------------------ readers *)
Record osrc := mk_osrc { i_chunk : N; i_fail : option N }.

(** one [read(buf)] call asking for at most [want] > 0 bytes at position [pos]
    of a stream of [total] bytes: bytes supplied (0 = end of data), or a fault *)
Definition osrc_read (sr : osrc) (total pos want : N) : option N :=
  let k0 := N.min want (total - pos) in
  let k1 := if i_chunk sr =? 0 then k0 else N.min k0 (i_chunk sr) in
  match i_fail sr with
  | None => Some k1
  | Some f => if f <=? pos then None else Some (N.min k1 (f - pos))
  end.

(** read_exact of [want] bytes: loops, end of data inside is UnexpectedEof *)
Fixpoint oread_exact (fuel : nat) (sr : osrc) (total pos want : N) : outcome unit * N :=
  if want =? 0 then (Ok tt, pos)
  else
    match fuel with
    | O => (Err E_FUEL, pos)
    | S fu =>
      match osrc_read sr total pos want with
      | None => (Err E_INJECTED, pos)
      | Some k => if k =? 0 then (Err E_UNEXPECTED_EOF, pos) else oread_exact fu sr total (pos + k) (want - k)
      end
    end.

Fixpoint run_demands (sr : osrc) (total pos : N) (demands : list N) : outcome unit * N :=
  match demands with
  | [] => (Ok tt, pos)
  | d :: ds =>
    match oread_exact (N.to_nat d) sr total pos d with
    | (Ok _, p') => run_demands sr total p' ds
    | e => e
    end
  end.

Record rop := mk_rop { demands : list N; probes_eof : bool }.

Definition run_rop (sr : osrc) (total : N) (op : rop) : outcome unit * N :=
  match run_demands sr total 0 (demands op) with
  | (Ok _, p) =>
      if probes_eof op then
        match osrc_read sr total p 1 with
        | None => (Err E_INJECTED, p)
        | Some _ => (Ok tt, p)
        end
      else (Ok tt, p)
  | e => e
  end.

Definition sumN (l : list N) : N := fold_right N.add 0 l.

(* ------------------------------------------------------------------ correspondence *)
(** clean-run call sizes, run-length encoded *)
Definition expand_units (rle : list (N * N)) : list bytes :=
  flat_map (fun '(sz, cnt) => repeat (repeat 0 (N.to_nat sz)) (N.to_nat cnt)) rle.

(** the deflated operations: the last call of the fault-free run is the final
    deflate block written when the flate2 encoder is dropped *)
Definition op_of (deflate : bool) (units : list bytes) : wop :=
  if deflate then mk_wop (removelast units) (match units with [] => [] | _ => [last units []] end)
  else mk_wop units [].

Definition class_eqb (a b : outcome unit) : bool :=
  match a, b with Ok _, Ok _ => true | Err _, Err _ => true | Panic _, Panic _ => true | _, _ => false end.

Inductive c34case :=
| CF (deflate : bool) (units : list (N * N)) (entries : list (N * bool * N * outcome unit * N))
| CRd (needed : N) (probes : bool) (entries : list (N * N * bool * outcome unit))
| CP (c : PData.ccase).

Definition check_case (c : c34case) : bool :=
  match c with
  | CF deflate rle entries =>
      let op := op_of deflate (expand_units rle) in
      forallb (fun '(f, zero, chunk, res, got) =>
        let '(r, recv) := run_wop (mk_osink chunk (Some f) (if zero : bool then KZero else KErr)) op in
        class_eqb r res && (len recv =? got)) entries
  | CRd needed probes entries =>
      (* [early]: the source ENDS after f bytes (every later call is a zero-length read): the stream is just f bytes long *)
      forallb (fun '(f, chunk, early, res) =>
        let '(r, _) := if early : bool then run_rop (mk_osrc chunk None) f (mk_rop [needed] probes)
                       else run_rop (mk_osrc chunk (Some f)) needed (mk_rop [needed] probes) in
        class_eqb r res) entries
  | CP c => PData.check_case c
  end.
