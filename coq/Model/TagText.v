(** Model of the text syntax of tags and attribute selectors:
    - core/src/header.rs: [impl FromStr for Tag], [parse_tag_part],
      [impl Display for Tag]   (AFTER fix 802bc14: the 8-byte arm checks the
      character boundary before [split_at(4)]);
    - core/src/ops.rs: [AttributeSelector::new], [Display] for
      [AttributeSelectorStep] and [AttributeSelector];
    - core/src/dictionary/data_element.rs: [DataDictionary::parse_tag],
      [DataDictionary::parse_selector] (the dictionary's [by_name] is a
      parameter; dictionary-std's instance is in Model/TagTextStd.v).
    A [&str] is its UTF-8 byte list (Base/RustStr.v). *)
From DicomV Require Export Base.RustStr.

Definition tag := (N * N)%type.   (* group, element; u16 each *)

(** ParseTagError *)
Definition E_start : N := 1.
Definition E_separator : N := 2.
Definition E_end : N := 3.
Definition E_length : N := 4.
Definition E_number : N := 5.
Definition P_expect : N := 1.       (* .expect("failed to parse tag part") *)

Definition u16_max : N := 65535.
Definition u32_max : N := 4294967295.

Definition lparen : N := 40.
Definition rparen : N := 41.
Definition comma : N := 44.
Definition dot : N := 46.
Definition lbracket : N := 91.
Definition rbracket : N := 93.

(** fn parse_tag_part(s: &str) -> Result<(u16, &str), ParseTagError> *)
Definition parse_tag_part (s : bytes) : outcome (N * bytes) :=
  if negb (is_char_boundary s 4) then Err E_number
  else
    p <- split_at s 4 ;;
    let '(num, rest) := p in
    (* num.chars().all(|c| c.is_ascii_hexdigit()): a non-ASCII character has
       only bytes >= 128, none of which is a hex digit *)
    if negb (forallb is_ascii_hexdigit num) then Err E_number
    else match uint_from_str_radix 16 u16_max num with
         | Some n => Ok (n, rest)
         | None => Panic P_expect
         end.

(** impl FromStr for Tag *)
Definition tag_from_str (s : bytes) : outcome tag :=
  let n := length s in
  if Nat.eqb n 11 then
    if negb (starts_with lparen s) then Err E_start
    else
      s1 <- slice_from s 1 ;;
      p <- parse_tag_part s1 ;;
      let '(g, rest) := p in
      if negb (starts_with comma rest) then Err E_separator
      else
        r1 <- slice_from rest 1 ;;
        q <- parse_tag_part r1 ;;
        let '(e, rest2) := q in
        if negb (bytes_eqb rest2 [rparen]) then Err E_end else Ok (g, e)
  else if Nat.eqb n 9 then
    p <- parse_tag_part s ;;
    let '(g, rest) := p in
    if negb (starts_with comma rest) then Err E_separator
    else
      r1 <- slice_from rest 1 ;;
      q <- parse_tag_part r1 ;;
      let '(e, _) := q in Ok (g, e)
  else if Nat.eqb n 8 then
    if negb (is_char_boundary s 4) then Err E_number      (* fix 802bc14 *)
    else
      ge <- split_at s 4 ;;
      let '(gs, es) := ge in
      p <- parse_tag_part gs ;;
      q <- parse_tag_part es ;;
      Ok (fst p, fst q)
  else Err E_length.

(** The code as it was before the fix (kept to state what the fix changed). *)
Definition tag_from_str_unfixed (s : bytes) : outcome tag :=
  if Nat.eqb (length s) 8 then
    ge <- split_at s 4 ;;
    let '(gs, es) := ge in
    p <- parse_tag_part gs ;;
    q <- parse_tag_part es ;;
    Ok (fst p, fst q)
  else tag_from_str s.

(** ---- the three accepted text forms *)
Inductive form := Paren | Comma | Plain.

Definition tag_text (f : form) (gd ed : bytes) : bytes :=
  match f with
  | Paren => lparen :: gd ++ comma :: ed ++ [rparen]
  | Comma => gd ++ comma :: ed
  | Plain => gd ++ ed
  end.

(** [ds] is a 4-digit hexadecimal spelling (any mix of cases) of [n] *)
Definition hex4_of (n : N) (ds : bytes) : Prop :=
  length ds = 4%nat /\ forallb is_ascii_hexdigit ds = true /\ digits_val 16 ds = n.
Definition hex4_ofb (n : N) (ds : bytes) : bool :=
  Nat.eqb (length ds) 4 && forallb is_ascii_hexdigit ds && (digits_val 16 ds =? n).

Definition print_tag (f : form) (upper : bool) (t : tag) : bytes :=
  tag_text f (hex4 upper (fst t)) (hex4 upper (snd t)).

(** impl Display for Tag: "({:04X},{:04X})" *)
Definition display_tag (t : tag) : bytes := print_tag Paren true t.

Definition wf_tag (t : tag) : Prop := fst t < 65536 /\ snd t < 65536.

(** ---- attribute selectors (core/src/ops.rs) *)
Inductive step := STag (t : tag) | SNested (t : tag) (item : N).
Definition selector := list step.   (* invariant: see [normal] *)

Definition P_debug_assert : N := 3.   (* debug_assert!(steps.len() < 256) *)

Definition to_nested (s : step) : step :=
  match s with STag t => SNested t 0 | s => s end.

(** last step must be [STag]; intermediate [STag]s become [SNested _ 0] *)
Fixpoint normalise (steps : list step) : option selector :=
  match steps with
  | [] => None
  | [STag t] => Some [STag t]
  | [SNested _ _] => None
  | s :: rest => match normalise rest with
                 | Some r => Some (to_nested s :: r)
                 | None => None
                 end
  end.

(** AttributeSelector::new; [dbg] = built with debug assertions *)
Definition selector_new (dbg : bool) (steps : list step) : outcome (option selector) :=
  if dbg && Nat.leb 256 (length steps) then Panic P_debug_assert
  else Ok (normalise steps).

Definition step_tag (s : step) : tag := match s with STag t => t | SNested t _ => t end.

(** Display for AttributeSelectorStep; [key] is the text of the tag part *)
Definition step_text (key : bytes) (s : step) : bytes :=
  match s with
  | STag _ => key
  | SNested _ i => key ++ lbracket :: print_dec i ++ [rbracket]
  end.
Definition print_step (s : step) : bytes := step_text (display_tag (step_tag s)) s.

(** Display for AttributeSelector: steps separated by '.' *)
Definition print_selector (sel : selector) : bytes := join dot (map print_step sel).

Definition wf_step (s : step) : Prop :=
  wf_tag (step_tag s) /\ match s with SNested _ i => i < 4294967296 | STag _ => True end.

(** ParseSelectorErrorInner *)
Definition E_missing_item_delimiter : N := 1.
Definition E_parse_key : N := 2.
Definition E_parse_item_index : N := 3.
Definition E_parse_leaf : N := 4.

Section Dict.
  (** the dictionary's [by_name(..).map(|e| e.tag())] *)
  Variable by_name : bytes -> option tag.

  (** DataDictionary::parse_tag: tag.parse().ok().or_else(by_name) *)
  Definition parse_tag_dict (s : bytes) : outcome (option tag) :=
    match tag_from_str s with
    | Ok t => Ok (Some t)
    | Err _ => Ok (by_name s)
    | Panic w => Panic w
    end.

  (** body of the loop of DataDictionary::parse_selector *)
  Definition parse_part (part : bytes) : outcome step :=
    if ends_with rbracket part then
      match find_byte lbracket part with
      | None => Err E_missing_item_delimiter
      | Some i =>
          tag_part <- slice part 0 i ;;
          idx_part <- slice part (S i) (length part - 1) ;;
          ot <- parse_tag_dict tag_part ;;
          match ot with
          | None => Err E_parse_key
          | Some t =>
              match uint_from_str_radix 10 u32_max idx_part with
              | None => Err E_parse_item_index
              | Some n => Ok (SNested t n)
              end
          end
      end
    else
      ot <- parse_tag_dict part ;;
      match ot with
      | None => Err E_parse_key
      | Some t => Ok (STag t)
      end.

  Fixpoint parse_parts (parts : list bytes) : outcome (list step) :=
    match parts with
    | [] => Ok []
    | p :: ps =>
        s <- parse_part p ;;
        r <- parse_parts ps ;;
        Ok (s :: r)
    end.

  Definition parse_selector (dbg : bool) (s : bytes) : outcome selector :=
    steps <- parse_parts (split_on dot s) ;;
    o <- selector_new dbg steps ;;
    match o with
    | Some sel => Ok sel
    | None => Err E_parse_leaf
    end.
End Dict.

(** DataDictionary::by_expr: tag.parse() -> by_tag, otherwise by_name
    (the entry type is abstract) *)
Definition by_expr {E} (by_tag : tag -> option E) (by_name_e : bytes -> option E) (s : bytes)
  : outcome (option E) :=
  match tag_from_str s with
  | Ok t => Ok (by_tag t)
  | Err _ => Ok (by_name_e s)
  | Panic w => Panic w
  end.

(** ---- impl FromStr for TagRange (core/src/dictionary/data_element.rs):
    "(gggg,eeee)" or "gggg,eeee" where the last two characters of the group or
    of the element may be "xx". Every slice is an explicit panicking slice. *)
Inductive tag_range := TRSingle (t : tag) | TRGroup100 (t : tag) | TRElement100 (t : tag).
Definition E_tr_missing_tag : N := 1.
Definition E_tr_missing_element : N := 2.
Definition E_tr_group_length : N := 3.
Definition E_tr_element_length : N := 4.
Definition E_tr_unsupported : N := 5.
Definition E_tr_group : N := 6.
Definition E_tr_element : N := 7.
Definition xx : bytes := [120; 120].

Definition radix16_u16 (e : N) (s : bytes) : outcome N :=
  match uint_from_str_radix 16 u16_max s with Some n => Ok n | None => Err e end.

Definition tag_range_from_str (s : bytes) : outcome tag_range :=
  s1 <- (if starts_with lparen s && ends_with rparen s
         then slice s 1 (length s - 1)                      (* &s[1..s.len() - 1] *)
         else Ok s) ;;
  match split_on comma s1 with
  | [] => Err E_tr_missing_tag                              (* split never yields nothing *)
  | [_] => Err E_tr_missing_element
  | group :: elem :: _ =>
      if negb (Nat.eqb (length group) 4) then Err E_tr_group_length
      else if negb (Nat.eqb (length elem) 4) then Err E_tr_element_length
      else
        let gx := bytes_eqb (skipn 2 group) xx in            (* &group.as_bytes()[2..] *)
        let ex := bytes_eqb (skipn 2 elem) xx in
        if gx && ex then Err E_tr_unsupported
        else if gx then
          g2 <- slice group 0 2 ;;                           (* &group[..2] *)
          g <- radix16_u16 E_tr_group g2 ;;
          e <- radix16_u16 E_tr_element elem ;;
          Ok (TRGroup100 ((g * 256) mod 65536, e))
        else if ex then
          g <- radix16_u16 E_tr_group group ;;
          e2 <- slice elem 0 2 ;;                            (* &elem[..2] *)
          e <- radix16_u16 E_tr_element e2 ;;
          Ok (TRElement100 (g, (e * 256) mod 65536))
        else
          g <- radix16_u16 E_tr_group group ;;
          e <- radix16_u16 E_tr_element elem ;;
          Ok (TRSingle (g, e))
  end.

(** ---- impl FromStr for VR (core/src/header.rs): a match on the 34 two-letter
    literals, nothing that can panic. Result: the code as a * 256 + b. *)
Definition vr_codes : list (N * N) :=
  [(65,69);(65,83);(65,84);(67,83);(68,65);(68,83);(68,84);(70,76);(70,68);(73,83);(76,79);(76,84);
   (79,66);(79,68);(79,70);(79,76);(79,86);(79,87);(80,78);(83,72);(83,76);(83,81);(83,83);(83,84);
   (83,86);(84,77);(85,67);(85,73);(85,76);(85,78);(85,82);(85,83);(85,84);(85,86)].
Definition vr_from_str (s : bytes) : outcome N :=
  match s with
  | [a; b] => if existsb (fun c => (fst c =? a) && (snd c =? b)) vr_codes then Ok (a * 256 + b) else Err 1
  | _ => Err 1
  end.

(** ---- property-side definitions *)
(** a key text usable inside a selector: no selector punctuation *)
Definition good_key_chars (k : bytes) : Prop :=
  ~ In dot k /\ ~ In lbracket k /\ ~ In rbracket k.
Definition good_key_charsb (k : bytes) : bool :=
  negb (existsb (fun b => (b =? dot) || (b =? lbracket) || (b =? rbracket)) k).
(** [k] is a spelling of tag [t] for this dictionary *)
Definition good_key (by_name : bytes -> option tag) (k : bytes) (t : tag) : Prop :=
  good_key_chars k /\ parse_tag_dict by_name k = Ok (Some t).
Definition item_ok (s : step) : Prop :=
  match s with SNested _ i => i <= u32_max | STag _ => True end.
(** what parse_selector answers once the steps have been read *)
Definition sel_result (dbg : bool) (steps : list step) : outcome selector :=
  o <- selector_new dbg steps ;;
  match o with Some sel => Ok sel | None => Err E_parse_leaf end.
(** text of a selector whose keys are spelled freely *)
Definition spelled_text (ks : list (bytes * step)) : bytes :=
  join dot (map (fun p => step_text (fst p) (snd p)) ks).

(** ---- comparison helpers for the correspondence shards *)
Definition tag_eqb (a b : tag) : bool := (fst a =? fst b) && (snd a =? snd b).
Definition step_eqb (a b : step) : bool :=
  match a, b with
  | STag t, STag u => tag_eqb t u
  | SNested t i, SNested u j => tag_eqb t u && (i =? j)
  | _, _ => false
  end.
Definition sel_eqb : selector -> selector -> bool := list_eqb step_eqb.
Definition outcome_eqb {X} (eqb : X -> X -> bool) (a b : outcome X) : bool :=
  match a, b with
  | Ok x, Ok y => eqb x y
  | Err e, Err f => e =? f
  | Panic _, Panic _ => true
  | _, _ => false
  end.
