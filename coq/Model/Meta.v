(** Model of object/src/meta.rs (file meta group) and of the preamble detection
    in object/src/mem.rs.  Self-contained: it carries its own little model of the
    Explicit VR Little Endian element layout for the twelve elements of group 0002.

    Strings are lists of Unicode scalar values ([str]); a Rust [String]'s [len()]
    is its UTF-8 byte length ([slen]).  Bytes are [list N]. Tags are 32-bit
    numbers [group * 65536 + element].

    What is transcribed, function by function:
    - [dicom_len], [calculate_information_group_length], [update_information_group_length]
    - [FileMetaTableBuilder] setters ([ui_padded]/[txt_padded]) and [build]
    - [ApplyOp for FileMetaTable]: [apply], [apply_required_string], [apply_optional_string]
    - [FileMetaTable::write] = [into_element_iter] fed to [DataSetWriter] with the
      Explicit VR LE encoder ([StatefulEncoder::encode_primitive_element],
      [encode_text_element], [encode_element_header], [ExplicitVRLittleEndianEncoder])
    - [FileMetaTable::read_from] (magic code, group length element, the loop on
      [total_bytes_read], [ExplicitVRLittleEndianDecoder::decode_header])
    - [PartialEq for FileMetaTable] (trailing white space / NUL insensitive)
    - [detect_preamble] and the two [ReadPreamble::Auto] behaviours
      ([open_file_with_all_options] / [from_reader_with_all_options]). *)
From DicomV Require Export Base.Prelude Base.Endian Base.Str.

(** * Sizes *)
Definition u32 (n : N) : N := n mod 2 ^ 32.
Definition utf8_len1 (c : N) : N :=
  if c <? 128 then 1 else if c <? 2048 then 2 else if c <? 65536 then 3 else 4.
Fixpoint slen (s : str) : N := match s with [] => 0 | c :: s' => utf8_len1 c + slen s' end.
Definition blen (b : bytes) : N := N.of_nat (length b).

(* (l + 1) & !1 on u32 (release-mode wrap-around; debug builds panic on overflow instead,
   which needs a 4 GiB string and is outside the generator) *)
Definition even_len (l : N) : N := u32 (l + 1) / 2 * 2.
Definition dicom_len (s : str) : N := even_len (u32 (slen s)).

(** * The table *)
Record meta := {
  m_glen : N;                    (* information_group_length *)
  m_ver : N * N;                 (* information_version *)
  m_sop_class : str; m_sop_inst : str; m_ts : str; m_impl_class : str;
  m_impl_ver : option str; m_src_ae : option str; m_snd_ae : option str; m_rcv_ae : option str;
  m_priv_creator : option str; m_priv_info : option bytes }.

Definition opt_len (o : option str) : N := match o with Some s => 8 + dicom_len s | None => 0 end.

Definition calc_glen (t : meta) : N :=
  u32 (14 + 8 + dicom_len (m_sop_class t) + 8 + dicom_len (m_sop_inst t) + 8 + dicom_len (m_ts t)
       + 8 + dicom_len (m_impl_class t)
       + opt_len (m_impl_ver t) + opt_len (m_src_ae t) + opt_len (m_snd_ae t) + opt_len (m_rcv_ae t)
       + opt_len (m_priv_creator t)
       + match m_priv_info t with Some x => 12 + even_len (u32 (blen x)) | None => 0 end).

Definition set_glen (g : N) (t : meta) : meta :=
  {| m_glen := g; m_ver := m_ver t; m_sop_class := m_sop_class t; m_sop_inst := m_sop_inst t;
     m_ts := m_ts t; m_impl_class := m_impl_class t; m_impl_ver := m_impl_ver t;
     m_src_ae := m_src_ae t; m_snd_ae := m_snd_ae t; m_rcv_ae := m_rcv_ae t;
     m_priv_creator := m_priv_creator t; m_priv_info := m_priv_info t |}.
Definition update_glen (t : meta) : meta := set_glen (calc_glen t) t.

(** * Builder *)
Definition padded (s : str) (pad : N) : str := if N.odd (slen s) then s ++ [pad] else s.
Definition ui_padded s := padded s 0.
Definition txt_padded s := padded s 32.

(* what was given to the builder: None = setter not called *)
Record builder := {
  b_glen : option N; b_ver : option (N * N);
  b_sop_class : option str; b_sop_inst : option str; b_ts : option str; b_impl_class : option str;
  b_impl_ver : option str; b_src_ae : option str; b_snd_ae : option str; b_rcv_ae : option str;
  b_priv_creator : option str; b_priv_info : option bytes }.

Definition empty_builder : builder :=
  {| b_glen := None; b_ver := None; b_sop_class := None; b_sop_inst := None; b_ts := None;
     b_impl_class := None; b_impl_ver := None; b_src_ae := None; b_snd_ae := None; b_rcv_ae := None;
     b_priv_creator := None; b_priv_info := None |}.

(* IMPLEMENTATION_CLASS_UID / IMPLEMENTATION_VERSION_NAME of the crate: parameters of [build]
   (the harness passes the real constants in every case) *)
Definition err_missing : N := 8.
Definition build (impl_uid impl_name : str) (b : builder) : outcome meta :=
  match b_ts b with
  | None => Err err_missing
  | Some ts =>
    let '(ic, iv) := match b_impl_class b with
                     | Some u => (ui_padded u, option_map txt_padded (b_impl_ver b))
                     | None => (impl_uid, Some impl_name)
                     end in
    Ok (update_glen
      {| m_glen := 0;
         m_ver := match b_ver b with Some v => v | None => (0, 1) end;
         m_sop_class := match b_sop_class b with Some s => ui_padded s | None => [] end;
         m_sop_inst := match b_sop_inst b with Some s => ui_padded s | None => [] end;
         m_ts := ui_padded ts; m_impl_class := ic; m_impl_ver := iv;
         m_src_ae := option_map txt_padded (b_src_ae b);
         m_snd_ae := option_map txt_padded (b_snd_ae b);
         m_rcv_ae := option_map txt_padded (b_rcv_ae b);
         m_priv_creator := option_map ui_padded (b_priv_creator b);
         m_priv_info := b_priv_info b |})
  end.

(** * Attribute operations on the table *)
(* what [PrimitiveValue::string()] can see of a value *)
Inductive pval := PVStr (s : str) | PVStrs (l : list str) | PVOther.
Definition pv_string (v : pval) : option str :=
  match v with PVStr s => Some s | PVStrs (s :: _) => Some s | _ => None end.

Inductive action :=
| ARemove | AEmpty | ASetVr | ASet (v : pval) | ASetStr (s : str) | ASetIfMissing (v : pval)
| ASetStrIfMissing (s : str) | AReplace (v : pval) | AReplaceStr (s : str)
| APushStr | APushNum (* PushI32/U32/I16/U16/F32/F64 *) | ATruncate.
(* first selector step: a tag, or a nested step (unsupported by the table) *)
Inductive step1 := STag (t : N) | SNested.
Definition mop : Type := step1 * action.

Definition e_unsupported_attr : N := 1.
Definition e_mandatory : N := 2.
Definition e_incompatible : N := 3.
Definition e_illegal_extend : N := 4.

Definition apply_required (a : action) (cur : str) : outcome str :=
  match a with
  | ARemove | AEmpty => Err e_mandatory
  | ASetVr | ATruncate => Ok cur
  | ASet v | AReplace v => match pv_string v with Some s => Ok s | None => Err e_incompatible end
  | ASetStr s | AReplaceStr s => Ok s
  | ASetIfMissing _ | ASetStrIfMissing _ => Ok cur
  | APushStr => Err e_illegal_extend
  | APushNum => Err e_incompatible
  end.

Definition apply_optional (a : action) (cur : option str) : outcome (option str) :=
  match a with
  | ARemove => Ok None
  | AEmpty => Ok (match cur with Some _ => Some [] | None => None end)
  | ASetVr => Ok cur
  | ASet v => match pv_string v with Some s => Ok (Some s) | None => Err e_incompatible end
  | ASetStr s => Ok (Some s)
  | ASetIfMissing v =>
      match cur with
      | Some _ => Ok cur
      | None => match pv_string v with Some s => Ok (Some s) | None => Err e_incompatible end
      end
  | ASetStrIfMissing s => Ok (match cur with None => Some s | _ => cur end)
  | AReplace v =>
      match cur with
      | None => Ok None
      | Some _ => match pv_string v with Some s => Ok (Some s) | None => Err e_incompatible end
      end
  | AReplaceStr s => Ok (match cur with Some _ => Some s | None => None end)
  | APushStr => Err e_illegal_extend
  | APushNum => Err e_incompatible
  | ATruncate => Err 5 (* `_ => UnsupportedAction`: Truncate is not listed for optional strings *)
  end.

Definition T_SOP_CLASS : N := 131074.   (* 0002,0002 *)
Definition T_SOP_INST : N := 131075.    (* 0002,0003 *)
Definition T_TS : N := 131088.          (* 0002,0010 *)
Definition T_IMPL_CLASS : N := 131090.  (* 0002,0012 *)
Definition T_IMPL_VER : N := 131091.    (* 0002,0013 *)
Definition T_SRC_AE : N := 131094.      (* 0002,0016 *)
Definition T_SND_AE : N := 131095.      (* 0002,0017 *)
Definition T_RCV_AE : N := 131096.      (* 0002,0018 *)
Definition T_PRIV_CREATOR : N := 131328. (* 0002,0100 *)

Definition with_sop_class t s := {| m_glen := m_glen t; m_ver := m_ver t; m_sop_class := s; m_sop_inst := m_sop_inst t; m_ts := m_ts t; m_impl_class := m_impl_class t; m_impl_ver := m_impl_ver t; m_src_ae := m_src_ae t; m_snd_ae := m_snd_ae t; m_rcv_ae := m_rcv_ae t; m_priv_creator := m_priv_creator t; m_priv_info := m_priv_info t |}.
Definition with_sop_inst t s := {| m_glen := m_glen t; m_ver := m_ver t; m_sop_class := m_sop_class t; m_sop_inst := s; m_ts := m_ts t; m_impl_class := m_impl_class t; m_impl_ver := m_impl_ver t; m_src_ae := m_src_ae t; m_snd_ae := m_snd_ae t; m_rcv_ae := m_rcv_ae t; m_priv_creator := m_priv_creator t; m_priv_info := m_priv_info t |}.
Definition with_ts t s := {| m_glen := m_glen t; m_ver := m_ver t; m_sop_class := m_sop_class t; m_sop_inst := m_sop_inst t; m_ts := s; m_impl_class := m_impl_class t; m_impl_ver := m_impl_ver t; m_src_ae := m_src_ae t; m_snd_ae := m_snd_ae t; m_rcv_ae := m_rcv_ae t; m_priv_creator := m_priv_creator t; m_priv_info := m_priv_info t |}.
Definition with_impl_class t s := {| m_glen := m_glen t; m_ver := m_ver t; m_sop_class := m_sop_class t; m_sop_inst := m_sop_inst t; m_ts := m_ts t; m_impl_class := s; m_impl_ver := m_impl_ver t; m_src_ae := m_src_ae t; m_snd_ae := m_snd_ae t; m_rcv_ae := m_rcv_ae t; m_priv_creator := m_priv_creator t; m_priv_info := m_priv_info t |}.
Definition with_impl_ver t o := {| m_glen := m_glen t; m_ver := m_ver t; m_sop_class := m_sop_class t; m_sop_inst := m_sop_inst t; m_ts := m_ts t; m_impl_class := m_impl_class t; m_impl_ver := o; m_src_ae := m_src_ae t; m_snd_ae := m_snd_ae t; m_rcv_ae := m_rcv_ae t; m_priv_creator := m_priv_creator t; m_priv_info := m_priv_info t |}.
Definition with_src_ae t o := {| m_glen := m_glen t; m_ver := m_ver t; m_sop_class := m_sop_class t; m_sop_inst := m_sop_inst t; m_ts := m_ts t; m_impl_class := m_impl_class t; m_impl_ver := m_impl_ver t; m_src_ae := o; m_snd_ae := m_snd_ae t; m_rcv_ae := m_rcv_ae t; m_priv_creator := m_priv_creator t; m_priv_info := m_priv_info t |}.
Definition with_snd_ae t o := {| m_glen := m_glen t; m_ver := m_ver t; m_sop_class := m_sop_class t; m_sop_inst := m_sop_inst t; m_ts := m_ts t; m_impl_class := m_impl_class t; m_impl_ver := m_impl_ver t; m_src_ae := m_src_ae t; m_snd_ae := o; m_rcv_ae := m_rcv_ae t; m_priv_creator := m_priv_creator t; m_priv_info := m_priv_info t |}.
Definition with_rcv_ae t o := {| m_glen := m_glen t; m_ver := m_ver t; m_sop_class := m_sop_class t; m_sop_inst := m_sop_inst t; m_ts := m_ts t; m_impl_class := m_impl_class t; m_impl_ver := m_impl_ver t; m_src_ae := m_src_ae t; m_snd_ae := m_snd_ae t; m_rcv_ae := o; m_priv_creator := m_priv_creator t; m_priv_info := m_priv_info t |}.
Definition with_priv_creator t o := {| m_glen := m_glen t; m_ver := m_ver t; m_sop_class := m_sop_class t; m_sop_inst := m_sop_inst t; m_ts := m_ts t; m_impl_class := m_impl_class t; m_impl_ver := m_impl_ver t; m_src_ae := m_src_ae t; m_snd_ae := m_snd_ae t; m_rcv_ae := m_rcv_ae t; m_priv_creator := o; m_priv_info := m_priv_info t |}.

Definition omap {A B} (o : outcome A) (f : A -> B) : outcome B :=
  match o with Ok a => Ok (f a) | Err e => Err e | Panic w => Panic w end.

(* the `match *tag { ... }?` of [apply]: the table after the field update, before the length update *)
Definition apply_fields (op : mop) (t : meta) : outcome meta :=
  match fst op with
  | SNested => Err e_unsupported_attr
  | STag tag =>
    let a := snd op in
    if tag =? T_TS then omap (apply_required a (m_ts t)) (with_ts t)
    else if tag =? T_SOP_CLASS then omap (apply_required a (m_sop_class t)) (with_sop_class t)
    else if tag =? T_SOP_INST then omap (apply_required a (m_sop_inst t)) (with_sop_inst t)
    else if tag =? T_IMPL_CLASS then omap (apply_required a (m_impl_class t)) (with_impl_class t)
    else if tag =? T_IMPL_VER then omap (apply_optional a (m_impl_ver t)) (with_impl_ver t)
    else if tag =? T_SRC_AE then omap (apply_optional a (m_src_ae t)) (with_src_ae t)
    else if tag =? T_SND_AE then omap (apply_optional a (m_snd_ae t)) (with_snd_ae t)
    else if tag =? T_RCV_AE then omap (apply_optional a (m_rcv_ae t)) (with_rcv_ae t)
    else if tag =? T_PRIV_CREATOR then omap (apply_optional a (m_priv_creator t)) (with_priv_creator t)
    else match a with
         | ARemove | AEmpty | ATruncate => Ok t
         | _ => Err e_unsupported_attr
         end
  end.

(* result and the state of the receiver afterwards (`&mut self`): every failing
   branch of the Rust code returns before any field is assigned *)
Definition apply_meta (op : mop) (t : meta) : outcome unit * meta :=
  match apply_fields op t with
  | Ok t' => (Ok tt, update_glen t')
  | Err e => (Err e, t)
  | Panic w => (Panic w, t)
  end.
Definition apply_all (ops : list mop) (t : meta) : meta :=
  fold_left (fun t op => snd (apply_meta op t)) ops t.

(** * Writer: Explicit VR Little Endian encoding of the group *)
Definition latin1 (s : str) : option bytes :=
  if forallb (fun c => c <? 256) s then Some s else None.
Definition pad_even (b : bytes) (pad : N) : bytes := if N.odd (blen b) then b ++ [pad] else b.

Definition e_write : N := 1.
(* 8-byte header (VRs with a 16-bit length field) *)
Definition hdr16 (el vr1 vr2 len : N) : outcome bytes :=
  let len := even_len len in
  if 65535 <? len then Err e_write else Ok (le16 2 ++ le16 el ++ [vr1; vr2] ++ le16 len).
(* 12-byte header *)
Definition hdr32 (el vr1 vr2 len : N) : bytes :=
  le16 2 ++ le16 el ++ [vr1; vr2; 0; 0] ++ le32 (even_len len).

(* encode_text_element *)
Definition enc_text (el vr1 vr2 pad : N) (s : str) : outcome bytes :=
  match latin1 s with
  | None => Err e_write
  | Some b => let v := pad_even b pad in
              h <- hdr16 el vr1 vr2 (u32 (blen v)) ;; Ok (h ++ v)
  end.
Definition enc_ui el s := enc_text el 85 73 0 s.        (* "UI", NUL padded *)
Definition enc_sh el s := enc_text el 83 72 32 s.       (* "SH", space padded *)
Definition enc_ae el s := enc_text el 65 69 32 s.       (* "AE" *)
(* encode_primitive_element, U8 value with VR OB *)
Definition enc_ob (el : N) (b : bytes) : bytes := hdr32 el 79 66 (u32 (blen b)) ++ pad_even b 0.
Definition enc_ul (el v : N) : outcome bytes := h <- hdr16 el 85 76 4 ;; Ok (h ++ le32 v).
Definition enc_opt (f : str -> outcome bytes) (o : option str) : outcome bytes :=
  match o with Some s => f s | None => Ok [] end.

(* everything after the group length element *)
Definition write_body (t : meta) : outcome bytes :=
  let e1 := enc_ob 1 [fst (m_ver t); snd (m_ver t)] in
  e2 <- enc_ui 2 (m_sop_class t) ;;
  e3 <- enc_ui 3 (m_sop_inst t) ;;
  e4 <- enc_ui 16 (m_ts t) ;;
  e5 <- enc_ui 18 (m_impl_class t) ;;
  e6 <- enc_opt (enc_sh 19) (m_impl_ver t) ;;
  e7 <- enc_opt (enc_ae 22) (m_src_ae t) ;;
  e8 <- enc_opt (enc_ae 23) (m_snd_ae t) ;;
  e9 <- enc_opt (enc_ae 24) (m_rcv_ae t) ;;
  e10 <- enc_opt (enc_ui 256) (m_priv_creator t) ;;
  let e11 := match m_priv_info t with Some b => enc_ob 258 b | None => [] end in
  Ok (e1 ++ e2 ++ e3 ++ e4 ++ e5 ++ e6 ++ e7 ++ e8 ++ e9 ++ e10 ++ e11).

Definition write_meta (t : meta) : outcome bytes :=
  g <- enc_ul 0 (m_glen t) ;; b <- write_body t ;; Ok (g ++ b).

(** * Reader *)
Definition DICM : bytes := [68; 73; 67; 77].

(* VRs whose explicit header has a 16-bit length *)
Definition short_vr (a b : N) : bool :=
  existsb (fun p => (fst p =? a) && (snd p =? b))
    [(65,69);(65,83);(65,84);(67,83);(68,65);(68,83);(68,84);(70,76);(70,68);(73,83);(76,79);
     (76,84);(80,78);(83,72);(83,76);(83,83);(83,84);(84,77);(85,73);(85,76);(85,83)].

Definition e_read_magic : N := 1.
Definition e_not_dicom : N := 2.
Definition e_decode_elem : N := 3.
Definition e_unexpected_tag : N := 4.
Definition e_unexpected_len : N := 5.
Definition e_undefined_len : N := 6.
Definition e_read_value : N := 7.

(* ExplicitVRLittleEndianDecoder::decode_header: (tag, length, header bytes, rest) *)
Definition decode_header (b : bytes) : outcome (N * N * N * bytes) :=
  match b with
  | g0 :: g1 :: e0 :: e1 :: r =>
    let g := le_val [g0; g1] in let tag := g * 65536 + le_val [e0; e1] in
    if g =? 65534 then
      match r with
      | l0 :: l1 :: l2 :: l3 :: r' => Ok (tag, le_val [l0; l1; l2; l3], 8, r')
      | _ => Err e_decode_elem
      end
    else match r with
      | v0 :: v1 :: r1 =>
        if short_vr v0 v1 then
          match r1 with
          | l0 :: l1 :: r' => Ok (tag, le_val [l0; l1], 8, r')
          | _ => Err e_decode_elem
          end
        else
          match r1 with
          | _ :: _ :: l0 :: l1 :: l2 :: l3 :: r' => Ok (tag, le_val [l0; l1; l2; l3], 12, r')
          | _ => Err e_decode_elem
          end
      | _ => Err e_decode_elem
      end
  | _ => Err e_decode_elem
  end.

(* read exactly n bytes *)
Definition take_n (n : N) (b : bytes) : option (bytes * bytes) :=
  if blen b <? n then None else Some (firstn (N.to_nat n) b, skipn (N.to_nat n) b).

Definition sat_add32 (a b : N) : N := N.min (a + b) 4294967295.

Definition set_field (tag : N) (v : bytes) (bd : builder) : builder :=
  (* builder setters as called by read_from; ISO 8859-1 decoding maps bytes to the same scalar values *)
  let upd (f : builder -> builder) := f bd in
  if tag =? 131074 then {| b_glen := b_glen bd; b_ver := b_ver bd; b_sop_class := Some v; b_sop_inst := b_sop_inst bd; b_ts := b_ts bd; b_impl_class := b_impl_class bd; b_impl_ver := b_impl_ver bd; b_src_ae := b_src_ae bd; b_snd_ae := b_snd_ae bd; b_rcv_ae := b_rcv_ae bd; b_priv_creator := b_priv_creator bd; b_priv_info := b_priv_info bd |}
  else if tag =? 131075 then {| b_glen := b_glen bd; b_ver := b_ver bd; b_sop_class := b_sop_class bd; b_sop_inst := Some v; b_ts := b_ts bd; b_impl_class := b_impl_class bd; b_impl_ver := b_impl_ver bd; b_src_ae := b_src_ae bd; b_snd_ae := b_snd_ae bd; b_rcv_ae := b_rcv_ae bd; b_priv_creator := b_priv_creator bd; b_priv_info := b_priv_info bd |}
  else if tag =? 131088 then {| b_glen := b_glen bd; b_ver := b_ver bd; b_sop_class := b_sop_class bd; b_sop_inst := b_sop_inst bd; b_ts := Some v; b_impl_class := b_impl_class bd; b_impl_ver := b_impl_ver bd; b_src_ae := b_src_ae bd; b_snd_ae := b_snd_ae bd; b_rcv_ae := b_rcv_ae bd; b_priv_creator := b_priv_creator bd; b_priv_info := b_priv_info bd |}
  else if tag =? 131090 then {| b_glen := b_glen bd; b_ver := b_ver bd; b_sop_class := b_sop_class bd; b_sop_inst := b_sop_inst bd; b_ts := b_ts bd; b_impl_class := Some v; b_impl_ver := b_impl_ver bd; b_src_ae := b_src_ae bd; b_snd_ae := b_snd_ae bd; b_rcv_ae := b_rcv_ae bd; b_priv_creator := b_priv_creator bd; b_priv_info := b_priv_info bd |}
  else if tag =? 131091 then {| b_glen := b_glen bd; b_ver := b_ver bd; b_sop_class := b_sop_class bd; b_sop_inst := b_sop_inst bd; b_ts := b_ts bd; b_impl_class := b_impl_class bd; b_impl_ver := Some v; b_src_ae := b_src_ae bd; b_snd_ae := b_snd_ae bd; b_rcv_ae := b_rcv_ae bd; b_priv_creator := b_priv_creator bd; b_priv_info := b_priv_info bd |}
  else if tag =? 131094 then {| b_glen := b_glen bd; b_ver := b_ver bd; b_sop_class := b_sop_class bd; b_sop_inst := b_sop_inst bd; b_ts := b_ts bd; b_impl_class := b_impl_class bd; b_impl_ver := b_impl_ver bd; b_src_ae := Some v; b_snd_ae := b_snd_ae bd; b_rcv_ae := b_rcv_ae bd; b_priv_creator := b_priv_creator bd; b_priv_info := b_priv_info bd |}
  else if tag =? 131095 then {| b_glen := b_glen bd; b_ver := b_ver bd; b_sop_class := b_sop_class bd; b_sop_inst := b_sop_inst bd; b_ts := b_ts bd; b_impl_class := b_impl_class bd; b_impl_ver := b_impl_ver bd; b_src_ae := b_src_ae bd; b_snd_ae := Some v; b_rcv_ae := b_rcv_ae bd; b_priv_creator := b_priv_creator bd; b_priv_info := b_priv_info bd |}
  else if tag =? 131096 then {| b_glen := b_glen bd; b_ver := b_ver bd; b_sop_class := b_sop_class bd; b_sop_inst := b_sop_inst bd; b_ts := b_ts bd; b_impl_class := b_impl_class bd; b_impl_ver := b_impl_ver bd; b_src_ae := b_src_ae bd; b_snd_ae := b_snd_ae bd; b_rcv_ae := Some v; b_priv_creator := b_priv_creator bd; b_priv_info := b_priv_info bd |}
  else if tag =? 131328 then {| b_glen := b_glen bd; b_ver := b_ver bd; b_sop_class := b_sop_class bd; b_sop_inst := b_sop_inst bd; b_ts := b_ts bd; b_impl_class := b_impl_class bd; b_impl_ver := b_impl_ver bd; b_src_ae := b_src_ae bd; b_snd_ae := b_snd_ae bd; b_rcv_ae := b_rcv_ae bd; b_priv_creator := Some v; b_priv_info := b_priv_info bd |}
  else if tag =? 131330 then {| b_glen := b_glen bd; b_ver := b_ver bd; b_sop_class := b_sop_class bd; b_sop_inst := b_sop_inst bd; b_ts := b_ts bd; b_impl_class := b_impl_class bd; b_impl_ver := b_impl_ver bd; b_src_ae := b_src_ae bd; b_snd_ae := b_snd_ae bd; b_rcv_ae := b_rcv_ae bd; b_priv_creator := b_priv_creator bd; b_priv_info := Some v |}
  else bd.

Definition set_ver (v : N * N) (bd : builder) : builder :=
  {| b_glen := b_glen bd; b_ver := Some v; b_sop_class := b_sop_class bd; b_sop_inst := b_sop_inst bd; b_ts := b_ts bd; b_impl_class := b_impl_class bd; b_impl_ver := b_impl_ver bd; b_src_ae := b_src_ae bd; b_snd_ae := b_snd_ae bd; b_rcv_ae := b_rcv_ae bd; b_priv_creator := b_priv_creator bd; b_priv_info := b_priv_info bd |}.

(* the `while total_bytes_read < group_length` loop; fuel = an upper bound on the number of
   elements (each iteration consumes at least 8 bytes) *)
Fixpoint read_loop (fuel : nat) (glen total : N) (bd : builder) (b : bytes) : outcome (builder * bytes) :=
  if glen <=? total then Ok (bd, b) else
  match fuel with
  | O => Err 99 (* out of fuel: excluded by the fuel bound [length b] *)
  | S fuel' =>
    h <- decode_header b ;;
    let '(tag, len, hb, r) := h in
    if len =? 4294967295 then Err e_undefined_len else
    if (tag =? 131073) && negb (len =? 2) then Err e_unexpected_len else
    match take_n len r with
    | None => if (tag =? 131073) || ((131074 <=? tag) && (tag <=? 131075)) || (tag =? 131088)
                 || ((131090 <=? tag) && (tag <=? 131091)) || ((131094 <=? tag) && (tag <=? 131096))
                 || (tag =? 131328) || (tag =? 131330)
              then Err e_read_value else Err e_unexpected_len
    | Some (v, r') =>
      let bd' := if tag =? 131073 then set_ver (nth 0 v 0, nth 1 v 0) bd else set_field tag v bd in
      read_loop fuel' glen (sat_add32 (sat_add32 total hb) len) bd' r'
    end
  end.

Definition read_meta (impl_uid impl_name : str) (b : bytes) : outcome (meta * bytes) :=
  match take_n 4 b with
  | None => Err e_read_magic
  | Some (magic, r) =>
    if negb (list_eqb N.eqb magic DICM) then Err e_not_dicom else
    h <- decode_header r ;;
    let '(tag, len, _, r1) := h in
    if negb (tag =? 131072) then Err e_unexpected_tag else
    if negb (len =? 4) then Err e_unexpected_len else
    match take_n 4 r1 with
    | None => Err e_read_value
    | Some (g, r2) =>
      x <- read_loop (S (length r2)) (le_val g) 0 empty_builder r2 ;;
      t <- build impl_uid impl_name (fst x) ;;
      Ok (t, snd x)
    end
  end.

(** * Debug builds: overflow checks in [calculate_information_group_length]
    The model above writes the u32 arithmetic out as wrap-around (release builds). With overflow
    checks (debug builds, and the harness build) the same expressions panic instead:
    [x.len() as u32 + 1] when the truncated length is 0xFFFFFFFF, and the chain of additions when
    a partial sum reaches 2^32 (all terms are non-negative: iff the total does). *)
Definition len_ovf (n : N) : bool := u32 n =? 4294967295.
Definition opt_ovf (o : option str) : bool := match o with Some s => len_ovf (slen s) | None => false end.
Definition calc_total (t : meta) : N :=
  14 + 8 + dicom_len (m_sop_class t) + 8 + dicom_len (m_sop_inst t) + 8 + dicom_len (m_ts t)
  + 8 + dicom_len (m_impl_class t)
  + opt_len (m_impl_ver t) + opt_len (m_src_ae t) + opt_len (m_snd_ae t) + opt_len (m_rcv_ae t)
  + opt_len (m_priv_creator t)
  + match m_priv_info t with Some x => 12 + even_len (u32 (blen x)) | None => 0 end.
Definition calc_overflows (t : meta) : bool :=
  len_ovf (slen (m_sop_class t)) || len_ovf (slen (m_sop_inst t)) || len_ovf (slen (m_ts t))
  || len_ovf (slen (m_impl_class t)) || opt_ovf (m_impl_ver t) || opt_ovf (m_src_ae t) || opt_ovf (m_snd_ae t)
  || opt_ovf (m_rcv_ae t) || opt_ovf (m_priv_creator t)
  || match m_priv_info t with Some x => len_ovf (blen x) | None => false end
  || (4294967296 <=? calc_total t).
(* [read_from] as a debug build runs it: [build] ends with [update_information_group_length] *)
Definition read_meta_dbg (impl_uid impl_name : str) (b : bytes) : outcome (meta * bytes) :=
  match read_meta impl_uid impl_name b with
  | Ok (t, r) => if calc_overflows t then Panic 1 else Ok (t, r)
  | other => other
  end.

(** * Equality of tables ([PartialEq]): trailing white space and NULs are ignored *)
Definition trim_pad (s : str) : str :=
  rev ((fix go (r : str) := match r with c :: r' => if is_ws c || (c =? 0) then go r' else r | [] => [] end) (rev s)).
Definition bytes_trim (b : bytes) : bytes :=
  if N.even (blen b) && (last b 1 =? 0) && negb (blen b =? 0) then removelast b else b.
Definition ostr_eqb (a b : option str) : bool := opt_eqb str_eqb (option_map trim_pad a) (option_map trim_pad b).
Definition meta_eqb (a b : meta) : bool :=
  (m_glen a =? m_glen b) && (fst (m_ver a) =? fst (m_ver b)) && (snd (m_ver a) =? snd (m_ver b))
  && str_eqb (trim_pad (m_sop_class a)) (trim_pad (m_sop_class b))
  && str_eqb (trim_pad (m_sop_inst a)) (trim_pad (m_sop_inst b))
  && str_eqb (trim_pad (m_ts a)) (trim_pad (m_ts b))
  && str_eqb (trim_pad (m_impl_class a)) (trim_pad (m_impl_class b))
  && ostr_eqb (m_impl_ver a) (m_impl_ver b) && ostr_eqb (m_src_ae a) (m_src_ae b)
  && ostr_eqb (m_snd_ae a) (m_snd_ae b) && ostr_eqb (m_rcv_ae a) (m_rcv_ae b)
  && ostr_eqb (m_priv_creator a) (m_priv_creator b)
  && opt_eqb (fun x y => list_eqb N.eqb (bytes_trim x) (bytes_trim y)) (m_priv_info a) (m_priv_info b).

(* field-by-field identity (what the harness prints) *)
Definition ostr_ideqb := opt_eqb str_eqb.
Definition meta_ideqb (a b : meta) : bool :=
  (m_glen a =? m_glen b) && (fst (m_ver a) =? fst (m_ver b)) && (snd (m_ver a) =? snd (m_ver b))
  && str_eqb (m_sop_class a) (m_sop_class b) && str_eqb (m_sop_inst a) (m_sop_inst b)
  && str_eqb (m_ts a) (m_ts b) && str_eqb (m_impl_class a) (m_impl_class b)
  && ostr_ideqb (m_impl_ver a) (m_impl_ver b) && ostr_ideqb (m_src_ae a) (m_src_ae b)
  && ostr_ideqb (m_snd_ae a) (m_snd_ae b) && ostr_ideqb (m_rcv_ae a) (m_rcv_ae b)
  && ostr_ideqb (m_priv_creator a) (m_priv_creator b)
  && opt_eqb (list_eqb N.eqb) (m_priv_info a) (m_priv_info b).

(** * Preamble detection *)
Inductive preamble := PAuto | PNever | PAlways.
Definition e_preamble : N := 20.  (* ReadFile / ReadPreambleBytes *)
(* [buf] is what the first [fill_buf] returned *)
Definition detect_preamble (buf : bytes) : outcome preamble :=
  if blen buf <? 4 then Err e_preamble
  else if (132 <=? blen buf) && list_eqb N.eqb (firstn 4 (skipn 128 buf)) DICM then Ok PAlways
  else if list_eqb N.eqb (firstn 4 buf) DICM then Ok PNever
  else Ok PAuto.

(* number of bytes skipped before the magic code is read: by path / from a byte source *)
Definition skip_by_path (opt : preamble) (buf : bytes) : outcome N :=
  p <- (match opt with PAuto => detect_preamble buf | o => Ok o end) ;;
  Ok (match p with PAuto | PAlways => 128 | PNever => 0 end).
Definition skip_by_reader (opt : preamble) (buf : bytes) : outcome N :=
  p <- (match opt with PAuto => detect_preamble buf | o => Ok o end) ;;
  Ok (match p with PAlways => 128 | PAuto | PNever => 0 end).

(* the whole opening: skip, then the meta group (the data set that follows is not part of this model) *)
Definition open_with (skip : preamble -> bytes -> outcome N) (iu inm : str) (opt : preamble) (buf file : bytes)
  : outcome (meta * bytes) :=
  n <- skip opt buf ;;
  match take_n n file with
  | None => Err e_preamble
  | Some (_, r) => read_meta iu inm r
  end.
(* BufReader capacity: what the first fill_buf can return at most *)
Definition BUF : nat := 8192.
Definition open_by_path iu inm opt (file : bytes) := open_with skip_by_path iu inm opt (firstn BUF file) file.
(* from a byte source the first 132 bytes are gathered before detection (since fix 604eb6c);
   the size of the source's first chunk no longer matters *)
Definition open_by_reader iu inm opt (file : bytes) :=
  open_with skip_by_reader iu inm opt (firstn 132 file) file.

(** * Property-side definitions *)
Definition ascii (s : str) : bool := forallb (fun c => c <? 128) s.
Definition oascii (o : option str) : bool := match o with Some s => ascii s | None => true end.
Definition ascii_table (t : meta) : bool :=
  ascii (m_sop_class t) && ascii (m_sop_inst t) && ascii (m_ts t) && ascii (m_impl_class t)
  && oascii (m_impl_ver t) && oascii (m_src_ae t) && oascii (m_snd_ae t) && oascii (m_rcv_ae t)
  && oascii (m_priv_creator t).
(* the recorded length is the calculated one (established by build, kept by apply) *)
Definition up_to_date (t : meta) : Prop := m_glen t = calc_glen t.
(* sizes for which the u32 arithmetic cannot wrap *)
Definition small_priv (t : meta) : Prop :=
  match m_priv_info t with Some b => blen b < 2 ^ 31 | None => True end.

(** * Correspondence cases *)
Definition omap_eqb {A} (eq : A -> A -> bool) (a b : outcome A) : bool :=
  match a, b with
  | Ok x, Ok y => eq x y
  | Err e, Err f => e =? f
  | Panic _, Panic _ => true
  | _, _ => false
  end.

Definition mk_meta (g : N) (v : N * N) (s4 : list str) (o5 : list (option str)) (p : option bytes) : meta :=
  {| m_glen := g; m_ver := v; m_sop_class := nth 0 s4 []; m_sop_inst := nth 1 s4 []; m_ts := nth 2 s4 [];
     m_impl_class := nth 3 s4 []; m_impl_ver := nth 0 o5 None; m_src_ae := nth 1 o5 None;
     m_snd_ae := nth 2 o5 None; m_rcv_ae := nth 3 o5 None; m_priv_creator := nth 4 o5 None; m_priv_info := p |}.
Definition mk_builder (v : option (N * N)) (s4 : list (option str)) (o5 : list (option str)) (p : option bytes) : builder :=
  {| b_glen := None; b_ver := v; b_sop_class := nth 0 s4 None; b_sop_inst := nth 1 s4 None; b_ts := nth 2 s4 None;
     b_impl_class := nth 3 s4 None; b_impl_ver := nth 0 o5 None; b_src_ae := nth 1 o5 None;
     b_snd_ae := nth 2 o5 None; b_rcv_ae := nth 3 o5 None; b_priv_creator := nth 4 o5 None; b_priv_info := p |}.

(* one step of a history: the op, what the implementation returned, the table afterwards,
   what writing that table produced, and what reading those bytes back (after "DICM", followed by
   [tail]) produced *)
Definition step_obs : Type := mop * outcome unit * meta * outcome bytes * outcome (meta * bytes).

Definition unit_eqb (_ _ : unit) := true.
Definition check_write_read (iu inm : str) (tail : bytes) (t : meta) (w : outcome bytes) (r : outcome (meta * bytes)) : bool :=
  omap_eqb (list_eqb N.eqb) (write_meta t) w
  && match w with
     | Ok b => omap_eqb (fun x y => meta_ideqb (fst x) (fst y) && list_eqb N.eqb (snd x) (snd y))
                 (read_meta iu inm (DICM ++ b ++ tail)) r
     | _ => true
     end.

Fixpoint check_steps (iu inm : str) (tail : bytes) (t : meta) (l : list step_obs) : bool :=
  match l with
  | [] => true
  | (op, res, t_after, w, r) :: l' =>
    let '(mres, mt) := apply_meta op t in
    omap_eqb unit_eqb mres res && meta_ideqb mt t_after
    && check_write_read iu inm tail t_after w r
    && check_steps iu inm tail t_after l'
  end.

Inductive case :=
(* builder input, crate constants, build result, its write/read, then a history *)
| CTable (iu inm : str) (bd : builder) (built : outcome meta) (tail : bytes)
         (w : outcome bytes) (r : outcome (meta * bytes)) (steps : list step_obs)
(* arbitrary bytes through from_reader: result (table, number of bytes left) *)
| CRead (iu inm : str) (b : bytes) (r : outcome (meta * bytes))
(* preamble: a file, the size of the first chunk of the byte source (irrelevant to the model), the option, the meta table obtained
   by path / from the byte source (Err 30 = failure after the meta group) *)
| CPreamble (iu inm : str) (file : bytes) (k : nat) (opt : preamble) (by_path by_reader : outcome meta)
(* PartialEq *)
| CEq (a b : meta) (eq : bool).

Definition open_agrees (m : outcome (meta * bytes)) (i : outcome meta) : bool :=
  match m, i with
  | Ok x, Ok t => meta_ideqb (fst x) t
  | Ok _, Err e => e =? 30
  | Err e, Err f => e =? f
  | _, _ => false
  end.

Definition check_case (c : case) : bool :=
  match c with
  | CTable iu inm bd built tail w r steps =>
    omap_eqb meta_ideqb (build iu inm bd) built
    && match built with
       | Ok t => check_write_read iu inm tail t w r && check_steps iu inm tail t steps
       | _ => true
       end
  | CRead iu inm b r =>
    omap_eqb (fun x y => meta_ideqb (fst x) (fst y) && list_eqb N.eqb (snd x) (snd y)) (read_meta_dbg iu inm b) r
  | CPreamble iu inm file k opt p q =>
    open_agrees (open_by_path iu inm opt file) p && open_agrees (open_by_reader iu inm opt file) q
  | CEq a b eq => Bool.eqb (meta_eqb a b) eq
  end.
