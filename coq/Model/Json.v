(** Model of the DICOM JSON mapping of dicom-json (json/src/ser/mod.rs,
    ser/value.rs, de/mod.rs, de/value.rs) for C23 and C24.

    - [json]: a JSON VALUE tree ([serde_json::Value] with [preserve_order]):
      members of an object are ordered and, in the text-level model, may repeat.
    - [dset]/[value]/[prim]: in-memory data sets; floats are bit patterns.
    - [ser_dset]: [Serialize for DicomJson<&InMemDicomObject>] / [<&InMemElement>]
      with [AsStrings], [AsNumbers], [InlineBinary], [AsPersonNames].
    - [de_ds_json]: [InMemDicomObjectVisitor::visit_map], [DataElementVisitor::visit_map]
      (key loop, conflict checks, per-VR value decoding); [de_text] = the same
      behind [serde_json::from_str] (the "Value" member is first turned into a
      [serde_json::Value], which drops repeated keys).
    Outside the model (trusted): JSON text <-> tree, decimal printing/parsing of
    floats: they enter through the [ext] record. *)
From DicomV Require Export Model.JsonBase.
From Coq Require String.
Import String.StringSyntax.
Delimit Scope string_scope with string.

(** * JSON values *)
Inductive json : Type :=
| JNull
| JBool (b : bool)
| JInt (z : Z)           (* serde_json Number PosInt / NegInt *)
| JFloat (bits : N)      (* serde_json Number Float: finite binary64, as bits *)
| JStr (s : str)
| JArr (l : jlist)
| JObj (m : jmembers)
with jlist : Type := JNil | JCons (j : json) (tl : jlist)
with jmembers : Type := MNil | MCons (k : str) (j : json) (tl : jmembers).

Fixpoint jarr_of (l : list json) : jlist :=
  match l with [] => JNil | j :: r => JCons j (jarr_of r) end.
Fixpoint jobj_of (l : list (str * json)) : jmembers :=
  match l with [] => MNil | (k, j) :: r => MCons k j (jobj_of r) end.
Definition jarr (l : list json) : json := JArr (jarr_of l).
Definition jobj (l : list (str * json)) : json := JObj (jobj_of l).
Fixpoint jlist_list (l : jlist) : list json :=
  match l with JNil => [] | JCons j r => j :: jlist_list r end.
Fixpoint jmembers_list (m : jmembers) : list (str * json) :=
  match m with MNil => [] | MCons k j r => (k, j) :: jmembers_list r end.
Fixpoint mapp (a b : jmembers) : jmembers :=
  match a with MNil => b | MCons k j r => MCons k j (mapp r b) end.

Fixpoint json_eqb (a b : json) : bool :=
  match a, b with
  | JNull, JNull => true
  | JBool x, JBool y => Bool.eqb x y
  | JInt x, JInt y => (x =? y)%Z
  | JFloat x, JFloat y => x =? y
  | JStr x, JStr y => str_eqb x y
  | JArr x, JArr y => jlist_eqb x y
  | JObj x, JObj y => jmembers_eqb x y
  | _, _ => false
  end
with jlist_eqb (a b : jlist) : bool :=
  match a, b with
  | JNil, JNil => true
  | JCons x a', JCons y b' => json_eqb x y && jlist_eqb a' b'
  | _, _ => false
  end
with jmembers_eqb (a b : jmembers) : bool :=
  match a, b with
  | MNil, MNil => true
  | MCons k x a', MCons l y b' => str_eqb k l && json_eqb x y && jmembers_eqb a' b'
  | _, _ => false
  end.

(** * Value representations *)
Inductive vrT :=
| V_AE | V_AS | V_AT | V_CS | V_DA | V_DS | V_DT | V_FL | V_FD | V_IS | V_LO | V_LT
| V_OB | V_OD | V_OF | V_OL | V_OV | V_OW | V_PN | V_SH | V_SL | V_SQ | V_SS | V_ST
| V_SV | V_TM | V_UC | V_UI | V_UL | V_UN | V_UR | V_US | V_UT | V_UV.

Definition all_vrs : list vrT :=
  [V_AE; V_AS; V_AT; V_CS; V_DA; V_DS; V_DT; V_FL; V_FD; V_IS; V_LO; V_LT;
   V_OB; V_OD; V_OF; V_OL; V_OV; V_OW; V_PN; V_SH; V_SL; V_SQ; V_SS; V_ST;
   V_SV; V_TM; V_UC; V_UI; V_UL; V_UN; V_UR; V_US; V_UT; V_UV].

(* VR::to_string *)
Definition vr_name (v : vrT) : str :=
  match v with
  | V_AE => L"AE" | V_AS => L"AS" | V_AT => L"AT" | V_CS => L"CS" | V_DA => L"DA" | V_DS => L"DS"
  | V_DT => L"DT" | V_FL => L"FL" | V_FD => L"FD" | V_IS => L"IS" | V_LO => L"LO" | V_LT => L"LT"
  | V_OB => L"OB" | V_OD => L"OD" | V_OF => L"OF" | V_OL => L"OL" | V_OV => L"OV" | V_OW => L"OW"
  | V_PN => L"PN" | V_SH => L"SH" | V_SL => L"SL" | V_SQ => L"SQ" | V_SS => L"SS" | V_ST => L"ST"
  | V_SV => L"SV" | V_TM => L"TM" | V_UC => L"UC" | V_UI => L"UI" | V_UL => L"UL" | V_UN => L"UN"
  | V_UR => L"UR" | V_US => L"US" | V_UT => L"UT" | V_UV => L"UV"
  end.
Definition vr_eqb (a b : vrT) : bool := str_eqb (vr_name a) (vr_name b).
(* VR::from_str(..).unwrap_or(VR::UN) *)
Definition vr_of_name (s : str) : vrT :=
  match find (fun v => str_eqb (vr_name v) s) all_vrs with Some v => v | None => V_UN end.

Inductive vclass := CStr | CPN | CAT | CNum | CBin | CSeq.
(* the match on vr in Serialize for DicomJson<&InMemElement> *)
Definition vr_class (v : vrT) : vclass :=
  match v with
  | V_AE | V_AS | V_CS | V_DA | V_DT | V_LO | V_LT | V_SH | V_UC | V_UI | V_UR | V_TM | V_ST | V_UT => CStr
  | V_AT => CAT
  | V_PN => CPN
  | V_FD | V_IS | V_FL | V_DS | V_SL | V_SS | V_SV | V_UL | V_US | V_UV => CNum
  | V_OB | V_OD | V_OF | V_OL | V_OV | V_OW | V_UN => CBin
  | V_SQ => CSeq
  end.

(** * In-memory values *)
Inductive ikind := KU8 | KI16 | KU16 | KI32 | KU32 | KI64 | KU64.
Definition ikind_eqb (a b : ikind) : bool :=
  match a, b with
  | KU8, KU8 | KI16, KI16 | KU16, KU16 | KI32, KI32 | KU32, KU32 | KI64, KI64 | KU64, KU64 => true
  | _, _ => false
  end.
Definition ikind_size (k : ikind) : nat :=
  match k with KU8 => 1 | KI16 | KU16 => 2 | KI32 | KU32 => 4 | KI64 | KU64 => 8 end%nat.
Definition ikind_lo (k : ikind) : Z :=
  match k with KI16 => -32768 | KI32 => -2147483648 | KI64 => -9223372036854775808 | _ => 0 end%Z.
Definition ikind_hi (k : ikind) : Z :=
  match k with
  | KU8 => 255 | KI16 => 32767 | KU16 => 65535 | KI32 => 2147483647 | KU32 => 4294967295
  | KI64 => 9223372036854775807 | KU64 => 18446744073709551615
  end%Z.
Definition ikind_signed (k : ikind) : bool := match k with KI16 | KI32 | KI64 => true | _ => false end.
Definition in_kind (k : ikind) (z : Z) : bool := (ikind_lo k <=? z)%Z && (z <=? ikind_hi k)%Z.

(** [PrimitiveValue]. Integer variants are [PInt kind values]; F32/F64 carry bit
    patterns; Date/Time/DateTime values are carried as the pair
    ([to_encoded()], [to_string()]) of each value (their rendering is C12's). *)
Inductive prim :=
| PEmpty
| PStrs (l : list str)
| PStr (s : str)
| PTags (l : list N)
| PInt (k : ikind) (l : list Z)
| PF32 (l : list N)
| PF64 (l : list N)
| PTemporal (l : list (str * str)).

Inductive value : Type :=
| VPrim (p : prim)
| VSeq (it : items)
| VPix                       (* encapsulated pixel data (PixelSequence) *)
with items : Type := INil | ICons (d : dset) (tl : items)
with dset : Type := DNil | DCons (tag : N) (vr : vrT) (v : value) (tl : dset).

Fixpoint items_of (l : list dset) : items :=
  match l with [] => INil | d :: r => ICons d (items_of r) end.
Fixpoint dset_of (l : list (N * vrT * value)) : dset :=
  match l with [] => DNil | (t, vr, v) :: r => DCons t vr v (dset_of r) end.
Definition vseq (l : list dset) : value := VSeq (items_of l).

Definition prim_eqb (a b : prim) : bool :=
  match a, b with
  | PEmpty, PEmpty => true
  | PStrs x, PStrs y => list_eqb str_eqb x y
  | PStr x, PStr y => str_eqb x y
  | PTags x, PTags y => list_eqb N.eqb x y
  | PInt k x, PInt l y => ikind_eqb k l && list_eqb Z.eqb x y
  | PF32 x, PF32 y => list_eqb N.eqb x y
  | PF64 x, PF64 y => list_eqb N.eqb x y
  | PTemporal x, PTemporal y => list_eqb (fun p q => str_eqb (fst p) (fst q) && str_eqb (snd p) (snd q)) x y
  | _, _ => false
  end.
Fixpoint value_eqb (a b : value) : bool :=
  match a, b with
  | VPrim p, VPrim q => prim_eqb p q
  | VSeq x, VSeq y => items_eqb x y
  | VPix, VPix => true
  | _, _ => false
  end
with items_eqb (a b : items) : bool :=
  match a, b with
  | INil, INil => true
  | ICons x a', ICons y b' => dset_eqb x y && items_eqb a' b'
  | _, _ => false
  end
with dset_eqb (a b : dset) : bool :=
  match a, b with
  | DNil, DNil => true
  | DCons t vr v a', DCons u wr w b' => (t =? u) && vr_eqb vr wr && value_eqb v w && dset_eqb a' b'
  | _, _ => false
  end.

(** * External (trusted) float text functions *)
Record ext := {
  fmt_f32 : N -> str;            (* <f32 as Display>::fmt *)
  fmt_f64 : N -> str;            (* <f64 as Display>::fmt *)
  parse_f32 : str -> option N;   (* <f32 as FromStr>::from_str on texts other than "NaN", "inf", "-inf" *)
  parse_f64 : str -> option N
}.

(** * Error classes of [serde_json::Error] from deserialisation *)
Definition E_TYPE : N := 0.       (* invalid type / value / length, number or tag text that does not parse *)
Definition E_VR_TWICE : N := 1.   (* "vr" should only be set once *)
Definition E_CONFLICT : N := 2.   (* "X" conflicts with "Y" *)
Definition E_FIELD : N := 3.      (* Unrecognized data element field *)
Definition E_NO_VR : N := 4.      (* missing VR field *)
Definition E_BASE64 : N := 5.     (* inline binary data is not valid base64 *)
Definition E_UN_VALUE : N := 6.   (* can't parse JSON Value in UN *)

Definition of_opt {A} (o : option A) (e : N) : outcome A :=
  match o with Some a => Ok a | None => Err e end.
Fixpoint mapM {A B} (f : A -> outcome B) (l : list A) : outcome (list B) :=
  match l with
  | [] => Ok []
  | a :: r => b <- f a ;; bs <- mapM f r ;; Ok (b :: bs)
  end.

(** * Serialiser *)
Definition k_vr := L"vr".
Definition k_Value := L"Value".
Definition k_InlineBinary := L"InlineBinary".
Definition k_BulkDataURI := L"BulkDataURI".
Definition k_Alphabetic := L"Alphabetic".
Definition k_Ideographic := L"Ideographic".
Definition k_Phonetic := L"Phonetic".
Definition s_NaN := L"NaN".
Definition s_inf := L"inf".
Definition s_ninf := L"-inf".
Definition backslash : N := 92.

(* PrimitiveValue::to_multi_str *)
Definition multi_str (X : ext) (p : prim) : list str :=
  match p with
  | PEmpty => []
  | PStr s => [trim_pad s]
  | PStrs l => split_on backslash (join backslash (map trim_pad l))
  | PTemporal l => map fst l
  | PInt _ l => map dec_Z l
  | PF32 l => map (fmt_f32 X) l
  | PF64 l => map (fmt_f64 X) l
  | PTags l => map tag_display l
  end.

(* PrimitiveValue::multiplicity *)
Definition multiplicity (p : prim) : nat :=
  match p with
  | PEmpty => 0
  | PStr _ => 1
  | PStrs l => length l
  | PTags l => length l
  | PInt _ l => length l
  | PF32 l => length l
  | PF64 l => length l
  | PTemporal l => length l
  end.

(* PrimitiveValue::to_bytes (little-endian host) *)
Definition int_bytes (k : ikind) (z : Z) : bytes :=
  le_bytes (ikind_size k) (Z.to_N (z mod 2 ^ (8 * Z.of_nat (ikind_size k)))).
Definition to_bytes (p : prim) : bytes :=
  match p with
  | PEmpty => []
  | PInt k l => flat_map (int_bytes k) l
  | PF32 l => flat_map le32 l
  | PF64 l => flat_map le64 l
  | PStr s => utf8 s
  | PStrs l => utf8 (join backslash l)
  | PTags l => utf8 (join backslash (map tag_display l))
  | PTemporal l => utf8 (join backslash (map snd l))
  end.

Definition fits_i32 (z : Z) : bool := (-2147483648 <=? z)%Z && (z <=? 2147483647)%Z.
Definition f32_json (b : N) : json :=
  if f32_finite b then JFloat (f32_to_f64 b)
  else if f32_is_nan b then JStr s_NaN
  else if f32_neg b then JStr s_ninf else JStr s_inf.
Definition f64_json (b : N) : json :=
  if f64_finite b then JFloat b
  else if f64_is_nan b then JStr s_NaN
  else if f64_neg b then JStr s_ninf else JStr s_inf.
Definition int_json (k : ikind) (z : Z) : json :=
  match k with
  | KI64 | KU64 => if fits_i32 z then JInt z else JStr (dec_Z z)
  | _ => JInt z
  end.

(* Serialize for AsNumbers *)
Definition ser_numbers (p : prim) : outcome (list json) :=
  match p with
  | PEmpty => Ok []
  | PTemporal _ => Panic 1          (* "wrong impl: cannot encode Date as numbers" *)
  | PTags _ => Panic 1
  | PStrs l => Ok (map JStr l)
  | PStr s => Ok [JStr s]
  | PInt k l => Ok (map (int_json k) l)
  | PF32 l => Ok (map f32_json l)
  | PF64 l => Ok (map f64_json l)
  end.

(* PersonNameDef::from: component groups *)
Definition nonempty (s : str) : option str := match s with [] => None | _ => Some s end.
Definition pn_groups (s : str) : str * option str * option str :=
  let '(a, r) := split_first 61 s in
  match r with
  | None => (a, None, None)
  | Some r =>
      let '(i, r2) := split_first 61 r in
      (a, nonempty i, match r2 with None => None | Some p => nonempty p end)
  end.
Definition pn_json (s : str) : json :=
  let '(a, i, p) := pn_groups s in
  jobj ([(k_Alphabetic, JStr a)]
        ++ match i with Some i => [(k_Ideographic, JStr i)] | None => [] end
        ++ match p with Some p => [(k_Phonetic, JStr p)] | None => [] end).

Definition member_value (l : list json) : jmembers := MCons k_Value (jarr l) MNil.

(* the value part of Serialize for DicomJson<&InMemElement>, primitive values *)
Definition ser_prim (X : ext) (vr : vrT) (p : prim) : outcome jmembers :=
  match multiplicity p with
  | O => Ok MNil
  | _ =>
      match vr_class vr with
      | CAT =>
          match p with
          | PTags l => Ok (member_value (map (fun t => JStr (hex8 t)) l))
          | _ => Ok (member_value (map JStr (multi_str X p)))
          end
      | CStr => Ok (member_value (map JStr (multi_str X p)))
      | CPN => Ok (member_value (map pn_json (multi_str X p)))
      | CNum => l <- ser_numbers p ;; Ok (member_value l)
      | CBin =>
          let b := to_bytes p in
          if is_nil b then Ok MNil else Ok (MCons k_InlineBinary (JStr (b64enc b)) MNil)
      | CSeq => Panic 2             (* unreachable!("unexpected VR SQ in primitive value") *)
      end
  end.

Fixpoint ser_value (X : ext) (vr : vrT) (v : value) : outcome jmembers :=
  match v with
  | VPrim p => ser_prim X vr p
  | VSeq INil => Ok MNil
  | VSeq it => l <- ser_items X it ;; Ok (MCons k_Value (JArr l) MNil)
  | VPix => Ok MNil
  end
with ser_items (X : ext) (it : items) : outcome jlist :=
  match it with
  | INil => Ok JNil
  | ICons d tl => m <- ser_dset X d ;; l <- ser_items X tl ;; Ok (JCons (JObj m) l)
  end
with ser_dset (X : ext) (d : dset) : outcome jmembers :=
  match d with
  | DNil => Ok MNil
  | DCons t vr v tl =>
      mv <- ser_value X vr v ;;
      m <- ser_dset X tl ;;
      Ok (MCons (hex8 t) (JObj (MCons k_vr (JStr (vr_name vr)) mv)) m)
  end.

(* dicom_json::to_value(&obj) *)
Definition ser (X : ext) (d : dset) : outcome json := m <- ser_dset X d ;; Ok (JObj m).

(** * Deserialiser *)

(* InMemDicomObject::put on the ordered map *)
Fixpoint dset_put (t : N) (vr : vrT) (v : value) (d : dset) : dset :=
  match d with
  | DNil => DCons t vr v DNil
  | DCons u wr w tl =>
      if t <? u then DCons t vr v d
      else if t =? u then DCons t vr v tl
      else DCons u wr w (dset_put t vr v tl)
  end.

Definition jarr_list (j : json) : outcome (list json) :=
  match j with JArr l => Ok (jlist_list l) | _ => Err E_TYPE end.

(* Vec<Option<String>> then unwrap_or_default *)
Definition de_opt_string (j : json) : outcome str :=
  match j with JNull => Ok [] | JStr s => Ok s | _ => Err E_TYPE end.
(* Vec<i16> etc. *)
Definition de_int (k : ikind) (j : json) : outcome Z :=
  match j with JInt z => if in_kind k z then Ok z else Err E_TYPE | _ => Err E_TYPE end.

(* <f32/f64 as FromStr>: the three texts the serialiser writes are fixed here,
   every other text goes to the trusted parser *)
Definition parse_f32_text (X : ext) (s : str) : option N :=
  if str_eqb s s_NaN then Some f32_nan else if str_eqb s s_inf then Some f32_inf
  else if str_eqb s s_ninf then Some f32_ninf else parse_f32 X s.
Definition parse_f64_text (X : ext) (s : str) : option N :=
  if str_eqb s s_NaN then Some f64_nan else if str_eqb s s_inf then Some f64_inf
  else if str_eqb s s_ninf then Some f64_ninf else parse_f64 X s.

(* NumberOrText<T> (untagged) followed by to_num *)
Definition de_f32 (X : ext) (j : json) : outcome N :=
  match j with
  | JInt z => Ok (int_to_f32 z)
  | JFloat b => Ok (f64_to_f32 b)
  | JStr s => of_opt (parse_f32_text X s) E_TYPE
  | _ => Err E_TYPE
  end.
Definition de_f64 (X : ext) (j : json) : outcome N :=
  match j with
  | JInt z => Ok (int_to_f64 z)
  | JFloat b => Ok b
  | JStr s => of_opt (parse_f64_text X s) E_TYPE
  | _ => Err E_TYPE
  end.
Definition de_int_or_text (k : ikind) (j : json) : outcome Z :=
  match j with
  | JInt z => if in_kind k z then Ok z else Err E_TYPE
  | JStr s => of_opt (parse_int (ikind_signed k) (ikind_lo k) (ikind_hi k) s) E_TYPE
  | _ => Err E_TYPE
  end.
(* NumberOrText<f64> followed by to_string (DS, IS) *)
Definition de_num_text (X : ext) (j : json) : outcome str :=
  match j with
  | JInt z => Ok (fmt_f64 X (int_to_f64 z))
  | JFloat b => Ok (fmt_f64 X b)
  | JStr s => Ok s
  | _ => Err E_TYPE
  end.

(* DicomJsonPerson: derived Deserialize (a map, or a sequence of exactly 3) and Display *)
Definition pn_display (g : str * option str * option str) : str :=
  match g with
  | (a, None, None) => a
  | (a, Some i, None) => a ++ [61] ++ i
  | (a, None, Some p) => a ++ [61; 61] ++ p
  | (a, Some i, Some p) => a ++ [61] ++ i ++ [61] ++ p
  end.
Definition de_opt_str (j : json) : outcome (option str) :=
  match j with JNull => Ok None | JStr s => Ok (Some s) | _ => Err E_TYPE end.
Fixpoint de_person_fields (m : list (str * json)) (a : option str) (i p : option (option str))
  : outcome (str * option str * option str) :=
  match m with
  | [] =>
      match a with
      | None => Err E_TYPE     (* missing field `Alphabetic` *)
      | Some a => Ok (a, match i with Some i => i | None => None end, match p with Some p => p | None => None end)
      end
  | (k, j) :: r =>
      if str_eqb k k_Alphabetic then
        match a with
        | Some _ => Err E_TYPE   (* duplicate field *)
        | None => match j with JStr s => de_person_fields r (Some s) i p | _ => Err E_TYPE end
        end
      else if str_eqb k k_Ideographic then
        match i with
        | Some _ => Err E_TYPE
        | None => v <- de_opt_str j ;; de_person_fields r a (Some v) p
        end
      else if str_eqb k k_Phonetic then
        match p with
        | Some _ => Err E_TYPE
        | None => v <- de_opt_str j ;; de_person_fields r a i (Some v)
        end
      else de_person_fields r a i p   (* unknown fields are ignored *)
  end.
Definition de_person (j : json) : outcome str :=
  match j with
  | JObj m => g <- de_person_fields (jmembers_list m) None None None ;; Ok (pn_display g)
  | JArr l =>
      match jlist_list l with
      | [JStr a; i; p] => i <- de_opt_str i ;; p <- de_opt_str p ;; Ok (pn_display (a, i, p))
      | _ => Err E_TYPE
      end
  | _ => Err E_TYPE
  end.

Definition de_tag (j : json) : outcome N :=
  match j with JStr s => of_opt (tag_from_str s) E_TYPE | _ => Err E_TYPE end.

(* the match on vr over the "Value" member; [th] deserialises it as a list of data sets *)
Definition de_value (X : ext) (vr : vrT) (j : json) (th : unit -> outcome items) : outcome value :=
  let vec {A} (f : json -> outcome A) (mk : list A -> prim) : outcome value :=
      l <- jarr_list j ;; xs <- mapM f l ;; Ok (VPrim (mk xs)) in
  match vr with
  | V_SQ => it <- th tt ;; Ok (VSeq it)
  | V_AE | V_AS | V_CS | V_DA | V_DT | V_LO | V_LT | V_SH | V_ST | V_UT | V_UR | V_TM | V_UC | V_UI =>
      vec de_opt_string PStrs
  | V_SS => vec (de_int KI16) (PInt KI16)
  | V_US | V_OW => vec (de_int KU16) (PInt KU16)
  | V_SL => vec (de_int KI32) (PInt KI32)
  | V_OB => vec (de_int KU8) (PInt KU8)
  | V_FL | V_OF => vec (de_f32 X) PF32
  | V_FD | V_OD => vec (de_f64 X) PF64
  | V_SV => vec (de_int_or_text KI64) (PInt KI64)
  | V_UL | V_OL => vec (de_int_or_text KU32) (PInt KU32)
  | V_UV | V_OV => vec (de_int_or_text KU64) (PInt KU64)
  | V_DS | V_IS => vec (de_num_text X) PStrs
  | V_PN => vec de_person PStrs
  | V_AT => vec de_tag PTags
  | V_UN => Err E_UN_VALUE
  end.

(* state of the key loop of DataElementVisitor::visit_map *)
Record est := {
  e_vr : option vrT;
  e_val : option (json * (unit -> outcome items));
  e_inl : option str;
  e_bulk : bool
}.
Definition est0 : est := {| e_vr := None; e_val := None; e_inl := None; e_bulk := false |}.
Definition is_some {A} (o : option A) : bool := match o with Some _ => true | None => false end.

(* after the loop: decode the value by VR, then combine with the inline binary *)
Definition de_finish (X : ext) (st : est) : outcome (vrT * value * bool) :=
  match e_vr st with
  | None => Err E_NO_VR
  | Some vr =>
      values <- match e_val st with
                | None => Ok None
                | Some (j, th) => v <- de_value X vr j th ;; Ok (Some v)
                end ;;
      match values, e_inl st with
      | None, None => Ok (vr, (if vr_eqb vr V_SQ then VSeq INil else VPrim PEmpty), e_bulk st)
      | None, Some s =>
          b <- of_opt (b64dec s) E_BASE64 ;;
          Ok (vr, VPrim (PInt KU8 (map Z.of_N b)), e_bulk st)
      | Some v, None => Ok (vr, v, e_bulk st)
      | Some _, Some _ => Panic 0      (* unreachable!() *)
      end
  end.

Section De.
Variable X : ext.

(** [InMemDicomObjectVisitor::visit_map] = [de_ds_members],
    [DataElementVisitor::visit_map] = [de_elem_members] then [de_finish]. *)
Fixpoint de_ds_json (j : json) : outcome dset :=
  match j with
  | JObj m => de_ds_members m DNil
  | _ => Err E_TYPE
  end
with de_ds_members (m : jmembers) (acc : dset) : outcome dset :=
  match m with
  | MNil => Ok acc
  | MCons k j tl =>
      t <- of_opt (tag_from_str k) E_TYPE ;;
      e <- de_elem_json j ;;
      let '(vr, v, bulk) := e in
      de_ds_members tl (if (bulk : bool) then acc else dset_put t vr v acc)
  end
with de_elem_json (j : json) : outcome (vrT * value * bool) :=
  match j with
  | JObj m => de_elem_members m est0
  | _ => Err E_TYPE
  end
with de_elem_members (m : jmembers) (st : est) : outcome (vrT * value * bool) :=
  match m with
  | MNil => de_finish X st
  | MCons k j tl =>
      if str_eqb k k_vr then
        if is_some (e_vr st) then Err E_VR_TWICE
        else match j with
             | JStr s => de_elem_members tl {| e_vr := Some (vr_of_name s); e_val := e_val st;
                                               e_inl := e_inl st; e_bulk := e_bulk st |}
             | _ => Err E_TYPE
             end
      else if str_eqb k k_Value then
        if is_some (e_inl st) then Err E_CONFLICT
        else if e_bulk st then Err E_CONFLICT
        else de_elem_members tl {| e_vr := e_vr st; e_val := Some (j, fun _ : unit => de_items_json j);
                                   e_inl := e_inl st; e_bulk := e_bulk st |}
      else if str_eqb k k_InlineBinary then
        if is_some (e_val st) then Err E_CONFLICT
        else if e_bulk st then Err E_CONFLICT
        else match j with
             | JStr s => de_elem_members tl {| e_vr := e_vr st; e_val := e_val st;
                                               e_inl := Some s; e_bulk := e_bulk st |}
             | _ => Err E_TYPE
             end
      else if str_eqb k k_BulkDataURI then
        if is_some (e_val st) then Err E_CONFLICT
        else if is_some (e_inl st) then Err E_CONFLICT
        else match j with
             | JStr _ => de_elem_members tl {| e_vr := e_vr st; e_val := e_val st;
                                               e_inl := e_inl st; e_bulk := true |}
             | _ => Err E_TYPE
             end
      else Err E_FIELD
  end
with de_items_json (j : json) : outcome items :=
  match j with
  | JArr l => de_items l
  | _ => Err E_TYPE
  end
with de_items (l : jlist) : outcome items :=
  match l with
  | JNil => Ok INil
  | JCons j tl => d <- de_ds_json j ;; r <- de_items tl ;; Ok (ICons d r)
  end.
End De.

(** [serde_json::Value] built from text: a repeated key keeps its first position and its last value. *)
Fixpoint mem_insert (k : str) (v : json) (m : jmembers) : jmembers :=
  match m with
  | MNil => MCons k v MNil
  | MCons k' v' tl => if str_eqb k k' then MCons k' v tl else MCons k' v' (mem_insert k v tl)
  end.
Fixpoint canon (j : json) : json :=
  match j with
  | JArr l => JArr (canon_list l)
  | JObj m => JObj (canon_members m MNil)
  | _ => j
  end
with canon_list (l : jlist) : jlist :=
  match l with JNil => JNil | JCons j tl => JCons (canon j) (canon_list tl) end
with canon_members (m : jmembers) (acc : jmembers) : jmembers :=
  match m with
  | MNil => acc
  | MCons k j tl => canon_members tl (mem_insert k (canon j) acc)
  end.
(* from_str streams the two outer levels; only "Value" members become trees *)
Fixpoint canon_elem_members (m : jmembers) : jmembers :=
  match m with
  | MNil => MNil
  | MCons k j tl => MCons k (if str_eqb k k_Value then canon j else j) (canon_elem_members tl)
  end.
Fixpoint canon_top_members (m : jmembers) : jmembers :=
  match m with
  | MNil => MNil
  | MCons k j tl =>
      MCons k (match j with JObj em => JObj (canon_elem_members em) | _ => j end) (canon_top_members tl)
  end.
Definition canon_top (j : json) : json :=
  match j with JObj m => JObj (canon_top_members m) | _ => j end.

(* dicom_json::from_value / dicom_json::from_str (on syntactically valid text) *)
Definition de (X : ext) (j : json) : outcome dset := de_ds_json X j.
Definition de_text (X : ext) (j : json) : outcome dset := de_ds_json X (canon_top j).

(** * Well-formed data sets and the documented normalisations *)
Definition f32_canon (b : N) : N := if f32_is_nan b then f32_nan else b.
Definition f64_canon (b : N) : N := if f64_is_nan b then f64_nan else b.
Definition pn_norm (s : str) : str := pn_display (pn_groups s).

(* text of a number read back into DS / IS *)
Definition int_num_text (X : ext) (k : ikind) (z : Z) : str :=
  match int_json k z with JInt z => fmt_f64 X (int_to_f64 z) | _ => dec_Z z end.
Definition f32_num_text (X : ext) (b : N) : str :=
  if f32_finite b then fmt_f64 X (f32_to_f64 b)
  else if f32_is_nan b then s_NaN else if f32_neg b then s_ninf else s_inf.
Definition f64_num_text (X : ext) (b : N) : str :=
  if f64_finite b then fmt_f64 X b
  else if f64_is_nan b then s_NaN else if f64_neg b then s_ninf else s_inf.

(* the kind of integers a numeric VR reads into *)
Definition vr_ikind (vr : vrT) : option ikind :=
  match vr with
  | V_SS => Some KI16 | V_US => Some KU16 | V_SL => Some KI32 | V_UL => Some KU32
  | V_SV => Some KI64 | V_UV => Some KU64 | _ => None
  end.

Definition wf_prim (vr : vrT) (p : prim) : bool :=
  match multiplicity p with
  | O => true
  | _ =>
      match vr_class vr with
      | CStr | CPN => true
      | CAT => match p with PTags l => forallb (fun t => t <? 2 ^ 32) l | _ => false end
      | CSeq => false
      | CBin => true
      | CNum =>
          match vr with
          | V_FL => match p with PF32 l => forallb (fun b => b <? 2 ^ 32) l | _ => false end
          | V_FD => match p with PF64 l => forallb (fun b => b <? 2 ^ 64) l | _ => false end
          | V_DS | V_IS =>
              match p with
              | PStrs _ | PStr _ | PInt _ _ | PF64 _ => true
              | PF32 l => forallb (fun b => b <? 2 ^ 32) l
              | _ => false
              end
          | _ =>
              match vr_ikind vr, p with
              | Some k, PInt _ l => forallb (in_kind k) l
              | _, _ => false
              end
          end
      end
  end.

Definition norm_prim (X : ext) (vr : vrT) (p : prim) : value :=
  match multiplicity p with
  | O => if vr_eqb vr V_SQ then VSeq INil else VPrim PEmpty
  | _ =>
      VPrim
      match vr_class vr with
      | CStr => PStrs (multi_str X p)
      | CPN => PStrs (map pn_norm (multi_str X p))
      | CAT => p
      | CSeq => p
      | CBin => match to_bytes p with [] => PEmpty | b => PInt KU8 (map Z.of_N b) end
      | CNum =>
          match vr with
          | V_FL => match p with PF32 l => PF32 (map f32_canon l) | _ => p end
          | V_FD => match p with PF64 l => PF64 (map f64_canon l) | _ => p end
          | V_DS | V_IS =>
              match p with
              | PStrs l => PStrs l
              | PStr s => PStrs [s]
              | PInt k l => PStrs (map (int_num_text X k) l)
              | PF32 l => PStrs (map (f32_num_text X) l)
              | PF64 l => PStrs (map (f64_num_text X) l)
              | _ => p
              end
          | _ =>
              match vr_ikind vr, p with
              | Some k, PInt _ l => PInt k l
              | _, _ => p
              end
          end
      end
  end.

(* strictly ascending tags below [2^32], starting above [lo] (None = no bound) *)
Definition tag_above (lo : option N) (t : N) : bool :=
  match lo with None => true | Some l => l <? t end.

Fixpoint wf_value (vr : vrT) (v : value) : bool :=
  match v with
  | VPrim p => wf_prim vr p
  | VSeq it => vr_eqb vr V_SQ && wf_items it
  | VPix => false
  end
with wf_items (it : items) : bool :=
  match it with INil => true | ICons d tl => wf_dset_from None d && wf_items tl end
with wf_dset_from (lo : option N) (d : dset) : bool :=
  match d with
  | DNil => true
  | DCons t vr v tl => tag_above lo t && (t <? 2 ^ 32) && wf_value vr v && wf_dset_from (Some t) tl
  end.
Definition wf_dset (d : dset) : bool := wf_dset_from None d.

Fixpoint norm_value (X : ext) (vr : vrT) (v : value) : value :=
  match v with
  | VPrim p => norm_prim X vr p
  | VSeq it => VSeq (norm_items X it)
  | VPix => VPix
  end
with norm_items (X : ext) (it : items) : items :=
  match it with INil => INil | ICons d tl => ICons (norm_dset X d) (norm_items X tl) end
with norm_dset (X : ext) (d : dset) : dset :=
  match d with
  | DNil => DNil
  | DCons t vr v tl => DCons t vr (norm_value X vr v) (norm_dset X tl)
  end.

(** Canonical data sets: the form the deserialiser produces. On these the
    normalisation is the identity, so the round trip returns the data set itself. *)
Fixpoint last_is (f : N -> bool) (s : str) : bool :=
  match s with [] => false | [c] => f c | _ :: r => last_is f r end.
Definition canon_text (s : str) : bool := negb (last_is is_pad s) && no_charb backslash s.
Definition canon_name (s : str) : bool := canon_text s && negb (last_is (N.eqb 61) s).
Definition canon_prim (vr : vrT) (p : prim) : bool :=
  match p with
  | PEmpty => negb (vr_eqb vr V_SQ)
  | _ =>
      match vr_class vr with
      | CStr => match p with PStrs l => negb (is_nil l) && forallb canon_text l | _ => false end
      | CPN => match p with PStrs l => negb (is_nil l) && forallb canon_name l | _ => false end
      | CAT => match p with PTags l => negb (is_nil l) | _ => false end
      | CBin => match p with
                | PInt KU8 l => negb (is_nil l) && forallb (in_kind KU8) l
                | _ => false end
      | CSeq => false
      | CNum =>
          match vr, p with
          | V_FL, PF32 l => negb (is_nil l) && forallb (fun b => negb (f32_is_nan b) || (b =? f32_nan)) l
          | V_FD, PF64 l => negb (is_nil l) && forallb (fun b => negb (f64_is_nan b) || (b =? f64_nan)) l
          | (V_DS | V_IS), PStrs l => negb (is_nil l)
          | _, PInt k l => negb (is_nil l) && match vr_ikind vr with Some kv => ikind_eqb k kv | None => false end
          | _, _ => false
          end
      end
  end.
Fixpoint canon_value (vr : vrT) (v : value) : bool :=
  match v with
  | VPrim p => canon_prim vr p
  | VSeq it => canon_items it
  | VPix => true
  end
with canon_items (it : items) : bool :=
  match it with INil => true | ICons d tl => canon_dset d && canon_items tl end
with canon_dset (d : dset) : bool :=
  match d with DNil => true | DCons _ vr v tl => canon_value vr v && canon_dset tl end.

(** Hypotheses of the Annex F conformance theorem (C24): well-formed, person names
    have at most three component groups (two '='), and a UL element held as
    64-bit integers only has values that the serialiser writes as numbers. *)
Definition pn_three_groups (s : str) : bool :=
  match pn_groups s with (_, _, Some p) => negb (existsb (N.eqb 61) p) | _ => true end.
Definition is_jint (j : json) : bool := match j with JInt _ => true | _ => false end.
Definition conf_prim (X : ext) (vr : vrT) (p : prim) : bool :=
  wf_prim vr p &&
  match multiplicity p with
  | O => true
  | _ =>
      match vr with
      | V_PN => forallb pn_three_groups (multi_str X p)
      | V_UL => match p with PInt k l => forallb (fun z => is_jint (int_json k z)) l | _ => true end
      | _ => true
      end
  end.
Fixpoint conf_value (X : ext) (vr : vrT) (v : value) : bool :=
  match v with
  | VPrim p => conf_prim X vr p
  | VSeq it => vr_eqb vr V_SQ && conf_items X it
  | VPix => false
  end
with conf_items (X : ext) (it : items) : bool :=
  match it with INil => true | ICons d tl => conf_dset_from X None d && conf_items X tl end
with conf_dset_from (X : ext) (lo : option N) (d : dset) : bool :=
  match d with
  | DNil => true
  | DCons t vr v tl => tag_above lo t && (t <? 2 ^ 32) && conf_value X vr v && conf_dset_from X (Some t) tl
  end.
Definition conf_dset (X : ext) (d : dset) : bool := conf_dset_from X None d.

(** * Correspondence cases *)
Definition outcome_eqb {A} (eqb : A -> A -> bool) (a b : outcome A) : bool :=
  match a, b with
  | Ok x, Ok y => eqb x y
  | Err e, Err f => e =? f
  | Panic _, Panic _ => true
  | _, _ => false
  end.

Fixpoint assoc_N {B} (d : B) (l : list (N * B)) (k : N) : B :=
  match l with [] => d | (k', v) :: r => if k =? k' then v else assoc_N d r k end.
Fixpoint assoc_str {B} (d : B) (l : list (str * B)) (k : str) : B :=
  match l with [] => d | (k', v) :: r => if str_eqb k k' then v else assoc_str d r k end.
(* the float text functions of a case, as observed on the implementation's std *)
Definition ext_of (t32 t64 : list (N * str)) (p32 p64 : list (str * option N)) : ext :=
  {| fmt_f32 := assoc_N [0] t32; fmt_f64 := assoc_N [0] t64;
     parse_f32 := assoc_str None p32; parse_f64 := assoc_str None p64 |}.

Inductive jcase :=
(* a data set, what to_value returned, what from_value of that returned, verdict of the harness' Annex F
   validator, whether the harness counts the data set as inside the hypotheses of C23_rt / of C24_conforms / as canonical (C23_rt_exact) *)
| CaseRT (X : ext) (d : dset) (out : outcome json) (back : outcome dset) (annexf : bool) (wf : bool) (conf : bool) (canon : bool)
(* a JSON document (printed to text by the harness) and what from_str returned *)
| CaseDe (X : ext) (j : json) (got : outcome dset).

Definition check_case (c : jcase) : bool :=
  match c with
  | CaseRT X d out back _ wf _ canon =>
      Bool.eqb (wf_dset d) wf && Bool.eqb (canon_dset d) canon &&
      outcome_eqb json_eqb (ser X d) out &&
      match out with
      | Ok j => outcome_eqb dset_eqb (de X j) back && outcome_eqb dset_eqb (de_text X j) back
      | _ => true
      end
  | CaseDe X j got => outcome_eqb dset_eqb (de_text X j) got
  end.
