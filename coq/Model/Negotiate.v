(** Model of the association acceptor's negotiation:
    ul/src/association/server.rs
      [ServerAssociationOptions::process_a_association_rq], [choose_ts],
      [choose_supported], [is_supported], [AcceptAny], [AcceptCalledAeTitle],
      the builder methods [with_abstract_syntax], [with_transfer_syntax],
      [max_pdu_length];
    ul/src/association/uid.rs [trim_uid];
    transfer-syntax-registry [TransferSyntaxRegistryImpl::get] (the trimming
    in front of the map lookup).

    Strings (UIDs, AE titles) are lists of code points.  The registry itself
    is a Section variable [reg : str -> option bool] (exact-key lookup:
    [Some unsupported_flag] for a registered UID); the correspondence check
    instantiates it with the table regenerated from the code
    (Gen/GenTsSupport.v, see Model/NegotiateCheck.v).  No proofs here. *)
From DicomV Require Export Base.Str.

(** * Constants of ul/src/pdu/mod.rs *)
Definition PDU_HEADER_SIZE : N := 6.
Definition DEFAULT_MAX_PDU : N := 32762.          (* 32_768 - 6 *)
Definition MINIMUM_PDU_SIZE : N := 1018.          (* 1_024 - 6 *)
Definition MAXIMUM_PDU_SIZE : N := 4294967288.    (* (u32::MAX & !1) - 6 *)

(** "1.2.840.10008.1.2" (Implicit VR Little Endian), the filler of rejected contexts *)
Definition implicit_vr_le : str := [49;46;50;46;56;52;48;46;49;48;48;48;56;46;49;46;50].

(** * uid.rs *)
Fixpoint drop_while (p : N -> bool) (s : str) : str :=
  match s with
  | c :: s' => if p c then drop_while p s' else s
  | [] => []
  end.
(** [str::trim_end_matches(pred)] *)
Definition trim_end_matches (p : N -> bool) (s : str) : str := rev (drop_while p (rev s)).
Definition ws_or_nul (c : N) : bool := is_ws c || (c =? 0).
Definition ends_with_nul (s : str) : bool :=
  match rev s with c :: _ => c =? 0 | [] => false end.
(** [trim_uid]: only a UID that ENDS with NUL is trimmed (of trailing white space and NULs). *)
Definition trim_uid (s : str) : str :=
  if ends_with_nul s then trim_end_matches ws_or_nul s else s.

Definition mem (x : str) (l : list str) : bool := existsb (str_eqb x) l.

(** * Presentation contexts (ul/src/pdu/mod.rs) *)
Record pc_proposed := { pp_id : N; pp_abs : str; pp_ts : list str }.
(** result reasons: 0 acceptance, 1 user rejection, 2 no reason,
    3 abstract syntax not supported, 4 transfer syntaxes not supported *)
Definition R_ACCEPT : N := 0.
Definition R_ABSTRACT : N := 3.
Definition R_TS : N := 4.
Record pc_negotiated := { pn_id : N; pn_reason : N; pn_ts : str; pn_abs : str }.
Record pc_result := { pr_id : N; pr_reason : N; pr_ts : str }.

(** User variables: only Max Length matters to the acceptor with the default
    [Negotiation]; every other item is [UvOther] (implementation class/version,
    user identity, extended negotiation and role selection, which
    [DefaultNegotiation] drops). *)
Inductive uvar := UvMaxLength (n : N) | UvOther.

Record assoc_rq := {
  rq_proto : N; rq_calling : str; rq_called : str; rq_app_ctx : str;
  rq_pcs : list pc_proposed; rq_uvars : list uvar }.

(** Incoming PDU kinds as far as [process_a_association_rq] distinguishes them. *)
Inductive in_pdu :=
| InRQ (rq : assoc_rq)
| InReleaseRQ
| InOtherKnown      (* A-ASSOCIATE-AC/RJ, P-DATA-TF, A-RELEASE-RP, A-ABORT *)
| InUnknown.

(** Access control policies shipped with the crate. *)
Inductive access := AcceptAny | AcceptCalledAeTitle.

Record server_cfg := {
  sc_access : access; sc_ae_title : str; sc_app_ctx : str;
  sc_abs : list str;        (* as stored: each already passed through trim_uid *)
  sc_ts : list str;         (* idem *)
  sc_proto : N; sc_max_pdu : N; sc_promiscuous : bool }.

(** Builder methods. *)
Definition with_abstract_syntax (c : server_cfg) (u : str) : server_cfg :=
  {| sc_access := sc_access c; sc_ae_title := sc_ae_title c; sc_app_ctx := sc_app_ctx c;
     sc_abs := sc_abs c ++ [trim_uid u]; sc_ts := sc_ts c; sc_proto := sc_proto c;
     sc_max_pdu := sc_max_pdu c; sc_promiscuous := sc_promiscuous c |}.
Definition with_transfer_syntax (c : server_cfg) (u : str) : server_cfg :=
  {| sc_access := sc_access c; sc_ae_title := sc_ae_title c; sc_app_ctx := sc_app_ctx c;
     sc_abs := sc_abs c; sc_ts := sc_ts c ++ [trim_uid u]; sc_proto := sc_proto c;
     sc_max_pdu := sc_max_pdu c; sc_promiscuous := sc_promiscuous c |}.
(** [max_pdu_length(value)]: silently truncated to MAXIMUM_PDU_SIZE *)
Definition set_max_pdu (v : N) : N := N.min v MAXIMUM_PDU_SIZE.

(** RJ codes (PS3.8 Table 9-21): result 1 = rejected-permanent;
    source 1 = service user, 2 = service provider (ACSE);
    user reasons: 1 none, 2 application context name not supported,
    3 calling AE title not recognized, 7 called AE title not recognized;
    ACSE reasons: 1 none, 2 protocol version not supported. *)
Definition SRC_USER : N := 1.
Definition SRC_ACSE : N := 2.
Definition RSN_NONE : N := 1.
Definition RSN_APP_CTX : N := 2.
Definition RSN_CALLED_AE : N := 7.
Definition RSN_PROTO : N := 2.

(** Error classes of association::Error as far as this function produces them. *)
Definition E_REJECTED : N := 1.
Definition E_ABORTED : N := 2.
Definition E_UNEXPECTED : N := 3.
Definition E_UNKNOWN : N := 4.

(** What the acceptor does with the first PDU. *)
Inductive rq_outcome :=
| OAccept (pcs : list pc_negotiated)        (* ServerAssociation::presentation_contexts *)
          (peer_max : N)                    (* requestor_max_pdu_length *)
          (ac_pcs : list pc_result)         (* results in the A-ASSOCIATE-AC *)
          (ac_max : N)                      (* Max Length item of the AC *)
          (ac_app_ctx calling called : str)
| OReject (source reason : N)               (* A-ASSOCIATE-RJ (permanent), Err Rejected *)
| OReleaseRP                                (* answers A-RELEASE-RP, Err Aborted *)
| OAbort (provider_reason : N) (err : N).   (* A-ABORT: 2 unexpected PDU / 1 unrecognized PDU *)

Definition check_access (a : access) (this_ae called : str) : option N :=
  match a with
  | AcceptAny => None
  | AcceptCalledAeTitle => if str_eqb this_ae called then None else Some RSN_CALLED_AE
  end.

(** the requestor's maximum PDU length: the LAST Max Length item wins *)
Definition norm_max (len : N) : N := if len =? 0 then MAXIMUM_PDU_SIZE else N.min len MAXIMUM_PDU_SIZE.
Definition requestor_max (uv : list uvar) : N :=
  fold_left (fun acc v => match v with UvMaxLength len => norm_max len | UvOther => acc end)
            uv DEFAULT_MAX_PDU.

Section Registry.
  (** exact-key registry lookup: Some true = registered but unsupported
      (Codec::Dataset(None)), Some false = registered and usable *)
  Variable reg : str -> option bool.

  (** [is_supported]: the registry trims trailing white space and NULs before the lookup *)
  Definition is_supported (ts : str) : bool :=
    match reg (trim_end_matches ws_or_nul ts) with
    | Some unsupported => negb unsupported
    | None => false
    end.

  (** the predicate [choose_ts] searches with; note that the first branch of the
      closure in the Rust code ([transfer_syntax_uids.is_empty()] inside [find])
      is dead: the empty case returned [choose_supported] before. *)
  Definition ts_ok (cfg_ts : list str) (ts : str) : bool :=
    match cfg_ts with
    | [] => is_supported ts
    | _ => mem (trim_uid ts) cfg_ts && is_supported ts
    end.
  Definition choose_ts (cfg_ts : list str) (pts : list str) : option str :=
    find (ts_ok cfg_ts) pts.

  Definition abs_ok (c : server_cfg) (a : str) : bool := mem a (sc_abs c) || sc_promiscuous c.

  Definition negotiate_pc (c : server_cfg) (pc : pc_proposed) : pc_negotiated :=
    let a := trim_uid (pp_abs pc) in
    if negb (abs_ok c a) then
      {| pn_id := pp_id pc; pn_reason := R_ABSTRACT; pn_ts := implicit_vr_le; pn_abs := a |}
    else match choose_ts (sc_ts c) (pp_ts pc) with
         | Some ts => {| pn_id := pp_id pc; pn_reason := R_ACCEPT; pn_ts := ts; pn_abs := a |}
         | None => {| pn_id := pp_id pc; pn_reason := R_TS; pn_ts := implicit_vr_le; pn_abs := a |}
         end.

  Definition to_result (p : pc_negotiated) : pc_result :=
    {| pr_id := pn_id p; pr_reason := pn_reason p; pr_ts := pn_ts p |}.

  Definition process_rq (c : server_cfg) (msg : in_pdu) : rq_outcome :=
    match msg with
    | InRQ rq =>
        if negb (rq_proto rq =? sc_proto c) then OReject SRC_ACSE RSN_PROTO
        else if negb (str_eqb (rq_app_ctx rq) (sc_app_ctx c)) then OReject SRC_USER RSN_APP_CTX
        else match check_access (sc_access c) (sc_ae_title c) (rq_called rq) with
             | Some reason => OReject SRC_USER reason
             | None =>
                 let pcs := map (negotiate_pc c) (rq_pcs rq) in
                 OAccept pcs (requestor_max (rq_uvars rq)) (map to_result pcs) (sc_max_pdu c)
                         (rq_app_ctx rq) (rq_calling rq) (rq_called rq)
             end
    | InReleaseRQ => OReleaseRP
    | InOtherKnown => OAbort 2 E_UNEXPECTED
    | InUnknown => OAbort 1 E_UNKNOWN
    end.

  (** [establish] refuses to start without abstract syntaxes unless promiscuous. *)
  Definition can_establish (c : server_cfg) : bool :=
    negb (match sc_abs c with [] => true | _ => false end) || sc_promiscuous c.
End Registry.

(** * Equality tests for the correspondence check *)
Definition pcn_eqb (a b : pc_negotiated) : bool :=
  (pn_id a =? pn_id b) && (pn_reason a =? pn_reason b) && str_eqb (pn_ts a) (pn_ts b)
  && str_eqb (pn_abs a) (pn_abs b).
Definition pcr_eqb (a b : pc_result) : bool :=
  (pr_id a =? pr_id b) && (pr_reason a =? pr_reason b) && str_eqb (pr_ts a) (pr_ts b).
Definition outcome_eqb (a b : rq_outcome) : bool :=
  match a, b with
  | OAccept p1 m1 r1 am1 x1 y1 z1, OAccept p2 m2 r2 am2 x2 y2 z2 =>
      list_eqb pcn_eqb p1 p2 && (m1 =? m2) && list_eqb pcr_eqb r1 r2 && (am1 =? am2)
      && str_eqb x1 x2 && str_eqb y1 y2 && str_eqb z1 z2
  | OReject s1 r1, OReject s2 r2 => (s1 =? s2) && (r1 =? r2)
  | OReleaseRP, OReleaseRP => true
  | OAbort r1 e1, OAbort r2 e2 => (r1 =? r2) && (e1 =? e2)
  | _, _ => false
  end.

(** * Property-side definitions (declarative reading of the rules) *)
Section Rules.
  Variable reg : str -> option bool.
  Variable c : server_cfg.

  (** the abstract syntax is configured, or the acceptor is promiscuous *)
  Definition abs_acceptable (a : str) : Prop :=
    In (trim_uid a) (sc_abs c) \/ sc_promiscuous c = true.
  (** the transfer syntax is configured (any when none is configured) and supported by the registry *)
  Definition ts_acceptable (ts : str) : Prop :=
    (sc_ts c = [] \/ In (trim_uid ts) (sc_ts c)) /\ is_supported reg ts = true.
  (** [x] is the first element of [l] satisfying [P] *)
  Definition first_such (P : str -> Prop) (l : list str) (x : str) : Prop :=
    exists l1 l2, l = l1 ++ x :: l2 /\ P x /\ forall y, In y l1 -> ~ P y.

  (** the complete rule for one proposed context and its result *)
  Definition ctx_rule (pc : pc_proposed) (r : pc_negotiated) : Prop :=
    pn_id r = pp_id pc /\ pn_abs r = trim_uid (pp_abs pc) /\
    ( (abs_acceptable (pp_abs pc) /\ first_such ts_acceptable (pp_ts pc) (pn_ts r) /\ pn_reason r = R_ACCEPT)
    \/ (~ abs_acceptable (pp_abs pc) /\ pn_reason r = R_ABSTRACT /\ pn_ts r = implicit_vr_le)
    \/ (abs_acceptable (pp_abs pc) /\ (forall ts, In ts (pp_ts pc) -> ~ ts_acceptable ts)
        /\ pn_reason r = R_TS /\ pn_ts r = implicit_vr_le) ).
End Rules.

(** the last Max Length item of the user information, if any *)
Fixpoint last_max (uv : list uvar) : option N :=
  match uv with
  | [] => None
  | v :: uv' => match last_max uv' with
                | Some n => Some n
                | None => match v with UvMaxLength n => Some n | UvOther => None end
                end
  end.
