(** Model of core/src/header.rs [VR]: the 34 value representations, their
    two-letter codes ([VR::to_string]/[VR::to_bytes]) and [VR::from_binary]
    (= [from_utf8] followed by the [FromStr] match: only the 34 exact
    upper-case ASCII pairs are recognised). *)
From DicomV Require Export Base.Prelude.

Inductive vr : Type :=
| AE | AS | AT | CS | DA | DS | DT | FL | FD | IS | LO | LT | OB | OD | OF | OL | OV | OW
| PN | SH | SL | SQ | SS | ST | SV | TM | UC | UI | UL | UN | UR | US | UT | UV.

(* enum order of the Rust type; the harness numbers VRs by this order *)
Definition all_vrs : list vr :=
  [AE; AS; AT; CS; DA; DS; DT; FL; FD; IS; LO; LT; OB; OD; OF; OL; OV; OW;
   PN; SH; SL; SQ; SS; ST; SV; TM; UC; UI; UL; UN; UR; US; UT; UV].

Definition vr_index (v : vr) : N :=
  match v with
  | AE => 0 | AS => 1 | AT => 2 | CS => 3 | DA => 4 | DS => 5 | DT => 6 | FL => 7 | FD => 8
  | IS => 9 | LO => 10 | LT => 11 | OB => 12 | OD => 13 | OF => 14 | OL => 15 | OV => 16
  | OW => 17 | PN => 18 | SH => 19 | SL => 20 | SQ => 21 | SS => 22 | ST => 23 | SV => 24
  | TM => 25 | UC => 26 | UI => 27 | UL => 28 | UN => 29 | UR => 30 | US => 31 | UT => 32
  | UV => 33
  end.

(** Encoding kind of a data-set transfer syntax (vocabulary shared by model and spec):
    Implicit VR Little Endian, Explicit VR Little Endian, Explicit VR Big Endian. *)
Inductive codec : Type := ILE | ELE | EBE.
Definition codec_index (c : codec) : N := match c with ILE => 0 | ELE => 1 | EBE => 2 end.
Definition codec_of_index (i : N) : codec := match i with 0 => ILE | 1 => ELE | _ => EBE end.

Definition vr_eqb (a b : vr) : bool := N.eqb (vr_index a) (vr_index b).

Definition vr_of_index (i : N) : option vr := nth_error all_vrs (N.to_nat i).
(* total version used when printing cases: out-of-range indices map to UN *)
Definition vr_of_index_d (i : N) : vr := match vr_of_index i with Some v => v | None => UN end.

(** [VR::to_string] as two ASCII bytes ([VR::to_bytes]). *)
Definition vr_chars (v : vr) : N * N :=
  match v with
  | AE => (65, 69) | AS => (65, 83) | AT => (65, 84) | CS => (67, 83) | DA => (68, 65)
  | DS => (68, 83) | DT => (68, 84) | FL => (70, 76) | FD => (70, 68) | IS => (73, 83)
  | LO => (76, 79) | LT => (76, 84) | OB => (79, 66) | OD => (79, 68) | OF => (79, 70)
  | OL => (79, 76) | OV => (79, 86) | OW => (79, 87) | PN => (80, 78) | SH => (83, 72)
  | SL => (83, 76) | SQ => (83, 81) | SS => (83, 83) | ST => (83, 84) | SV => (83, 86)
  | TM => (84, 77) | UC => (85, 67) | UI => (85, 73) | UL => (85, 76) | UN => (85, 78)
  | UR => (85, 82) | US => (85, 83) | UT => (85, 84) | UV => (85, 86)
  end.

Definition vr_bytes (v : vr) : bytes := [fst (vr_chars v); snd (vr_chars v)].

(** [VR::from_binary [a; b]]: the [FromStr] match arms, in source order. *)
Definition vr_of_bytes (a b : N) : option vr :=
  find (fun v => N.eqb (fst (vr_chars v)) a && N.eqb (snd (vr_chars v)) b) all_vrs.

(* a two-byte code as one number, first byte most significant (table key) *)
Definition code_of (a b : N) : N := 256 * a + b.
Definition vr_of_code (c : N) : option vr := vr_of_bytes (c / 256) (c mod 256).

(** Run-length encoded tables over [0, n): [(lo, hi, r)] means every key in
    [lo, hi] (inclusive) maps to [r]. *)
Section Intervals.
  Context {R : Type}.
  Fixpoint iv_lookup (tbl : list (N * N * R)) (k : N) : option R :=
    match tbl with
    | [] => None
    | (lo, hi, r) :: t => if (lo <=? k) && (k <=? hi) then Some r else iv_lookup t k
    end.
  (* the intervals are sorted, adjacent, non-empty, and cover exactly [from, n) *)
  Fixpoint iv_tiles (tbl : list (N * N * R)) (from n : N) : bool :=
    match tbl with
    | [] => N.eqb from n
    | (lo, hi, _) :: t => N.eqb lo from && (lo <=? hi) && (hi <? n) && iv_tiles t (hi + 1) n
    end.
End Intervals.

(* all keys of [0, n) as a list (n small: 65536) *)
Fixpoint n_range_from (k : nat) (from : N) : list N :=
  match k with O => [] | S k' => from :: n_range_from k' (N.succ from) end.
Definition n_range (n : N) : list N := n_range_from (N.to_nat n) 0.
