(** Model of ul/src/association/pdata.rs (after fix 340c6a1):
    [PDataWriter] (write, dispatch_pdu, finish_impl, setup_pdata_header, Drop),
    [AsyncPDataWriter] (poll_write with its WriteState, finish_impl, Drop),
    std's and tokio's [write_all] loops, and [PDataReader] (read / poll_read,
    with the P-DATA part of pdu::read_pdu), all over SCRIPTED transports:
    every call to the transport pops one event of the script; an exhausted
    script accepts everything (writers) / supplies [dflt] bytes (readers).

    Only poll RESULTS are modelled: a [Pend] event is a transport call that
    returned Poll::Pending (async) or ErrorKind::Interrupted (blocking); the
    task is assumed to be polled again (tokio wakers/scheduler are outside).
    No proofs here. *)
From DicomV Require Export Base.Prelude Base.Endian.

(* ------------------------------------------------------------------ basics *)
Definition len {A} (l : list A) : N := N.of_nat (length l).
Definition take {A} (n : N) (l : list A) : list A := firstn (N.to_nat n) l.
Definition drop {A} (n : N) (l : list A) : list A := skipn (N.to_nat n) l.

(* error classes (harness: transport.rs) *)
Definition E_WRITE_ZERO : N := 1.
Definition E_OTHER : N := 2.
Definition E_BROKEN_PIPE : N := 3.
Definition E_UNEXPECTED_EOF : N := 4.
Definition E_INJECTED : N := 5.
Definition E_FUEL : N := 98.        (* model ran out of fuel: never produced for the fuel used (proved) *)
Definition E_UNMODELLED : N := 99.  (* PDU types whose parsing is not modelled here *)
Definition E_CANCELLED : N := 100.  (* harness dropped the write_all future while it was pending *)

(* ------------------------------------------------------------------ transport *)
Inductive ev := Rdy (n : N) | Pend | Fail.

Record tr := mk_tr { sched : list ev; wire : bytes; used : N }.

(** std::io::Write::write_all / tokio's WriteAll future over the scripted
    transport: a zero-length write is WriteZero, Interrupted/Pending is
    retried with the same remaining bytes, an exhausted script accepts all. *)
Fixpoint wall (s : list ev) (w : bytes) (u : N) (data : bytes) : outcome unit * tr :=
  match data with
  | [] => (Ok tt, mk_tr s w u)
  | _ =>
    match s with
    | [] => (Ok tt, mk_tr [] (w ++ data) u)
    | Rdy n :: s' =>
        let k := N.min n (len data) in
        if k =? 0 then (Err E_WRITE_ZERO, mk_tr s' w (u + 1))
        else wall s' (w ++ take k data) (u + 1) (drop k data)
    | Pend :: s' => wall s' w (u + 1) data
    | Fail :: s' => (Err E_INJECTED, mk_tr s' w (u + 1))
    end
  end.
Definition write_all_tr (t : tr) (data : bytes) : outcome unit * tr :=
  wall (sched t) (wire t) (used t) data.

(* ------------------------------------------------------------------ header *)
Definition HDR : N := 12.   (* PDU header (6) + PDV header (6) *)

Definition initial_buffer (ctx : N) : bytes := [4; 0; 255; 255; 255; 255; 255; 255; 255; 255; ctx; 255].

(** setup_pdata_header: overwrite bytes 2..9 and 11 (u32 arithmetic). *)
Definition setup_header (buffer : bytes) (is_last : bool) : bytes :=
  let dl := (len buffer - HDR) mod 2 ^ 32 in
  firstn 2 buffer ++ be32 ((dl + 6) mod 2 ^ 32) ++ be32 ((dl + 2) mod 2 ^ 32)
    ++ [nth 10 buffer 0] ++ [if is_last then 2 else 0] ++ skipn 12 buffer.

Definition total (max : N) : N := max + 6.

(* ------------------------------------------------------------------ sync writer *)
(** dispatch_pdu: on success the buffer is truncated to the header. *)
Definition dispatch (buffer : bytes) (t : tr) : outcome unit * bytes * tr :=
  let b := setup_header buffer false in
  match write_all_tr t b with
  | (Ok _, t') => (Ok tt, firstn 12 b, t')
  | (Err e, t') => (Err e, b, t')
  | (Panic p, t') => (Panic p, b, t')
  end.

(** the else-branch of [write]: fill the buffer and send it *)
Definition write_fill (max : N) (buffer : bytes) (t : tr) (buf : bytes) : outcome N * bytes * tr :=
  if total max <? len buffer then (Panic 0, buffer, t)          (* usize underflow (max < 6) *)
  else
    let n := total max - len buffer in
    match dispatch (buffer ++ take n buf) t with
    | (Ok _, b', t') => (Ok n, b', t')
    | (Err e, b', t') => (Err e, b', t')
    | (Panic p, b', t') => (Panic p, b', t')
    end.

(** <PDataWriter as Write>::write. The recursive call after sending an
    already-full buffer is unfolded: the buffer then holds only the header,
    so the full-buffer test cannot succeed a second time. *)
Definition pw_write (max : N) (buffer : bytes) (t : tr) (buf : bytes) : outcome N * bytes * tr :=
  if len buffer + len buf <=? total max then (Ok (len buf), buffer ++ buf, t)
  else if (len buffer =? total max) && (HDR <? total max) then
    match dispatch buffer t with
    | (Ok _, b', t') =>
        if len b' + len buf <=? total max then (Ok (len buf), b' ++ buf, t')
        else write_fill max b' t' buf
    | (Err e, b', t') => (Err e, b', t')
    | (Panic p, b', t') => (Panic p, b', t')
    end
  else write_fill max buffer t buf.

(** std write_all over the P-DATA writer *)
Fixpoint pw_write_all (fuel : nat) (max : N) (buffer : bytes) (t : tr) (data : bytes) : outcome unit * bytes * tr :=
  match data with
  | [] => (Ok tt, buffer, t)
  | _ =>
    match fuel with
    | O => (Err E_FUEL, buffer, t)
    | S f =>
      match pw_write max buffer t data with
      | (Ok n, b', t') => if n =? 0 then (Err E_WRITE_ZERO, b', t') else pw_write_all f max b' t' (drop n data)
      | (Err e, b', t') => (Err e, b', t')
      | (Panic p, b', t') => (Panic p, b', t')
      end
    end
  end.

(** finish_impl (sync, and the Ready-state part of the async one) *)
Definition finish_impl (buffer : bytes) (t : tr) : outcome unit * bytes * tr :=
  match buffer with
  | [] => (Ok tt, [], t)
  | _ =>
    let b := setup_header buffer true in
    match write_all_tr t b with
    | (Ok _, t') => (Ok tt, [], t')
    | (Err e, t') => (Err e, b, t')
    | (Panic p, t') => (Panic p, b, t')
    end
  end.

(* ------------------------------------------------------------------ async writer *)
Inductive wstate := WReady | WWriting (pos consumed : N).
Inductive poll (A : Type) := PReady (a : A) | PPending.
Arguments PReady {A} a. Arguments PPending {A}.

Inductive dres := DDone | DPend (rest : bytes) | DErr (e : N).

(** the inner loop of poll_write: push [rest] (= buffer[written..]) to the transport *)
Fixpoint drain (s : list ev) (w : bytes) (u : N) (rest : bytes) : dres * tr :=
  match s with
  | [] => if len rest =? 0 then (DErr E_WRITE_ZERO, mk_tr [] w u) else (DDone, mk_tr [] (w ++ rest) u)
  | Rdy n :: s' =>
      let k := N.min n (len rest) in
      if k =? 0 then (DErr E_WRITE_ZERO, mk_tr s' w (u + 1))
      else if k =? len rest then (DDone, mk_tr s' (w ++ rest) (u + 1))
      else drain s' (w ++ take k rest) (u + 1) (drop k rest)
  | Pend :: s' => (DPend rest, mk_tr s' w (u + 1))
  | Fail :: s' => (DErr E_INJECTED, mk_tr s' w (u + 1))
  end.
Definition drain_tr (t : tr) (rest : bytes) := drain (sched t) (wire t) (used t) rest.

Definition astate := (bytes * wstate * tr)%type.

(** poll_write in state Ready; [d] bounds the depth of the recursive call made
    after an already-full buffer has been sent (one level is enough). *)
Fixpoint apoll_ready (d : nat) (max : N) (buffer : bytes) (t : tr) (buf : bytes) : poll (outcome N) * astate :=
  if len buffer + len buf <=? total max then (PReady (Ok (len buf)), (buffer ++ buf, WReady, t))
  else if total max <? len buffer then (PReady (Panic 0), (buffer, WReady, t))
  else
    let n := total max - len buffer in
    let b := setup_header (buffer ++ take n buf) false in
    match drain_tr t b with
    | (DDone, t') =>
        if (n =? 0) && (HDR <? total max) then
          match d with
          | O => (PReady (Err E_FUEL), (firstn 12 b, WReady, t'))
          | S d' => apoll_ready d' max (firstn 12 b) t' buf
          end
        else (PReady (Ok n), (firstn 12 b, WReady, t'))
    | (DPend rest, t') => (PPending, (b, WWriting (len b - len rest) n, t'))
    | (DErr e, t') => (PReady (Err e), (b, WReady, t'))
    end.

Definition apoll_write (max : N) (st : astate) (buf : bytes) : poll (outcome N) * astate :=
  let '(buffer, ws, t) := st in
  match ws with
  | WReady => apoll_ready 1 max buffer t buf
  | WWriting pos consumed =>
      if len buffer <? pos then (PReady (Panic 0), st)
      else
      match drain_tr t (drop pos buffer) with
      | (DDone, t') =>
          if (consumed =? 0) && (HDR <? total max) then apoll_ready 1 max (firstn 12 buffer) t' buf
          else (PReady (Ok consumed), (firstn 12 buffer, WReady, t'))
      | (DPend rest, t') => (PPending, (buffer, WWriting (len buffer - len rest) consumed, t'))
      | (DErr e, t') => (PReady (Err e), (buffer, WWriting pos consumed, t'))
      end
  end.

(** one poll of tokio's WriteAll future over the async P-DATA writer *)
Fixpoint wa_poll (fuel : nat) (max : N) (st : astate) (data : bytes) : poll (outcome unit) * astate * bytes :=
  match data with
  | [] => (PReady (Ok tt), st, data)
  | _ =>
    match fuel with
    | O => (PReady (Err E_FUEL), st, data)
    | S f =>
      match apoll_write max st data with
      | (PPending, st') => (PPending, st', data)
      | (PReady (Ok n), st') =>
          if len data <? n then (PReady (Panic 1), st', data)      (* split_at(n) past the end *)
          else if n =? 0 then (PReady (Err E_WRITE_ZERO), st', data)
          else wa_poll f max st' (drop n data)
      | (PReady (Err e), st') => (PReady (Err e), st', data)
      | (PReady (Panic p), st') => (PReady (Panic p), st', data)
      end
    end
  end.

(** [.await]: poll again after every Pending, at most [polls] times; with
    [cancel = true] the future is dropped when the polls are used up. *)
Fixpoint wa_await (polls : nat) (cancel : bool) (max : N) (st : astate) (data : bytes) : outcome unit * astate :=
  match polls with
  | O => (Err (if cancel then E_CANCELLED else E_FUEL), st)
  | S p =>
    match wa_poll (S (length data)) max st data with
    | (PReady r, st', _) => (r, st')
    | (PPending, st', data') => wa_await p cancel max st' data'
    end
  end.

Definition afinish_impl (st : astate) : outcome unit * astate :=
  let '(buffer, ws, t) := st in
  match ws with
  | WWriting _ _ => (Err E_BROKEN_PIPE, st)
  | WReady => let '(r, b', t') := finish_impl buffer t in (r, (b', WReady, t'))
  end.

(* ------------------------------------------------------------------ whole runs *)
Inductive op := OpWrite (chunk : bytes) | OpCancel (chunk : bytes) (polls : N).

Definition is_okb {A} (o : outcome A) : bool := match o with Ok _ => true | _ => false end.

(** sync: write_all per chunk until the first failure, then finish() (if asked
    and nothing failed), then Drop (finish_impl again, result ignored). *)
Fixpoint sync_ops (max : N) (buffer : bytes) (t : tr) (ops : list op) : list (outcome unit) * bool * bytes * tr :=
  match ops with
  | [] => ([], true, buffer, t)
  | o :: ops' =>
      let chunk := match o with OpWrite c => c | OpCancel c _ => c end in
      let '(r, b', t') := pw_write_all (length chunk) max buffer t chunk in
      if is_okb r then let '(rs, ok, b'', t'') := sync_ops max b' t' ops' in (r :: rs, ok, b'', t'')
      else ([r], false, b', t')
  end.

Definition run_sync (ctx max : N) (ops : list op) (s : list ev) (fin : bool) : list (outcome unit) * bytes * N :=
  let '(rs, ok, b, t) := sync_ops max (initial_buffer ctx) (mk_tr s [] 0) ops in
  let '(rs2, b2, t2) :=
    if ok && fin then let '(r, b', t') := finish_impl b t in ([r], b', t') else ([], b, t) in
  let '(_, _, t3) := finish_impl b2 t2 in
  (rs ++ rs2, wire t3, used t3).

Fixpoint async_ops (max : N) (st : astate) (ops : list op) : list (outcome unit) * bool * astate :=
  match ops with
  | [] => ([], true, st)
  | o :: ops' =>
      let '(r, st') :=
        match o with
        | OpWrite c => wa_await (S (length (sched (snd st)))) false max st c
        | OpCancel c k => wa_await (N.to_nat k) true max st c
        end in
      if is_okb r || (match o, r with OpCancel _ _, Err e => e =? E_CANCELLED | _, _ => false end)
      then let '(rs, ok, st'') := async_ops max st' ops' in (r :: rs, ok, st'')
      else ([r], false, st')
  end.

Definition run_async (ctx max : N) (ops : list op) (s : list ev) (fin : bool) : list (outcome unit) * bytes * N :=
  let '(rs, ok, st) := async_ops max (initial_buffer ctx, WReady, mk_tr s [] 0) ops in
  let '(rs2, st2) :=
    if ok && fin then let '(r, st') := afinish_impl st in ([r], st') else ([], st) in
  let '(_, st3) := afinish_impl st2 in
  (rs ++ rs2, wire (snd st3), used (snd st3)).

(* ------------------------------------------------------------------ reader *)
Definition MINIMUM_PDU_SIZE : N := 1018.
Definition MAXIMUM_PDU_SIZE : N := 4294967288.

(** Presentation-data-value items of a P-DATA body: concatenated data and the
    last flag of the final item (None when there is no item). *)
Fixpoint parse_pdvs (fuel : nat) (body : bytes) (acc : bytes) (last : option bool) : option (bytes * option bool) :=
  match body with
  | [] => Some (acc, last)
  | _ =>
    match fuel with
    | O => None
    | S f =>
      if len body <? 6 then None
      else
        let il := be_val (firstn 4 body) in
        if il <? 2 then None
        else
          let hdr := nth 5 body 0 in
          let rest := skipn 6 body in
          if len rest <? il - 2 then None
          else parse_pdvs f (drop (il - 2) rest) (acc ++ take (il - 2) rest) (Some (N.testbit hdr 1))
    end
  end.

Inductive rp :=
| RPNone                                            (* incomplete *)
| RPErr                                             (* read_pdu error *)
| RPData (data : bytes) (last : option bool) (consumed : N)
| RPOther (consumed : N)                            (* a complete PDU that is not P-DATA *)
| RPUnmodelled.

(** pdu::read_pdu(buf, max, strict = false), as far as PDataReader distinguishes results *)
Definition read_pdu (max : N) (rb : bytes) : rp :=
  if (max <? MINIMUM_PDU_SIZE) || (MAXIMUM_PDU_SIZE <? max) then RPErr
  else if len rb <? 6 then RPNone
  else
    let ty := nth 0 rb 0 in
    let plen := be_val (firstn 4 (skipn 2 rb)) in
    if len rb - 6 <? plen then RPNone
    else
      let body := take plen (skipn 6 rb) in
      if ty =? 4 then
        match parse_pdvs (length body) body [] None with
        | Some (d, l) => RPData d l (6 + plen)
        | None => RPErr
        end
      else if (ty =? 5) || (ty =? 6) then (if plen <? 4 then RPErr else RPOther (6 + plen))
      else if (ty =? 1) || (ty =? 2) || (ty =? 3) || (ty =? 7) then RPUnmodelled
      else RPOther (6 + plen).

(** the source: the bytes still to come and the script *)
Record src := mk_src { s_sched : list ev; s_data : bytes; s_used : N; s_pos : N }.
Definition BUF_CAP : N := 8192.   (* capacity of the (tokio/std) BufReader created per call *)

Inductive rres := RBytes (b : bytes) | RPend | RFail.
Definition src_read (dflt : N) (s : src) : rres * src :=
  let supply n sched' used' :=
    let k := N.min (N.min n BUF_CAP) (len (s_data s)) in
    (RBytes (take k (s_data s)), mk_src sched' (drop k (s_data s)) used' (s_pos s + k)) in
  match s_sched s with
  | [] => supply dflt [] (s_used s)
  | Rdy n :: s' => supply n s' (s_used s + 1)
  | Pend :: s' => (RPend, mk_src s' (s_data s) (s_used s + 1) (s_pos s))
  | Fail :: s' => (RFail, mk_src s' (s_data s) (s_used s + 1) (s_pos s))
  end.

Record rstate := mk_rs { r_buf : bytes; r_last : bool; r_rb : bytes; r_src : src }.

Inductive fres := FMsg (data : bytes) (last : option bool) | FPend | FErr (e : N).

(** the loop of PDataReader::read / poll_read that obtains the next PDU *)
Fixpoint fill (fuel : nat) (max dflt : N) (rb : bytes) (s : src) : fres * bytes * src :=
  match read_pdu max rb with
  | RPData d l n => (FMsg d l, drop n rb, s)
  | RPOther n => (FErr E_UNEXPECTED_EOF, drop n rb, s)
  | RPErr => (FErr E_OTHER, rb, s)
  | RPUnmodelled => (FErr E_UNMODELLED, rb, s)
  | RPNone =>
    match fuel with
    | O => (FErr E_FUEL, rb, s)
    | S f =>
      match src_read dflt s with
      | (RPend, s') => (FPend, rb, s')
      | (RFail, s') => (FErr E_INJECTED, rb, s')
      | (RBytes b, s') =>
          match b with
          | [] => (FErr E_OTHER, rb, s')          (* connection closed by peer *)
          | _ => fill f max dflt (rb ++ b) s'
          end
      end
    end
  end.

Definition fill_fuel (s : src) : nat := S (length (s_sched s) + length (s_data s)).

(** one call of read(buf) with buf.len() = sz; Pending/Interrupted is [PPending] *)
Definition rd_read (max dflt : N) (st : rstate) (sz : N) : poll (outcome bytes) * rstate :=
  let deliver st :=
    let n := N.min sz (len (r_buf st)) in
    (PReady (Ok (take n (r_buf st))), mk_rs (drop n (r_buf st)) (r_last st) (r_rb st) (r_src st)) in
  match r_buf st with
  | _ :: _ => deliver st
  | [] =>
    if r_last st then (PReady (Ok []), st)
    else
      match fill (fill_fuel (r_src st)) max dflt (r_rb st) (r_src st) with
      | (FMsg d l, rb', s') =>
          deliver (mk_rs d (match l with Some b => b | None => r_last st end) rb' s')
      | (FPend, rb', s') => (PPending, mk_rs [] (r_last st) rb' s')
      | (FErr e, rb', s') => (PReady (Err e), mk_rs [] (r_last st) rb' s')
      end
  end.

(** retry after Pending / Interrupted *)
Fixpoint rd_read_retry (polls : nat) (max dflt : N) (st : rstate) (sz : N) : outcome bytes * rstate :=
  match polls with
  | O => (Err E_FUEL, st)
  | S p =>
    match rd_read max dflt st sz with
    | (PReady r, st') => (r, st')
    | (PPending, st') => rd_read_retry p max dflt st' sz
    end
  end.

(** the harness loop: read with the cyclic sizes until Ok(0) or an error, at most [reads] times *)
Fixpoint rd_run (reads : nat) (i : nat) (max dflt : N) (sizes : list N) (st : rstate) : list (outcome bytes) * rstate :=
  match reads with
  | O => ([], st)
  | S k =>
    let sz := nth (Nat.modulo i (length sizes)) sizes 0 in
    match rd_read_retry (S (length (s_sched (r_src st)))) max dflt st sz with
    | (Ok [], st') => ([Ok []], st')
    | (Ok b, st') => let '(rs, st'') := rd_run k (S i) max dflt sizes st' in (Ok b :: rs, st'')
    | (r, st') => ([r], st')
    end
  end.

(* ------------------------------------------------------------------ correspondence *)
Definition outcome_eqb {A} (eqb : A -> A -> bool) (a b : outcome A) : bool :=
  match a, b with
  | Ok x, Ok y => eqb x y
  | Err x, Err y => x =? y
  | Panic _, Panic _ => true
  | _, _ => false
  end.
Definition unit_eqb (_ _ : unit) := true.

Inductive ccase :=
| CW (input : bool * N * N * list op * list ev * bool) (observed : list (outcome unit) * bytes * N)
| CR (input : bool * N * bytes * bytes * list ev * N * list N) (observed : list (outcome bytes) * bytes * N * N).

(** a panic unwinds through Drop: the observed result list ends with Panic and
    the model's run (which performs the drop-time finish) is compared as is *)
Definition check_case (c : ccase) : bool :=
  match c with
  | CW (asyn, ctx, max, ops, s, fin) (results, w, u) =>
      let '(mr, mw, mu) := if asyn then run_async ctx max ops s fin else run_sync ctx max ops s fin in
      list_eqb (outcome_eqb unit_eqb) mr results && list_eqb N.eqb mw w && (mu =? u)
  | CR (asyn, max, stream, pre, s, dflt, sizes) (reads, lft, pos, u) =>
      let st := mk_rs [] false pre (mk_src s stream 0 0) in
      let '(mr, st') := rd_run 4000 0 max dflt sizes st in
      list_eqb (outcome_eqb (list_eqb N.eqb)) mr reads && list_eqb N.eqb (r_rb st') lft
        && (s_pos (r_src st') =? pos) && (s_used (r_src st') =? u)
  end.

(* ------------------------------------------------------------------ property-side definitions *)
(** PS3.8 9.3.5: a P-DATA-TF PDU carrying ONE presentation data value with the
    data-set (not command) flag; [last] is bit 1 of the message control header. *)
Definition enc_pdu (ctx : N) (p : bytes * bool) : bytes :=
  [4; 0] ++ be32 (len (fst p) + 6) ++ be32 (len (fst p) + 2) ++ [ctx; if snd p then 2 else 0] ++ fst p.
Definition enc_all (ctx : N) (ps : list (bytes * bool)) : bytes := concat (map (enc_pdu ctx) ps).

(** the value of the PDU-length field of [enc_pdu] *)
Definition pdu_length (p : bytes * bool) : N := len (fst p) + 6.

(** abstract fragmentation: pieces of [cap] bytes, all but the final one full
    and not last; the final piece holds the remaining 0 < n <= cap bytes (or is
    empty for the empty message) and is the only one marked last. *)
Fixpoint frag (fuel : nat) (cap : N) (p : bytes) : list (bytes * bool) :=
  match fuel with
  | O => [(p, true)]
  | S f => if len p <=? cap then [(p, true)] else (take cap p, false) :: frag f cap (drop cap p)
  end.
Definition fragments (cap : N) (p : bytes) : list (bytes * bool) := frag (length p) cap p.

(** only the final element is marked last *)
Fixpoint only_last_is_last (ps : list (bytes * bool)) : Prop :=
  match ps with
  | [] => False
  | [p] => snd p = true
  | p :: ps' => snd p = false /\ only_last_is_last ps'
  end.

(** fault-free schedule: partial writes and not-ready results only *)
Definition no_fault (s : list ev) : Prop := Forall (fun e => e <> Fail /\ e <> Rdy 0) s.

Definition all_ok (n : nat) : list (outcome unit) := repeat (Ok tt) n.

(** data returned by a sequence of reads *)
Definition read_data (rs : list (outcome bytes)) : bytes :=
  concat (map (fun r => match r with Ok b => b | _ => [] end) rs).
Definition valid_max (max : N) : Prop := MINIMUM_PDU_SIZE <= max <= MAXIMUM_PDU_SIZE.
