(** Labelled transition system of an established association: two dicom-rs
    peers and the two directions of the TCP connection (FIFO channels).

    Peers use the behaviours of ul/src/association/mod.rs
    ([SyncAssociationSealed]/[AsyncAssociationSealed]: [send], [receive],
    [release] = send A-RELEASE-RQ then wait for exactly A-RELEASE-RP, anything
    else is an error; [abort] = send A-ABORT and close; dropping the association
    closes the socket) and the acceptor loop of storescp
    (storescp/src/store_sync.rs, store_async.rs [inner]: A-RELEASE-RQ is
    answered with A-RELEASE-RP and the association is dropped; A-ABORT or a
    receive error ends the loop).  [release]/[abort] consume the association
    (public API), so a peer whose release failed has closed its socket (drop).

    Both peers may use every behaviour (either side may send data, release,
    abort, close, and answers a release request with a release reply).
    No proofs here. *)
From DicomV Require Export Base.Prelude.

Inductive peer := Requestor | Acceptor.
Definition other (p : peer) : peer := match p with Requestor => Acceptor | Acceptor => Requestor end.
Definition peer_eqb (a b : peer) : bool :=
  match a, b with Requestor, Requestor | Acceptor, Acceptor => true | _, _ => false end.

(** PDU kinds that can travel on an established association *)
Inductive kind := KData | KRq | KRp | KAbort.
Definition kind_eqb (a b : kind) : bool :=
  match a, b with KData, KData | KRq, KRq | KRp, KRp | KAbort, KAbort => true | _, _ => false end.

(** what a direction of the connection carries: PDUs, then the end of the stream *)
Inductive item := IPdu (k : kind) | Fin.
Definition item_eqb (a b : item) : bool :=
  match a, b with IPdu x, IPdu y => kind_eqb x y | Fin, Fin => true | _, _ => false end.

(** how a peer ended (in all these states its socket is closed) *)
Inductive ending :=
| Released          (* release() returned Ok: A-RELEASE-RP received, socket closed *)
| ReleaseFailed     (* release() returned Err: something else arrived; association dropped *)
| AnsweredRelease   (* A-RELEASE-RQ answered with A-RELEASE-RP, association dropped *)
| Aborted           (* abort(): A-ABORT sent, socket closed *)
| PeerAborted       (* receive() returned A-ABORT: association dropped *)
| Closed.           (* dropped without release, or after a receive/send error *)

Inductive pstate :=
| Est               (* established, data transfer *)
| AwaitRp           (* inside release(): A-RELEASE-RQ sent, waiting for the answer *)
| GotRq             (* receive() returned A-RELEASE-RQ; the reply is not yet sent *)
| Done (e : ending).

Definition is_done (s : pstate) : bool := match s with Done _ => true | _ => false end.

Record state := {
  st_rq : pstate; st_ac : pstate;
  ch_rq : list item;     (* sent by the requestor, not yet received by the acceptor *)
  ch_ac : list item }.   (* sent by the acceptor, not yet received by the requestor *)

Definition pst (s : state) (p : peer) : pstate := match p with Requestor => st_rq s | Acceptor => st_ac s end.
(** channel of the PDUs SENT BY [p] *)
Definition chan (s : state) (p : peer) : list item := match p with Requestor => ch_rq s | Acceptor => ch_ac s end.

Definition set_pst (s : state) (p : peer) (x : pstate) : state :=
  match p with
  | Requestor => {| st_rq := x; st_ac := st_ac s; ch_rq := ch_rq s; ch_ac := ch_ac s |}
  | Acceptor => {| st_rq := st_rq s; st_ac := x; ch_rq := ch_rq s; ch_ac := ch_ac s |}
  end.
Definition set_chan (s : state) (p : peer) (c : list item) : state :=
  match p with
  | Requestor => {| st_rq := st_rq s; st_ac := st_ac s; ch_rq := c; ch_ac := ch_ac s |}
  | Acceptor => {| st_rq := st_rq s; st_ac := st_ac s; ch_rq := ch_rq s; ch_ac := c |}
  end.

(** [p] writes items on its direction *)
Definition push (s : state) (p : peer) (l : list item) : state := set_chan s p (chan s p ++ l).
(** [p] ends in [e] and closes its socket, after writing [l] *)
Definition finish (s : state) (p : peer) (l : list item) (e : ending) : state :=
  set_pst (push s p (l ++ [Fin])) p (Done e).

Definition init : state := {| st_rq := Est; st_ac := Est; ch_rq := []; ch_ac := [] |}.

Inductive label :=
| LSendData (p : peer)            (* send(P-DATA-TF) returned Ok *)
| LSendFail (p : peer)            (* send failed (peer gone): the application drops the association *)
| LRecv (p : peer) (k : kind)     (* receive() returned this PDU *)
| LRecvFin (p : peer)             (* receive() returned an error: connection closed / reset *)
| LRelease (p : peer)             (* release() called: A-RELEASE-RQ written *)
| LAwait (p : peer) (i : item)    (* release() read this from the connection and returned *)
| LSendRp (p : peer)              (* the release request is answered; the association is dropped *)
| LAbort (p : peer)               (* abort() *)
| LClose (p : peer)               (* association dropped without release *)
| LLose (p : peer).               (* environment: the connection was reset after [p] closed;
                                     what [p] had written and was not yet read is lost *)

Definition actor (l : label) : option peer :=
  match l with
  | LSendData p | LSendFail p | LRecv p _ | LRecvFin p | LRelease p | LAwait p _ | LSendRp p
  | LAbort p | LClose p => Some p
  | LLose _ => None
  end.

(** take the head of the channel written by [other p], if it is [i] *)
Definition take (s : state) (p : peer) (i : item) : option state :=
  match chan s (other p) with
  | j :: rest => if item_eqb i j then Some (set_chan s (other p) rest) else None
  | [] => None
  end.

Definition step (s : state) (l : label) : option state :=
  match l with
  | LSendData p =>
      match pst s p with Est => Some (push s p [IPdu KData]) | _ => None end
  | LSendFail p =>
      match pst s p with
      | Est => if is_done (pst s (other p)) then Some (finish s p [] Closed) else None
      | _ => None
      end
  | LRecv p k =>
      match pst s p with
      | Est =>
          match take s p (IPdu k) with
          | Some s' =>
              match k with
              | KData => Some s'
              | KRq => Some (set_pst s' p GotRq)
              | KAbort => Some (finish s' p [] PeerAborted)
              | KRp => Some s'          (* storescp: any other PDU is ignored; never reachable *)
              end
          | None => None
          end
      | _ => None
      end
  | LRecvFin p =>
      match pst s p with
      | Est => match take s p Fin with Some s' => Some (finish s' p [] Closed) | None => None end
      | _ => None
      end
  | LRelease p =>
      match pst s p with Est => Some (set_pst (push s p [IPdu KRq]) p AwaitRp) | _ => None end
  | LAwait p i =>
      match pst s p with
      | AwaitRp =>
          match take s p i with
          | Some s' =>
              match i with
              | IPdu KRp => Some (finish s' p [] Released)
              | _ => Some (finish s' p [] ReleaseFailed)
              end
          | None => None
          end
      | _ => None
      end
  | LSendRp p =>
      match pst s p with GotRq => Some (finish s p [IPdu KRp] AnsweredRelease) | _ => None end
  | LAbort p =>
      match pst s p with Est => Some (finish s p [IPdu KAbort] Aborted) | _ => None end
  | LClose p =>
      match pst s p with Est => Some (finish s p [] Closed) | _ => None end
  | LLose p =>
      if is_done (pst s p) then Some (set_chan s p [Fin]) else None
  end.

Fixpoint run (s : state) (tr : list label) : option state :=
  match tr with
  | [] => Some s
  | l :: tr' => match step s l with Some s' => run s' tr' | None => None end
  end.

(** the trace acceptor used to validate traces captured from the implementation *)
Definition lts_accepts (tr : list label) : bool :=
  match run init tr with Some _ => true | None => false end.

(** PDUs written by [p] along a trace (what a recorder on the wire sees in that direction,
    up to the loss of a tail when the connection is reset) *)
Definition sent_by (p : peer) (l : label) : list kind :=
  match l with
  | LSendData q => if peer_eqb p q then [KData] else []
  | LRelease q => if peer_eqb p q then [KRq] else []
  | LSendRp q => if peer_eqb p q then [KRp] else []
  | LAbort q => if peer_eqb p q then [KAbort] else []
  | _ => []
  end.
Definition wire_of (p : peer) (tr : list label) : list kind := flat_map (sent_by p) tr.

Fixpoint is_prefix (a b : list kind) : bool :=
  match a, b with
  | [], _ => true
  | x :: a', y :: b' => kind_eqb x y && is_prefix a' b'
  | _ :: _, [] => false
  end.

(** Correspondence case: the trace of API-level events of one run, and for each
    direction what the recording proxy saw on the wire and whether that record
    must be complete.  A peer that closes while PDUs of the other side are still
    unread resets the connection, and a tail of what it wrote itself may then be
    lost before the recorder (legitimate non-determinism of TCP, the [LLose] of the
    transition system); when the driver knows that the writer closed with nothing
    unread, the close was an orderly FIN and everything it wrote must be there. *)
Definition wire_ok (p : peer) (tr : list label) (seen : list kind) (complete : bool) : bool :=
  is_prefix seen (wire_of p tr) &&
  (negb complete || (Nat.eqb (length seen) (length (wire_of p tr)))).
Definition check_case (c : list label * (list kind * bool) * (list kind * bool)) : bool :=
  let '(tr, (w_rq, o_rq), (w_ac, o_ac)) := c in
  lts_accepts tr && wire_ok Requestor tr w_rq o_rq && wire_ok Acceptor tr w_ac o_ac.
