(** Model of core/src/value/fragments.rs (as of the `fix:` commit that replaced
    the f32 ceiling by an integer one): [Fragments::new], [Fragments::len],
    [From<Vec<Fragments>> for PixelFragmentSequence]. u32 casts are explicit
    [mod 2^32]; u32 arithmetic overflow is a panic (dev profile, as the harness is built). *)
From DicomV Require Export Base.Prelude Spec.Encapsulation.

Definition P_overflow : N := 3.
Definition P_div_zero : N := 4.   (* div_ceil by 0 *)
Definition P_multi : N := 5.      (* "More than 1 fragment per frame is invalid for multi frame pixel data" *)

Definition u32 (x : N) : N := x mod 2 ^ 32.
Definition div_ceil (a b : N) : N := (a + (b - 1)) / b.

(** slice.chunks_exact(n): full chunks only; [fuel] bounds the number of chunks *)
Fixpoint chunks_exact (fuel : nat) (n : nat) (d : bytes) : list bytes :=
  match fuel with
  | O => []
  | S fuel => if (n <=? length d)%nat then firstn n d :: chunks_exact fuel n (skipn n d) else []
  end.

(** the part of Fragments::new after the fragment size has been made even *)
Definition split_with (data : bytes) (fs : N) : outcome (list bytes) :=
  if fs =? 0 then Panic P_div_zero                                   (* data.len().div_ceil(0) *)
  else
    let n := u32 (div_ceil (len data) fs) in                         (* .. as u32 *)
    if 2 ^ 32 <=? fs * n then Panic P_overflow                        (* fragment_size * number_of_fragments *)
    else
      let enc := fs * n in
      let data' := if len data <? enc then data ++ repeat 0 (N.to_nat (enc - len data)) else data in
      Ok (chunks_exact (length data') (N.to_nat fs) data').

(** Fragments::new(data, fragment_size): the fragments of one frame *)
Definition fragments_new (data : bytes) (fragment_size : N) : outcome (list bytes) :=
  let fs0 := if fragment_size =? 0 then u32 (len data) else fragment_size in
  fs <- (if fs0 mod 2 =? 0 then Ok fs0
         else if fs0 + 1 <? 2 ^ 32 then Ok (fs0 + 1) else Panic P_overflow) ;;
  split_with data fs.

(** Fragments::len(): fold of [acc + fragment.len() as u32 + 8] in u32 *)
Fixpoint frags_len (acc : N) (frags : list bytes) : outcome N :=
  match frags with
  | [] => Ok acc
  | f :: rest =>
      let a := acc + u32 (len f) in
      if 2 ^ 32 <=? a then Panic P_overflow
      else if 2 ^ 32 <=? a + 8 then Panic P_overflow
      else frags_len (a + 8) rest
  end.

(** the loop of From<Vec<Fragments>>: (offset_table so far reversed, current_offset, fragments) *)
Fixpoint from_loop (multi : bool) (frames : list (list bytes)) (cur : N) (bot : list N) (acc : list bytes)
    : outcome (list N * list bytes) :=
  match frames with
  | [] => Ok (rev bot, acc)
  | fr :: rest =>
      if (1 <? length fr)%nat && multi then Panic P_multi
      else
        match rest with
        | [] => from_loop multi rest cur bot (acc ++ fr)             (* index = last_frame: no entry *)
        | _ =>
            off <- frags_len 0 fr ;;
            if 2 ^ 32 <=? cur + off then Panic P_overflow
            else from_loop multi rest (cur + off) ((cur + off) :: bot) (acc ++ fr)
        end
  end.

(** From<Vec<Fragments>>: (offset table, fragments) *)
Definition from_frames (frames : list (list bytes)) : outcome (list N * list bytes) :=
  match frames with
  | [] => Ok ([], [])
  | _ => from_loop (1 <? length frames)%nat frames 0 [0] []
  end.
