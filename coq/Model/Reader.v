(** Model of the reading side (default options: ValueReadStrategy::Preserved,
    OddLengthStrategy::Accept, no flexible decoding, Latin-1 family text):
    parser/src/stateful/decode.rs [StatefulDecoder::decode_header] (position, Pixel-Representation
        VR rewrite), [decode_item_header], [read_value_preserved] and its helpers,
        [read_to_vec], [read_u32_to_vec]
    parser/src/dataset/read.rs    [DataSetReader::next], [update_seq_delimiters], [push_sequence_token]
    object/src/mem.rs             [build_object], [build_sequence], [build_encapsulated_data],
                                  [read_dataset_with_ts].
    The dictionary is a function: for a tag, the relaxed VR of its entry and
    whether the entry's virtual VR is Xs. *)
From DicomV Require Export Model.Dataset.

Definition dict_t : Type := tag -> option (vr * bool).
Definition dict_vr (d : dict_t) : tag -> option vr := fun t => option_map fst (d t).
Definition dict_xs (d : dict_t) (t : tag) : bool := match d t with Some (_, b) => b | None => false end.

Definition E_Read : N := 40.            (* any decoding/reading error *)
Definition E_BuildUnexpected : N := 41. (* ReadError::UnexpectedToken *)
Definition E_MissingValue : N := 42.    (* ReadError::MissingElementValue *)
Definition E_PrematureEnd : N := 43.    (* ReadError::PrematureEnd *)

Record seqtok : Type := { sq_item : bool; sq_len : N; sq_pixel : bool; sq_base : N }.

Record rstate : Type := {
  r_src : bytes;                 (* bytes not yet consumed *)
  r_pos : N;                     (* StatefulDecoder::position *)
  r_in_seq : bool;
  r_ot_next : bool;
  r_pending : bool;              (* delimiter_check_pending *)
  r_stack : list seqtok;         (* seq_delimiters, top first *)
  r_hard : bool;                 (* hard_break *)
  r_last : option (tag * vr * N);
  r_signed : option bool         (* signed_pixeldata *)
}.
Definition r_init (b : bytes) : rstate :=
  {| r_src := b; r_pos := 0; r_in_seq := false; r_ot_next := false; r_pending := false;
     r_stack := []; r_hard := false; r_last := None; r_signed := None |}.

(** ** Values *)
Fixpoint chunks (k : nat) (n : nat) (b : bytes) : list bytes :=
  match n with O => [] | S n' => firstn k b :: chunks k n' (skipn k b) end.
Definition dec_words (c : codec) (k : nat) (n : nat) (b : bytes) : list N :=
  map (rd c) (chunks k n b).

Fixpoint split_on_byte (sep : N) (b : bytes) : list bytes :=
  match b with
  | [] => [[]]
  | x :: b' =>
      if N.eqb x sep then [] :: split_on_byte sep b'
      else match split_on_byte sep b' with
           | [] => [[x]]
           | h :: t => (x :: h) :: t
           end
  end.

(* the value bytes [raw] (exactly [len] of them) as a primitive value of VR [v] *)
Definition value_of_bytes (c : codec) (v : vr) (raw : bytes) : outcome prim :=
  let len := length raw in
  match v with
  | SQ => Err E_Read
  | AT => Ok (PTags (map (fun w => (rd c (firstn 2 w), rd c (skipn 2 w))) (chunks 4 (Nat.div len 4) raw)))
  | AE | AS | PN | SH | LO | UC | UI | IS | DS | DA | TM | DT | CS => Ok (PStrs (split_on_byte 92 raw))
  | UT | ST | UR | LT => Ok (PStr raw)
  | UN | OB => Ok (PU8 raw)
  | US | OW => Ok (PU16 (dec_words c 2 (Nat.div len 2) raw))
  | SS => Ok (PI16 (dec_words c 2 (Nat.div len 2) raw))
  | FD | OD => Ok (PF64 (dec_words c 8 (Nat.div len 8) raw))
  | FL | OF => Ok (PF32 (dec_words c 4 (Nat.div len 4) raw))
  | SL => Ok (PI32 (dec_words c 4 (Nat.div len 4) raw))
  | OL | UL => Ok (PU32 (dec_words c 4 (Nat.div len 4) raw))
  | SV => Ok (PI64 (dec_words c 8 (Nat.div len 8) raw))
  | OV | UV => Ok (PU64 (dec_words c 8 (Nat.div len 8) raw))
  end.

(** [read_value_preserved]: value, remaining source. *)
Definition read_value (c : codec) (v : vr) (len : N) (src : bytes) : outcome (prim * bytes) :=
  if N.eqb len 0 then Ok (PEmpty, src)
  else if N.eqb len undef then Err E_Read
  else
    match v with
    | SQ => Err E_Read
    | _ =>
        match take (N.to_nat len) src with
        | None => Err E_Read
        | Some (raw, rest) =>
            match value_of_bytes c v raw with
            | Ok p => Ok (p, rest) | Err e => Err e | Panic w => Panic w
            end
        end
    end.

(** ** The reader state machine *)
Definition set_src (st : rstate) (src : bytes) (adv : N) : rstate :=
  {| r_src := src; r_pos := r_pos st + adv; r_in_seq := r_in_seq st; r_ot_next := r_ot_next st;
     r_pending := r_pending st; r_stack := r_stack st; r_hard := r_hard st; r_last := r_last st;
     r_signed := r_signed st |}.
Definition upd (st : rstate) (in_seq ot_next pending : bool) (stack : list seqtok)
    (last : option (tag * vr * N)) : rstate :=
  {| r_src := r_src st; r_pos := r_pos st; r_in_seq := in_seq; r_ot_next := ot_next;
     r_pending := pending; r_stack := stack; r_hard := r_hard st; r_last := last;
     r_signed := r_signed st |}.
Definition hard (st : rstate) : rstate :=
  {| r_src := r_src st; r_pos := r_pos st; r_in_seq := r_in_seq st; r_ot_next := r_ot_next st;
     r_pending := r_pending st; r_stack := r_stack st; r_hard := true; r_last := r_last st;
     r_signed := r_signed st |}.
Definition set_signed (st : rstate) (s : option bool) : rstate :=
  {| r_src := r_src st; r_pos := r_pos st; r_in_seq := r_in_seq st; r_ot_next := r_ot_next st;
     r_pending := r_pending st; r_stack := r_stack st; r_hard := r_hard st; r_last := r_last st;
     r_signed := s |}.
Definition push (st : rstate) (is_item : bool) (len : N) (pixel : bool) : list seqtok :=
  {| sq_item := is_item; sq_len := len; sq_pixel := pixel; sq_base := r_pos st |} :: r_stack st.

(* result of one call of [next] *)
Inductive step_res : Type :=
| RTok (tk : token)      (* Some(Ok(token)) *)
| RErr (e : N)           (* Some(Err(_)) *)
| REnd                   (* None *)
| RAgain.                (* internal: `continue` *)

(** [update_seq_delimiters] *)
Definition update_delims (st : rstate) : outcome (option token) * rstate :=
  match r_stack st with
  | sd :: rest =>
      if N.eqb (sq_len sd) undef then (Ok None, upd st (r_in_seq st) (r_ot_next st) false (r_stack st) (r_last st))
      else
        let e := sq_base sd + sq_len sd in
        if N.eqb e (r_pos st) then
          if sq_item sd then (Ok (Some TItemEnd), upd st true (r_ot_next st) (r_pending st) rest (r_last st))
          else (Ok (Some TSeqEnd), upd st false (r_ot_next st) (r_pending st) rest (r_last st))
        else if e <? r_pos st then (Err E_Read, st)
        else (Ok None, upd st (r_in_seq st) (r_ot_next st) false (r_stack st) (r_last st))
  | [] => (Ok None, upd st (r_in_seq st) (r_ot_next st) false (r_stack st) (r_last st))
  end.

Definition st_decode_header (c : codec) (d : dict_t) (st : rstate) : outcome (tag * vr * N * rstate) :=
  match dec_header c (dict_vr d) (r_src st) with
  | Ok (t, v, len, size, rest) =>
      let v' := match r_signed st with
                | Some true => if dict_xs d t then SS else v
                | _ => v end in
      Ok (t, v', len, set_src st rest size)
  | Err e => Err e | Panic w => Panic w
  end.

Definition is_eof_tag_error (st : rstate) : bool := Nat.ltb (length (r_src st)) 4.

(** One iteration of the body of [next] after the hard_break and pending checks. *)
Definition next_body (c : codec) (d : dict_t) (st : rstate) : step_res * rstate :=
  if r_in_seq st then
    match dec_item_header c (r_src st) with
    | Ok (h, rest) =>
        let st1 := set_src st rest 8 in
        match h with
        | Item len =>
            match r_stack st1 with
            | [] => (RErr E_Read, upd st1 false (r_ot_next st1) (r_pending st1) [] (r_last st1))
            | top :: _ =>
                (RTok (TItemStart len),
                 upd st1 false (r_ot_next st1) (if N.eqb len 0 then true else r_pending st1)
                     (push st1 true len (sq_pixel top)) (r_last st1))
            end
        | ItemDelim =>
            (RTok TItemEnd, upd st1 true (r_ot_next st1) true (tl (r_stack st1)) (r_last st1))
        | SeqDelim =>
            (RTok TSeqEnd, upd st1 false (r_ot_next st1) true (tl (r_stack st1)) (r_last st1))
        end
    | Err e =>
        (* ReadItemHeader with UnexpectedEof while inside pixel data ends the data set gracefully;
           the check pops the stack in any case *)
        let eof := match c with
                   | ILE => false
                   | _ => N.eqb e E_ReadItemHeader
                   end in
        match r_stack st with
        | top :: rest =>
            if eof then
              if sq_pixel top then (REnd, hard (upd st (r_in_seq st) (r_ot_next st) (r_pending st) rest (r_last st)))
              else (RErr E_Read, hard (upd st (r_in_seq st) (r_ot_next st) (r_pending st) rest (r_last st)))
            else (RErr E_Read, hard st)
        | [] => (RErr E_Read, hard st)
        end
    | Panic w => (RErr E_Read, hard st)
    end
  else
    match r_stack st with
    | {| sq_item := true; sq_len := len; sq_pixel := true |} :: _ =>
        if N.eqb len undef then (RErr E_Read, st)
        else if r_ot_next st then
          let n := N.to_nat (len / 4) in
          let st0 := upd st (r_in_seq st) false true (r_stack st) (r_last st) in
          match take (4 * n) (r_src st) with
          | None => (RErr E_Read, st0)
          | Some (raw, rest) =>
              let rem := N.to_nat (len mod 4) in
              match take rem rest with
              | None => (RErr E_Read, set_src st0 rest (4 * N.of_nat n))
              | Some (_, rest') =>
                  (RTok (TOffsetTable (dec_words c 4 n raw)), set_src st0 rest' len)
              end
          end
        else
          let st0 := upd st (r_in_seq st) (r_ot_next st) true (r_stack st) (r_last st) in
          (* std::io::copy of take(len): a short source is not an error *)
          let k := N.to_nat len in
          (RTok (TItemValue (firstn k (r_src st))), set_src st0 (skipn k (r_src st)) len)
    | _ =>
        match r_last st with
        | Some (t, v, len) =>
            if is_encaps_header t len then
              let stack1 := push st false undef true in
              let st1 := upd st (r_in_seq st) (r_ot_next st) (r_pending st) stack1 None in
              match dec_item_header c (r_src st1) with
              | Ok (h, rest) =>
                  let st2 := set_src st1 rest 8 in
                  match h with
                  | Item ilen =>
                      (RTok (TItemStart ilen),
                       upd st2 false (if N.eqb ilen 0 then r_ot_next st2 else true)
                           (if N.eqb ilen 0 then true else r_pending st2)
                           (push st2 true ilen true) None)
                  | SeqDelim => (RTok TSeqEnd, upd st2 false (r_ot_next st2) (r_pending st2) (tl (r_stack st2)) None)
                  | ItemDelim => (RErr E_Read, hard st2)
                  end
              | _ => (RErr E_Read, hard st1)
              end
            else
              match read_value c v len (r_src st) with
              | Ok (p, rest) =>
                  let st1 := set_src st rest len in
                  let st2 := if vr_eqb v US || vr_eqb v OW then
                               if tag_eqb t (40, 259) && negb (N.eqb len 0) then
                                 set_signed st1 (match p with
                                                 | PU16 (x :: _) => Some (negb (N.eqb x 0))
                                                 | _ => None end)
                               else st1
                             else st1 in
                  (RTok (TPrim p), upd st2 (r_in_seq st2) (r_ot_next st2) true (r_stack st2) None)
              | _ => (RErr E_Read, hard (upd st (r_in_seq st) (r_ot_next st) (r_pending st) (r_stack st) None))
              end
        | None =>
            match st_decode_header c d st with
            | Ok (t, v, len, st1) =>
                if vr_eqb v SQ then
                  (RTok (TSeqStart t len),
                   upd st1 true (r_ot_next st1) (if N.eqb len 0 then true else r_pending st1)
                       (push st1 false len false) None)
                else if tag_eqb t (65534, 57357) then
                  match r_stack st1 with
                  | [] => (RAgain, st1)
                  | _ :: rest => (RTok TItemEnd, upd st1 true (r_ot_next st1) true rest None)
                  end
                else if is_encaps_header t len then
                  (RTok TPixStart, upd st1 (r_in_seq st1) (r_ot_next st1) (r_pending st1) (r_stack st1) (Some (t, v, len)))
                else if N.eqb len undef then
                  (RTok (TSeqStart t len), upd st1 true (r_ot_next st1) (r_pending st1) (push st1 false len false) None)
                else
                  (RTok (TElemHeader t v len),
                   upd st1 (r_in_seq st1) (r_ot_next st1) (r_pending st1) (r_stack st1) (Some (t, v, len)))
            | Err e =>
                if N.eqb e E_ReadHeaderTag then (REnd, hard st) else (RErr E_Read, hard st)
            | Panic w => (RErr E_Read, hard st)
            end
        end
    end.

(** [next] *)
Fixpoint next (fuel : nat) (c : codec) (d : dict_t) (st : rstate) : step_res * rstate :=
  match fuel with
  | O => (RErr 0, st)    (* out of fuel *)
  | S f =>
      if r_hard st then (REnd, st)
      else
        let go (st : rstate) :=
          match next_body c d st with
          | (RAgain, st') => next f c d st'
          | r => r
          end in
        if r_pending st then
          match update_delims st with
          | (Err e, st') => (RErr e, hard st')
          | (Ok (Some tk), st') => (RTok tk, st')
          | (Ok None, st') => go st'
          | (Panic w, st') => (RErr E_Read, hard st')
          end
        else go st
  end.

(** All tokens until the stream ends ([None]) or yields an error. *)
Fixpoint read_tokens (fuel : nat) (c : codec) (d : dict_t) (st : rstate) : list token * option N :=
  match fuel with
  | O => ([], Some 0)
  | S f =>
      match next (S (length (r_src st))) c d st with
      | (RTok tk, st') => let '(l, e) := read_tokens f c d st' in (tk :: l, e)
      | (RErr e, _) => ([], Some e)
      | (REnd, _) => ([], None)
      | (RAgain, _) => ([], Some 0)
      end
  end.

(** ** Building the object from tokens *)
Definition tag_ltb (a b : tag) : bool := (fst a <? fst b) || (N.eqb (fst a) (fst b) && (snd a <? snd b)).
(* BTreeMap::insert *)
Fixpoint insert_elem (e : elem) (l : list elem) : list elem :=
  match l with
  | [] => [e]
  | x :: l' =>
      if tag_eqb (elem_tag x) (elem_tag e) then e :: l'
      else if tag_ltb (elem_tag e) (elem_tag x) then e :: x :: l'
      else x :: insert_elem e l'
  end.

(* tokens with the error (if any) that ends them *)
Definition toks : Type := (list token * option N)%type.
Definition end_error (e : option N) (dflt : N) : N := match e with Some _ => E_Read | None => dflt end.

(** [build_encapsulated_data]: offset table, fragments, remaining tokens.
    [first] = still in the first item (basic offset table); [hasv] = a value
    token was seen in the current item (a later item without one is a
    zero-length fragment). *)
Fixpoint build_pix (tks : list token) (e : option N) (ot : option (list N)) (frags : list bytes)
    (first hasv : bool) : outcome (list N * list bytes * list token) :=
  match tks with
  | [] => match e with
          | Some _ => Err E_Read
          | None => Ok (match ot with Some o => o | None => [] end, rev frags, [])
          end
  | tk :: rest =>
      match tk with
      | TOffsetTable o => build_pix rest e (Some o) frags first true
      | TItemValue b => build_pix rest e ot (b :: frags) first true
      | TItemEnd =>
          if first then build_pix rest e (match ot with None => Some [] | s => s end) frags false hasv
          else if hasv then build_pix rest e ot frags first hasv
          else build_pix rest e ot ([] :: frags) first hasv
      | TItemStart _ => build_pix rest e ot frags first false
      | TSeqEnd => Ok (match ot with Some o => o | None => [] end, rev frags, rest)
      | _ => Err E_BuildUnexpected
      end
  end.

(** [build_object] / [build_sequence], by fuel. Returns the elements (sorted
    map), and the remaining tokens. *)
Fixpoint build_obj (fuel : nat) (in_item : bool) (tks : list token) (e : option N) (acc : list elem)
  : outcome (list elem * list token) :=
  match fuel with
  | O => Err 0
  | S f =>
      match tks with
      | [] => match e with Some _ => Err E_Read | None => Ok (acc, []) end
      | tk :: rest =>
          match tk with
          | TPixStart =>
              match build_pix rest e None [] true false with
              | Ok (ot, frags, rest') => build_obj f in_item rest' e (insert_elem (EPix pixel_tag OB undef ot frags) acc)
              | Err x => Err x | Panic w => Panic w
              end
          | TElemHeader t v len =>
              match rest with
              | [] => Err (end_error e E_MissingValue)
              | TPrim p :: rest' => build_obj f in_item rest' e (insert_elem (EPrim t v len p) acc)
              | _ => Err E_BuildUnexpected
              end
          | TSeqStart t len =>
              let build_seq :=
                fix build_seq (g : nat) (tks : list token) (items : list item) : outcome (list item * list token) :=
                  match g with
                  | O => Err 0
                  | S g' =>
                      match tks with
                      | [] => Err (end_error e E_PrematureEnd)
                      | TItemStart ilen :: rest1 =>
                          match build_obj f true rest1 e [] with
                          | Ok (es, rest2) => build_seq g' rest2 ((ilen, es) :: items)
                          | Err x => Err x | Panic w => Panic w
                          end
                      | TSeqEnd :: rest1 => Ok (rev items, rest1)
                      | _ => Err E_BuildUnexpected
                      end
                  end in
              match build_seq fuel rest [] with
              | Ok (items, rest') => build_obj f in_item rest' e (insert_elem (ESeq t SQ len items) acc)
              | Err x => Err x | Panic w => Panic w
              end
          | TItemEnd => if in_item then Ok (acc, rest) else Err E_BuildUnexpected
          | _ => Err E_BuildUnexpected
          end
      end
  end.

(** [InMemDicomObject::read_dataset_with_ts] *)
Definition read_dataset (c : codec) (d : dict_t) (b : bytes) : outcome (list elem) :=
  let '(tks, e) := read_tokens (S (length b)) c d (r_init b) in
  match build_obj (S (S (length tks))) false tks e [] with
  | Ok (es, _) => Ok es
  | Err x => Err x | Panic w => Panic w
  end.
