(** Correspondence checker of C28: the negotiation model instantiated with the
    registry table regenerated from the code (Gen/GenTsSupport.v). *)
From DicomV Require Export Model.Negotiate.
From DicomV Require Import Gen.GenTsSupport.

(** exact-key lookup in the regenerated registry table *)
Fixpoint lookup (t : list (str * bool)) (u : str) : option bool :=
  match t with
  | [] => None
  | (k, v) :: t' => if str_eqb k u then Some v else lookup t' u
  end.
Definition reg_table : str -> option bool := lookup ts_table.

(** strings the harness abbreviates: [(u k)] is the k-th entry of the regenerated pool *)
Definition u (k : N) : str := nth (N.to_nat k) upool [].

(** "1.2.840.10008.3.1.1.1", the DICOM application context name ([Default] of the options) *)
Definition default_app_ctx : str := [49;46;50;46;56;52;48;46;49;48;48;48;56;46;51;46;49;46;49;46;49].

(** configuration as given to the builder: (access, ae_title, with_abstract_syntax arguments,
    with_transfer_syntax arguments, max_pdu_length argument, promiscuous) *)
Definition raw_cfg : Type := access * str * list str * list str * N * bool.
Definition mk_cfg (r : raw_cfg) : server_cfg :=
  let '(acc, ae, absr, tsr, maxr, prom) := r in
  let c0 := {| sc_access := acc; sc_ae_title := ae; sc_app_ctx := default_app_ctx;
               sc_abs := []; sc_ts := []; sc_proto := 1;
               sc_max_pdu := set_max_pdu maxr; sc_promiscuous := prom |} in
  fold_left with_transfer_syntax tsr (fold_left with_abstract_syntax absr c0).

(** case = (configuration, first PDU, what the implementation answered and kept) *)
Definition check_case (c : raw_cfg * in_pdu * rq_outcome) : bool :=
  let '(cfg, msg, out) := c in
  outcome_eqb (process_rq reg_table (mk_cfg cfg) msg) out.
