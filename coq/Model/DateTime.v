(** Model of the partial date / time / date-time values of dicom-core:
    core/src/value/partial.rs   (DicomDate, DicomTime, DicomDateTime, check_component, to_encoded)
    core/src/value/deserialize.rs (read_number, parse_date_partial, parse_time_partial, parse_datetime_partial)
    core/src/value/range.rs     (AsRange::earliest/latest, DateRange/TimeRange/DateTimeRange,
                                 parse_date_range, parse_time_range, parse_datetime_range_impl)
    core/src/value/primitive.rs (da_byte_len, tm_byte_len, dt_byte_len)
    Text is a list of bytes. [chrono] is replaced by a small proleptic Gregorian
    calendar ([valid_ymd], [day_num]) and by the validity rule of
    [NaiveTime::from_hms_micro_opt]. No proofs here. *)
From DicomV Require Export Base.Prelude.

(** * Error classes *)
(* deserialize::Error *)
Definition E_eoe : N := 1.          (* UnexpectedEndOfElement *)
Definition E_numlen : N := 2.       (* InvalidNumberLength *)
Definition E_numtok : N := 3.       (* InvalidNumberToken *)
Definition E_partial_comp : N := 4. (* PartialValue { InvalidComponent } *)
Definition E_partial_fpr : N := 5.  (* PartialValue { FractionPrecisionRange } *)
Definition E_partial_fpm : N := 6.  (* PartialValue { FractionPrecisionMismatch } *)
Definition E_tz_comp : N := 7.      (* InvalidComponent (time zone) *)
Definition E_tz_sign : N := 8.      (* InvalidTimeZoneSignToken *)
Definition E_dt_partials : N := 9.  (* InvalidDateTime { DateTimeFromPartials } *)
Definition E_secs_oob : N := 10.    (* SecsOutOfBounds *)
(* range::Error *)
Definition R_eoe : N := 20.
Definition R_inversion : N := 21.
Definition R_nosep : N := 22.
Definition R_sepcount : N := 23.
Definition R_invalid_dt : N := 24.
Definition R_imprecise : N := 25.
Definition R_invalid_date : N := 26.
Definition R_invalid_time : N := 27.
Definition R_invalid_time_micro : N := 28.
Definition R_ambiguous : N := 29.
Definition R_parse (e : N) : N := 100 + e.   (* Parse { source } *)
(* partial::Error (constructors called directly) *)
Definition P_component : N := 40.
Definition P_fpr : N := 41.
Definition P_fpm : N := 42.
Definition P_dt_partials : N := 43.

Definition map_err {A} (f : N -> N) (o : outcome A) : outcome A :=
  match o with Ok a => Ok a | Err e => Err (f e) | Panic w => Panic w end.

(* .context(PartialValueSnafu) in deserialize.rs *)
Definition ctx_partial {A} : outcome A -> outcome A :=
  map_err (fun e => if e =? P_component then E_partial_comp
                    else if e =? P_fpr then E_partial_fpr
                    else if e =? P_fpm then E_partial_fpm else e).
(* .context(ParseSnafu) in range.rs *)
Definition ctx_parse {A} : outcome A -> outcome A := map_err R_parse.

(** * Values (partial.rs) *)
Inductive dicom_date : Type :=
| DYear (y : N) | DMonth (y m : N) | DDay (y m d : N).
Inductive dicom_time : Type :=
| THour (h : N) | TMinute (h m : N) | TSecond (h m s : N) | TFrac (h m s f fp : N).
(* time zone = chrono::FixedOffset = seconds east of UTC *)
Record dicom_dt : Type := mkDT { dt_date : dicom_date; dt_time : option dicom_time; dt_zone : option Z }.

Definition in_range (lo hi v : N) : bool := (lo <=? v) && (v <=? hi).
(* check_component ranges *)
Definition ok_year v := in_range 0 9999 v.
Definition ok_month v := in_range 1 12 v.
Definition ok_day v := in_range 1 31 v.
Definition ok_hour v := in_range 0 23 v.
Definition ok_minute v := in_range 0 59 v.
Definition ok_second v := in_range 0 60 v.
Definition ok_milli v := in_range 0 999 v.
Definition ok_fraction v := in_range 0 999999 v.
Definition ok_west v := in_range 0 43200 v.
Definition ok_east v := in_range 0 50400 v.

Definition guard (b : bool) (e : N) : outcome unit := if b then Ok tt else Err e.

Definition from_y y : outcome dicom_date :=
  _ <- guard (ok_year y) P_component;; Ok (DYear y).
Definition from_ym y m : outcome dicom_date :=
  _ <- guard (ok_year y) P_component;; _ <- guard (ok_month m) P_component;; Ok (DMonth y m).
Definition from_ymd y m d : outcome dicom_date :=
  _ <- guard (ok_year y) P_component;; _ <- guard (ok_month m) P_component;;
  _ <- guard (ok_day d) P_component;; Ok (DDay y m d).

Definition from_h h : outcome dicom_time :=
  _ <- guard (ok_hour h) P_component;; Ok (THour h).
Definition from_hm h m : outcome dicom_time :=
  _ <- guard (ok_hour h) P_component;; _ <- guard (ok_minute m) P_component;; Ok (TMinute h m).
Definition from_hms h m s : outcome dicom_time :=
  _ <- guard (ok_hour h) P_component;; _ <- guard (ok_minute m) P_component;;
  _ <- guard (ok_second s) P_component;; Ok (TSecond h m s).
(* after fix a5809c2: hour, minute and second are validated as well *)
Definition from_hms_milli h m s ms : outcome dicom_time :=
  _ <- guard (ok_hour h) P_component;; _ <- guard (ok_minute m) P_component;;
  _ <- guard (ok_second s) P_component;; _ <- guard (ok_milli ms) P_component;; Ok (TFrac h m s ms 3).
Definition from_hms_micro h m s us : outcome dicom_time :=
  _ <- guard (ok_hour h) P_component;; _ <- guard (ok_minute m) P_component;;
  _ <- guard (ok_second s) P_component;; _ <- guard (ok_fraction us) P_component;; Ok (TFrac h m s us 6).
(* pub(crate) from_hmsf, used by the parser *)
Definition from_hmsf h m s f fp : outcome dicom_time :=
  if negb (in_range 1 6 fp) then Err P_fpr
  else if 10 ^ fp <? f then Err P_fpm
  else
    _ <- guard (ok_hour h) P_component;; _ <- guard (ok_minute m) P_component;;
    _ <- guard (ok_second s) P_component;;
    if 4294967295 <? f * 10 ^ (6 - fp) then Panic 1 (* u32 overflow, debug builds *) else
    _ <- guard (ok_fraction (f * 10 ^ (6 - fp))) P_component;; Ok (TFrac h m s f fp).

Definition date_precise (d : dicom_date) : bool := match d with DDay _ _ _ => true | _ => false end.

Definition from_date_and_time (d : dicom_date) (t : dicom_time) (z : option Z) : outcome dicom_dt :=
  if date_precise d then Ok (mkDT d (Some t) z) else Err P_dt_partials.

(** Validity = what the public constructors accept. *)
Definition valid_date (d : dicom_date) : bool :=
  match d with
  | DYear y => ok_year y
  | DMonth y m => ok_year y && ok_month m
  | DDay y m d => ok_year y && ok_month m && ok_day d
  end.
Definition valid_time (t : dicom_time) : bool :=
  match t with
  | THour h => ok_hour h
  | TMinute h m => ok_hour h && ok_minute m
  | TSecond h m s => ok_hour h && ok_minute m && ok_second s
  | TFrac h m s f fp => ok_hour h && ok_minute m && ok_second s && in_range 1 6 fp && (f <? 10 ^ fp)
  end.
(* DICOM offsets: whole minutes within -12:00 .. +14:00 *)
Definition valid_zone (z : Z) : bool :=
  ((-43200 <=? z) && (z <=? 50400) && (z mod 60 =? 0))%Z.
Definition valid_dt (v : dicom_dt) : bool :=
  valid_date (dt_date v)
  && match dt_time v with Some t => valid_time t && date_precise (dt_date v) | None => true end
  && match dt_zone v with Some z => valid_zone z | None => true end.

(** * to_encoded *)
(* [{n:0k}] for n < 10^k: exactly k decimal digits *)
Fixpoint padk (k : nat) (n : N) : bytes :=
  match k with
  | O => []
  | S k' => padk k' (n / 10) ++ [48 + n mod 10]
  end.

Definition date_enc (d : dicom_date) : bytes :=
  match d with
  | DYear y => padk 4 y
  | DMonth y m => padk 4 y ++ padk 2 m
  | DDay y m d => padk 4 y ++ padk 2 m ++ padk 2 d
  end.
Definition dot : N := 46.
Definition dash : N := 45.
Definition plus : N := 43.
Definition time_enc (t : dicom_time) : bytes :=
  match t with
  | THour h => padk 2 h
  | TMinute h m => padk 2 h ++ padk 2 m
  | TSecond h m s => padk 2 h ++ padk 2 m ++ padk 2 s
  | TFrac h m s f fp => padk 2 h ++ padk 2 m ++ padk 2 s ++ dot :: padk (N.to_nat fp) f
  end.
(* chrono's Display of FixedOffset with ':' removed: +HHMM, or +HHMMSS when seconds are non-zero *)
Definition zone_enc (z : Z) : bytes :=
  let a := Z.abs_N z in
  let sec := a mod 60 in let mins := a / 60 in
  (if (z <? 0)%Z then dash else plus) :: padk 2 (mins / 60) ++ padk 2 (mins mod 60)
    ++ (if sec =? 0 then [] else padk 2 sec).
Definition ozone_enc (z : option Z) : bytes := match z with Some z => zone_enc z | None => [] end.
Definition otime_enc (t : option dicom_time) : bytes := match t with Some t => time_enc t | None => [] end.
Definition dt_enc (v : dicom_dt) : bytes :=
  date_enc (dt_date v) ++ otime_enc (dt_time v) ++ ozone_enc (dt_zone v).

(** * byte lengths (primitive.rs) *)
Definition da_byte_len (d : dicom_date) : N :=
  match d with DYear _ => 4 | DMonth _ _ => 6 | DDay _ _ _ => 8 end.
Definition tm_byte_len (t : dicom_time) : N :=
  match t with THour _ => 2 | TMinute _ _ => 4 | TSecond _ _ _ => 6 | TFrac _ _ _ _ fp => 7 + fp end.
Definition dt_byte_len (v : dicom_dt) : N :=
  da_byte_len (dt_date v)
  + match dt_time v with Some t => tm_byte_len t | None => 0 end
  + match dt_zone v with Some _ => 5 | None => 0 end.

(** * Parsers (deserialize.rs) *)
Definition is_digit (b : N) : bool := (48 <=? b) && (b <=? 57).
Fixpoint digits_val (acc : N) (l : bytes) : N :=
  match l with [] => acc | b :: t => digits_val (acc * 10 + (b - 48)) t end.
(* read_number (checks) without the width of the target type *)
Definition read_digits (t : bytes) : outcome N :=
  if (length t =? 0)%nat || (9 <? length t)%nat then Err E_numlen
  else if forallb is_digit t then Ok (digits_val 0 t) else Err E_numtok.
(* panic classes *)
Definition PN_overflow : N := 1.   (* arithmetic overflow (debug builds; release wraps) *)
Definition PN_unwrap : N := 2.     (* u8::try_from(n).unwrap() *)
Definition PN_underflow : N := 3.  (* 6 - fp with fp > 6 (debug builds) *)
(* read_number::<T> where T holds 0..=max: read_number_unchecked folds acc * 10 + digit in T;
   the intermediate values never exceed the final one, so it overflows iff the value exceeds max *)
Definition read_number (max : N) (t : bytes) : outcome N :=
  v <- read_digits t;; if max <? v then Panic PN_overflow else Ok v.
Definition U8 : N := 255.
Definition U16 : N := 65535.
Definition U32 : N := 4294967295.
Definition I32 : N := 2147483647.

Definition short (n : nat) (b : bytes) : bool := (length b <? n)%nat.

Definition parse_date_partial (buf : bytes) : outcome (dicom_date * bytes) :=
  if short 4 buf then Err E_eoe else
  year <- read_number 65535 (firstn 4 buf);;
  let buf := skipn 4 buf in
  if short 2 buf then d <- ctx_partial (from_y year);; Ok (d, buf) else
  match read_number 255 (firstn 2 buf) with
  | Ok month =>
      let buf2 := skipn 2 buf in
      if short 2 buf2 then d <- ctx_partial (from_ym year month);; Ok (d, buf2) else
      match read_number 255 (firstn 2 buf2) with
      | Ok day => d <- ctx_partial (from_ymd year month day);; Ok (d, skipn 2 buf2)
      | Err _ => d <- ctx_partial (from_ym year month);; Ok (d, buf2)
      | Panic w => Panic w
      end
  | Err _ => d <- ctx_partial (from_y year);; Ok (d, buf)
  | Panic w => Panic w
  end.

(* buf.iter().position(|b| !b.is_ascii_digit()).unwrap_or(buf.len()) *)
Fixpoint lead_digits (l : bytes) : nat :=
  match l with b :: t => if is_digit b then S (lead_digits t) else O | [] => O end.

Definition parse_time_partial (buf : bytes) : outcome (dicom_time * bytes) :=
  if short 2 buf then Err E_eoe else
  hour <- read_number 255 (firstn 2 buf);;
  let buf := skipn 2 buf in
  if short 2 buf then t <- ctx_partial (from_h hour);; Ok (t, buf) else
  match read_number 255 (firstn 2 buf) with
  | Ok minute =>
      let buf2 := skipn 2 buf in
      if short 2 buf2 then t <- ctx_partial (from_hm hour minute);; Ok (t, buf2) else
      match read_number 255 (firstn 2 buf2) with
      | Ok second =>
          let buf3 := skipn 2 buf2 in
          (* buf contains at least ".F" otherwise ignore *)
          if (1 <? length buf3)%nat && (hd 0 buf3 =? dot) then
            let buf4 := tl buf3 in
            let n := Nat.min 6 (lead_digits buf4) in
            fraction <- read_number 4294967295 (firstn n buf4);;
            if (255 <? n)%nat then Panic PN_unwrap else   (* u8::try_from(n).unwrap() *)
            t <- ctx_partial (from_hmsf hour minute second fraction (N.of_nat n));;
            Ok (t, skipn n buf4)
          else t <- ctx_partial (from_hms hour minute second);; Ok (t, buf3)
      | Err _ => t <- ctx_partial (from_hm hour minute);; Ok (t, buf2)
      | Panic w => Panic w
      end
  | Err _ => t <- ctx_partial (from_h hour);; Ok (t, buf)
  | Panic w => Panic w
  end.

(* FixedOffset::east_opt / west_opt: |secs| < 86400 *)
Definition fixed_offset (secs : Z) : outcome Z :=
  if ((-86400 <? secs) && (secs <? 86400))%Z then Ok secs else Err E_secs_oob.

Definition parse_zone (buf : bytes) : outcome (option Z) :=
  match buf with
  | [] => Ok None
  | sign :: rest =>
      if (length buf <=? 4)%nat then Err E_eoe else
      tz_h <- read_number 4294967295 (firstn 2 rest);;
      tz_m <- read_number 4294967295 (firstn 2 (skipn 2 rest));;
      let s := (tz_h * 60 + tz_m) * 60 in
      if sign =? plus then
        _ <- guard (ok_east s) E_tz_comp;; z <- fixed_offset (Z.of_N s);; Ok (Some z)
      else if sign =? dash then
        _ <- guard (ok_west s) E_tz_comp;; z <- fixed_offset (- Z.of_N s);; Ok (Some z)
      else Err E_tz_sign
  end.

Definition parse_datetime_partial (buf : bytes) : outcome dicom_dt :=
  dr <- parse_date_partial buf;;
  let '(date, rest) := dr in
  tr <- match parse_time_partial rest with
        | Ok (t, b) => Ok (Some t, b)
        | Err _ => Ok (None, rest)
        | Panic w => Panic w
        end;;
  let '(time, buf) := tr in
  zone <- parse_zone buf;;
  match time with
  | Some tm => map_err (fun _ => E_dt_partials) (from_date_and_time date tm zone)
  | None => Ok (mkDT date None zone)
  end.


Definition odef {A} (o : option A) (a : A) : A := match o with Some x => x | None => a end.
Definition of_opt {A} (o : option A) (e : N) : outcome A := match o with Some x => Ok x | None => Err e end.

(** * Calendar (stands in for chrono::NaiveDate / NaiveTime) *)
Definition leap (y : N) : bool :=
  (y mod 4 =? 0) && (negb (y mod 100 =? 0) || (y mod 400 =? 0)).
Definition dim (y m : N) : N :=
  match m with
  | 1 => 31 | 2 => if leap y then 29 else 28 | 3 => 31 | 4 => 30 | 5 => 31 | 6 => 30
  | 7 => 31 | 8 => 31 | 9 => 30 | 10 => 31 | 11 => 30 | 12 => 31 | _ => 0
  end.
(* NaiveDate::from_ymd_opt(y, m, d).is_some(), for 0 <= y *)
Definition valid_ymd (y m d : N) : bool := (1 <=? m) && (m <=? 12) && (1 <=? d) && (d <=? dim y m).

Definition ymd : Type := (N * N * N)%type.
Definition hmsu : Type := (N * N * N * N)%type.
Definition from_ymd_opt (y m d : N) : option ymd := if valid_ymd y m d then Some (y, m, d) else None.

Definition days_before_year (y : Z) : Z :=
  (365 * y + (y + 3) / 4 - (y + 99) / 100 + (y + 399) / 400)%Z.
Definition month_offset (m : N) : Z :=
  match m with
  | 1 => 0%Z | 2 => 31%Z | 3 => 59%Z | 4 => 90%Z | 5 => 120%Z | 6 => 151%Z | 7 => 181%Z
  | 8 => 212%Z | 9 => 243%Z | 10 => 273%Z | 11 => 304%Z | _ => 334%Z
  end.
Definition days_before_month (y m : N) : Z :=
  (month_offset m + (if leap y && (2 <? m)%N then 1 else 0))%Z.
(* days since 0000-01-01 (proleptic Gregorian) *)
Definition day_num (p : ymd) : Z :=
  let '(y, m, d) := p in
  (days_before_year (Z.of_N y) + days_before_month y m + (Z.of_N d - 1))%Z.

(* NaiveTime::from_hms_micro_opt(h, m, s, us).is_some() *)
Definition valid_hmsu (h m s us : N) : bool :=
  (h <? 24) && (m <? 60) && (s <? 60) && ((us <? 1000000) || ((s =? 59) && (us <? 2000000))).
Definition from_hms_micro_opt (h m s us : N) : option hmsu :=
  if valid_hmsu h m s us then Some (h, m, s, us) else None.

(** * Full-precision parsers (deserialize.rs parse_date, parse_time) *)
Definition E_incomplete : N := 11.      (* IncompleteValue *)
Definition E_invalid_time : N := 12.    (* InvalidTime *)
Definition E_frac_delim : N := 13.      (* FractionDelimiter *)
Definition E_invalid_date : N := 14.    (* InvalidDate *)

Definition parse_date (buf : bytes) : outcome ymd :=
  let len := length buf in
  if (len =? 4)%nat then Err E_incomplete
  else if (len =? 6)%nat then Err E_incomplete
  else if (8 <=? len)%nat then
    year <- read_number 2147483647 (firstn 4 buf);;
    month <- read_number 4294967295 (firstn 2 (skipn 4 buf));;
    _ <- guard (ok_month month) E_tz_comp;;
    day <- read_number 4294967295 (firstn 2 (skipn 6 buf));;
    _ <- guard (ok_day day) E_tz_comp;;
    of_opt (from_ymd_opt year month day) E_invalid_date
  else Err E_eoe.

Definition parse_time (buf : bytes) : outcome (hmsu * bytes) :=
  let len := length buf in
  if (len =? 2)%nat then Err E_incomplete
  else if (len =? 4)%nat then Err E_incomplete
  else if (len =? 6)%nat || (8 <=? len)%nat then
    hour <- read_number 4294967295 (firstn 2 buf);;
    _ <- guard (ok_hour hour) E_tz_comp;;
    minute <- read_number 4294967295 (firstn 2 (skipn 2 buf));;
    _ <- guard (ok_minute minute) E_tz_comp;;
    second <- read_number 4294967295 (firstn 2 (skipn 4 buf));;
    _ <- guard (ok_second second) E_tz_comp;;
    let rest := skipn 6 buf in
    if (len =? 6)%nat then
      (* NaiveTime::from_hms_opt *)
      t <- of_opt (from_hms_micro_opt hour minute second 0) E_invalid_time;; Ok (t, rest)
    else if negb (hd 0 rest =? 46) then Err E_frac_delim
    else
      let buf4 := tl rest in
      let n := Nat.min 6 (lead_digits buf4) in
      f0 <- read_number 4294967295 (firstn n buf4);;
      let fraction := f0 * 10 ^ (6 - N.of_nat n) in      (* while acc < 6 { fraction *= 10 } *)
      if 4294967295 <? fraction then Panic PN_overflow else
      _ <- guard (ok_fraction fraction) E_tz_comp;;
      t <- of_opt (from_hms_micro_opt hour minute second fraction) E_invalid_time;;
      Ok (t, skipn n buf4)
  else Err E_eoe.

(* microseconds since midnight *)
Definition time_us (t : hmsu) : Z :=
  let '(h, m, s, us) := t in
  (((Z.of_N h * 60 + Z.of_N m) * 60 + Z.of_N s) * 1000000 + Z.of_N us)%Z.
Definition day_us : Z := 86400000000%Z.
Definition ndt : Type := (ymd * hmsu)%type.          (* chrono::NaiveDateTime *)
Definition naive_us (p : ndt) : Z := (day_num (fst p) * day_us + time_us (snd p))%Z.
(* DateTime<FixedOffset> = local naive date-time + offset; compared by UTC instant *)
Definition utc_us (p : ndt) (off : Z) : Z := (naive_us p - off * 1000000)%Z.

(** * AsRange (range.rs) *)
Definition d_year d := match d with DYear y | DMonth y _ | DDay y _ _ => y end.
Definition d_month d := match d with DYear _ => None | DMonth _ m | DDay _ m _ => Some m end.
Definition d_day d := match d with DDay _ _ d => Some d | _ => None end.

Definition date_earliest (v : dicom_date) : outcome ymd :=
  of_opt (from_ymd_opt (d_year v) (odef (d_month v) 1) (odef (d_day v) 1)) R_invalid_date.

Definition date_latest (v : dicom_date) : outcome ymd :=
  let y := d_year v in
  let m := odef (d_month v) 12 in
  d <- match d_day v with
       | Some d => Ok d
       | None =>
           a <- of_opt (if m =? 12 then from_ymd_opt (y + 1) 1 1 else from_ymd_opt y (m + 1) 1) R_invalid_date;;
           b <- of_opt (from_ymd_opt y m 1) R_invalid_date;;
           Ok (Z.to_N ((day_num a - day_num b) mod 4294967296))   (* num_days() as u32 *)
       end;;
  of_opt (from_ymd_opt y m d) R_invalid_date.

Definition t_hour t := match t with THour h | TMinute h _ | TSecond h _ _ | TFrac h _ _ _ _ => h end.
Definition t_minute t := match t with THour _ => None | TMinute _ m | TSecond _ m _ | TFrac _ m _ _ _ => Some m end.
Definition t_second t := match t with TSecond _ _ s | TFrac _ _ s _ _ => Some s | _ => None end.
Definition t_frac t := match t with TFrac _ _ _ f fp => Some (f, fp) | _ => None end.

(* f * 10^(6 - fp) in u32: 6 - fp underflows for fp > 6, the product may overflow (both panic in
   debug builds only; no constructor yields such a value) *)
Definition frac_scaled (t : dicom_time) (extra : N -> N) (dflt : N) : outcome N :=
  match t_frac t with
  | None => Ok dflt
  | Some (f, fp) =>
      if 6 <? fp then Panic 3
      else let k := 10 ^ (6 - fp) in
           if 4294967295 <? f * k + extra k then Panic 1 else Ok (f * k + extra k)
  end.
Definition time_earliest (t : dicom_time) : outcome hmsu :=
  f <- frac_scaled t (fun _ => 0) 0;;
  of_opt (from_hms_micro_opt (t_hour t) (odef (t_minute t) 0) (odef (t_second t) 0) f) R_invalid_time_micro.
Definition time_latest (t : dicom_time) : outcome hmsu :=
  f <- frac_scaled t (fun k => k - 1) 999999;;
  of_opt (from_hms_micro_opt (t_hour t) (odef (t_minute t) 59) (odef (t_second t) 59) f) R_invalid_time_micro.

(* PreciseDateTime *)
Inductive precise : Type := PNaive (p : ndt) | PTz (p : ndt) (off : Z).
Definition with_zone (z : option Z) (p : ndt) : precise :=
  match z with Some off => PTz p off | None => PNaive p end.

Definition dt_earliest (v : dicom_dt) : outcome precise :=
  date <- date_earliest (dt_date v);;
  time <- match dt_time v with Some t => time_earliest t | None => Ok (0, 0, 0, 0) end;;
  Ok (with_zone (dt_zone v) (date, time)).
Definition dt_latest (v : dicom_dt) : outcome precise :=
  date <- date_latest (dt_date v);;
  time <- match dt_time v with Some t => time_latest t | None => Ok (23, 59, 59, 999999) end;;
  Ok (with_zone (dt_zone v) (date, time)).

(** * Ranges (range.rs) *)
Fixpoint position (c : N) (l : bytes) : option nat :=
  match l with
  | [] => None
  | b :: t => if b =? c then Some O else option_map S (position c t)
  end.

Definition date_range : Type := (option ymd * option ymd)%type.
Definition time_range : Type := (option hmsu * option hmsu)%type.

Definition date_from_start_to_end (s e : ymd) : outcome date_range :=
  if (day_num e <? day_num s)%Z then Err R_inversion else Ok (Some s, Some e).
Definition time_from_start_to_end (s e : hmsu) : outcome time_range :=
  if (time_us e <? time_us s)%Z then Err R_inversion else Ok (Some s, Some e).

Definition parse_date_range (buf : bytes) : outcome date_range :=
  if short 5 buf then Err R_eoe else
  match position dash buf with
  | None => Err R_nosep
  | Some sep =>
      let start := firstn sep buf in
      let end_ := skipn (S sep) buf in
      if (sep =? 0)%nat then
        r <- ctx_parse (parse_date_partial end_);; hi <- date_latest (fst r);; Ok (None, Some hi)
      else if (sep =? length buf - 1)%nat then
        r <- ctx_parse (parse_date_partial start);; lo <- date_earliest (fst r);; Ok (Some lo, None)
      else
        r <- ctx_parse (parse_date_partial start);; lo <- date_earliest (fst r);;
        r2 <- ctx_parse (parse_date_partial end_);; hi <- date_latest (fst r2);;
        date_from_start_to_end lo hi
  end.

Definition parse_time_range (buf : bytes) : outcome time_range :=
  if short 3 buf then Err R_eoe else
  match position dash buf with
  | None => Err R_nosep
  | Some sep =>
      let start := firstn sep buf in
      let end_ := skipn (S sep) buf in
      if (sep =? 0)%nat then
        r <- ctx_parse (parse_time_partial end_);; hi <- time_latest (fst r);; Ok (None, Some hi)
      else if (sep =? length buf - 1)%nat then
        r <- ctx_parse (parse_time_partial start);; lo <- time_earliest (fst r);; Ok (Some lo, None)
      else
        r <- ctx_parse (parse_time_partial start);; lo <- time_earliest (fst r);;
        r2 <- ctx_parse (parse_time_partial end_);; hi <- time_latest (fst r2);;
        time_from_start_to_end lo hi
  end.

(* DateTimeRange *)
Inductive dt_range : Type :=
| RNaive (s e : option ndt)
| RTz (s e : option (ndt * Z)).

(* AmbiguousDtRangeParser implementations; ToLocalTimeZone reads the system clock's
   offset, which is an input here *)
Inductive amb_mode : Type := AmbLocal (off : Z) | AmbKnown | AmbFail | AmbIgnore.

Definition tz_from_start_to_end (s : ndt) (so : Z) (e : ndt) (eo : Z) : outcome dt_range :=
  if (utc_us e eo <? utc_us s so)%Z then Err R_inversion else Ok (RTz (Some (s, so)) (Some (e, eo))).
Definition naive_from_start_to_end (s e : ndt) : outcome dt_range :=
  if (naive_us e <? naive_us s)%Z then Err R_inversion else Ok (RNaive (Some s) (Some e)).

Definition amb_start (mode : amb_mode) (s : ndt) (e : ndt) (eo : Z) : outcome dt_range :=
  match mode with
  | AmbLocal loc => tz_from_start_to_end s loc e eo
  | AmbKnown => tz_from_start_to_end s eo e eo
  | AmbFail => Err R_ambiguous
  | AmbIgnore => naive_from_start_to_end s e
  end.
Definition amb_end (mode : amb_mode) (s : ndt) (so : Z) (e : ndt) : outcome dt_range :=
  match mode with
  | AmbLocal loc => tz_from_start_to_end s so e loc
  | AmbKnown => tz_from_start_to_end s so e so
  | AmbFail => Err R_ambiguous
  | AmbIgnore => naive_from_start_to_end s e
  end.

(* the interval [lo, hi] as a DateTimeRange, with the ambiguity rule of [mode] *)
Definition combine (mode : amb_mode) (lo hi : precise) : outcome dt_range :=
  match lo, hi with
  | PNaive s, PNaive e => naive_from_start_to_end s e
  | PTz s so, PTz e eo => tz_from_start_to_end s so e eo
  | PNaive s, PTz e eo => amb_start mode s e eo
  | PTz s so, PNaive e => amb_end mode s so e
  end.

Fixpoint positions_from (i : nat) (c : N) (l : bytes) : list nat :=
  match l with
  | [] => []
  | b :: t => if b =? c then i :: positions_from (S i) c t else positions_from (S i) c t
  end.

Definition split_range (mode : amb_mode) (buf : bytes) (sep : nat) : outcome dt_range :=
  a <- ctx_parse (parse_datetime_partial (firstn sep buf));;
  lo <- dt_earliest a;;
  b <- ctx_parse (parse_datetime_partial (skipn (S sep) buf));;
  hi <- dt_latest b;;
  combine mode lo hi.

Definition parse_datetime_range (mode : amb_mode) (buf : bytes) : outcome dt_range :=
  if short 5 buf then Err R_eoe else
  if hd 0 buf =? dash then
    v <- ctx_parse (parse_datetime_partial (tl buf));;
    hi <- dt_latest v;;
    Ok (match hi with PNaive e => RNaive None (Some e) | PTz e eo => RTz None (Some (e, eo)) end)
  else if last buf 0 =? dash then
    v <- ctx_parse (parse_datetime_partial (firstn (length buf - 1) buf));;
    lo <- dt_earliest v;;
    Ok (match lo with PNaive s => RNaive (Some s) None | PTz s so => RTz (Some (s, so)) None end)
  else
    match positions_from 0 dash buf with
    | [] => Err R_nosep
    | [d0] => split_range mode buf d0
    | [d0; d1] =>
        match parse_datetime_partial (firstn d0 buf), parse_datetime_partial (skipn (S d0) buf) with
        | Panic w, _ => Panic w
        | _, Panic w => Panic w
        | Ok s, Ok e =>
            lo <- dt_earliest s;;
            hi <- dt_latest e;;
            match combine mode lo hi with
            | Ok r => Ok r
            | Err _ => split_range mode buf d1
            | Panic w => Panic w
            end
        | _, _ => split_range mode buf d1
        end
    | [_; d1; _] => split_range mode buf d1
    | _ => Err R_sepcount
    end.

(** * Property-side definitions *)
Definition date_le (a b : ymd) : Prop :=
  let '(y, m, d) := a in let '(y', m', d') := b in
  y < y' \/ (y = y' /\ (m < m' \/ (m = m' /\ d <= d'))).
Definition valid_date_p (p : ymd) : bool := let '(y, m, d) := p in valid_ymd y m d.
(* precise times without the leap-second representation *)
Definition valid_time_p (t : hmsu) : bool :=
  let '(h, m, s, us) := t in (h <? 24) && (m <? 60) && (s <? 60) && (us <? 1000000).
Definition valid_ndt (p : ndt) : bool := valid_date_p (fst p) && valid_time_p (snd p).

Definition omatch (o : option N) (x : N) : Prop := match o with Some v => v = x | None => True end.
(* a precise date agrees with every component the partial date has *)
Definition date_consistent (v : dicom_date) (p : ymd) : Prop :=
  let '(y, m, d) := p in d_year v = y /\ omatch (d_month v) m /\ omatch (d_day v) d.
Definition time_consistent (v : dicom_time) (t : hmsu) : Prop :=
  let '(h, m, s, us) := t in
  t_hour v = h /\ omatch (t_minute v) m /\ omatch (t_second v) s
  /\ match t_frac v with Some (f, fp) => us / 10 ^ (6 - fp) = f | None => True end.
Definition dt_consistent (v : dicom_dt) (p : ndt) : Prop :=
  date_consistent (dt_date v) (fst p)
  /\ match dt_time v with Some t => time_consistent t (snd p) | None => True end.

Definition calendar_ok (d : dicom_date) : bool :=
  match d with DDay y m d => d <=? dim y m | _ => true end.
Definition no_leap_second (t : dicom_time) : bool :=
  match t_second t with Some s => negb (s =? 60) | None => true end.

Definition instant_us (p : precise) : Z :=
  match p with PNaive q => naive_us q | PTz q off => utc_us q off end.

(** * Correspondence cases *)
Definition N3_eqb (a b : ymd) : bool :=
  let '(x, y, z) := a in let '(x', y', z') := b in (x =? x') && (y =? y') && (z =? z').
Definition N4_eqb (a b : hmsu) : bool :=
  let '(x, y, z, w) := a in let '(x', y', z', w') := b in (x =? x') && (y =? y') && (z =? z') && (w =? w').
Definition ndt_eqb (a b : ndt) : bool := N3_eqb (fst a) (fst b) && N4_eqb (snd a) (snd b).
Definition date_eqb (a b : dicom_date) : bool :=
  match a, b with
  | DYear y, DYear y' => y =? y'
  | DMonth y m, DMonth y' m' => (y =? y') && (m =? m')
  | DDay y m d, DDay y' m' d' => (y =? y') && (m =? m') && (d =? d')
  | _, _ => false
  end.
Definition time_eqb (a b : dicom_time) : bool :=
  match a, b with
  | THour h, THour h' => h =? h'
  | TMinute h m, TMinute h' m' => (h =? h') && (m =? m')
  | TSecond h m s, TSecond h' m' s' => (h =? h') && (m =? m') && (s =? s')
  | TFrac h m s f p, TFrac h' m' s' f' p' => (h =? h') && (m =? m') && (s =? s') && (f =? f') && (p =? p')
  | _, _ => false
  end.
Definition dt_eqb (a b : dicom_dt) : bool :=
  date_eqb (dt_date a) (dt_date b) && opt_eqb time_eqb (dt_time a) (dt_time b)
  && opt_eqb Z.eqb (dt_zone a) (dt_zone b).
Definition precise_eqb (a b : precise) : bool :=
  match a, b with
  | PNaive p, PNaive q => ndt_eqb p q
  | PTz p o, PTz q o' => ndt_eqb p q && (o =? o')%Z
  | _, _ => false
  end.
Definition tzp_eqb (a b : ndt * Z) : bool := ndt_eqb (fst a) (fst b) && (snd a =? snd b)%Z.
Definition dt_range_eqb (a b : dt_range) : bool :=
  match a, b with
  | RNaive s e, RNaive s' e' => opt_eqb ndt_eqb s s' && opt_eqb ndt_eqb e e'
  | RTz s e, RTz s' e' => opt_eqb tzp_eqb s s' && opt_eqb tzp_eqb e e'
  | _, _ => false
  end.
Definition pair_eqb {A B} (fa : A -> A -> bool) (fb : B -> B -> bool) (a b : A * B) : bool :=
  fa (fst a) (fst b) && fb (snd a) (snd b).
Definition out_eqb {A} (eqb : A -> A -> bool) (a b : outcome A) : bool :=
  match a, b with
  | Ok x, Ok y => eqb x y
  | Err e, Err e' => e =? e'
  | Panic _, Panic _ => true
  | _, _ => false
  end.

Inductive case : Type :=
(* value, impl to_encoded, impl byte length, earliest, latest, days from 0000-01-01 of earliest *)
| CDate (v : dicom_date) (enc : bytes) (len : N) (lo hi : outcome ymd) (lo_day : option Z)
| CTime (v : dicom_time) (enc : bytes) (len : N) (lo hi : outcome hmsu)
(* ... and the UTC microsecond timestamps (since 0000-01-01) of earliest/latest when zoned *)
| CDT (v : dicom_dt) (enc : bytes) (len : N) (lo hi : outcome precise) (lo_us : option Z)
(* constructors: kind 0 y / 1 ym / 2 ymd ; 0 h / 1 hm / 2 hms / 3 milli / 4 micro *)
| CMkDate (kind y m d : N) (r : outcome dicom_date)
| CMkTime (kind h m s f : N) (r : outcome dicom_time)
| CParseDate (buf : bytes) (r : outcome (dicom_date * bytes))
| CParseTime (buf : bytes) (r : outcome (dicom_time * bytes))
| CParseDT (buf : bytes) (r : outcome dicom_dt)
| CParseDateFull (buf : bytes) (r : outcome ymd)
| CParseTimeFull (buf : bytes) (r : outcome (hmsu * bytes))
| CDateRange (buf : bytes) (r : outcome date_range)
| CTimeRange (buf : bytes) (r : outcome time_range)
| CDTRange (mode : amb_mode) (buf : bytes) (r : outcome dt_range).

Definition check_case (c : case) : bool :=
  match c with
  | CDate v enc len lo hi lo_day =>
      str_eqb (date_enc v) enc && (da_byte_len v =? len)
      && out_eqb N3_eqb (date_earliest v) lo && out_eqb N3_eqb (date_latest v) hi
      && match lo_day, lo with Some n, Ok p => (day_num p =? n)%Z | None, Ok _ => false | _, _ => true end
  | CTime v enc len lo hi =>
      str_eqb (time_enc v) enc && (tm_byte_len v =? len)
      && out_eqb N4_eqb (time_earliest v) lo && out_eqb N4_eqb (time_latest v) hi
  | CDT v enc len lo hi lo_us =>
      str_eqb (dt_enc v) enc && (dt_byte_len v =? len)
      && out_eqb precise_eqb (dt_earliest v) lo && out_eqb precise_eqb (dt_latest v) hi
      && match lo_us, lo with Some n, Ok p => (instant_us p =? n)%Z | _, _ => true end
  | CMkDate kind y m d r =>
      out_eqb date_eqb (match kind with 0 => from_y y | 1 => from_ym y m | _ => from_ymd y m d end) r
  | CMkTime kind h m s f r =>
      out_eqb time_eqb (match kind with 0 => from_h h | 1 => from_hm h m | 2 => from_hms h m s
                                   | 3 => from_hms_milli h m s f | _ => from_hms_micro h m s f end) r
  | CParseDate buf r => out_eqb (pair_eqb date_eqb str_eqb) (parse_date_partial buf) r
  | CParseTime buf r => out_eqb (pair_eqb time_eqb str_eqb) (parse_time_partial buf) r
  | CParseDT buf r => out_eqb dt_eqb (parse_datetime_partial buf) r
  | CParseDateFull buf r => out_eqb N3_eqb (parse_date buf) r
  | CParseTimeFull buf r => out_eqb (pair_eqb N4_eqb str_eqb) (parse_time buf) r
  | CDateRange buf r =>
      out_eqb (pair_eqb (opt_eqb N3_eqb) (opt_eqb N3_eqb)) (parse_date_range buf) r
  | CTimeRange buf r =>
      out_eqb (pair_eqb (opt_eqb N4_eqb) (opt_eqb N4_eqb)) (parse_time_range buf) r
  | CDTRange mode buf r => out_eqb dt_range_eqb (parse_datetime_range mode buf) r
  end.
