(** Model of core/src/value/person_name.rs: [PersonName::to_dicom_string] and
    [PersonName::from_text]. Strings are lists of Unicode scalar values. *)
From DicomV Require Export Base.Str.

Record person_name := {
  family : option str; given : option str; middle : option str;
  prefix : option str; suffix : option str }.

Definition caret : N := 94.

(* components in wire order *)
Definition components (p : person_name) : list (option str) :=
  [family p; given p; middle p; prefix p; suffix p].

(* "consume trailing None components" *)
Fixpoint drop_trailing_none (l : list (option str)) : list (option str) :=
  match l with
  | [] => []
  | x :: l' =>
      match drop_trailing_none l', x with
      | [], None => []
      | r, _ => x :: r
      end
  end.

Definition comp_text (o : option str) : str := match o with Some s => s | None => [] end.

Definition to_dicom_string (p : person_name) : str :=
  join caret (map comp_text (drop_trailing_none (components p))).

Definition get_component (parts : list str) : option str * list str :=
  match parts with
  | [] => (None, [])
  | s :: rest => ((match s with [] => None | _ => Some s end), rest)
  end.

Definition parse_parts (parts : list str) : person_name :=
  let '(fa, parts) := get_component parts in
  let '(gi, parts) := get_component parts in
  let '(mi, parts) := get_component parts in
  let '(pr, parts) := get_component parts in
  let '(su, _) := get_component parts in
  {| family := fa; given := gi; middle := mi; prefix := pr; suffix := su |}.

Definition from_text (s : str) : person_name := parse_parts (split_on caret (trim s)).

(** Property-side definitions. *)
Definition clean_comp (o : option str) : bool :=
  match o with
  | None => true
  | Some s => no_charb caret s && negb (starts_ws s) && negb (ends_ws s)
  end.
Definition clean (p : person_name) : bool := forallb clean_comp (components p).

(* [Some ""] is indistinguishable from an absent component in the text form *)
Definition norm_comp (o : option str) : option str :=
  match o with Some [] => None | o => o end.
Definition norm (p : person_name) : person_name :=
  {| family := norm_comp (family p); given := norm_comp (given p);
     middle := norm_comp (middle p); prefix := norm_comp (prefix p);
     suffix := norm_comp (suffix p) |}.

(** Correspondence case: components, the text the implementation printed,
    and the components the implementation parsed back from that text. *)
Definition pn_eqb (a b : person_name) : bool :=
  list_eqb (opt_eqb str_eqb) (components a) (components b).
Definition mk (l : list (option str)) : person_name :=
  {| family := nth 0 l None; given := nth 1 l None; middle := nth 2 l None;
     prefix := nth 3 l None; suffix := nth 4 l None |}.
(* case = (components, impl to_dicom_string, arbitrary text, impl from_text of that text) *)
Definition check_case (c : list (option str) * str * str * list (option str)) : bool :=
  let '(comps, printed, text, parsed) := c in
  str_eqb (to_dicom_string (mk comps)) printed && pn_eqb (from_text text) (mk parsed).
