(** UTF-8 part of the text model (property C10): the UTF-8 codec of the `encoding`
    crate (codec/utf_8.rs) as driven by dicom-rs ([EncoderTrap::Strict],
    [DecoderTrap::Call(decode_text_trap)]), and [decode_text_trap] of
    encoding/src/text.rs. Separate from Model/Text.v so that it does not depend
    on the regenerated tables. No proofs of properties here. *)
From DicomV Require Export Base.Prelude.
Open Scope N_scope.

Definition err_encode : N := 1.   (* EncodeTextError *)
Definition err_decode : N := 2.   (* DecodeTextError *)

(** [decode_text_trap]: an undecodable byte becomes backslash + three octal digits. *)
Definition trap (b : N) : list N := [92; 48 + b / 64; 48 + (b / 8) mod 8; 48 + b mod 8].

(** UTF-8 (ISO_IR 192). Encoding copies the bytes of the Rust [str]. *)
Definition is_scalar (c : N) : bool := (c <? 55296) || ((57343 <? c) && (c <? 1114112)).
(* shifts and masks rather than / and mod: same numbers, much cheaper to evaluate *)
Definition low6 (c : N) : N := N.lor 128 (N.land c 63).
Definition utf8_enc_char (c : N) : bytes :=
  if c <? 128 then [c]
  else if c <? 2048 then [N.lor 192 (N.shiftr c 6); low6 c]
  else if c <? 65536 then [N.lor 224 (N.shiftr c 12); low6 (N.shiftr c 6); low6 c]
  else [N.lor 240 (N.shiftr c 18); low6 (N.shiftr c 12); low6 (N.shiftr c 6); low6 c].
Definition utf8_encode (s : list N) : outcome bytes :=
  if forallb is_scalar s then Ok (flat_map utf8_enc_char s) else Err err_encode.

(** [UTF8Decoder]: CHAR_CATEGORY and STATE_TRANSITIONS of codec/utf_8.rs. *)
Definition u_cat (b : N) : N :=
  if b <? 128 then 0 else if b <? 144 then 1 else if b <? 160 then 9 else if b <? 192 then 7
  else if b <? 194 then 8 else if b <? 224 then 2 else if b =? 224 then 10 else if b <? 237 then 3
  else if b =? 237 then 4 else if b <? 240 then 3 else if b =? 240 then 11 else if b <? 244 then 6
  else if b =? 244 then 5 else 8.
Definition u_next (st cat : N) : N :=
  match st with
  | 0 => match cat with
         | 0 => 0 | 2 => 12 | 3 => 24 | 4 => 48 | 5 => 84 | 6 => 72 | 10 => 36 | 11 => 60 | _ => 98
         end
  | 12 => match cat with 1 | 7 | 9 => 0 | _ => 86 end
  | 24 => match cat with 1 | 7 | 9 => 12 | _ => 86 end
  | 36 => match cat with 7 => 12 | _ => 86 end
  | 48 => match cat with 1 | 9 => 12 | _ => 86 end
  | 60 => match cat with 7 | 9 => 24 | _ => 86 end
  | 72 => match cat with 1 | 7 | 9 => 24 | _ => 86 end
  | 84 => match cat with 1 => 24 | _ => 86 end
  | _ => 98
  end.
Definition u_lead_bits (b : N) : N := if b <? 224 then N.land b 31 else if b <? 240 then N.land b 15 else N.land b 7.
Definition u_push (cp b : N) : N := N.lor (N.shiftl cp 6) (N.land b 63).

(* decoder state: DFA state, first byte of the pending sequence, code point bits so far *)
Definition ustate : Type := N * N * N.
Definition u_init : ustate := (0, 0, 0).

(** One byte. On a reject "with backup" (state 86) the pending bytes are the
    problem: the trap prints the first of them, and the current byte is
    processed again from the initial state; on a plain reject (98) the byte
    itself is the problem. *)
Definition u_step (s : ustate) (b : N) : ustate * str :=
  let '(st, first, cp) := s in
  let st' := u_next st (u_cat b) in
  if st' =? 0 then (u_init, [if st =? 0 then b else u_push cp b])
  else if st' =? 98 then (u_init, trap b)
  else if st' =? 86 then
    let st0 := u_next 0 (u_cat b) in
    if st0 =? 0 then (u_init, trap first ++ [b])
    else if st0 =? 98 then (u_init, trap first ++ trap b)
    else ((st0, b, u_lead_bits b), trap first)
  else if st =? 0 then ((st', b, u_lead_bits b), [])
  else ((st', first, u_push cp b), []).
Definition u_finish (s : ustate) : list N := let '(st, first, _) := s in if st =? 0 then [] else trap first.
Fixpoint u_run (s : ustate) (bs : list N) : list N :=
  match bs with
  | [] => u_finish s
  | b :: r => let '(s', out) := u_step s b in out ++ u_run s' r
  end.
Definition utf8_decode (bs : list N) : outcome str := Ok (u_run u_init bs).

