(** Correspondence checker of C29: requestor model + acceptor model + wire,
    instantiated with the regenerated registry table. *)
From DicomV Require Export Model.Client Model.NegotiateCheck.

(** (calling, called, with_presentation_context arguments, max_pdu_length argument, extra items) *)
Definition raw_ccfg : Type := str * option str * list (str * list str) * N * nat.
Definition mk_ccfg (r : raw_ccfg) : client_cfg :=
  let '(calling, called, pcs, maxr, extra) := r in
  let c0 := {| cc_calling := calling; cc_called := called; cc_app_ctx := default_app_ctx; cc_pcs := [];
               cc_proto := 1; cc_max_pdu := set_max_pdu maxr; cc_extra := extra |} in
  fold_left (fun c pc => with_presentation_context c (fst pc) (snd pc)) pcs c0.

(** transport-level failure of [establish] (read/write error, connection closed, unusable local maximum) *)
Definition E_TRANSPORT : N := 20.

Definition side := outcome (list pc_negotiated * N * N).   (* contexts, peer maximum, own maximum *)

(** Both [establish] calls over a reliable connection. *)
Definition establish_pair (cc : client_cfg) (sc : server_cfg) (ae : option str) : side * side :=
  if negb (can_establish sc) then (Err E_MISSING_ABSTRACT, Err E_TRANSPORT) else
  match create_rq cc ae with
  | Ok (proposed, rq) =>
      if negb (valid_local_max (sc_max_pdu sc)) then (Err E_TRANSPORT, Err E_TRANSPORT) else
      let so := process_rq reg_table sc (InRQ (wire_rq rq)) in
      let s : side := match so with
                      | OAccept pcs pm _ am _ _ _ => Ok (pcs, pm, am)
                      | OReject _ _ => Err E_REJECTED
                      | OReleaseRP => Err E_ABORTED
                      | OAbort _ e => Err e
                      end in
      let c : side := if negb (valid_local_max (cc_max_pdu cc)) then Err E_TRANSPORT
                      else match process_resp cc proposed (reply_of sc so) with
                           | Ok (pcs, m, _) => Ok (pcs, m, cc_max_pdu cc)
                           | Err e => Err e
                           | Panic w => Panic w
                           end in
      (s, c)
  | Err e => (Err E_TRANSPORT, Err e)
  | Panic w => (Err E_TRANSPORT, Panic w)
  end.

Definition side_eqb (a b : side) : bool :=
  match a, b with
  | Ok (p1, m1, o1), Ok (p2, m2, o2) => list_eqb pcn_eqb p1 p2 && (m1 =? m2) && (o1 =? o2)
  | Err e1, Err e2 => e1 =? e2
  | Panic _, Panic _ => true
  | _, _ => false
  end.

Definition unit_out_eqb (a b : outcome unit) : bool :=
  match a, b with
  | Ok _, Ok _ => true
  | Err e1, Err e2 => e1 =? e2
  | Panic _, Panic _ => true
  | _, _ => false
  end.

Inductive c29_case :=
| CCompose (cc : raw_ccfg) (sc : raw_cfg) (ae : option str)
           (obs : outcome (list pc_proposed * assoc_rq * rq_outcome * outcome (list pc_negotiated * N * str)))
| CTcp (cc : raw_ccfg) (sc : raw_cfg) (ae : option str) (s c : side)
| CSend (peer_max : N) (sends : list (N * outcome unit)).

Definition check_case (k : c29_case) : bool :=
  match k with
  | CCompose cc sc ae obs =>
      match create_rq (mk_ccfg cc) ae, obs with
      | Ok (proposed, rq), Ok (p', rq', so', co') =>
          let so := process_rq reg_table (mk_cfg sc) (InRQ (wire_rq rq)) in
          list_eqb pp_eqb proposed p' && rq_eqb rq rq' && outcome_eqb so so'
          && client_out_eqb (process_resp (mk_ccfg cc) proposed (reply_of (mk_cfg sc) so)) co'
      | Err e, Err e' => e =? e'
      | _, _ => false
      end
  | CTcp cc sc ae s c =>
      let '(ms, mc) := establish_pair (mk_ccfg cc) (mk_cfg sc) ae in
      side_eqb ms s && side_eqb mc c
  | CSend peer_max sends =>
      forallb (fun lr => unit_out_eqb (send_check peer_max (fst lr)) (snd lr)) sends
  end.
