(** Model of the DICOM upper-layer PDU codec:
      ul/src/pdu/mod.rs     (the PDU value types and their code tables)
      ul/src/pdu/writer.rs  (write_pdu, write_chunk_u16, write_chunk_u32, the item writers)
      ul/src/pdu/reader.rs  (read_pdu, read_pdu_variable)
    Strings are lists of Unicode scalar values; the text codec of the PDU
    layer is [DefaultCharacterSetCodec] = ISO-8859-1 (decode: byte = code point,
    never fails; encode: fails on a code point >= 256).  All integer fields are
    big-endian.  No proofs of properties in this file. *)
From DicomV Require Export Base.Prelude Base.Endian Base.Str Base.Pack.

(** * PDU values (mod.rs) *)
Inductive rj_result := RjPermanent | RjTransient.
Inductive rj_user_reason :=
  SuNoReasonGiven | SuAppContextNotSupported | SuCallingNotRecognized | SuCalledNotRecognized | SuReserved (x : N).
Inductive rj_asce_reason := AsceNoReasonGiven | AsceProtocolVersionNotSupported.
Inductive rj_pres_reason := PresTemporaryCongestion | PresLocalLimitExceeded | PresReserved (x : N).
Inductive rj_source :=
  RjServiceUser (r : rj_user_reason) | RjProviderAsce (r : rj_asce_reason) | RjProviderPres (r : rj_pres_reason).
Inductive abort_reason :=
  AbReasonNotSpecified | AbUnrecognizedPdu | AbUnexpectedPdu | AbReservedReason
  | AbUnrecognizedPduParameter | AbUnexpectedPduParameter | AbInvalidPduParameter.
Inductive abort_source := AbServiceUser | AbServiceProvider (r : abort_reason) | AbReserved.
Inductive pc_reason := PcAcceptance | PcUserRejection | PcNoReason | PcAbstractNotSupported | PcTransferNotSupported.
Inductive identity_type := IdUsername | IdUsernamePassword | IdKerberos | IdSaml | IdJwt.

Record pc_proposed := { pp_id : N; pp_abstract : str; pp_ts : list str }.
Record pc_result := { pr_id : N; pr_reason : pc_reason; pr_ts : str }.

Inductive user_var :=
| UvUnknown (t : N) (data : bytes)
| UvMaxLength (n : N)
| UvImplClassUid (s : str)
| UvImplVersion (s : str)
| UvSopExt (uid : str) (data : bytes)
| UvRole (uid : str) (scu scp : bool)
| UvIdentity (positive : bool) (ty : identity_type) (primary secondary : bytes).

Record pdv := { pdv_id : N; pdv_command : bool; pdv_last : bool; pdv_data : bytes }.

Inductive pdu :=
| Unknown (t : N) (data : bytes)
| AssocRQ (version : N) (calling called app_context : str) (pcs : list pc_proposed) (uvs : list user_var)
| AssocAC (version : N) (calling called app_context : str) (pcs : list pc_result) (uvs : list user_var)
| AssocRJ (result : rj_result) (source : rj_source)
| PData (values : list pdv)
| ReleaseRQ
| ReleaseRP
| AbortRQ (source : abort_source).

(** Code tables of the writer. *)
Definition rj_result_code (r : rj_result) : N := match r with RjPermanent => 1 | RjTransient => 2 end.
Definition rj_source_codes (s : rj_source) : N * N :=
  match s with
  | RjServiceUser r => (1, match r with
                           | SuNoReasonGiven => 1 | SuAppContextNotSupported => 2
                           | SuCallingNotRecognized => 3 | SuCalledNotRecognized => 7
                           | SuReserved x => x end)
  | RjProviderAsce r => (2, match r with AsceNoReasonGiven => 1 | AsceProtocolVersionNotSupported => 2 end)
  | RjProviderPres r => (3, match r with PresTemporaryCongestion => 1 | PresLocalLimitExceeded => 2
                                    | PresReserved x => x end)
  end.
Definition abort_codes (s : abort_source) : N * N :=
  match s with
  | AbServiceUser => (0, 0)
  | AbReserved => (1, 0)
  | AbServiceProvider r => (2, match r with
      | AbReasonNotSpecified => 0 | AbUnrecognizedPdu => 1 | AbUnexpectedPdu => 2 | AbReservedReason => 3
      | AbUnrecognizedPduParameter => 4 | AbUnexpectedPduParameter => 5 | AbInvalidPduParameter => 6 end)
  end.
Definition pc_reason_code (r : pc_reason) : N :=
  match r with PcAcceptance => 0 | PcUserRejection => 1 | PcNoReason => 2
             | PcAbstractNotSupported => 3 | PcTransferNotSupported => 4 end.
Definition identity_code (t : identity_type) : N :=
  match t with IdUsername => 1 | IdUsernamePassword => 2 | IdKerberos => 3 | IdSaml => 4 | IdJwt => 5 end.
Definition b2n (b : bool) : N := if b then 1 else 0.

(** Code tables of the reader ([...::from] in mod.rs). *)
Definition rj_result_of (c : N) : option rj_result :=
  if c =? 1 then Some RjPermanent else if c =? 2 then Some RjTransient else None.
Definition rj_source_of (s r : N) : option rj_source :=
  if s =? 1 then
    if r =? 1 then Some (RjServiceUser SuNoReasonGiven)
    else if r =? 2 then Some (RjServiceUser SuAppContextNotSupported)
    else if r =? 3 then Some (RjServiceUser SuCallingNotRecognized)
    else if (r =? 4) || (r =? 5) || (r =? 6) then Some (RjServiceUser (SuReserved r))
    else if r =? 7 then Some (RjServiceUser SuCalledNotRecognized)
    else if (r =? 8) || (r =? 9) || (r =? 10) then Some (RjServiceUser (SuReserved r))
    else None
  else if s =? 2 then
    if r =? 1 then Some (RjProviderAsce AsceNoReasonGiven)
    else if r =? 2 then Some (RjProviderAsce AsceProtocolVersionNotSupported)
    else None
  else if s =? 3 then
    if r =? 0 then Some (RjProviderPres (PresReserved 0))
    else if r =? 1 then Some (RjProviderPres PresTemporaryCongestion)
    else if r =? 2 then Some (RjProviderPres PresLocalLimitExceeded)
    else if (r =? 3) || (r =? 4) || (r =? 5) || (r =? 6) || (r =? 7) then Some (RjProviderPres (PresReserved r))
    else None
  else None.
Definition abort_source_of (s r : N) : option abort_source :=
  if s =? 0 then Some AbServiceUser
  else if s =? 1 then Some AbReserved
  else if s =? 2 then
    if r =? 0 then Some (AbServiceProvider AbReasonNotSpecified)
    else if r =? 1 then Some (AbServiceProvider AbUnrecognizedPdu)
    else if r =? 2 then Some (AbServiceProvider AbUnexpectedPdu)
    else if r =? 3 then Some (AbServiceProvider AbReservedReason)
    else if r =? 4 then Some (AbServiceProvider AbUnrecognizedPduParameter)
    else if r =? 5 then Some (AbServiceProvider AbUnexpectedPduParameter)
    else if r =? 6 then Some (AbServiceProvider AbInvalidPduParameter)
    else None
  else None.
Definition pc_reason_of (c : N) : option pc_reason :=
  if c =? 0 then Some PcAcceptance else if c =? 1 then Some PcUserRejection
  else if c =? 2 then Some PcNoReason else if c =? 3 then Some PcAbstractNotSupported
  else if c =? 4 then Some PcTransferNotSupported else None.
Definition identity_of (c : N) : option identity_type :=
  if c =? 1 then Some IdUsername else if c =? 2 then Some IdUsernamePassword
  else if c =? 3 then Some IdKerberos else if c =? 4 then Some IdSaml
  else if c =? 5 then Some IdJwt else None.

(** * Byte layout (pure): what the writer emits when nothing fails. *)
Definition len (b : list N) : N := N.of_nat (length b).
Arguments len : simpl never.
Arguments be16 : simpl never.
Arguments be32 : simpl never.

(* [ae_title_bytes.resize(16, b' ')]: pad with spaces or truncate *)
Definition pad16 (s : bytes) : bytes := firstn 16 (s ++ repeat 32 16%nat).
(* a two-byte header (type, reserved 0), a 16-bit length, the content *)
Definition item (t : N) (content : bytes) : bytes := t :: 0 :: be16 (len content) ++ content.
Definition lp16 (content : bytes) : bytes := be16 (len content) ++ content.

(* content (c_) and whole item (e_) of the variable items *)
Definition c_pc_proposed (p : pc_proposed) : bytes :=
  [pp_id p; 0; 0; 0] ++ item 48 (pp_abstract p) ++ concat (map (item 64) (pp_ts p)).
Definition e_pc_proposed (p : pc_proposed) : bytes := item 32 (c_pc_proposed p).
Definition c_pc_result (p : pc_result) : bytes :=
  [pr_id p; 0; pc_reason_code (pr_reason p); 0] ++ item 64 (pr_ts p).
Definition e_pc_result (p : pc_result) : bytes := item 33 (c_pc_result p).
Definition t_user_var (v : user_var) : N :=
  match v with
  | UvMaxLength _ => 81 | UvImplClassUid _ => 82 | UvImplVersion _ => 85 | UvRole _ _ _ => 84
  | UvSopExt _ _ => 86 | UvIdentity _ _ _ _ => 88 | UvUnknown t _ => t
  end.
Definition c_user_var (v : user_var) : bytes :=
  match v with
  | UvMaxLength n => be32 n
  | UvImplClassUid s => s
  | UvImplVersion s => s
  | UvRole uid scu scp => lp16 uid ++ [b2n scu; b2n scp]
  | UvSopExt uid data => lp16 uid ++ data
  | UvIdentity pos ty prim sec => [identity_code ty; b2n pos] ++ lp16 prim ++ lp16 sec
  | UvUnknown t data => data
  end.
Definition e_user_var (v : user_var) : bytes := item (t_user_var v) (c_user_var v).
Definition e_user_vars (uvs : list user_var) : bytes :=
  match uvs with [] => [] | _ => item 80 (concat (map e_user_var uvs)) end.
Definition e_pdv (v : pdv) : bytes :=
  be32 (2 + len (pdv_data v)) ++ pdv_id v :: (b2n (pdv_command v) + 2 * b2n (pdv_last v)) :: pdv_data v.
Definition e_assoc_head (version : N) (called calling : str) : bytes :=
  be16 version ++ [0; 0] ++ pad16 called ++ pad16 calling ++ repeat 0 32%nat.

Definition pdu_type (p : pdu) : N :=
  match p with
  | AssocRQ _ _ _ _ _ _ => 1 | AssocAC _ _ _ _ _ _ => 2 | AssocRJ _ _ => 3 | PData _ => 4
  | ReleaseRQ => 5 | ReleaseRP => 6 | AbortRQ _ => 7 | Unknown t _ => t
  end.
Definition e_body (p : pdu) : bytes :=
  match p with
  | AssocRQ ver calling called app pcs uvs =>
      e_assoc_head ver called calling ++ item 16 app ++ concat (map e_pc_proposed pcs) ++ e_user_vars uvs
  | AssocAC ver calling called app pcs uvs =>
      e_assoc_head ver called calling ++ item 16 app ++ concat (map e_pc_result pcs) ++ e_user_vars uvs
  | AssocRJ r s => [0; rj_result_code r; fst (rj_source_codes s); snd (rj_source_codes s)]
  | PData vs => concat (map e_pdv vs)
  | ReleaseRQ | ReleaseRP => [0; 0; 0; 0]
  | AbortRQ s => [0; 0; fst (abort_codes s); snd (abort_codes s)]
  | Unknown _ data => data
  end.
Definition e_pdu (p : pdu) : bytes := pdu_type p :: 0 :: be32 (len (e_body p)) ++ e_body p.

(** * Writer (writer.rs), with its failures.
    Error classes of [write_pdu]. *)
Definition W_Encode : N := 1.     (* EncodeField: a character outside ISO-8859-1 *)
Definition W_TooLarge : N := 2.   (* WriteChunk/WriteLength: content does not fit the length field (fix 27e8911) *)

Definition latin1 (s : str) : bool := forallb (fun c => c <? 256) s.
Definition encode (s : str) : outcome bytes := if latin1 s then Ok s else Err W_Encode.

(* sequential composition of the pieces written by a closure: the first failure wins *)
Fixpoint cat (l : list (outcome bytes)) : outcome bytes :=
  match l with
  | [] => Ok []
  | o :: r => a <- o ;; b <- cat r ;; Ok (a ++ b)
  end.

(* write_chunk_u16 / write_chunk_u32: build the content, then length + content.
   Since fix 27e8911 a content longer than the length field can express is an error
   (before: [data.len() as u16], i.e. [len mod 65536], and Ok). *)
Definition chunk16 (body : outcome bytes) : outcome bytes :=
  d <- body ;; if 65535 <? len d then Err W_TooLarge else Ok (be16 (len d) ++ d).
Definition chunk32 (body : outcome bytes) : outcome bytes :=
  d <- body ;; if 4294967295 <? len d then Err W_TooLarge else Ok (be32 (len d) ++ d).

Definition w_item (t : N) (body : outcome bytes) : outcome bytes := cat [Ok [t; 0]; chunk16 body].
Definition w_ae (s : str) : outcome bytes := e <- encode s ;; Ok (pad16 e).

Definition w_pc_proposed (p : pc_proposed) : outcome bytes :=
  w_item 32 (cat (Ok [pp_id p; 0; 0; 0] :: w_item 48 (encode (pp_abstract p))
                  :: map (fun ts => w_item 64 (encode ts)) (pp_ts p))).
Definition w_pc_result (p : pc_result) : outcome bytes :=
  w_item 33 (cat [Ok [pr_id p; 0; pc_reason_code (pr_reason p); 0]; w_item 64 (encode (pr_ts p))]).
Definition w_user_var (v : user_var) : outcome bytes :=
  match v with
  | UvMaxLength n => w_item 81 (Ok (be32 n))
  | UvImplVersion s => w_item 85 (encode s)
  | UvImplClassUid s => w_item 82 (encode s)
  | UvRole uid scu scp => w_item 84 (cat [chunk16 (encode uid); Ok [b2n scu; b2n scp]])
  | UvSopExt uid data => w_item 86 (cat [chunk16 (encode uid); Ok data])
  | UvIdentity pos ty prim sec =>
      w_item 88 (cat [Ok [identity_code ty; b2n pos]; chunk16 (Ok prim); chunk16 (Ok sec)])
  | UvUnknown t data => w_item t (Ok data)
  end.
Definition w_user_vars (uvs : list user_var) : outcome bytes :=
  match uvs with
  | [] => Ok []          (* "if user_variables.is_empty() return Ok(())": no User Information item at all *)
  | _ => w_item 80 (cat (map w_user_var uvs))
  end.
Definition w_pdv (v : pdv) : outcome bytes :=
  chunk32 (Ok (pdv_id v :: (b2n (pdv_command v) + 2 * b2n (pdv_last v)) :: pdv_data v)).
Definition w_assoc_head (version : N) (called calling : str) : list (outcome bytes) :=
  [Ok (be16 version ++ [0; 0]); w_ae called; w_ae calling; Ok (repeat 0 32%nat)].

Definition w_body (p : pdu) : outcome bytes :=
  match p with
  | AssocRQ ver calling called app pcs uvs =>
      cat (w_assoc_head ver called calling ++ w_item 16 (encode app) :: map w_pc_proposed pcs ++ [w_user_vars uvs])
  | AssocAC ver calling called app pcs uvs =>
      cat (w_assoc_head ver called calling ++ w_item 16 (encode app) :: map w_pc_result pcs ++ [w_user_vars uvs])
  | AssocRJ r s => Ok [0; rj_result_code r; fst (rj_source_codes s); snd (rj_source_codes s)]
  | PData vs => cat (map w_pdv vs)
  | ReleaseRQ | ReleaseRP => Ok [0; 0; 0; 0]
  | AbortRQ s => Ok [0; 0; fst (abort_codes s); snd (abort_codes s)]
  | Unknown _ data => Ok data
  end.
Definition write_pdu (p : pdu) : outcome bytes := cat [Ok [pdu_type p; 0]; chunk32 (w_body p)].

(** * Reader (reader.rs).  Error classes of [read_pdu]. *)
Definition E_InvalidMaxPdu : N := 1.
Definition E_PduTooLarge : N := 2.
Definition E_FieldLength : N := 3.       (* InvalidPduFieldLength *)
Definition E_ItemLength : N := 4.        (* InvalidItemLength *)
Definition E_InvalidPduVariable : N := 5.
Definition E_ReadUserVariable : N := 6.
Definition E_MissingAppContext : N := 7.
Definition E_RejectCode : N := 8.        (* InvalidRejectSourceOrReason *)
Definition E_AbortCode : N := 9.         (* InvalidAbortSourceOrReason *)
Definition E_PcReason : N := 10.         (* InvalidPresentationContextResultReason *)
Definition E_TsSubItem : N := 11.        (* InvalidTransferSyntaxSubItem *)
Definition E_PcSubItem : N := 12.        (* UnknownPresentationContextSubItem *)
Definition E_MultipleTs : N := 13.       (* MultipleTransferSyntaxesAccepted *)
Definition E_MissingAbstract : N := 14.
Definition E_MissingTs : N := 15.
Definition E_ShortSopExt : N := 16.      (* ShortSopClassExtendedNegotiationItemLength *)
Definition E_Fuel : N := 90.             (* model artefact: never returned (fuel = buffer length) *)

Definition MINIMUM_PDU_SIZE : N := 1018.
Definition MAXIMUM_PDU_SIZE : N := 4294967288.
Definition max_ok (max : N) : bool := (MINIMUM_PDU_SIZE <=? max) && (max <=? MAXIMUM_PDU_SIZE).

(* [bytes::Buf] primitives over a byte list; [None] = not enough bytes *)
Definition u8 (b : bytes) : option (N * bytes) :=
  match b with x :: r => Some (x, r) | [] => None end.
Definition u16 (b : bytes) : option (N * bytes) :=
  match b with x :: y :: r => Some (be_val [x; y], r) | _ => None end.
Definition u32 (b : bytes) : option (N * bytes) :=
  match b with x :: y :: z :: w :: r => Some (be_val [x; y; z; w], r) | _ => None end.
Definition take (n : N) (b : bytes) : option (bytes * bytes) :=
  if len b <? n then None else Some (firstn (N.to_nat n) b, skipn (N.to_nat n) b).
Arguments take : simpl never.

(* [Result<Option<_>>]: Ok None = "not enough bytes" *)
Definition rbind {A B} (o : outcome (option A)) (f : A -> outcome (option B)) : outcome (option B) :=
  match o with
  | Ok (Some a) => f a
  | Ok None => Ok None
  | Err e => Err e
  | Panic w => Panic w
  end.
Notation "' p <-? o ;; f" := (rbind o (fun p => f))
  (at level 61, p pattern, o at next level, right associativity).
Notation "x <-? o ;; f" := (rbind o (fun x => f))
  (at level 61, o at next level, right associativity).
(* "if buf.remaining() < k { return Ok(None) }" followed by the read *)
Definition inc {A} (o : option A) : outcome (option A) :=
  match o with Some a => Ok (Some a) | None => Ok None end.
(* an unguarded [get_*]/[copy_to_bytes] panics when the buffer is short *)
Definition must {A} (o : option A) : outcome (option A) :=
  match o with Some a => Ok (Some a) | None => Panic 1 end.
Definition ret {A} (a : A) : outcome (option A) := Ok (Some a).

(* item-type, reserved, 16-bit length: three guarded reads *)
Definition r_hdr (b : bytes) : outcome (option (N * N * bytes)) :=
  ' (t, b) <-? inc (u8 b) ;; ' (_, b) <-? inc (u8 b) ;; ' (l, b) <-? inc (u16 b) ;; ret (t, l, b).

(* sub-items of a proposed presentation context (0x20) *)
Fixpoint r_pcp_loop (fuel : nat) (b : bytes) (abs : option str) (ts : list str)
  : outcome (option (option str * list str)) :=
  match b with
  | [] => ret (abs, ts)
  | _ :: _ =>
    match fuel with
    | O => Err E_Fuel
    | S f =>
      ' (t, l, b) <-? r_hdr b ;;
      if t =? 48 then ' (s, b) <-? inc (take l b) ;; r_pcp_loop f b (Some (trim s)) ts
      else if t =? 64 then ' (s, b) <-? inc (take l b) ;; r_pcp_loop f b abs (ts ++ [trim s])
      else Err E_PcSubItem
    end
  end.
Definition r_pc_proposed (b : bytes) : outcome (option pc_proposed) :=
  ' (id, b) <-? inc (u8 b) ;; ' (_, b) <-? inc (u8 b) ;; ' (_, b) <-? inc (u8 b) ;; ' (_, b) <-? inc (u8 b) ;;
  ' (abs, ts) <-? r_pcp_loop (length b) b None [] ;;
  match abs with
  | Some a => ret {| pp_id := id; pp_abstract := a; pp_ts := ts |}
  | None => Err E_MissingAbstract
  end.

(* sub-items of a presentation context result (0x21) *)
Fixpoint r_pcr_loop (fuel : nat) (b : bytes) (ts : option str) : outcome (option (option str)) :=
  match b with
  | [] => ret ts
  | _ :: _ =>
    match fuel with
    | O => Err E_Fuel
    | S f =>
      ' (t, l, b) <-? r_hdr b ;;
      if t =? 64 then
        match ts with
        | Some _ => Err E_MultipleTs
        | None => ' (s, b) <-? inc (take l b) ;; r_pcr_loop f b (Some (trim s))
        end
      else Err E_TsSubItem
    end
  end.
Definition r_pc_result (b : bytes) : outcome (option pc_result) :=
  ' (id, b) <-? inc (u8 b) ;; ' (_, b) <-? inc (u8 b) ;;
  ' (rc, b) <-? inc (u8 b) ;;
  match pc_reason_of rc with
  | None => Err E_PcReason
  | Some reason =>
    ' (_, b) <-? inc (u8 b) ;;
    ts <-? r_pcr_loop (length b) b None ;;
    match ts with
    | Some s => ret {| pr_id := id; pr_reason := reason; pr_ts := s |}
    | None => Err E_MissingTs
    end
  end.

(* one sub-item of the User Information item (0x50): the values pushed (none for an
   unknown user identity type, which is only logged) and the remaining bytes.
   Note that 0x51, 0x54 and 0x58 ignore the item length. *)
Definition r_user_sub (b : bytes) : outcome (option (list user_var * bytes)) :=
  ' (t, l, b) <-? r_hdr b ;;
  if t =? 81 then ' (n, b) <-? inc (u32 b) ;; ret ([UvMaxLength n], b)
  else if t =? 82 then ' (s, b) <-? inc (take l b) ;; ret ([UvImplClassUid (trim s)], b)
  else if t =? 84 then
    ' (ul, b) <-? inc (u16 b) ;; ' (uid, b) <-? inc (take ul b) ;;
    ' (scu, b) <-? inc (u8 b) ;; ' (scp, b) <-? inc (u8 b) ;;
    ret ([UvRole (trim uid) (negb (scu =? 0)) (negb (scp =? 0))], b)
  else if t =? 85 then ' (s, b) <-? inc (take l b) ;; ret ([UvImplVersion (trim s)], b)
  else if t =? 86 then
    ' (ul, b) <-? inc (u16 b) ;;
    if len b <? ul then Ok None
    else if 65535 <? 2 + ul then Panic 2      (* [2 + sop_class_uid_length] overflows u16 (unreachable: the item holds < 65536 bytes) *)
    else if l <? 2 + ul then Err E_ShortSopExt
    else ' (uid, b) <-? must (take ul b) ;;
         ' (data, b) <-? inc (take (l - 2 - ul) b) ;;
         ret ([UvSopExt (trim uid) data], b)
  else if t =? 88 then
    ' (ty, b) <-? inc (u8 b) ;; ' (pos, b) <-? inc (u8 b) ;;
    ' (pl, b) <-? inc (u16 b) ;; ' (prim, b) <-? inc (take pl b) ;;
    ' (sl, b) <-? inc (u16 b) ;; ' (sec, b) <-? inc (take sl b) ;;
    match identity_of ty with
    | Some ty => ret ([UvIdentity (pos =? 1) ty prim sec], b)
    | None => ret ([], b)
    end
  else ' (d, b) <-? inc (take l b) ;; ret ([UvUnknown t d], b).
Fixpoint r_user_loop (fuel : nat) (b : bytes) : outcome (option (list user_var)) :=
  match b with
  | [] => ret []
  | _ :: _ =>
    match fuel with
    | O => Err E_Fuel
    | S f => ' (vs, b) <-? r_user_sub b ;; rest <-? r_user_loop f b ;; ret (vs ++ rest)
    end
  end.

(* read_pdu_variable: one variable item of an A-ASSOCIATE-RQ/AC *)
Inductive var_item :=
| ViUnknown (t : N)
| ViAppContext (s : str)
| ViPcProposed (p : pc_proposed)
| ViPcResult (p : pc_result)
| ViUserVars (l : list user_var).
Definition r_var (b : bytes) : outcome (option (var_item * bytes)) :=
  ' (t, l, b) <-? r_hdr b ;;
  ' (body, rest) <-? inc (take l b) ;;
  if t =? 16 then ret (ViAppContext body, rest)
  else if t =? 32 then p <-? r_pc_proposed body ;; ret (ViPcProposed p, rest)
  else if t =? 33 then p <-? r_pc_result body ;; ret (ViPcResult p, rest)
  else if t =? 80 then l <-? r_user_loop (length body) body ;; ret (ViUserVars l, rest)
  else ret (ViUnknown t, rest).

(* the "while bytes.has_remaining()" loops of A-ASSOCIATE-RQ (rq = true) and -AC *)
Record assoc_acc := { acc_app : option str; acc_pp : list pc_proposed; acc_pr : list pc_result; acc_uv : list user_var }.
Fixpoint r_vars_loop (rq : bool) (fuel : nat) (b : bytes) (a : assoc_acc) : outcome assoc_acc :=
  match b with
  | [] => Ok a
  | _ :: _ =>
    match fuel with
    | O => Err E_Fuel
    | S f =>
      match r_var b with
      | Ok None => Err E_ReadUserVariable
      | Err e => Err e
      | Panic w => Panic w
      | Ok (Some (ViAppContext s, b)) =>
          r_vars_loop rq f b {| acc_app := Some s; acc_pp := acc_pp a; acc_pr := acc_pr a; acc_uv := acc_uv a |}
      | Ok (Some (ViUserVars l, b)) =>
          r_vars_loop rq f b {| acc_app := acc_app a; acc_pp := acc_pp a; acc_pr := acc_pr a; acc_uv := l |}
      | Ok (Some (ViPcProposed p, b)) =>
          if rq then r_vars_loop rq f b {| acc_app := acc_app a; acc_pp := acc_pp a ++ [p]; acc_pr := acc_pr a; acc_uv := acc_uv a |}
          else Err E_InvalidPduVariable
      | Ok (Some (ViPcResult p, b)) =>
          if rq then Err E_InvalidPduVariable
          else r_vars_loop rq f b {| acc_app := acc_app a; acc_pp := acc_pp a; acc_pr := acc_pr a ++ [p]; acc_uv := acc_uv a |}
      | Ok (Some (ViUnknown _, _)) => Err E_InvalidPduVariable
      end
    end
  end.
Definition acc0 : assoc_acc := {| acc_app := None; acc_pp := []; acc_pr := []; acc_uv := [] |}.

Definition r_assoc (rq : bool) (b : bytes) : outcome pdu :=
  if len b <? 68 then Err E_FieldLength else
  match u16 b with
  | Some (ver, b) =>
    match take 2 b with Some (_, b) =>
    match take 16 b with Some (called, b) =>
    match take 16 b with Some (calling, b) =>
    match take 32 b with Some (_, b) =>
      a <- r_vars_loop rq (length b) b acc0 ;;
      match acc_app a with
      | None => Err E_MissingAppContext
      | Some app =>
          if rq then Ok (AssocRQ ver (trim calling) (trim called) app (acc_pp a) (acc_uv a))
          else Ok (AssocAC ver (trim calling) (trim called) app (acc_pr a) (acc_uv a))
      end
    | None => Panic 1 end | None => Panic 1 end | None => Panic 1 end | None => Panic 1 end
  | None => Panic 1
  end.

(* Presentation-data-value items of a P-DATA-TF *)
Fixpoint r_pdv_loop (fuel : nat) (b : bytes) : outcome (list pdv) :=
  match b with
  | [] => Ok []
  | _ :: _ =>
    match fuel with
    | O => Err E_Fuel
    | S f =>
      if len b <? 6 then Err E_FieldLength else
      match u32 b with
      | Some (il, id :: h :: b) =>
          if il <? 2 then Err E_ItemLength
          else match take (il - 2) b with
               | None => Err E_FieldLength
               | Some (d, b) =>
                   rest <- r_pdv_loop f b ;;
                   Ok ({| pdv_id := id; pdv_command := N.testbit h 0; pdv_last := N.testbit h 1; pdv_data := d |} :: rest)
               end
      | _ => Panic 1
      end
    end
  end.

Definition r_body (t : N) (body : bytes) : outcome pdu :=
  if t =? 1 then r_assoc true body
  else if t =? 2 then r_assoc false body
  else if t =? 3 then
    match body with
    | _ :: r :: s :: d :: _ =>
        match rj_result_of r with
        | None => Err E_RejectCode
        | Some r => match rj_source_of s d with None => Err E_RejectCode | Some s => Ok (AssocRJ r s) end
        end
    | _ => Err E_FieldLength
    end
  else if t =? 4 then vs <- r_pdv_loop (length body) body ;; Ok (PData vs)
  else if t =? 5 then if len body <? 4 then Err E_FieldLength else Ok ReleaseRQ
  else if t =? 6 then if len body <? 4 then Err E_FieldLength else Ok ReleaseRP
  else if t =? 7 then
    match body with
    | _ :: _ :: s :: r :: _ =>
        match abort_source_of s r with None => Err E_AbortCode | Some s => Ok (AbortRQ s) end
    | _ => Err E_FieldLength
    end
  else Ok (Unknown t body).

(** [read_pdu buf max_pdu_length strict]: [Ok None] = no complete PDU in the buffer yet;
    [Ok (Some (p, rest))] = PDU [p] read, [rest] = the bytes after it (the cursor position). *)
Definition read_pdu (max : N) (strict : bool) (b : bytes) : outcome (option (pdu * bytes)) :=
  if negb (max_ok max) then Err E_InvalidMaxPdu else
  match b with
  | t :: _ :: b1 =>
    match u32 b1 with
    | None => Ok None
    | Some (plen, b2) =>
        if strict && (max <? plen) then Err E_PduTooLarge
        else match take plen b2 with
             | None => Ok None
             | Some (body, rest) => p <- r_body t body ;; Ok (Some (p, rest))
             end
    end
  | _ => Ok None
  end.

(** * Well-formed PDUs: the hypotheses of the round trip.
    [latin_*]: every string is encodable (ISO-8859-1);
    [fits_*]: every content fits its length field (what the writer checks since 27e8911);
    [norm_*]: what the reader normalises: AE titles are cut/padded to 16 bytes and
    trimmed, UID-like strings are trimmed (Unicode White_Space at both ends), type
    codes the reader interprets cannot be carried by [Unknown], reserved codes are
    those the reader maps back to [Reserved], numbers are within their field. *)
Definition fits16 (b : bytes) : bool := len b <=? 65535.
Definition fits32 (b : bytes) : bool := len b <=? 4294967295.
Definition trimmed (s : str) : bool := negb (starts_ws s) && negb (ends_ws s).

Definition latin_pc_proposed (p : pc_proposed) : bool := latin1 (pp_abstract p) && forallb latin1 (pp_ts p).
Definition fits_pc_proposed (p : pc_proposed) : bool :=
  fits16 (pp_abstract p) && forallb fits16 (pp_ts p) && fits16 (c_pc_proposed p).
Definition norm_pc_proposed (p : pc_proposed) : bool := trimmed (pp_abstract p) && forallb trimmed (pp_ts p).
Definition latin_pc_result (p : pc_result) : bool := latin1 (pr_ts p).
Definition fits_pc_result (p : pc_result) : bool := fits16 (pr_ts p) && fits16 (c_pc_result p).
Definition norm_pc_result (p : pc_result) : bool := trimmed (pr_ts p).

Definition known_user_type (t : N) : bool :=
  (t =? 81) || (t =? 82) || (t =? 84) || (t =? 85) || (t =? 86) || (t =? 88).
Definition latin_user_var (v : user_var) : bool :=
  match v with
  | UvImplClassUid s | UvImplVersion s => latin1 s
  | UvRole uid _ _ | UvSopExt uid _ => latin1 uid
  | _ => true
  end.
Definition fits_user_var (v : user_var) : bool :=
  match v with
  | UvRole uid _ _ | UvSopExt uid _ => fits16 uid
  | UvIdentity _ _ prim sec => fits16 prim && fits16 sec
  | _ => true
  end && fits16 (c_user_var v).
Definition norm_user_var (v : user_var) : bool :=
  match v with
  | UvMaxLength n => n <? 4294967296
  | UvImplClassUid s | UvImplVersion s => trimmed s
  | UvRole uid _ _ | UvSopExt uid _ => trimmed uid
  | UvIdentity _ _ _ _ => true
  | UvUnknown t _ => negb (known_user_type t)
  end.
Definition fits_user_vars (uvs : list user_var) : bool :=
  forallb fits_user_var uvs && fits16 (concat (map e_user_var uvs)).
Definition fits_pdv (v : pdv) : bool := 2 + len (pdv_data v) <=? 4294967295.
Definition norm_rj_source (s : rj_source) : bool :=
  match s with
  | RjServiceUser (SuReserved x) => (x =? 4) || (x =? 5) || (x =? 6) || (x =? 8) || (x =? 9) || (x =? 10)
  | RjProviderPres (PresReserved x) => (x =? 0) || (x =? 3) || (x =? 4) || (x =? 5) || (x =? 6) || (x =? 7)
  | _ => true
  end.
Definition known_pdu_type (t : N) : bool := (1 <=? t) && (t <=? 7).
Definition norm_ae (s : str) : bool := trimmed s && (len s <=? 16).

Definition latin_pdu (p : pdu) : bool :=
  match p with
  | AssocRQ _ calling called app pcs uvs =>
      latin1 called && latin1 calling && latin1 app && forallb latin_pc_proposed pcs && forallb latin_user_var uvs
  | AssocAC _ calling called app pcs uvs =>
      latin1 called && latin1 calling && latin1 app && forallb latin_pc_result pcs && forallb latin_user_var uvs
  | _ => true
  end.
Definition fits_pdu (p : pdu) : bool :=
  match p with
  | AssocRQ _ _ _ app pcs uvs => fits16 app && forallb fits_pc_proposed pcs && fits_user_vars uvs
  | AssocAC _ _ _ app pcs uvs => fits16 app && forallb fits_pc_result pcs && fits_user_vars uvs
  | PData vs => forallb fits_pdv vs
  | _ => true
  end && fits32 (e_body p).
Definition norm_pdu (p : pdu) : bool :=
  match p with
  | AssocRQ ver calling called _ pcs uvs =>
      (ver <? 65536) && norm_ae calling && norm_ae called && forallb norm_pc_proposed pcs && forallb norm_user_var uvs
  | AssocAC ver calling called _ pcs uvs =>
      (ver <? 65536) && norm_ae calling && norm_ae called && forallb norm_pc_result pcs && forallb norm_user_var uvs
  | AssocRJ _ s => norm_rj_source s
  | Unknown t _ => negb (known_pdu_type t)
  | _ => true
  end.
Definition wf_pdu (p : pdu) : bool := latin_pdu p && fits_pdu p && norm_pdu p.

(* no [Unknown] value carries a type code that the reader (and PS3.8) interprets *)
Definition no_alias (p : pdu) : bool :=
  let uv_ok v := match v with UvUnknown t _ => negb (known_user_type t) | _ => true end in
  match p with
  | Unknown t _ => negb (known_pdu_type t)
  | AssocRQ _ _ _ _ _ uvs | AssocAC _ _ _ _ _ uvs => forallb uv_ok uvs
  | _ => true
  end.

(** * Correspondence with the implementation *)
Definition bool_eqb (a b : bool) : bool := if a then b else negb b.
Definition bytes_eqb : bytes -> bytes -> bool := list_eqb N.eqb.
Definition rj_source_eqb (a b : rj_source) : bool :=
  let '(a1, a2) := rj_source_codes a in let '(b1, b2) := rj_source_codes b in
  (a1 =? b1) && (a2 =? b2) &&
  match a, b with
  | RjServiceUser (SuReserved _), RjServiceUser (SuReserved _) => true
  | RjServiceUser (SuReserved _), _ | _, RjServiceUser (SuReserved _) => false
  | RjProviderPres (PresReserved _), RjProviderPres (PresReserved _) => true
  | RjProviderPres (PresReserved _), _ | _, RjProviderPres (PresReserved _) => false
  | _, _ => true
  end.
Definition abort_source_eqb (a b : abort_source) : bool :=
  let '(a1, a2) := abort_codes a in let '(b1, b2) := abort_codes b in (a1 =? b1) && (a2 =? b2).
Definition pcp_eqb (a b : pc_proposed) : bool :=
  (pp_id a =? pp_id b) && str_eqb (pp_abstract a) (pp_abstract b) && list_eqb str_eqb (pp_ts a) (pp_ts b).
Definition pcr_eqb (a b : pc_result) : bool :=
  (pr_id a =? pr_id b) && (pc_reason_code (pr_reason a) =? pc_reason_code (pr_reason b)) && str_eqb (pr_ts a) (pr_ts b).
Definition uv_eqb (a b : user_var) : bool :=
  match a, b with
  | UvUnknown t d, UvUnknown t' d' => (t =? t') && bytes_eqb d d'
  | UvMaxLength n, UvMaxLength n' => n =? n'
  | UvImplClassUid s, UvImplClassUid s' => str_eqb s s'
  | UvImplVersion s, UvImplVersion s' => str_eqb s s'
  | UvSopExt u d, UvSopExt u' d' => str_eqb u u' && bytes_eqb d d'
  | UvRole u a1 a2, UvRole u' b1 b2 => str_eqb u u' && bool_eqb a1 b1 && bool_eqb a2 b2
  | UvIdentity p t a1 a2, UvIdentity p' t' b1 b2 =>
      bool_eqb p p' && (identity_code t =? identity_code t') && bytes_eqb a1 b1 && bytes_eqb a2 b2
  | _, _ => false
  end.
Definition pdv_eqb (a b : pdv) : bool :=
  (pdv_id a =? pdv_id b) && bool_eqb (pdv_command a) (pdv_command b) && bool_eqb (pdv_last a) (pdv_last b)
  && bytes_eqb (pdv_data a) (pdv_data b).
Definition pdu_eqb (a b : pdu) : bool :=
  match a, b with
  | Unknown t d, Unknown t' d' => (t =? t') && bytes_eqb d d'
  | AssocRQ v c1 c2 app pcs uvs, AssocRQ v' c1' c2' app' pcs' uvs' =>
      (v =? v') && str_eqb c1 c1' && str_eqb c2 c2' && str_eqb app app'
      && list_eqb pcp_eqb pcs pcs' && list_eqb uv_eqb uvs uvs'
  | AssocAC v c1 c2 app pcs uvs, AssocAC v' c1' c2' app' pcs' uvs' =>
      (v =? v') && str_eqb c1 c1' && str_eqb c2 c2' && str_eqb app app'
      && list_eqb pcr_eqb pcs pcs' && list_eqb uv_eqb uvs uvs'
  | AssocRJ r s, AssocRJ r' s' => (rj_result_code r =? rj_result_code r') && rj_source_eqb s s'
  | PData vs, PData vs' => list_eqb pdv_eqb vs vs'
  | ReleaseRQ, ReleaseRQ => true
  | ReleaseRP, ReleaseRP => true
  | AbortRQ s, AbortRQ s' => abort_source_eqb s s'
  | _, _ => false
  end.
Definition outcome_eqb {A} (eqb : A -> A -> bool) (a b : outcome A) : bool :=
  match a, b with
  | Ok x, Ok y => eqb x y
  | Err e, Err e' => e =? e'
  | Panic _, Panic _ => true
  | _, _ => false
  end.

(* what the harness reports of a read: the PDU and the number of bytes consumed *)
Definition read_view (b : bytes) (r : outcome (option (pdu * bytes))) : outcome (option (pdu * N)) :=
  match r with
  | Ok (Some (p, rest)) => Ok (Some (p, len b - len rest))
  | Ok None => Ok None
  | Err e => Err e
  | Panic w => Panic w
  end.
Definition read_res_eqb : outcome (option (pdu * N)) -> outcome (option (pdu * N)) -> bool :=
  outcome_eqb (opt_eqb (fun a b => pdu_eqb (fst a) (fst b) && (snd a =? snd b))).
Definition check_read (b : bytes) (max : N) (strict : bool) (res : outcome (option (pdu * N))) : bool :=
  read_res_eqb (read_view b (read_pdu max strict b)) res.

(** One correspondence case:
    - a PDU value and the result of the real [write_pdu] on it (bytes, or error class);
    - trailing bytes [extra], a [max_pdu_length] and the strict flag;
    - [nones]: the prefix lengths k of [written ++ extra] on which the real
      [read_pdu] answered Ok(None), as inclusive ranges (lo, hi); [sames]: (k, n) where it answered with the
      same PDU value having consumed n bytes; [others]: the other prefix lengths with the answer;
    - [raws]: reads of arbitrary (mutated) buffers. *)
Definition read_res : Type := outcome (option (pdu * N)).
Definition RNone : read_res := Ok None.
Definition RSome (p : pdu) (consumed : N) : read_res := Ok (Some (p, consumed)).
Definition RErr (e : N) : read_res := Err e.
Definition RPanic : read_res := Panic 0.
Definition WOk (b : bytes) : outcome bytes := Ok b.
Definition WErr (e : N) : outcome bytes := Err e.
Definition WPanic : outcome bytes := Panic 0.
Record pdu_case := mk_case {
  pc_pdu : pdu; pc_written : outcome bytes; pc_extra : bytes; pc_max : N; pc_strict : bool;
  pc_nones : list (N * N); pc_sames : list (N * N); pc_others : list (N * read_res); pc_raws : list (bytes * read_res) }.
Definition check_case (c : pdu_case) : bool :=
  let stream := match pc_written c with Ok w => w ++ pc_extra c | _ => pc_extra c end in
  outcome_eqb bytes_eqb (write_pdu (pc_pdu c)) (pc_written c)
  && forallb (fun lh => forallb (fun k => check_read (firstn k stream) (pc_max c) (pc_strict c) RNone)
                                (seq (N.to_nat (fst lh)) (N.to_nat (snd lh - fst lh + 1)))) (pc_nones c)
  && forallb (fun kn => check_read (firstn (N.to_nat (fst kn)) stream) (pc_max c) (pc_strict c) (RSome (pc_pdu c) (snd kn))) (pc_sames c)
  && forallb (fun kr => check_read (firstn (N.to_nat (fst kr)) stream) (pc_max c) (pc_strict c) (snd kr)) (pc_others c)
  && forallb (fun br => check_read (fst br) (pc_max c) (pc_strict c) (snd br)) (pc_raws c).
