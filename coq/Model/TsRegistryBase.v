(** Row type of the regenerated transfer syntax tables (Gen/GenTs.v): what the
    public API of one registered [TransferSyntax] shows. No proofs. *)
From DicomV Require Export Base.Str.

(** data set codec layout classes, observed by decoding / encoding one element header *)
Definition L_NONE : N := 0.   (* decoder_for / encoder_for returned None *)
Definition L_ILE : N := 1.    (* implicit VR little endian *)
Definition L_ELE : N := 2.    (* explicit VR little endian *)
Definition L_EBE : N := 3.    (* explicit VR big endian *)

Record ts_row := TsRow {
  t_uid : str;            (* uid(), code points *)
  t_big : bool;           (* endianness() = Big *)
  t_dec : N;              (* layout class of decoder_for() *)
  t_enc : N;              (* layout class of encoder_for() *)
  t_codec : N;            (* codec(): 0 None; 1 Dataset(None); 2 Dataset(Some); 3 + 2r + w EncapsulatedPixelData(r, w) *)
  t_q : list bool;        (* is_fully_supported, is_codec_free, is_unsupported, is_encapsulated_pixel_data,
                             is_unsupported_pixel_encapsulation, can_decode_all, can_decode_dataset *)
  t_pdr : bool;           (* pixel_data_reader().is_some() *)
  t_pdw : bool }.         (* pixel_data_writer().is_some() *)

Definition row_eqb (a b : ts_row) : bool :=
  str_eqb (t_uid a) (t_uid b) && Bool.eqb (t_big a) (t_big b) && (t_dec a =? t_dec b) && (t_enc a =? t_enc b)
  && (t_codec a =? t_codec b) && list_eqb Bool.eqb (t_q a) (t_q b) && Bool.eqb (t_pdr a) (t_pdr b) && Bool.eqb (t_pdw a) (t_pdw b).
