(** Model of attribute operations on in-memory objects:
    object/src/mem.rs [InMemDicomObject::apply], [apply_leaf], [apply_change_value_impl],
    [apply_push_*_impl], [update_value] + [Value::truncate], with
    core/src/value/primitive.rs [extend_str], [extend_*], [truncate], [HasLength::is_empty],
    and the panic conditions of parser/src/dataset/mod.rs [DataElementTokens].

    An object is the list of its elements in tag order (the BTreeMap); an element is
    (tag, VR, value); VRs are their two ASCII bytes as a number ("SQ" = 83*256+81).
    Numbers inside values are bit patterns.  The data dictionary is a parameter
    [dict : tag -> option VR] (the exact VR of the entry, if any).

    Numeric pushes: Rust's `as` casts between the nine numeric element types and
    [to_string] of the pushed number are std behaviour computed by the harness and
    carried by the operation ([casts], [text]); the model selects which one is used. *)
From DicomV Require Export Base.Prelude.

(** * Values *)
Inductive prim :=
| PEmpty
| PStr (s : str)
| PStrs (l : list str)
| PNum (t : N) (l : list N)      (* t: 0 U8, 1 I16, 2 U16, 3 I32, 4 U32, 5 I64, 6 U64, 7 F32, 8 F64 *)
| PTags (l : list N)
| POther (k : N) (l : list str). (* 0 Date, 1 DateTime, 2 Time; items identified by their text *)

Inductive value :=
| VPrim (p : prim)
| VSeq (items : list (list (N * N * value)))
| VPix (bot : list N) (frags : list bytes).

Definition elem : Type := N * N * value.
Definition obj : Type := list elem.
Definition e_tag (e : elem) : N := fst (fst e).
Definition e_vr (e : elem) : N := snd (fst e).
Definition e_val (e : elem) : value := snd e.

Definition VR_SQ : N := 21329. (* "SQ" *)
Definition VR_UN : N := 21838. (* "UN" *)
Definition VR_OB : N := 20290. (* "OB" *)
Definition T_PIXEL_DATA : N := 2145386512. (* 7FE0,0010 *)

(** * The attribute map *)
Fixpoint get (o : obj) (t : N) : option elem :=
  match o with
  | [] => None
  | e :: o' => if e_tag e =? t then Some e else get o' t
  end.
(* BTreeMap::insert *)
Fixpoint put (o : obj) (e : elem) : obj :=
  match o with
  | [] => [e]
  | x :: o' => if e_tag e <? e_tag x then e :: x :: o'
               else if e_tag e =? e_tag x then e :: o'
               else x :: put o' e
  end.
Fixpoint del (o : obj) (t : N) : obj :=
  match o with
  | [] => []
  | x :: o' => if e_tag x =? t then o' else x :: del o' t
  end.

(** * Primitive values *)
Definition slen_sum (l : list str) : N := fold_right (fun s a => N.of_nat (length s) + 1 + a) 0 l.
(* HasLength::is_empty: the encoded length is zero (strings: any character counts) *)
Definition prim_is_empty (p : prim) : bool :=
  match p with
  | PEmpty => true
  | PStr s => match s with [] => true | _ => false end
  | PStrs l => slen_sum l <=? 1
  | PNum _ l => match l with [] => true | _ => false end
  | PTags l => match l with [] => true | _ => false end
  | POther _ l => match l with [] => true | _ => false end
  end.

Definition e_modify : N := 8.
Definition e_incompatible : N := 3.
Definition e_missing_seq : N := 6.
Definition e_not_a_seq : N := 7.

Definition extend_str (p : prim) (s : str) : outcome prim :=
  match p with
  | PEmpty => Ok (PStrs [s])
  | PStrs l => Ok (PStrs (l ++ [s]))
  | PStr s0 => Ok (PStrs [s0; s])
  | _ => Err e_modify
  end.

(* [own]: element type of the pushed number; [casts]: the number cast to each of the nine types *)
Definition extend_num (p : prim) (own : N) (casts : list N) (text : str) : outcome prim :=
  match p with
  | PEmpty => Ok (PNum own [nth (N.to_nat own) casts 0])
  | PStrs l => Ok (PStrs (l ++ [text]))
  | PStr s0 => Ok (PStrs [s0; text])
  | PNum t l => Ok (PNum t (l ++ [nth (N.to_nat t) casts 0]))
  | PTags _ | POther _ _ => Err e_modify
  end.

Definition firstnN {A} (n : N) (l : list A) : list A := firstn (N.to_nat n) l.
Definition prim_truncate (n : N) (p : prim) : prim :=
  match p with
  | PEmpty => PEmpty
  | PStr s => if n =? 0 then PEmpty else PStr s
  | PStrs l => PStrs (firstnN n l)
  | PNum t l => PNum t (firstnN n l)
  | PTags l => PTags (firstnN n l)
  | POther k l => POther k (firstnN n l)
  end.
Definition value_truncate (n : N) (v : value) : value :=
  match v with
  | VPrim p => VPrim (prim_truncate n p)
  | VSeq items => VSeq (firstnN n items)
  | VPix bot frags => VPix bot (firstnN n frags)
  end.

(** * Actions *)
Inductive action :=
| ARemove | AEmpty | ASetVr (vr : N)
| ASet (v : prim) | ASetIfMissing (v : prim) | AReplace (v : prim)   (* the *Str variants are these with [PStr s] *)
| APushStr (s : str)
| APushNum (own : N) (casts : list N) (text : str)
| ATruncate (n : N).

Definition constructive (a : action) : bool :=
  match a with
  | ASet _ | ASetIfMissing _ | APushStr _ | APushNum _ _ _ => true
  | _ => false
  end.

(* PushI32 -> SL, PushU32 -> UL, PushI16 -> SS, PushU16 -> US, PushF32 -> FL, PushF64 -> FD *)
Definition default_vr (own : N) : N :=
  if own =? 3 then 21324 else if own =? 4 then 21836 else if own =? 1 then 21331
  else if own =? 2 then 21843 else if own =? 7 then 17996 else 17988.

Section WithDict.
Variable dict : N -> option N.

Definition dict_vr (t : N) (default : N) : N := match dict t with Some v => v | None => default end.

(* "if VR is SQ and suggested value is empty, then create an empty data set sequence" *)
Definition new_value (vr : N) (p : prim) : value :=
  if (vr =? VR_SQ) && prim_is_empty p then VSeq [] else VPrim p.

Definition change_value (o : obj) (t : N) (p : prim) : obj :=
  match get o t with
  | Some e => put o (t, e_vr e, new_value (e_vr e) p)
  | None => let vr := dict_vr t VR_UN in put o (t, vr, new_value vr p)
  end.

Definition push (o : obj) (t : N) (ext : prim -> outcome prim) (fresh_vr : N) (fresh : prim) : outcome unit * obj :=
  match get o t with
  | Some e =>
      match e_val e with
      | VPrim p => match ext p with
                   | Ok p' => (Ok tt, put o (t, e_vr e, VPrim p'))
                   | Err c => (Err c, o)
                   | Panic w => (Panic w, o)
                   end
      | _ => (Err e_incompatible, o)
      end
  | None => (Ok tt, put o (t, dict_vr t fresh_vr, VPrim fresh))
  end.

Definition apply_leaf (t : N) (a : action) (o : obj) : outcome unit * obj :=
  match a with
  | ARemove => (Ok tt, del o t)
  | AEmpty => (Ok tt, match get o t with Some e => put o (t, e_vr e, new_value (e_vr e) PEmpty) | None => o end)
  | ASetVr nvr =>
      (Ok tt, match get o t with
              | Some e =>
                  let applicable := match e_val e with
                                    | VSeq _ => nvr =? VR_SQ
                                    | VPix _ _ => nvr =? VR_OB
                                    | VPrim _ => negb (nvr =? VR_SQ)
                                    end in
                  if applicable then put o (t, nvr, e_val e) else o
              | None => o
              end)
  | ASet p => (Ok tt, change_value o t p)
  | ASetIfMissing p => (Ok tt, match get o t with None => change_value o t p | Some _ => o end)
  | AReplace p => (Ok tt, match get o t with Some _ => change_value o t p | None => o end)
  | APushStr s => push o t (fun p => extend_str p s) VR_UN (PStr s)
  | APushNum own casts text =>
      push o t (fun p => extend_num p own casts text) (default_vr own) (PNum own [nth (N.to_nat own) casts 0])
  | ATruncate n => (Ok tt, match get o t with Some e => put o (t, e_vr e, value_truncate n (e_val e)) | None => o end)
  end.

Fixpoint set_nth {A} (l : list A) (n : nat) (x : A) : list A :=
  match l, n with
  | [], _ => []
  | _ :: l', O => x :: l'
  | y :: l', S n' => y :: set_nth l' n' x
  end.

(* [InMemDicomObject::apply]: the loop over the selector steps, mutating in place.
   The receiver's state after a failure is part of the result.
   (For constructive actions the loop only runs after [check_path] below succeeded.) *)
Fixpoint apply_sel (steps : list (N * N)) (leaf : N) (a : action) (o : obj) : outcome unit * obj :=
  match steps with
  | [] => apply_leaf leaf a o
  | (t, item) :: rest =>
    let created :=
      match get o t with
      | Some _ => Ok o
      | None =>
          if constructive a then
            let vr := dict_vr t VR_UN in
            if negb (vr =? VR_SQ) && negb (vr =? VR_UN) then Err e_not_a_seq
            else Ok (put o (t, VR_SQ, VSeq []))
          else Err e_missing_seq
      end in
    match created with
    | Err e => (Err e, o)
    | Panic w => (Panic w, o)
    | Ok o1 =>
      match get o1 t with
      | Some (_, vr, VSeq items) =>
          if (N.of_nat (length items) =? item) && constructive a then
            let '(r, it') := apply_sel rest leaf a [] in
            (r, put o1 (t, vr, VSeq (items ++ [it'])))
          else
            match nth_error items (N.to_nat item) with
            | Some it => let '(r, it') := apply_sel rest leaf a it in
                         (r, put o1 (t, vr, VSeq (set_nth items (N.to_nat item) it')))
            | None => (Err e_missing_seq, o1)
            end
      | Some _ => (Err e_not_a_seq, o1)
      | None => (Panic 0, o1) (* expect("sequence element should exist at this point") *)
      end
    end
  end.

(* [check_constructive_path]: every nested step can be resolved or created; nothing is changed.
   A data set yet to be created behaves like the empty one ([obj = None] in the code). *)
Fixpoint check_path (steps : list (N * N)) (o : obj) : outcome unit :=
  match steps with
  | [] => Ok tt
  | (t, item) :: rest =>
    match get o t with
    | None =>
        let vr := dict_vr t VR_UN in
        if negb (vr =? VR_SQ) && negb (vr =? VR_UN) then Err e_not_a_seq
        else if item =? 0 then check_path rest [] else Err e_missing_seq
    | Some (_, _, VSeq items) =>
        match nth_error items (N.to_nat item) with
        | Some it => check_path rest it
        | None => if item =? N.of_nat (length items) then check_path rest [] else Err e_missing_seq
        end
    | Some _ => Err e_not_a_seq
    end
  end.

Definition op : Type := list (N * N) * N * action.
Definition apply (o : obj) (x : op) : outcome unit * obj :=
  let '(steps, leaf, a) := x in
  if constructive a then
    match check_path steps o with
    | Ok _ => apply_sel steps leaf a o
    | Err e => (Err e, o)
    | Panic w => (Panic w, o)
    end
  else apply_sel steps leaf a o.
Definition apply_all (ops : list op) (o : obj) : obj := fold_left (fun o x => snd (apply o x)) ops o.
End WithDict.

(** * Writing: where [DataElementTokens] reaches [unreachable!()] *)
(* header token: PixelSequenceStart for (OB, Pixel Data, undefined length), SequenceStart for VR SQ,
   ElementHeader otherwise; a sequence value after an ElementHeader or PixelSequenceStart panics,
   a pixel sequence after an ElementHeader panics (after a SequenceStart it is dropped silently) *)
Fixpoint value_panics (t vr : N) (v : value) : bool :=
  match v with
  | VPrim _ => false
  | VSeq items =>
      negb (vr =? VR_SQ)
      || existsb (fun it => existsb (fun e : elem => value_panics (fst (fst e)) (snd (fst e)) (snd e)) it) items
  | VPix _ _ => negb (vr =? VR_SQ) && negb ((vr =? VR_OB) && (t =? T_PIXEL_DATA))
  end.
Definition tokens_panic (o : obj) : bool := existsb (fun e : elem => value_panics (e_tag e) (e_vr e) (e_val e)) o.

(* the kind of value agrees with the VR: data set sequences are SQ, pixel sequences are OB in Pixel Data *)
Fixpoint value_kind_ok (t vr : N) (v : value) : bool :=
  match v with
  | VPrim p => true
  | VSeq items =>
      (vr =? VR_SQ)
      && forallb (fun it => forallb (fun e : elem => value_kind_ok (fst (fst e)) (snd (fst e)) (snd e)) it) items
  | VPix _ _ => (vr =? VR_OB) && (t =? T_PIXEL_DATA)
  end.
Definition kind_ok (o : obj) : bool := forallb (fun e : elem => value_kind_ok (e_tag e) (e_vr e) (e_val e)) o.
(* no primitive value under the VR SQ (known class PrimitiveUnderSqVr; even an empty one is not
   written when the object's character set changed) *)
Fixpoint value_sq_prim_free (vr : N) (v : value) : bool :=
  match v with
  | VPrim p => negb (vr =? VR_SQ)
  | VSeq items => forallb (fun it => forallb (fun e : elem => value_sq_prim_free (snd (fst e)) (snd e)) it) items
  | VPix _ _ => true
  end.
Definition sq_prim_free (o : obj) : bool := forallb (fun e : elem => value_sq_prim_free (e_vr e) (e_val e)) o.
Definition shape_ok (o : obj) : bool := kind_ok o && sq_prim_free o.

(** * Equality tests for the correspondence *)
Definition strs_eqb := list_eqb str_eqb.
Definition prim_eqb (a b : prim) : bool :=
  match a, b with
  | PEmpty, PEmpty => true
  | PStr x, PStr y => str_eqb x y
  | PStrs x, PStrs y => strs_eqb x y
  | PNum t x, PNum u y => (t =? u) && list_eqb N.eqb x y
  | PTags x, PTags y => list_eqb N.eqb x y
  | POther k x, POther j y => (k =? j) && strs_eqb x y
  | _, _ => false
  end.
Fixpoint value_eqb (a b : value) : bool :=
  match a, b with
  | VPrim p, VPrim q => prim_eqb p q
  | VSeq x, VSeq y =>
      (fix items_eqb (x y : list (list (N * N * value))) : bool :=
         match x, y with
         | [], [] => true
         | i :: x', j :: y' =>
             (fix o_eqb (i j : list (N * N * value)) : bool :=
                match i, j with
                | [], [] => true
                | e :: i', f :: j' =>
                    (fst (fst e) =? fst (fst f)) && (snd (fst e) =? snd (fst f)) && value_eqb (snd e) (snd f) && o_eqb i' j'
                | _, _ => false
                end) i j && items_eqb x' y'
         | _, _ => false
         end) x y
  | VPix b f, VPix c g => list_eqb N.eqb b c && list_eqb (list_eqb N.eqb) f g
  | _, _ => false
  end.
Definition elem_eqb (e f : elem) : bool := (e_tag e =? e_tag f) && (e_vr e =? e_vr f) && value_eqb (e_val e) (e_val f).
Definition obj_eqb : obj -> obj -> bool := list_eqb elem_eqb.

Definition res_eqb (a b : outcome unit) : bool :=
  match a, b with
  | Ok _, Ok _ => true
  | Err e, Err f => e =? f
  | Panic _, Panic _ => true
  | _, _ => false
  end.

(* a finite dictionary table given by the harness for the tags of the case *)
Definition dict_of (tbl : list (N * option N)) (t : N) : option N :=
  match find (fun p => fst p =? t) tbl with Some (_, v) => v | None => None end.

(* one case: dictionary rows, initial object, then the history: (op, result, object afterwards,
   whether writing the object afterwards panicked) *)
Definition step_obs : Type := op * outcome unit * obj * bool.
Fixpoint check_steps (dict : N -> option N) (o : obj) (l : list step_obs) : bool :=
  match l with
  | [] => true
  | (x, res, o_after, wpanic) :: l' =>
    let '(mres, mo) := apply dict o x in
    res_eqb mres res && obj_eqb mo o_after && Bool.eqb (tokens_panic o_after) wpanic
    && check_steps dict o_after l'
  end.
Definition case : Type := list (N * option N) * obj * list step_obs.
Definition check_case (c : case) : bool :=
  let '(tbl, o, steps) := c in check_steps (dict_of tbl) o steps.
