(** Model of the numeric conversions and of value extension/truncation of
    core/src/value/primitive.rs (AFTER fixes 5962513, 6e0ade7, 1a71c5e):
    [PrimitiveValue::to_int], [to_multi_int], [to_float32/64],
    [to_multi_float32/64], [extend_str], [extend_u16 .. extend_f64],
    [truncate], [multiplicity].

    Integers are exact over Z with explicit target ranges. Floats are bit
    patterns that are never computed with: every float cast / parse / print
    is an oracle (Section variable); only WHICH source item is converted, in
    which order, is modelled (count and order are what the property claims). *)
From DicomV Require Export Base.RustStr.

(** ---- stored numeric variants and integer targets *)
Inductive numkind := KU8 | KI16 | KU16 | KI32 | KU32 | KI64 | KU64.

Definition nk_signed (k : numkind) : bool :=
  match k with KI16 | KI32 | KI64 => true | _ => false end.
Definition nk_bits (k : numkind) : Z :=
  match k with KU8 => 8 | KI16 | KU16 => 16 | KI32 | KU32 => 32 | KI64 | KU64 => 64 end%Z.
Definition nk_lo (k : numkind) : Z := if nk_signed k then (- 2 ^ (nk_bits k - 1))%Z else 0%Z.
Definition nk_hi (k : numkind) : Z :=
  if nk_signed k then (2 ^ (nk_bits k - 1) - 1)%Z else (2 ^ nk_bits k - 1)%Z.

(** Rust [x as T] between integer types: reduce modulo 2^bits into T's range *)
Definition wrap (k : numkind) (z : Z) : Z :=
  let m := (2 ^ nk_bits k)%Z in
  let r := (z mod m)%Z in
  if nk_signed k && (2 ^ (nk_bits k - 1) <=? r)%Z then (r - m)%Z else r.

(** target of to_int / to_multi_int: any primitive integer type *)
Record itarget := IT { t_signed : bool; t_lo : Z; t_hi : Z }.
Definition mk_target (signed : bool) (bits : Z) : itarget :=
  if signed then IT true (- 2 ^ (bits - 1)) (2 ^ (bits - 1) - 1) else IT false 0 (2 ^ bits - 1).
Definition T_u8 := mk_target false 8.    Definition T_i8 := mk_target true 8.
Definition T_u16 := mk_target false 16.  Definition T_i16 := mk_target true 16.
Definition T_u32 := mk_target false 32.  Definition T_i32 := mk_target true 32.
Definition T_u64 := mk_target false 64.  Definition T_i64 := mk_target true 64.
Definition T_usize := T_u64.             Definition T_isize := T_i64.   (* 64-bit host *)
Definition in_range (T : itarget) (z : Z) : Prop := (t_lo T <= z <= t_hi T)%Z.
Definition in_rangeb (T : itarget) (z : Z) : bool := (t_lo T <=? z)%Z && (z <=? t_hi T)%Z.

(** ---- floats: bit patterns only *)
Inductive fnum := F32b (b : N) | F64b (b : N).
Inductive ftarget := TF32 | TF64.
(** what a float result is converted FROM *)
Inductive fsrc := FromText (s : str) | FromInt (z : Z) | FromFloat (f : fnum).

(** ---- values. Strings are lists of scalar values. Tags, dates, times are
    opaque items (kind 0 = Tags, 1 = Date, 2 = DateTime, 3 = Time). *)
Inductive pvalue :=
| PEmpty
| PStrs (l : list str)
| PStr (s : str)
| PNum (k : numkind) (l : list Z)
| PF32 (l : list N)
| PF64 (l : list N)
| POther (kind : N) (l : list N).

Definition multiplicity (v : pvalue) : nat :=
  match v with
  | PEmpty => 0
  | PStr _ => 1
  | PStrs l => length l
  | PNum _ l => length l
  | PF32 l | PF64 l => length l
  | POther _ l => length l
  end.

(** error classes: ConvertValueError.cause *)
Definition E_none : N := 1.          (* cause: None — conversion not possible *)
Definition E_parse_int : N := 2.     (* ParseInteger *)
Definition E_narrow : N := 3.        (* NarrowConvert *)
Definition E_parse_float : N := 4.   (* ParseFloat *)
(** ModifyValueError *)
Definition E_incompatible_string : N := 5.
Definition E_incompatible_number : N := 6.

(** [s.trim_matches(pred)] *)
Fixpoint trim_start_matches (p : N -> bool) (s : str) : str :=
  match s with
  | c :: s' => if p c then trim_start_matches p s' else s
  | [] => []
  end.
Definition trim_matches (p : N -> bool) (s : str) : str :=
  rev (trim_start_matches p (rev (trim_start_matches p s))).
(** fn whitespace_or_null(c) *)
Definition ws_or_nul (c : N) : bool := is_ws c || (c =? 0).
Definition trim_num (s : str) : str := trim_matches ws_or_nul s.

Fixpoint mapM {A B} (f : A -> outcome B) (l : list A) : outcome (list B) :=
  match l with
  | [] => Ok []
  | x :: r => y <- f x ;; ys <- mapM f r ;; Ok (y :: ys)
  end.

(** ---- integer conversions *)
Definition parse_int (T : itarget) (s : str) : outcome Z :=
  match int_from_str (t_signed T) (t_lo T) (t_hi T) (trim_num s) with
  | Some z => Ok z
  | None => Err E_parse_int
  end.
(** NumCast::from(x): Some exactly when representable *)
Definition cast_int (T : itarget) (z : Z) : outcome Z :=
  if in_rangeb T z then Ok z else Err E_narrow.

Definition to_int (T : itarget) (v : pvalue) : outcome Z :=
  match v with
  | PStr s => parse_int T s
  | PStrs (s :: _) => parse_int T s
  | PNum _ (x :: _) => cast_int T x
  | _ => Err E_none
  end.

Definition to_multi_int (T : itarget) (v : pvalue) : outcome (list Z) :=
  match v with
  | PEmpty => Ok []
  | PStr s => x <- parse_int T s ;; Ok [x]
  | PStrs l => mapM (parse_int T) l
  | PNum _ l => mapM (cast_int T) l      (* fix 5962513: also when l = [] for I32/U64/I64 *)
  | _ => Err E_none
  end.

(** the code before fix 5962513 *)
Definition to_multi_int_unfixed (T : itarget) (v : pvalue) : outcome (list Z) :=
  match v with
  | PNum (KI32 | KU64 | KI64) [] => Err E_none
  | _ => to_multi_int T v
  end.

(** ---- float conversions: sources first, then the oracle *)
Definition float_sources (tgt : ftarget) (v : pvalue) : outcome (list fsrc) :=
  match v with
  | PEmpty => Ok []                               (* fix 6e0ade7 for TF64 *)
  | PStr s => Ok [FromText (trim_num s)]
  | PStrs l => Ok (map (fun s => FromText (trim_num s)) l)
  | PNum _ l => Ok (map FromInt l)
  | PF32 l => Ok (map (fun b => FromFloat (F32b b)) l)
  | PF64 l => Ok (map (fun b => FromFloat (F64b b)) l)
  | POther _ _ => Err E_none
  end.
Definition float_sources_unfixed (tgt : ftarget) (v : pvalue) : outcome (list fsrc) :=
  match tgt, v with TF64, PEmpty => Err E_none | _, _ => float_sources tgt v end.

Definition float_source_first (tgt : ftarget) (v : pvalue) : outcome fsrc :=
  match v with
  | PStr s => Ok (FromText (trim_num s))
  | PStrs (s :: _) => Ok (FromText (trim_num s))
  | PNum _ (x :: _) => Ok (FromInt x)
  | PF32 (b :: _) => Ok (FromFloat (F32b b))
  | PF64 (b :: _) => Ok (FromFloat (F64b b))
  | _ => Err E_none
  end.

(** numbers appended by extend_u16 .. extend_f64 *)
Inductive xnum := XInt (z : Z) | XFloat (f : fnum).
Inductive xsrc := SU16 | SI16 | SI32 | SU32 | SF32 | SF64.

Section Oracles.
  (** [conv tgt src]: NumCast / [str::parse] / identity into f32 or f64 (None = the
      conversion failed); [ascast tgt x]: Rust [x as f32/f64]; [f2i k f]: Rust
      [f as intN] (saturating); [fdisp f]: [f.to_string()]. *)
  Variable conv : ftarget -> fsrc -> option N.
  Variable ascast : ftarget -> xnum -> N.
  Variable f2i : numkind -> fnum -> Z.
  Variable fdisp : fnum -> str.

  Definition conv_item (tgt : ftarget) (s : fsrc) : outcome N :=
    match tgt, s with
    | TF32, FromFloat (F32b b) => Ok b          (* Ok(s[..].to_owned()) / Ok(s[0]) *)
    | TF64, FromFloat (F64b b) => Ok b
    | _, _ => match conv tgt s with
              | Some b => Ok b
              | None => Err (match s with FromText _ => E_parse_float | _ => E_narrow end)
              end
    end.

  Definition to_multi_float (tgt : ftarget) (v : pvalue) : outcome (list N) :=
    srcs <- float_sources tgt v ;; mapM (conv_item tgt) srcs.
  Definition to_float (tgt : ftarget) (v : pvalue) : outcome N :=
    s <- float_source_first tgt v ;; conv_item tgt s.

  (** ---- extension *)
  Definition x_to_text (x : xnum) : str :=
    match x with XInt z => print_dec_z z | XFloat f => fdisp f end.
  Definition x_to_num (k : numkind) (x : xnum) : Z :=
    match x with XInt z => wrap k z | XFloat f => f2i k f end.
  Definition x_to_float (tgt : ftarget) (x : xnum) : N :=
    match tgt, x with
    | TF32, XFloat (F32b b) => b
    | TF64, XFloat (F64b b) => b
    | _, _ => ascast tgt x
    end.
  Definition x_int (x : xnum) : Z := match x with XInt z => z | XFloat _ => 0%Z end.
  Definition x_bits (x : xnum) : N := match x with XFloat (F32b b) | XFloat (F64b b) => b | XInt _ => 0 end.

  (** the variant an Empty value becomes *)
  Definition fresh (src : xsrc) (xs : list xnum) : pvalue :=
    match src with
    | SU16 => PNum KU16 (map x_int xs)
    | SI16 => PNum KI16 (map x_int xs)
    | SI32 => PNum KI32 (map x_int xs)
    | SU32 => PNum KU32 (map x_int xs)
    | SF32 => PF32 (map x_bits xs)
    | SF64 => PF64 (map x_bits xs)
    end.

  Definition extend_num (src : xsrc) (v : pvalue) (xs : list xnum) : outcome pvalue :=
    match v with
    | PEmpty => Ok (fresh src xs)
    | PStrs l => Ok (PStrs (l ++ map x_to_text xs))
    | PStr s => Ok (PStrs (s :: map x_to_text xs))
    | PNum k l => Ok (PNum k (l ++ map (x_to_num k) xs))
    | PF32 l => Ok (PF32 (l ++ map (x_to_float TF32) xs))
    | PF64 l => Ok (PF64 (l ++ map (x_to_float TF64) xs))
    | POther _ _ => Err E_incompatible_number
    end.
End Oracles.

Definition extend_str (v : pvalue) (ss : list str) : outcome pvalue :=
  match v with
  | PEmpty => Ok (PStrs ss)
  | PStrs l => Ok (PStrs (l ++ ss))
  | PStr s => Ok (PStrs (s :: ss))
  | _ => Err E_incompatible_string
  end.

Definition truncate (limit : nat) (v : pvalue) : pvalue :=
  match v with
  | PEmpty => PEmpty
  | PStr s => match limit with O => PEmpty | _ => PStr s end      (* fix 1a71c5e *)
  | PStrs l => PStrs (firstn limit l)
  | PNum k l => PNum k (firstn limit l)
  | PF32 l => PF32 (firstn limit l)
  | PF64 l => PF64 (firstn limit l)
  | POther k l => POther k (firstn limit l)
  end.
Definition truncate_unfixed (limit : nat) (v : pvalue) : pvalue :=
  match v with PStr s => PStr s | _ => truncate limit v end.

(** ---- property-side: the items of a value as one list *)
Inductive item := IStr (s : str) | IInt (z : Z) | IF32 (b : N) | IF64 (b : N) | IOther (n : N).
Definition items (v : pvalue) : list item :=
  match v with
  | PEmpty => []
  | PStr s => [IStr s]
  | PStrs l => map IStr l
  | PNum _ l => map IInt l
  | PF32 l => map IF32 l
  | PF64 l => map IF64 l
  | POther _ l => map IOther l
  end.

(** the stored numbers, as mathematical integers, under the sign syntax of the target *)
Definition text_number (signed : bool) (s : str) : option Z := text_int signed (trim_num s).
Fixpoint all_some {A} (l : list (option A)) : option (list A) :=
  match l with
  | [] => Some []
  | Some x :: r => match all_some r with Some xs => Some (x :: xs) | None => None end
  | None :: _ => None
  end.
Definition all_numbers (signed : bool) (v : pvalue) : option (list Z) :=
  match v with
  | PEmpty => Some []
  | PStr s => all_some [text_number signed s]
  | PStrs l => all_some (map (text_number signed) l)
  | PNum _ l => Some l
  | _ => None
  end.
Definition first_number (signed : bool) (v : pvalue) : option Z :=
  match v with
  | PStr s => text_number signed s
  | PStrs (s :: _) => text_number signed s
  | PNum _ (x :: _) => Some x
  | _ => None
  end.
Definition int_convertible (v : pvalue) : Prop :=
  match v with PF32 _ | PF64 _ | POther _ _ => False | _ => True end.
Definition float_convertible (v : pvalue) : Prop :=
  match v with POther _ _ => False | _ => True end.

(** items of the stored kind *)
Definition wf_value (v : pvalue) : Prop :=
  match v with
  | PNum k l => Forall (fun z => (nk_lo k <= z <= nk_hi k)%Z) l
  | _ => True
  end.

(** ---- correspondence ------------------------------------------------------ *)
Definition numkind_eqb (a b : numkind) : bool :=
  match a, b with
  | KU8, KU8 | KI16, KI16 | KU16, KU16 | KI32, KI32 | KU32, KU32 | KI64, KI64 | KU64, KU64 => true
  | _, _ => false
  end.
Definition pvalue_eqb (a b : pvalue) : bool :=
  match a, b with
  | PEmpty, PEmpty => true
  | PStrs x, PStrs y => list_eqb str_eqb x y
  | PStr x, PStr y => str_eqb x y
  | PNum k x, PNum j y => numkind_eqb k j && list_eqb Z.eqb x y
  | PF32 x, PF32 y => list_eqb N.eqb x y
  | PF64 x, PF64 y => list_eqb N.eqb x y
  | POther k x, POther j y => (k =? j) && list_eqb N.eqb x y
  | _, _ => false
  end.
Definition fnum_eqb (a b : fnum) : bool :=
  match a, b with F32b x, F32b y | F64b x, F64b y => x =? y | _, _ => false end.
Definition fsrc_eqb (a b : fsrc) : bool :=
  match a, b with
  | FromText x, FromText y => str_eqb x y
  | FromInt x, FromInt y => Z.eqb x y
  | FromFloat x, FromFloat y => fnum_eqb x y
  | _, _ => false
  end.
Definition ftarget_eqb (a b : ftarget) : bool :=
  match a, b with TF32, TF32 | TF64, TF64 => true | _, _ => false end.
Definition xnum_eqb (a b : xnum) : bool :=
  match a, b with XInt x, XInt y => Z.eqb x y | XFloat x, XFloat y => fnum_eqb x y | _, _ => false end.
Definition res_eqb {X} (eqb : X -> X -> bool) (a b : outcome X) : bool :=
  match a, b with
  | Ok x, Ok y => eqb x y
  | Err e, Err f => e =? f
  | Panic _, Panic _ => true
  | _, _ => false
  end.

(** oracle tables recorded from std operations by the harness; a missing key is
    an answer nobody gives (so the case disagrees) *)
Record otables := OT {
  o_conv : list (ftarget * fsrc * option N);
  o_ascast : list (ftarget * xnum * N);
  o_f2i : list (numkind * fnum * Z);
  o_disp : list (fnum * str) }.
Fixpoint find_map {K V} (eqb : K -> K -> bool) (tbl : list (K * V)) (k : K) : option V :=
  match tbl with
  | [] => None
  | (k', v) :: r => if eqb k' k then Some v else find_map eqb r k
  end.
Definition pair_key_eqb {A B} (ea : A -> A -> bool) (eb : B -> B -> bool) (a b : A * B) : bool :=
  ea (fst a) (fst b) && eb (snd a) (snd b).
Definition t_conv (o : otables) (t : ftarget) (s : fsrc) : option N :=
  match find_map (pair_key_eqb ftarget_eqb fsrc_eqb) (o_conv o) (t, s) with
  | Some r => r | None => Some 4242424242424242424242 end.
Definition t_ascast (o : otables) (t : ftarget) (x : xnum) : N :=
  match find_map (pair_key_eqb ftarget_eqb xnum_eqb) (o_ascast o) (t, x) with
  | Some r => r | None => 4242424242424242424242 end.
Definition t_f2i (o : otables) (k : numkind) (f : fnum) : Z :=
  match find_map (pair_key_eqb numkind_eqb fnum_eqb) (o_f2i o) (k, f) with
  | Some r => r | None => 4242424242424242424242%Z end.
Definition t_disp (o : otables) (f : fnum) : str :=
  match find_map fnum_eqb (o_disp o) f with Some r => r | None => [63; 63; 63] end.

Inductive op :=
| OExtStr (ss : list str)
| OExtNum (src : xsrc) (xs : list xnum)
| OTruncate (limit : nat).

(** one step of an operation history: Err leaves the value unchanged *)
Definition apply_op (o : otables) (v : pvalue) (p : op) : outcome unit * pvalue :=
  match p with
  | OExtStr ss => match extend_str v ss with Ok v' => (Ok tt, v') | Err e => (Err e, v) | Panic w => (Panic w, v) end
  | OExtNum src xs =>
      match extend_num (t_ascast o) (t_f2i o) (t_disp o) src v xs with
      | Ok v' => (Ok tt, v') | Err e => (Err e, v) | Panic w => (Panic w, v) end
  | OTruncate k => (Ok tt, truncate k v)
  end.

Definition unit_eqb (_ _ : unit) : bool := true.

Fixpoint check_history (o : otables) (v : pvalue) (h : list (op * outcome unit * pvalue)) : bool :=
  match h with
  | [] => true
  | (p, r, v') :: rest =>
      let '(mr, mv) := apply_op o v p in
      res_eqb unit_eqb mr r && pvalue_eqb mv v' && check_history o mv rest
  end.

Inductive case :=
| CInt (T : itarget) (v : pvalue) (single : outcome Z) (multi : outcome (list Z))
| CFloat (tgt : ftarget) (v : pvalue) (o : otables) (single : outcome N) (multi : outcome (list N))
| CHist (o : otables) (v : pvalue) (mult : nat) (h : list (op * outcome unit * pvalue)).

Definition check_case (c : case) : bool :=
  match c with
  | CInt T v s m =>
      res_eqb Z.eqb (to_int T v) s && res_eqb (list_eqb Z.eqb) (to_multi_int T v) m
  | CFloat tgt v o s m =>
      res_eqb N.eqb (to_float (t_conv o) tgt v) s
      && res_eqb (list_eqb N.eqb) (to_multi_float (t_conv o) tgt v) m
  | CHist o v mult h => Nat.eqb (multiplicity v) mult && check_history o v h
  end.
