(** C02 for nested canonical streams with EXPLICIT and undefined lengths (the
    property's first sentence): the reference encoding is the NoChange writer's
    encoding of the object the reader builds from it, whose recorded lengths
    are the lengths the reference encoder computed. Generalises CanonTreeP.v. *)
From Coq Require Import ZifyBool ZifyNat ZifyN Sorting.Sorted.
From DicomV Require Import Base.Endian Model.Vr Model.Header Model.Prim Model.Dataset Model.Writer Model.Reader
  Spec.Ps35 Proofs.HeaderP Proofs.PrimP Proofs.WriterP Proofs.ValidP Proofs.FlatP Proofs.ValueP Proofs.ReaderP
  Proofs.RoundTripP Proofs.TotalP Proofs.RewriteP Proofs.NestedP Proofs.NestedGP Proofs.ReadStepsP Proofs.ReadTreeP
  Proofs.ReadStepsGP Proofs.ReadTreeGP Proofs.BuildTreeP Proofs.BuildTreeGP Proofs.RoundTripTreeP Proofs.RoundTripGP
  Proofs.CanonTreeP.
Open Scope N_scope.

Definition clen (ex : bool) (b : bytes) : N := if ex then ps35_len b else undef.

(** The object the reader builds: recorded lengths = lengths in the stream. *)
Fixpoint of_c_g (c : codec) (d : dict_t) (e : celem) : elem :=
  match e with
  | CPrim t v val => EPrim t (read_vr c d t v) (blen val) (readback_prim c (read_vr c d t v) val)
  | CSeq t ex its =>
      ESeq t SQ (clen ex (canon_items c its))
        (map (fun it : bool * list celem => (clen (fst it) (canon_encode c (snd it)), map (of_c_g c d) (snd it))) its)
  | CPix ot frags => EPix pixel_tag OB undef ot frags
  end.

Definition size_ok (b : bytes) : Prop := blen b < 4294967295 /\ blen b mod 2 = 0.

(** Canonical nested data sets, explicit or undefined lengths. *)
Inductive canonical_g (c : codec) (d : dict_t) : celem -> Prop :=
| CgPrim t v val :
    wf_tag t -> fst t <> 65534 -> t <> (40, 259) -> canon_val c (read_vr c d t v) val ->
    (c <> ILE -> ps35_len16 v = true -> blen val <= 65535) -> canonical_g c d (CPrim t v val)
| CgSeq t ex its :
    wf_tag t -> fst t <> 65534 -> t <> pixel_tag ->
    (ex = true -> size_ok (canon_items c its) /\ vr_eqb (read_vr c d t SQ) SQ = true) ->
    Forall (fun it : bool * list celem =>
              (fst it = true -> size_ok (canon_encode c (snd it))) /\
              Forall (canonical_g c d) (snd it) /\ StronglySorted tag_lt (map ctag (snd it))) its ->
    canonical_g c d (CSeq t ex its)
| CgPix ot frags :
    Forall (fun x => x < 4294967296) ot -> nlen ot < 1073741824 ->
    Forall (fun f : bytes => blen f mod 2 = 0 /\ blen f < 4294967294) frags ->
    canonical_g c d (CPix ot frags).

Lemma clen_ok ex b : (ex = true -> size_ok b) -> len_ok (clen ex b).
Proof.
  unfold clen, len_ok. destruct ex; [|intros _; left; reflexivity].
  intros H. destruct (H eq_refl) as [H1 H2]. right. split; assumption.
Qed.

(** * (a) the NoChange writer's encoding of the object is the reference encoding, for every fuel that succeeds *)
Definition enc_canon_g (c : codec) (d : dict_t) (e : celem) : Prop :=
  (forall f, (elem_size (of_c_g c d e) <= f)%nat -> enc_tree_g f c true (of_c_g c d e) = Ok (canon_elem c e)) /\
  (forall f b, enc_tree_g f c true (of_c_g c d e) = Ok b -> b = canon_elem c e).

Lemma enc_trees_canon_g c d es :
  Forall (enc_canon_g c d) es ->
  (forall f, (elems_size (map (of_c_g c d) es) <= f)%nat -> enc_trees_g f c true (map (of_c_g c d) es) = Ok (canon_encode c es)) /\
  (forall f b, enc_trees_g f c true (map (of_c_g c d) es) = Ok b -> b = canon_encode c es).
Proof.
  induction 1 as [|e es [He1 He2] Hes [I1 I2]]; [split; [reflexivity | intros f b E; inversion E; reflexivity]|].
  split.
  - intros f F. cbn [map elems_size] in F. cbn [map enc_trees_g canon_encode].
    rewrite He1 by lia. cbn [obind]. rewrite I1 by lia. reflexivity.
  - intros f b E. cbn [map enc_trees_g] in E.
    apply obind_ok in E. destruct E as (b1 & E1 & E). apply obind_ok in E. destruct E as (b2 & E2 & E).
    inversion E; subst b. rewrite (He2 f b1 E1), (I2 f b2 E2). reflexivity.
Qed.

Definition citem_cond (c : codec) (d : dict_t) (it : bool * list celem) : Prop :=
  (fst it = true -> size_ok (canon_encode c (snd it))) /\ Forall (enc_canon_g c d) (snd it).

Definition items_of (c : codec) (d : dict_t) (its : list (bool * list celem)) : list item :=
  map (fun it : bool * list celem => (clen (fst it) (canon_encode c (snd it)), map (of_c_g c d) (snd it))) its.

Lemma item_bytes_canon c ex body :
  (ex = true -> size_ok body) ->
  st_enc_item_header c (wl true (clen ex body)) ++ body ++ (if wl true (clen ex body) =? undef then enc_item_delim c else [])
  = if ex then ps35_item_header c (ps35_len body) ++ body
    else ps35_item_header c undefined_length ++ body ++ ps35_item_delim c.
Proof.
  intros H. unfold wl, clen. destruct ex; cbv iota.
  - destruct (H eq_refl) as [H1 H2]. unfold size_ok in *. change (ps35_len body) with (blen body).
    assert (Hu : (blen body =? undef) = false) by (apply N.eqb_neq; unfold undef; clear - H1; lia).
    rewrite Hu. rewrite st_item_header_even by assumption. rewrite List.app_nil_r. reflexivity.
  - change (undef =? undef) with true. cbv iota. rewrite st_item_header_undef, enc_item_delim_ps35. reflexivity.
Qed.

Lemma item_bytes_canon' c ex body r :
  (ex = true -> size_ok body) ->
  st_enc_item_header c (wl true (clen ex body)) ++ body ++ (if wl true (clen ex body) =? undef then enc_item_delim c else []) ++ r
  = (if ex then ps35_item_header c (ps35_len body) ++ body
     else ps35_item_header c undefined_length ++ body ++ ps35_item_delim c) ++ r.
Proof. intros H. rewrite <- (item_bytes_canon c ex body H), <- !app_assoc. reflexivity. Qed.

Lemma enc_items_canon_g c d its :
  Forall (citem_cond c d) its ->
  (forall f, (items_size (items_of c d its) <= f)%nat -> enc_items_g f c true (items_of c d its) = Ok (canon_items c its)) /\
  (forall f b, enc_items_g f c true (items_of c d its) = Ok b -> b = canon_items c its).
Proof.
  induction 1 as [|[ex es] its [Hsz Hes] Hits [I1 I2]]; [split; [reflexivity | intros f b E; inversion E; reflexivity]|].
  cbn [fst snd] in *. destruct (enc_trees_canon_g c d es Hes) as [T1 T2].
  split.
  - intros f F. cbn [items_of map items_size snd] in F. fold (items_of c d its) in F.
    cbn [items_of map enc_items_g canon_items fst snd].
    rewrite T1 by lia. cbn [obind]. fold (items_of c d its). rewrite I1 by lia. cbn [obind].
    f_equal. apply item_bytes_canon'. exact Hsz.
  - intros f b E. cbn [items_of map enc_items_g fst snd] in E. fold (items_of c d its) in E.
    apply obind_ok in E. destruct E as (b1 & E1 & E). apply obind_ok in E. destruct E as (b2 & E2 & E).
    inversion E; subst b. rewrite (T2 f b1 E1), (I2 f b2 E2). cbn [canon_items].
    apply item_bytes_canon'. exact Hsz.
Qed.

Lemma seq_bytes_canon c t ex body :
  (ex = true -> size_ok body) ->
  obind (st_enc_header c t SQ (wl true (clen ex body)))
        (fun h => Ok (h ++ body ++ (if wl true (clen ex body) =? undef then enc_seq_delim c else [])))
  = Ok (if ex then ps35_header c t SQ (ps35_len body) ++ body
        else ps35_header c t SQ undefined_length ++ body ++ ps35_seq_delim c).
Proof.
  intros H. unfold wl, clen. destruct ex; cbv iota.
  - destruct (H eq_refl) as [H1 H2]. change (ps35_len body) with (blen body).
    assert (Hu : (blen body =? undef) = false) by (apply N.eqb_neq; unfold undef; clear - H1; lia).
    rewrite Hu. rewrite st_enc_header_defined by (assumption || (intros _ Hs; discriminate Hs)).
    cbn [obind]. rewrite List.app_nil_r. reflexivity.
  - change (undef =? undef) with true. cbv iota. rewrite st_enc_header_undef_sq. cbn [obind].
    rewrite enc_seq_delim_ps35. reflexivity.
Qed.

Lemma canonical_enc_g c d : forall e, canonical_g c d e -> enc_canon_g c d e.
Proof.
  apply (celem_ind_nested (fun e => canonical_g c d e -> enc_canon_g c d e)).
  - intros t v val Cn. inversion Cn as [? ? ? Ht Hg Hp Hc H16| |]; subst.
    destruct (back_value_not_sq c (read_vr c d t v) val (canon_val_not_sq _ _ _ Hc)) as [q Hq].
    assert (Q : readback_prim c (read_vr c d t v) val = q) by (unfold readback_prim; rewrite Hq; reflexivity).
    assert (E : enc_prim_element c t (read_vr c d t v) q = Ok (canon_elem c (CPrim t v val))).
    { cbn [canon_elem]. rewrite (rewrite_element c t (read_vr c d t v) val q Hc Hq), header_read_vr. reflexivity. }
    split.
    + intros f F. destruct f as [|f]; [cbn in F; lia|]. cbn [of_c_g enc_tree_g]. rewrite Q. exact E.
    + intros f b Eb. destruct f as [|f]; [cbn in Eb; discriminate|]. cbn [of_c_g enc_tree_g] in Eb. rewrite Q, E in Eb.
      inversion Eb. reflexivity.
  - intros ot fr Cn.
    assert (Cn' : canonical c d (CPix ot fr)).
    { inversion Cn; subst. constructor; assumption. }
    pose proof (canonical_enc c d (CPix ot fr) Cn') as E0. unfold enc_is_canon in E0. cbn [of_c] in E0.
    split.
    + intros f F. destruct f as [|f]; [cbn in F; lia|]. specialize (E0 (S f) F). exact E0.
    + intros f b Eb. destruct f as [|f]; [cbn in Eb; discriminate|].
      assert (F1 : (elem_size (EPix pixel_tag OB undef ot fr) <= S (length fr))%nat) by (cbn; lia).
      specialize (E0 (S (length fr)) F1).
      cbn [of_c_g enc_tree_g] in Eb. cbn [enc_tree] in E0. rewrite E0 in Eb. inversion Eb. reflexivity.
  - intros t ex its IH Cn. inversion Cn as [|? ? ? Ht Hg Hpx Hex Hits|]; subst.
    assert (A : Forall (citem_cond c d) its).
    { clear Cn Hex. induction its as [|it its IHi]; [constructor|].
      inversion IH as [|? ? I1 I2]; inversion Hits as [|? ? (J0 & J1 & J3) J2]; subst. constructor.
      - split; [exact J0|]. clear IHi I2 J2 J3 J0. induction (snd it) as [|x xs IHx]; [constructor|].
        inversion I1; inversion J1; subst. constructor; [auto | auto].
      - apply IHi; assumption. }
    destruct (enc_items_canon_g c d its A) as [I1 I2].
    assert (Hsz : ex = true -> size_ok (canon_items c its)) by (intros Hx; exact (proj1 (Hex Hx))).
    split.
    + intros f F. destruct f as [|f]; [cbn in F; lia|]. cbn [of_c_g] in F |- *. fold (items_of c d its) in F |- *.
      rewrite elem_size_seq in F. rewrite enc_tree_g_seq, I1 by lia.
      rewrite canon_elem_seq.
      destruct (st_enc_header c t SQ (wl true (clen ex (canon_items c its)))) as [h|x|x] eqn:EH;
        pose proof (seq_bytes_canon c t ex (canon_items c its) Hsz) as SB; rewrite EH in SB; cbn [obind] in SB |- *;
        try discriminate SB. exact SB.
    + intros f b Eb. destruct f as [|f]; [cbn in Eb; discriminate|]. cbn [of_c_g] in Eb. fold (items_of c d its) in Eb.
      rewrite enc_tree_g_seq in Eb.
      destruct (st_enc_header c t SQ (wl true (clen ex (canon_items c its)))) as [h|x|x] eqn:EH; try discriminate Eb.
      cbn [obind] in Eb. apply obind_ok in Eb. destruct Eb as (body & E1 & Eb).
      rewrite (I2 f body E1) in Eb. rewrite canon_elem_seq.
      pose proof (seq_bytes_canon c t ex (canon_items c its) Hsz) as SB. rewrite EH in SB. cbn [obind] in SB.
      rewrite SB in Eb. inversion Eb. reflexivity.
Qed.

(** * (b) the object is readable under NoChange and is its own normal form *)
Lemma of_c_g_tag c d e : canonical_g c d e -> elem_tag (of_c_g c d e) = ctag e.
Proof. intros Cn. inversion Cn; reflexivity. Qed.

Lemma map_of_c_g_tags c d es : Forall (canonical_g c d) es -> map elem_tag (map (of_c_g c d) es) = map ctag es.
Proof.
  induction 1 as [|e es He Hes IH]; [reflexivity|]. cbn [map]. rewrite IH, of_c_g_tag by exact He. reflexivity.
Qed.

Definition obj_ok_g (c : codec) (d : dict_t) (e : celem) : Prop :=
  readable_g c d true (of_c_g c d e) /\ norm_tree_g c d true (of_c_g c d e) = of_c_g c d e.

Lemma clen_actual ex b body : body = b -> wl true (clen ex b) = undef \/ wl true (clen ex b) = blen body.
Proof. intros ->. unfold wl, clen. destruct ex; [right; reflexivity | left; reflexivity]. Qed.

Lemma canonical_obj_ok_g c d : forall e, canonical_g c d e -> obj_ok_g c d e.
Proof.
  apply (celem_ind_nested (fun e => canonical_g c d e -> obj_ok_g c d e)).
  - intros t v val Cn. inversion Cn as [? ? ? Ht Hg Hp Hc H16| |]; subst.
    assert (Cn' : canonical c d (CPrim t v val)) by (constructor; assumption).
    destruct (canonical_obj_ok c d _ Cn') as [R Nm]. cbn [of_c] in R, Nm. unfold obj_ok_g. cbn [of_c_g]. split.
    + inversion R; subst. constructor; assumption.
    + exact Nm.
  - intros ot fr Cn. inversion Cn as [| |? ? Hot Hn Hfr]; subst.
    assert (Cn' : canonical c d (CPix ot fr)) by (constructor; assumption).
    destruct (canonical_obj_ok c d _ Cn') as [R Nm]. cbn [of_c] in R, Nm. unfold obj_ok_g. cbn [of_c_g]. split.
    + inversion R; subst. constructor; assumption.
    + exact Nm.
  - intros t ex its IH Cn. inversion Cn as [|? ? ? Ht Hg Hpx Hex Hits|]; subst.
    pose proof (canonical_enc_g c d _ Cn) as _.
    assert (A : Forall (fun it : bool * list celem =>
                          (fst it = true -> size_ok (canon_encode c (snd it))) /\
                          Forall (obj_ok_g c d) (snd it) /\ Forall (canonical_g c d) (snd it)
                          /\ StronglySorted tag_lt (map ctag (snd it))) its).
    { clear Cn Hex. induction its as [|it its IHi]; [constructor|].
      inversion IH as [|? ? I1 I2]; inversion Hits as [|? ? (J0 & J1 & J3) J2]; subst. constructor.
      - split; [exact J0|]. split; [|split; assumption]. clear IHi I2 J2 J3 J0. induction (snd it) as [|x xs IHx]; [constructor|].
        inversion I1; inversion J1; subst. constructor; [auto | auto].
      - apply IHi; assumption. }
    assert (B : Forall (citem_cond c d) its).
    { eapply Forall_impl; [|exact A]. intros it (J0 & _ & J1 & _). split; [exact J0|].
      eapply Forall_impl; [apply canonical_enc_g | exact J1]. }
    destruct (enc_items_canon_g c d its B) as [_ I2].
    unfold obj_ok_g. cbn [of_c_g]. fold (items_of c d its). split.
    + constructor; try assumption.
      * apply clen_ok. intros Hx. exact (proj1 (Hex Hx)).
      * unfold wl, clen. destruct ex; [right; exact (proj2 (Hex eq_refl)) | left; reflexivity].
      * intros f body E. apply clen_actual. exact (I2 f body E).
      * clear Cn IH Hits Hex B I2. unfold items_of.
        induction A as [|it its (Sz & O & Cs & Ss) _ IHa]; [constructor|]. cbn [map]. constructor; [|exact IHa].
        cbn [fst snd]. split; [apply clen_ok; exact Sz|]. split; [|split].
        -- intros f body E. apply clen_actual.
           assert (Ec : Forall (enc_canon_g c d) (snd it)) by (eapply Forall_impl; [apply canonical_enc_g | exact Cs]).
           exact (proj2 (enc_trees_canon_g c d (snd it) Ec) f body E).
        -- clear Ss Cs Sz IHa. induction O as [|x xs [Rx _] _ IHx]; [constructor|]. cbn [map]. constructor; assumption.
        -- rewrite map_of_c_g_tags by exact Cs. exact Ss.
    + cbn [norm_tree_g wl]. f_equal. unfold items_of.
      clear Cn IH Hits Hex B I2. induction A as [|it its (_ & O & _ & _) _ IHa]; [reflexivity|]. cbn [map fst snd]. rewrite IHa. f_equal. f_equal.
      clear IHa. induction O as [|x xs [_ Nx] _ IHx]; [reflexivity|]. cbn [map]. rewrite Nx, IHx. reflexivity.
Qed.

(** * C02, first sentence: nested canonical streams with explicit and undefined
    lengths are read and rewritten byte-identically under NoChange. *)
Lemma read_rewrite_tree_g c d es :
  delim_ok c d -> Forall (canonical_g c d) es -> StronglySorted tag_lt (map ctag es) ->
  exists obj, read_dataset c d (canon_encode c es) = Ok obj /\
              write_dataset c true false obj = Ok (canon_encode c es).
Proof.
  intros Hd Cn S. exists (map (of_c_g c d) es).
  assert (O : Forall (obj_ok_g c d) es) by (eapply Forall_impl; [apply canonical_obj_ok_g | exact Cn]).
  assert (R : Forall (readable_g c d true) (map (of_c_g c d) es)).
  { clear S. induction O as [|e es [Re _] _ IH]; [constructor|]. inversion Cn; subst. constructor; auto. }
  assert (Nm : map (norm_tree_g c d true) (map (of_c_g c d) es) = map (of_c_g c d) es).
  { clear S R. induction O as [|e es [_ Ne] _ IH]; [reflexivity|]. inversion Cn; subst. cbn [map]. rewrite Ne, IH by assumption. reflexivity. }
  assert (Rg : Forall regular (map (of_c_g c d) es)) by (eapply Forall_impl; [apply (readable_g_regular c d true) | exact R]).
  assert (W0 : write_dataset c true false (map (of_c_g c d) es) = Ok (canon_encode c es)).
  { rewrite write_dataset_nested_g by exact Rg.
    apply (proj1 (enc_trees_canon_g c d es ltac:(eapply Forall_impl; [apply canonical_enc_g | exact Cn]))). lia. }
  split; [|exact W0].
  rewrite (roundtrip_tree_g c d true _ _ Hd R); [rewrite Nm; reflexivity | | exact W0].
  rewrite map_of_c_g_tags by exact Cn. exact S.
Qed.
