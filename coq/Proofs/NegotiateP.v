(** Lemmas about Model/Negotiate.v (C28). *)
From DicomV Require Import Model.Negotiate.

Lemma mem_In x l : mem x l = true <-> In x l.
Proof.
  unfold mem. rewrite existsb_exists. split.
  - intros [y [Hin He]]. apply str_eqb_spec in He. subst; exact Hin.
  - intros Hin. exists x. split; [exact Hin | apply str_eqb_spec; reflexivity].
Qed.

Lemma mem_false x l : mem x l = false <-> ~ In x l.
Proof.
  rewrite <- not_true_iff_false, mem_In. reflexivity.
Qed.

Lemma find_first {A} (p : A -> bool) l x :
  find p l = Some x ->
  exists l1 l2, l = l1 ++ x :: l2 /\ p x = true /\ forall y, In y l1 -> p y = false.
Proof.
  induction l as [|a l IH]; cbn; [discriminate|].
  destruct (p a) eqn:Hp.
  - intros E; inversion E; subst. exists [], l. cbn. repeat split; [exact Hp | intros y []].
  - intros E. destruct (IH E) as [l1 [l2 [-> [Hx Hl1]]]].
    exists (a :: l1), l2. repeat split; [exact Hx|].
    intros y [<-|Hy]; [exact Hp | apply Hl1; exact Hy].
Qed.

Lemma find_none {A} (p : A -> bool) l : find p l = None <-> forall y, In y l -> p y = false.
Proof.
  split.
  - intros H y Hy. exact (find_none p l H y Hy).
  - induction l as [|a l IH]; cbn; [reflexivity|]. intros H.
    rewrite (H a (or_introl eq_refl)). apply IH. intros y Hy; apply H; right; exact Hy.
Qed.

Section WithReg.
  Variable reg : str -> option bool.

  Lemma ts_ok_spec c ts : ts_ok reg (sc_ts c) ts = true <-> ts_acceptable reg c ts.
  Proof.
    unfold ts_ok, ts_acceptable. destruct (sc_ts c) as [|t0 l] eqn:E.
    - split; [intros H; split; [left; reflexivity | exact H] | intros [_ H]; exact H].
    - rewrite andb_true_iff, mem_In. split.
      + intros [H1 H2]. split; [right; exact H1 | exact H2].
      + intros [[H|H] H2]; [discriminate | split; assumption].
  Qed.

  Lemma ts_ok_false c ts : ts_ok reg (sc_ts c) ts = false <-> ~ ts_acceptable reg c ts.
  Proof.
    rewrite <- not_true_iff_false, ts_ok_spec. reflexivity.
  Qed.

  Lemma abs_ok_spec c a : abs_ok c (trim_uid a) = true <-> abs_acceptable c a.
  Proof. unfold abs_ok, abs_acceptable. rewrite orb_true_iff, mem_In. reflexivity. Qed.

  Lemma abs_ok_false c a : abs_ok c (trim_uid a) = false <-> ~ abs_acceptable c a.
  Proof.
    rewrite <- not_true_iff_false, abs_ok_spec. reflexivity.
  Qed.

  Lemma choose_ts_some c pts ts :
    choose_ts reg (sc_ts c) pts = Some ts -> first_such (ts_acceptable reg c) pts ts.
  Proof.
    unfold choose_ts. intros H. destruct (find_first _ _ _ H) as [l1 [l2 [-> [Hx Hl]]]].
    exists l1, l2. split; [reflexivity|]. split; [apply ts_ok_spec; exact Hx|].
    intros y Hy. apply ts_ok_false. apply Hl; exact Hy.
  Qed.

  Lemma choose_ts_none c pts :
    choose_ts reg (sc_ts c) pts = None <-> forall ts, In ts pts -> ~ ts_acceptable reg c ts.
  Proof.
    unfold choose_ts. rewrite find_none. split; intros H ts Hts.
    - apply ts_ok_false, H, Hts.
    - apply ts_ok_false, H, Hts.
  Qed.

  Lemma negotiate_pc_id c pc : pn_id (negotiate_pc reg c pc) = pp_id pc.
  Proof.
    unfold negotiate_pc. destruct (negb _); [reflexivity|].
    destruct (choose_ts _ _ _); reflexivity.
  Qed.

  (** the function satisfies the declarative rule *)
  Lemma negotiate_pc_rule c pc : ctx_rule reg c pc (negotiate_pc reg c pc).
  Proof.
    unfold ctx_rule, negotiate_pc.
    destruct (abs_ok c (trim_uid (pp_abs pc))) eqn:Ha; cbn [negb].
    - apply abs_ok_spec in Ha.
      destruct (choose_ts reg (sc_ts c) (pp_ts pc)) as [ts|] eqn:Hc; cbn.
      + split; [reflexivity|]. split; [reflexivity|]. left.
        split; [exact Ha|]. split; [apply choose_ts_some; exact Hc | reflexivity].
      + split; [reflexivity|]. split; [reflexivity|]. right; right.
        split; [exact Ha|]. split; [apply choose_ts_none; exact Hc|]. split; reflexivity.
    - apply abs_ok_false in Ha. cbn. split; [reflexivity|]. split; [reflexivity|].
      right; left. split; [exact Ha|]. split; reflexivity.
  Qed.

  Lemma first_such_unique (P : str -> Prop) l x y : first_such P l x -> first_such P l y -> x = y.
  Proof.
    intros [a1 [a2 [E1 [Px Ha]]]] [b1 [b2 [E2 [Py Hb]]]]. subst l.
    revert b1 E2 Hb. induction a1 as [|u a1 IH]; intros b1 E2 Hb.
    - destruct b1 as [|v b1]; cbn in E2.
      + injection E2 as E3 _. exact E3.
      + injection E2 as E3 _. exfalso. apply (Hb v); [left; reflexivity | rewrite <- E3; exact Px].
    - destruct b1 as [|v b1]; cbn in E2.
      + injection E2 as E3 _. exfalso. apply (Ha u); [left; reflexivity | rewrite E3; exact Py].
      + injection E2 as _ E4.
        apply (IH (fun z Hz => Ha z (or_intror Hz)) b1 E4 (fun z Hz => Hb z (or_intror Hz))).
  Qed.

  (** ... and the rule determines the result: the rule is a complete specification *)
  Lemma ctx_rule_functional c pc r1 r2 : ctx_rule reg c pc r1 -> ctx_rule reg c pc r2 -> r1 = r2.
  Proof.
    intros [I1 [A1 H1]] [I2 [A2 H2]].
    destruct r1 as [i1 n1 t1 a1], r2 as [i2 n2 t2 a2]; cbn in *. subst i1 i2 a1 a2.
    destruct H1 as [[Ha1 [F1 ->]]|[[Ha1 [-> ->]]|[Ha1 [N1 [-> ->]]]]];
    destruct H2 as [[Ha2 [F2 ->]]|[[Ha2 [-> ->]]|[Ha2 [N2 [-> ->]]]]];
      try reflexivity; try contradiction.
    - rewrite (first_such_unique _ _ _ _ F1 F2). reflexivity.
    - exfalso. destruct F1 as [l1 [l2 [E [P _]]]]. apply (N2 t1); [rewrite E; apply in_elt | exact P].
    - exfalso. destruct F2 as [l1 [l2 [E [P _]]]]. apply (N1 t2); [rewrite E; apply in_elt | exact P].
  Qed.

  Lemma accept_iff c pc :
    pn_reason (negotiate_pc reg c pc) = R_ACCEPT <->
    abs_acceptable c (pp_abs pc) /\ exists ts, In ts (pp_ts pc) /\ ts_acceptable reg c ts.
  Proof.
    destruct (negotiate_pc_rule c pc) as [_ [_ H]]. split.
    - intros Hr. destruct H as [[Ha [F _]]|[[_ [E _]]|[_ [_ [E _]]]]];
        [| rewrite E in Hr; discriminate | rewrite E in Hr; discriminate].
      split; [exact Ha|]. destruct F as [l1 [l2 [E [P _]]]]. exists (pn_ts (negotiate_pc reg c pc)).
      split; [rewrite E; apply in_elt | exact P].
    - intros [Ha [ts [Hin Hts]]]. destruct H as [[_ [_ E]]|[[Hn _]|[_ [N _]]]];
        [exact E | contradiction | exfalso; exact (N ts Hin Hts)].
  Qed.

  Lemma chosen_first c pc :
    pn_reason (negotiate_pc reg c pc) = R_ACCEPT ->
    first_such (ts_acceptable reg c) (pp_ts pc) (pn_ts (negotiate_pc reg c pc)).
  Proof.
    intros Hr. destruct (negotiate_pc_rule c pc) as [_ [_ H]].
    destruct H as [[_ [F _]]|[[_ [E _]]|[_ [_ [E _]]]]];
      [exact F | rewrite E in Hr; discriminate | rewrite E in Hr; discriminate].
  Qed.

  Lemma reason_cases c pc :
    let r := negotiate_pc reg c pc in
    (pn_reason r = R_ABSTRACT <-> ~ abs_acceptable c (pp_abs pc)) /\
    (pn_reason r = R_TS <-> abs_acceptable c (pp_abs pc) /\ forall ts, In ts (pp_ts pc) -> ~ ts_acceptable reg c ts) /\
    (pn_reason r = R_ACCEPT \/ pn_reason r = R_ABSTRACT \/ pn_reason r = R_TS) /\
    (pn_reason r <> R_ACCEPT -> pn_ts r = implicit_vr_le).
  Proof.
    cbv zeta. destruct (negotiate_pc_rule c pc) as [_ [_ H]].
    destruct H as [[Ha [F E]]|[[Hn [E Et]]|[Ha [N [E Et]]]]]; rewrite E.
    - split; [split; [discriminate | intros Hn; contradiction]|].
      split; [split; [discriminate|]|].
      + intros [_ N]. exfalso. destruct F as [l1 [l2 [El [P _]]]].
        apply (N (pn_ts (negotiate_pc reg c pc))); [rewrite El; apply in_elt | exact P].
      + split; [left; reflexivity | intros Hc; exfalso; apply Hc; reflexivity].
    - split; [split; [intros _; exact Hn | reflexivity]|].
      split; [split; [discriminate | intros [Ha _]; contradiction]|].
      split; [right; left; reflexivity | intros _; exact Et].
    - split; [split; [discriminate | intros Hn; contradiction]|].
      split; [split; [intros _; split; assumption | reflexivity]|].
      split; [right; right; reflexivity | intros _; exact Et].
  Qed.

  Lemma process_accept_inv c rq pcs pm acs am x y z :
    process_rq reg c (InRQ rq) = OAccept pcs pm acs am x y z ->
    pcs = map (negotiate_pc reg c) (rq_pcs rq) /\ acs = map to_result pcs /\
    pm = requestor_max (rq_uvars rq) /\ am = sc_max_pdu c /\
    x = rq_app_ctx rq /\ y = rq_calling rq /\ z = rq_called rq.
  Proof.
    cbn. destruct (negb (rq_proto rq =? sc_proto c)); [discriminate|].
    destruct (negb (str_eqb _ _)); [discriminate|].
    destruct (check_access _ _ _); [discriminate|].
    intros E; inversion E; subst. repeat split; reflexivity.
  Qed.

  Lemma one_result_per_context c rq pcs pm acs am x y z :
    process_rq reg c (InRQ rq) = OAccept pcs pm acs am x y z ->
    map pn_id pcs = map pp_id (rq_pcs rq) /\ map pr_id acs = map pp_id (rq_pcs rq) /\
    acs = map to_result pcs /\ length pcs = length (rq_pcs rq).
  Proof.
    intros H. destruct (process_accept_inv _ _ _ _ _ _ _ _ _ H) as [-> [-> _]].
    rewrite !map_map. cbn [to_result pr_id].
    assert (E : map (fun p => pn_id (negotiate_pc reg c p)) (rq_pcs rq) = map pp_id (rq_pcs rq)).
    { apply map_ext. intros p. apply negotiate_pc_id. }
    repeat split; [exact E | exact E | apply map_length].
  Qed.

  Lemma contexts_by_rule c rq pcs pm acs am x y z :
    process_rq reg c (InRQ rq) = OAccept pcs pm acs am x y z ->
    Forall2 (ctx_rule reg c) (rq_pcs rq) pcs.
  Proof.
    intros H. destruct (process_accept_inv _ _ _ _ _ _ _ _ _ H) as [-> _]. clear H.
    induction (rq_pcs rq) as [|p l IH]; cbn; constructor; [apply negotiate_pc_rule | exact IH].
  Qed.

  (** rejections, in the order the code tests them *)
  Lemma reject_proto c rq : rq_proto rq <> sc_proto c ->
    process_rq reg c (InRQ rq) = OReject SRC_ACSE RSN_PROTO.
  Proof. intros H. cbn. apply N.eqb_neq in H. rewrite H. reflexivity. Qed.

  Lemma reject_app_ctx c rq : rq_proto rq = sc_proto c -> rq_app_ctx rq <> sc_app_ctx c ->
    process_rq reg c (InRQ rq) = OReject SRC_USER RSN_APP_CTX.
  Proof.
    intros H1 H2. cbn. rewrite H1, N.eqb_refl. cbn.
    destruct (str_eqb (rq_app_ctx rq) (sc_app_ctx c)) eqn:E; [apply str_eqb_spec in E; contradiction | reflexivity].
  Qed.

  Lemma reject_access c rq reason : rq_proto rq = sc_proto c -> rq_app_ctx rq = sc_app_ctx c ->
    check_access (sc_access c) (sc_ae_title c) (rq_called rq) = Some reason ->
    process_rq reg c (InRQ rq) = OReject SRC_USER reason.
  Proof.
    intros H1 H2 H3. cbn. rewrite H1, N.eqb_refl, H2. cbn.
    replace (str_eqb (sc_app_ctx c) (sc_app_ctx c)) with true by (symmetry; apply str_eqb_spec; reflexivity).
    cbn. rewrite H3. reflexivity.
  Qed.

  Lemma check_access_spec a this called :
    check_access a this called =
    match a with
    | AcceptAny => None
    | AcceptCalledAeTitle => if str_eqb this called then None else Some RSN_CALLED_AE
    end.
  Proof. reflexivity. Qed.

  Lemma accepted_iff_all_pass c rq :
    (exists pcs pm acs am x y z, process_rq reg c (InRQ rq) = OAccept pcs pm acs am x y z) <->
    rq_proto rq = sc_proto c /\ rq_app_ctx rq = sc_app_ctx c /\
    check_access (sc_access c) (sc_ae_title c) (rq_called rq) = None.
  Proof.
    split.
    - intros [pcs [pm [acs [am [x [y [z H]]]]]]]. cbn in H.
      destruct (N.eqb_spec (rq_proto rq) (sc_proto c)) as [E1|]; [|discriminate]. cbn in H.
      destruct (str_eqb (rq_app_ctx rq) (sc_app_ctx c)) eqn:E2; [|discriminate]. cbn in H.
      apply str_eqb_spec in E2.
      destruct (check_access _ _ _) eqn:E3; [discriminate|]. repeat split; assumption.
    - intros [H1 [H2 H3]]. cbn. rewrite H1, N.eqb_refl, H2. cbn.
      replace (str_eqb (sc_app_ctx c) (sc_app_ctx c)) with true by (symmetry; apply str_eqb_spec; reflexivity).
      cbn. rewrite H3. repeat eexists.
  Qed.
End WithReg.

(** * Maximum PDU length of the requestor *)
Lemma fold_max_last uv acc :
  fold_left (fun acc v => match v with UvMaxLength len => norm_max len | UvOther => acc end) uv acc =
  match last_max uv with Some n => norm_max n | None => acc end.
Proof.
  revert acc. induction uv as [|v uv IH]; intros acc; cbn; [reflexivity|].
  rewrite IH. destruct (last_max uv); [reflexivity|]. destruct v; reflexivity.
Qed.

Lemma requestor_max_spec uv :
  requestor_max uv = match last_max uv with
                     | None => DEFAULT_MAX_PDU
                     | Some 0 => MAXIMUM_PDU_SIZE
                     | Some n => N.min n MAXIMUM_PDU_SIZE
                     end.
Proof.
  unfold requestor_max. rewrite fold_max_last. destruct (last_max uv) as [n|]; [|reflexivity].
  unfold norm_max. destruct n; reflexivity.
Qed.

Lemma last_max_none uv : last_max uv = None <-> forall n, ~ In (UvMaxLength n) uv.
Proof.
  induction uv as [|v uv IH]; cbn.
  - split; [intros _ n [] | reflexivity].
  - destruct (last_max uv) as [m|].
    + split; [discriminate|]. intros H. exfalso.
      assert (Hn : ~ (forall n, ~ In (UvMaxLength n) uv)) by (intros X; apply IH in X; discriminate).
      apply Hn. intros n Hin. apply (H n). right; exact Hin.
    + destruct v as [n|].
      * split; [discriminate|]. intros H. exfalso. apply (H n). left; reflexivity.
      * split; [|reflexivity]. intros _ n [Hd|Hin]; [discriminate|].
        destruct IH as [IH _]. exact (IH eq_refl n Hin).
  Qed.

Lemma last_max_app uv1 n uv2 :
  (forall m, ~ In (UvMaxLength m) uv2) -> last_max (uv1 ++ UvMaxLength n :: uv2) = Some n.
Proof.
  intros H. apply last_max_none in H. induction uv1 as [|v uv1 IH]; cbn.
  - rewrite H. reflexivity.
  - rewrite IH. reflexivity.
Qed.

Lemma requestor_max_bounds uv : 0 < requestor_max uv /\ requestor_max uv <= MAXIMUM_PDU_SIZE.
Proof.
  rewrite requestor_max_spec. unfold DEFAULT_MAX_PDU, MAXIMUM_PDU_SIZE.
  destruct (last_max uv) as [[|p]|]; lia.
Qed.
