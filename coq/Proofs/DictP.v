(** Lemmas about Model/Dict.v: the indexed lookup equals the precedence text of
    Spec/DictSpec.v for every tag; keyword, constant and SOP class sweeps.
    Unbounded part: case analysis over an arbitrary tag (g, e) with g, e < 65536,
    using generic lemmas about [fold_left reg_index] and finite facts about the
    regenerated table (closed by [vm_compute] over the COMPLETE table). *)
From DicomV Require Import Model.Dict Spec.DictSpec.
From Coq Require Import Lia ZifyBool ZifyNat ZifyN.
Ltac Zify.zify_post_hook ::= Z.div_mod_to_equations.
Open Scope N_scope.

(* ------------------------------------------------------------------ basics *)
Lemma key_inj a b : key a = key b -> a = b.
Proof.
  unfold key. intros H. apply (f_equal N.pos) in H. rewrite !N.succ_pos_spec in H. lia.
Qed.

Lemma entry_eqb_eq a b : entry_eqb a b = true <-> a = b.
Proof.
  destruct a as [k1 t1 a1 v1], b as [k2 t2 a2 v2]; unfold entry_eqb; cbn [e_kind e_tag e_alias e_vr].
  rewrite !andb_true_iff, !N.eqb_eq, String.eqb_eq.
  split; [intros [[[-> ->] ->] ->]; reflexivity | intros H; inversion H; auto].
Qed.

Lemma uid_entry_eqb_eq a b : uid_entry_eqb a b = true <-> a = b.
Proof.
  destruct a as [a1 a2 a3 a4 a5], b as [b1 b2 b3 b4 b5]; unfold uid_entry_eqb; cbn [u_uid u_name u_alias u_type u_retired].
  rewrite !andb_true_iff, !String.eqb_eq, N.eqb_eq, Bool.eqb_true_iff.
  split; [intros [[[[-> ->] ->] ->] ->]; reflexivity | intros H; inversion H; auto].
Qed.

Lemma opt_entry_eqb_eq a b : opt_eqb entry_eqb a b = true -> a = b.
Proof.
  destruct a, b; cbn; try discriminate; try reflexivity. intros H; apply entry_eqb_eq in H; congruence.
Qed.

Lemma opt_uid_eqb_eq a b : opt_eqb uid_entry_eqb a b = true -> a = b.
Proof.
  destruct a, b; cbn; try discriminate; try reflexivity. intros H; apply uid_entry_eqb_eq in H; congruence.
Qed.

(** complete sweep of [0, n) *)
Definition all_below (P : N -> bool) (n : N) : bool :=
  N.peano_rec (fun _ => bool) true (fun k acc => acc && P k) n.
Lemma all_below_spec P n : all_below P n = true -> forall k, k < n -> P k = true.
Proof.
  unfold all_below. induction n as [|n IH] using N.peano_ind.
  - intros _ k Hk; lia.
  - rewrite N.peano_rec_succ, andb_true_iff. intros [H1 H2] k Hk.
    destruct (N.eq_dec k n) as [->|Hne]; [exact H2|]. apply IH; [exact H1|lia].
Qed.

(** [x & 0xFF00] clears the low byte (all 65 536 values swept). *)
Lemma land_ff00_sweep : all_below (fun g => N.land g 65280 =? g / 256 * 256) 65536 = true.
Proof. vm_compute. reflexivity. Qed.
Lemma land_ff00 g : g < 65536 -> N.land g 65280 = g / 256 * 256.
Proof. intros H. apply N.eqb_eq. exact (all_below_spec _ _ land_ff00_sweep g H). Qed.

(* ------------------------------------------------- generic: fold_left reg_index *)
Lemma by_tag_sound l : forall r k en,
  PM.find k (r_by_tag (fold_left reg_index l r)) = Some en ->
  (In en l /\ key (inner en) = k) \/ PM.find k (r_by_tag r) = Some en.
Proof.
  induction l as [|a l IH]; intros r k en H; cbn [fold_left] in H; [right; exact H|].
  destruct (IH _ _ _ H) as [[Hin Hk]|H']; [left; split; [right; exact Hin|exact Hk]|].
  unfold reg_index in H'; cbn [r_by_tag] in H'.
  destruct (Pos.eq_dec k (key (inner a))) as [->|Hne].
  - rewrite PM.gss in H'. inversion H'; subst. left; split; [left; reflexivity|reflexivity].
  - rewrite PM.gso in H' by exact Hne. right; exact H'.
Qed.

Lemma mem_add_same {A} k (v : A) m : PM.mem k (PM.add k v m) = true.
Proof. rewrite PM.mem_find, PM.gss. reflexivity. Qed.
Lemma mem_add_other {A} k j (v : A) m : k <> j -> PM.mem k (PM.add j v m) = PM.mem k m.
Proof. intros H. rewrite !PM.mem_find, PM.gso by exact H. reflexivity. Qed.
Lemma mem_add_mono {A} k j (v : A) m : PM.mem k m = true -> PM.mem k (PM.add j v m) = true.
Proof.
  intros H. destruct (Pos.eq_dec k j) as [->|Hne]; [apply mem_add_same|]. rewrite mem_add_other by exact Hne. exact H.
Qed.

Section Sets.
(* the same three facts for both repeating sets *)
Variable kind : N.
Variable proj : registry -> PM.t unit.
Hypothesis proj_index : forall r en,
  proj (reg_index r en) = if e_kind en =? kind then PM.add (key (e_tag en)) tt (proj r) else proj r.

Lemma set_sound l : forall r k,
  PM.mem k (proj (fold_left reg_index l r)) = true ->
  (exists en, In en l /\ e_kind en = kind /\ key (e_tag en) = k) \/ PM.mem k (proj r) = true.
Proof.
  induction l as [|a l IH]; intros r k H; cbn [fold_left] in H; [right; exact H|].
  destruct (IH _ _ H) as [[en [Hin [Hk Hkey]]]|H']; [left; exists en; split; [right; exact Hin|split; assumption]|].
  rewrite proj_index in H'. destruct (N.eqb_spec (e_kind a) kind) as [Hk|Hk]; [|right; exact H'].
  destruct (Pos.eq_dec k (key (e_tag a))) as [->|Hne].
  - left; exists a; split; [left; reflexivity|split; [exact Hk|reflexivity]].
  - rewrite mem_add_other in H' by exact Hne. right; exact H'.
Qed.

Lemma set_mono l : forall r k, PM.mem k (proj r) = true -> PM.mem k (proj (fold_left reg_index l r)) = true.
Proof.
  induction l as [|a l IH]; intros r k H; cbn [fold_left]; [exact H|]. apply IH.
  rewrite proj_index. destruct (e_kind a =? kind); [apply mem_add_mono; exact H|exact H].
Qed.

Lemma set_complete l : forall r en, In en l -> e_kind en = kind ->
  PM.mem (key (e_tag en)) (proj (fold_left reg_index l r)) = true.
Proof.
  induction l as [|a l IH]; intros r en Hin Hk; [destruct Hin|]. cbn [fold_left].
  destruct Hin as [->|Hin]; [|apply IH; assumption].
  apply set_mono. rewrite proj_index, Hk, N.eqb_refl. apply mem_add_same.
Qed.
End Sets.

Lemma ggxx_index r en :
  r_ggxx (reg_index r en) = if e_kind en =? K_GROUP100 then PM.add (key (e_tag en)) tt (r_ggxx r) else r_ggxx r.
Proof. reflexivity. Qed.
Lemma eexx_index r en :
  r_eexx (reg_index r en) = if e_kind en =? K_ELEMENT100 then PM.add (key (e_tag en)) tt (r_eexx r) else r_eexx r.
Proof. reflexivity. Qed.

Lemma wgn_by_tag r : r_by_tag (with_generic_names r) = r_by_tag r. Proof. reflexivity. Qed.
Lemma wgn_ggxx r : r_ggxx (with_generic_names r) = r_ggxx r. Proof. reflexivity. Qed.
Lemma wgn_eexx r : r_eexx (with_generic_names r) = r_eexx r. Proof. reflexivity. Qed.
Lemma wgn_by_name r : r_by_name (with_generic_names r) =
  (e_alias PRIVATE_CREATOR_ENTRY, PRIVATE_CREATOR_ENTRY) :: (e_alias GROUP_LENGTH_ENTRY, GROUP_LENGTH_ENTRY) :: r_by_name r.
Proof. reflexivity. Qed.
Lemma dict_by_tag : r_by_tag DICT = r_by_tag BASE. Proof. exact (wgn_by_tag BASE). Qed.
Lemma dict_ggxx : r_ggxx DICT = r_ggxx BASE. Proof. exact (wgn_ggxx BASE). Qed.
Lemma dict_eexx : r_eexx DICT = r_eexx BASE. Proof. exact (wgn_eexx BASE). Qed.
Lemma dict_by_name : r_by_name DICT =
  (e_alias PRIVATE_CREATOR_ENTRY, PRIVATE_CREATOR_ENTRY) :: (e_alias GROUP_LENGTH_ENTRY, GROUP_LENGTH_ENTRY) :: r_by_name BASE.
Proof. exact (wgn_by_name BASE). Qed.
Lemma empty_find k : PM.find k (r_by_tag empty_registry) = None.
Proof. unfold empty_registry; cbn [r_by_tag]. apply PM.gempty. Qed.
Lemma empty_ggxx k : PM.mem k (r_ggxx empty_registry) = false.
Proof. unfold empty_registry; cbn [r_ggxx]. rewrite PM.mem_find, PM.gempty. reflexivity. Qed.
Lemma empty_eexx k : PM.mem k (r_eexx empty_registry) = false.
Proof. unfold empty_registry; cbn [r_eexx]. rewrite PM.mem_find, PM.gempty. reflexivity. Qed.

(* ------------------------------------------- finite facts about the table *)
(** kinds: only Single / Group100 / Element100 rows are generated *)
Definition chk_kinds : bool :=
  forallb (fun en => (e_kind en =? K_SINGLE) || (e_kind en =? K_GROUP100) || (e_kind en =? K_ELEMENT100)) ENTRIES.
(** tags fit 32 bits; the open digits of a range row are zero *)
Definition chk_wf : bool :=
  forallb (fun en => (e_tag en <? 4294967296)
                     && (if e_kind en =? K_GROUP100 then tag_group (e_tag en) mod 256 =? 0 else true)
                     && (if e_kind en =? K_ELEMENT100 then tag_elem (e_tag en) mod 256 =? 0 else true)) ENTRIES.
(** every row is what the tag index holds at the row's tag (hence tags are unique) *)
Definition chk_find : bool :=
  forallb (fun en => opt_eqb entry_eqb (PM.find (key (e_tag en)) (r_by_tag DICT)) (Some en)) ENTRIES.
(** no repeating-element row is shadowed by a repeating-group row at its own tag *)
Definition chk_noshadow : bool :=
  forallb (fun en => if e_kind en =? K_ELEMENT100
                     then negb (PM.mem (key (group_trimmed (tag_group (e_tag en)) (tag_elem (e_tag en)))) (r_ggxx DICT))
                     else true) ENTRIES.

Lemma kinds_ok : chk_kinds = true. Proof. vm_compute. reflexivity. Qed.
Lemma wf_ok : chk_wf = true. Proof. vm_compute. reflexivity. Qed.
Lemma find_ok : chk_find = true. Proof. vm_compute. reflexivity. Qed.
Lemma noshadow_ok : chk_noshadow = true. Proof. vm_compute. reflexivity. Qed.
Lemma table_length : N.of_nat (List.length ENTRIES) = ENTRIES_len /\ ENTRIES_len = ENTRIES_rows_in_source.
Proof. split; vm_compute; reflexivity. Qed.
Lemma generic_entries_observed :
  observed_group_length = Some GROUP_LENGTH_ENTRY /\ observed_private_creator = Some PRIVATE_CREATOR_ENTRY.
Proof. split; reflexivity. Qed.

Lemma row_kind en : In en ENTRIES -> e_kind en = K_SINGLE \/ e_kind en = K_GROUP100 \/ e_kind en = K_ELEMENT100.
Proof.
  intros H. pose proof (proj1 (forallb_forall _ _) kinds_ok en H) as K. cbn beta in K.
  rewrite !orb_true_iff, !N.eqb_eq in K. tauto.
Qed.
Lemma row_inner en : In en ENTRIES -> inner en = e_tag en.
Proof.
  intros H. unfold inner. destruct (row_kind en H) as [K|[K|K]]; rewrite K; reflexivity.
Qed.
Lemma row_wf en : In en ENTRIES ->
  e_tag en < 4294967296 /\ (e_kind en = K_GROUP100 -> tag_group (e_tag en) mod 256 = 0)
  /\ (e_kind en = K_ELEMENT100 -> tag_elem (e_tag en) mod 256 = 0).
Proof.
  intros H. pose proof (proj1 (forallb_forall _ _) wf_ok en H) as K. cbn beta in K.
  rewrite !andb_true_iff in K. destruct K as [[K1 K2] K3]. split; [apply N.ltb_lt; exact K1|]. split; intros E.
  - rewrite E, N.eqb_refl in K2. apply N.eqb_eq. exact K2.
  - rewrite E, N.eqb_refl in K3. apply N.eqb_eq. exact K3.
Qed.
Lemma row_find en : In en ENTRIES -> PM.find (key (e_tag en)) (r_by_tag DICT) = Some en.
Proof.
  intros H. pose proof (proj1 (forallb_forall _ _) find_ok en H) as K. cbn beta in K. apply opt_entry_eqb_eq in K. exact K.
Qed.
Lemma row_unique a b : In a ENTRIES -> In b ENTRIES -> e_tag a = e_tag b -> a = b.
Proof.
  intros Ha Hb E. pose proof (row_find a Ha) as Fa. pose proof (row_find b Hb) as Fb. rewrite E in Fa. congruence.
Qed.
Lemma find_row k en : PM.find k (r_by_tag DICT) = Some en -> In en ENTRIES /\ key (e_tag en) = k.
Proof.
  rewrite dict_by_tag. unfold BASE. intros H.
  destruct (by_tag_sound _ _ _ _ H) as [[Hin Hk]|H']; [|rewrite empty_find in H'; discriminate].
  split; [exact Hin|]. rewrite <- (row_inner en Hin). exact Hk.
Qed.

Lemma ggxx_row k : PM.mem k (r_ggxx DICT) = true -> exists en, In en ENTRIES /\ e_kind en = K_GROUP100 /\ key (e_tag en) = k.
Proof.
  rewrite dict_ggxx. unfold BASE. intros H.
  destruct (set_sound K_GROUP100 r_ggxx ggxx_index _ _ _ H) as [Hex|H']; [exact Hex|].
  rewrite empty_ggxx in H'. discriminate.
Qed.
Lemma row_ggxx en : In en ENTRIES -> e_kind en = K_GROUP100 -> PM.mem (key (e_tag en)) (r_ggxx DICT) = true.
Proof. rewrite dict_ggxx. unfold BASE. apply (set_complete K_GROUP100 r_ggxx ggxx_index). Qed.
Lemma eexx_row k : PM.mem k (r_eexx DICT) = true -> exists en, In en ENTRIES /\ e_kind en = K_ELEMENT100 /\ key (e_tag en) = k.
Proof.
  rewrite dict_eexx. unfold BASE. intros H.
  destruct (set_sound K_ELEMENT100 r_eexx eexx_index _ _ _ H) as [Hex|H']; [exact Hex|].
  rewrite empty_eexx in H'. discriminate.
Qed.
Lemma row_eexx en : In en ENTRIES -> e_kind en = K_ELEMENT100 -> PM.mem (key (e_tag en)) (r_eexx DICT) = true.
Proof. rewrite dict_eexx. unfold BASE. apply (set_complete K_ELEMENT100 r_eexx eexx_index). Qed.
Lemma row_noshadow en : In en ENTRIES -> e_kind en = K_ELEMENT100 ->
  PM.mem (key (group_trimmed (tag_group (e_tag en)) (tag_elem (e_tag en)))) (r_ggxx DICT) = false.
Proof.
  intros H K. pose proof (proj1 (forallb_forall _ _) noshadow_ok en H) as S. cbn beta in S.
  rewrite K, N.eqb_refl in S. apply negb_true_iff in S. exact S.
Qed.

(* ----------------------------- the three questions of the spec, as equations *)
Lemma is_exact_iff g e en : e < 65536 ->
  is_exact g e en = true <-> e_kind en = K_SINGLE /\ e_tag en = mk_tag g e.
Proof.
  intros He. unfold is_exact, s_group, s_elem, mk_tag. rewrite !andb_true_iff, !N.eqb_eq.
  split; [intros [[K G] El]; split; [exact K|lia] | intros [K T]; split; [split; [exact K|lia]|lia]].
Qed.

Lemma covers_group100_iff g e en : g < 65536 -> e < 65536 -> tag_group (e_tag en) mod 256 = 0 ->
  covers_group100 g e en = true <-> e_kind en = K_GROUP100 /\ e_tag en = group_trimmed g e.
Proof.
  intros Hg He W. unfold covers_group100, s_group, s_elem, group_trimmed, mk_tag, tag_group in *.
  rewrite (land_ff00 g Hg), !andb_true_iff, !N.eqb_eq.
  split; [intros [[K G] El]; split; [exact K|lia] | intros [K T]; split; [split; [exact K|lia]|lia]].
Qed.

Lemma covers_element100_iff g e en : g < 65536 -> e < 65536 -> tag_elem (e_tag en) mod 256 = 0 ->
  covers_element100 g e en = true <-> e_kind en = K_ELEMENT100 /\ e_tag en = elem_trimmed g e.
Proof.
  intros Hg He W. unfold covers_element100, s_group, s_elem, elem_trimmed, mk_tag, tag_elem in *.
  rewrite (land_ff00 e He), !andb_true_iff, !N.eqb_eq.
  assert (e / 256 * 256 < 65536) by lia.
  split; [intros [[K G] El]; split; [exact K|lia] | intros [K T]; split; [split; [exact K|lia]|lia]].
Qed.

(** [find p] over the table returns the row [en] as soon as [en] satisfies [p] and
    every row satisfying [p] has [en]'s tag. *)
Lemma find_the_row (p : entry -> bool) en :
  In en ENTRIES -> p en = true -> (forall x, In x ENTRIES -> p x = true -> e_tag x = e_tag en) ->
  find p ENTRIES = Some en.
Proof.
  intros Hin Hp Hu. destruct (find p ENTRIES) as [x|] eqn:F.
  - apply find_some in F. destruct F as [Hx Px]. f_equal. apply row_unique; [exact Hx|exact Hin|apply Hu; assumption].
  - exfalso. pose proof (find_none _ _ F en Hin) as N. congruence.
Qed.
Lemma find_no_row (p : entry -> bool) :
  (forall x, In x ENTRIES -> p x = true -> False) -> find p ENTRIES = None.
Proof.
  intros H. destruct (find p ENTRIES) as [x|] eqn:F; [|reflexivity].
  apply find_some in F. destruct F as [Hx Px]. destruct (H x Hx Px).
Qed.

Definition SPEC := spec_lookup ENTRIES GROUP_LENGTH_ENTRY PRIVATE_CREATOR_ENTRY.

Lemma generic_same g e : generic_entry g e =
  (if is_private_creator_tag g e then Some PRIVATE_CREATOR_ENTRY
   else if is_group_length_tag g e then Some GROUP_LENGTH_ENTRY else None).
Proof. reflexivity. Qed.

(* ------------------------------------------------------- the main theorem *)
Theorem by_tag_is_spec : forall g e, g < 65536 -> e < 65536 -> by_tag g e = SPEC g e.
Proof.
  intros g e Hg He. unfold by_tag, indexed_tag, SPEC, spec_lookup.
  assert (Htrim_g : forall x, In x ENTRIES -> e_kind x = K_GROUP100 ->
            (covers_group100 g e x = true <-> e_tag x = group_trimmed g e)).
  { intros x Hx Kx. destruct (row_wf x Hx) as [_ [W _]]. rewrite (covers_group100_iff g e x Hg He (W Kx)). tauto. }
  assert (Htrim_e : forall x, In x ENTRIES -> e_kind x = K_ELEMENT100 ->
            (covers_element100 g e x = true <-> e_tag x = elem_trimmed g e)).
  { intros x Hx Kx. destruct (row_wf x Hx) as [_ [_ W]]. rewrite (covers_element100_iff g e x Hg He (W Kx)). tauto. }
  assert (Kg : forall x, covers_group100 g e x = true -> e_kind x = K_GROUP100).
  { intros x H. unfold covers_group100 in H. rewrite !andb_true_iff, N.eqb_eq in H. tauto. }
  assert (Ke : forall x, covers_element100 g e x = true -> e_kind x = K_ELEMENT100).
  { intros x H. unfold covers_element100 in H. rewrite !andb_true_iff, N.eqb_eq in H. tauto. }
  destruct (PM.find (key (mk_tag g e)) (r_by_tag DICT)) as [en|] eqn:F.
  - (* the tag index holds a row at exactly this tag *)
    destruct (find_row _ _ F) as [Hin Hk]. apply key_inj in Hk.
    destruct (row_kind en Hin) as [K|[K|K]].
    + (* a Single row: it is the exact entry *)
      rewrite (find_the_row (is_exact g e) en Hin); [reflexivity| |].
      * apply is_exact_iff; [exact He|]. split; assumption.
      * intros x Hx Px. apply is_exact_iff in Px; [|exact He]. destruct Px as [_ T]. congruence.
    + (* a Group100 row at its own inner tag *)
      rewrite (find_no_row (is_exact g e)).
      2:{ intros x Hx Px. apply is_exact_iff in Px; [|exact He]. destruct Px as [Kx T].
          assert (x = en) by (apply row_unique; [assumption|assumption|congruence]). subst x. rewrite K in Kx. discriminate. }
      destruct (row_wf en Hin) as [Hlt [W _]]. specialize (W K).
      assert (T : e_tag en = group_trimmed g e).
      { unfold group_trimmed. rewrite (land_ff00 g Hg). unfold mk_tag, tag_group in *. lia. }
      rewrite (find_the_row (covers_group100 g e) en Hin); [reflexivity| |].
      * apply Htrim_g; assumption.
      * intros x Hx Px. pose proof (Kg x Px) as Kx. apply Htrim_g in Px; [congruence|assumption|assumption].
    + (* an Element100 row at its own inner tag *)
      rewrite (find_no_row (is_exact g e)).
      2:{ intros x Hx Px. apply is_exact_iff in Px; [|exact He]. destruct Px as [Kx T].
          assert (x = en) by (apply row_unique; [assumption|assumption|congruence]). subst x. rewrite K in Kx. discriminate. }
      destruct (row_wf en Hin) as [Hlt [_ W]]. specialize (W K).
      assert (Gg : tag_group (e_tag en) = g /\ tag_elem (e_tag en) = e).
      { unfold mk_tag, tag_group, tag_elem in *. split; lia. }
      rewrite (find_no_row (covers_group100 g e)).
      2:{ intros x Hx Px. pose proof (Kg x Px) as Kx. apply Htrim_g in Px; [|assumption|assumption].
          pose proof (row_ggxx x Hx Kx) as M. pose proof (row_noshadow en Hin K) as NS.
          destruct Gg as [G1 G2]. rewrite G1, G2, <- Px in NS. congruence. }
      assert (T : e_tag en = elem_trimmed g e).
      { unfold elem_trimmed. rewrite (land_ff00 e He). unfold mk_tag, tag_elem in *. lia. }
      rewrite (find_the_row (covers_element100 g e) en Hin); [reflexivity| |].
      * apply Htrim_e; assumption.
      * intros x Hx Px. pose proof (Ke x Px) as Kx. apply Htrim_e in Px; [congruence|assumption|assumption].
  - (* no row at exactly this tag *)
    rewrite (find_no_row (is_exact g e)).
    2:{ intros x Hx Px. apply is_exact_iff in Px; [|exact He]. destruct Px as [_ T].
        pose proof (row_find x Hx) as Fx. rewrite T in Fx. congruence. }
    destruct (PM.mem (key (group_trimmed g e)) (r_ggxx DICT)) eqn:Mg.
    + destruct (ggxx_row _ Mg) as [en [Hin [K Hk]]]. apply key_inj in Hk.
      rewrite <- Hk. rewrite (row_find en Hin).
      rewrite (find_the_row (covers_group100 g e) en Hin); [reflexivity| |].
      * apply Htrim_g; assumption.
      * intros x Hx Px. pose proof (Kg x Px) as Kx. apply Htrim_g in Px; [congruence|assumption|assumption].
    + rewrite (find_no_row (covers_group100 g e)).
      2:{ intros x Hx Px. pose proof (Kg x Px) as Kx. apply Htrim_g in Px; [|assumption|assumption].
          pose proof (row_ggxx x Hx Kx) as M. rewrite Px in M. congruence. }
      destruct (PM.mem (key (elem_trimmed g e)) (r_eexx DICT)) eqn:Me.
      * destruct (eexx_row _ Me) as [en [Hin [K Hk]]]. apply key_inj in Hk.
        rewrite <- Hk. rewrite (row_find en Hin).
        rewrite (find_the_row (covers_element100 g e) en Hin); [reflexivity| |].
        -- apply Htrim_e; assumption.
        -- intros x Hx Px. pose proof (Ke x Px) as Kx. apply Htrim_e in Px; [congruence|assumption|assumption].
      * rewrite (find_no_row (covers_element100 g e)).
        2:{ intros x Hx Px. pose proof (Ke x Px) as Kx. apply Htrim_e in Px; [|assumption|assumption].
            pose proof (row_eexx x Hx Kx) as M. rewrite Px in M. congruence. }
        apply generic_same.
Qed.

(** "the" entry of the statement is well defined *)
Theorem table_unambiguous : unambiguous ENTRIES.
Proof.
  intros g e a b Ha Hb H. apply row_unique; [exact Ha|exact Hb|].
  destruct (row_wf a Ha) as [La [Wa1 Wa2]]. destruct (row_wf b Hb) as [Lb [Wb1 Wb2]].
  destruct H as [[A B]|[[A B]|[A B]]].
  - unfold is_exact, s_group, s_elem in A, B. rewrite !andb_true_iff, !N.eqb_eq in A, B. lia.
  - unfold covers_group100, s_group, s_elem in A, B. rewrite !andb_true_iff, !N.eqb_eq in A, B.
    destruct A as [[Ka A1] A2], B as [[Kb B1] B2]. specialize (Wa1 Ka). specialize (Wb1 Kb). unfold tag_group in *. lia.
  - unfold covers_element100, s_group, s_elem in A, B. rewrite !andb_true_iff, !N.eqb_eq in A, B.
    destruct A as [[Ka A1] A2], B as [[Kb B1] B2]. specialize (Wa2 Ka). specialize (Wb2 Kb). unfold tag_elem in *. lia.
Qed.

(* ---------------------------------------------------------------- keywords *)
Definition ALL_ENTRIES : list entry := (ENTRIES ++ [GROUP_LENGTH_ENTRY; PRIVATE_CREATOR_ENTRY])%list.
Definition chk_by_name : bool :=
  forallb (fun en => opt_eqb entry_eqb (by_name (e_alias en)) (Some en)) ALL_ENTRIES.
Lemma by_name_ok : chk_by_name = true. Proof. vm_compute. reflexivity. Qed.
Theorem by_name_row : forall en, In en ALL_ENTRIES -> by_name (e_alias en) = Some en.
Proof.
  intros en H. pose proof (proj1 (forallb_forall _ _) by_name_ok en H) as K. apply opt_entry_eqb_eq in K. exact K.
Qed.

Lemma assoc_key {V} (k : V -> string) s l v :
  Forall (fun p => fst p = k (snd p)) l -> assoc s l = Some v -> k v = s.
Proof.
  induction l as [|[k0 v0] l IH]; cbn; [discriminate|]. intros HF H. inversion HF as [|? ? H0 HF']; subst.
  destruct (String.eqb_spec k0 s) as [->|Hne].
  - inversion H; subst. cbn in H0. congruence.
  - apply IH; assumption.
Qed.
Lemma index_names l : forall r, Forall (fun p => fst p = e_alias (snd p)) (r_by_name r) ->
  Forall (fun p => fst p = e_alias (snd p)) (r_by_name (fold_left reg_index l r)).
Proof.
  induction l as [|a l IH]; intros r H; cbn [fold_left]; [exact H|]. apply IH. unfold reg_index; cbn [r_by_name]. constructor; [reflexivity|exact H].
Qed.
(** whatever string is looked up, the entry found carries that keyword *)
Theorem by_name_keyword : forall s en, by_name s = Some en -> e_alias en = s.
Proof.
  intros s en H. unfold by_name in H. apply (assoc_key e_alias s _ en) in H; [exact H|].
  rewrite dict_by_name. constructor; [reflexivity|]. constructor; [reflexivity|].
  unfold BASE. apply index_names. unfold empty_registry; cbn [r_by_name]. constructor.
Qed.

(* --------------------------------------------------------------- constants *)
Definition chk_consts : bool :=
  forallb (fun c => match by_name (c_alias c) with
                    | Some en => (e_kind en =? c_kind c) && (e_tag en =? c_tag c)
                    | None => false end) TAG_CONSTS.
Definition chk_consts_cover : bool :=
  (N.of_nat (List.length TAG_CONSTS) =? N.of_nat (List.length ENTRIES)) &&
  forallb (fun en => existsb (fun c => String.eqb (c_alias c) (e_alias en) && (c_kind c =? e_kind en) && (c_tag c =? e_tag en)) TAG_CONSTS) ENTRIES.
Lemma consts_ok : chk_consts = true. Proof. vm_compute. reflexivity. Qed.
Lemma consts_cover_ok : chk_consts_cover = true. Proof. vm_compute. reflexivity. Qed.

Theorem const_is_entry_tag : forall c, In c TAG_CONSTS ->
  exists en, by_name (c_alias c) = Some en /\ e_alias en = c_alias c /\ e_kind en = c_kind c /\ e_tag en = c_tag c.
Proof.
  intros c H. pose proof (proj1 (forallb_forall _ _) consts_ok c H) as K. cbn beta in K.
  destruct (by_name (c_alias c)) as [en|] eqn:B; [|discriminate]. rewrite andb_true_iff, !N.eqb_eq in K.
  exists en. split; [reflexivity|]. split; [apply by_name_keyword; exact B|exact K].
Qed.
Theorem entry_has_const : forall en, In en ENTRIES ->
  exists c, In c TAG_CONSTS /\ c_alias c = e_alias en /\ c_kind c = e_kind en /\ c_tag c = e_tag en.
Proof.
  intros en H. pose proof consts_cover_ok as K. unfold chk_consts_cover in K. rewrite andb_true_iff in K. destruct K as [_ K].
  pose proof (proj1 (forallb_forall _ _) K en H) as X. cbn beta in X. apply existsb_exists in X. destruct X as [c [Hc Pc]].
  rewrite !andb_true_iff, String.eqb_eq, !N.eqb_eq in Pc. exists c. tauto.
Qed.

(* ------------------------------------------------------------- SOP classes *)
Definition chk_sop : bool :=
  forallb (fun u => opt_eqb uid_entry_eqb (sop_by_uid (u_uid u)) (Some u)
                    && opt_eqb uid_entry_eqb (sop_by_keyword (u_alias u)) (Some u)
                    && (u_type u =? 0)) SOP_CLASSES.
Definition chk_sop_only : bool :=
  forallb (fun u => match sop_by_uid (u_uid u), sop_by_keyword (u_alias u) with None, None => true | _, _ => false end) TRANSFER_SYNTAX_UIDS.
Lemma sop_ok : chk_sop = true. Proof. vm_compute. reflexivity. Qed.
Lemma sop_only_ok : chk_sop_only = true. Proof. vm_compute. reflexivity. Qed.

Theorem sop_row : forall u, In u SOP_CLASSES ->
  sop_by_uid (u_uid u) = Some u /\ sop_by_keyword (u_alias u) = Some u.
Proof.
  intros u H. pose proof (proj1 (forallb_forall _ _) sop_ok u H) as K. cbn beta in K.
  rewrite !andb_true_iff in K. destruct K as [[K1 K2] _]. split; apply opt_uid_eqb_eq; assumption.
Qed.

Lemma insert_all_keys {V} (k : V -> string) l : forall m,
  Forall (fun p => fst p = k (snd p)) m -> Forall (fun p => fst p = k (snd p)) (insert_all k l m).
Proof.
  unfold insert_all. induction l as [|a l IH]; intros m H; cbn [fold_left]; [exact H|]. apply IH. constructor; [reflexivity|exact H].
Qed.
Lemma insert_all_in {V} (k : V -> string) l : forall m p, In p (insert_all k l m) -> In (snd p) l \/ In p m.
Proof.
  unfold insert_all. induction l as [|a l IH]; intros m p H; cbn [fold_left] in H; [right; exact H|].
  destruct (IH _ _ H) as [H1|[H1|H1]]; [left; right; exact H1|subst p; left; left; reflexivity|right; exact H1].
Qed.
Lemma assoc_in {V} s (l : list (string * V)) v : assoc s l = Some v -> In (s, v) l.
Proof.
  induction l as [|[k0 v0] l IH]; cbn; [discriminate|]. destruct (String.eqb_spec k0 s) as [->|Hne].
  - intros H; inversion H; subst. left; reflexivity.
  - intros H; right; apply IH; exact H.
Qed.
(** any answer of the SOP class dictionary is a table row carrying the key that was asked, and
    the other reg_index maps that row's other key back to the same row *)
Theorem sop_by_uid_consistent : forall s u, sop_by_uid s = Some u ->
  In u SOP_CLASSES /\ u_uid u = s /\ sop_by_keyword (u_alias u) = Some u.
Proof.
  intros s u H. unfold sop_by_uid in H. pose proof (assoc_in _ _ _ H) as Hin.
  apply insert_all_in in Hin. destruct Hin as [Hin|[]]. cbn [snd] in Hin.
  split; [exact Hin|]. split; [|exact (proj2 (sop_row u Hin))].
  apply (assoc_key u_uid s _ u) in H; [exact H|]. apply insert_all_keys. constructor.
Qed.
Theorem sop_by_keyword_consistent : forall s u, sop_by_keyword s = Some u ->
  In u SOP_CLASSES /\ u_alias u = s /\ sop_by_uid (u_uid u) = Some u.
Proof.
  intros s u H. unfold sop_by_keyword in H. pose proof (assoc_in _ _ _ H) as Hin.
  apply insert_all_in in Hin. destruct Hin as [Hin|[]]. cbn [snd] in Hin.
  split; [exact Hin|]. split; [|exact (proj1 (sop_row u Hin))].
  apply (assoc_key u_alias s _ u) in H; [exact H|]. apply insert_all_keys. constructor.
Qed.
