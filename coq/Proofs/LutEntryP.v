(** C22: from the binary64 lemmas (LutFloatP) and the index logic (LutP) to
    statements about LUT entries. *)
From Coq Require Import Reals Floats ZArith Lia Lra.
From Flocq Require Import Core.Core IEEE754.BinarySingleNaN IEEE754.PrimFloat.
From DicomV Require Import Base.Prelude Model.Lut Spec.Ps33Lut Proofs.LutP Proofs.LutFloatP.

Local Open Scope R_scope.

Lemma stored_value_small bits signed s : (1 <= bits <= 16)%N ->
  (Z.abs (stored_value bits signed s) < 2 ^ 53)%Z.
Proof.
  intros Hb. unfold stored_value.
  set (v := N.land s (N.ones bits)).
  assert (Hv : (v < 2 ^ bits)%N).
  { subst v. rewrite N.land_ones. apply N.mod_lt, N.pow_nonzero. discriminate. }
  assert (Hp : (2 ^ bits <= 2 ^ 16)%N) by (apply N.pow_le_mono_r; lia).
  assert (Hz : (2 ^ Z.of_N bits = Z.of_N (2 ^ bits))%Z) by (rewrite N2Z.inj_pow; reflexivity).
  destruct (signed && N.testbit v (bits - 1)); rewrite ?Hz; change (2 ^ 16)%N with 65536%N in Hp; lia.
Qed.

Lemma bits_cases bits : (1 <= bits <= 16)%N ->
  In bits [1;2;3;4;5;6;7;8;9;10;11;12;13;14;15;16]%N.
Proof.
  intros H.
  assert (bits = 1 \/ bits = 2 \/ bits = 3 \/ bits = 4 \/ bits = 5 \/ bits = 6 \/ bits = 7 \/ bits = 8 \/
          bits = 9 \/ bits = 10 \/ bits = 11 \/ bits = 12 \/ bits = 13 \/ bits = 14 \/ bits = 15 \/ bits = 16)%N as Hc by lia.
  cbn. intuition auto.
Qed.

(** y_max of the generic constructors: 2^n - 1 for the power of two n following bits stored *)
Definition y_max_Z (bits : N) : Z := Z.of_N (2 ^ next_pow2 bits - 1).

Lemma y_max_exact bits : (1 <= bits <= 16)%N ->
  ffin (y_max_of_bits bits) /\ fR (y_max_of_bits bits) = IZR (y_max_Z bits) /\ (0 <= y_max_Z bits <= 65535)%Z.
Proof.
  intros Hb. unfold y_max_of_bits, y_max_Z.
  assert (Hs : (2 ^ next_pow2 bits - 1 < 2 ^ 53)%N /\ (0 <= Z.of_N (2 ^ next_pow2 bits - 1) <= 65535)%Z).
  { pose proof (bits_cases bits Hb) as Hin. cbn in Hin.
    repeat (destruct Hin as [<- | Hin]; [vm_compute; split; [reflexivity | split; discriminate]|]). contradiction. }
  destruct (n2f_exact _ (proj1 Hs)) as [F E]. split; [exact F|]. split; [exact E | apply Hs].
Qed.

Section Entries.
  Variable fexp : pfloat -> pfloat.
  Variables (bits : N) (signed : bool) (r : rescale) (voi : wl_transform) (t : target) (l : lut).
  Hypothesis Hbits : (1 <= bits <= 16)%N.

  Let xv (s : N) : pfloat := z2f (stored_value bits signed s).

  Lemma xv_exact s : ffin (xv s) /\ fR (xv s) = IZR (stored_value bits signed s).
  Proof. apply z2f_exact. now apply stored_value_small. Qed.

  (** *** modality LUT only *)
  Lemma rescale_entries_mono s1 s2 :
    new_rescale bits signed r t = Ok l ->
    0 <= fR (slope r) ->
    (stored_value bits signed s1 <= stored_value bits signed s2)%Z ->
    (lut_get l s1 <= lut_get l s2)%Z.
  Proof.
    intros Hl Hs Hle. unfold new_rescale in Hl.
    pose proof (C22_index_lemma bits signed _ t l s1 Hbits Hl) as E1.
    pose proof (C22_index_lemma bits signed _ t l s2 Hbits Hl) as E2.
    destruct (cast_spec _ _ _ E1) as [F1 _]. destruct (cast_spec _ _ _ E2) as [F2 _].
    apply (cast_mono t _ _ _ _ E1 E2). apply rescale_mono; try assumption.
    apply z2f_mono; try (now apply stored_value_small); assumption.
  Qed.

  (** *** rescale + window (LINEAR / LINEAR_EXACT), y_max given *)
  Variable ymax : pfloat.
  Variable ymaxZ : Z.
  Hypothesis Fymax : ffin ymax.
  Hypothesis Eymax : fR ymax = IZR ymaxZ.
  Hypothesis Pymax : (0 <= ymaxZ)%Z.
  Hypothesis OK : voi_ok voi.

  Let f (v : pfloat) : pfloat := wl_apply fexp voi (rescale_apply r v) ymax.
  Let g (v : pfloat) : pfloat := wl_apply fexp voi v ymax.

  Lemma Pymax_R : 0 <= fR ymax. Proof. rewrite Eymax. now apply IZR_le. Qed.

  Lemma window_entries_range_f s :
    new_with_fn bits signed f t = Ok l -> ffin (rescale_apply r (xv s)) ->
    (0 <= lut_get l s <= ymaxZ)%Z.
  Proof.
    intros Hl Fv. pose proof (C22_index_lemma bits signed f t l s Hbits Hl) as E.
    apply (cast_range t _ _ _ E). rewrite <- Eymax.
    apply (window_range fexp voi ymax OK Fymax Pymax_R). exact Fv.
  Qed.

  Lemma window_entries_mono_f s1 s2 :
    new_with_fn bits signed f t = Ok l -> 0 <= fR (slope r) ->
    ffin (rescale_apply r (xv s1)) -> ffin (rescale_apply r (xv s2)) ->
    (stored_value bits signed s1 <= stored_value bits signed s2)%Z ->
    (lut_get l s1 <= lut_get l s2)%Z.
  Proof.
    intros Hl Hs F1 F2 Hle.
    pose proof (C22_index_lemma bits signed f t l s1 Hbits Hl) as E1.
    pose proof (C22_index_lemma bits signed f t l s2 Hbits Hl) as E2.
    apply (cast_mono t _ _ _ _ E1 E2).
    apply (window_mono fexp voi ymax OK Fymax Pymax_R); try assumption.
    apply rescale_mono; try assumption.
    apply z2f_mono; try (now apply stored_value_small); assumption.
  Qed.

  (** *** window only *)
  Lemma window_entries_range_g s :
    new_with_fn bits signed g t = Ok l -> (0 <= lut_get l s <= ymaxZ)%Z.
  Proof.
    intros Hl. pose proof (C22_index_lemma bits signed g t l s Hbits Hl) as E.
    apply (cast_range t _ _ _ E). rewrite <- Eymax.
    apply (window_range fexp voi ymax OK Fymax Pymax_R). apply xv_exact.
  Qed.

  Lemma window_entries_mono_g s1 s2 :
    new_with_fn bits signed g t = Ok l ->
    (stored_value bits signed s1 <= stored_value bits signed s2)%Z ->
    (lut_get l s1 <= lut_get l s2)%Z.
  Proof.
    intros Hl Hle.
    pose proof (C22_index_lemma bits signed g t l s1 Hbits Hl) as E1.
    pose proof (C22_index_lemma bits signed g t l s2 Hbits Hl) as E2.
    apply (cast_mono t _ _ _ _ E1 E2).
    apply (window_mono fexp voi ymax OK Fymax Pymax_R); try apply xv_exact.
    apply z2f_mono; try (now apply stored_value_small); assumption.
  Qed.
End Entries.

(** ** the public constructors *)
Lemma fR_255 : ffin 255%float /\ fR 255%float = IZR 255.
Proof.
  split; [apply ffin_SF; reflexivity|].
  rewrite fR_SF. let s := eval vm_compute in (Prim2SF 255) in change (Prim2SF 255) with s.
  unfold SF2R, F2R; cbn. lra.
Qed.

Section Ctors.
  Variable fexp : pfloat -> pfloat.
  Variables (bits : N) (signed : bool) (r : rescale) (voi : wl_transform) (t : target) (l : lut).
  Hypothesis Hbits : (1 <= bits <= 16)%N.
  Hypothesis OK : voi_ok voi.

  Let sv := stored_value bits signed.

  Lemma rw_range s : new_rescale_and_window fexp bits signed r voi t = Ok l ->
    ffin (rescale_apply r (z2f (sv s))) -> (0 <= lut_get l s <= y_max_Z bits)%Z.
  Proof.
    intros Hl Fv. destruct (y_max_exact bits Hbits) as (F & E & B).
    apply (window_entries_range_f fexp bits signed r voi t l Hbits (y_max_of_bits bits) (y_max_Z bits) F E (proj1 B)
             OK s Hl Fv).
  Qed.

  Lemma rw_mono s1 s2 : new_rescale_and_window fexp bits signed r voi t = Ok l ->
    0 <= fR (slope r) ->
    ffin (rescale_apply r (z2f (sv s1))) -> ffin (rescale_apply r (z2f (sv s2))) ->
    (sv s1 <= sv s2)%Z -> (lut_get l s1 <= lut_get l s2)%Z.
  Proof.
    intros Hl Hs F1 F2 Hle. destruct (y_max_exact bits Hbits) as (F & E & B).
    apply (window_entries_mono_f fexp bits signed r voi t l Hbits (y_max_of_bits bits) (y_max_Z bits) F E (proj1 B)
             OK s1 s2 Hl Hs F1 F2 Hle).
  Qed.

  Lemma w_range s : new_window fexp bits signed voi t = Ok l -> (0 <= lut_get l s <= y_max_Z bits)%Z.
  Proof.
    intros Hl. destruct (y_max_exact bits Hbits) as (F & E & B).
    apply (window_entries_range_g fexp bits signed voi t l Hbits (y_max_of_bits bits) (y_max_Z bits) F E (proj1 B)
             OK s Hl).
  Qed.

  Lemma w_mono s1 s2 : new_window fexp bits signed voi t = Ok l ->
    (sv s1 <= sv s2)%Z -> (lut_get l s1 <= lut_get l s2)%Z.
  Proof.
    intros Hl Hle. destruct (y_max_exact bits Hbits) as (F & E & B).
    apply (window_entries_mono_g fexp bits signed voi t l Hbits (y_max_of_bits bits) (y_max_Z bits) F E (proj1 B)
             OK s1 s2 Hl Hle).
  Qed.
End Ctors.

Section Ctors8.
  Variable fexp : pfloat -> pfloat.
  Variables (bits : N) (signed : bool) (r : rescale) (voi : wl_transform) (l : lut).
  Hypothesis Hbits : (1 <= bits <= 16)%N.
  Hypothesis OK : voi_ok voi.
  Let sv := stored_value bits signed.

  Lemma rw8_range s : new_rescale_and_window_8bit fexp bits signed r voi = Ok l ->
    ffin (rescale_apply r (z2f (sv s))) -> (0 <= lut_get l s <= 255)%Z.
  Proof.
    intros Hl Fv. destruct fR_255 as [F E].
    apply (window_entries_range_f fexp bits signed r voi TU8 l Hbits 255%float 255%Z F E ltac:(lia)
             OK s Hl Fv).
  Qed.

  Lemma rw8_mono s1 s2 : new_rescale_and_window_8bit fexp bits signed r voi = Ok l ->
    0 <= fR (slope r) ->
    ffin (rescale_apply r (z2f (sv s1))) -> ffin (rescale_apply r (z2f (sv s2))) ->
    (sv s1 <= sv s2)%Z -> (lut_get l s1 <= lut_get l s2)%Z.
  Proof.
    intros Hl Hs F1 F2 Hle. destruct fR_255 as [F E].
    apply (window_entries_mono_f fexp bits signed r voi TU8 l Hbits 255%float 255%Z F E ltac:(lia)
             OK s1 s2 Hl Hs F1 F2 Hle).
  Qed.

  Lemma w8_range s : new_window_8bit fexp bits signed voi = Ok l -> (0 <= lut_get l s <= 255)%Z.
  Proof.
    intros Hl. destruct fR_255 as [F E].
    apply (window_entries_range_g fexp bits signed voi TU8 l Hbits 255%float 255%Z F E ltac:(lia)
             OK s Hl).
  Qed.

  Lemma w8_mono s1 s2 : new_window_8bit fexp bits signed voi = Ok l ->
    (sv s1 <= sv s2)%Z -> (lut_get l s1 <= lut_get l s2)%Z.
  Proof.
    intros Hl Hle. destruct fR_255 as [F E].
    apply (window_entries_mono_g fexp bits signed voi TU8 l Hbits 255%float 255%Z F E ltac:(lia)
             OK s1 s2 Hl Hle).
  Qed.
End Ctors8.

(** the rescaled value of every stored pixel value is finite for moderate parameters *)
Lemma rescale_finite_stored bits signed r s : (1 <= bits <= 16)%N ->
  ffin (slope r) -> ffin (intercept r) ->
  Rabs (fR (slope r)) <= bpow radix2 1000 -> Rabs (fR (intercept r)) <= bpow radix2 1000 ->
  ffin (rescale_apply r (z2f (stored_value bits signed s))).
Proof.
  intros Hb Fs Fi Hs Hi.
  destruct (z2f_exact _ (stored_value_small bits signed s Hb)) as [Fx Ex].
  apply rescale_finite; try assumption. rewrite Ex, <- abs_IZR.
  change (bpow radix2 16) with (IZR (Zpower radix2 16)) || rewrite <- (IZR_Zpower radix2 16) by lia.
  apply IZR_le.
  (* |stored value| <= 2^16 *)
  unfold stored_value. set (v := N.land s (N.ones bits)).
  assert (Hv : (v < 2 ^ bits)%N) by (subst v; rewrite N.land_ones; apply N.mod_lt, N.pow_nonzero; discriminate).
  assert (Hp : (2 ^ bits <= 2 ^ 16)%N) by (apply N.pow_le_mono_r; lia).
  assert (Hz : (2 ^ Z.of_N bits = Z.of_N (2 ^ bits))%Z) by (rewrite N2Z.inj_pow; reflexivity).
  change (Zpower radix2 16) with 65536%Z. change (2 ^ 16)%N with 65536%N in Hp.
  destruct (signed && N.testbit v (bits - 1)); rewrite ?Hz; lia.
Qed.
