(** Lemmas about Model/DateTime.v (C12): whatever a constructor returns is a valid value. *)
From DicomV Require Import Base.Prelude Model.DateTime Proofs.DateTimeP Proofs.DateTimeTP.
From Coq Require Import ZifyBool ZifyNat ZifyN.
Ltac Zify.zify_post_hook ::= Z.div_mod_to_equations.
Local Open Scope N_scope.

Ltac guards :=
  repeat match goal with
  | H : context [guard ?b _] |- _ => destruct b eqn:?; cbn [guard bind] in H; try discriminate
  end.

Lemma constructed_date_valid y m d v :
  from_y y = Ok v \/ from_ym y m = Ok v \/ from_ymd y m d = Ok v -> valid_date v = true.
Proof.
  unfold from_y, from_ym, from_ymd. intros [H|[H|H]]; guards; inversion H; subst; cbn [valid_date];
    rewrite ?andb_true_iff; repeat split; assumption.
Qed.

Lemma constructed_time_valid h m s f fp v :
  from_h h = Ok v \/ from_hm h m = Ok v \/ from_hms h m s = Ok v
  \/ from_hms_milli h m s f = Ok v \/ from_hms_micro h m s f = Ok v \/ from_hmsf h m s f fp = Ok v ->
  valid_time v = true.
Proof.
  unfold from_h, from_hm, from_hms, from_hms_milli, from_hms_micro, from_hmsf.
  intros [H|[H|[H|[H|[H|H]]]]].
  1-5: guards; inversion H; subst; cbn [valid_time]; rewrite ?andb_true_iff; repeat split; try assumption;
    try reflexivity; inr; pow10; lia.
  destruct (in_range 1 6 fp) eqn:Hfp; cbn [negb] in H; [|discriminate].
  destruct (10 ^ fp <? f) eqn:Hm; [discriminate|].
  destruct (4294967295 <? f * 10 ^ (6 - fp)) eqn:Ho; guards; try discriminate.
  inversion H; subst. cbn [valid_time]. rewrite ?andb_true_iff; repeat split; try assumption.
  all: destruct (fp_cases fp Hfp) as [->|[->|[->|[->|[->| ->]]]]]; inr; pow10; lia.
Qed.
