(** Lemmas about Model.Image (C35). *)
From DicomV Require Import Base.Endian Model.Image.
From Coq Require Import ZifyBool ZifyNat ZifyN.

Lemma le16_two n : exists a b, le16 n = [a; b].
Proof.
  pose proof (le_bytes_length 2 n) as L. unfold le16.
  destruct (le_bytes 2 n) as [|a [|b [|c r]]]; cbn in L; try discriminate. eauto.
Qed.

Lemma unpack16_pack s : Forall (fun x => x < 65536) s -> unpack16 (flat_map le16 s) = s.
Proof.
  induction 1 as [|x s Hx Hs IH]; [reflexivity|].
  cbn [flat_map]. destruct (le16_two x) as [a [b E]]. rewrite E. cbn [app unpack16].
  rewrite IH. f_equal. rewrite <- E. unfold le16. apply le_val_le_bytes_small.
  change (2 ^ (8 * N.of_nat 2)) with 65536. exact Hx.
Qed.

Lemma length_pack s : length (flat_map le16 s) = (2 * length s)%nat.
Proof.
  induction s as [|x s IH]; [reflexivity|]. cbn [flat_map]. rewrite app_length, IH.
  unfold le16. rewrite le_bytes_length. cbn. lia.
Qed.

Lemma firstn_pad_even b : firstn (length b) (pad_even b) = b.
Proof.
  unfold pad_even. destruct (N.odd _).
  - rewrite firstn_app, Nat.sub_diag, firstn_all. cbn. apply app_nil_r.
  - apply firstn_all.
Qed.

Lemma length_pad_even b : (length b <= length (pad_even b))%nat.
Proof. unfold pad_even. destruct (N.odd _); [rewrite app_length; lia|lia]. Qed.

Lemma pad_even_even b : N.even (N.of_nat (length (pad_even b))) = true.
Proof.
  unfold pad_even. destruct (N.odd (N.of_nat (length b))) eqn:E.
  - rewrite app_length. cbn [length]. rewrite Nat.add_1_r, Nat2N.inj_succ, N.even_succ. exact E.
  - rewrite <- N.negb_odd, E. reflexivity.
Qed.

(** bytes of the image and the frame size computed from the injected attributes *)
Lemma into_bytes_length im :
  wf_image im ->
  N.of_nat (length (into_bytes (i_depth im) (i_samples im)))
  = i_h im * i_w im * i_chans im * ((i_depth im + 7) / 8).
Proof.
  intros [_ [Hd [Hl _]]]. unfold into_bytes. destruct Hd as [-> | ->].
  - change (8 =? 8) with true. cbn iota. change ((8 + 7) / 8) with 1. lia.
  - change (16 =? 8) with false. cbn iota. rewrite length_pack. change ((16 + 7) / 8) with 2. lia.
Qed.

Lemma samples_of_into_bytes im :
  wf_image im -> samples_of (i_depth im) (into_bytes (i_depth im) (i_samples im)) = i_samples im.
Proof.
  intros [_ [Hd [_ Hs]]]. unfold samples_of, into_bytes. destruct Hd as [E | E]; rewrite E in *.
  - reflexivity.
  - change (16 =? 8) with false. cbn iota. apply unpack16_pack. exact Hs.
Qed.

Lemma frame_size_inject im :
  i_w im < 65536 -> i_h im < 65536 ->
  frame_size (inject im) = i_h im * i_w im * i_chans im * ((i_depth im + 7) / 8).
Proof.
  intros Hw Hh. unfold frame_size, inject, u16. cbn [d_rows d_cols d_spp d_alloc].
  rewrite !N.mod_small by assumption. reflexivity.
Qed.

Lemma frame_inject im :
  wf_image im -> i_w im < 65536 -> i_h im < 65536 ->
  (frame_size (inject im) <=? N.of_nat (length (d_pixels (inject im)))) = true
  /\ firstn (N.to_nat (frame_size (inject im))) (d_pixels (inject im))
     = into_bytes (i_depth im) (i_samples im).
Proof.
  intros Hwf Hw Hh. rewrite frame_size_inject by assumption.
  rewrite <- into_bytes_length by exact Hwf.
  change (d_pixels (inject im)) with (pad_even (into_bytes (i_depth im) (i_samples im))).
  set (b := into_bytes (i_depth im) (i_samples im)).
  pose proof (length_pad_even b) as Hle.
  split; [lia|]. rewrite Nat2N.id. apply firstn_pad_even.
Qed.

Lemma export_unwrap_inject im :
  wf_image im -> i_w im < 65536 -> i_h im < 65536 ->
  export_unwrap (inject im) = Some (into_bytes (i_depth im) (i_samples im)).
Proof.
  intros Hwf Hw Hh. destruct (frame_inject im Hwf Hw Hh) as [H1 H2].
  unfold export_unwrap. rewrite H1, H2. reflexivity.
Qed.

Lemma image_of_inject im :
  wf_image im -> i_w im < 65536 -> i_h im < 65536 ->
  image_of (inject im) (into_bytes (i_depth im) (i_samples im)) = im.
Proof.
  intros Hwf Hw Hh. unfold image_of, inject, u16. cbn [d_cols d_rows d_spp d_alloc].
  rewrite !N.mod_small by assumption. rewrite samples_of_into_bytes by exact Hwf.
  destruct im; reflexivity.
Qed.

Theorem read_back_unwrap_inject im :
  wf_image im -> i_w im < 65536 -> i_h im < 65536 -> read_back_unwrap (inject im) = Some im.
Proof.
  intros Hwf Hw Hh. unfold read_back_unwrap. rewrite export_unwrap_inject by assumption.
  rewrite image_of_inject by assumption. reflexivity.
Qed.

Theorem export_decoded_rgb_inject im :
  wf_image im -> i_chans im = 3 -> i_w im < 65536 -> i_h im < 65536 ->
  export_decoded_rgb (inject im) = Some im.
Proof.
  intros Hwf Hc Hw Hh. destruct (frame_inject im Hwf Hw Hh) as [H1 H2].
  unfold export_decoded_rgb.
  assert (Hcond : (d_spp (inject im) =? 3) && str_eqb (d_pi (inject im)) RGB
                  && match d_planar (inject im) with Some 0 | None => true | _ => false end
                  && ((d_alloc (inject im) =? 8) || (d_alloc (inject im) =? 16)) = true).
  { destruct Hwf as [_ [Hd _]]. unfold inject. cbn [d_spp d_pi d_planar d_alloc]. rewrite Hc.
    destruct Hd as [-> | ->]; reflexivity. }
  rewrite Hcond, H1, H2. rewrite image_of_inject by assumption. reflexivity.
Qed.

(** every sample byte written is a byte, and the stored value has even length *)
Lemma inject_pixels_wf im : wf_image im -> wf_bytes (d_pixels (inject im)).
Proof.
  intros [_ [Hd [_ Hs]]]. cbn [inject d_pixels]. unfold pad_even, into_bytes, wf_bytes.
  assert (Hb : Forall (fun x => x < 256) (if i_depth im =? 8 then i_samples im else flat_map le16 (i_samples im))).
  { destruct Hd as [E | E]; rewrite E in *.
    - exact Hs.
    - change (16 =? 8) with false. cbn iota. apply Forall_flat_map.
      apply Forall_forall. intros x _. apply le_bytes_wf. }
  destruct (N.odd _); [apply Forall_app; split; [exact Hb|repeat constructor]|exact Hb].
Qed.
