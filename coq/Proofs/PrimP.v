(** Lemmas about primitive value encoding (C04): returned byte counts are
    exact, [calculate_byte_len] is the even-padded size. *)
From Coq Require Import ZifyBool ZifyNat ZifyN.
From DicomV Require Import Base.Endian Model.Vr Model.Header Model.Prim Proofs.HeaderP.
Open Scope N_scope.

Lemma blen_app a b : blen (a ++ b) = blen a + blen b.
Proof. unfold blen. rewrite app_length. lia. Qed.
Lemma blen_nil : blen [] = 0.
Proof. reflexivity. Qed.
Lemma blen_cons x b : blen (x :: b) = 1 + blen b.
Proof. unfold blen. cbn [length]. lia. Qed.

(** * Counts returned by [encode_primitive] *)
Lemma enc_words_len c k l : blen (enc_words c k l) = nlen l * N.of_nat k.
Proof.
  unfold enc_words, nlen. induction l as [|x l IH]; [reflexivity|].
  cbn [flat_map length]. rewrite blen_app, IH. unfold blen at 1.
  destruct c; rewrite ?le_bytes_length, ?be_bytes_length; lia.
Qed.

Lemma join_bs_len (l : list bytes) : blen (join_bs l) = delimited_count (map blen l).
Proof.
  induction l as [|x l IH]; [reflexivity|].
  destruct l as [|y l]; [reflexivity|].
  change (join_bs (x :: y :: l)) with (x ++ [92] ++ join_bs (y :: l)).
  change (map blen (x :: y :: l)) with (blen x :: map blen (y :: l)).
  change (delimited_count (blen x :: map blen (y :: l))) with (blen x + 1 + delimited_count (map blen (y :: l))).
  rewrite !blen_app, IH. cbn. lia.
Qed.

Lemma utf8_enc_len c : blen (utf8_enc c) = utf8_len c.
Proof. unfold utf8_enc, utf8_len. repeat destruct (_ <? _); reflexivity. Qed.
Lemma str_utf8_len_ok s : blen (str_utf8 s) = str_utf8_len s.
Proof.
  unfold str_utf8, str_utf8_len. induction s as [|c s IH]; [reflexivity|].
  cbn [flat_map map sum_N fold_right]. rewrite blen_app, utf8_enc_len. unfold sum_N in IH. rewrite IH. reflexivity.
Qed.

Lemma tags_len c (l : list tag) : blen (flat_map (fun t => u16 c (fst t) ++ u16 c (snd t)) l) = nlen l * 4.
Proof.
  unfold nlen. induction l as [|x l IH]; [reflexivity|].
  cbn [flat_map length]. rewrite !blen_app, IH. unfold blen. rewrite !u16_length. lia.
Qed.

(** Every byte count reported by [encode_primitive] equals the number of bytes written. *)
Lemma enc_prim_count c p : snd (enc_prim c p) = blen (fst (enc_prim c p)).
Proof.
  destruct p; cbn [enc_prim fst snd]; try reflexivity;
    rewrite ?enc_words_len, ?tags_len, ?str_utf8_len_ok, ?join_bs_len, ?map_map; try (cbn; lia); try reflexivity.
  - (* PStrs *) f_equal. apply map_ext. intros s. symmetry. apply str_utf8_len_ok.
Qed.

(** * [calculate_byte_len] *)
Lemma fixed_dec_length k n : length (fixed_dec k n) = k.
Proof. revert n. induction k as [|k IH]; intros n; cbn; [reflexivity|]. rewrite app_length, IH. cbn. lia. Qed.

Lemma pad_dec_length k n : n < 10 ^ N.of_nat k -> length (pad_dec k n) = k.
Proof. intros H. unfold pad_dec. apply N.ltb_lt in H. rewrite H. apply fixed_dec_length. Qed.

(* number of decimal digits produced by nat_dec *)
Lemma nat_dec_aux_length k : forall fuel n acc,
  (k < fuel)%nat -> n < 10 ^ N.of_nat (S k) -> (k = O \/ 10 ^ N.of_nat k <= n) ->
  length (nat_dec_aux fuel n acc) = (S k + length acc)%nat.
Proof.
  induction k as [|k IH]; intros fuel n acc Hf Hn Hlo.
  - destruct fuel as [|f]; [lia|]. cbn [nat_dec_aux].
    replace (n / 10 =? 0) with true; [reflexivity|].
    symmetry. apply N.eqb_eq. apply N.div_small. cbn in Hn. lia.
  - destruct fuel as [|f]; [lia|]. cbn [nat_dec_aux].
    assert (P : 10 ^ N.of_nat (S k) = 10 * 10 ^ N.of_nat k).
    { rewrite Nat2N.inj_succ, N.pow_succ_r'. reflexivity. }
    assert (P2 : 10 ^ N.of_nat (S (S k)) = 10 * 10 ^ N.of_nat (S k)).
    { rewrite (Nat2N.inj_succ (S k)), N.pow_succ_r'. reflexivity. }
    destruct Hlo as [Hk | Hlo]; [discriminate|].
    assert (Hpos : 0 < 10 ^ N.of_nat k) by (apply N.neq_0_lt_0, N.pow_nonzero; discriminate).
    assert (D1 : 10 ^ N.of_nat k <= n / 10).
    { apply N.div_le_lower_bound; [discriminate|]. rewrite <- P. exact Hlo. }
    assert (D2 : n / 10 < 10 ^ N.of_nat (S k)).
    { apply N.div_lt_upper_bound; [discriminate|]. rewrite <- P2. exact Hn. }
    replace (n / 10 =? 0) with false by (symmetry; apply N.eqb_neq; lia).
    rewrite (IH f (n / 10) (digit n :: acc)); [cbn [length]; lia | lia | exact D2 |].
    destruct k; [left; reflexivity | right; exact D1].
Qed.

(* the fraction digits: (10^fp + f).to_string()[1..] has exactly fp characters *)
Lemma fraction_digits_length fp f :
  fp <= 18 -> f < 10 ^ fp -> blen (tl (nat_dec (10 ^ fp + f))) = fp.
Proof.
  intros Hfp Hf. unfold nat_dec.
  pose proof (nat_dec_aux_length (N.to_nat fp) 20 (10 ^ fp + f) []) as L.
  rewrite N2Nat.id in L.
  assert (P : 10 ^ N.of_nat (S (N.to_nat fp)) = 10 * 10 ^ fp).
  { rewrite Nat2N.inj_succ, N2Nat.id, N.pow_succ_r'. reflexivity. }
  rewrite P in L.
  assert (Hpos : 0 < 10 ^ fp) by (apply N.neq_0_lt_0, N.pow_nonzero; discriminate).
  specialize (L ltac:(lia) ltac:(lia) ltac:(right; lia)).
  destruct (nat_dec_aux 20 (10 ^ fp + f) []) as [|x r]; cbn [length] in L; [lia|].
  cbn [tl]. unfold blen. cbn [length] in L. lia.
Qed.

Definition wf_date (d : date) : Prop :=
  match d with DYear y => y < 10000 | DMonth y m => y < 10000 /\ m < 100 | DDay y m dd => y < 10000 /\ m < 100 /\ dd < 100 end.
Definition wf_time (t : time) : Prop :=
  match t with
  | THour h => h < 100 | TMinute h m => h < 100 /\ m < 100 | TSecond h m s => h < 100 /\ m < 100 /\ s < 100
  | TFraction h m s f fp => h < 100 /\ m < 100 /\ s < 100 /\ fp <= 18 /\ f < 10 ^ fp
  end.
(* UTC offsets are whole minutes below 100 hours (DICOM &ZZXX) *)
Definition wf_tz (z : bool * N) : Prop := snd z mod 60 = 0 /\ snd z / 60 / 60 < 100.
Definition wf_datetime (d : datetime) : Prop :=
  wf_date (dt_date d) /\ (match dt_time d with Some t => wf_time t | None => True end)
  /\ (match dt_tz d with Some z => wf_tz z | None => True end).

Lemma pad_dec_blen k n : n < 10 ^ N.of_nat k -> blen (pad_dec k n) = N.of_nat k.
Proof. intros H. unfold blen. rewrite pad_dec_length by exact H. reflexivity. Qed.

Lemma date_text_len d : wf_date d -> blen (date_text d) = da_byte_len d.
Proof.
  destruct d; cbn [wf_date date_text da_byte_len]; intros H; rewrite ?blen_app, !pad_dec_blen by (cbn; lia); reflexivity.
Qed.
Lemma time_text_len t : wf_time t -> blen (time_text t) = tm_byte_len t.
Proof.
  destruct t; cbn [wf_time time_text tm_byte_len]; intros H; rewrite ?blen_app;
    try (rewrite !pad_dec_blen by (cbn; lia); reflexivity).
  destruct H as (H1 & H2 & H3 & H4 & H5).
  rewrite !pad_dec_blen by (cbn; lia). rewrite fraction_digits_length by assumption. cbn. lia.
Qed.
Lemma tz_text_len z : wf_tz z -> blen (tz_text z) = 5.
Proof.
  destruct z as [neg off]. unfold wf_tz, tz_text. cbn [snd]. intros [H1 H2].
  rewrite H1. cbn [N.eqb]. rewrite N.eqb_refl. rewrite app_nil_r.
  rewrite blen_cons, blen_app, !pad_dec_blen; [reflexivity| |].
  - cbn. pose proof (N.mod_lt (off / 60) 60). lia.
  - cbn. exact H2.
Qed.
Lemma datetime_text_len d : wf_datetime d -> blen (datetime_text d) = dt_byte_len d.
Proof.
  destruct d as [dd tt zz]. unfold wf_datetime, datetime_text, dt_byte_len. cbn [dt_date dt_time dt_tz].
  intros (Hd & Ht & Hz). rewrite !blen_app, date_text_len by exact Hd.
  destruct tt as [t|], zz as [z|]; rewrite ?time_text_len, ?tz_text_len by assumption; cbn; lia.
Qed.

(** For delimited collections: clear_low_bit (sum (len_i + 1)) is the even-padded joined length. *)
Definition even_up (n : N) : N := 2 * ((n + 1) / 2).

Lemma delimited_sum (l : list N) : l <> [] -> sum_N (map (fun x => x + 1) l) = delimited_count l + 1.
Proof.
  induction l as [|x l IH]; [congruence|]. intros _.
  destruct l as [|y l]; [cbn; lia|].
  change (sum_N (map (fun x => x + 1) (x :: y :: l))) with (x + 1 + sum_N (map (fun x => x + 1) (y :: l))).
  rewrite IH by discriminate.
  change (delimited_count (x :: y :: l)) with (x + 1 + delimited_count (y :: l)). lia.
Qed.

Lemma calc_delimited (l : list N) :
  clear_low_bit (sum_N (map (fun x => x + 1) l)) = even_up (delimited_count l).
Proof.
  destruct l as [|x l]; [reflexivity|].
  rewrite delimited_sum by discriminate. reflexivity.
Qed.

Definition wf_prim (p : prim) : Prop :=
  match p with
  | PDate l => Forall wf_date l
  | PTime l => Forall wf_time l
  | PDateTime l => Forall wf_datetime l
  | _ => True
  end.

Lemma map_ext_Forall {A B} (f g : A -> B) (P : A -> Prop) l :
  Forall P l -> (forall x, P x -> f x = g x) -> map f l = map g l.
Proof. intros H E. induction H; cbn; [reflexivity|]. rewrite E, IHForall by assumption. reflexivity. Qed.

(** [calculate_byte_len] = the (even-padded, for delimited text) number of bytes [encode_primitive] writes. *)
Lemma calc_byte_len_ok c p : wf_prim p ->
  calc_byte_len p =
  match p with
  | PStrs _ | PDate _ | PTime _ | PDateTime _ => even_up (blen (fst (enc_prim c p)))
  | _ => blen (fst (enc_prim c p))
  end.
Proof.
  intros W. rewrite <- enc_prim_count.
  destruct p; cbn [calc_byte_len enc_prim snd]; try reflexivity.
  - (* PStrs *) rewrite <- calc_delimited, map_map. reflexivity.
  - (* PDate *) rewrite <- calc_delimited, map_map. f_equal. f_equal.
    cbn in W. apply (map_ext_Forall _ _ _ _ W). intros d Hd. rewrite date_text_len by exact Hd. reflexivity.
  - rewrite <- calc_delimited, map_map. f_equal. f_equal.
    cbn in W. apply (map_ext_Forall _ _ _ _ W). intros d Hd. rewrite time_text_len by exact Hd. reflexivity.
  - rewrite <- calc_delimited, map_map. f_equal. f_equal.
    cbn in W. apply (map_ext_Forall _ _ _ _ W). intros d Hd. rewrite datetime_text_len by exact Hd. reflexivity.
Qed.

(** Refutation witness for the unrestricted statement: a UTC offset with seconds. *)
Lemma calc_byte_len_tz_seconds_refuted :
  let p := PDateTime [{| dt_date := DYear 2020; dt_time := None; dt_tz := Some (false, 3630) |}] in
  calc_byte_len p = 10 /\ blen (fst (enc_prim ELE p)) = 11.
Proof. vm_compute. split; reflexivity. Qed.
