(** Totality of the DICOM JSON deserialiser model: no JSON value makes
    [de_ds_json] (hence [de], [de_text]) panic. *)
From DicomV Require Import Model.Json Proofs.JsonP.

Definition np {A} (o : outcome A) : Prop := forall w, o <> Panic w.

Lemma np_ok {A} (a : A) : np (Ok a). Proof. intros w; discriminate. Qed.
Lemma np_err {A} e : np (@Err A e). Proof. intros w; discriminate. Qed.
Lemma np_bind {A B} (o : outcome A) (f : A -> outcome B) :
  np o -> (forall a, np (f a)) -> np (bind o f).
Proof. intros Ho Hf. destruct o; cbn [bind]; [apply Hf | apply np_err | exfalso; eapply Ho; reflexivity]. Qed.
Lemma np_of_opt {A} (o : option A) e : np (of_opt o e).
Proof. destruct o; [apply np_ok | apply np_err]. Qed.
Lemma np_mapM {A B} (f : A -> outcome B) l : (forall a, np (f a)) -> np (mapM f l).
Proof.
  intros H. induction l as [|a l IH]; [apply np_ok|]. cbn [mapM].
  apply np_bind; [apply H|]. intros b. apply np_bind; [exact IH|]. intros; apply np_ok.
Qed.
Global Hint Resolve np_ok np_err np_of_opt : np.

Section Total.
Variable X : ext.

Lemma np_de_opt_string j : np (de_opt_string j). Proof. destruct j; cbn; auto with np. Qed.
Lemma np_de_int k j : np (de_int k j).
Proof. destruct j; cbn; auto with np. destruct (in_kind k z); auto with np. Qed.
Lemma np_de_f32 j : np (de_f32 X j). Proof. destruct j; cbn; auto with np. Qed.
Lemma np_de_f64 j : np (de_f64 X j). Proof. destruct j; cbn; auto with np. Qed.
Lemma np_de_int_or_text k j : np (de_int_or_text k j).
Proof. destruct j; cbn; auto with np. destruct (in_kind k z); auto with np. Qed.
Lemma np_de_num_text j : np (de_num_text X j). Proof. destruct j; cbn; auto with np. Qed.
Lemma np_de_tag j : np (de_tag j). Proof. destruct j; cbn; auto with np. Qed.
Lemma np_de_opt_str j : np (de_opt_str j). Proof. destruct j; cbn; auto with np. Qed.

Lemma np_de_person_fields m : forall a i p, np (de_person_fields m a i p).
Proof.
  induction m as [|[k j] r IH]; intros a i p; cbn [de_person_fields].
  - destruct a; auto with np.
  - destruct (str_eqb k k_Alphabetic).
    { destruct a; auto with np. destruct j; auto with np. }
    destruct (str_eqb k k_Ideographic).
    { destruct i; auto with np. apply np_bind; [apply np_de_opt_str | intros; apply IH]. }
    destruct (str_eqb k k_Phonetic).
    { destruct p; auto with np. apply np_bind; [apply np_de_opt_str | intros; apply IH]. }
    apply IH.
Qed.

Lemma np_de_person j : np (de_person j).
Proof.
  destruct j; cbn [de_person]; auto with np.
  - destruct (jlist_list l) as [|a [|b [|c [|d r]]]]; try apply np_err; try (destruct a; apply np_err).
    destruct a; try apply np_err.
    apply np_bind; [apply np_de_opt_str|]. intros. apply np_bind; [apply np_de_opt_str|]. intros; apply np_ok.
  - apply np_bind; [apply np_de_person_fields | intros; apply np_ok].
Qed.

Lemma np_vec {A} (f : json -> outcome A) (mk : list A -> prim) j :
  (forall x, np (f x)) -> np (l <- jarr_list j ;; xs <- mapM f l ;; Ok (VPrim (mk xs))).
Proof.
  intros H. apply np_bind.
  - destruct j; cbn; auto with np.
  - intros l. apply np_bind; [apply np_mapM; exact H | intros; apply np_ok].
Qed.

Lemma np_de_value vr j th : np (th tt) -> np (de_value X vr j th).
Proof.
  intros Hth. destruct vr; unfold de_value;
    try (apply np_vec; first [apply np_de_opt_string | apply np_de_int | apply np_de_f32 | apply np_de_f64
                             | apply np_de_int_or_text | apply np_de_num_text | apply np_de_person | apply np_de_tag]).
  - apply np_bind; [exact Hth | intros; apply np_ok].
  - apply np_err.
Qed.

(* invariant of the key loop: never both a "Value" and an "InlineBinary"; the stored thunk does not panic *)
Definition est_ok (st : est) : Prop :=
  (e_val st = None \/ e_inl st = None) /\
  (forall j th, e_val st = Some (j, th) -> np (th tt)).

Lemma np_de_finish st : est_ok st -> np (de_finish X st).
Proof.
  intros [Hex Hth]. unfold de_finish. destruct (e_vr st) as [vr|]; [|apply np_err].
  destruct (e_val st) as [[j th]|] eqn:Ev.
  - destruct Hex as [Hex|Hex]; [discriminate|]. rewrite Hex.
    apply np_bind.
    + apply np_bind; [apply np_de_value; eapply Hth; reflexivity | intros; apply np_ok].
    + intros [v|]; apply np_ok.
  - cbn [bind]. destruct (e_inl st); [|apply np_ok].
    apply np_bind; [apply np_of_opt | intros; apply np_ok].
Qed.

Scheme json_mind := Induction for json Sort Prop
  with jlist_mind := Induction for jlist Sort Prop
  with jmembers_mind := Induction for jmembers Sort Prop.
Combined Scheme json_mutind from json_mind, jlist_mind, jmembers_mind.

Definition T_json (j : json) : Prop :=
  np (de_ds_json X j) /\ np (de_elem_json X j) /\ np (de_items_json X j).
Definition T_jlist (l : jlist) : Prop := np (de_items X l).
Definition T_jmembers (m : jmembers) : Prop :=
  (forall acc, np (de_ds_members X m acc)) /\ (forall st, est_ok st -> np (de_elem_members X m st)).

Lemma total_all : (forall j, T_json j) /\ (forall l, T_jlist l) /\ (forall m, T_jmembers m).
Proof.
  apply json_mutind; unfold T_json, T_jlist, T_jmembers.
  - repeat split; apply np_err.
  - intros; repeat split; apply np_err.
  - intros; repeat split; apply np_err.
  - intros; repeat split; apply np_err.
  - intros; repeat split; apply np_err.
  - (* JArr *) intros l IH. repeat split; try apply np_err. rewrite de_items_json_eq. exact IH.
  - (* JObj *) intros m [IH1 IH2]. repeat split; try apply np_err.
    + rewrite de_ds_json_eq. apply IH1.
    + rewrite de_elem_json_eq. apply IH2. split; [left; reflexivity | intros j th H; discriminate H].
  - (* JNil *) apply np_ok.
  - (* JCons *) intros j (Hj & _ & _) tl IH. rewrite de_items_cons.
    apply np_bind; [exact Hj|]. intros d. apply np_bind; [exact IH | intros; apply np_ok].
  - (* MNil *) split; [intros; apply np_ok|]. intros st Hst. rewrite de_elem_members_nil. apply np_de_finish, Hst.
  - (* MCons *) intros k j (Hj1 & Hj2 & Hj3) tl [IH1 IH2]. split.
    + intros acc. rewrite de_ds_members_cons. apply np_bind; [apply np_of_opt|]. intros t.
      apply np_bind; [exact Hj2|]. intros [[vr v] bulk]. apply IH1.
    + intros st [Hex Hth]. rewrite de_elem_members_cons.
      destruct (str_eqb k k_vr).
      { destruct (is_some (e_vr st)); [apply np_err|]. destruct j; try apply np_err.
        apply IH2. split; [exact Hex | exact Hth]. }
      destruct (str_eqb k k_Value).
      { destruct (is_some (e_inl st)) eqn:Ei; [apply np_err|]. destruct (e_bulk st); [apply np_err|].
        apply IH2. split; cbn [e_val e_inl].
        - right. destruct (e_inl st); [discriminate Ei | reflexivity].
        - intros j0 th H. inversion H; subst. exact Hj3. }
      destruct (str_eqb k k_InlineBinary).
      { destruct (is_some (e_val st)) eqn:Ev; [apply np_err|]. destruct (e_bulk st); [apply np_err|].
        destruct j; try apply np_err. apply IH2. split; cbn [e_val e_inl].
        - left. destruct (e_val st); [discriminate Ev | reflexivity].
        - exact Hth. }
      destruct (str_eqb k k_BulkDataURI).
      { destruct (is_some (e_val st)); [apply np_err|]. destruct (is_some (e_inl st)); [apply np_err|].
        destruct j; try apply np_err. apply IH2. split; [exact Hex | exact Hth]. }
      apply np_err.
Qed.

Theorem de_never_panics j : forall w, de X j <> Panic w.
Proof. destruct total_all as (H & _ & _). destruct (H j) as (H1 & _ & _). exact H1. Qed.

Theorem de_text_never_panics j : forall w, de_text X j <> Panic w.
Proof. unfold de_text. destruct total_all as (H & _ & _). destruct (H (canon_top j)) as (H1 & _ & _). exact H1. Qed.
End Total.
