(** C01 for nested data sets under either strategy, defined lengths included. *)
From Coq Require Import ZifyBool ZifyNat ZifyN Sorting.Sorted.
From DicomV Require Import Base.Endian Model.Vr Model.Header Model.Prim Model.Dataset Model.Writer Model.Reader
  Spec.Ps35 Proofs.HeaderP Proofs.PrimP Proofs.WriterP Proofs.ValidP Proofs.FlatP Proofs.ValueP Proofs.ReaderP
  Proofs.RoundTripP Proofs.TotalP Proofs.NestedP Proofs.NestedGP Proofs.ReadStepsP Proofs.ReadTreeP
  Proofs.ReadStepsGP Proofs.ReadTreeGP Proofs.BuildTreeGP.
Open Scope N_scope.

Lemma readable_g_regular c d nc : forall e, readable_g c d nc e -> regular e.
Proof.
  apply (elem_ind_nested (fun e => readable_g c d nc e -> regular e)).
  - intros t v l p R. inversion R as [? ? ? ? Hok _| |]; subst. constructor. exact (proj1 Hok).
  - intros t v l ot fr R. inversion R as [| |? ? Hot Hn Hfr]; subst. constructor; [|exact Hn].
    eapply Forall_impl; [|exact Hfr]. cbn. intros f Hf. lia.
  - intros t v l its IH R. inversion R as [|? ? ? _ _ _ _ _ _ Hits|]; subst. constructor.
    clear R. induction its as [|it its IHi]; [constructor|].
    inversion IH as [|? ? I1 I2]; inversion Hits as [|? ? (_ & _ & J1 & _) J2]; subst. constructor.
    + clear IHi I2 J2. induction (snd it) as [|x xs IHx]; [constructor|].
      inversion I1; inversion J1; subst. constructor; [auto | auto].
    + apply IHi; assumption.
Qed.

(** Round trip of a nested data set, either strategy: the recorded lengths are
    kept by NoChange (and must then be the actual lengths), dropped by SetUndefined. *)
Lemma roundtrip_tree_g c d nc es b :
  delim_ok c d -> Forall (readable_g c d nc) es -> StronglySorted tag_lt (map elem_tag es) ->
  write_dataset c nc false es = Ok b ->
  read_dataset c d b = Ok (map (norm_tree_g c d nc) es).
Proof.
  intros Hd R S W.
  rewrite write_dataset_nested_g in W by (eapply Forall_impl; [apply (readable_g_regular c d nc) | exact R]).
  unfold read_dataset. rewrite (read_tokens_tree_g c d nc Hd es b R W).
  rewrite (build_tree_g c d nc es R S). reflexivity.
Qed.
