(** The writer on nested data sets with the default strategy (SetUndefined,
    charset flag off): tokens of sequences/items unfold as expected and the
    bytes are a direct recursive description: sequence header with undefined
    length, every item opened by an undefined-length item header and closed by
    an item delimiter, sequence delimiter; encapsulated pixel data as offset
    table item + fragment items with explicit lengths + sequence delimiter. *)
From Coq Require Import ZifyBool ZifyNat ZifyN.
From DicomV Require Import Base.Endian Model.Vr Model.Header Model.Prim Model.Dataset Model.Writer Spec.Ps35
  Proofs.HeaderP Proofs.PrimP Proofs.WriterP.
Open Scope N_scope.

(** * Induction principle for the nested element type *)
Section ElemInd.
  Variable P : elem -> Prop.
  Hypothesis Hprim : forall t v l p, P (EPrim t v l p).
  Hypothesis Hpix : forall t v l ot fr, P (EPix t v l ot fr).
  Hypothesis Hseq : forall t v l its, Forall (fun it : item => Forall P (snd it)) its -> P (ESeq t v l its).
  Fixpoint elem_ind_nested (e : elem) : P e :=
    match e with
    | EPrim t v l p => Hprim t v l p
    | EPix t v l ot fr => Hpix t v l ot fr
    | ESeq t v l its =>
        Hseq t v l its
          ((fix go (its : list item) : Forall (fun it : item => Forall P (snd it)) its :=
              match its with
              | [] => Forall_nil _
              | it :: r =>
                  Forall_cons it
                    ((fix go2 (es : list elem) : Forall P es :=
                        match es with
                        | [] => Forall_nil _
                        | x :: r2 => Forall_cons x (elem_ind_nested x) (go2 r2)
                        end) (snd it))
                    (go r)
              end) its)
    end.
End ElemInd.

(** * Token streams of sequences *)
Lemma seq_tokens_unfold inv t l its :
  elem_tokens inv (ESeq t SQ l its) =
  ts_app (ts_of [TSeqStart t (if inv then undef else l)]) (ts_app (items_tokens inv its) (ts_of [TSeqEnd])).
Proof.
  cbn [elem_tokens]. change (vr_eqb SQ OB) with false. change (vr_eqb SQ SQ) with true. cbn [andb].
  f_equal. f_equal.
  induction its as [|[ilen es] rest IH]; [reflexivity|].
  cbn [items_tokens]. rewrite <- IH. f_equal. f_equal.
  induction es as [|e es IHe]; [reflexivity|]. cbn [elems_tokens]. rewrite <- IHe. reflexivity.
Qed.

(** * Direct description of the bytes *)
Definition obind (a : outcome bytes) (f : bytes -> outcome bytes) : outcome bytes :=
  match a with Ok x => f x | Err e => Err e | Panic w => Panic w end.

Definition enc_pix (c : codec) (ot : list N) (frags : list bytes) : outcome bytes :=
  obind (st_enc_header c pixel_tag OB undef) (fun h =>
    Ok (h ++ (match ot with
              | [] => st_enc_item_header c 0
              | _ => st_enc_item_header c ((nlen ot mod 4294967296 * 4) mod 4294967296) ++ st_enc_offset_table c ot
              end)
          ++ flat_map (fun f => match f with
                                | [] => st_enc_item_header c 0
                                | _ => st_enc_item_header c (blen f mod 4294967296) ++ st_write_bytes f
                                end) frags
          ++ enc_seq_delim c)).

(* fuel-indexed so that the three levels (element, element list, item list) are plain functions *)
Fixpoint enc_tree (fuel : nat) (c : codec) (e : elem) : outcome bytes :=
  match fuel with
  | O => Err 0
  | S f =>
      match e with
      | EPrim t v _ p => enc_prim_element c t v p
      | ESeq t _ _ its =>
          obind (st_enc_header c t SQ undef) (fun h =>
          obind ((fix items (its : list item) : outcome bytes :=
                    match its with
                    | [] => Ok []
                    | (_, es) :: rest =>
                        obind ((fix elems (es : list elem) : outcome bytes :=
                                  match es with
                                  | [] => Ok []
                                  | e :: es' => obind (enc_tree f c e) (fun b => obind (elems es') (fun r => Ok (b ++ r)))
                                  end) es) (fun body =>
                        obind (items rest) (fun r =>
                          Ok (st_enc_item_header c undef ++ body ++ enc_item_delim c ++ r)))
                    end) its) (fun body => Ok (h ++ body ++ enc_seq_delim c)))
      | EPix _ _ _ ot frags => enc_pix c ot frags
      end
  end.
Fixpoint enc_trees (f : nat) (c : codec) (es : list elem) : outcome bytes :=
  match es with
  | [] => Ok []
  | e :: es' => obind (enc_tree f c e) (fun b => obind (enc_trees f c es') (fun r => Ok (b ++ r)))
  end.
Fixpoint enc_items (f : nat) (c : codec) (its : list item) : outcome bytes :=
  match its with
  | [] => Ok []
  | (_, es) :: rest =>
      obind (enc_trees f c es) (fun body =>
      obind (enc_items f c rest) (fun r => Ok (st_enc_item_header c undef ++ body ++ enc_item_delim c ++ r)))
  end.

Lemma enc_tree_seq f c t v l its :
  enc_tree (S f) c (ESeq t v l its) =
  obind (st_enc_header c t SQ undef) (fun h => obind (enc_items f c its) (fun body => Ok (h ++ body ++ enc_seq_delim c))).
Proof.
  cbn [enc_tree]. destruct (st_enc_header c t SQ undef) as [h|x|x]; cbn [obind]; try reflexivity.
  f_equal.
  induction its as [|[n es] rest IH]; [reflexivity|].
  cbn [enc_items]. rewrite <- IH. f_equal.
  induction es as [|e es IHe]; [reflexivity|]. cbn [enc_trees]. rewrite <- IHe. reflexivity.
Qed.

(** * Regular nested data sets *)
Inductive regular : elem -> Prop :=
| RPrim t v l p : plain (EPrim t v l p) -> regular (EPrim t v l p)
| RSeq t l its : Forall (fun it : item => Forall regular (snd it)) its -> regular (ESeq t SQ l its)
| RPix ot frags : Forall (fun f : bytes => blen f < 4294967295) frags -> nlen ot < 1073741824 ->
                  regular (EPix pixel_tag OB undef ot frags).

(** * The writer *)
Definition wres (st : wstate) (r : outcome bytes) : outcome wstate :=
  match r with
  | Ok b => Ok {| w_stack := w_stack st; w_last := None; w_out := w_out st ++ b |}
  | Err e => Err e | Panic w => Panic w
  end.

Lemma write_tokens_app c nc a : forall st b,
  write_tokens c nc st (a ++ b) =
  match write_tokens c nc st a with Ok st' => write_tokens c nc st' b | Err e => Err e | Panic w => Panic w end.
Proof.
  induction a as [|tk a IH]; intros st b; [reflexivity|].
  cbn [app write_tokens]. destruct (write_token c nc st tk); try reflexivity. apply IH.
Qed.

Lemma st_enc_header_undef_sq c t : st_enc_header c t SQ undef = Ok (ps35_header c t SQ undef).
Proof. unfold st_enc_header. cbn [N.eqb undef]. rewrite N.eqb_refl. destruct c; reflexivity. Qed.
Lemma st_enc_header_undef_ob c t : st_enc_header c t OB undef = Ok (ps35_header c t OB undef).
Proof. unfold st_enc_header. cbn [N.eqb undef]. rewrite N.eqb_refl. destruct c; reflexivity. Qed.

(* the statement proved by nested induction: tokens never panic and the writer appends the direct encoding *)
Definition writes_ok (c : codec) (e : elem) : Prop :=
  snd (elem_tokens false e) = false /\
  forall f st, (elem_size e <= f)%nat -> w_last st = None ->
    write_tokens c false st (fst (elem_tokens false e)) = wres st (enc_tree f c e).

Lemma elem_size_seq t v l its : elem_size (ESeq t v l its) = S (items_size its).
Proof. reflexivity. Qed.

Lemma wres_ok st b : wres st (Ok b) = Ok {| w_stack := w_stack st; w_last := None; w_out := w_out st ++ b |}.
Proof. reflexivity. Qed.

Lemma ts_app_false a b : snd a = false -> ts_app a b = (fst a ++ fst b, snd b).
Proof. intros H. unfold ts_app. rewrite H. reflexivity. Qed.

(** element lists *)
Lemma write_elems c es : forall f st,
  Forall (writes_ok c) es -> (elems_size es <= f)%nat -> w_last st = None ->
  snd (elems_tokens false es) = false /\
  write_tokens c false st (fst (elems_tokens false es)) = wres st (enc_trees f c es).
Proof.
  induction es as [|e es IH]; intros f st H F L.
  - split; [reflexivity|]. cbn. rewrite List.app_nil_r. destruct st; cbn in *; subst; reflexivity.
  - inversion H as [|? ? [He1 He2] Hes]; subst.
    cbn [elems_size] in F.
    destruct (IH f {| w_stack := w_stack st; w_last := None; w_out := w_out st |} Hes ltac:(lia) eq_refl) as [I1 _].
    cbn [elems_tokens]. unfold ts_app. rewrite He1. cbn [fst snd]. split; [exact I1|].
    rewrite write_tokens_app, (He2 f st ltac:(lia) L). cbn [enc_trees].
    destruct (enc_tree f c e) as [b|x|x]; cbn [wres obind]; try reflexivity.
    destruct (IH f {| w_stack := w_stack st; w_last := None; w_out := w_out st ++ b |} Hes ltac:(lia) eq_refl) as [_ I2].
    rewrite I2. cbn [w_stack w_out].
    destruct (enc_trees f c es) as [r|x|x]; cbn [wres obind]; try reflexivity.
    cbn [w_stack w_out]. rewrite <- app_assoc. reflexivity.
Qed.

(** item lists (default strategy: every item gets an undefined length and a delimiter) *)
Lemma write_items c its : forall f st,
  Forall (fun it : item => Forall (writes_ok c) (snd it)) its -> (items_size its <= f)%nat -> w_last st = None ->
  snd (items_tokens false its) = false /\
  write_tokens c false st (fst (items_tokens false its)) = wres st (enc_items f c its).
Proof.
  induction its as [|[n es] rest IH]; intros f st H F L.
  - split; [reflexivity|]. cbn. rewrite List.app_nil_r. destruct st; cbn in *; subst; reflexivity.
  - inversion H as [|? ? Hes Hrest]; subst. cbn [snd] in Hes. cbn [items_size] in F.
    cbn [items_tokens]. rewrite andb_false_r.
    set (st1 := {| w_stack := (true, undef) :: w_stack st; w_last := None; w_out := w_out st ++ st_enc_item_header c undef |}).
    destruct (write_elems c es f st1 Hes ltac:(lia) eq_refl) as [E1 E2].
    destruct (IH f {| w_stack := w_stack st; w_last := None; w_out := w_out st |} Hrest ltac:(lia) eq_refl) as [R1 _].
    assert (T : ts_app (ts_of [TItemStart n]) (ts_app (elems_tokens false es) (ts_app (ts_of [TItemEnd]) (items_tokens false rest)))
                = ([TItemStart n] ++ fst (elems_tokens false es) ++ [TItemEnd] ++ fst (items_tokens false rest),
                   snd (items_tokens false rest))).
    { rewrite ts_app_of, (ts_app_false _ _ E1), ts_app_of. reflexivity. }
    rewrite T. cbn [fst snd]. split; [exact R1|].
    cbn [app write_tokens write_token]. rewrite L. cbn [last_is_encaps emit].
    change (emit st ((true, undef) :: w_stack st) None (st_enc_item_header c undef)) with st1.
    rewrite write_tokens_app, E2. cbn [enc_items].
    destruct (enc_trees f c es) as [body|x|x]; cbn [wres obind]; try reflexivity.
    cbn [app write_tokens write_token w_stack st1 andb]. rewrite N.eqb_refl. unfold emit. cbn [w_stack w_last w_out].
    match goal with |- write_tokens c false ?S _ = _ =>
      destruct (IH f S Hrest ltac:(lia) eq_refl) as [_ R2]; rewrite R2 end.
    unfold emit. cbn [w_stack w_out].
    destruct (enc_items f c rest) as [r|x|x]; cbn [wres obind]; try reflexivity.
    unfold st1. cbn [w_stack w_out]. rewrite <- !app_assoc. reflexivity.
Qed.

(** pixel fragments: items keep their explicit length while the pixel data header is current *)
Definition frag_bytes (c : codec) (f : bytes) : bytes :=
  match f with
  | [] => st_enc_item_header c 0
  | _ => st_enc_item_header c (blen f mod 4294967296) ++ st_write_bytes f
  end.

Lemma write_frags c frags : forall st,
  last_is_encaps (w_last st) = true -> Forall (fun f : bytes => blen f < 4294967295) frags ->
  write_tokens c false st (flat_map (frag_tokens false) frags) =
  Ok {| w_stack := w_stack st; w_last := w_last st; w_out := w_out st ++ flat_map (frag_bytes c) frags |}.
Proof.
  induction frags as [|fr frags IH]; intros st L H.
  - cbn. rewrite List.app_nil_r. destruct st; reflexivity.
  - inversion H as [|? ? Hf Hr]; subst. cbn [flat_map]. rewrite write_tokens_app.
    destruct fr as [|x fr].
    + cbn [frag_tokens write_tokens write_token]. rewrite L. cbn [emit w_stack w_last w_out andb].
      change (0 =? undef) with false. cbn [andb]. unfold emit. cbn [w_stack w_last w_out].
      rewrite IH by (cbn [w_last]; assumption). cbn [w_stack w_last w_out frag_bytes].
      rewrite List.app_nil_r, <- app_assoc. reflexivity.
    + cbn [frag_tokens]. unfold frag_bytes at 1. set (b := x :: fr) in *.
      assert (Hb : (blen b mod 4294967296 =? undef) = false).
      { apply N.eqb_neq. rewrite N.mod_small by lia. unfold undef. lia. }
      cbn [write_tokens write_token]. rewrite L. unfold emit. cbn [w_stack w_last w_out andb].
      rewrite Hb. cbn [andb].
      rewrite IH by (cbn [w_last]; assumption). cbn [w_stack w_last w_out].
      rewrite List.app_nil_r, <- !app_assoc. reflexivity.
Qed.

Definition ot_bytes (c : codec) (ot : list N) : bytes :=
  match ot with
  | [] => st_enc_item_header c 0
  | _ => st_enc_item_header c ((nlen ot mod 4294967296 * 4) mod 4294967296) ++ st_enc_offset_table c ot
  end.

Lemma write_ot c ot st :
  last_is_encaps (w_last st) = true -> nlen ot < 1073741824 ->
  write_tokens c false st (ot_tokens ot) =
  Ok {| w_stack := w_stack st; w_last := w_last st; w_out := w_out st ++ ot_bytes c ot |}.
Proof.
  intros L H. destruct ot as [|x ot].
  - cbn [ot_tokens write_tokens write_token]. rewrite L. unfold emit. cbn [w_stack w_last w_out andb].
    change (0 =? undef) with false. cbn [andb ot_bytes]. rewrite List.app_nil_r. reflexivity.
  - cbn [ot_tokens]. unfold ot_bytes. set (o := x :: ot) in *.
    assert (Hb : ((nlen o mod 4294967296 * 4) mod 4294967296 =? undef) = false).
    { apply N.eqb_neq. rewrite (N.mod_small (nlen o)) by lia. rewrite N.mod_small by lia. unfold undef. lia. }
    cbn [write_tokens write_token]. rewrite L. unfold emit. cbn [w_stack w_last w_out andb].
    rewrite Hb. cbn [andb]. rewrite List.app_nil_r, <- !app_assoc. reflexivity.
Qed.

(** W (nested, default strategy): every regular element is written as its direct encoding. *)
Lemma regular_writes_ok c : forall e, regular e -> writes_ok c e.
Proof.
  apply (elem_ind_nested (fun e => regular e -> writes_ok c e)).
  - (* primitive *)
    intros t v l p R. inversion R as [? ? ? ? [H1 H2]| |]; subst.
    unfold writes_ok. cbn [elem_tokens]. rewrite H2, H1. cbn [ts_of fst snd]. split; [reflexivity|].
    intros f st F L. destruct f as [|f]; [cbn in F; lia|].
    cbn [write_tokens write_token enc_tree]. unfold emit. cbn [w_stack w_last w_out].
    destruct (enc_prim_element c t v p) as [b|x|x]; cbn [wres]; try reflexivity.
    rewrite List.app_nil_r. reflexivity.
  - (* encapsulated pixel data *)
    intros t v l ot fr R. inversion R as [| |? ? Hfr Hot]; subst.
    unfold writes_ok. cbn [elem_tokens]. change (vr_eqb OB OB && is_encaps_header pixel_tag undef) with true.
    cbn [ts_of fst snd]. split; [reflexivity|].
    intros f st F L. destruct f as [|f]; [cbn in F; lia|].
    cbn [enc_tree]. unfold enc_pix. rewrite st_enc_header_undef_ob. cbn [obind].
    change ([TPixStart] ++ ot_tokens ot ++ flat_map (frag_tokens false) fr ++ [TSeqEnd])
      with (TPixStart :: (ot_tokens ot ++ flat_map (frag_tokens false) fr ++ [TSeqEnd])).
    cbn [write_tokens write_token]. rewrite st_enc_header_undef_ob. unfold emit at 1.
    rewrite write_tokens_app, write_ot by (reflexivity || exact Hot).
    rewrite write_tokens_app, write_frags by (reflexivity || exact Hfr).
    cbn [write_tokens write_token w_stack w_last w_out negb andb]. rewrite N.eqb_refl.
    unfold emit. cbn [w_stack w_last w_out wres].
    rewrite <- !app_assoc. reflexivity.
  - (* sequence *)
    intros t v l its IH R. inversion R as [|? ? ? Hits|]; subst.
    assert (A : Forall (fun it : item => Forall (writes_ok c) (snd it)) its).
    { clear R. induction its as [|it its IHi]; [constructor|].
      inversion IH as [|? ? I1 I2]; inversion Hits as [|? ? J1 J2]; subst. constructor.
      - clear IHi I2 J2. induction (snd it) as [|x xs IHx]; [constructor|].
        inversion I1; inversion J1; subst. constructor; [auto | auto].
      - apply IHi; assumption. }
    unfold writes_ok. rewrite seq_tokens_unfold.
    destruct (write_items c its (items_size its) w_init A (le_n _) eq_refl) as [S1 _].
    rewrite ts_app_of, (ts_app_false _ _ S1). cbn [ts_of fst snd]. split; [reflexivity|].
    intros f st F L. destruct f as [|f]; [cbn in F; lia|]. rewrite elem_size_seq in F.
    rewrite enc_tree_seq, st_enc_header_undef_sq. cbn [obind].
    cbn [app write_tokens write_token]. rewrite st_enc_header_undef_sq. unfold emit at 1.
    rewrite write_tokens_app.
    match goal with |- match write_tokens c false ?S _ with _ => _ end = _ =>
      destruct (write_items c its f S A ltac:(lia) L) as [_ W2]; rewrite W2 end.
    destruct (enc_items f c its) as [body|x|x]; cbn [wres obind]; try reflexivity.
    cbn [write_tokens write_token w_stack negb andb]. rewrite N.eqb_refl.
    unfold emit. cbn [w_stack w_last w_out]. rewrite <- !app_assoc. reflexivity.
Qed.

(** W (nested): the whole data set. *)
Lemma write_dataset_nested c es :
  Forall regular es ->
  write_dataset c false false es = enc_trees (elems_size es) c es.
Proof.
  intros H. unfold write_dataset, write_stream.
  assert (A : Forall (writes_ok c) es) by (eapply Forall_impl; [apply regular_writes_ok | exact H]).
  destruct (write_elems c es (elems_size es) w_init A (le_n _) eq_refl) as [S1 S2].
  rewrite S1, S2. destruct (enc_trees (elems_size es) c es); reflexivity.
Qed.
