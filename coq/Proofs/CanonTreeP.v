(** C02 for nested canonical streams in which every sequence and item has
    undefined length (and encapsulated pixel data): the reference encoding is
    the writer's encoding of the object the reader builds from it. *)
From Coq Require Import ZifyBool ZifyNat ZifyN Sorting.Sorted.
From DicomV Require Import Base.Endian Model.Vr Model.Header Model.Prim Model.Dataset Model.Writer Model.Reader
  Spec.Ps35 Proofs.HeaderP Proofs.PrimP Proofs.WriterP Proofs.ValidP Proofs.FlatP Proofs.ValueP Proofs.ReaderP
  Proofs.RoundTripP Proofs.TotalP Proofs.RewriteP Proofs.NestedP Proofs.ReadStepsP Proofs.ReadTreeP
  Proofs.BuildTreeP Proofs.RoundTripTreeP.
Open Scope N_scope.

(** * Induction principle for canonical (spec-level) elements *)
Section CElemInd.
  Variable P : celem -> Prop.
  Hypothesis Hprim : forall t v val, P (CPrim t v val).
  Hypothesis Hpix : forall ot fr, P (CPix ot fr).
  Hypothesis Hseq : forall t ex its, Forall (fun it : bool * list celem => Forall P (snd it)) its -> P (CSeq t ex its).
  Fixpoint celem_ind_nested (e : celem) : P e :=
    match e with
    | CPrim t v val => Hprim t v val
    | CPix ot fr => Hpix ot fr
    | CSeq t ex its =>
        Hseq t ex its
          ((fix go (its : list (bool * list celem)) : Forall (fun it : bool * list celem => Forall P (snd it)) its :=
              match its with
              | [] => Forall_nil _
              | it :: r =>
                  Forall_cons it
                    ((fix go2 (es : list celem) : Forall P es :=
                        match es with
                        | [] => Forall_nil _
                        | x :: r2 => Forall_cons x (celem_ind_nested x) (go2 r2)
                        end) (snd it))
                    (go r)
              end) its)
    end.
End CElemInd.

Lemma canon_elem_seq c t ex its :
  canon_elem c (CSeq t ex its) =
  if ex then ps35_header c t SQ (ps35_len (canon_items c its)) ++ canon_items c its
  else ps35_header c t SQ undefined_length ++ canon_items c its ++ ps35_seq_delim c.
Proof.
  cbn [canon_elem].
  match goal with |- context [ps35_len (?F its)] => assert (E : F its = canon_items c its) end.
  { induction its as [|[ex' es] rest IH]; [reflexivity|]. cbn [canon_items]. rewrite <- IH.
    assert (E2 : forall l, (fix elems_enc (es0 : list celem) : bytes :=
                              match es0 with [] => [] | e :: es' => canon_elem c e ++ elems_enc es' end) l
                           = canon_encode c l).
    { induction l as [|x l IHl]; [reflexivity|]. cbn [canon_encode]. rewrite <- IHl. reflexivity. }
    rewrite <- !E2. reflexivity. }
  rewrite E. reflexivity.
Qed.

(** The object the reader builds from a canonical element (all lengths undefined). *)
Fixpoint of_c (c : codec) (d : dict_t) (e : celem) : elem :=
  match e with
  | CPrim t v val => EPrim t (read_vr c d t v) (blen val) (readback_prim c (read_vr c d t v) val)
  | CSeq t _ its => ESeq t SQ undef (map (fun it : bool * list celem => (undef, map (of_c c d) (snd it))) its)
  | CPix ot frags => EPix pixel_tag OB undef ot frags
  end.

(** Canonical nested data sets with undefined lengths only. *)
Inductive canonical (c : codec) (d : dict_t) : celem -> Prop :=
| CnPrim t v val :
    wf_tag t -> fst t <> 65534 -> t <> (40, 259) -> canon_val c (read_vr c d t v) val ->
    (c <> ILE -> ps35_len16 v = true -> blen val <= 65535) -> canonical c d (CPrim t v val)
| CnSeq t its :
    wf_tag t -> fst t <> 65534 -> t <> pixel_tag ->
    Forall (fun it : bool * list celem =>
              fst it = false /\ Forall (canonical c d) (snd it) /\ StronglySorted tag_lt (map ctag (snd it))) its ->
    canonical c d (CSeq t false its)
| CnPix ot frags :
    Forall (fun x => x < 4294967296) ot -> nlen ot < 1073741824 ->
    Forall (fun f : bytes => blen f mod 2 = 0 /\ blen f < 4294967294) frags ->
    canonical c d (CPix ot frags).

(** * Value level: what is read from a canonical value field is typed for its
    VR and its raw value is the field itself *)
Lemma Ok_inj {A} (a b : A) : Ok a = Ok b -> a = b.
Proof. intros H. inversion H. reflexivity. Qed.

Lemma back_facts c v val p :
  canon_val c v val -> back_value c v val = Ok p ->
  typed v p = true /\ wf_prim p /\ raw_value c v p = val.
Proof.
  intros (W & E & L & S & Hsq & Hw) B. unfold back_value in B.
  destruct (blen val =? 0) eqn:Z.
  - inversion B; subst p. apply N.eqb_eq in Z.
    assert (val = []) by (destruct val; [reflexivity | unfold blen in Z; cbn in Z; lia]). subst val.
    split; [reflexivity|]. split; [exact I|]. destruct v; reflexivity.
  - assert (WD : forall k n (mk : list N -> prim),
              length val = (n * k)%nat -> (k = 2 \/ k = 4 \/ k = 8)%nat ->
              enc_words c k (dec_words c k (Nat.div (length val) k) val) = val).
    { intros k n mk Len Hk. replace (Nat.div (length val) k) with n
        by (rewrite Len; symmetry; apply Nat.div_mul; destruct Hk as [ -> | [ -> | -> ] ]; discriminate).
      apply enc_words_dec_words; assumption. }
    destruct v; try congruence; unfold value_of_bytes in B; apply Ok_inj in B; subst p;
      (split; [reflexivity|]); (split; [exact I|]);
      lazymatch goal with
      | |- raw_value c AT _ = _ =>
          destruct (Hw ltac:(cbn; discriminate)) as [n Hn]; cbn [word_size] in Hn;
          replace (Nat.div (length val) 4) with n by (rewrite Hn; symmetry; apply Nat.div_mul; discriminate);
          change (raw_value c AT (PTags (map (fun w => (rd c (firstn 2 w), rd c (skipn 2 w))) (chunks 4 n val))))
            with (flat_map (fun t : tag => u16 c (fst t) ++ u16 c (snd t))
                    (map (fun w => (rd c (firstn 2 w), rd c (skipn 2 w))) (chunks 4 n val)));
          apply (tags_canon_bytes c n val Hn W)
      | _ =>
          cbn [raw_value enc_prim fst int_text];
          try apply join_split; try reflexivity;
          try (destruct (Hw ltac:(cbn; discriminate)) as [n Hn]; cbn [word_size] in Hn;
               first [ apply (WD 2%nat n PU16 Hn); auto | apply (WD 4%nat n PU32 Hn); auto | apply (WD 8%nat n PU64 Hn); auto ])
      end.
Qed.

Lemma read_vr_idem c d t v : read_vr c d t (read_vr c d t v) = read_vr c d t v.
Proof. destruct c; reflexivity. Qed.

Lemma canon_val_not_sq c v val : canon_val c v val -> vr_eqb v SQ = false.
Proof. intros (_ & _ & _ & _ & Hsq & _). destruct v; try reflexivity. congruence. Qed.

Lemma padded_even_id v val : blen val mod 2 = 0 -> ps35_padded v val = val.
Proof.
  intros E. unfold ps35_padded. destruct (Nat.odd (length val)) eqn:O; [|reflexivity].
  pose proof (odd_mod2 val O). lia.
Qed.

(** * (a) the writer's encoding of the object is the reference encoding *)
Definition enc_is_canon (c : codec) (d : dict_t) (e : celem) : Prop :=
  forall f, (elem_size (of_c c d e) <= f)%nat -> enc_tree f c (of_c c d e) = Ok (canon_elem c e).

Lemma enc_trees_canon c d es : forall f,
  Forall (enc_is_canon c d) es -> (elems_size (map (of_c c d) es) <= f)%nat ->
  enc_trees f c (map (of_c c d) es) = Ok (canon_encode c es).
Proof.
  induction es as [|e es IH]; intros f H F; [reflexivity|].
  inversion H as [|? ? He Hes]; subst. cbn [map elems_size] in F.
  cbn [map enc_trees canon_encode]. rewrite He by lia. cbn [obind]. rewrite IH by (assumption || lia). reflexivity.
Qed.

Lemma enc_items_canon c d its : forall f,
  Forall (fun it : bool * list celem => fst it = false /\ Forall (enc_is_canon c d) (snd it)) its ->
  (items_size (map (fun it : bool * list celem => (undef, map (of_c c d) (snd it))) its) <= f)%nat ->
  enc_items f c (map (fun it : bool * list celem => (undef, map (of_c c d) (snd it))) its) = Ok (canon_items c its).
Proof.
  induction its as [|[ex es] its IH]; intros f H F; [reflexivity|].
  inversion H as [|? ? [Hex Hes] Hits]; subst. cbn [fst snd] in *. subst ex. cbn [map items_size snd] in F.
  cbn [map enc_items canon_items snd]. rewrite enc_trees_canon by (assumption || lia). cbn [obind].
  rewrite IH by (assumption || lia). cbn [obind].
  rewrite st_item_header_undef, enc_item_delim_ps35, <- !app_assoc. reflexivity.
Qed.

Lemma canonical_enc c d : forall e, canonical c d e -> enc_is_canon c d e.
Proof.
  apply (celem_ind_nested (fun e => canonical c d e -> enc_is_canon c d e)).
  - intros t v val Cn f F. inversion Cn as [? ? ? Ht Hg Hp Hc H16| |]; subst.
    destruct f as [|f]; [cbn in F; lia|]. cbn [of_c enc_tree canon_elem].
    destruct (back_value_not_sq c (read_vr c d t v) val (canon_val_not_sq _ _ _ Hc)) as [q Hq].
    assert (Q : readback_prim c (read_vr c d t v) val = q) by (unfold readback_prim; rewrite Hq; reflexivity).
    rewrite Q, (rewrite_element c t (read_vr c d t v) val q Hc Hq), header_read_vr. reflexivity.
  - intros ot fr Cn f F. inversion Cn as [| |? ? Hot Hn Hfr]; subst.
    destruct f as [|f]; [cbn in F; lia|]. cbn [of_c enc_tree canon_elem]. unfold enc_pix.
    rewrite st_enc_header_undef_ob. cbn [obind].
    assert (E_ot : match ot with
                   | [] => st_enc_item_header c 0
                   | _ => st_enc_item_header c ((nlen ot mod 4294967296 * 4) mod 4294967296) ++ st_enc_offset_table c ot
                   end = ps35_item_header c (4 * N.of_nat (length ot)) ++ flat_map (ps35_u32 c) ot).
    { destruct ot as [|x ot].
      - rewrite st_item_header_even by (lia || reflexivity). cbn [length flat_map]. rewrite List.app_nil_r. reflexivity.
      - set (o := x :: ot) in *. unfold st_enc_offset_table.
        assert (L : (nlen o mod 4294967296 * 4) mod 4294967296 = 4 * N.of_nat (length o)).
        { unfold nlen in *. rewrite (N.mod_small (N.of_nat (length o))) by lia. rewrite N.mod_small by lia. lia. }
        rewrite L, st_item_header_even; [reflexivity | unfold nlen in Hn; lia |].
        rewrite N.mul_comm. replace (N.of_nat (length o) * 4) with (0 + (N.of_nat (length o) * 2) * 2) by lia.
        rewrite N.mod_add by discriminate. reflexivity. }
    assert (E_fr : flat_map (fun f0 : bytes => match f0 with
                                              | [] => st_enc_item_header c 0
                                              | _ => st_enc_item_header c (blen f0 mod 4294967296) ++ st_write_bytes f0
                                              end) fr
                   = flat_map (fun f0 : bytes => ps35_item_header c (ps35_len f0) ++ f0) fr).
    { clear E_ot Cn F. induction Hfr as [|fg frags [Ev Lt] Hr IH]; [reflexivity|]. cbn [flat_map]. rewrite IH. f_equal.
      destruct fg as [|x fg]; [rewrite st_item_header_even by (lia || reflexivity); cbn; rewrite List.app_nil_r; reflexivity|].
      set (b := x :: fg) in *. rewrite st_item_header_frag by exact Lt. unfold st_write_bytes.
      rewrite pad_even_even by exact Ev. reflexivity. }
    transitivity (Ok (ps35_header c pixel_tag OB undef
                        ++ (ps35_item_header c (4 * N.of_nat (length ot)) ++ flat_map (ps35_u32 c) ot)
                        ++ flat_map (fun f0 : bytes => ps35_item_header c (ps35_len f0) ++ f0) fr
                        ++ ps35_seq_delim c));
      [| rewrite <- !app_assoc; reflexivity].
    f_equal. f_equal. f_equal; [exact E_ot | f_equal; [exact E_fr | apply enc_seq_delim_ps35]].
  - intros t ex its IH Cn f F. inversion Cn as [|? ? Ht Hg Hpx Hits|]; subst.
    assert (A : Forall (fun it : bool * list celem => fst it = false /\ Forall (enc_is_canon c d) (snd it)) its).
    { clear Cn F. induction its as [|it its IHi]; [constructor|].
      inversion IH as [|? ? I1 I2]; inversion Hits as [|? ? (J0 & J1 & J3) J2]; subst. constructor.
      - split; [exact J0|]. clear IHi I2 J2 J3. induction (snd it) as [|x xs IHx]; [constructor|].
        inversion I1; inversion J1; subst. constructor; [auto | auto].
      - apply IHi; assumption. }
    destruct f as [|f]; [cbn in F; lia|]. cbn [of_c] in F |- *. rewrite elem_size_seq in F.
    rewrite enc_tree_seq, st_enc_header_undef_sq. cbn [obind].
    rewrite enc_items_canon by (assumption || lia). cbn [obind].
    rewrite canon_elem_seq, enc_seq_delim_ps35. reflexivity.
Qed.

(** * (b) the object is readable and is its own normal form *)
Lemma of_c_tag c d e : canonical c d e -> elem_tag (of_c c d e) = ctag e.
Proof. intros Cn. inversion Cn; reflexivity. Qed.

Lemma map_of_c_tags c d es : Forall (canonical c d) es -> map elem_tag (map (of_c c d) es) = map ctag es.
Proof.
  induction 1 as [|e es He Hes IH]; [reflexivity|]. cbn [map]. rewrite IH, of_c_tag by exact He. reflexivity.
Qed.

Definition obj_ok (c : codec) (d : dict_t) (e : celem) : Prop :=
  readable c d (of_c c d e) /\ norm_tree c d (of_c c d e) = of_c c d e.

Lemma canonical_obj_ok c d : forall e, canonical c d e -> obj_ok c d e.
Proof.
  apply (celem_ind_nested (fun e => canonical c d e -> obj_ok c d e)).
  - intros t v val Cn. inversion Cn as [? ? ? Ht Hg Hp Hc H16| |]; subst.
    pose proof (canon_val_not_sq _ _ _ Hc) as Hsq.
    destruct (back_value_not_sq c (read_vr c d t v) val Hsq) as [q Hq].
    assert (Q : readback_prim c (read_vr c d t v) val = q) by (unfold readback_prim; rewrite Hq; reflexivity).
    destruct (back_facts c (read_vr c d t v) val q Hc Hq) as (Ty & Wf & Raw).
    destruct Hc as (W & E & L & S & Hsq' & Hw).
    unfold obj_ok. cbn [of_c]. rewrite Q. split.
    + constructor.
      * unfold elem_ok, plain. rewrite Raw.
        assert (Hu : (blen val =? undef) = false) by (apply N.eqb_neq; unfold undef; lia).
        unfold is_encaps_header. rewrite Hu, !andb_false_r.
        repeat split; auto; apply Ht.
      * unfold rt_ok. rewrite read_vr_idem. split; assumption.
    + cbn [norm_tree norm_elem]. rewrite Raw, read_vr_idem, padded_even_id by exact E.
      unfold readback_prim at 1. rewrite Hq. reflexivity.
  - intros ot fr Cn. inversion Cn as [| |? ? Hot Hn Hfr]; subst. unfold obj_ok. cbn [of_c]. split.
    + constructor; [exact Hot | exact Hn |]. eapply Forall_impl; [|exact Hfr]. cbn. intros f [_ Hf]. exact Hf.
    + cbn [norm_tree]. f_equal. clear Cn. induction Hfr as [|f frs [Ev _] _ IH]; [reflexivity|]. cbn [map].
      rewrite IH. rewrite pad_even_even by exact Ev. reflexivity.
  - intros t ex its IH Cn. inversion Cn as [|? ? Ht Hg Hpx Hits|]; subst.
    assert (A : Forall (fun it : bool * list celem => Forall (obj_ok c d) (snd it) /\ Forall (canonical c d) (snd it)
                                                      /\ StronglySorted tag_lt (map ctag (snd it))) its).
    { clear Cn. induction its as [|it its IHi]; [constructor|].
      inversion IH as [|? ? I1 I2]; inversion Hits as [|? ? (J0 & J1 & J3) J2]; subst. constructor.
      - split; [|split; assumption]. clear IHi I2 J2 J3. induction (snd it) as [|x xs IHx]; [constructor|].
        inversion I1; inversion J1; subst. constructor; [auto | auto].
      - apply IHi; assumption. }
    unfold obj_ok. cbn [of_c]. split.
    + constructor; try assumption.
      clear Cn IH Hits. induction A as [|it its (O & Cs & Ss) _ IHa]; [constructor|]. cbn [map]. constructor; [|exact IHa].
      cbn [snd]. split.
      * clear Ss Cs. induction O as [|x xs [Rx _] _ IHx]; [constructor|]. cbn [map]. constructor; assumption.
      * rewrite map_of_c_tags by exact Cs. exact Ss.
    + cbn [norm_tree]. f_equal.
      clear Cn IH Hits. induction A as [|it its (O & _ & _) _ IHa]; [reflexivity|]. cbn [map snd]. rewrite IHa. f_equal. f_equal.
      clear IHa. induction O as [|x xs [_ Nx] _ IHx]; [reflexivity|]. cbn [map]. rewrite Nx, IHx. reflexivity.
Qed.

(** * With all recorded lengths undefined the two writer strategies coincide *)
Definition lastof (last : bool) (tk : token) : bool :=
  match tk with
  | TElemHeader t _ l => is_encaps_header t l
  | TPrim _ => false
  | TPixStart => true
  | TSeqEnd => false
  | _ => last
  end.
Definition tok_ok (last : bool) (tk : token) : Prop :=
  match tk with
  | TSeqStart _ l => l = undef
  | TItemStart l => l = undef \/ last = true
  | _ => True
  end.
Fixpoint toks_ok (last : bool) (toks : list token) : Prop :=
  match toks with
  | [] => True
  | tk :: r => tok_ok last tk /\ toks_ok (lastof last tk) r
  end.
Definition lastof_list (last : bool) (toks : list token) : bool := fold_left lastof toks last.

Lemma toks_ok_app last a b : toks_ok last a -> toks_ok (lastof_list last a) b -> toks_ok last (a ++ b).
Proof.
  revert last. induction a as [|tk a IH]; intros last Ha Hb; [exact Hb|].
  cbn [app toks_ok] in *. destruct Ha as [H1 H2]. split; [exact H1|]. apply IH; [exact H2 | exact Hb].
Qed.
Lemma lastof_list_app last a b : lastof_list last (a ++ b) = lastof_list (lastof_list last a) b.
Proof. unfold lastof_list. apply fold_left_app. Qed.

Lemma write_token_nc c st tk :
  tok_ok (last_is_encaps (w_last st)) tk -> write_token c true st tk = write_token c false st tk.
Proof.
  destruct tk; cbn [tok_ok write_token]; intros H; try reflexivity.
  - subst len. reflexivity.
  - destruct H as [-> | H]; [destruct (last_is_encaps (w_last st)); reflexivity | rewrite H; reflexivity].
Qed.

Lemma last_after c st tk st' :
  write_token c false st tk = Ok st' -> last_is_encaps (w_last st') = lastof (last_is_encaps (w_last st)) tk.
Proof.
  destruct tk; cbn [write_token lastof]; intros W.
  - inversion W; subst. reflexivity.
  - destruct (st_enc_header c t SQ undef); try discriminate. inversion W; subst. reflexivity.
  - destruct (st_enc_header c pixel_tag OB undef); try discriminate. inversion W; subst. reflexivity.
  - destruct (w_stack st) as [|[i l] r]; inversion W; subst; reflexivity.
  - inversion W; subst. reflexivity.
  - destruct (w_stack st) as [|[i l] r]; inversion W; subst; reflexivity.
  - destruct (w_last st) as [[[t v] l]|]; try discriminate. destruct (enc_prim_element c t v p); try discriminate.
    inversion W; subst. reflexivity.
  - inversion W; subst. reflexivity.
  - inversion W; subst. reflexivity.
Qed.

Lemma write_tokens_nc c toks : forall st,
  toks_ok (last_is_encaps (w_last st)) toks -> write_tokens c true st toks = write_tokens c false st toks.
Proof.
  induction toks as [|tk toks IH]; intros st H; [reflexivity|].
  cbn [toks_ok] in H. destruct H as [H1 H2]. cbn [write_tokens]. rewrite (write_token_nc c st tk H1).
  destruct (write_token c false st tk) as [st'|x|x] eqn:E; try reflexivity.
  apply IH. rewrite (last_after c st tk st' E). exact H2.
Qed.

(* token streams of objects built from canonical elements *)
Definition tree_toks_ok (c : codec) (d : dict_t) (e : celem) : Prop :=
  toks_ok false (fst (elem_tokens false (of_c c d e))) /\
  lastof_list false (fst (elem_tokens false (of_c c d e))) = false /\
  snd (elem_tokens false (of_c c d e)) = false.

Lemma elems_toks_ok c d es :
  Forall (tree_toks_ok c d) es ->
  toks_ok false (fst (elems_tokens false (map (of_c c d) es))) /\
  lastof_list false (fst (elems_tokens false (map (of_c c d) es))) = false /\
  snd (elems_tokens false (map (of_c c d) es)) = false.
Proof.
  induction 1 as [|e es (H1 & H2 & H3) Hes (I1 & I2 & I3)]; [repeat split|].
  cbn [map elems_tokens]. rewrite (ts_app_false _ _ H3). cbn [fst snd].
  split; [apply toks_ok_app; [exact H1 | rewrite H2; exact I1]|].
  split; [rewrite lastof_list_app, H2; exact I2 | exact I3].
Qed.

Lemma items_toks_ok c d (its : list (bool * list celem)) :
  Forall (fun it : bool * list celem => Forall (tree_toks_ok c d) (snd it)) its ->
  let its' := map (fun it : bool * list celem => (undef, map (of_c c d) (snd it))) its in
  toks_ok false (fst (items_tokens false its')) /\ lastof_list false (fst (items_tokens false its')) = false
  /\ snd (items_tokens false its') = false.
Proof.
  cbv zeta. induction 1 as [|[ex es] its Hes Hits (I1 & I2 & I3)]; [repeat split|].
  cbn [snd] in Hes. destruct (elems_toks_ok c d es Hes) as (E1 & E2 & E3).
  cbn [map items_tokens snd]. rewrite andb_false_r.
  rewrite ts_app_of, (ts_app_false _ _ E3), ts_app_of. cbn [fst snd].
  split; [|split; [|exact I3]].
  - cbn [app toks_ok tok_ok lastof]. split; [left; reflexivity|].
    apply toks_ok_app; [exact E1|]. rewrite E2. cbn [app toks_ok tok_ok lastof]. split; [exact I|exact I1].
  - change ([TItemStart undef] ++ fst (elems_tokens false (map (of_c c d) es)) ++ [TItemEnd] ++ fst (items_tokens false (map (fun it : bool * list celem => (undef, map (of_c c d) (snd it))) its)))
      with (([TItemStart undef] ++ fst (elems_tokens false (map (of_c c d) es))) ++ ([TItemEnd] ++ fst (items_tokens false (map (fun it : bool * list celem => (undef, map (of_c c d) (snd it))) its)))).
    rewrite lastof_list_app. cbn [app]. unfold lastof_list at 2. cbn [fold_left lastof]. fold (lastof_list false (fst (elems_tokens false (map (of_c c d) es)))).
    rewrite E2. unfold lastof_list. cbn [fold_left lastof]. exact I2.
Qed.

Lemma frags_toks_ok frags :
  toks_ok true (flat_map (frag_tokens false) frags) /\ lastof_list true (flat_map (frag_tokens false) frags) = true.
Proof.
  induction frags as [|f frags [I1 I2]]; [split; [exact I | reflexivity]|].
  cbn [flat_map]. destruct f as [|x f].
  - cbn [frag_tokens app toks_ok tok_ok lastof]. split; [split; [right; reflexivity|]; split; [exact I | exact I1]|].
    unfold lastof_list in *. cbn [fold_left lastof]. exact I2.
  - cbn [frag_tokens app toks_ok tok_ok lastof]. split; [split; [right; reflexivity|]; split; [exact I|]; split; [exact I | exact I1]|].
    unfold lastof_list in *. cbn [fold_left lastof]. exact I2.
Qed.

Lemma canonical_toks_ok c d : forall e, canonical c d e -> tree_toks_ok c d e.
Proof.
  apply (celem_ind_nested (fun e => canonical c d e -> tree_toks_ok c d e)).
  - intros t v val Cn. inversion Cn as [? ? ? Ht Hg Hp Hc H16| |]; subst.
    pose proof (canon_val_not_sq _ _ _ Hc) as Hsq. destruct Hc as (_ & _ & L & _).
    unfold tree_toks_ok. cbn [of_c elem_tokens].
    assert (Hu : (blen val =? undef) = false) by (apply N.eqb_neq; unfold undef; lia).
    unfold is_encaps_header. rewrite Hu, !andb_false_r, Hsq. cbn [ts_of fst snd toks_ok tok_ok lastof].
    unfold lastof_list. cbn [fold_left lastof]. repeat split.
  - intros ot fr Cn. unfold tree_toks_ok. cbn [of_c elem_tokens].
    change (vr_eqb OB OB && is_encaps_header pixel_tag undef) with true. cbn [ts_of fst snd].
    destruct (frags_toks_ok fr) as [F1 F2].
    assert (O1 : toks_ok true (ot_tokens ot) /\ lastof_list true (ot_tokens ot) = true).
    { destruct ot; cbn [ot_tokens toks_ok tok_ok lastof]; unfold lastof_list; cbn [fold_left lastof]; repeat split; right; reflexivity. }
    destruct O1 as [O1 O2].
    split; [|split; [|reflexivity]].
    + cbn [app toks_ok tok_ok lastof]. split; [exact I|].
      apply toks_ok_app; [exact O1|]. rewrite O2. apply toks_ok_app; [exact F1|]. rewrite F2. cbn. auto.
    + change ([TPixStart] ++ ot_tokens ot ++ flat_map (frag_tokens false) fr ++ [TSeqEnd])
        with (TPixStart :: (ot_tokens ot ++ flat_map (frag_tokens false) fr ++ [TSeqEnd])).
      unfold lastof_list at 1. cbn [fold_left lastof]. fold (lastof_list true (ot_tokens ot ++ flat_map (frag_tokens false) fr ++ [TSeqEnd])).
      rewrite !lastof_list_app, O2, F2. reflexivity.
  - intros t ex its IH Cn. inversion Cn as [|? ? Ht Hg Hpx Hits|]; subst.
    assert (A : Forall (fun it : bool * list celem => Forall (tree_toks_ok c d) (snd it)) its).
    { clear Cn. induction its as [|it its IHi]; [constructor|].
      inversion IH as [|? ? I1 I2]; inversion Hits as [|? ? (J0 & J1 & J3) J2]; subst. constructor.
      - clear IHi I2 J2 J3. induction (snd it) as [|x xs IHx]; [constructor|].
        inversion I1; inversion J1; subst. constructor; [auto | auto].
      - apply IHi; assumption. }
    destruct (items_toks_ok c d its A) as (I1 & I2 & I3).
    unfold tree_toks_ok. cbn [of_c]. rewrite seq_tokens_unfold.
    rewrite ts_app_of, (ts_app_false _ _ I3). cbn [ts_of fst snd].
    split; [|split; [|reflexivity]].
    + cbn [app toks_ok tok_ok lastof]. split; [reflexivity|].
      apply toks_ok_app; [exact I1|]. rewrite I2. cbn. auto.
    + cbn [app]. unfold lastof_list at 1. cbn [fold_left lastof].
      match goal with |- fold_left lastof (?X ++ [TSeqEnd]) false = false =>
        change (fold_left lastof (X ++ [TSeqEnd]) false) with (lastof_list false (X ++ [TSeqEnd])) end.
      rewrite lastof_list_app. reflexivity.
Qed.

(** * C02 for nested canonical streams with undefined lengths *)
Lemma read_rewrite_tree c d nc es :
  delim_ok c d -> Forall (canonical c d) es -> StronglySorted tag_lt (map ctag es) ->
  exists obj, read_dataset c d (canon_encode c es) = Ok obj /\
              write_dataset c nc false obj = Ok (canon_encode c es).
Proof.
  intros Hd Cn S. exists (map (of_c c d) es).
  assert (O : Forall (obj_ok c d) es) by (eapply Forall_impl; [apply canonical_obj_ok | exact Cn]).
  assert (R : Forall (readable c d) (map (of_c c d) es)).
  { clear S. induction O as [|e es [Re _] _ IH]; [constructor|]. inversion Cn; subst. constructor; auto. }
  assert (Nm : map (norm_tree c d) (map (of_c c d) es) = map (of_c c d) es).
  { clear S R. induction O as [|e es [_ Ne] _ IH]; [reflexivity|]. inversion Cn; subst. cbn [map]. rewrite Ne, IH by assumption. reflexivity. }
  assert (Rg : Forall regular (map (of_c c d) es)) by (eapply Forall_impl; [apply (readable_regular c d) | exact R]).
  assert (W0 : write_dataset c false false (map (of_c c d) es) = Ok (canon_encode c es)).
  { rewrite write_dataset_nested by exact Rg. apply enc_trees_canon; [|lia].
    eapply Forall_impl; [apply canonical_enc | exact Cn]. }
  split.
  - rewrite (roundtrip_tree c d _ _ Hd R); [rewrite Nm; reflexivity | | exact W0].
    rewrite map_of_c_tags by exact Cn. exact S.
  - destruct nc; [|exact W0].
    rewrite <- W0. unfold write_dataset, write_stream.
    assert (T : Forall (tree_toks_ok c d) es) by (eapply Forall_impl; [apply canonical_toks_ok | exact Cn]).
    destruct (elems_toks_ok c d es T) as (T1 & _ & _).
    rewrite (write_tokens_nc c _ w_init T1). reflexivity.
Qed.
