(** Lemmas about Model/DateTime.v (C12). *)
From DicomV Require Import Base.Prelude Model.DateTime.
From Coq Require Import ZifyBool ZifyNat ZifyN.
Ltac Zify.zify_post_hook ::= Z.div_mod_to_equations.

Local Open Scope N_scope.

(** * Decimal fields *)
Lemma padk_length k n : length (padk k n) = k.
Proof.
  revert n; induction k as [|k IH]; intros n; cbn [padk]; [reflexivity|].
  rewrite app_length, IH; cbn; lia.
Qed.

Lemma is_digit_spec b : is_digit b = true <-> 48 <= b <= 57.
Proof. unfold is_digit; lia. Qed.

Lemma padk_digits k n : forallb is_digit (padk k n) = true.
Proof.
  revert n; induction k as [|k IH]; intros n; cbn [padk]; [reflexivity|].
  rewrite forallb_app, IH; cbn [forallb andb].
  assert (n mod 10 < 10) by (apply N.mod_lt; lia).
  assert (is_digit (48 + n mod 10) = true) as -> by (apply is_digit_spec; lia). reflexivity.
Qed.

Lemma digits_val_app acc l b : digits_val acc (l ++ [b]) = digits_val acc l * 10 + (b - 48).
Proof. revert acc; induction l as [|x l IH]; intros acc; cbn [digits_val app]; [reflexivity|apply IH]. Qed.

Lemma digits_val_padk k n : digits_val 0 (padk k n) = n mod 10 ^ N.of_nat k.
Proof.
  revert n; induction k as [|k IH]; intros n.
  - cbn. rewrite N.mod_1_r. reflexivity.
  - cbn [padk]. rewrite digits_val_app, IH.
    replace (48 + n mod 10 - 48) with (n mod 10) by lia.
    rewrite Nat2N.inj_succ, N.pow_succ_r'.
    rewrite N.mod_mul_r by (try apply N.pow_nonzero; lia). lia.
Qed.

Lemma read_digits_padk k n :
  (1 <= k <= 9)%nat -> n < 10 ^ N.of_nat k -> read_digits (padk k n) = Ok n.
Proof.
  intros Hk Hn. unfold read_digits. rewrite padk_length, padk_digits, digits_val_padk.
  rewrite N.mod_small by exact Hn.
  destruct ((k =? 0)%nat || (9 <? k)%nat) eqn:E; [lia|reflexivity].
Qed.
Lemma read_number_padk max k n :
  (1 <= k <= 9)%nat -> n < 10 ^ N.of_nat k -> n <= max -> read_number max (padk k n) = Ok n.
Proof.
  intros Hk Hn Hm. unfold read_number. rewrite read_digits_padk by assumption. cbn [bind].
  assert (max <? n = false) as -> by lia. reflexivity.
Qed.

Lemma firstn_padk k n r : firstn k (padk k n ++ r) = padk k n.
Proof.
  rewrite <- (padk_length k n) at 1. rewrite firstn_app, Nat.sub_diag, firstn_all. cbn. apply app_nil_r.
Qed.
Lemma skipn_padk k n r : skipn k (padk k n ++ r) = r.
Proof.
  rewrite <- (padk_length k n) at 1. rewrite skipn_app, Nat.sub_diag, skipn_all. reflexivity.
Qed.
Lemma short_padk j k n r : (j <= k)%nat -> short j (padk k n ++ r) = false.
Proof. intros. unfold short. rewrite app_length, padk_length. lia. Qed.

(* a rest that cannot be mistaken for the next two-digit field *)
Definition nd_head (r : bytes) : bool := match r with [] => true | c :: _ => negb (is_digit c) end.

Lemma read_number_nd max r : nd_head r = true -> short 2 r = false -> exists e, read_number max (firstn 2 r) = Err e.
Proof.
  destruct r as [|a [|b r]]; cbn; intros H1 H2; try discriminate.
  unfold read_number, read_digits. cbn. apply negb_true_iff in H1. rewrite H1. cbn. eauto.
Qed.

Lemma guard_true e : guard true e = Ok tt. Proof. reflexivity. Qed.

Ltac inr := unfold ok_year, ok_month, ok_day, ok_hour, ok_minute, ok_second, ok_milli, ok_fraction,
  ok_west, ok_east, in_range in *.

Lemma from_y_ok y : ok_year y = true -> from_y y = Ok (DYear y).
Proof. intros H; unfold from_y; rewrite H; reflexivity. Qed.
Lemma from_ym_ok y m : ok_year y = true -> ok_month m = true -> from_ym y m = Ok (DMonth y m).
Proof. intros H1 H2; unfold from_ym; rewrite H1, H2; reflexivity. Qed.
Lemma from_ymd_ok y m d :
  ok_year y = true -> ok_month m = true -> ok_day d = true -> from_ymd y m d = Ok (DDay y m d).
Proof. intros H1 H2 H3; unfold from_ymd; rewrite H1, H2, H3; reflexivity. Qed.

(** * Dates: text round trip *)
Lemma parse_date_enc d rest :
  valid_date d = true -> date_precise d = true \/ nd_head rest = true ->
  parse_date_partial (date_enc d ++ rest) = Ok (d, rest).
Proof.
  intros Hv Hr. unfold parse_date_partial.
  destruct d as [y|y m|y m dd]; cbn [date_enc valid_date date_precise] in *;
    rewrite <- ?app_assoc; rewrite short_padk by lia; rewrite firstn_padk, skipn_padk;
    (rewrite read_number_padk by (try lia; inr; cbn; lia)); cbn [bind].
  - destruct Hr as [Hr|Hr]; [discriminate|].
    destruct (short 2 rest) eqn:Es.
    + rewrite from_y_ok by (apply Hv). reflexivity.
    + destruct (read_number_nd 255 rest Hr Es) as [e ->]. rewrite from_y_ok by (apply Hv). reflexivity.
  - apply andb_true_iff in Hv as [Hy Hm].
    rewrite short_padk by lia. rewrite firstn_padk, skipn_padk.
    rewrite read_number_padk by (try lia; inr; cbn; lia).
    destruct Hr as [Hr|Hr]; [discriminate|].
    destruct (short 2 rest) eqn:Es.
    + rewrite from_ym_ok by assumption. reflexivity.
    + destruct (read_number_nd 255 rest Hr Es) as [e ->]. rewrite from_ym_ok by assumption. reflexivity.
  - apply andb_true_iff in Hv as [Hv Hd]. apply andb_true_iff in Hv as [Hy Hm].
    rewrite short_padk by lia. rewrite firstn_padk, skipn_padk.
    rewrite read_number_padk by (try lia; inr; cbn; lia).
    rewrite short_padk by lia. rewrite firstn_padk, skipn_padk.
    rewrite read_number_padk by (try lia; inr; cbn; lia).
    rewrite from_ymd_ok by assumption. reflexivity.
Qed.

Lemma parse_date_rt d : valid_date d = true -> parse_date_partial (date_enc d) = Ok (d, []).
Proof.
  intros Hv. rewrite <- (app_nil_r (date_enc d)). apply parse_date_enc; [exact Hv|right; reflexivity].
Qed.

Lemma date_enc_length d : N.of_nat (length (date_enc d)) = da_byte_len d.
Proof. destruct d; cbn [date_enc da_byte_len]; rewrite ?app_length, ?padk_length; reflexivity. Qed.


Ltac pow10 := repeat match goal with
  | |- context [10 ^ ?k] => let v := eval vm_compute in (10 ^ k) in change (10 ^ k) with v
  | H : context [10 ^ ?k] |- _ => let v := eval vm_compute in (10 ^ k) in change (10 ^ k) with v in H
  end.
