(** Lemmas about Model/NativePix.v (C21). *)
From DicomV Require Import Base.Prelude Model.NativePix.
From Coq Require Import ZifyBool ZifyNat ZifyN.
Ltac Zify.zify_post_hook ::= Z.div_mod_to_equations.

(** ** list slicing *)
Lemma skipn_skipn {A} (a b : nat) (l : list A) : skipn a (skipn b l) = skipn (b + a) l.
Proof.
  revert l; induction b as [|b IH]; intros l; [reflexivity|].
  destruct l as [|x l]; [now rewrite !skipn_nil|]. cbn. apply IH.
Qed.

Lemma firstn_skipn_firstn {A} (a b c : nat) (l : list A) :
  (a + b <= c)%nat -> firstn b (skipn a (firstn c l)) = firstn b (skipn a l).
Proof.
  revert b c l; induction a as [|a IH]; intros b c l H.
  - cbn. rewrite firstn_firstn. f_equal. lia.
  - destruct c as [|c]; [lia|]. destruct l as [|x l]; [reflexivity|].
    cbn. apply IH. lia.
Qed.

Lemma firstn_S_skipn {A} (d : A) (k n : nat) (l : list A) :
  (k < length l)%nat -> firstn (S n) (skipn k l) = nth k l d :: firstn n (skipn (S k) l).
Proof.
  revert l; induction k as [|k IH]; intros l H.
  - destruct l; [cbn in H; lia|]. reflexivity.
  - destruct l as [|x l]; [cbn in H; lia|]. cbn [skipn nth]. apply IH. cbn in H; lia.
Qed.

Lemma slice_length (d : bytes) (a n : N) :
  a + n <= len d -> length (slice d a n) = N.to_nat n.
Proof.
  unfold slice, len. intros H. rewrite firstn_length, skipn_length. lia.
Qed.

(** ** expansion of packed bits *)
Lemma expand_cons b d : expand (b :: d) = expand_byte b ++ expand d.
Proof. reflexivity. Qed.

Lemma expand_byte_length b : length (expand_byte b) = 8%nat.
Proof. reflexivity. Qed.

Lemma expand_length d : length (expand d) = (8 * length d)%nat.
Proof.
  induction d as [|b d IH]; [reflexivity|].
  rewrite expand_cons, app_length, expand_byte_length, IH. cbn [length]. lia.
Qed.

Lemma expand_firstn n d : expand (firstn n d) = firstn (8 * n) (expand d).
Proof.
  revert d; induction n as [|n IH]; intros d; [reflexivity|].
  destruct d as [|b d]; [reflexivity|].
  replace (8 * S n)%nat with (8 + 8 * n)%nat by lia.
  cbn [firstn]. rewrite !expand_cons, IH. reflexivity.
Qed.

Lemma expand_skipn n d : expand (skipn n d) = skipn (8 * n) (expand d).
Proof.
  revert d; induction n as [|n IH]; intros d; [reflexivity|].
  destruct d as [|b d]; [now rewrite !skipn_nil|].
  replace (8 * S n)%nat with (8 + 8 * n)%nat by lia.
  cbn [skipn]. rewrite expand_cons, IH. reflexivity.
Qed.

Lemma land1_shiftr x r : N.land (N.shiftr x r) 1 = (x / 2 ^ r) mod 2.
Proof.
  rewrite N.shiftr_div_pow2. change 1 with (N.ones 1). rewrite N.land_ones. reflexivity.
Qed.

Lemma nth_expand d q r :
  (r < 8)%nat -> (q < length d)%nat ->
  nth (8 * q + r) (expand d) 0 = 255 * ((nth q d 0 / 2 ^ N.of_nat r) mod 2).
Proof.
  revert q; induction d as [|b d IH]; intros q Hr Hq; [cbn in Hq; lia|].
  destruct q as [|q].
  - rewrite expand_cons, app_nth1 by (rewrite expand_byte_length; lia).
    cbn [nth]. replace (8 * 0 + r)%nat with r by lia.
    do 8 (destruct r as [|r]; [cbn [expand_byte map nth Nat.add N.of_nat]; rewrite land1_shiftr; apply N.mul_comm|]).
    lia.
  - replace (8 * S q + r)%nat with (8 + (8 * q + r))%nat by lia.
    rewrite expand_cons. cbn [expand_byte map app Nat.add nth].
    apply IH; [exact Hr|cbn in Hq; lia].
Qed.

Lemma nth_expand_bit d k :
  (k < 8 * length d)%nat -> nth k (expand d) 0 = 255 * bit_at d (N.of_nat k).
Proof.
  intros H. unfold bit_at.
  assert (Hk : k = (8 * (k / 8) + k mod 8)%nat) by (apply Nat.div_mod; lia).
  assert (Hr : (k mod 8 < 8)%nat) by (apply Nat.mod_upper_bound; lia).
  assert (Hq : (k / 8 < length d)%nat) by (apply Nat.div_lt_upper_bound; lia).
  rewrite Hk at 1. rewrite nth_expand by assumption.
  replace (N.to_nat (N.of_nat k / 8)) with (k / 8)%nat by lia.
  replace (N.of_nat k mod 8) with (N.of_nat (k mod 8)) by lia.
  reflexivity.
Qed.

Lemma bits_from_expand d n : forall from,
  (from + n <= 8 * length d)%nat ->
  bits_from d (N.of_nat from) n = firstn n (skipn from (expand d)).
Proof.
  induction n as [|n IH]; intros from H; [reflexivity|].
  rewrite (firstn_S_skipn 0) by (rewrite expand_length; lia).
  cbn [bits_from]. rewrite nth_expand_bit by lia.
  replace (N.of_nat from + 1) with (N.of_nat (S from)) by lia.
  rewrite IH by lia. reflexivity.
Qed.

Lemma bits_from_length d from n : length (bits_from d from n) = n.
Proof. revert from; induction n as [|n IH]; intros from; cbn; [reflexivity|]. now rewrite IH. Qed.

Lemma bits_from_values d from n : Forall (fun x => x = 0 \/ x = 255) (bits_from d from n).
Proof.
  revert from; induction n as [|n IH]; intros from; cbn [bits_from]; constructor; [|apply IH].
  unfold bit_at. assert (H : forall x, x mod 2 = 0 \/ x mod 2 = 1) by (intros; lia).
  destruct (H (nth (N.to_nat (from / 8)) d 0 / 2 ^ (from mod 8))) as [-> | ->]; [left|right]; reflexivity.
Qed.

(** ** get_range *)
Lemma get_range_some d a b :
  a <= b -> b <= len d -> get_range d a b = Some (slice d a (b - a)).
Proof.
  intros H1 H2. unfold get_range, slice.
  destruct (a <=? b) eqn:E1; [|lia]. destruct (b <=? len d) eqn:E2; [|lia]. reflexivity.
Qed.

(** the bits of [slice d a n] expanded = a window of the expansion of [d] *)
Lemma expand_slice d a n :
  expand (slice d a n) = firstn (8 * N.to_nat n) (skipn (8 * N.to_nat a) (expand d)).
Proof. unfold slice. rewrite expand_firstn, expand_skipn. reflexivity. Qed.

Lemma len_expand d : N.of_nat (length (expand d)) = 8 * len d.
Proof. rewrite expand_length. unfold len. lia. Qed.

(** ** 1-bit images *)
Lemma div_ceil_8 a : a <= 8 * div_ceil a 8 /\ 8 * div_ceil a 8 < a + 8.
Proof. unfold div_ceil. lia. Qed.

Lemma div_ceil_mono a b : a <= b -> div_ceil a 8 <= div_ceil b 8.
Proof. unfold div_ceil. lia. Qed.

Lemma decode_frame_one_bit i f :
  bits i = 1 -> stored_ok i -> f < nframes i ->
  decode_frame i f = Ok (bits_from (data i) (frame_samples i * f) (N.to_nat (frame_samples i))).
Proof.
  intros Hb Hs Hf. unfold decode_frame, stored_ok in *. rewrite Hb in *. cbn [N.eqb] in *.
  change (1 =? 1) with true in *. cbv iota in *.
  set (fs := frame_samples i) in *. set (d := data i) in *.
  assert (Hle : fs * f + fs <= fs * nframes i) by nia.
  pose proof (div_ceil_mono _ _ Hle) as Hm.
  pose proof (div_ceil_8 (fs * f + fs)) as [Hc1 Hc2].
  rewrite get_range_some by (unfold div_ceil in *; lia).
  f_equal. rewrite expand_slice.
  replace (fs * f / 8 + (div_ceil (fs * f + fs) 8 - fs * f / 8) - fs * f / 8)
    with (div_ceil (fs * f + fs) 8 - fs * f / 8) by lia.
  rewrite firstn_skipn_firstn by lia.
  rewrite skipn_skipn.
  replace (8 * N.to_nat (fs * f / 8) + N.to_nat ((fs * f) mod 8))%nat with (N.to_nat (fs * f)) by lia.
  rewrite <- (bits_from_expand d (N.to_nat fs) (N.to_nat (fs * f))) by (unfold len in *; lia).
  rewrite N2Nat.id. reflexivity.
Qed.

Lemma decode_whole_one_bit i :
  bits i = 1 -> stored_ok i ->
  decode_whole i = Ok (bits_from (data i) 0 (N.to_nat (frame_samples i * nframes i))).
Proof.
  intros Hb Hs. unfold decode_whole, stored_ok in *. rewrite Hb in *.
  change (1 =? 1) with true in *. cbv iota in *.
  set (t := frame_samples i * nframes i) in *.
  pose proof (div_ceil_8 t) as [Hc1 Hc2].
  rewrite get_range_some by lia. f_equal.
  rewrite expand_slice, N.sub_0_r. change (8 * N.to_nat 0)%nat with 0%nat. cbn [skipn].
  rewrite firstn_firstn. replace (Init.Nat.min (N.to_nat t) (8 * N.to_nat (div_ceil t 8))) with (N.to_nat t) by lia.
  change 0 with (N.of_nat 0). rewrite (bits_from_expand (data i) (N.to_nat t) 0) by (unfold len in *; lia).
  reflexivity.
Qed.

(** slicing a frame out of the continuously packed expansion *)
Lemma bits_from_slice d total from n :
  (N.to_nat from + n <= total)%nat -> (total <= 8 * length d)%nat ->
  firstn n (skipn (N.to_nat from) (bits_from d 0 total)) = bits_from d from n.
Proof.
  intros H1 H2. change 0 with (N.of_nat 0). rewrite bits_from_expand by lia. cbn [skipn].
  rewrite firstn_skipn_firstn by lia.
  rewrite <- (bits_from_expand d n (N.to_nat from)) by lia.
  rewrite N2Nat.id. reflexivity.
Qed.

(** ** 8/16-bit (byte addressed) images *)
Lemma decode_frame_bytes i f :
  bits i <> 1 -> stored_ok i -> f < nframes i ->
  decode_frame i f = Ok (slice (data i) (out_frame_size i * f) (out_frame_size i)).
Proof.
  intros Hb Hs Hf. unfold decode_frame, stored_ok, out_frame_size in *.
  destruct (bits i =? 1) eqn:E; [lia|].
  set (ofs := frame_samples i * bytes_per_sample (bits i)) in *.
  assert (ofs * f + ofs <= ofs * nframes i) by nia.
  rewrite get_range_some by lia. do 2 f_equal. lia.
Qed.

Lemma decode_whole_bytes i :
  bits i <> 1 -> stored_ok i ->
  decode_whole i = Ok (slice (data i) 0 (out_frame_size i * nframes i)).
Proof.
  intros Hb Hs. unfold decode_whole, stored_ok, out_frame_size, slice in *.
  destruct (bits i =? 1) eqn:E; [lia|]. cbn [skipn N.to_nat].
  do 2 f_equal. lia.
Qed.

Lemma slice_slice d a n b m :
  b + m <= n -> slice (slice d a n) b m = slice d (a + b) m.
Proof.
  intros H. unfold slice. rewrite firstn_skipn_firstn by lia.
  rewrite skipn_skipn. do 2 f_equal. lia.
Qed.

(** ** the property lemmas *)
Lemma bps_one : bytes_per_sample 1 = 1.
Proof. reflexivity. Qed.

Lemma whole_len i w :
  stored_ok i -> decode_whole i = Ok w -> len w = nframes i * out_frame_size i.
Proof.
  intros Hs Hw. destruct (N.eq_dec (bits i) 1) as [Hb|Hb].
  - rewrite decode_whole_one_bit in Hw by assumption. injection Hw as <-.
    unfold len, out_frame_size. rewrite bits_from_length, Hb, bps_one. lia.
  - rewrite decode_whole_bytes in Hw by assumption. injection Hw as <-.
    unfold len. rewrite slice_length by (unfold stored_ok in Hs; destruct (bits i =? 1) eqn:E; lia). lia.
Qed.

Lemma frame_eq_slice i w f :
  stored_ok i -> f < nframes i -> decode_whole i = Ok w ->
  decode_frame i f = Ok (slice w (f * out_frame_size i) (out_frame_size i)) /\
  frame_data i w f = Ok (slice w (f * out_frame_size i) (out_frame_size i)).
Proof.
  intros Hs Hf Hw. pose proof (whole_len i w Hs Hw) as Hl.
  assert (Hfit : f * out_frame_size i + out_frame_size i <= nframes i * out_frame_size i) by nia.
  split.
  - destruct (N.eq_dec (bits i) 1) as [Hb|Hb].
    + rewrite decode_frame_one_bit by assumption.
      rewrite decode_whole_one_bit in Hw by assumption. injection Hw as <-.
      unfold slice, out_frame_size in *. rewrite Hb, bps_one, N.mul_1_r in *.
      unfold stored_ok in Hs. rewrite Hb in Hs. change (1 =? 1) with true in Hs. cbv iota in Hs.
      pose proof (div_ceil_8 (frame_samples i * nframes i)). unfold len in Hs.
      rewrite bits_from_slice by lia. do 2 f_equal. lia.
    + rewrite decode_frame_bytes by assumption.
      rewrite decode_whole_bytes in Hw by assumption. injection Hw as <-.
      rewrite slice_slice by lia. do 2 f_equal. lia.
  - unfold frame_data. fold (frame_samples i). fold (out_frame_size i).
    destruct (len w <? out_frame_size i * f + out_frame_size i) eqn:E; [lia|].
    unfold slice. do 3 f_equal; lia.
Qed.

Lemma one_bit_frame i f :
  bits i = 1 -> stored_ok i -> f < nframes i ->
  decode_frame i f = Ok (bits_from (data i) (f * frame_samples i) (N.to_nat (frame_samples i))).
Proof. intros. rewrite N.mul_comm. apply decode_frame_one_bit; assumption. Qed.

Lemma bytes_frame i f :
  bits i <> 1 -> stored_ok i -> f < nframes i ->
  decode_frame i f = Ok (slice (data i) (f * out_frame_size i) (out_frame_size i)).
Proof. intros. rewrite N.mul_comm. apply decode_frame_bytes; assumption. Qed.
