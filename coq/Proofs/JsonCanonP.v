(** On canonical data sets the normalisation of C23 is the identity. *)
From DicomV Require Import Model.Json Proofs.JsonBaseP Proofs.JsonP Proofs.StrP.
From Coq Require Import ZifyBool ZifyNat ZifyN.
Ltac Zify.zify_post_hook ::= Z.div_mod_to_equations.

Lemma last_is_cons f c r : r <> [] -> last_is f (c :: r) = last_is f r.
Proof. destruct r; [congruence | reflexivity]. Qed.

Lemma last_is_app f a c r : last_is f (a ++ c :: r) = match r with [] => f c | _ => last_is f r end.
Proof.
  induction a as [|x a IH]; cbn [List.app].
  - destruct r; reflexivity.
  - rewrite last_is_cons by (destruct a; discriminate). exact IH.
Qed.

Lemma trim_pad_id s : last_is is_pad s = false -> trim_pad s = s.
Proof.
  induction s as [|c r IH]; intros H; [reflexivity|].
  destruct r as [|c' r'].
  - cbn [last_is] in H. cbn [trim_pad]. rewrite H. reflexivity.
  - rewrite last_is_cons in H by discriminate.
    change (trim_pad (c :: c' :: r')) with (let r0 := trim_pad (c' :: r') in if is_pad c && is_nil r0 then [] else c :: r0).
    cbv zeta. rewrite (IH H). cbn [is_nil]. rewrite andb_false_r. reflexivity.
Qed.

Lemma split_first_spec c s :
  match split_first c s with
  | (a, None) => s = a
  | (a, Some r) => s = a ++ c :: r
  end.
Proof.
  induction s as [|x s IH]; cbn [split_first]; [reflexivity|].
  destruct (x =? c) eqn:E.
  - apply N.eqb_eq in E. subst. reflexivity.
  - destruct (split_first c s) as [a [r|]]; cbn [List.app]; congruence.
Qed.

Lemma pn_norm_id s : last_is (N.eqb 61) s = false -> pn_norm s = s.
Proof.
  intros H. unfold pn_norm, pn_groups.
  pose proof (split_first_spec 61 s) as S1. destruct (split_first 61 s) as [a [r|]]; [|cbn; congruence].
  subst s. rewrite last_is_app in H.
  destruct r as [|r0 rs]; [cbn in H; discriminate H|].
  pose proof (split_first_spec 61 (r0 :: rs)) as S2. destruct (split_first 61 (r0 :: rs)) as [i [p|]].
  - rewrite S2 in *. rewrite last_is_app in H.
    destruct p as [|p0 ps]; [cbn in H; discriminate H|].
    destruct i as [|i0 is]; cbn [nonempty pn_display]; rewrite <- ?app_assoc; reflexivity.
  - subst i. cbn [nonempty pn_display]. reflexivity.
Qed.

Lemma map_id_ext {A} (f : A -> A) l : (forall a, In a l -> f a = a) -> map f l = l.
Proof.
  induction l as [|a l IH]; intros H; [reflexivity|]. cbn [map].
  rewrite H by (left; reflexivity). rewrite IH by (intros; apply H; right; assumption). reflexivity.
Qed.

Lemma no_charb_no_char c s : no_charb c s = true -> no_char c s.
Proof.
  unfold no_charb, no_char. rewrite negb_true_iff. intros H Hin.
  assert (existsb (N.eqb c) s = true); [|congruence].
  apply existsb_exists. exists c. split; [exact Hin | apply N.eqb_refl].
Qed.

Section Canon.
Variable X : ext.

Lemma multi_str_canon l :
  l <> [] -> forallb canon_text l = true -> multi_str X (PStrs l) = l.
Proof.
  intros Hl Hc. cbn [multi_str].
  assert (E : map trim_pad l = l).
  { apply map_id_ext. intros s Hin. pose proof (forallb_In _ _ _ Hc Hin) as Hs. unfold canon_text in Hs.
    apply andb_true_iff in Hs. destruct Hs as [Hs _]. apply negb_true_iff in Hs. apply trim_pad_id. exact Hs. }
  rewrite E. apply split_on_join; [exact Hl|].
  apply Forall_forall. intros s Hin. pose proof (forallb_In _ _ _ Hc Hin) as Hs. unfold canon_text in Hs.
  apply andb_true_iff in Hs. destruct Hs as [_ Hs]. apply no_charb_no_char. exact Hs.
Qed.

Lemma is_nil_false {A} (l : list A) : negb (is_nil l) = true -> exists n, length l = S n /\ l <> [].
Proof. destruct l; [discriminate|]. intros _. eexists. split; [reflexivity | discriminate]. Qed.

Lemma norm_prim_canon vr p : canon_prim vr p = true -> norm_prim X vr p = VPrim p.
Proof.
  unfold canon_prim, norm_prim. destruct p.
  - (* PEmpty *) cbn [multiplicity]. intros H. apply negb_true_iff in H. rewrite H. reflexivity.
  - (* PStrs *)
    destruct (vr_class vr) eqn:C; try discriminate; intros H.
    + apply andb_true_iff in H. destruct H as [Hn Hc]. destruct (is_nil_false _ Hn) as (n & Hlen & Hne).
      cbn [multiplicity]. rewrite Hlen. rewrite multi_str_canon by assumption. reflexivity.
    + apply andb_true_iff in H. destruct H as [Hn Hc]. destruct (is_nil_false _ Hn) as (n & Hlen & Hne).
      cbn [multiplicity]. rewrite Hlen.
      assert (Ht : forallb canon_text l = true).
      { apply forallb_forall. intros s Hin. pose proof (forallb_In _ _ _ Hc Hin) as Hs. unfold canon_name in Hs.
        apply andb_true_iff in Hs. tauto. }
      rewrite multi_str_canon by assumption. f_equal. f_equal. apply map_id_ext. intros s Hin.
      pose proof (forallb_In _ _ _ Hc Hin) as Hs. unfold canon_name in Hs. apply andb_true_iff in Hs.
      destruct Hs as [_ Hs]. apply negb_true_iff in Hs. apply pn_norm_id. exact Hs.
    + destruct vr; try discriminate C; try discriminate H;
        destruct (is_nil_false _ H) as (n & Hlen & Hne); cbn [multiplicity]; rewrite Hlen; reflexivity.
  - (* PStr *) destruct (vr_class vr); try discriminate. destruct vr; discriminate.
  - (* PTags *) destruct (vr_class vr) eqn:C; try discriminate; [|destruct vr; discriminate].
    intros H. destruct (is_nil_false _ H) as (n & Hlen & Hne). cbn [multiplicity]. rewrite Hlen. reflexivity.
  - (* PInt *)
    destruct (vr_class vr) eqn:C; try discriminate; intros H.
    + (* numbers *)
      destruct vr; try discriminate C; cbn [vr_ikind] in *; try discriminate H;
        apply andb_true_iff in H; destruct H as [Hn Hk]; destruct (is_nil_false _ Hn) as (n & Hlen & Hne);
        cbn [multiplicity]; rewrite Hlen; destruct k; try discriminate Hk; reflexivity.
    + (* binary *)
      destruct k; try discriminate H. apply andb_true_iff in H. destruct H as [Hn Hr].
      destruct (is_nil_false _ Hn) as (n & Hlen & Hne). cbn [multiplicity]. rewrite Hlen.
      assert (E : to_bytes (PInt KU8 l) = map Z.to_N l).
      { cbn [to_bytes]. clear Hn Hlen Hne. induction l as [|z l IH]; [reflexivity|].
        cbn [forallb] in Hr. apply andb_true_iff in Hr. destruct Hr as [Hz Hr].
        cbn [flat_map map]. rewrite (IH Hr). unfold int_bytes. cbn [ikind_size le_bytes List.app].
        unfold in_kind in Hz. cbn [ikind_lo ikind_hi] in Hz. f_equal. lia. }
      rewrite E. destruct l as [|z l]; [congruence|]. cbn [map]. f_equal. f_equal.
      change (Z.of_N (Z.to_N z) :: map Z.of_N (map Z.to_N l)) with (map Z.of_N (map Z.to_N (z :: l))).
      rewrite map_map. apply map_id_ext. intros y Hin. pose proof (forallb_In _ _ _ Hr Hin) as Hy.
      unfold in_kind in Hy. cbn [ikind_lo ikind_hi] in Hy. lia.
  - (* PF32 *)
    destruct (vr_class vr) eqn:C; try discriminate. destruct vr; try discriminate C; try discriminate.
    intros H. apply andb_true_iff in H. destruct H as [Hn Hc]. destruct (is_nil_false _ Hn) as (n & Hlen & Hne).
    cbn [multiplicity]. rewrite Hlen. f_equal. f_equal. apply map_id_ext. intros b Hin.
    pose proof (forallb_In _ _ _ Hc Hin) as Hb. cbv beta in Hb. unfold f32_canon.
    destruct (f32_is_nan b); [|reflexivity]. cbn [negb orb] in Hb. symmetry. apply N.eqb_eq. exact Hb.
  - (* PF64 *)
    destruct (vr_class vr) eqn:C; try discriminate. destruct vr; try discriminate C; try discriminate.
    intros H. apply andb_true_iff in H. destruct H as [Hn Hc]. destruct (is_nil_false _ Hn) as (n & Hlen & Hne).
    cbn [multiplicity]. rewrite Hlen. f_equal. f_equal. apply map_id_ext. intros b Hin.
    pose proof (forallb_In _ _ _ Hc Hin) as Hb. cbv beta in Hb. unfold f64_canon.
    destruct (f64_is_nan b); [|reflexivity]. cbn [negb orb] in Hb. symmetry. apply N.eqb_eq. exact Hb.
  - (* PTemporal *) destruct (vr_class vr); try discriminate. destruct vr; discriminate.
Qed.

Lemma norm_canon_all :
  (forall v vr, canon_value vr v = true -> norm_value X vr v = v) /\
  (forall it, canon_items it = true -> norm_items X it = it) /\
  (forall d, canon_dset d = true -> norm_dset X d = d).
Proof.
  apply dset_mutind.
  - intros p vr H. rewrite norm_value_eq. apply norm_prim_canon. exact H.
  - intros it IH vr H. rewrite norm_value_eq. f_equal. apply IH. exact H.
  - intros vr _. reflexivity.
  - reflexivity.
  - intros d IHd tl IHt H. change (canon_items (ICons d tl)) with (canon_dset d && canon_items tl) in H.
    apply andb_true_iff in H. destruct H as [Hd Ht]. rewrite norm_items_cons, IHd, IHt by assumption. reflexivity.
  - reflexivity.
  - intros t vr v IHv tl IHt H. change (canon_dset (DCons t vr v tl)) with (canon_value vr v && canon_dset tl) in H.
    apply andb_true_iff in H. destruct H as [Hv Ht]. rewrite norm_dset_cons, IHv, IHt by assumption. reflexivity.
Qed.

Theorem de_ser_exact d :
  wf_dset d = true -> canon_dset d = true -> exists j, ser X d = Ok j /\ de X j = Ok d.
Proof.
  intros W C. destruct (de_ser_roundtrip X d W) as (j & Hs & Hd). exists j. split; [exact Hs|].
  destruct norm_canon_all as (_ & _ & H). rewrite (H d C) in Hd. exact Hd.
Qed.
End Canon.
