(** Bridge from C13 (attribute operations, Model/Ops.v) to C01 (data set round trip,
    Model/Dataset.v + Writer.v + Reader.v, proved by the C01 owner).

    The two ASTs are related by [tr_*]: tags as numbers <-> (group, element); VRs as two-byte codes <->
    the 34-constructor type; numeric vectors by element type; recorded lengths (absent from Ops.v) are
    arbitrary, except that pixel sequences carry "undefined".  Date/DateTime/Time values, which Ops.v
    keeps only as text, have no translation.

    What C13 contributes: the STRUCTURE the round trip needs — tags ascending at every depth,
    sequences under VR SQ, pixel fragments as (7FE0,0010) OB — holds for every object reachable by any
    history from a well-formed, kind-consistent object ([wfo], [kind_ok] invariants).
    What remains a hypothesis ([values_ok], on the translated result): every primitive value fits its VR
    and the length field ([elem_ok], [rt_ok], [elem_writable] of C01), sequence tags are ordinary tags
    other than Pixel Data, offset-table entries and fragments fit 32 bits. *)
From Coq Require Import Sorting.Sorted.
From DicomV Require Import Base.Endian Model.Vr Model.Header Model.Prim Model.Dataset Model.Writer Model.Reader
  Proofs.HeaderP Proofs.WriterP Proofs.FlatP Proofs.RoundTripP Proofs.TotalP Proofs.NestedP Proofs.ReaderP
  Proofs.ReadStepsP Proofs.ReadTreeP Proofs.BuildTreeP Proofs.RoundTripTreeP.
From DicomV Require Model.Ops Proofs.OpsP.
From Coq Require Import ZifyBool ZifyNat ZifyN.
Ltac Zify.zify_post_hook ::= Z.div_mod_to_equations.
Open Scope N_scope.

Definition tag_of (t : N) : tag := (t / 65536, t mod 65536).
Definition vr_code (v : vr) : N := fst (vr_chars v) * 256 + snd (vr_chars v).

Inductive tr_prim : Ops.prim -> prim -> Prop :=
| TpEmpty : tr_prim Ops.PEmpty PEmpty
| TpStr s : tr_prim (Ops.PStr s) (PStr s)
| TpStrs l : tr_prim (Ops.PStrs l) (PStrs l)
| TpU8 l : tr_prim (Ops.PNum 0 l) (PU8 l)
| TpI16 l : tr_prim (Ops.PNum 1 l) (PI16 l)
| TpU16 l : tr_prim (Ops.PNum 2 l) (PU16 l)
| TpI32 l : tr_prim (Ops.PNum 3 l) (PI32 l)
| TpU32 l : tr_prim (Ops.PNum 4 l) (PU32 l)
| TpI64 l : tr_prim (Ops.PNum 5 l) (PI64 l)
| TpU64 l : tr_prim (Ops.PNum 6 l) (PU64 l)
| TpF32 l : tr_prim (Ops.PNum 7 l) (PF32 l)
| TpF64 l : tr_prim (Ops.PNum 8 l) (PF64 l)
| TpTags l : tr_prim (Ops.PTags l) (PTags (map tag_of l)).

Inductive tr_val : N -> N -> Ops.value -> elem -> Prop :=
| TrPrim t c p v hl p' : vr_code v = c -> tr_prim p p' -> tr_val t c (Ops.VPrim p) (EPrim (tag_of t) v hl p')
| TrSeq t c items v hl its :
    vr_code v = c ->
    Forall2 (fun (it : Ops.obj) (it' : item) =>
               Forall2 (fun (e : Ops.elem) (e' : elem) => tr_val (fst (fst e)) (snd (fst e)) (snd e) e') it (snd it'))
            items its ->
    tr_val t c (Ops.VSeq items) (ESeq (tag_of t) v hl its)
| TrPix t c bot frags v : vr_code v = c -> tr_val t c (Ops.VPix bot frags) (EPix (tag_of t) v undef bot frags).

Definition tr_elem (e : Ops.elem) (e' : elem) : Prop := tr_val (Ops.e_tag e) (Ops.e_vr e) (Ops.e_val e) e'.
Definition tr_obj (o : Ops.obj) (es : list elem) : Prop := Forall2 tr_elem o es.

(** The part of C01's hypotheses that is about VALUES (not guaranteed by attribute operations). *)
Inductive values_ok (c : codec) (d : dict_t) : elem -> Prop :=
| VoPrim t v l p :
    elem_ok c (fun _ => false) (EPrim t v l p) -> rt_ok c d (EPrim t v l p) -> elem_writable c (EPrim t v l p) ->
    values_ok c d (EPrim t v l p)
| VoSeq t v l its :
    wf_tag t -> fst t <> 65534 -> t <> pixel_tag ->
    Forall (fun it : item => Forall (values_ok c d) (snd it)) its ->
    values_ok c d (ESeq t v l its)
| VoPix t v l ot frags :
    Forall (fun x => x < 4294967296) ot -> nlen ot < 1073741824 ->
    Forall (fun f : bytes => blen f < 4294967294) frags ->
    values_ok c d (EPix t v l ot frags).

(** * Structure *)
Lemma vr_code_sq v : vr_code v = Ops.VR_SQ -> v = SQ.
Proof. destruct v; vm_compute; intros H; try discriminate; reflexivity. Qed.
Lemma vr_code_ob v : vr_code v = Ops.VR_OB -> v = OB.
Proof. destruct v; vm_compute; intros H; try discriminate; reflexivity. Qed.
Lemma tag_of_pixel : tag_of Ops.T_PIXEL_DATA = pixel_tag.
Proof. reflexivity. Qed.

Lemma tag_of_lt a b : a < b -> tag_lt (tag_of a) (tag_of b).
Proof. intros H. unfold tag_lt, tag_ltb, tag_of. cbn [fst snd]. lia. Qed.

Lemma tr_elem_tag e e' : tr_elem e e' -> elem_tag e' = tag_of (Ops.e_tag e).
Proof. unfold tr_elem. intros H. inversion H; reflexivity. Qed.

(* tag order carries over *)
Lemma sorted_tr o : forall es, OpsP.sortedb o = true -> Forall2 tr_elem o es -> StronglySorted tag_lt (map elem_tag es).
Proof.
  induction o as [|e o IH]; intros es Hs Ht; inversion Ht as [|? e' ? es' He Hes]; subst; cbn [map]; [constructor|].
  cbn [OpsP.sortedb] in Hs. apply andb_true_iff in Hs. destruct Hs as [Hl Hs].
  constructor; [apply IH; assumption|].
  rewrite (tr_elem_tag _ _ He). clear IH Ht He Hs.
  revert es' Hes. induction o as [|x o IHo]; intros l2 Hl2; inversion Hl2 as [|? x' ? l3 Hx Hxs]; subst; cbn [map]; constructor.
  - rewrite (tr_elem_tag _ _ Hx). apply tag_of_lt. unfold OpsP.lb in Hl. cbn [forallb] in Hl. apply andb_true_iff in Hl. lia.
  - apply IHo; [|exact Hxs]. unfold OpsP.lb in *. cbn [forallb] in Hl. apply andb_true_iff in Hl. tauto.
Qed.

(* every element: structure from C13's invariants + values from the hypothesis = C01's predicates *)
Definition rw_P (c : codec) (d : dict_t) (v : Ops.value) : Prop :=
  forall t vc e, tr_val t vc v e -> Ops.value_kind_ok t vc v = true -> OpsP.wfv v = true -> values_ok c d e ->
  readable c d e /\ writable c e.

Lemma tr_list c d (it : Ops.obj) : forall es,
  Forall (fun e : Ops.elem => rw_P c d (snd e)) it ->
  forallb OpsP.ekind it = true -> forallb (fun e : Ops.elem => OpsP.wfv (Ops.e_val e)) it = true ->
  Forall2 (fun (e : Ops.elem) (e' : elem) => tr_val (fst (fst e)) (snd (fst e)) (snd e) e') it es ->
  Forall (values_ok c d) es -> Forall (readable c d) es /\ Forall (writable c) es.
Proof.
  induction it as [|x it IH]; intros es HP Hk Hw Ht Hv; inversion Ht as [|? x' ? es' Hx Hxs]; subst; [split; constructor|].
  inversion HP as [|? ? Px Pit]; subst. inversion Hv as [|? ? Vx Vit]; subst.
  cbn [forallb] in Hk, Hw. apply andb_true_iff in Hk. apply andb_true_iff in Hw. destruct Hk as [Kx Kit], Hw as [Wx Wit].
  destruct (IH es' Pit Kit Wit Hxs Vit) as [R W].
  destruct x as [[tx vx] valx]. destruct (Px tx vx x' Hx Kx Wx Vx) as [Rx Wrx].
  split; constructor; assumption.
Qed.

Lemma tr_readable_writable c d v : rw_P c d v.
Proof.
  induction v as [p|items IH|bot frags] using OpsP.value_ind'; intros t vc e Ht Hk Hw Hv.
  - inversion Ht; subst. inversion Hv; subst. split; [constructor; assumption|constructor; assumption].
  - inversion Ht as [|? ? ? v' hl its Hc Hits|]; subst. inversion Hv as [|? ? ? ? Hwt Hg Hp Hvi|]; subst.
    rewrite OpsP.kind_seq in Hk. apply andb_true_iff in Hk. destruct Hk as [Hvr Hki].
    assert (v' = SQ) by (apply vr_code_sq; lia). subst v'.
    rewrite OpsP.wfv_seq in Hw.
    assert (A : Forall (fun it : item => (Forall (readable c d) (snd it) /\ StronglySorted tag_lt (map elem_tag (snd it)))
                                         /\ Forall (writable c) (snd it)) its).
    { clear Ht Hv Hwt Hg Hp Hvr. revert its Hits Hvi.
      induction items as [|it items IHi]; intros its Hits Hvi; inversion Hits as [|? it' ? its' Hit Hrest]; subst; [constructor|].
      inversion IH as [|? ? IHit IHrest]; subst. inversion Hvi as [|? ? Hvit Hvrest]; subst.
      cbn [forallb] in Hki, Hw. apply andb_true_iff in Hki. apply andb_true_iff in Hw.
      destruct Hki as [Hkit Hkrest], Hw as [Hwit Hwrest].
      constructor; [|apply IHi; assumption].
      unfold OpsP.wfo in Hwit. apply andb_true_iff in Hwit. destruct Hwit as [Hsort Hwf].
      rewrite OpsP.kind_ok_unfold in Hkit.
      destruct (tr_list c d it (snd it') IHit Hkit Hwf Hit Hvit) as [R W].
      split; [split; [exact R|apply (sorted_tr it); [exact Hsort|exact Hit]]|exact W]. }
    split.
    + constructor; try assumption. eapply Forall_impl; [|exact A]. intros it' H. exact (proj1 H).
    + constructor. eapply Forall_impl; [|exact A]. intros it' H. exact (proj2 H).
  - inversion Ht; subst. inversion Hv; subst.
    cbn [Ops.value_kind_ok] in Hk. apply andb_true_iff in Hk. destruct Hk as [Hvr Htag].
    assert (v = OB) by (apply vr_code_ob; lia). subst v.
    assert (t = Ops.T_PIXEL_DATA) by lia. subst t. rewrite tag_of_pixel.
    split; constructor; assumption.
Qed.

Lemma tr_obj_ok c d o es :
  OpsP.wfo o = true -> Ops.kind_ok o = true -> tr_obj o es -> Forall (values_ok c d) es ->
  Forall (readable c d) es /\ Forall (writable c) es /\ StronglySorted tag_lt (map elem_tag es).
Proof.
  intros Hw Hk Ht Hv. unfold OpsP.wfo in Hw. apply andb_true_iff in Hw. destruct Hw as [Hs Hw].
  rewrite OpsP.kind_ok_unfold in Hk.
  destruct (tr_list c d o es) as [R W]; try assumption.
  - apply Forall_forall. intros e _. apply tr_readable_writable.
  - split; [exact R|]. split; [exact W|]. apply (sorted_tr o); assumption.
Qed.

(** * The corollary: objects reachable by attribute operations are written and read back *)
Lemma ops_readback dict ops o c d es :
  OpsP.wfo o = true -> Ops.kind_ok o = true ->
  tr_obj (Ops.apply_all dict ops o) es -> delim_ok c d -> Forall (values_ok c d) es ->
  exists b, write_dataset c false false es = Ok b /\ read_dataset c d b = Ok (map (norm_tree c d) es).
Proof.
  intros Hw Hk Ht Hd Hv.
  pose proof (OpsP.wfo_apply_all dict ops o Hw) as Hw'.
  pose proof (OpsP.kind_apply_all dict ops o Hk) as Hk'.
  destruct (tr_obj_ok c d _ es Hw' Hk' Ht Hv) as (R & W & S).
  assert (Rg : Forall regular es) by (eapply Forall_impl; [apply (readable_regular c d) | exact R]).
  destruct (write_tree_total c es W Rg) as [b E]. exists b. split; [exact E | exact (roundtrip_tree c d es b Hd R S E)].
Qed.

(** * Non-vacuity: a reachable object with a nested sequence meets every hypothesis (Explicit VR LE) *)
Definition ex_dict (t : N) : option N := if t =? 528704 then Some Ops.VR_SQ else if t =? 1048592 then Some 20558 else None.
Definition ex_ops : list Ops.op := [([(528704, 0)], 1048592, Ops.ASet (Ops.PStr [65; 94; 66]))].
Definition ex_es : list elem := [ESeq (8, 4416) SQ 0 [(0, [EPrim (16, 16) PN 0 (PStr [65; 94; 66])])]].

Lemma ex_reachable : tr_obj (Ops.apply_all ex_dict ex_ops []) ex_es.
Proof.
  assert (E : Ops.apply_all ex_dict ex_ops [] = [(528704, Ops.VR_SQ, Ops.VSeq [[(1048592, 20558, Ops.VPrim (Ops.PStr [65; 94; 66]))]])])
    by (vm_compute; reflexivity).
  rewrite E. unfold tr_obj, ex_es. constructor; [|constructor].
  unfold tr_elem. cbn [Ops.e_tag Ops.e_vr Ops.e_val fst snd].
  apply (TrSeq 528704 Ops.VR_SQ _ SQ 0 [(0, [EPrim (16, 16) PN 0 (PStr [65; 94; 66])])]); [reflexivity|].
  constructor; [|constructor]. cbn [snd]. constructor; [|constructor]. cbn [fst snd].
  apply (TrPrim 1048592 20558 _ PN 0); [reflexivity|constructor].
Qed.

Lemma ex_values_ok : Forall (values_ok ELE (fun _ => None)) ex_es.
Proof.
  unfold ex_es. constructor; [|constructor].
  apply VoSeq; try (unfold wf_tag; cbn; lia); try discriminate.
  constructor; [|constructor]. cbn [snd]. constructor; [|constructor].
  apply VoPrim.
  - unfold elem_ok, plain, wf_tag. cbn. repeat split; try reflexivity; try lia; try discriminate; intros; discriminate.
  - unfold rt_ok. cbn. split; [discriminate | reflexivity].
  - unfold elem_writable, plain. cbn. repeat split; try reflexivity; try lia; try discriminate; try (repeat constructor; lia).
Qed.

Lemma ex_readback :
  exists b, write_dataset ELE false false ex_es = Ok b /\ read_dataset ELE (fun _ => None) b = Ok (map (norm_tree ELE (fun _ => None)) ex_es).
Proof.
  apply (ops_readback ex_dict ex_ops [] ELE (fun _ => None) ex_es); try reflexivity; [exact ex_reachable|exact ex_values_ok].
Qed.
