(** Lemmas about the DICOM JSON model (Model/Json.v): per-VR round trips,
    the round trip of data sets of any depth, totality of the deserialiser. *)
From DicomV Require Import Model.Json Proofs.JsonBaseP Proofs.StrP.
From Coq Require Import ZifyBool ZifyNat ZifyN.
Ltac Zify.zify_post_hook ::= Z.div_mod_to_equations.

(** * small facts *)
Lemma vr_of_name_name vr : vr_of_name (vr_name vr) = vr.
Proof. destruct vr; reflexivity. Qed.

Lemma vr_eqb_eq a b : vr_eqb a b = true <-> a = b.
Proof. split; [|intros ->; destruct b; reflexivity]. destruct a, b; vm_compute; congruence. Qed.

Lemma jlist_list_of l : jlist_list (jarr_of l) = l.
Proof. induction l as [|j l IH]; cbn; [|rewrite IH]; reflexivity. Qed.

Lemma jarr_list_jarr l : jarr_list (jarr l) = Ok l.
Proof. unfold jarr_list, jarr. rewrite jlist_list_of. reflexivity. Qed.

Lemma mapM_map {A B C} (f : B -> outcome C) (g : A -> B) (h : A -> C) l :
  (forall a, In a l -> f (g a) = Ok (h a)) -> mapM f (map g l) = Ok (map h l).
Proof.
  induction l as [|a l IH]; intros H; [reflexivity|].
  cbn [map mapM]. rewrite H by (left; reflexivity). cbn [bind].
  rewrite IH by (intros; apply H; right; assumption). reflexivity.
Qed.

Lemma forallb_In {A} (f : A -> bool) l a : forallb f l = true -> In a l -> f a = true.
Proof. intros H Hin. rewrite forallb_forall in H. auto. Qed.

(** * the key loop of an element object written by the serialiser *)
Section Elem.
Variable X : ext.

(** unfolding equations of the mutual fixpoints (by conversion), so that proofs
    never expose the anonymous [fix] *)
Lemma de_elem_members_nil st : de_elem_members X MNil st = de_finish X st.
Proof. reflexivity. Qed.
Lemma de_elem_members_cons k j tl st :
  de_elem_members X (MCons k j tl) st =
      if str_eqb k k_vr then
        if is_some (e_vr st) then Err E_VR_TWICE
        else match j with
             | JStr s => de_elem_members X tl {| e_vr := Some (vr_of_name s); e_val := e_val st;
                                               e_inl := e_inl st; e_bulk := e_bulk st |}
             | _ => Err E_TYPE
             end
      else if str_eqb k k_Value then
        if is_some (e_inl st) then Err E_CONFLICT
        else if e_bulk st then Err E_CONFLICT
        else de_elem_members X tl {| e_vr := e_vr st; e_val := Some (j, fun _ : unit => de_items_json X j);
                                   e_inl := e_inl st; e_bulk := e_bulk st |}
      else if str_eqb k k_InlineBinary then
        if is_some (e_val st) then Err E_CONFLICT
        else if e_bulk st then Err E_CONFLICT
        else match j with
             | JStr s => de_elem_members X tl {| e_vr := e_vr st; e_val := e_val st;
                                               e_inl := Some s; e_bulk := e_bulk st |}
             | _ => Err E_TYPE
             end
      else if str_eqb k k_BulkDataURI then
        if is_some (e_val st) then Err E_CONFLICT
        else if is_some (e_inl st) then Err E_CONFLICT
        else match j with
             | JStr _ => de_elem_members X tl {| e_vr := e_vr st; e_val := e_val st;
                                               e_inl := e_inl st; e_bulk := true |}
             | _ => Err E_TYPE
             end
      else Err E_FIELD.
Proof. reflexivity. Qed.
Lemma de_ds_json_eq j : de_ds_json X j = match j with JObj m => de_ds_members X m DNil | _ => Err E_TYPE end.
Proof. destruct j; reflexivity. Qed.
Lemma de_elem_json_eq j : de_elem_json X j = match j with JObj m => de_elem_members X m est0 | _ => Err E_TYPE end.
Proof. destruct j; reflexivity. Qed.
Lemma de_items_json_eq j : de_items_json X j = match j with JArr l => de_items X l | _ => Err E_TYPE end.
Proof. destruct j; reflexivity. Qed.
Lemma de_items_nil : de_items X JNil = Ok INil.
Proof. reflexivity. Qed.
Lemma de_items_cons j tl : de_items X (JCons j tl) = (d <- de_ds_json X j ;; r <- de_items X tl ;; Ok (ICons d r)).
Proof. reflexivity. Qed.
Lemma de_ds_members_nil acc : de_ds_members X MNil acc = Ok acc.
Proof. reflexivity. Qed.
Lemma de_ds_members_cons k j tl acc :
  de_ds_members X (MCons k j tl) acc =
    (t <- of_opt (tag_from_str k) E_TYPE ;;
     e <- de_elem_json X j ;;
     let '(vr, v, bulk) := e in
     de_ds_members X tl (if (bulk : bool) then acc else dset_put t vr v acc)).
Proof. reflexivity. Qed.

Lemma de_elem_no_value vr :
  de_elem_members X (MCons k_vr (JStr (vr_name vr)) MNil) est0
  = Ok (vr, (if vr_eqb vr V_SQ then VSeq INil else VPrim PEmpty), false).
Proof.
  rewrite de_elem_members_cons. change (str_eqb k_vr k_vr) with true. cbv iota.
  cbn [est0 e_vr is_some]. rewrite de_elem_members_nil, vr_of_name_name. unfold de_finish. cbn [e_vr e_val e_inl e_bulk bind].
  reflexivity.
Qed.

Lemma de_elem_value vr l v :
  de_value X vr (jarr l) (fun _ => de_items_json X (jarr l)) = Ok v ->
  de_elem_members X (MCons k_vr (JStr (vr_name vr)) (member_value l)) est0 = Ok (vr, v, false).
Proof.
  intros H. unfold member_value. rewrite de_elem_members_cons.
  change (str_eqb k_vr k_vr) with true. cbv iota. cbn [est0 e_vr e_val e_inl e_bulk is_some].
  rewrite de_elem_members_cons.
  change (str_eqb k_Value k_vr) with false. change (str_eqb k_Value k_Value) with true. cbv iota.
  cbn [e_vr e_val e_inl e_bulk is_some]. rewrite de_elem_members_nil, vr_of_name_name. unfold de_finish. cbn [e_vr e_val e_inl e_bulk].
  rewrite H. reflexivity.
Qed.

Lemma de_elem_inline vr b :
  wf_bytes b ->
  de_elem_members X (MCons k_vr (JStr (vr_name vr)) (MCons k_InlineBinary (JStr (b64enc b)) MNil)) est0
  = Ok (vr, VPrim (PInt KU8 (map Z.of_N b)), false).
Proof.
  intros H. rewrite de_elem_members_cons.
  change (str_eqb k_vr k_vr) with true. cbv iota. cbn [est0 e_vr e_val e_inl e_bulk is_some].
  rewrite de_elem_members_cons.
  change (str_eqb k_InlineBinary k_vr) with false. change (str_eqb k_InlineBinary k_Value) with false.
  change (str_eqb k_InlineBinary k_InlineBinary) with true. cbv iota.
  cbn [e_vr e_val e_inl e_bulk is_some]. rewrite de_elem_members_nil, vr_of_name_name. unfold de_finish. cbn [e_vr e_val e_inl e_bulk bind].
  rewrite (b64dec_enc b H). reflexivity.
Qed.

(** * per-VR decoding of what the serialiser writes *)
Lemma de_value_vec {A} (f : json -> outcome A) (mk : list A -> prim) l xs :
  mapM f l = Ok xs ->
  (l0 <- jarr_list (jarr l) ;; ys <- mapM f l0 ;; Ok (VPrim (mk ys))) = Ok (VPrim (mk xs)).
Proof. intros H. rewrite jarr_list_jarr. cbn [bind]. rewrite H. reflexivity. Qed.

Lemma de_value_str vr ss th :
  vr_class vr = CStr -> de_value X vr (jarr (map JStr ss)) th = Ok (VPrim (PStrs ss)).
Proof.
  intros C. assert (M : mapM de_opt_string (map JStr ss) = Ok (map (fun s => s) ss)) by (apply mapM_map; reflexivity).
  rewrite map_id in M.
  destruct vr; try discriminate C; unfold de_value; apply de_value_vec; exact M.
Qed.

Lemma de_person_pn_json s : de_person (pn_json s) = Ok (pn_norm s).
Proof.
  unfold pn_norm, pn_json. destruct (pn_groups s) as [[a i] p].
  destruct i as [i|], p as [p|]; reflexivity.
Qed.

Lemma de_value_pn ss th :
  de_value X V_PN (jarr (map pn_json ss)) th = Ok (VPrim (PStrs (map pn_norm ss))).
Proof. unfold de_value. apply de_value_vec. apply mapM_map. intros; apply de_person_pn_json. Qed.

Lemma de_value_at l th :
  forallb (fun t => t <? 2 ^ 32) l = true ->
  de_value X V_AT (jarr (map (fun t => JStr (hex8 t)) l)) th = Ok (VPrim (PTags l)).
Proof.
  intros H. unfold de_value. apply de_value_vec.
  rewrite <- (map_id l) at 2. apply mapM_map. intros t Hin.
  unfold de_tag. rewrite tag_from_str_hex8; [reflexivity|].
  pose proof (forallb_In _ _ _ H Hin) as Ht. cbv beta in Ht. lia.
Qed.

(* integers *)
Lemma int_json_fits k z : fits_i32 z = true -> int_json k z = JInt z.
Proof. intros H. unfold int_json. rewrite H. destruct k; reflexivity. Qed.

Lemma de_int_int_json kv k z :
  in_kind kv z = true -> (ikind_hi kv <= 2147483647)%Z -> de_int kv (int_json k z) = Ok z.
Proof.
  intros H Hs. rewrite int_json_fits.
  - unfold de_int. rewrite H. reflexivity.
  - unfold in_kind, fits_i32 in *. destruct kv; cbn [ikind_lo ikind_hi] in *; lia.
Qed.

Lemma de_int_or_text_int_json kv k z :
  in_kind kv z = true -> de_int_or_text kv (int_json k z) = Ok z.
Proof.
  intros H. unfold int_json.
  assert (T : de_int_or_text kv (JStr (dec_Z z)) = Ok z).
  { unfold de_int_or_text. rewrite parse_int_dec_Z; [reflexivity| |].
    - unfold in_kind in H. lia.
    - unfold in_kind in H. destruct kv; cbn [ikind_lo ikind_signed] in *; intros; try reflexivity; lia. }
  assert (I : de_int_or_text kv (JInt z) = Ok z) by (unfold de_int_or_text; rewrite H; reflexivity).
  destruct k; try exact I; destruct (fits_i32 z); assumption.
Qed.

(* floats *)
Lemma f32_inf_bits b : b < 2 ^ 32 -> f32_exp b = 255 -> f32_man b = 0 ->
  b = if f32_neg b then f32_ninf else f32_inf.
Proof.
  intros Hb He Hm. destruct (f32_fields b Hb) as (E & _ & _). rewrite He, Hm in E.
  destruct (f32_neg b); rewrite E; reflexivity.
Qed.

Lemma de_f32_f32_json b : b < 2 ^ 32 -> de_f32 X (f32_json b) = Ok (f32_canon b).
Proof.
  intros Hb. unfold f32_json, f32_canon. destruct (f32_finite b) eqn:F.
  - unfold de_f32. rewrite narrow_widen by assumption.
    unfold f32_is_nan. unfold f32_finite in F. apply negb_true_iff in F. rewrite F. reflexivity.
  - unfold f32_finite in F. apply negb_false_iff, N.eqb_eq in F.
    destruct (f32_is_nan b) eqn:Nn; [reflexivity|].
    unfold f32_is_nan in Nn. rewrite F in Nn. change (255 =? 255) with true in Nn. cbn [andb] in Nn.
    apply negb_false_iff, N.eqb_eq in Nn.
    pose proof (f32_inf_bits b Hb F Nn) as E.
    destruct (f32_neg b); rewrite E; reflexivity.
Qed.

Lemma f64_fields b : b < 2 ^ 64 ->
  b = (if f64_neg b then 2 ^ 63 else 0) + f64_exp b * 2 ^ 52 + f64_man b.
Proof.
  intros H. unfold f64_neg, f64_exp, f64_man.
  change (2 ^ 64) with 18446744073709551616 in H. change (2 ^ 63) with 9223372036854775808.
  change (2 ^ 52) with 4503599627370496.
  destruct (9223372036854775808 <=? b) eqn:E; lia.
Qed.

Lemma de_f64_f64_json b : b < 2 ^ 64 -> de_f64 X (f64_json b) = Ok (f64_canon b).
Proof.
  intros Hb. unfold f64_json, f64_canon. destruct (f64_finite b) eqn:F.
  - unfold de_f64. unfold f64_is_nan. unfold f64_finite in F. apply negb_true_iff in F. rewrite F. reflexivity.
  - unfold f64_finite in F. apply negb_false_iff, N.eqb_eq in F.
    destruct (f64_is_nan b) eqn:Nn; [reflexivity|].
    unfold f64_is_nan in Nn. rewrite F in Nn. change (2047 =? 2047) with true in Nn. cbn [andb] in Nn.
    apply negb_false_iff, N.eqb_eq in Nn.
    pose proof (f64_fields b Hb) as E. rewrite F, Nn in E.
    destruct (f64_neg b); rewrite E; reflexivity.
Qed.

(* DS / IS *)
Lemma de_num_text_int k z : de_num_text X (int_json k z) = Ok (int_num_text X k z).
Proof. unfold int_num_text, int_json. destruct k; try reflexivity; destruct (fits_i32 z); reflexivity. Qed.

Lemma de_num_text_f32 b : de_num_text X (f32_json b) = Ok (f32_num_text X b).
Proof. unfold f32_json, f32_num_text. destruct (f32_finite b), (f32_is_nan b), (f32_neg b); reflexivity. Qed.
Lemma de_num_text_f64 b : de_num_text X (f64_json b) = Ok (f64_num_text X b).
Proof. unfold f64_json, f64_num_text. destruct (f64_finite b), (f64_is_nan b), (f64_neg b); reflexivity. Qed.

(* binary *)
Lemma utf8_char_wf c : wf_bytes (utf8_char c).
Proof. unfold utf8_char, wf_bytes. split_ifs; repeat constructor; lia. Qed.
Lemma flat_map_wf {A} (f : A -> bytes) l : (forall a, wf_bytes (f a)) -> wf_bytes (flat_map f l).
Proof.
  intros H. induction l as [|a l IH]; [constructor|]. cbn [flat_map]. apply Forall_app. split; [apply H | exact IH].
Qed.
Lemma utf8_wf s : wf_bytes (utf8 s).
Proof. apply flat_map_wf, utf8_char_wf. Qed.
Lemma to_bytes_wf p : wf_bytes (to_bytes p).
Proof.
  destruct p; cbn [to_bytes]; try apply utf8_wf; try (apply flat_map_wf; intros; apply le_bytes_wf).
  constructor.
Qed.

(** * round trip of one primitive value *)
Lemma multi_str_nonempty p n : multiplicity p = S n -> multi_str X p <> [].
Proof.
  destruct p; cbn [multiplicity multi_str]; try discriminate; intros H;
    try (destruct l; [discriminate H | cbn [map]; discriminate]).
  - apply split_on_nonempty.
Qed.

Theorem rt_prim vr p :
  wf_prim vr p = true ->
  exists m, ser_prim X vr p = Ok m /\
            de_elem_members X (MCons k_vr (JStr (vr_name vr)) m) est0 = Ok (vr, norm_prim X vr p, false).
Proof.
  unfold wf_prim, ser_prim, norm_prim. destruct (multiplicity p) as [|n] eqn:Hm.
  { intros _. exists MNil. split; [reflexivity|]. apply de_elem_no_value. }
  destruct (vr_class vr) eqn:C; intros W.
  - (* strings *)
    eexists. split; [reflexivity|]. apply de_elem_value. rewrite (de_value_str _ _ _ C). reflexivity.
  - (* PN *)
    destruct vr; try discriminate C.
    eexists. split; [reflexivity|]. apply de_elem_value. rewrite de_value_pn. reflexivity.
  - (* AT *)
    destruct vr; try discriminate C. destruct p; try discriminate W.
    eexists. split; [reflexivity|]. apply de_elem_value. rewrite (de_value_at _ _ W). reflexivity.
  - (* numbers *)
    destruct vr; try discriminate C; cbn [vr_ikind] in *.
    + (* DS *)
      destruct p; try discriminate W; cbn [ser_numbers bind]; eexists; (split; [reflexivity|]); apply de_elem_value;
        unfold de_value; (erewrite de_value_vec; [reflexivity|]).
      * rewrite <- (map_id l) at 2. apply mapM_map. reflexivity.
      * reflexivity.
      * apply mapM_map. intros; apply de_num_text_int.
      * apply mapM_map. intros; apply de_num_text_f32.
      * apply mapM_map. intros; apply de_num_text_f64.
    + (* FL *)
      destruct p; try discriminate W. cbn [ser_numbers bind]. eexists. split; [reflexivity|]. apply de_elem_value.
      unfold de_value. erewrite de_value_vec; [reflexivity|]. apply mapM_map. intros b Hin.
      apply de_f32_f32_json. pose proof (forallb_In _ _ _ W Hin) as Hb. cbv beta in Hb. lia.
    + (* FD *)
      destruct p; try discriminate W. cbn [ser_numbers bind]. eexists. split; [reflexivity|]. apply de_elem_value.
      unfold de_value. erewrite de_value_vec; [reflexivity|]. apply mapM_map. intros b Hin.
      apply de_f64_f64_json. pose proof (forallb_In _ _ _ W Hin) as Hb. cbv beta in Hb. lia.
    + (* IS *)
      destruct p; try discriminate W; cbn [ser_numbers bind]; eexists; (split; [reflexivity|]); apply de_elem_value;
        unfold de_value; (erewrite de_value_vec; [reflexivity|]).
      * rewrite <- (map_id l) at 2. apply mapM_map. reflexivity.
      * reflexivity.
      * apply mapM_map. intros; apply de_num_text_int.
      * apply mapM_map. intros; apply de_num_text_f32.
      * apply mapM_map. intros; apply de_num_text_f64.
    + (* SL *)
      destruct p; try discriminate W. cbn [ser_numbers bind]. eexists. split; [reflexivity|]. apply de_elem_value.
      unfold de_value. erewrite de_value_vec; [reflexivity|]. rewrite <- (map_id l) at 2. apply mapM_map. intros z Hin.
      apply de_int_int_json; [exact (forallb_In _ _ _ W Hin) | cbn; lia].
    + (* SS *)
      destruct p; try discriminate W. cbn [ser_numbers bind]. eexists. split; [reflexivity|]. apply de_elem_value.
      unfold de_value. erewrite de_value_vec; [reflexivity|]. rewrite <- (map_id l) at 2. apply mapM_map. intros z Hin.
      apply de_int_int_json; [exact (forallb_In _ _ _ W Hin) | cbn; lia].
    + (* SV *)
      destruct p; try discriminate W. cbn [ser_numbers bind]. eexists. split; [reflexivity|]. apply de_elem_value.
      unfold de_value. erewrite de_value_vec; [reflexivity|]. rewrite <- (map_id l) at 2. apply mapM_map. intros z Hin.
      apply de_int_or_text_int_json. exact (forallb_In _ _ _ W Hin).
    + (* UL *)
      destruct p; try discriminate W. cbn [ser_numbers bind]. eexists. split; [reflexivity|]. apply de_elem_value.
      unfold de_value. erewrite de_value_vec; [reflexivity|]. rewrite <- (map_id l) at 2. apply mapM_map. intros z Hin.
      apply de_int_or_text_int_json. exact (forallb_In _ _ _ W Hin).
    + (* US *)
      destruct p; try discriminate W. cbn [ser_numbers bind]. eexists. split; [reflexivity|]. apply de_elem_value.
      unfold de_value. erewrite de_value_vec; [reflexivity|]. rewrite <- (map_id l) at 2. apply mapM_map. intros z Hin.
      apply de_int_int_json; [exact (forallb_In _ _ _ W Hin) | cbn; lia].
    + (* UV *)
      destruct p; try discriminate W. cbn [ser_numbers bind]. eexists. split; [reflexivity|]. apply de_elem_value.
      unfold de_value. erewrite de_value_vec; [reflexivity|]. rewrite <- (map_id l) at 2. apply mapM_map. intros z Hin.
      apply de_int_or_text_int_json. exact (forallb_In _ _ _ W Hin).
  - (* binary *)
    pose proof (to_bytes_wf p) as Hw. destruct (to_bytes p) as [|x b] eqn:Eb.
    + exists MNil. split; [reflexivity|]. rewrite de_elem_no_value.
      destruct vr; try discriminate C; reflexivity.
    + eexists. split; [reflexivity|]. apply de_elem_inline. exact Hw.
  - discriminate W.
Qed.
End Elem.

(** * data sets of any depth *)
Scheme value_mind := Induction for value Sort Prop
  with items_mind := Induction for items Sort Prop
  with dset_mind := Induction for dset Sort Prop.
Combined Scheme dset_mutind from value_mind, items_mind, dset_mind.

Fixpoint dset_app (a b : dset) : dset :=
  match a with DNil => b | DCons t vr v tl => DCons t vr v (dset_app tl b) end.
Fixpoint dset_all_le (d : dset) (t : N) : Prop :=
  match d with DNil => True | DCons u _ _ tl => u <= t /\ dset_all_le tl t end.
Definition acc_ok (lo : option N) (acc : dset) : Prop :=
  match lo with None => acc = DNil | Some l => dset_all_le acc l end.

Lemma dset_put_append t vr v acc l :
  dset_all_le acc l -> l < t -> dset_put t vr v acc = dset_app acc (DCons t vr v DNil).
Proof.
  induction acc as [|u wr w tl IH]; intros H Hl; [reflexivity|].
  cbn [dset_all_le] in H. destruct H as [Hu Ht]. cbn [dset_put dset_app].
  replace (t <? u) with false by lia. replace (t =? u) with false by lia. rewrite IH by assumption. reflexivity.
Qed.

Lemma dset_all_le_app acc t vr v : dset_all_le acc t -> dset_all_le (dset_app acc (DCons t vr v DNil)) t.
Proof. induction acc; cbn; intuition lia. Qed.
Lemma dset_all_le_mono acc l t : dset_all_le acc l -> l <= t -> dset_all_le acc t.
Proof. induction acc; cbn; intuition lia. Qed.
Lemma dset_app_assoc a t vr v b : dset_app (dset_app a (DCons t vr v DNil)) b = dset_app a (DCons t vr v b).
Proof. induction a; cbn; [|rewrite IHa]; reflexivity. Qed.
Lemma dset_app_nil a : dset_app a DNil = a.
Proof. induction a; cbn; [|rewrite IHa]; reflexivity. Qed.

Section RoundTrip.
Variable X : ext.

Lemma ser_value_eq vr v :
  ser_value X vr v = match v with
                     | VPrim p => ser_prim X vr p
                     | VSeq INil => Ok MNil
                     | VSeq it => l <- ser_items X it ;; Ok (MCons k_Value (JArr l) MNil)
                     | VPix => Ok MNil
                     end.
Proof. destruct v as [p|[|d tl]|]; reflexivity. Qed.
Lemma ser_items_cons d tl :
  ser_items X (ICons d tl) = (m <- ser_dset X d ;; l <- ser_items X tl ;; Ok (JCons (JObj m) l)).
Proof. reflexivity. Qed.
Lemma ser_dset_cons t vr v tl :
  ser_dset X (DCons t vr v tl) =
    (mv <- ser_value X vr v ;; m <- ser_dset X tl ;;
     Ok (MCons (hex8 t) (JObj (MCons k_vr (JStr (vr_name vr)) mv)) m)).
Proof. reflexivity. Qed.
Lemma wf_value_eq vr v :
  wf_value vr v = match v with VPrim p => wf_prim vr p | VSeq it => vr_eqb vr V_SQ && wf_items it | VPix => false end.
Proof. destruct v; reflexivity. Qed.
Lemma wf_items_cons d tl : wf_items (ICons d tl) = wf_dset_from None d && wf_items tl.
Proof. reflexivity. Qed.
Lemma wf_dset_from_cons lo t vr v tl :
  wf_dset_from lo (DCons t vr v tl) = tag_above lo t && (t <? 2 ^ 32) && wf_value vr v && wf_dset_from (Some t) tl.
Proof. reflexivity. Qed.
Lemma norm_value_eq vr v :
  norm_value X vr v = match v with VPrim p => norm_prim X vr p | VSeq it => VSeq (norm_items X it) | VPix => VPix end.
Proof. destruct v; reflexivity. Qed.
Lemma norm_items_cons d tl : norm_items X (ICons d tl) = ICons (norm_dset X d) (norm_items X tl).
Proof. reflexivity. Qed.
Lemma norm_dset_cons t vr v tl : norm_dset X (DCons t vr v tl) = DCons t vr (norm_value X vr v) (norm_dset X tl).
Proof. reflexivity. Qed.

Definition P_value (v : value) : Prop :=
  forall vr, wf_value vr v = true ->
  exists m, ser_value X vr v = Ok m /\
            de_elem_members X (MCons k_vr (JStr (vr_name vr)) m) est0 = Ok (vr, norm_value X vr v, false).
Definition P_items (it : items) : Prop :=
  wf_items it = true -> exists l, ser_items X it = Ok l /\ de_items X l = Ok (norm_items X it).
Definition P_dset (d : dset) : Prop :=
  forall lo, wf_dset_from lo d = true ->
  exists m, ser_dset X d = Ok m /\
            forall acc, acc_ok lo acc -> de_ds_members X m acc = Ok (dset_app acc (norm_dset X d)).

Lemma rt_all : (forall v, P_value v) /\ (forall it, P_items it) /\ (forall d, P_dset d).
Proof.
  apply dset_mutind; unfold P_value, P_items, P_dset.
  - (* VPrim *) intros p vr W. rewrite wf_value_eq in W. rewrite ser_value_eq, norm_value_eq. apply rt_prim. exact W.
  - (* VSeq *) intros it IH vr W. rewrite wf_value_eq in W. apply andb_true_iff in W. destruct W as [Wv Wi].
    apply vr_eqb_eq in Wv. subst vr. rewrite ser_value_eq, norm_value_eq.
    destruct it as [|d tl].
    + exists MNil. split; [reflexivity|]. rewrite de_elem_no_value. reflexivity.
    + destruct (IH Wi) as (l & Hs & Hd). rewrite Hs. cbn [bind]. eexists. split; [reflexivity|].
      rewrite de_elem_members_cons.
      change (str_eqb k_vr k_vr) with true. cbv iota. cbn [est0 e_vr e_val e_inl e_bulk is_some].
      rewrite de_elem_members_cons.
      change (str_eqb k_Value k_vr) with false. change (str_eqb k_Value k_Value) with true. cbv iota.
      cbn [e_vr e_val e_inl e_bulk is_some]. rewrite de_elem_members_nil. unfold de_finish. cbn [e_vr e_val e_inl e_bulk].
      change (vr_of_name (vr_name V_SQ)) with V_SQ. unfold de_value.
      rewrite de_items_json_eq, Hd. reflexivity.
  - (* VPix *) intros vr W. rewrite wf_value_eq in W. discriminate W.
  - (* INil *) intros _. exists JNil. split; reflexivity.
  - (* ICons *) intros d IHd tl IHt W. rewrite wf_items_cons in W. apply andb_true_iff in W. destruct W as [Wd Wt].
    destruct (IHd None Wd) as (m & Hs & Hd). destruct (IHt Wt) as (l & Hs2 & Hd2).
    rewrite ser_items_cons, Hs, Hs2. cbn [bind]. eexists. split; [reflexivity|].
    rewrite de_items_cons, de_ds_json_eq, (Hd DNil eq_refl), Hd2. cbn [bind dset_app].
    rewrite norm_items_cons. reflexivity.
  - (* DNil *) intros lo _. exists MNil. split; [reflexivity|]. intros acc _.
    rewrite de_ds_members_nil. cbn [norm_dset]. rewrite dset_app_nil. reflexivity.
  - (* DCons *) intros t vr v IHv tl IHt lo W. rewrite wf_dset_from_cons in W.
    apply andb_true_iff in W. destruct W as [W Wt]. apply andb_true_iff in W. destruct W as [W Wv].
    apply andb_true_iff in W. destruct W as [Wlo W32].
    destruct (IHv vr Wv) as (mv & Hsv & Hdv). destruct (IHt (Some t) Wt) as (m & Hst & Hdt).
    rewrite ser_dset_cons, Hsv, Hst. cbn [bind]. eexists. split; [reflexivity|].
    intros acc Hacc. rewrite de_ds_members_cons, tag_from_str_hex8 by lia. cbn [of_opt bind].
    rewrite de_elem_json_eq, Hdv. cbn [bind].
    assert (Hput : dset_put t vr (norm_value X vr v) acc = dset_app acc (DCons t vr (norm_value X vr v) DNil)).
    { destruct lo as [l|]; cbn [acc_ok tag_above] in *.
      - apply (dset_put_append _ _ _ _ l); [exact Hacc | lia].
      - subst acc. reflexivity. }
    rewrite Hput, Hdt.
    + rewrite dset_app_assoc, norm_dset_cons. reflexivity.
    + cbn [acc_ok]. apply dset_all_le_app. destruct lo as [l|]; cbn [acc_ok tag_above] in *.
      * apply (dset_all_le_mono _ l); [exact Hacc | lia].
      * subst acc. exact I.
Qed.

Theorem de_ser_roundtrip d :
  wf_dset d = true -> exists j, ser X d = Ok j /\ de X j = Ok (norm_dset X d).
Proof.
  intros W. destruct rt_all as (_ & _ & H). destruct (H d None W) as (m & Hs & Hd).
  unfold ser, de. rewrite Hs. cbn [bind]. eexists. split; [reflexivity|].
  rewrite de_ds_json_eq. rewrite (Hd DNil eq_refl). reflexivity.
Qed.
End RoundTrip.
