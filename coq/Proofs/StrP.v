(** Lemmas about Base.Str. *)
From DicomV Require Import Base.Str.

Lemma split_on_nonempty sep s : split_on sep s <> [].
Proof.
  induction s as [|c s IH]; cbn; [discriminate|].
  destruct (c =? sep); [discriminate|]. destruct (split_on sep s); [congruence|discriminate].
Qed.

Lemma split_on_nosep sep s : no_char sep s -> split_on sep s = [s].
Proof.
  unfold no_char. induction s as [|c s IH]; intros H; cbn; [reflexivity|].
  destruct (N.eqb_spec c sep) as [->|Hne]; [exfalso; apply H; left; reflexivity|].
  rewrite IH; [reflexivity|]. intros Hin; apply H; right; exact Hin.
Qed.

Lemma split_on_app sep p s :
  no_char sep p -> split_on sep (p ++ sep :: s) = p :: split_on sep s.
Proof.
  unfold no_char. induction p as [|c p IH]; intros H; cbn.
  - rewrite N.eqb_refl. reflexivity.
  - destruct (N.eqb_spec c sep) as [->|Hne]; [exfalso; apply H; left; reflexivity|].
    rewrite IH; [reflexivity|]. intros Hin; apply H; right; exact Hin.
Qed.

Theorem split_on_join sep parts :
  parts <> [] -> Forall (no_char sep) parts -> split_on sep (join sep parts) = parts.
Proof.
  induction parts as [|p ps IH]; intros Hne Hall; [congruence|].
  inversion Hall as [|? ? Hp Hps]; subst.
  destruct ps as [|q ps].
  - cbn. apply split_on_nosep; exact Hp.
  - change (join sep (p :: q :: ps)) with (p ++ sep :: join sep (q :: ps)).
    rewrite split_on_app by exact Hp. rewrite IH; [reflexivity|discriminate|exact Hps].
Qed.

Lemma trim_start_id s : starts_ws s = false -> trim_start s = s.
Proof. destruct s as [|c s]; cbn; [reflexivity|]. intros ->; reflexivity. Qed.

Lemma trim_id s : starts_ws s = false -> ends_ws s = false -> trim s = s.
Proof.
  intros H1 H2. unfold trim, trim_end. rewrite (trim_start_id s H1).
  unfold ends_ws in H2. rewrite (trim_start_id _ H2). apply rev_involutive.
Qed.

Lemma starts_ws_app a b : a <> [] -> starts_ws (a ++ b) = starts_ws a.
Proof. destruct a; [congruence|reflexivity]. Qed.

Lemma ends_ws_app a b : b <> [] -> ends_ws (a ++ b) = ends_ws b.
Proof.
  intros Hb. unfold ends_ws. rewrite rev_app_distr. apply starts_ws_app.
  intros E. apply Hb. rewrite <- (rev_involutive b), E. reflexivity.
Qed.
