(** Whatever the PDU writer model emits satisfies the independent PS3.8 structure
    check (Spec/Ps38.v): proof of C25_lengths. *)
From DicomV Require Import Base.Prelude Base.Endian Base.Str Model.Pdu Spec.Ps38 Proofs.PduP Proofs.PduReadP.
From Coq Require Import ZifyBool ZifyNat ZifyN.
Ltac Zify.zify_post_hook ::= Z.div_mod_to_equations.

Local Arguments len : simpl never.
Local Arguments be16 : simpl never.
Local Arguments be32 : simpl never.
Local Arguments item : simpl never.

Definition itemf (tc : N * bytes) : bytes := item (fst tc) (snd tc).
Definition flat (l : list (N * bytes)) : bytes := concat (map itemf l).

Lemma be_val2 n : n < 65536 -> be_val [(n / 256) mod 256; n mod 256] = n.
Proof. intros H. unfold be_val. cbn [rev app le_val]. lia. Qed.
Lemma be_val4 n : n < 4294967296 ->
  be_val [(n / 256 / 256 / 256) mod 256; (n / 256 / 256) mod 256; (n / 256) mod 256; n mod 256] = n.
Proof. intros H. unfold be_val. cbn [rev app le_val]. lia. Qed.
Lemma to_nat_len (c : bytes) : N.to_nat (len c) = length c.
Proof. unfold len. apply Nat2N.id. Qed.
Lemma nlen_len (c : bytes) : nlen c = len c.
Proof. reflexivity. Qed.
Lemma firstn_app_exact {A} (a b : list A) : firstn (length a) (a ++ b) = a.
Proof. rewrite firstn_app, Nat.sub_diag, firstn_all. cbn. apply app_nil_r. Qed.
Lemma skipn_app_exact {A} (a b : list A) : skipn (length a) (a ++ b) = b.
Proof. rewrite skipn_app, Nat.sub_diag, skipn_all. reflexivity. Qed.

Lemma forallb_map {A B} (f : A -> B) (g : B -> bool) l : forallb g (map f l) = forallb (fun x => g (f x)) l.
Proof. induction l as [|x l IH]; [reflexivity|]. cbn [map forallb]. rewrite IH. reflexivity. Qed.

Lemma tlv16_flat l : forall fuel,
  forallb (fun tc => fits16 (snd tc)) l = true -> (length (flat l) <= fuel)%nat ->
  tlv16 fuel (flat l) = Some l.
Proof.
  induction l as [|[t c] l IH]; intros fuel Hf Hl.
  - destruct fuel; reflexivity.
  - unfold flat in *. cbn [map concat forallb snd] in *. apply andb_true_iff in Hf as [Hc Hf].
    unfold itemf at 1 in Hl. unfold itemf at 1. cbn [fst snd] in *.
    rewrite app_length, length_item in Hl. destruct fuel as [|fuel]; [lia|].
    unfold item. rewrite be16_eq. cbn [app tlv16]. unfold fits16 in Hc.
    rewrite be_val2 by lia. rewrite to_nat_len.
    replace (length (c ++ concat (map itemf l)) <? length c)%nat with false by (rewrite app_length; lia).
    rewrite skipn_app_exact, firstn_app_exact, IH by (auto; lia). reflexivity.
Qed.
Lemma items16_flat l : forallb (fun tc => fits16 (snd tc)) l = true -> items16 (flat l) = Some l.
Proof. intros H. apply tlv16_flat; auto. Qed.

(** the items of each container, as (type, content) pairs *)
Definition pcp_subs (p : pc_proposed) : list (N * bytes) :=
  (48, pp_abstract p) :: map (fun ts => (64, ts)) (pp_ts p).
Lemma c_pc_proposed_flat p : c_pc_proposed p = [pp_id p; 0; 0; 0] ++ flat (pcp_subs p).
Proof.
  unfold c_pc_proposed, flat, pcp_subs. cbn [map concat]. rewrite map_map. reflexivity.
Qed.
Definition uv_pair (v : user_var) : N * bytes := (t_user_var v, c_user_var v).
Lemma user_vars_flat uvs : concat (map e_user_var uvs) = flat (map uv_pair uvs).
Proof. unfold flat. rewrite map_map. reflexivity. Qed.

Lemma ts_types_ok (l : list bytes) :
  forallb (fun s : N * bytes => (fst s =? 48) || (fst s =? 64)) (map (fun ts => (64, ts)) l) = true.
Proof. induction l as [|x l IH]; [reflexivity|]. cbn [map forallb fst]. rewrite IH. reflexivity. Qed.
Lemma assoc_item_ok_pcp p : fits_pc_proposed p = true -> assoc_item_ok (32, c_pc_proposed p) = true.
Proof.
  unfold fits_pc_proposed. intros H. apply andb_true_iff in H as [H _]. apply andb_true_iff in H as [Ha Ht].
  unfold assoc_item_ok. cbv beta iota. ev_eqb. cbv iota.
  rewrite c_pc_proposed_flat. cbn [app length skipn Nat.leb andb].
  rewrite items16_flat.
  - unfold pcp_subs. cbn [forallb fst]. change (48 =? 48) with true. cbn [orb andb]. apply ts_types_ok.
  - unfold pcp_subs. cbn [forallb snd]. rewrite Ha. cbn [andb]. rewrite forallb_map. exact Ht.
Qed.
Lemma assoc_item_ok_pcr p : fits_pc_result p = true -> assoc_item_ok (33, c_pc_result p) = true.
Proof.
  unfold fits_pc_result. intros H. apply andb_true_iff in H as [Ht _].
  unfold assoc_item_ok. cbv beta iota. ev_eqb. cbv iota.
  unfold c_pc_result. cbn [app length skipn Nat.leb andb].
  replace (item 64 (pr_ts p)) with (flat [(64, pr_ts p)]) by (unfold flat, itemf; cbn [map concat fst snd]; apply app_nil_r).
  rewrite items16_flat.
  - reflexivity.
  - cbn [forallb snd]. rewrite Ht. reflexivity.
Qed.

Lemma user_sub_ok_var v :
  fits_user_var v = true ->
  match v with UvUnknown t _ => negb (known_user_type t) | _ => true end = true ->
  user_sub_ok (uv_pair v) = true.
Proof.
  unfold fits_user_var, uv_pair, user_sub_ok. intros Hf Hn. apply andb_true_iff in Hf as [Hf Hc]. unfold fits16 in *.
  destruct v as [t d|n|s|s|uid d|uid scu scp|pos ty prim sec]; cbn [t_user_var c_user_var] in *.
  - unfold known_user_type in Hn.
    replace (t =? 81) with false by lia. replace (t =? 84) with false by lia.
    replace (t =? 86) with false by lia. replace (t =? 88) with false by lia. reflexivity.
  - change (81 =? 81) with true. cbv iota. change nlen with len; rewrite len_be32. reflexivity.
  - reflexivity.
  - reflexivity.
  - change (86 =? 81) with false. change (86 =? 84) with false. change (86 =? 86) with true. cbv iota.
    unfold lp16. rewrite be16_eq. cbn [app]. rewrite be_val2 by lia. change nlen with len; rewrite len_app. lia.
  - change (84 =? 81) with false. change (84 =? 84) with true. cbv iota.
    unfold lp16. rewrite be16_eq. cbn [app]. rewrite be_val2 by lia. change nlen with len; rewrite len_app, !len_cons, len_nil. lia.
  - change (88 =? 81) with false. change (88 =? 84) with false. change (88 =? 86) with false. change (88 =? 88) with true. cbv iota.
    apply andb_true_iff in Hf as [Hp Hs].
    unfold lp16. rewrite !be16_eq. cbn [app]. rewrite be_val2 by lia. rewrite to_nat_len, skipn_app_exact.
    rewrite be_val2 by lia. change nlen with len; rewrite N.eqb_refl, andb_true_r.
    rewrite app_length. cbn [length]. apply Nat.leb_le. lia.
Qed.

Lemma assoc_item_ok_uvs uvs :
  fits_user_vars uvs = true ->
  forallb (fun v => match v with UvUnknown t _ => negb (known_user_type t) | _ => true end) uvs = true ->
  assoc_item_ok (80, concat (map e_user_var uvs)) = true.
Proof.
  unfold fits_user_vars. intros Hf Hn. apply andb_true_iff in Hf as [Hf _].
  unfold assoc_item_ok. cbv beta iota. ev_eqb. cbv iota.
  rewrite user_vars_flat, items16_flat.
  - rewrite forallb_map. rewrite forallb_forall in *. intros v Hv. apply user_sub_ok_var; auto.
  - rewrite forallb_map. rewrite forallb_forall in *. intros v Hv. specialize (Hf v Hv).
    unfold fits_user_var in Hf. apply andb_true_iff in Hf as [_ Hf]. exact Hf.
Qed.

(** P-DATA *)
Lemma pdvs_ok_rt vs : forall fuel,
  forallb fits_pdv vs = true -> (length (concat (map e_pdv vs)) <= fuel)%nat ->
  pdvs_ok fuel (concat (map e_pdv vs)) = true.
Proof.
  induction vs as [|v vs IH]; intros fuel Hf Hl.
  - destruct fuel; reflexivity.
  - cbn [map concat forallb] in *. apply andb_true_iff in Hf as [Hv Hf].
    rewrite app_length in Hl. pose proof (length_e_pdv v). destruct fuel as [|fuel]; [lia|].
    unfold fits_pdv in Hv. unfold e_pdv in *. rewrite be32_eq in *. cbn [app pdvs_ok]. cbn [app length] in Hl.
    rewrite be_val4 by lia.
    replace (N.to_nat (2 + len (pdv_data v))) with (S (S (length (pdv_data v)))) by (unfold len; lia).
    cbn [skipn]. rewrite skipn_app_exact, IH by (auto; lia).
    cbn [length]. rewrite app_length. rewrite andb_true_r. apply andb_true_iff. split; apply Nat.leb_le; lia.
Qed.

(** variable part of an A-ASSOCIATE PDU *)
Definition uvs_items (uvs : list user_var) : list (N * bytes) :=
  match uvs with [] => [] | _ => [(80, concat (map e_user_var uvs))] end.
Lemma e_user_vars_flat uvs : e_user_vars uvs = flat (uvs_items uvs).
Proof. destruct uvs; [reflexivity|]. unfold e_user_vars, uvs_items, flat. cbn [map concat]. rewrite app_nil_r. reflexivity. Qed.
Lemma flat_app a b : flat (a ++ b) = flat a ++ flat b.
Proof. unfold flat. rewrite map_app, concat_app. reflexivity. Qed.

Lemma assoc_vars_ok {P} (ep cp : P -> bytes) (t : N) (apc : bytes) (pcs : list P) uvs :
  (forall p, ep p = item t (cp p)) ->
  fits16 apc = true -> forallb (fun p => fits16 (cp p)) pcs = true ->
  forallb (fun p => assoc_item_ok (t, cp p)) pcs = true ->
  fits_user_vars uvs = true ->
  forallb (fun v => match v with UvUnknown t _ => negb (known_user_type t) | _ => true end) uvs = true ->
  match items16 (item 16 apc ++ concat (map ep pcs) ++ e_user_vars uvs) with
  | Some items => forallb assoc_item_ok items
  | None => false
  end = true.
Proof.
  intros He Ha Hp Hok Hu Hn.
  set (items := (16, apc) :: map (fun p => (t, cp p)) pcs ++ uvs_items uvs).
  assert (E : item 16 apc ++ concat (map ep pcs) ++ e_user_vars uvs = flat items).
  { unfold items. change ((16, apc) :: ?l) with ([(16, apc)] ++ l). rewrite !flat_app, e_user_vars_flat.
    f_equal; [unfold flat; cbn [map concat]; symmetry; apply app_nil_r|]. f_equal.
    unfold flat. rewrite map_map. f_equal. apply map_ext. intros p. rewrite He. reflexivity. }
  rewrite E, items16_flat.
  - unfold items. cbn [forallb]. rewrite forallb_app, forallb_map. apply andb_true_iff. split; [reflexivity|].
    apply andb_true_iff. split; [exact Hok|].
    destruct uvs as [|v uvs]; [reflexivity|]. unfold uvs_items. cbn [forallb]. rewrite andb_true_r.
    apply assoc_item_ok_uvs; assumption.
  - unfold items. cbn [forallb snd]. rewrite Ha. cbn [andb]. rewrite forallb_app, forallb_map. apply andb_true_iff. split; [exact Hp|].
    destruct uvs as [|v uvs]; [reflexivity|]. unfold uvs_items. cbn [forallb snd]. rewrite andb_true_r.
    unfold fits_user_vars in Hu. apply andb_true_iff in Hu as [_ Hu]. exact Hu.
Qed.

Theorem written_ps38_valid p b :
  write_pdu p = Ok b -> no_alias p = true -> ps38_valid b = true.
Proof.
  intros Hb Hn. apply write_inv in Hb as (-> & Hl & Hf).
  pose proof (fits_pdu_body p Hf) as Hlen. unfold fits_pdu in Hf. apply andb_true_iff in Hf as [Hf _].
  unfold e_pdu. rewrite be32_eq. cbn [app ps38_valid]. rewrite be_val4 by exact Hlen.
  change nlen with len; rewrite N.eqb_refl. cbn [andb].
  destruct p as [t d|ver calling called apc pcs uvs|ver calling called apc pcs uvs|r s|vs| | |s]; cbn [pdu_type e_body no_alias] in *.
  - unfold known_pdu_type in Hn.
    replace (t =? 1) with false by lia. replace (t =? 2) with false by lia. replace (t =? 3) with false by lia.
    replace (t =? 4) with false by lia. replace (t =? 5) with false by lia. replace (t =? 6) with false by lia.
    replace (t =? 7) with false by lia. reflexivity.
  - change ((1 =? 1) || (1 =? 2)) with true. cbv iota.
    apply andb_true_iff in Hf as [Hf Hu]. apply andb_true_iff in Hf as [Ha Hp].
    pose proof (len_assoc_head ver called calling) as H68. unfold len in H68.
    rewrite app_length.
    replace (68 <=? length (e_assoc_head ver called calling) + _)%nat with true by (symmetry; apply Nat.leb_le; lia).
    replace 68%nat with (length (e_assoc_head ver called calling)) by lia.
    rewrite skipn_app_exact. cbn [andb].
    apply (assoc_vars_ok e_pc_proposed c_pc_proposed 32); auto.
    + rewrite forallb_forall in *. intros q Hq. specialize (Hp q Hq). unfold fits_pc_proposed in Hp.
      apply andb_true_iff in Hp as [_ Hp]. exact Hp.
    + rewrite forallb_forall in *. intros q Hq. apply assoc_item_ok_pcp. auto.
  - change ((2 =? 1) || (2 =? 2)) with true. cbv iota.
    apply andb_true_iff in Hf as [Hf Hu]. apply andb_true_iff in Hf as [Ha Hp].
    pose proof (len_assoc_head ver called calling) as H68. unfold len in H68.
    rewrite app_length.
    replace (68 <=? length (e_assoc_head ver called calling) + _)%nat with true by (symmetry; apply Nat.leb_le; lia).
    replace 68%nat with (length (e_assoc_head ver called calling)) by lia.
    rewrite skipn_app_exact. cbn [andb].
    apply (assoc_vars_ok e_pc_result c_pc_result 33); auto.
    + rewrite forallb_forall in *. intros q Hq. specialize (Hp q Hq). unfold fits_pc_result in Hp.
      apply andb_true_iff in Hp as [_ Hp]. exact Hp.
    + rewrite forallb_forall in *. intros q Hq. apply assoc_item_ok_pcr. auto.
  - reflexivity.
  - change ((4 =? 1) || (4 =? 2)) with false. change ((4 =? 3) || (4 =? 5) || (4 =? 6) || (4 =? 7)) with false.
    change (4 =? 4) with true. cbv iota. apply pdvs_ok_rt; auto.
  - reflexivity.
  - reflexivity.
  - reflexivity.
Qed.
