(** Lemmas about Model/DateTime.v (C12): times, zones, date-times (text round trip, lengths). *)
From DicomV Require Import Base.Prelude Model.DateTime Proofs.DateTimeP.
From Coq Require Import ZifyBool ZifyNat ZifyN.
Ltac Zify.zify_post_hook ::= Z.div_mod_to_equations.
Local Open Scope N_scope.

(** * Times: text round trip *)
(* a rest that is neither a digit nor the fraction dot *)
Definition time_rest_ok (r : bytes) : bool :=
  match r with [] => true | c :: _ => negb (is_digit c) && negb (c =? dot) end.

Lemma time_rest_nd r : time_rest_ok r = true -> nd_head r = true.
Proof. destruct r; cbn; [reflexivity|]. intros H; apply andb_true_iff in H; tauto. Qed.

Lemma from_h_ok h : ok_hour h = true -> from_h h = Ok (THour h).
Proof. intros H; unfold from_h; rewrite H; reflexivity. Qed.
Lemma from_hm_ok h m : ok_hour h = true -> ok_minute m = true -> from_hm h m = Ok (TMinute h m).
Proof. intros H1 H2; unfold from_hm; rewrite H1, H2; reflexivity. Qed.
Lemma from_hms_ok h m s :
  ok_hour h = true -> ok_minute m = true -> ok_second s = true -> from_hms h m s = Ok (TSecond h m s).
Proof. intros H1 H2 H3; unfold from_hms; rewrite H1, H2, H3; reflexivity. Qed.

Lemma fp_cases fp : in_range 1 6 fp = true -> fp = 1 \/ fp = 2 \/ fp = 3 \/ fp = 4 \/ fp = 5 \/ fp = 6.
Proof. unfold in_range; lia. Qed.

Lemma from_hmsf_ok h m s f fp :
  ok_hour h = true -> ok_minute m = true -> ok_second s = true -> in_range 1 6 fp = true ->
  f <? 10 ^ fp = true -> from_hmsf h m s f fp = Ok (TFrac h m s f fp).
Proof.
  intros H1 H2 H3 H4 H5. unfold from_hmsf. rewrite H1, H2, H3, H4. cbn [negb guard bind].
  assert (10 ^ fp <? f = false) as -> by lia.
  assert (Hb : f * 10 ^ (6 - fp) <= 999999)
    by (destruct (fp_cases fp H4) as [->|[->|[->|[->|[->| ->]]]]]; pow10; lia).
  assert (4294967295 <? f * 10 ^ (6 - fp) = false) as -> by lia.
  assert (ok_fraction (f * 10 ^ (6 - fp)) = true) as -> by (inr; lia). reflexivity.
Qed.

Lemma lead_digits_app l r : forallb is_digit l = true -> lead_digits (l ++ r) = (length l + lead_digits r)%nat.
Proof.
  induction l as [|b l IH]; cbn; [reflexivity|]. intros H; apply andb_true_iff in H as [Hb Hl].
  rewrite Hb, IH by exact Hl. reflexivity.
Qed.
Lemma lead_digits_rest r : time_rest_ok r = true -> lead_digits r = O.
Proof.
  destruct r as [|c r]; cbn; [reflexivity|]. intros H; apply andb_true_iff in H as [H _].
  apply negb_true_iff in H; rewrite H; reflexivity.
Qed.

Lemma parse_time_enc t rest :
  valid_time t = true -> time_rest_ok rest = true ->
  parse_time_partial (time_enc t ++ rest) = Ok (t, rest).
Proof.
  intros Hv Hr. pose proof (time_rest_nd rest Hr) as Hnd. unfold parse_time_partial.
  destruct t as [h|h m|h m s|h m s f fp]; cbn [time_enc valid_time] in *;
    rewrite <- ?app_assoc; rewrite short_padk by lia; rewrite firstn_padk, skipn_padk.
  - rewrite read_number_padk by (try lia; inr; cbn; lia). cbn [bind].
    destruct (short 2 rest) eqn:Es.
    + rewrite from_h_ok by exact Hv. reflexivity.
    + destruct (read_number_nd 255 rest Hnd Es) as [e ->]. rewrite from_h_ok by exact Hv. reflexivity.
  - apply andb_true_iff in Hv as [Hh Hm].
    rewrite read_number_padk by (try lia; inr; cbn; lia). cbn [bind].
    rewrite short_padk by lia. rewrite firstn_padk, skipn_padk.
    rewrite read_number_padk by (try lia; inr; cbn; lia).
    destruct (short 2 rest) eqn:Es.
    + rewrite from_hm_ok by assumption. reflexivity.
    + destruct (read_number_nd 255 rest Hnd Es) as [e ->]. rewrite from_hm_ok by assumption. reflexivity.
  - apply andb_true_iff in Hv as [Hv Hs]. apply andb_true_iff in Hv as [Hh Hm].
    rewrite read_number_padk by (try lia; inr; cbn; lia). cbn [bind].
    rewrite short_padk by lia. rewrite firstn_padk, skipn_padk.
    rewrite read_number_padk by (try lia; inr; cbn; lia).
    rewrite short_padk by lia. rewrite firstn_padk, skipn_padk.
    rewrite read_number_padk by (try lia; inr; cbn; lia).
    assert ((1 <? length rest)%nat && (hd 0 rest =? dot) = false) as ->.
    { destruct rest as [|c r]; cbn; [reflexivity|]. cbn in Hr. apply andb_true_iff in Hr as [_ Hr].
      apply negb_true_iff in Hr. rewrite Hr. apply andb_false_r. }
    rewrite from_hms_ok by assumption. reflexivity.
  - apply andb_true_iff in Hv as [Hv Hf]. apply andb_true_iff in Hv as [Hv Hfp].
    apply andb_true_iff in Hv as [Hv Hs]. apply andb_true_iff in Hv as [Hh Hm].
    rewrite read_number_padk by (try lia; inr; cbn; lia). cbn [bind].
    rewrite short_padk by lia. rewrite firstn_padk, skipn_padk.
    rewrite read_number_padk by (try lia; inr; cbn; lia).
    rewrite short_padk by lia. rewrite firstn_padk, skipn_padk.
    rewrite read_number_padk by (try lia; inr; cbn; lia).
    cbn [app hd tl length].
    assert (Hfpn : (1 <= N.to_nat fp <= 6)%nat) by (unfold in_range in Hfp; lia).
    assert ((1 <? S (length (padk (N.to_nat fp) f ++ rest)))%nat && (dot =? dot) = true) as ->.
    { rewrite app_length, padk_length. rewrite N.eqb_refl. lia. }
    rewrite lead_digits_app by apply padk_digits. rewrite padk_length, lead_digits_rest by exact Hr.
    replace (Nat.min 6 (N.to_nat fp + 0)) with (N.to_nat fp) by lia.
    rewrite firstn_padk, skipn_padk.
    assert (Hf6 : f < 1000000)
      by (destruct (fp_cases fp Hfp) as [->|[->|[->|[->|[->| ->]]]]]; pow10; lia).
    rewrite read_number_padk; [|lia|rewrite N2Nat.id; lia|lia]. cbn [bind].
    assert ((255 <? N.to_nat fp)%nat = false) as -> by lia.
    rewrite N2Nat.id. rewrite from_hmsf_ok by assumption. reflexivity.
Qed.

Lemma parse_time_rt t : valid_time t = true -> parse_time_partial (time_enc t) = Ok (t, []).
Proof.
  intros Hv. rewrite <- (app_nil_r (time_enc t)). apply parse_time_enc; [exact Hv|reflexivity].
Qed.

Lemma time_enc_length t : N.of_nat (length (time_enc t)) = tm_byte_len t.
Proof.
  destruct t; cbn [time_enc tm_byte_len]; rewrite ?app_length; cbn [length]; rewrite ?app_length, ?padk_length;
    try reflexivity. lia.
Qed.

(** * Zones and date-times *)
Lemma zone_enc_valid z :
  valid_zone z = true ->
  zone_enc z = (if (z <? 0)%Z then dash else plus)
               :: padk 2 (Z.abs_N z / 60 / 60) ++ padk 2 ((Z.abs_N z / 60) mod 60).
Proof.
  intros Hv. unfold zone_enc. assert (Z.abs_N z mod 60 =? 0 = true) as ->.
  { unfold valid_zone in Hv. lia. }
  rewrite app_nil_r. reflexivity.
Qed.

Lemma parse_zone_enc z : valid_zone z = true -> parse_zone (zone_enc z) = Ok (Some z).
Proof.
  intros Hv. rewrite zone_enc_valid by exact Hv. unfold parse_zone.
  assert (Hlen : forall c, (length (c :: padk 2 (Z.abs_N z / 60 / 60) ++ padk 2 ((Z.abs_N z / 60) mod 60)) <=? 4)%nat = false).
  { intros c. cbn [length]. rewrite app_length, !padk_length. reflexivity. }
  rewrite Hlen. rewrite firstn_padk, skipn_padk.
  rewrite <- (app_nil_r (padk 2 ((Z.abs_N z / 60) mod 60))). rewrite firstn_padk.
  unfold valid_zone in Hv.
  rewrite !read_number_padk by (try lia; cbn; lia). cbn [bind].
  assert (Hs : (Z.abs_N z / 60 / 60 * 60 + (Z.abs_N z / 60) mod 60) * 60 = Z.abs_N z) by lia.
  rewrite Hs. unfold plus, dash.
  destruct (z <? 0)%Z eqn:Ez; cbn [N.eqb Pos.eqb].
  - change (45 =? 43) with false. change (45 =? 45) with true. cbv iota.
    assert (ok_west (Z.abs_N z) = true) as -> by (inr; lia). cbn [guard bind].
    unfold fixed_offset. assert ((-86400 <? - Z.of_N (Z.abs_N z)) && (- Z.of_N (Z.abs_N z) <? 86400) = true)%Z as -> by lia.
    cbn [bind]. do 2 f_equal. lia.
  - change (43 =? 43) with true. cbv iota.
    assert (ok_east (Z.abs_N z) = true) as -> by (inr; lia). cbn [guard bind].
    unfold fixed_offset. assert ((-86400 <? Z.of_N (Z.abs_N z)) && (Z.of_N (Z.abs_N z) <? 86400) = true)%Z as -> by lia.
    cbn [bind]. do 2 f_equal. lia.
Qed.

Lemma ozone_rest_ok z : match z with Some z => valid_zone z = true | None => True end -> time_rest_ok (ozone_enc z) = true.
Proof.
  destruct z as [z|]; [|reflexivity]. intros Hv. cbn [ozone_enc]. rewrite zone_enc_valid by exact Hv.
  destruct (z <? 0)%Z; reflexivity.
Qed.

Lemma read_number_nondigit max c l : is_digit c = false -> exists e, read_number max (c :: l) = Err e.
Proof.
  intros H. unfold read_number, read_digits.
  destruct ((length (c :: l) =? 0)%nat || (9 <? length (c :: l))%nat); [cbn; eauto|].
  cbn [forallb]. rewrite H. cbn. eauto.
Qed.

Lemma parse_time_nondigit c r : is_digit c = false -> exists e, parse_time_partial (c :: r) = Err e.
Proof.
  intros H. unfold parse_time_partial. destruct (short 2 (c :: r)); [eauto|].
  change (firstn 2 (c :: r)) with (c :: firstn 1 r).
  destruct (read_number_nondigit 255 c (firstn 1 r) H) as [e ->]. cbn. eauto.
Qed.

Lemma parse_time_zone_fails z :
  match z with Some z => valid_zone z = true | None => True end ->
  exists e, parse_time_partial (ozone_enc z) = Err e.
Proof.
  destruct z as [z|]; [|cbn; eauto]. intros Hv. cbn [ozone_enc]. rewrite zone_enc_valid by exact Hv.
  apply parse_time_nondigit. destruct (z <? 0)%Z; reflexivity.
Qed.

Lemma parse_ozone_enc z :
  match z with Some z => valid_zone z = true | None => True end -> parse_zone (ozone_enc z) = Ok z.
Proof. destruct z as [z|]; [apply parse_zone_enc|reflexivity]. Qed.

Lemma parse_dt_rt v : valid_dt v = true -> parse_datetime_partial (dt_enc v) = Ok v.
Proof.
  destruct v as [d t z]. unfold valid_dt, dt_enc. cbn [dt_date dt_time dt_zone]. intros Hv.
  apply andb_true_iff in Hv as [Hv Hz]. apply andb_true_iff in Hv as [Hd Ht].
  assert (Hz' : match z with Some z => valid_zone z = true | None => True end) by (destruct z; auto).
  unfold parse_datetime_partial.
  rewrite parse_date_enc; [|exact Hd|].
  2:{ destruct t as [t|]; [left; apply andb_true_iff in Ht; tauto|right].
      cbn [otime_enc app]. apply time_rest_nd, ozone_rest_ok, Hz'. }
  cbn [bind].
  destruct t as [t|]; cbn [otime_enc app].
  - apply andb_true_iff in Ht as [Ht Hp].
    rewrite parse_time_enc by (try assumption; apply ozone_rest_ok, Hz'). cbn [bind].
    rewrite parse_ozone_enc by exact Hz'. cbn [bind].
    unfold from_date_and_time. rewrite Hp. reflexivity.
  - destruct (parse_time_zone_fails z Hz') as [e ->]. cbn [bind].
    rewrite parse_ozone_enc by exact Hz'. reflexivity.
Qed.

Lemma dt_enc_length v : valid_dt v = true -> N.of_nat (length (dt_enc v)) = dt_byte_len v.
Proof.
  destruct v as [d t z]. unfold valid_dt, dt_enc, dt_byte_len. cbn [dt_date dt_time dt_zone]. intros Hv.
  apply andb_true_iff in Hv as [_ Hz].
  rewrite !app_length, !Nat2N.inj_add, date_enc_length.
  destruct t as [t|]; cbn [otime_enc]; rewrite ?time_enc_length;
    (destruct z as [z|]; cbn [ozone_enc];
     [rewrite zone_enc_valid by exact Hz; cbn [length]; rewrite app_length, !padk_length|]); cbn [length]; lia.
Qed.
