(** The async P-DATA writer over ARBITRARY schedules (errors, zero-length
    writes, partial writes, Pending at any call): no panic, and success of
    every operation implies the complete message is on the wire (C34). *)
From DicomV Require Import Base.Prelude Base.Endian Model.PData Proofs.PDataP.
From Coq Require Import ZifyBool ZifyNat ZifyN.
Arguments enc_pdu : simpl never.
Arguments be32 : simpl never.
Arguments be_bytes : simpl never.

Section AsyncGen.
  Variables ctx max : N.
  Hypothesis Hmax : 6 < max.
  Hypothesis Hmax32 : max + 6 < 2 ^ 32.
  Let cap := max - 6.
  Let fr := frags ctx max.

  Lemma drain_gen s : forall w u rest, rest <> [] ->
    match drain s w u rest with
    | (DDone, t') => wire t' = w ++ rest /\ (length (sched t') <= length s)%nat
    | (DPend rem, t') => exists sent, rest = sent ++ rem /\ rem <> [] /\ wire t' = w ++ sent
                           /\ (length (sched t') < length s)%nat
    | (DErr _, _) => True
    end.
  Proof.
    induction s as [|e s IH]; intros w u rest Hr.
    - cbn [drain]. destruct (len rest =? 0) eqn:E; [exact I|]. cbn. split; [reflexivity|lia].
    - assert (0 < len rest) as Hl by (destruct rest; [congruence|rewrite len_cons; lia]).
      destruct e as [n| |]; cbn [drain].
      + set (k := N.min n (len rest)).
        destruct (k =? 0) eqn:E; [exact I|].
        destruct (k =? len rest) eqn:E2.
        * cbn. split; [reflexivity|lia].
        * assert (drop k rest <> []) as Hd.
          { intros Hn. apply (f_equal len) in Hn. rewrite len_drop, len_nil in Hn. lia. }
          specialize (IH (w ++ take k rest) (u + 1) (drop k rest) Hd).
          destruct (drain s (w ++ take k rest) (u + 1) (drop k rest)) as [[|rem|e'] t'].
          -- destruct IH as (Hw & Hlen). split; [|cbn [length]; lia].
             rewrite Hw, <- app_assoc, take_drop. reflexivity.
          -- destruct IH as (sent & Hrest & Hrem & Hw & Hlen).
             exists (take k rest ++ sent). repeat split; try assumption.
             ++ rewrite <- app_assoc, <- Hrest. symmetry. apply take_drop.
             ++ rewrite Hw, app_assoc. reflexivity.
             ++ cbn [length]. lia.
          -- exact I.
      + exists []. cbn. rewrite app_nil_r. repeat split; try assumption. lia.
      + exact I.
  Qed.

  Definition ready_g (R : bytes -> bytes) (st : astate) (D : bytes) : Prop :=
    exists h pend t, st = (h ++ pend, WReady, t) /\ hdr_ok ctx h /\ len pend <= cap
      /\ forall rest, R rest = wire t ++ fr (pend ++ D ++ rest).

  Definition writing_g (R : bytes -> bytes) (st : astate) (D : bytes) : Prop :=
    exists sent rem consumed t w0,
      st = (sent ++ rem, WWriting (len sent) consumed, t) /\ wire t = w0 ++ sent
      /\ rem <> [] /\ hdr_ok ctx (firstn 12 (sent ++ rem)) /\ consumed <= len D
      /\ forall rest, R rest = w0 ++ (sent ++ rem) ++ fr (drop consumed D ++ rest).

  Definition poll_post_g (R : bytes -> bytes) (n0 : nat) (D : bytes) (r : poll (outcome N) * astate) : Prop :=
    match r with
    | (PReady (Ok n), st') => 0 < n <= len D /\ ready_g R st' (drop n D) /\ (lsched st' <= n0)%nat
    | (PPending, st') => writing_g R st' D /\ (lsched st' < n0)%nat
    | (PReady (Err _), _) => True
    | (PReady (Panic _), _) => False
    end.

  Lemma after_drain_g d R n B buf t :
    buf <> [] -> n <= len buf -> B <> [] -> hdr_ok ctx (firstn 12 B) ->
    (forall rest, R rest = wire t ++ B ++ fr (drop n buf ++ rest)) ->
    (n = 0 -> exists d', d = S d' /\
       forall t', wire t' = wire t ++ B -> (length (sched t') <= length (sched t))%nat ->
         poll_post_g R (length (sched t')) buf (apoll_ready d' max (firstn 12 B) t' buf)) ->
    poll_post_g R (length (sched t)) buf (after_drain max d n B buf (drain_tr t B)).
  Proof.
    intros Hb Hn HB Hh HR Hrec. unfold drain_tr.
    pose proof (drain_gen (sched t) (wire t) (used t) B HB) as Hd.
    destruct (drain (sched t) (wire t) (used t) B) as [[|rem|e'] t']; cbn [after_drain].
    - destruct Hd as (Hw & Hle).
      destruct (n =? 0) eqn:E.
      + destruct Hrec as (d' & -> & Hrec); [lia|]. specialize (Hrec t' Hw Hle).
        destruct (apoll_ready d' max (firstn 12 B) t' buf) as [[[n'|e''|p']|] st']; cbn [poll_post_g] in *; try assumption.
        * destruct Hrec as (? & ? & ?). repeat split; try assumption; lia.
        * destruct Hrec as (? & ?). split; [assumption|lia].
      + cbn [poll_post_g]. split; [lia|]. split; [|unfold lsched; cbn; exact Hle].
        exists (firstn 12 B), [], t'. rewrite app_nil_r.
        repeat split; try assumption.
        * rewrite len_nil; lia.
        * intros rest. rewrite HR, Hw. cbn [app]. rewrite app_assoc. reflexivity.
    - destruct Hd as (sent & HBs & Hrem & Hw & Hlen).
      cbn [poll_post_g]. split; [|unfold lsched; cbn; lia].
      replace (len B - len rem) with (len sent) by (rewrite HBs, len_app; lia).
      exists sent, rem, n, t', (wire t). rewrite <- HBs.
      repeat split; try assumption.
    - exact I.
  Qed.

  Lemma apoll_ready_g1 d R h pend t buf :
    hdr_ok ctx h -> len pend < cap -> buf <> [] ->
    (forall rest, R rest = wire t ++ fr (pend ++ buf ++ rest)) ->
    poll_post_g R (length (sched t)) buf (apoll_ready d max (h ++ pend) t buf).
  Proof.
    intros Hh Hp Hb HR.
    assert (0 < len buf) as Hbl by (destruct buf; [congruence|rewrite len_cons; lia]).
    destruct (12 + len pend + len buf <=? max + 6) eqn:E1.
    - rewrite (apoll_ready_fits ctx max Hmax Hmax32) by (assumption || lia).
      cbn [poll_post_g]. split; [lia|]. split; [|unfold lsched; cbn; lia].
      exists h, (pend ++ buf), t. rewrite <- app_assoc.
      repeat split; try assumption; [rewrite len_app; unfold cap; lia|].
      intros rest. rewrite HR, drop_all by lia. rewrite <- app_assoc. reflexivity.
    - rewrite (apoll_ready_unfold ctx max Hmax Hmax32) by (assumption || unfold cap in *; lia).
      apply after_drain_g; try assumption.
      + unfold cap in *; lia.
      + apply enc_pdu_nonempty.
      + apply firstn12_enc.
      + intros rest. rewrite HR. unfold fr. rewrite (frags_fill ctx max Hmax Hmax32) by (unfold cap in *; lia). reflexivity.
      + unfold cap in *. intros; lia.
  Qed.

  Lemma apoll_ready_g R h pend t buf :
    hdr_ok ctx h -> len pend <= cap -> buf <> [] ->
    (forall rest, R rest = wire t ++ fr (pend ++ buf ++ rest)) ->
    poll_post_g R (length (sched t)) buf (apoll_ready 1 max (h ++ pend) t buf).
  Proof.
    intros Hh Hp Hb HR.
    assert (0 < len buf) as Hbl by (destruct buf; [congruence|rewrite len_cons; lia]).
    destruct (len pend <? cap) eqn:E; [apply apoll_ready_g1; assumption || lia|].
    assert (len pend = cap) as Hfull by lia.
    rewrite (apoll_ready_unfold ctx max Hmax Hmax32) by (assumption || unfold cap in *; lia).
    assert (max - 6 - len pend = 0) as Hz by (unfold cap in *; lia). rewrite Hz.
    apply after_drain_g; try assumption.
    - lia.
    - apply enc_pdu_nonempty.
    - apply firstn12_enc.
    - intros rest. rewrite HR. unfold fr. rewrite (frags_fill ctx max Hmax Hmax32) by (unfold cap in *; lia).
      rewrite Hz. reflexivity.
    - intros _. exists O. split; [reflexivity|]. intros t' Hw Hle.
      set (B := enc_pdu ctx (pend ++ take 0 buf, false)) in *.
      replace (firstn 12 B) with (firstn 12 B ++ []) by apply app_nil_r.
      apply apoll_ready_g1; try assumption.
      + apply firstn12_enc.
      + rewrite len_nil. unfold cap. lia.
      + intros rest. rewrite HR, Hw. unfold fr. rewrite (frags_fill ctx max Hmax Hmax32) by (unfold cap in *; lia).
        rewrite Hz, drop_0. cbn [app]. rewrite app_assoc. reflexivity.
  Qed.

  Lemma apoll_write_g R st D : D <> [] -> ready_g R st D \/ writing_g R st D ->
    poll_post_g R (lsched st) D (apoll_write max st D).
  Proof.
    intros HD [(h & pend & t & -> & Hh & Hp & HR)|(sent & rem & consumed & t & w0 & -> & Hw0 & Hrem & Hh & Hc & HR)].
    - cbn [apoll_write]. unfold lsched; cbn [snd]. apply apoll_ready_g; assumption.
    - cbn [apoll_write].
      destruct (len (sent ++ rem) <? len sent) eqn:E; [rewrite len_app in E; lia|].
      rewrite drop_len_app. unfold drain_tr, lsched; cbn [snd].
      pose proof (drain_gen (sched t) (wire t) (used t) rem Hrem) as Hd.
      destruct (drain (sched t) (wire t) (used t) rem) as [[|rem2|e'] t'].
      + destruct Hd as (Hw & Hle).
        unfold HDR. replace (12 <? total max) with true by (symmetry; apply N.ltb_lt; unfold total; lia).
        rewrite andb_true_r.
        destruct (consumed =? 0) eqn:E0.
        * assert (consumed = 0) as -> by lia.
          assert (poll_post_g R (length (sched t')) D (apoll_ready 1 max (firstn 12 (sent ++ rem) ++ []) t' D)) as Hrec.
          { apply apoll_ready_g; try assumption.
            - rewrite len_nil; lia.
            - intros rest. rewrite HR, drop_0, Hw, Hw0. cbn [app]. rewrite <- !app_assoc. reflexivity. }
          rewrite app_nil_r in Hrec.
          destruct (apoll_ready 1 max (firstn 12 (sent ++ rem)) t' D) as [[[n'|e''|p']|] st']; cbn [poll_post_g] in *; try assumption.
          -- destruct Hrec as (? & ? & ?). repeat split; try assumption; lia.
          -- destruct Hrec as (? & ?). split; [assumption|lia].
        * cbn [poll_post_g]. split; [lia|]. split; [|unfold lsched; cbn; exact Hle].
          exists (firstn 12 (sent ++ rem)), [], t'. rewrite app_nil_r.
          repeat split; try assumption.
          -- rewrite len_nil; lia.
          -- intros rest. rewrite HR, Hw, Hw0. cbn [app]. rewrite <- !app_assoc. reflexivity.
      + destruct Hd as (sent2 & Hr2 & Hrem2 & Hw & Hlen).
        cbn [poll_post_g]. split; [|unfold lsched; cbn; lia].
        replace (len (sent ++ rem) - len rem2) with (len (sent ++ sent2)) by (rewrite Hr2, !len_app; lia).
        exists (sent ++ sent2), rem2, consumed, t', w0.
        rewrite <- !app_assoc, <- Hr2.
        repeat split; try assumption.
        rewrite Hw, Hw0, <- app_assoc. reflexivity.
      + exact I.
  Qed.

  Definition wa_post_g (R : bytes -> bytes) (n0 : nat) (r : poll (outcome unit) * astate * bytes) : Prop :=
    match r with
    | (PReady (Ok _), st', _) => ready_g R st' [] /\ (lsched st' <= n0)%nat
    | (PPending, st', D') => D' <> [] /\ writing_g R st' D' /\ (lsched st' < n0)%nat
    | (PReady (Err _), _, _) => True
    | (PReady (Panic _), _, _) => False
    end.

  Lemma wa_poll_g : forall fuel R st D, (length D < fuel)%nat ->
    ready_g R st D \/ (D <> [] /\ writing_g R st D) ->
    wa_post_g R (lsched st) (wa_poll fuel max st D).
  Proof.
    induction fuel as [|fuel IH]; intros R st D Hf Hinv; [lia|].
    destruct D as [|x D].
    - cbn [wa_poll wa_post_g]. destruct Hinv as [H|[H _]]; [|congruence]. split; [exact H|lia].
    - cbn [wa_poll].
      assert (poll_post_g R (lsched st) (x :: D) (apoll_write max st (x :: D))) as Hp.
      { apply apoll_write_g; [discriminate|]. destruct Hinv as [H|[_ H]]; auto. }
      destruct (apoll_write max st (x :: D)) as [[[n|e|p]|] st']; cbn [poll_post_g] in Hp; try contradiction.
      + destruct Hp as (Hn & Hr & Hl).
        destruct (len (x :: D) <? n) eqn:E1; [lia|].
        destruct (n =? 0) eqn:E2; [lia|].
        assert (wa_post_g R (lsched st') (wa_poll fuel max st' (drop n (x :: D)))) as Hrec.
        { apply IH; [|left; exact Hr]. unfold drop. rewrite skipn_length. cbn [length] in *. lia. }
        destruct (wa_poll fuel max st' (drop n (x :: D))) as [[[[[]|e'|p']|] st''] D'']; cbn [wa_post_g] in *; try assumption.
        * destruct Hrec. split; [assumption|lia].
        * destruct Hrec as (? & ? & ?). repeat split; try assumption; lia.
      + exact I.
      + cbn [wa_post_g]. destruct Hp. repeat split; try assumption. discriminate.
  Qed.

  Lemma wa_await_g : forall polls R st D, (lsched st < polls)%nat ->
    ready_g R st D \/ (D <> [] /\ writing_g R st D) ->
    match wa_await polls false max st D with
    | (Ok _, st') => ready_g R st' []
    | (Err _, _) => True
    | (Panic _, _) => False
    end.
  Proof.
    induction polls as [|polls IH]; intros R st D Hp Hinv; [lia|].
    cbn [wa_await].
    pose proof (wa_poll_g (S (length D)) R st D (Nat.lt_succ_diag_r _) Hinv) as H.
    destruct (wa_poll (S (length D)) max st D) as [[[[[]|e'|p']|] st'] D']; cbn [wa_post_g] in H; try assumption.
    - destruct H. assumption.
    - destruct H as (HD' & Hw & Hl). apply IH; [lia|right; split; assumption].
  Qed.

  Lemma ready_g_ext R R' st D : (forall rest, R rest = R' rest) -> ready_g R st D -> ready_g R' st D.
  Proof.
    intros E (h & pend & t & -> & Hh & Hp & HR).
    exists h, pend, t. repeat split; try assumption. intros rest. rewrite <- E. apply HR.
  Qed.

  Lemma async_ops_g : forall chunks R st, ready_g R st [] ->
    match async_ops max st (map OpWrite chunks) with
    | (rs, true, st') => rs = all_ok (length chunks) /\ ready_g (fun rest => R (concat chunks ++ rest)) st' []
    | (rs, false, _) => exists k e, rs = all_ok k ++ [Err e]
    end.
  Proof.
    induction chunks as [|c chunks IH]; intros R st Hinv.
    - cbn [map async_ops]. split; [reflexivity|exact Hinv].
    - cbn [map async_ops].
      assert (ready_g (fun rest => R (c ++ rest)) st c) as Hc.
      { destruct Hinv as (h & pend & t & -> & Hh & Hp & HR).
        exists h, pend, t. repeat split; try assumption. intros rest. rewrite HR. reflexivity. }
      pose proof (wa_await_g (S (lsched st)) _ st c (Nat.lt_succ_diag_r _) (or_introl Hc)) as Hw.
      unfold lsched in Hw.
      destruct (wa_await (S (length (sched (snd st)))) false max st c) as [[[]|e1|p1] st1]; try contradiction.
      + cbn [is_okb orb].
        specialize (IH _ st1 Hw).
        destruct (async_ops max st1 (map OpWrite chunks)) as [[rs ok] st2]. destruct ok.
        * destruct IH as (-> & Hr). split; [reflexivity|].
          eapply ready_g_ext; [|exact Hr]. intros rest. cbn beta. cbn [concat]. rewrite <- app_assoc. reflexivity.
        * destruct IH as (k & e & ->). exists (S k), e. reflexivity.
      + cbn [is_okb orb]. exists O, e1. reflexivity.
  Qed.

  (** the async writer over ANY schedule *)
  Theorem run_async_gen chunks s rs wr u :
    run_async ctx max (map OpWrite chunks) s true = (rs, wr, u) ->
    Forall (fun r => is_panic r = false) rs /\
    (Forall (fun r => is_okb r = true) rs ->
       rs = all_ok (S (length chunks)) /\ wr = enc_all ctx (fragments cap (concat chunks))).
  Proof.
    unfold run_async.
    pose proof (async_ops_g chunks (fun rest => fr rest) (initial_buffer ctx, WReady, mk_tr s [] 0)) as H.
    assert (Forall (fun r : outcome unit => is_panic r = false) (all_ok (length chunks))) as Hnp.
    { unfold all_ok. apply Forall_forall. intros r Hr. apply repeat_spec in Hr. subst r. reflexivity. }
    destruct (async_ops max (initial_buffer ctx, WReady, mk_tr s [] 0) (map OpWrite chunks)) as [[rs1 ok] st1].
    destruct ok.
    - destruct H as (-> & h1 & p1 & t1 & -> & Hh1 & Hp1 & HR).
      { exists (initial_buffer ctx), [], (mk_tr s [] 0). rewrite app_nil_r.
        repeat split; [apply initial_hdr_ok|rewrite len_nil; lia]. }
      cbn [andb afinish_impl]. destruct t1 as [s1 w1 u1].
      pose proof (finish_gen ctx max Hmax Hmax32 h1 p1 s1 w1 u1 Hh1 Hp1) as Hf.
      destruct (finish_impl (h1 ++ p1) (mk_tr s1 w1 u1)) as [[[[]|e2|p2] b2] t2]; try contradiction.
      + destruct Hf as (-> & Hw2 & _). cbn [afinish_impl finish_impl snd wire used].
        intros E. injection E as <- <- <-.
        assert (all_ok (length chunks) ++ [Ok tt] = all_ok (S (length chunks))) as Hall.
        { unfold all_ok. replace (S (length chunks)) with (length chunks + 1)%nat by lia.
          rewrite repeat_app. reflexivity. }
        rewrite Hall. split.
        * unfold all_ok. apply Forall_forall. intros r Hr. apply repeat_spec in Hr. subst r. reflexivity.
        * intros _. split; [reflexivity|]. rewrite Hw2.
          specialize (HR []). cbn beta in HR. cbn [wire app] in HR. rewrite !app_nil_r in HR.
          unfold fr in HR. fold cap in HR. symmetry. exact HR.
      + cbn [afinish_impl]. intros E. set (fin2 := finish_impl b2 t2) in E. destruct fin2 as [[r3 b3] t3].
        injection E as <- _ _. split.
        * apply Forall_app. split; [exact Hnp|repeat constructor].
        * intros Hall. apply Forall_app in Hall. destruct Hall as (_ & Hall). inversion Hall as [|? ? Hbad]. discriminate Hbad.
    - destruct H as (k & e & ->).
      { exists (initial_buffer ctx), [], (mk_tr s [] 0). rewrite app_nil_r.
        repeat split; [apply initial_hdr_ok|rewrite len_nil; lia]. }
      cbn [andb]. intros E. set (fin2 := afinish_impl st1) in E. destruct fin2 as [r3 st3].
      injection E as <- _ _. rewrite app_nil_r. split.
      + apply Forall_app. split; [|repeat constructor].
        unfold all_ok. apply Forall_forall. intros r Hr. apply repeat_spec in Hr. subst r. reflexivity.
      + intros Hall. apply Forall_app in Hall. destruct Hall as (_ & Hall). inversion Hall as [|? ? Hbad]. discriminate Hbad.
  Qed.
End AsyncGen.
