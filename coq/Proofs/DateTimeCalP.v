(** Lemmas about Model/DateTime.v (C12): calendar order, earliest/latest bounds. *)
From DicomV Require Import Base.Prelude Model.DateTime Proofs.DateTimeP Proofs.DateTimeTP.
From Coq Require Import ZifyBool ZifyNat ZifyN.
Ltac Zify.zify_post_hook ::= Z.div_mod_to_equations.
Local Open Scope N_scope.

(** * Calendar *)
Definition ylen (y : N) : Z := if leap y then 366%Z else 365%Z.

Lemma dby_step y : days_before_year (Z.of_N y + 1) = (days_before_year (Z.of_N y) + ylen y)%Z.
Proof.
  unfold days_before_year, ylen, leap.
  destruct (y mod 4 =? 0) eqn:E4; destruct (y mod 100 =? 0) eqn:E100; destruct (y mod 400 =? 0) eqn:E400;
    cbn [andb orb negb]; lia.
Qed.

Lemma dby_mono a b : (0 <= a <= b)%Z -> (days_before_year a <= days_before_year b)%Z.
Proof. unfold days_before_year. lia. Qed.

Ltac months m :=
  let H := fresh "Hm" in
  assert (m = 1 \/ m = 2 \/ m = 3 \/ m = 4 \/ m = 5 \/ m = 6 \/ m = 7 \/ m = 8 \/ m = 9 \/ m = 10 \/ m = 11 \/ m = 12)
    as H by lia;
  destruct H as [->|[->|[->|[->|[->|[->|[->|[->|[->|[->|[->| ->]]]]]]]]]]].
Ltac ev_ltb :=
  repeat match goal with
  | |- context [N.ltb 2 ?m] => let v := eval vm_compute in (N.ltb 2 m) in change (N.ltb 2 m) with v
  end.
Ltac cal l := cbv [days_before_month month_offset dim ylen]; rewrite ?l; ev_ltb; cbn [andb].

Lemma dim_le_31 y m : dim y m <= 31.
Proof.
  unfold dim. destruct m as [|p]; [lia|]. do 4 (try destruct p as [p|p|]); destruct (leap y); lia.
Qed.

Lemma dbm_range y m d :
  1 <= m <= 12 -> 1 <= d <= dim y m ->
  (0 <= days_before_month y m + (Z.of_N d - 1) < ylen y)%Z.
Proof.
  intros Hm Hd. destruct (leap y) eqn:El; months m; revert Hd; cal El; lia.
Qed.

Lemma dbm_lt y m m' d :
  1 <= m -> m < m' -> m' <= 12 -> d <= dim y m ->
  (days_before_month y m + Z.of_N d <= days_before_month y m')%Z.
Proof.
  intros H1 H2 H3 Hd. destruct (leap y) eqn:El; months m; try lia; months m'; try lia; revert Hd; cal El; lia.
Qed.

Definition date_lt (a b : ymd) : Prop :=
  let '(y, m, d) := a in let '(y', m', d') := b in
  y < y' \/ (y = y' /\ (m < m' \/ (m = m' /\ d < d'))).

Lemma valid_ymd_spec y m d : valid_ymd y m d = true <-> 1 <= m <= 12 /\ 1 <= d <= dim y m.
Proof. unfold valid_ymd. lia. Qed.

Lemma day_num_lt a b :
  valid_date_p a = true -> valid_date_p b = true -> date_lt a b -> (day_num a < day_num b)%Z.
Proof.
  destruct a as [[y m] d], b as [[y' m'] d']. unfold valid_date_p, date_lt, day_num.
  rewrite !valid_ymd_spec. intros [Hm Hd] [Hm' Hd'] H.
  pose proof (dbm_range y m d Hm Hd). pose proof (dbm_range y' m' d' Hm' Hd').
  destruct H as [H|[-> [H|[-> H]]]].
  - pose proof (dby_step y). pose proof (dby_mono (Z.of_N y + 1) (Z.of_N y')). lia.
  - pose proof (dbm_lt y' m m' d). lia.
  - lia.
Qed.

Lemma date_le_cases a b : date_le a b <-> a = b \/ date_lt a b.
Proof.
  destruct a as [[y m] d], b as [[y' m'] d']. unfold date_le, date_lt. split.
  - intros H. assert (y = y' /\ m = m' /\ d = d' \/ (y < y' \/ y = y' /\ (m < m' \/ m = m' /\ d < d'))) as [[-> [-> ->]]|H'] by lia; auto.
  - intros [H|H]; [inversion H; subst; lia|lia].
Qed.
Lemma date_total a b : date_le a b \/ date_lt b a.
Proof. destruct a as [[y m] d], b as [[y' m'] d']. unfold date_le, date_lt. lia. Qed.

Lemma day_num_le_iff a b :
  valid_date_p a = true -> valid_date_p b = true -> ((day_num a <= day_num b)%Z <-> date_le a b).
Proof.
  intros Ha Hb. split.
  - intros H. destruct (date_total a b) as [|Hlt]; [assumption|].
    pose proof (day_num_lt b a Hb Ha Hlt). lia.
  - intros H. apply date_le_cases in H as [->|H]; [lia|]. pose proof (day_num_lt a b Ha Hb H). lia.
Qed.

Lemma day_num_inj a b :
  valid_date_p a = true -> valid_date_p b = true -> day_num a = day_num b -> a = b.
Proof.
  intros Ha Hb H.
  assert (H1 : date_le a b) by (apply day_num_le_iff; auto; lia).
  assert (H2 : date_le b a) by (apply day_num_le_iff; auto; lia).
  apply date_le_cases in H1 as [|H1]; [assumption|].
  pose proof (day_num_lt a b Ha Hb H1). lia.
Qed.

(** * Dates: earliest / latest *)
Definition date_lo (v : dicom_date) : ymd :=
  match v with DYear y => (y, 1, 1) | DMonth y m => (y, m, 1) | DDay y m d => (y, m, d) end.
Definition date_hi (v : dicom_date) : ymd :=
  match v with DYear y => (y, 12, 31) | DMonth y m => (y, m, dim y m) | DDay y m d => (y, m, d) end.

Lemma dim_pos y m : 1 <= m <= 12 -> 28 <= dim y m.
Proof. intros H. months m; cbv [dim]; destruct (leap y); lia. Qed.

Lemma date_earliest_spec v :
  valid_date v = true ->
  date_earliest v = if calendar_ok v then Ok (date_lo v) else Err R_invalid_date.
Proof.
  destruct v as [y|y m|y m d]; unfold date_earliest, from_ymd_opt; cbn [d_year d_month d_day odef valid_date calendar_ok date_lo]; inr; intros Hv.
  - assert (valid_ymd y 1 1 = true) as ->; [|reflexivity]. apply valid_ymd_spec. cbv [dim]. lia.
  - assert (valid_ymd y m 1 = true) as ->; [|reflexivity]. apply valid_ymd_spec.
    pose proof (dim_pos y m). lia.
  - destruct (d <=? dim y m) eqn:E.
    + assert (valid_ymd y m d = true) as ->; [|reflexivity]. apply valid_ymd_spec. lia.
    + assert (valid_ymd y m d = false) as ->; [|reflexivity]. unfold valid_ymd. lia.
Qed.

Lemma month_len y m :
  1 <= m <= 11 -> (days_before_month y (m + 1) - days_before_month y m)%Z = Z.of_N (dim y m).
Proof.
  intros Hm. destruct (leap y) eqn:El; months m; try lia;
    match goal with |- context [?a + 1] => let v := eval vm_compute in (a + 1) in change (a + 1) with v end;
    cal El; lia.
Qed.

Lemma year_end y : Z.sub (day_num (y + 1, 1, 1)) (day_num (y, 12, 1)) = 31%Z.
Proof.
  unfold day_num. replace (Z.of_N (y + 1)) with (Z.of_N y + 1)%Z by lia. rewrite dby_step.
  cbv [days_before_month month_offset ylen].
  change (2 <? 1) with false. change (2 <? 12) with true. rewrite andb_false_r, andb_true_r.
  destruct (leap y); lia.
Qed.

Lemma date_latest_spec v :
  valid_date v = true ->
  date_latest v = if calendar_ok v then Ok (date_hi v) else Err R_invalid_date.
Proof.
  destruct v as [y|y m|y m d]; unfold date_latest, from_ymd_opt;
    cbn [d_year d_month d_day odef valid_date calendar_ok date_hi]; inr; intros Hv.
  - change (12 =? 12) with true. cbv iota.
    assert (valid_ymd (y + 1) 1 1 = true) as -> by (apply valid_ymd_spec; cbv [dim]; lia).
    assert (valid_ymd y 12 1 = true) as -> by (apply valid_ymd_spec; cbv [dim]; lia).
    cbn [of_opt bind]. rewrite year_end. change (Z.to_N (31 mod 4294967296)) with 31.
    assert (valid_ymd y 12 31 = true) as -> by (apply valid_ymd_spec; cbv [dim]; lia). reflexivity.
  - pose proof (dim_pos y m) as Hdp. destruct (m =? 12) eqn:E12.
    + assert (m = 12) as -> by lia.
      assert (valid_ymd (y + 1) 1 1 = true) as -> by (apply valid_ymd_spec; cbv [dim]; lia).
      assert (valid_ymd y 12 1 = true) as -> by (apply valid_ymd_spec; cbv [dim]; lia).
      cbn [of_opt bind]. rewrite year_end. change (Z.to_N (31 mod 4294967296)) with 31.
      assert (valid_ymd y 12 31 = true) as -> by (apply valid_ymd_spec; cbv [dim]; lia). reflexivity.
    + pose proof (dim_pos y (m + 1)).
      assert (valid_ymd y (m + 1) 1 = true) as -> by (apply valid_ymd_spec; lia).
      assert (valid_ymd y m 1 = true) as -> by (apply valid_ymd_spec; lia).
      cbn [of_opt bind].
      match goal with |- context [Z.to_N ?e] => assert (Z.to_N e = dim y m) as -> end.
      { unfold day_num. pose proof (month_len y m). pose proof (dim_le_31 y m). lia. }
      assert (valid_ymd y m (dim y m) = true) as -> by (apply valid_ymd_spec; lia). reflexivity.
  - cbn [bind]. destruct (d <=? dim y m) eqn:E.
    + assert (valid_ymd y m d = true) as ->; [|reflexivity]. apply valid_ymd_spec. lia.
    + assert (valid_ymd y m d = false) as ->; [|reflexivity]. unfold valid_ymd. lia.
Qed.

Lemma date_bounds_defined v :
  valid_date v = true ->
  is_ok (date_earliest v) = calendar_ok v /\ is_ok (date_latest v) = calendar_ok v.
Proof.
  intros Hv. rewrite date_earliest_spec, date_latest_spec by exact Hv. destruct (calendar_ok v); auto.
Qed.

Lemma date_lo_hi_valid v :
  valid_date v = true -> calendar_ok v = true ->
  valid_date_p (date_lo v) = true /\ valid_date_p (date_hi v) = true.
Proof.
  destruct v as [y|y m|y m d]; cbn [valid_date calendar_ok date_lo date_hi valid_date_p]; inr; intros Hv Hc;
    rewrite !valid_ymd_spec.
  - cbv [dim]. lia.
  - pose proof (dim_pos y m). lia.
  - lia.
Qed.

Lemma date_consistent_iff v p :
  valid_date v = true -> calendar_ok v = true -> valid_date_p p = true ->
  (date_consistent v p <-> date_le (date_lo v) p /\ date_le p (date_hi v)).
Proof.
  destruct p as [[y' m'] d']. unfold valid_date_p. rewrite valid_ymd_spec.
  pose proof (dim_le_31 y' m') as H31.
  destruct v as [y|y m|y m d]; cbn [valid_date calendar_ok date_lo date_hi date_consistent date_le d_year d_month d_day omatch]; inr;
    intros Hv Hc Hp.
  - lia.
  - split.
    + intros [-> [-> _]]. lia.
    + intros H. assert (y = y' /\ m = m') as [-> ->] by lia. lia.
  - lia.
Qed.

Lemma date_bounds v lo hi p :
  valid_date v = true -> date_earliest v = Ok lo -> date_latest v = Ok hi -> valid_date_p p = true ->
  (date_consistent v p <-> date_le lo p /\ date_le p hi).
Proof.
  intros Hv Hlo Hhi Hp. rewrite date_earliest_spec in Hlo by exact Hv. rewrite date_latest_spec in Hhi by exact Hv.
  destruct (calendar_ok v) eqn:Hc; [|discriminate]. inversion Hlo; inversion Hhi; subst.
  apply date_consistent_iff; assumption.
Qed.

(** * Times: earliest / latest *)
Definition frac_lo (t : dicom_time) : N := match t_frac t with None => 0 | Some (f, fp) => f * 10 ^ (6 - fp) end.
Definition frac_hi (t : dicom_time) : N :=
  match t_frac t with None => 999999 | Some (f, fp) => f * 10 ^ (6 - fp) + 10 ^ (6 - fp) - 1 end.
Definition time_lo (t : dicom_time) : hmsu := (t_hour t, odef (t_minute t) 0, odef (t_second t) 0, frac_lo t).
Definition time_hi (t : dicom_time) : hmsu := (t_hour t, odef (t_minute t) 59, odef (t_second t) 59, frac_hi t).

Lemma frac_hi_lt t : valid_time t = true -> frac_lo t <= frac_hi t < 1000000.
Proof.
  unfold frac_lo, frac_hi. destruct t as [h|h m|h m s|h m s f fp]; cbn [t_frac valid_time]; try lia.
  intros Hv. apply andb_true_iff in Hv as [Hv Hf]. apply andb_true_iff in Hv as [Hv Hfp].
  destruct (fp_cases fp Hfp) as [->|[->|[->|[->|[->| ->]]]]]; pow10; lia.
Qed.

Lemma frac_scaled_lo t : valid_time t = true -> frac_scaled t (fun _ => 0) 0 = Ok (frac_lo t).
Proof.
  intros Hv. pose proof (frac_hi_lt t Hv) as Hf. unfold frac_scaled, frac_lo, frac_hi in *.
  destruct t as [h|h m|h m s|h m s f fp]; cbn [t_frac valid_time] in *; try reflexivity.
  apply andb_true_iff in Hv as [Hv _]. apply andb_true_iff in Hv as [_ Hfp].
  assert (6 <? fp = false) as -> by (unfold in_range in Hfp; lia).
  rewrite N.add_0_r. assert (4294967295 <? f * 10 ^ (6 - fp) = false) as -> by lia. reflexivity.
Qed.
Lemma frac_scaled_hi t : valid_time t = true -> frac_scaled t (fun k => k - 1) 999999 = Ok (frac_hi t).
Proof.
  intros Hv. pose proof (frac_hi_lt t Hv) as Hf. unfold frac_scaled, frac_lo, frac_hi in *.
  destruct t as [h|h m|h m s|h m s f fp]; cbn [t_frac valid_time] in *; try reflexivity.
  apply andb_true_iff in Hv as [Hv _]. apply andb_true_iff in Hv as [_ Hfp].
  assert (6 <? fp = false) as -> by (unfold in_range in Hfp; lia).
  assert (Hk : 1 <= 10 ^ (6 - fp)) by (destruct (fp_cases fp Hfp) as [->|[->|[->|[->|[->| ->]]]]]; pow10; lia).
  replace (f * 10 ^ (6 - fp) + (10 ^ (6 - fp) - 1)) with (f * 10 ^ (6 - fp) + 10 ^ (6 - fp) - 1) by lia.
  assert (4294967295 <? f * 10 ^ (6 - fp) + 10 ^ (6 - fp) - 1 = false) as -> by lia. reflexivity.
Qed.

Lemma time_earliest_spec t :
  valid_time t = true ->
  time_earliest t = if no_leap_second t then Ok (time_lo t) else Err R_invalid_time_micro.
Proof.
  intros Hv. pose proof (frac_hi_lt t Hv) as Hf. unfold time_earliest. rewrite frac_scaled_lo by exact Hv. cbn [bind].
  unfold from_hms_micro_opt, time_lo, no_leap_second.
  destruct t as [h|h m|h m s|h m s f fp]; cbn [t_hour t_minute t_second odef valid_time] in *; inr.
  - assert (valid_hmsu h 0 0 (frac_lo (THour h)) = true) as -> by (unfold valid_hmsu; lia). reflexivity.
  - assert (valid_hmsu h m 0 (frac_lo (TMinute h m)) = true) as -> by (unfold valid_hmsu; lia). reflexivity.
  - destruct (s =? 60) eqn:E; cbn [negb].
    + assert (valid_hmsu h m s (frac_lo (TSecond h m s)) = false) as -> by (unfold valid_hmsu; lia). reflexivity.
    + assert (valid_hmsu h m s (frac_lo (TSecond h m s)) = true) as -> by (unfold valid_hmsu; lia). reflexivity.
  - destruct (s =? 60) eqn:E; cbn [negb].
    + assert (valid_hmsu h m s (frac_lo (TFrac h m s f fp)) = false) as -> by (unfold valid_hmsu; lia). reflexivity.
    + assert (valid_hmsu h m s (frac_lo (TFrac h m s f fp)) = true) as -> by (unfold valid_hmsu; lia). reflexivity.
Qed.

Lemma time_latest_spec t :
  valid_time t = true ->
  time_latest t = if no_leap_second t then Ok (time_hi t) else Err R_invalid_time_micro.
Proof.
  intros Hv. pose proof (frac_hi_lt t Hv) as Hf. unfold time_latest. rewrite frac_scaled_hi by exact Hv. cbn [bind].
  unfold from_hms_micro_opt, time_hi, no_leap_second.
  destruct t as [h|h m|h m s|h m s f fp]; cbn [t_hour t_minute t_second odef valid_time] in *; inr.
  - assert (valid_hmsu h 59 59 (frac_hi (THour h)) = true) as -> by (unfold valid_hmsu; lia). reflexivity.
  - assert (valid_hmsu h m 59 (frac_hi (TMinute h m)) = true) as -> by (unfold valid_hmsu; lia). reflexivity.
  - destruct (s =? 60) eqn:E; cbn [negb].
    + assert (valid_hmsu h m s (frac_hi (TSecond h m s)) = false) as -> by (unfold valid_hmsu; lia). reflexivity.
    + assert (valid_hmsu h m s (frac_hi (TSecond h m s)) = true) as -> by (unfold valid_hmsu; lia). reflexivity.
  - destruct (s =? 60) eqn:E; cbn [negb].
    + assert (valid_hmsu h m s (frac_hi (TFrac h m s f fp)) = false) as -> by (unfold valid_hmsu; lia). reflexivity.
    + assert (valid_hmsu h m s (frac_hi (TFrac h m s f fp)) = true) as -> by (unfold valid_hmsu; lia). reflexivity.
Qed.

Lemma time_bounds_defined t :
  valid_time t = true ->
  is_ok (time_earliest t) = no_leap_second t /\ is_ok (time_latest t) = no_leap_second t.
Proof.
  intros Hv. rewrite time_earliest_spec, time_latest_spec by exact Hv. destruct (no_leap_second t); auto.
Qed.

Lemma time_consistent_iff t p :
  valid_time t = true -> no_leap_second t = true -> valid_time_p p = true ->
  (time_consistent t p <-> (time_us (time_lo t) <= time_us p <= time_us (time_hi t))%Z).
Proof.
  destruct p as [[[h' m'] s'] us']. unfold valid_time_p, time_lo, time_hi, frac_lo, frac_hi, no_leap_second, time_us.
  destruct t as [h|h m|h m s|h m s f fp];
    cbn [valid_time t_hour t_minute t_second t_frac odef time_consistent omatch]; inr; intros Hv Hl Hp; try lia.
  assert (Hfp : in_range 1 6 fp = true) by (unfold in_range; lia).
  destruct (fp_cases fp Hfp) as [->|[->|[->|[->|[->| ->]]]]]; pow10; lia.
Qed.

Lemma time_bounds t lo hi p :
  valid_time t = true -> time_earliest t = Ok lo -> time_latest t = Ok hi -> valid_time_p p = true ->
  (time_consistent t p <-> (time_us lo <= time_us p <= time_us hi)%Z).
Proof.
  intros Hv Hlo Hhi Hp. rewrite time_earliest_spec in Hlo by exact Hv. rewrite time_latest_spec in Hhi by exact Hv.
  destruct (no_leap_second t) eqn:Hc; [|discriminate]. inversion Hlo; inversion Hhi; subst.
  apply time_consistent_iff; assumption.
Qed.

Lemma time_us_range p : valid_time_p p = true -> (0 <= time_us p < day_us)%Z.
Proof. destruct p as [[[h m] s] us]. unfold valid_time_p, time_us, day_us. lia. Qed.

Lemma time_lo_hi_valid t :
  valid_time t = true -> no_leap_second t = true ->
  valid_time_p (time_lo t) = true /\ valid_time_p (time_hi t) = true.
Proof.
  intros Hv Hl. pose proof (frac_hi_lt t Hv). unfold time_lo, time_hi, valid_time_p, no_leap_second in *.
  destruct t as [h|h m|h m s|h m s f fp]; cbn [valid_time t_hour t_minute t_second odef] in *; inr; lia.
Qed.

(** * Date-times: earliest / latest *)
Definition dt_bounds_ok (v : dicom_dt) : bool :=
  calendar_ok (dt_date v) && match dt_time v with Some t => no_leap_second t | None => true end.
Definition dt_lo (v : dicom_dt) : ndt :=
  (date_lo (dt_date v), match dt_time v with Some t => time_lo t | None => (0, 0, 0, 0) end).
Definition dt_hi (v : dicom_dt) : ndt :=
  (date_hi (dt_date v), match dt_time v with Some t => time_hi t | None => (23, 59, 59, 999999) end).

Lemma valid_dt_parts v :
  valid_dt v = true ->
  valid_date (dt_date v) = true
  /\ match dt_time v with Some t => valid_time t = true /\ date_precise (dt_date v) = true | None => True end
  /\ match dt_zone v with Some z => valid_zone z = true | None => True end.
Proof.
  unfold valid_dt. intros H. apply andb_true_iff in H as [H Hz]. apply andb_true_iff in H as [Hd Ht].
  repeat split; auto.
  - destruct (dt_time v); auto. apply andb_true_iff in Ht; tauto.
  - destruct (dt_zone v); auto.
Qed.

Lemma dt_earliest_spec v :
  valid_dt v = true ->
  dt_earliest v = if dt_bounds_ok v then Ok (with_zone (dt_zone v) (dt_lo v))
                  else Err (if calendar_ok (dt_date v) then R_invalid_time_micro else R_invalid_date).
Proof.
  intros Hv. destruct (valid_dt_parts v Hv) as (Hd & Ht & _).
  unfold dt_earliest, dt_bounds_ok, dt_lo. rewrite date_earliest_spec by exact Hd.
  destruct (calendar_ok (dt_date v)); cbn [bind andb]; [|reflexivity].
  destruct (dt_time v) as [t|]; [|reflexivity]. destruct Ht as [Ht _].
  rewrite time_earliest_spec by exact Ht. destruct (no_leap_second t); reflexivity.
Qed.
Lemma dt_latest_spec v :
  valid_dt v = true ->
  dt_latest v = if dt_bounds_ok v then Ok (with_zone (dt_zone v) (dt_hi v))
                else Err (if calendar_ok (dt_date v) then R_invalid_time_micro else R_invalid_date).
Proof.
  intros Hv. destruct (valid_dt_parts v Hv) as (Hd & Ht & _).
  unfold dt_latest, dt_bounds_ok, dt_hi. rewrite date_latest_spec by exact Hd.
  destruct (calendar_ok (dt_date v)); cbn [bind andb]; [|reflexivity].
  destruct (dt_time v) as [t|]; [|reflexivity]. destruct Ht as [Ht _].
  rewrite time_latest_spec by exact Ht. destruct (no_leap_second t); reflexivity.
Qed.

Lemma dt_bounds_defined v :
  valid_dt v = true ->
  is_ok (dt_earliest v) = dt_bounds_ok v /\ is_ok (dt_latest v) = dt_bounds_ok v.
Proof.
  intros Hv. rewrite dt_earliest_spec, dt_latest_spec by exact Hv. destruct (dt_bounds_ok v); auto.
Qed.

Lemma instant_with_zone z p q :
  (instant_us (with_zone z p) <= instant_us (with_zone z q) <-> naive_us p <= naive_us q)%Z.
Proof. destruct z; cbn [with_zone instant_us]; unfold utc_us; lia. Qed.

Lemma dt_consistent_iff v p :
  valid_dt v = true -> dt_bounds_ok v = true -> valid_ndt p = true ->
  (dt_consistent v p <-> (naive_us (dt_lo v) <= naive_us p <= naive_us (dt_hi v))%Z).
Proof.
  intros Hv Hb Hp. destruct (valid_dt_parts v Hv) as (Hd & Ht & _).
  unfold dt_bounds_ok in Hb. apply andb_true_iff in Hb as [Hc Hl].
  destruct p as [pd pt]. unfold valid_ndt in Hp. cbn [fst snd] in Hp. apply andb_true_iff in Hp as [Hpd Hpt].
  unfold dt_consistent, dt_lo, dt_hi, naive_us. cbn [fst snd].
  destruct (date_lo_hi_valid _ Hd Hc) as [Hvlo Hvhi].
  pose proof (time_us_range pt Hpt) as Hr.
  rewrite (date_consistent_iff _ pd Hd Hc Hpd).
  rewrite <- (day_num_le_iff _ _ Hvlo Hpd), <- (day_num_le_iff _ _ Hpd Hvhi).
  destruct (dt_time v) as [t|].
  - destruct Ht as [Ht Hprec].
    rewrite (time_consistent_iff t pt Ht Hl Hpt).
    destruct (time_lo_hi_valid t Ht Hl) as [Htl Hth].
    pose proof (time_us_range _ Htl). pose proof (time_us_range _ Hth).
    destruct (dt_date v) as [y|y m|y m d]; try discriminate. cbn [date_lo date_hi] in *.
    unfold day_us in *. lia.
  - change (time_us (0, 0, 0, 0)) with 0%Z. change (time_us (23, 59, 59, 999999)) with 86399999999%Z.
    unfold day_us in *. lia.
Qed.

Lemma dt_bounds v lo hi p :
  valid_dt v = true -> dt_earliest v = Ok lo -> dt_latest v = Ok hi -> valid_ndt p = true ->
  (dt_consistent v p <->
   (instant_us lo <= instant_us (with_zone (dt_zone v) p) <= instant_us hi)%Z).
Proof.
  intros Hv Hlo Hhi Hp. rewrite dt_earliest_spec in Hlo by exact Hv. rewrite dt_latest_spec in Hhi by exact Hv.
  destruct (dt_bounds_ok v) eqn:Hb; [|discriminate]. inversion Hlo; inversion Hhi; subst.
  rewrite !instant_with_zone. apply dt_consistent_iff; assumption.
Qed.
