(** Lemmas about Model/NumConv.v (C11). *)
From DicomV Require Import Base.RustStr Proofs.RustStrP Model.NumConv.
From Coq Require Import ZifyBool ZifyNat ZifyN.

(** ================= generic ================= *)

Lemma mapM_ok {A B} (f : A -> outcome B) l r :
  mapM f l = Ok r <-> Forall2 (fun x y => f x = Ok y) l r.
Proof.
  revert r. induction l as [|x l IH]; intros r; cbn [mapM].
  - split; [intros H; inversion H; constructor | intros H; inversion H; reflexivity].
  - destruct (f x) as [y| |] eqn:E; cbn [bind].
    + destruct (mapM f l) as [ys| |] eqn:M; cbn [bind].
      * split.
        -- intros H; inversion H; subst. constructor; [exact E | apply IH; reflexivity].
        -- intros H; inversion H as [|? ? ? ? Hx Hl]; subst. rewrite E in Hx. inversion Hx; subst.
           apply IH in Hl. inversion Hl; subst. reflexivity.
      * split; [discriminate|]. intros H; inversion H as [|? ? ? ? Hx Hl]; subst. apply IH in Hl. discriminate.
      * split; [discriminate|]. intros H; inversion H as [|? ? ? ? Hx Hl]; subst. apply IH in Hl. discriminate.
    + split; [discriminate|]. intros H; inversion H as [|? ? ? ? Hx Hl]; subst. congruence.
    + split; [discriminate|]. intros H; inversion H as [|? ? ? ? Hx Hl]; subst. congruence.
Qed.

Lemma Forall2_len {A B} (R : A -> B -> Prop) l r : Forall2 R l r -> length l = length r.
Proof. induction 1; cbn; congruence. Qed.

Lemma mapM_length {A B} (f : A -> outcome B) l r : mapM f l = Ok r -> length r = length l.
Proof. intros H. apply mapM_ok in H. symmetry. eapply Forall2_len; exact H. Qed.

Lemma mapM_no_panic {A B} (f : A -> outcome B) l w :
  (forall x w', f x <> Panic w') -> mapM f l <> Panic w.
Proof.
  intros Hf. induction l as [|x l IH]; cbn [mapM]; [discriminate|].
  destruct (f x) as [y|e|w'] eqn:E; cbn [bind]; [|discriminate|exfalso; exact (Hf x w' E)].
  destruct (mapM f l) as [ys|e|w'']; cbn [bind]; try discriminate.
  intros H; inversion H; subst. apply IH. reflexivity.
Qed.

Lemma firstn_map' {A B} (f : A -> B) k l : firstn k (map f l) = map f (firstn k l).
Proof. revert l; induction k; intros [|x l]; cbn; congruence. Qed.

(** ================= integer parsing ================= *)

Lemma int_from_str_spec signed lo hi s n :
  int_from_str signed lo hi s = Some n <-> text_int signed s = Some n /\ (lo <= n <= hi)%Z.
Proof.
  unfold int_from_str. destruct (text_int signed s) as [v|]; [|split; [discriminate|intros [X _]; discriminate]].
  destruct (Z.leb_spec lo v) as [L|L], (Z.leb_spec v hi) as [U|U]; cbn [andb]; split; intros X.
  all: try discriminate X.
  all: try (inversion X; subst; split; [reflexivity|lia]).
  all: destruct X as [X R]; inversion X; subst; try reflexivity; lia.
Qed.

Lemma parse_int_ok T s n :
  parse_int T s = Ok n <-> text_number (t_signed T) s = Some n /\ in_range T n.
Proof.
  unfold parse_int, text_number, in_range.
  destruct (int_from_str (t_signed T) (t_lo T) (t_hi T) (trim_num s)) as [z|] eqn:E.
  - split.
    + intros H; inversion H; subst. apply int_from_str_spec. exact E.
    + intros H. apply int_from_str_spec in H. rewrite E in H. inversion H; reflexivity.
  - split; [discriminate|]. intros H. apply int_from_str_spec in H. congruence.
Qed.

Lemma cast_int_ok T x n : cast_int T x = Ok n <-> x = n /\ in_range T n.
Proof.
  unfold cast_int, in_rangeb, in_range.
  destruct (Z.leb_spec (t_lo T) x) as [L|L], (Z.leb_spec x (t_hi T)) as [U|U]; cbn [andb]; split; intros X.
  all: try discriminate X.
  all: try (inversion X; subst; split; [reflexivity|lia]).
  all: destruct X as [-> R]; try reflexivity; lia.
Qed.

Lemma parse_int_no_panic T s w : parse_int T s <> Panic w.
Proof. unfold parse_int. destruct (int_from_str _ _ _ _); discriminate. Qed.
Lemma cast_int_no_panic T x w : cast_int T x <> Panic w.
Proof. unfold cast_int. destruct (in_rangeb T x); discriminate. Qed.

(** ================= to_int / to_multi_int ================= *)

Theorem to_int_exact T v n :
  to_int T v = Ok n <-> first_number (t_signed T) v = Some n /\ in_range T n.
Proof.
  destruct v as [|l|s|k l|l|l|kind l]; cbn [to_int first_number];
    try (split; [discriminate|intros [H _]; discriminate]).
  - destruct l as [|s l]; [split; [discriminate|intros [H _]; discriminate]|]. apply parse_int_ok.
  - apply parse_int_ok.
  - destruct l as [|x l]; [split; [discriminate|intros [H _]; discriminate]|].
    rewrite cast_int_ok. split; [intros [-> R]; split; [reflexivity|exact R] | intros [H R]; inversion H; subst; split; [reflexivity|exact R]].
Qed.

Lemma mapM_parse_int T ls l :
  mapM (parse_int T) ls = Ok l <->
  all_some (map (text_number (t_signed T)) ls) = Some l /\ Forall (in_range T) l.
Proof.
  rewrite mapM_ok. revert l. induction ls as [|s ls IH]; intros l; cbn [map all_some].
  - split; [intros H; inversion H; split; [reflexivity|constructor] | intros [H _]; inversion H; constructor].
  - split.
    + intros H; inversion H as [|? y ? ys Hs Hl]; subst. apply parse_int_ok in Hs as [Ht Hr].
      apply IH in Hl as [Ha Hf]. rewrite Ht, Ha. split; [reflexivity|constructor; assumption].
    + intros [H F]. destruct (text_number (t_signed T) s) as [y|] eqn:Ht; [|discriminate].
      destruct (all_some (map (text_number (t_signed T)) ls)) as [ys|] eqn:Ha; [|discriminate].
      inversion H; subst. inversion F; subst. constructor.
      * apply parse_int_ok. split; assumption.
      * apply IH. split; [reflexivity|assumption].
Qed.

Lemma mapM_cast_int T xs l :
  mapM (cast_int T) xs = Ok l <-> xs = l /\ Forall (in_range T) l.
Proof.
  rewrite mapM_ok. revert l. induction xs as [|x xs IH]; intros l.
  - split; [intros H; inversion H; split; [reflexivity|constructor] | intros [<- _]; constructor].
  - split.
    + intros H; inversion H as [|? y ? ys Hx Hl]; subst. apply cast_int_ok in Hx as [-> Hr].
      apply IH in Hl as [-> Hf]. split; [reflexivity|constructor; assumption].
    + intros [<- F]. inversion F; subst. constructor; [apply cast_int_ok; split; [reflexivity|assumption]|].
      apply IH. split; [reflexivity|assumption].
Qed.

Theorem to_multi_int_exact T v l :
  to_multi_int T v = Ok l <-> all_numbers (t_signed T) v = Some l /\ Forall (in_range T) l.
Proof.
  destruct v as [|ls|s|k xs|xs|xs|kind xs]; cbn [to_multi_int all_numbers];
    try (split; [discriminate|intros [H _]; discriminate]).
  - split; [intros H; inversion H; split; [reflexivity|constructor] | intros [H _]; inversion H; reflexivity].
  - apply mapM_parse_int.
  - change (x <- parse_int T s ;; Ok [x]) with (mapM (parse_int T) [s]) at 1.
    change (all_some [text_number (t_signed T) s]) with (all_some (map (text_number (t_signed T)) [s])).
    apply mapM_parse_int.
  - rewrite mapM_cast_int. split; [intros [-> F]; split; [reflexivity|exact F] | intros [H F]; inversion H; subst; split; [reflexivity|exact F]].
Qed.

Theorem to_multi_int_length T v l : to_multi_int T v = Ok l -> length l = multiplicity v.
Proof.
  destruct v as [|ls|s|k xs|xs|xs|kind xs]; cbn [to_multi_int multiplicity]; try discriminate.
  - intros H; inversion H; reflexivity.
  - apply mapM_length.
  - destruct (parse_int T s); cbn [bind]; try discriminate. intros H; inversion H; reflexivity.
  - apply mapM_length.
Qed.

Theorem to_multi_int_empty T v :
  multiplicity v = 0%nat -> int_convertible v -> to_multi_int T v = Ok [].
Proof.
  destruct v as [|ls|s|k xs|xs|xs|kind xs]; cbn [multiplicity int_convertible to_multi_int]; intros H C;
    try contradiction; try discriminate; try reflexivity;
    apply length_zero_iff_nil in H; subst; reflexivity.
Qed.

Theorem to_int_is_first T v x l : to_multi_int T v = Ok (x :: l) -> to_int T v = Ok x.
Proof.
  destruct v as [|ls|s|k xs|xs|xs|kind xs]; cbn [to_multi_int to_int]; try discriminate.
  - destruct ls as [|s ls]; cbn [mapM]; [discriminate|].
    destruct (parse_int T s); cbn [bind]; try discriminate.
    destruct (mapM (parse_int T) ls); cbn [bind]; try discriminate. intros H; inversion H; reflexivity.
  - destruct (parse_int T s); cbn [bind]; try discriminate. intros H; inversion H; reflexivity.
  - destruct xs as [|y xs]; cbn [mapM]; [discriminate|].
    destruct (cast_int T y); cbn [bind]; try discriminate.
    destruct (mapM (cast_int T) xs); cbn [bind]; try discriminate. intros H; inversion H; reflexivity.
Qed.

Theorem int_conversions_no_panic T v w : to_int T v <> Panic w /\ to_multi_int T v <> Panic w.
Proof.
  split.
  - destruct v as [|ls|s|k xs|xs|xs|kind xs]; cbn [to_int]; try discriminate.
    + destruct ls; [discriminate|apply parse_int_no_panic].
    + apply parse_int_no_panic.
    + destruct xs; [discriminate|apply cast_int_no_panic].
  - destruct v as [|ls|s|k xs|xs|xs|kind xs]; cbn [to_multi_int]; try discriminate.
    + apply mapM_no_panic. intros; apply parse_int_no_panic.
    + destruct (parse_int T s) eqn:E; cbn [bind]; try discriminate. exfalso; exact (parse_int_no_panic _ _ _ E).
    + apply mapM_no_panic. intros; apply cast_int_no_panic.
Qed.

(** ================= floats: count and order ================= *)
Section Floats.
  Variable conv : ftarget -> fsrc -> option N.

  Theorem to_multi_float_sources tgt v l :
    to_multi_float conv tgt v = Ok l ->
    exists srcs, float_sources tgt v = Ok srcs /\ length srcs = multiplicity v
                 /\ Forall2 (fun s b => conv_item conv tgt s = Ok b) srcs l.
  Proof.
    unfold to_multi_float. destruct (float_sources tgt v) as [srcs| |] eqn:E; cbn [bind]; try discriminate.
    intros H. exists srcs. split; [reflexivity|]. split; [|apply mapM_ok; exact H].
    destruct v as [|ls|s|k xs|xs|xs|kind xs]; cbn [float_sources multiplicity] in *; inversion E; subst;
      try reflexivity; apply map_length.
  Qed.

  Theorem to_multi_float_length tgt v l :
    to_multi_float conv tgt v = Ok l -> length l = multiplicity v.
  Proof.
    intros H. destruct (to_multi_float_sources _ _ _ H) as [srcs [_ [L F]]].
    rewrite <- L. symmetry. eapply Forall2_len; exact F.
  Qed.

  Theorem to_multi_float_empty tgt v :
    multiplicity v = 0%nat -> float_convertible v -> to_multi_float conv tgt v = Ok [].
  Proof.
    unfold to_multi_float.
    destruct v as [|ls|s|k xs|xs|xs|kind xs]; cbn [multiplicity float_convertible float_sources]; intros H C;
      try contradiction; try discriminate; try reflexivity;
      apply length_zero_iff_nil in H; subst; reflexivity.
  Qed.

  Theorem to_float_is_first tgt v x l :
    to_multi_float conv tgt v = Ok (x :: l) -> to_float conv tgt v = Ok x.
  Proof.
    unfold to_multi_float, to_float.
    destruct v as [|ls|s|k xs|xs|xs|kind xs]; cbn [float_sources float_source_first bind mapM]; try discriminate.
    - destruct ls as [|s ls]; cbn [map mapM bind]; [discriminate|].
      destruct (conv_item conv tgt (FromText (trim_num s))); cbn [bind]; try discriminate.
      destruct (mapM _ _); cbn [bind]; try discriminate. intros H; inversion H; reflexivity.
    - destruct (conv_item conv tgt (FromText (trim_num s))); cbn [bind]; try discriminate.
      intros H; inversion H; reflexivity.
    - destruct xs as [|y xs]; cbn [map mapM bind]; [discriminate|].
      destruct (conv_item conv tgt (FromInt y)); cbn [bind]; try discriminate.
      destruct (mapM _ _); cbn [bind]; try discriminate. intros H; inversion H; reflexivity.
    - destruct xs as [|y xs]; cbn [map mapM bind]; [discriminate|].
      destruct (conv_item conv tgt (FromFloat (F32b y))); cbn [bind]; try discriminate.
      destruct (mapM _ _); cbn [bind]; try discriminate. intros H; inversion H; reflexivity.
    - destruct xs as [|y xs]; cbn [map mapM bind]; [discriminate|].
      destruct (conv_item conv tgt (FromFloat (F64b y))); cbn [bind]; try discriminate.
      destruct (mapM _ _); cbn [bind]; try discriminate. intros H; inversion H; reflexivity.
  Qed.

  (** stored floats of the target's own width are returned bit for bit *)
  Theorem to_multi_float_same_width :
    (forall l, to_multi_float conv TF32 (PF32 l) = Ok l) /\
    (forall l, to_multi_float conv TF64 (PF64 l) = Ok l).
  Proof.
    unfold to_multi_float; split; intros l; cbn [float_sources bind];
      induction l as [|b l IH]; cbn [map mapM conv_item bind]; try reflexivity; rewrite IH; reflexivity.
  Qed.
End Floats.

(** ================= integer casts ([as]) ================= *)

Lemma wrap_in_range k z : (nk_lo k <= wrap k z <= nk_hi k)%Z.
Proof.
  unfold wrap, nk_lo, nk_hi.
  destruct k; cbn [nk_signed nk_bits andb]; cbv beta iota zeta;
    match goal with |- context [(?a ^ ?b)%Z] => idtac end;
    repeat match goal with |- context [(2 ^ ?b)%Z] => let v := eval vm_compute in (2 ^ b)%Z in change (2 ^ b)%Z with v end;
    try match goal with |- context [(?a - 1)%Z] => idtac end;
    repeat match goal with |- context [Z.leb ?a ?b] => destruct (Z.leb_spec a b) end;
    zify; Z.div_mod_to_equations; lia.
Qed.

Lemma wrap_id k z : (nk_lo k <= z <= nk_hi k)%Z -> wrap k z = z.
Proof.
  unfold wrap, nk_lo, nk_hi.
  destruct k; cbn [nk_signed nk_bits andb]; cbv beta iota zeta;
    repeat match goal with |- context [(2 ^ ?b)%Z] => let v := eval vm_compute in (2 ^ b)%Z in change (2 ^ b)%Z with v end;
    intros H;
    repeat match goal with |- context [Z.leb ?a ?b] => destruct (Z.leb_spec a b) end;
    zify; Z.div_mod_to_equations; lia.
Qed.

Lemma wrap_congruent k z : ((wrap k z - z) mod 2 ^ nk_bits k = 0)%Z.
Proof.
  unfold wrap.
  destruct k; cbn [nk_signed nk_bits andb]; cbv beta iota zeta;
    repeat match goal with |- context [(2 ^ ?b)%Z] => let v := eval vm_compute in (2 ^ b)%Z in change (2 ^ b)%Z with v end;
    repeat match goal with |- context [Z.leb ?a ?b] => destruct (Z.leb_spec a b) end;
    zify; Z.div_mod_to_equations; lia.
Qed.

(** ================= extend / truncate against the list model ================= *)

Theorem truncate_items k v : items (truncate k v) = firstn k (items v).
Proof.
  destruct v as [|ls|s|kk xs|xs|xs|kind xs]; cbn [truncate items]; try (symmetry; apply firstn_map').
  - destruct k; reflexivity.
  - destruct k as [|k]; [reflexivity|]. cbn. destruct k; reflexivity.
Qed.

Theorem truncate_multiplicity k v : multiplicity (truncate k v) = Nat.min k (multiplicity v).
Proof.
  destruct v as [|ls|s|kk xs|xs|xs|kind xs]; cbn [truncate multiplicity]; try apply firstn_length.
  - lia.
  - destruct k; cbn; lia.
Qed.

Lemma multiplicity_items v : multiplicity v = length (items v).
Proof. destruct v; cbn; rewrite ?map_length; reflexivity. Qed.

Theorem extend_str_items v ss v' :
  extend_str v ss = Ok v' -> items v' = items v ++ map IStr ss.
Proof.
  destruct v as [|ls|s|kk xs|xs|xs|kind xs]; cbn [extend_str]; try discriminate;
    intros H; inversion H; subst; cbn [items app map]; try reflexivity. apply map_app.
Qed.

Theorem extend_str_ok_iff v ss :
  (exists v', extend_str v ss = Ok v') <-> (v = PEmpty \/ (exists l, v = PStrs l) \/ (exists s, v = PStr s)).
Proof.
  destruct v as [|ls|s|kk xs|xs|xs|kind xs]; cbn [extend_str]; split;
    try (intros [v' H]; discriminate); try (intros [H|[[? H]|[? H]]]; discriminate); eauto.
Qed.

Theorem extend_str_err v ss e : extend_str v ss = Err e -> e = E_incompatible_string.
Proof. destruct v; cbn; intros H; inversion H; reflexivity. Qed.

Section Extend.
  Variable ascast : ftarget -> xnum -> N.
  Variable f2i : numkind -> fnum -> Z.
  Variable fdisp : fnum -> str.

  (** the item a number becomes when appended to [v] (documented: text for
      textual values, [as] cast to the value's own number type otherwise; an
      empty value takes the type of the numbers given) *)
  Definition new_item (src : xsrc) (v : pvalue) (x : xnum) : item :=
    match v with
    | PEmpty => match src with SF32 => IF32 (x_bits x) | SF64 => IF64 (x_bits x) | _ => IInt (x_int x) end
    | PStrs _ | PStr _ => IStr (x_to_text fdisp x)
    | PNum k _ => IInt (x_to_num f2i k x)
    | PF32 _ => IF32 (x_to_float ascast TF32 x)
    | PF64 _ => IF64 (x_to_float ascast TF64 x)
    | POther _ _ => IOther 0
    end.

  Theorem extend_num_items src v xs v' :
    extend_num ascast f2i fdisp src v xs = Ok v' ->
    items v' = items v ++ map (new_item src v) xs.
  Proof.
    destruct v as [|ls|s|kk l|l|l|kind l]; cbn [extend_num]; try discriminate;
      intros H; inversion H; subst; cbn [items app new_item].
    - destruct src; cbn [fresh items]; rewrite map_map; reflexivity.
    - rewrite map_app, map_map. reflexivity.
    - cbn [map app]. rewrite map_map. reflexivity.
    - rewrite map_app, map_map. reflexivity.
    - rewrite map_app, map_map. reflexivity.
    - rewrite map_app, map_map. reflexivity.
  Qed.

  Theorem extend_num_ok_iff src v xs :
    (exists v', extend_num ascast f2i fdisp src v xs = Ok v') <-> float_convertible v.
  Proof.
    destruct v; cbn [extend_num float_convertible]; split; eauto; try (intros [v' H]; discriminate); contradiction.
  Qed.

  (** appended integers are cast exactly as Rust's [as]: same residue modulo
      2^bits, inside the type's range, unchanged when already representable *)
  Theorem extend_num_int_cast k l z :
    exists c, extend_num ascast f2i fdisp SI32 (PNum k l) [XInt z] = Ok (PNum k (l ++ [c]))
      /\ (nk_lo k <= c <= nk_hi k)%Z /\ ((c - z) mod 2 ^ nk_bits k = 0)%Z
      /\ ((nk_lo k <= z <= nk_hi k)%Z -> c = z).
  Proof.
    exists (wrap k z). repeat split; try apply wrap_in_range; try apply wrap_congruent. apply wrap_id.
  Qed.
End Extend.

(** ================= padded decimal text ================= *)

Lemma trim_start_matches_pad p a s :
  Forall (fun c => p c = true) a -> trim_start_matches p (a ++ s) = trim_start_matches p s.
Proof. induction 1 as [|c a Hc _ IH]; [reflexivity|]. cbn. rewrite Hc. exact IH. Qed.

Lemma trim_start_matches_stop p c s : p c = false -> trim_start_matches p (c :: s) = c :: s.
Proof. intros H. cbn. rewrite H. reflexivity. Qed.

Lemma trim_matches_padded p a core b :
  Forall (fun c => p c = true) a -> Forall (fun c => p c = true) b ->
  (exists c r, core = c :: r /\ p c = false) -> (exists r c, core = r ++ [c] /\ p c = false) ->
  trim_matches p (a ++ core ++ b) = core.
Proof.
  intros Ha Hb [c [r [Ec Hc]]] [r' [c' [Ec' Hc']]]. unfold trim_matches.
  rewrite trim_start_matches_pad by exact Ha.
  rewrite Ec at 1. cbn [app]. rewrite trim_start_matches_stop by exact Hc.
  change (c :: r ++ b) with ((c :: r) ++ b). rewrite <- Ec.
  rewrite rev_app_distr. rewrite trim_start_matches_pad by (apply Forall_rev; exact Hb).
  rewrite Ec' at 1. rewrite rev_app_distr. cbn [rev app]. rewrite trim_start_matches_stop by exact Hc'.
  change (c' :: rev r') with (rev [c'] ++ rev r'). rewrite <- rev_app_distr, rev_involutive. symmetry; exact Ec'.
Qed.

Lemma dec_digit_not_trimmed b : is_dec_digit b = true -> ws_or_nul b = false.
Proof.
  unfold is_dec_digit, ws_or_nul, is_ws. intros H. bdestr_in H; cbn in H; try discriminate.
  bdestr; cbn; try reflexivity; lia.
Qed.

Lemma text_int_print_dec signed n : text_int signed (print_dec n) = Some (Z.of_N n).
Proof.
  destruct (print_dec_spec n) as [Hv [Hall Hne]]. unfold text_int.
  destruct (print_dec n) as [|c r] eqn:E; [congruence|].
  assert (Hc : is_dec_digit c = true) by (cbn in Hall; apply andb_true_iff in Hall; tauto).
  destruct (dec_digit_not_sign _ Hc) as [Hp Hm]. rewrite Hp, Hm, andb_false_r.
  rewrite Hall, Hv. reflexivity.
Qed.

Theorem text_int_print_dec_z signed z :
  ((z < 0)%Z -> signed = true) -> text_int signed (print_dec_z z) = Some z.
Proof.
  intros Hs. destruct z as [|p|p]; cbn [print_dec_z].
  - apply (text_int_print_dec signed 0).
  - rewrite text_int_print_dec. reflexivity.
  - rewrite Hs by lia. unfold text_int. cbn [andb].
    change (minus_sign =? plus_sign) with false. change (minus_sign =? minus_sign) with true. cbv beta iota.
    destruct (print_dec_spec (N.pos p)) as [Hv [Hall Hne]].
    destruct (print_dec (N.pos p)) as [|c r] eqn:E; [congruence|]. rewrite Hall, Hv. reflexivity.
Qed.

Lemma print_dec_z_ends z :
  (exists c r, print_dec_z z = c :: r /\ ws_or_nul c = false) /\
  (exists r c, print_dec_z z = r ++ [c] /\ ws_or_nul c = false).
Proof.
  assert (D : forall n, (exists c r, print_dec n = c :: r /\ ws_or_nul c = false) /\
                        (exists r c, print_dec n = r ++ [c] /\ ws_or_nul c = false)).
  { intros n. destruct (print_dec_spec n) as [_ [Hall Hne]]. rewrite forallb_forall in Hall. split.
    - destruct (print_dec n) as [|c r] eqn:E; [congruence|]. exists c, r. split; [reflexivity|].
      apply dec_digit_not_trimmed, Hall. left; reflexivity.
    - destruct (exists_last Hne) as [r [c E]]. exists r, c. split; [exact E|].
      apply dec_digit_not_trimmed, Hall. rewrite E. apply in_or_app. right; left; reflexivity. }
  destruct z as [|p|p]; cbn [print_dec_z]; try apply D.
  destruct (D (N.pos p)) as [_ [r [c [E Hc]]]]. split.
  - exists minus_sign, (print_dec (N.pos p)). split; reflexivity.
  - exists (minus_sign :: r), c. split; [rewrite E; reflexivity|exact Hc].
Qed.

(** a number printed in decimal and padded with spaces / NULs converts back *)
Theorem to_int_padded_text T z a b :
  in_range T z -> ((z < 0)%Z -> t_signed T = true) ->
  Forall (fun c => ws_or_nul c = true) a -> Forall (fun c => ws_or_nul c = true) b ->
  to_int T (PStr (a ++ print_dec_z z ++ b)) = Ok z.
Proof.
  intros Hr Hs Ha Hb. apply to_int_exact. split; [|exact Hr]. cbn [first_number]. unfold text_number, trim_num.
  destruct (print_dec_z_ends z) as [Hh Ht].
  rewrite trim_matches_padded by assumption. apply text_int_print_dec_z. exact Hs.
Qed.

(** ================= what the three fixes changed ================= *)
Lemma unfixed_defects :
  to_multi_int_unfixed T_i32 (PNum KI32 []) = Err E_none /\
  to_multi_int_unfixed T_i32 (PNum KU64 []) = Err E_none /\
  to_multi_int_unfixed T_i32 (PNum KI64 []) = Err E_none /\
  float_sources_unfixed TF64 PEmpty = Err E_none /\
  multiplicity (truncate_unfixed 0 (PStr [120])) = 1%nat.
Proof. repeat split. Qed.
