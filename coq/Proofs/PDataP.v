(** Lemmas for C26 (and the P-DATA part of C34) about Model/PData.v. *)
From DicomV Require Import Base.Prelude Base.Endian Model.PData.
From Coq Require Import ZifyBool ZifyNat ZifyN.
Arguments enc_pdu : simpl never.
Arguments be32 : simpl never.
Arguments be_bytes : simpl never.

(* ------------------------------------------------------------------ len / take / drop *)
Lemma len_nil {A} : len (@nil A) = 0. Proof. reflexivity. Qed.
Lemma len_cons {A} (x : A) l : len (x :: l) = len l + 1.
Proof. unfold len; cbn [length]; lia. Qed.
Lemma len_app {A} (a b : list A) : len (a ++ b) = len a + len b.
Proof. unfold len; rewrite app_length; lia. Qed.
Lemma len_zero {A} (l : list A) : len l = 0 <-> l = [].
Proof. unfold len; destruct l; cbn; split; intros; try reflexivity; try discriminate; lia. Qed.
Lemma take_drop {A} n (l : list A) : take n l ++ drop n l = l.
Proof. apply firstn_skipn. Qed.
Lemma len_take {A} n (l : list A) : len (take n l) = N.min n (len l).
Proof. unfold len, take; rewrite firstn_length; lia. Qed.
Lemma len_drop {A} n (l : list A) : len (drop n l) = len l - n.
Proof. unfold len, drop; rewrite skipn_length; lia. Qed.
Lemma take_all {A} n (l : list A) : len l <= n -> take n l = l.
Proof. unfold len, take; intros; apply firstn_all2; lia. Qed.
Lemma drop_all {A} n (l : list A) : len l <= n -> drop n l = [].
Proof. unfold len, drop; intros; apply skipn_all2; lia. Qed.
Lemma take_0 {A} (l : list A) : take 0 l = []. Proof. reflexivity. Qed.
Lemma drop_0 {A} (l : list A) : drop 0 l = l. Proof. reflexivity. Qed.
Lemma take_app_l {A} n (a b : list A) : n <= len a -> take n (a ++ b) = take n a.
Proof.
  unfold len, take; intros. rewrite firstn_app.
  replace (N.to_nat n - length a)%nat with O by lia. cbn. apply app_nil_r.
Qed.
Lemma take_app_r {A} n (a b : list A) : len a <= n -> take n (a ++ b) = a ++ take (n - len a) b.
Proof.
  unfold len, take; intros. rewrite firstn_app. rewrite firstn_all2 by lia.
  f_equal. f_equal. lia.
Qed.
Lemma drop_app_l {A} n (a b : list A) : n <= len a -> drop n (a ++ b) = drop n a ++ b.
Proof.
  unfold len, drop; intros. rewrite skipn_app.
  replace (N.to_nat n - length a)%nat with O by lia. reflexivity.
Qed.
Lemma drop_app_r {A} n (a b : list A) : len a <= n -> drop n (a ++ b) = drop (n - len a) b.
Proof.
  unfold len, drop; intros. rewrite skipn_app. rewrite skipn_all2 by lia. cbn.
  f_equal. lia.
Qed.
Lemma take_len_app {A} (a b : list A) : take (len a) (a ++ b) = a.
Proof. rewrite take_app_l by lia. apply take_all; lia. Qed.
Lemma drop_len_app {A} (a b : list A) : drop (len a) (a ++ b) = b.
Proof. rewrite drop_app_r by lia. rewrite N.sub_diag. reflexivity. Qed.
Lemma skipn_skipn' {A} : forall m n (l : list A), skipn n (skipn m l) = skipn (m + n) l.
Proof.
  induction m as [|m IH]; intros n l; [reflexivity|].
  destruct l; cbn [skipn Nat.add]; [apply skipn_nil|apply IH].
Qed.
Lemma drop_drop {A} n m (l : list A) : drop n (drop m l) = drop (m + n) l.
Proof. unfold drop. rewrite skipn_skipn'. f_equal. lia. Qed.

(* ------------------------------------------------------------------ schedules *)
Lemma no_fault_tl e s : no_fault (e :: s) -> no_fault s.
Proof. intros H; inversion H; assumption. Qed.

Definition suffix {A} (a b : list A) : Prop := exists p, b = p ++ a.
Lemma suffix_refl {A} (a : list A) : suffix a a. Proof. exists []; reflexivity. Qed.
Lemma suffix_cons {A} x (a b : list A) : suffix a b -> suffix a (x :: b).
Proof. intros [p ->]. exists (x :: p). reflexivity. Qed.
Lemma suffix_trans {A} (a b c : list A) : suffix a b -> suffix b c -> suffix a c.
Proof. intros [p ->] [q ->]. exists (q ++ p). rewrite app_assoc. reflexivity. Qed.
Lemma suffix_length {A} (a b : list A) : suffix a b -> (length a <= length b)%nat.
Proof. intros [p ->]. rewrite app_length. lia. Qed.
Lemma no_fault_suffix a b : suffix a b -> no_fault b -> no_fault a.
Proof. intros [p ->] H. unfold no_fault in *. rewrite Forall_app in H. tauto. Qed.

(** write_all over a fault-free transport delivers everything *)
Lemma wall_ok s : forall w u data, no_fault s ->
  exists s' u', wall s w u data = (Ok tt, mk_tr s' (w ++ data) u') /\ suffix s' s.
Proof.
  induction s as [|e s IH]; intros w u data Hs.
  - destruct data; cbn.
    + exists [], u. rewrite app_nil_r. split; [reflexivity|apply suffix_refl].
    + exists [], u. split; [reflexivity|apply suffix_refl].
  - destruct data as [|x d].
    + exists (e :: s), u. cbn. rewrite app_nil_r. split; [reflexivity|apply suffix_refl].
    + inversion Hs as [|? ? [Hf Hz] Hs']; subst.
      destruct e as [n| |]; [| |congruence].
      * cbn [wall]. set (k := N.min n (len (x :: d))).
        assert (k <> 0) by (unfold k; rewrite len_cons; assert (n <> 0) by congruence; lia).
        destruct (k =? 0) eqn:E; [lia|].
        destruct (IH (w ++ take k (x :: d)) (u + 1) (drop k (x :: d)) Hs') as (s' & u' & Hw & Hsuf).
        exists s', u'. rewrite Hw. rewrite <- app_assoc, take_drop. split; [reflexivity|apply suffix_cons, Hsuf].
      * cbn [wall]. destruct (IH w (u + 1) (x :: d) Hs') as (s' & u' & Hw & Hsuf).
        exists s', u'. rewrite Hw. split; [reflexivity|apply suffix_cons, Hsuf].
Qed.

(** in general: Ok means everything was delivered, otherwise a prefix was *)
Lemma wall_prefix s : forall w u data r t,
  wall s w u data = (r, t) ->
  exists sent, wire t = w ++ sent /\ suffix (sched t) s /\
    match r with Ok _ => sent = data | Err _ => exists rest, data = sent ++ rest /\ rest <> [] | Panic _ => False end.
Proof.
  induction s as [|e s IH]; intros w u data r t H.
  - destruct data; cbn in H; inversion H; subst; cbn.
    + exists []. rewrite app_nil_r. repeat split. apply suffix_refl.
    + eexists. repeat split. apply suffix_refl.
  - destruct data as [|x d].
    + cbn in H. inversion H; subst; cbn. exists []. rewrite app_nil_r. repeat split. apply suffix_refl.
    + destruct e as [n| |]; cbn [wall] in H.
      * set (k := N.min n (len (x :: d))) in *.
        destruct (k =? 0) eqn:E.
        -- inversion H; subst; cbn. exists []. rewrite app_nil_r. repeat split.
           ++ apply suffix_cons, suffix_refl.
           ++ exists (x :: d). split; [reflexivity|discriminate].
        -- apply IH in H. destruct H as (sent & Hw & Hsuf & Hr).
           exists (take k (x :: d) ++ sent). rewrite Hw, app_assoc. repeat split.
           ++ apply suffix_cons, Hsuf.
           ++ destruct r; [subst; apply take_drop| |exact Hr].
              destruct Hr as (rest & Hd & Hne). exists rest. split; [|exact Hne].
              rewrite <- app_assoc, <- Hd. symmetry; apply take_drop.
      * apply IH in H. destruct H as (sent & Hw & Hsuf & Hr).
        exists sent. repeat split; [exact Hw|apply suffix_cons, Hsuf|exact Hr].
      * inversion H; subst; cbn. exists []. rewrite app_nil_r. repeat split.
        -- apply suffix_cons, suffix_refl.
        -- exists (x :: d). split; [reflexivity|discriminate].
Qed.

(* ------------------------------------------------------------------ header *)
Definition hdr_ok (ctx : N) (h : bytes) : Prop :=
  exists a b c d e f g i z, h = [4; 0; a; b; c; d; e; f; g; i; ctx; z].

Lemma hdr_ok_len ctx h : hdr_ok ctx h -> len h = 12.
Proof. intros (a&b&c&d&e&f&g&i&z&->). reflexivity. Qed.

Lemma initial_hdr_ok ctx : hdr_ok ctx (initial_buffer ctx).
Proof. unfold initial_buffer. do 9 eexists. reflexivity. Qed.

Lemma be32_four x : exists a b c d, be32 x = [a; b; c; d].
Proof. unfold be32, be_bytes. cbn. eauto. Qed.

Lemma setup_header_enc ctx h d last : hdr_ok ctx h -> len d + 6 < 2 ^ 32 ->
  setup_header (h ++ d) last = enc_pdu ctx (d, last).
Proof.
  intros Hh Hd. pose proof (hdr_ok_len _ _ Hh) as Hl.
  destruct Hh as (a&b&c&d'&e&f&g&i&z&->).
  unfold setup_header, enc_pdu. rewrite len_app, Hl.
  replace (12 + len d - HDR) with (len d) by (unfold HDR; lia).
  assert (2 ^ 32 = 4294967296) as P by reflexivity.
  rewrite (N.mod_small (len d)) by lia.
  rewrite !N.mod_small by lia.
  cbn [app firstn nth skipn fst snd]. reflexivity.
Qed.

Lemma enc_pdu_split ctx d last : exists h, hdr_ok ctx h /\ enc_pdu ctx (d, last) = h ++ d.
Proof.
  unfold enc_pdu; cbn [fst snd].
  destruct (be32_four (len d + 6)) as (a&b&c&e&->).
  destruct (be32_four (len d + 2)) as (f&g&i&j&->).
  exists [4; 0; a; b; c; e; f; g; i; j; ctx; if last then 2 else 0].
  split; [|reflexivity]. do 9 eexists. reflexivity.
Qed.

Lemma firstn12_hdr ctx h d : hdr_ok ctx h -> firstn 12 (h ++ d) = h.
Proof. intros (a&b&c&d'&e&f&g&i&z&->). reflexivity. Qed.

Lemma firstn12_enc ctx d last : hdr_ok ctx (firstn 12 (enc_pdu ctx (d, last))).
Proof.
  destruct (enc_pdu_split ctx d last) as (h & Hh & E). rewrite E.
  rewrite (firstn12_hdr ctx h d Hh). exact Hh.
Qed.

(* ------------------------------------------------------------------ fragments *)
Lemma frag_fuel cap : 0 < cap -> forall f1 f2 p,
  (length p <= f1)%nat -> (length p <= f2)%nat -> frag f1 cap p = frag f2 cap p.
Proof.
  intros Hc. induction f1 as [|f1 IH]; intros f2 p H1 H2.
  - destruct p; [|cbn in H1; lia]. destruct f2; [reflexivity|].
    cbn [frag]. rewrite len_nil. destruct (0 <=? cap) eqn:E; [reflexivity|lia].
  - destruct f2 as [|f2].
    + destruct p; [|cbn in H2; lia].
      cbn [frag]. rewrite len_nil. destruct (0 <=? cap) eqn:E; [reflexivity|lia].
    + cbn [frag]. destruct (len p <=? cap) eqn:E; [reflexivity|].
      f_equal. apply IH; unfold drop; rewrite skipn_length; unfold len in E; lia.
Qed.

Lemma fragments_small cap p : len p <= cap -> fragments cap p = [(p, true)].
Proof.
  intros H. unfold fragments. destruct (length p) eqn:E; [reflexivity|].
  cbn [frag]. destruct (len p <=? cap) eqn:E2; [reflexivity|lia].
Qed.

Lemma fragments_big cap p : 0 < cap -> cap < len p ->
  fragments cap p = (take cap p, false) :: fragments cap (drop cap p).
Proof.
  intros Hc H. unfold fragments. destruct (length p) eqn:E; [unfold len in H; lia|].
  cbn [frag]. destruct (len p <=? cap) eqn:E2; [lia|].
  f_equal. apply frag_fuel; [exact Hc| |lia].
  unfold drop; rewrite skipn_length; unfold len in H; lia.
Qed.

Lemma enc_all_cons ctx p ps : enc_all ctx (p :: ps) = enc_pdu ctx p ++ enc_all ctx ps.
Proof. reflexivity. Qed.

(* ------------------------------------------------------------------ sync writer *)
Section Writer.
  Variables ctx max : N.
  Hypothesis Hmax : 6 < max.
  Hypothesis Hmax32 : max + 6 < 2 ^ 32.
  Let cap := max - 6.

  Definition frags (p : bytes) : bytes := enc_all ctx (fragments cap p).

  Lemma frags_small p : len p <= cap -> frags p = enc_pdu ctx (p, true).
  Proof. intros H. unfold frags. rewrite fragments_small by exact H. unfold enc_all. cbn [map concat]. apply app_nil_r. Qed.

  Lemma frags_big p : cap < len p -> frags p = enc_pdu ctx (take cap p, false) ++ frags (drop cap p).
  Proof. intros H. unfold frags. rewrite fragments_big by (unfold cap in *; lia). reflexivity. Qed.

  Lemma dispatch_ok h d s w u : hdr_ok ctx h -> len d <= cap -> no_fault s ->
    exists h' s' u', dispatch (h ++ d) (mk_tr s w u) = (Ok tt, h', mk_tr s' (w ++ enc_pdu ctx (d, false)) u')
      /\ hdr_ok ctx h' /\ suffix s' s.
  Proof.
    intros Hh Hd Hs. unfold dispatch, write_all_tr. cbn [sched wire used].
    rewrite (setup_header_enc ctx h d false Hh) by (unfold cap in *; lia).
    destruct (wall_ok s w u (enc_pdu ctx (d, false)) Hs) as (s' & u' & -> & Hsuf).
    exists (firstn 12 (enc_pdu ctx (d, false))), s', u'.
    split; [reflexivity|]. split; [apply firstn12_enc|exact Hsuf].
  Qed.

  (** one call of write on non-empty input takes at least one byte and keeps
      the residual: what will be on the wire once everything is written *)
  Lemma pw_write_ok h pend s w u buf : hdr_ok ctx h -> len pend <= cap -> no_fault s -> buf <> [] ->
    exists n h' pend' s' w' u',
      pw_write max (h ++ pend) (mk_tr s w u) buf = (Ok n, h' ++ pend', mk_tr s' w' u')
      /\ 0 < n <= len buf /\ hdr_ok ctx h' /\ len pend' <= cap /\ suffix s' s
      /\ forall rest, w ++ frags (pend ++ buf ++ rest) = w' ++ frags (pend' ++ drop n buf ++ rest).
  Proof.
    intros Hh Hp Hs Hb. pose proof (hdr_ok_len _ _ Hh) as Hl.
    assert (0 < len buf) as Hbl by (destruct buf; [congruence|rewrite len_cons; lia]).
    unfold pw_write. rewrite len_app, Hl. unfold total, HDR.
    destruct (12 + len pend + len buf <=? max + 6) eqn:E1.
    { (* accumulate *)
      exists (len buf), h, (pend ++ buf), s, w, u. rewrite <- app_assoc.
      repeat split; try assumption; try lia.
      - rewrite len_app; unfold cap; lia.
      - apply suffix_refl.
      - intros rest. rewrite drop_all by lia. rewrite <- app_assoc. reflexivity. }
    destruct ((12 + len pend =? max + 6) && (12 <? max + 6)) eqn:E2.
    { (* the buffer is already full: send it, then take bytes *)
      assert (len pend = cap) as Hfull by (unfold cap; lia).
      destruct (dispatch_ok h pend s w u Hh Hp Hs) as (h1 & s1 & u1 & -> & Hh1 & Hsuf1).
      pose proof (hdr_ok_len _ _ Hh1) as Hl1. rewrite Hl1.
      assert (forall rest, frags (pend ++ buf ++ rest) = enc_pdu ctx (pend, false) ++ frags (buf ++ rest)) as Hres.
      { intros rest. rewrite frags_big by (rewrite !len_app; lia).
        rewrite <- Hfull, take_len_app, drop_len_app. reflexivity. }
      destruct (12 + len buf <=? max + 6) eqn:E3.
      - exists (len buf), h1, buf, s1, (w ++ enc_pdu ctx (pend, false)), u1.
        repeat split; try assumption; try lia.
        intros rest. rewrite Hres, drop_all by lia. rewrite app_assoc. reflexivity.
      - unfold write_fill. rewrite Hl1. unfold total.
        destruct (max + 6 <? 12) eqn:E4; [lia|].
        replace (max + 6 - 12) with cap by (unfold cap; lia).
        assert (no_fault s1) as Hs1 by (eapply no_fault_suffix; eassumption).
        destruct (dispatch_ok h1 (take cap buf) s1 (w ++ enc_pdu ctx (pend, false)) u1 Hh1) as (h2 & s2 & u2 & -> & Hh2 & Hsuf2);
          [rewrite len_take; lia|exact Hs1|].
        exists cap, h2, [], s2, ((w ++ enc_pdu ctx (pend, false)) ++ enc_pdu ctx (take cap buf, false)), u2.
        rewrite app_nil_r. repeat split; try assumption; try lia.
        + rewrite len_nil; lia.
        + eapply suffix_trans; eassumption.
        + intros rest. rewrite Hres. rewrite frags_big by (rewrite len_app; lia).
          rewrite take_app_l, drop_app_l by lia. cbn [app]. rewrite <- !app_assoc. reflexivity. }
    (* fill the buffer and send it *)
    unfold write_fill. rewrite len_app, Hl. unfold total.
    destruct (max + 6 <? 12 + len pend) eqn:E4; [unfold cap in Hp; lia|].
    set (n := max + 6 - (12 + len pend)).
    assert (0 < n /\ n = cap - len pend /\ n < len buf) as (Hn0 & Hn & Hnb) by (unfold n, cap in *; lia).
    rewrite <- app_assoc.
    destruct (dispatch_ok h (pend ++ take n buf) s w u Hh) as (h2 & s2 & u2 & -> & Hh2 & Hsuf2);
      [rewrite len_app, len_take; lia|exact Hs|].
    exists n, h2, [], s2, (w ++ enc_pdu ctx (pend ++ take n buf, false)), u2.
    rewrite app_nil_r. repeat split; try assumption; try lia.
    - rewrite len_nil; lia.
    - intros rest. rewrite frags_big by (rewrite !len_app; lia).
      rewrite take_app_r, drop_app_r by lia.
      replace (cap - len pend) with n by lia.
      rewrite take_app_l, drop_app_l by lia. cbn [app]. rewrite <- app_assoc. reflexivity.
  Qed.

  Lemma pw_write_all_ok : forall fuel data h pend s w u,
    (length data <= fuel)%nat -> hdr_ok ctx h -> len pend <= cap -> no_fault s ->
    exists h' pend' s' w' u',
      pw_write_all fuel max (h ++ pend) (mk_tr s w u) data = (Ok tt, h' ++ pend', mk_tr s' w' u')
      /\ hdr_ok ctx h' /\ len pend' <= cap /\ suffix s' s
      /\ forall rest, w ++ frags (pend ++ data ++ rest) = w' ++ frags (pend' ++ rest).
  Proof.
    induction fuel as [|fuel IH]; intros data h pend s w u Hf Hh Hp Hs.
    - destruct data; [|cbn in Hf; lia]. exists h, pend, s, w, u. cbn.
      repeat split; try assumption. apply suffix_refl.
    - destruct data as [|x data].
      + exists h, pend, s, w, u. cbn. repeat split; try assumption. apply suffix_refl.
      + cbn [pw_write_all].
        destruct (pw_write_ok h pend s w u (x :: data) Hh Hp Hs) as (n & h1 & p1 & s1 & w1 & u1 & -> & Hn & Hh1 & Hp1 & Hsuf1 & Hres1);
          [discriminate|].
        destruct (n =? 0) eqn:E; [lia|].
        destruct (IH (drop n (x :: data)) h1 p1 s1 w1 u1) as (h2 & p2 & s2 & w2 & u2 & -> & Hh2 & Hp2 & Hsuf2 & Hres2); try assumption.
        * unfold drop; rewrite skipn_length. cbn [length] in *. lia.
        * eapply no_fault_suffix; eassumption.
        * exists h2, p2, s2, w2, u2. repeat split; try assumption.
          -- eapply suffix_trans; eassumption.
          -- intros rest. rewrite <- Hres2. apply Hres1.
  Qed.

  Lemma sync_ops_ok : forall chunks h pend s w u,
    hdr_ok ctx h -> len pend <= cap -> no_fault s ->
    exists h' pend' s' w' u',
      sync_ops max (h ++ pend) (mk_tr s w u) (map OpWrite chunks) = (all_ok (length chunks), true, h' ++ pend', mk_tr s' w' u')
      /\ hdr_ok ctx h' /\ len pend' <= cap /\ suffix s' s
      /\ forall rest, w ++ frags (pend ++ concat chunks ++ rest) = w' ++ frags (pend' ++ rest).
  Proof.
    induction chunks as [|c chunks IH]; intros h pend s w u Hh Hp Hs.
    - exists h, pend, s, w, u. cbn. repeat split; try assumption. apply suffix_refl.
    - cbn [map sync_ops].
      destruct (pw_write_all_ok (length c) c h pend s w u (le_n _) Hh Hp Hs) as (h1 & p1 & s1 & w1 & u1 & -> & Hh1 & Hp1 & Hsuf1 & Hres1).
      cbn [is_okb].
      destruct (IH h1 p1 s1 w1 u1 Hh1 Hp1) as (h2 & p2 & s2 & w2 & u2 & -> & Hh2 & Hp2 & Hsuf2 & Hres2);
        [eapply no_fault_suffix; eassumption|].
      exists h2, p2, s2, w2, u2. repeat split; try assumption.
      + eapply suffix_trans; eassumption.
      + intros rest. cbn [concat]. rewrite <- Hres2. rewrite <- app_assoc. apply Hres1.
  Qed.

  Lemma finish_ok h pend s w u : hdr_ok ctx h -> len pend <= cap -> no_fault s ->
    exists s' u', finish_impl (h ++ pend) (mk_tr s w u) = (Ok tt, [], mk_tr s' (w ++ frags pend) u') /\ suffix s' s.
  Proof.
    intros Hh Hp Hs. unfold finish_impl.
    destruct (h ++ pend) eqn:E.
    { apply (f_equal len) in E. rewrite len_app, (hdr_ok_len _ _ Hh), len_nil in E. lia. }
    rewrite <- E. rewrite (setup_header_enc ctx h pend true Hh) by (unfold cap in *; lia).
    unfold write_all_tr. cbn [sched wire used].
    destruct (wall_ok s w u (enc_pdu ctx (pend, true)) Hs) as (s' & u' & -> & Hsuf).
    exists s', u'. rewrite frags_small by exact Hp. auto.
  Qed.

  (** the sync writer over any fault-free transport: every operation succeeds
      and the wire carries exactly the fragments of the concatenated chunks *)
  Theorem run_sync_ok chunks s : no_fault s ->
    exists u, run_sync ctx max (map OpWrite chunks) s true
              = (all_ok (S (length chunks)), enc_all ctx (fragments cap (concat chunks)), u).
  Proof.
    intros Hs. unfold run_sync.
    replace (initial_buffer ctx) with (initial_buffer ctx ++ []) by apply app_nil_r.
    destruct (sync_ops_ok chunks (initial_buffer ctx) [] s [] 0 (initial_hdr_ok ctx)) as (h1 & p1 & s1 & w1 & u1 & -> & Hh1 & Hp1 & Hsuf1 & Hres1);
      [rewrite len_nil; lia|exact Hs|].
    cbn [andb].
    destruct (finish_ok h1 p1 s1 w1 u1 Hh1 Hp1) as (s2 & u2 & -> & Hsuf2);
      [eapply no_fault_suffix; eassumption|].
    cbn [finish_impl wire used]. exists u2.
    assert (all_ok (length chunks) ++ [Ok tt] = all_ok (S (length chunks))) as ->.
    { unfold all_ok. replace (S (length chunks)) with (length chunks + 1)%nat by lia.
      rewrite repeat_app. reflexivity. }
    specialize (Hres1 []). rewrite !app_nil_r in Hres1. cbn [app] in Hres1.
    rewrite <- Hres1. reflexivity.
  Qed.

  (* ---------------------------------------------------------------- async writer *)
  Lemma drain_nf s : forall w u rest, no_fault s -> rest <> [] ->
    (exists s' u', drain s w u rest = (DDone, mk_tr s' (w ++ rest) u') /\ suffix s' s) \/
    (exists sent rem s' u', drain s w u rest = (DPend rem, mk_tr s' (w ++ sent) u')
       /\ rest = sent ++ rem /\ rem <> [] /\ suffix s' s /\ (length s' < length s)%nat).
  Proof.
    induction s as [|e s IH]; intros w u rest Hs Hr.
    - left. exists [], u. cbn [drain].
      destruct (len rest =? 0) eqn:E; [apply N.eqb_eq, len_zero in E; congruence|].
      split; [reflexivity|apply suffix_refl].
    - inversion Hs as [|? ? [Hf Hz] Hs']; subst.
      assert (0 < len rest) as Hl by (destruct rest; [congruence|rewrite len_cons; lia]).
      destruct e as [n| |]; [| |congruence]; cbn [drain].
      + set (k := N.min n (len rest)).
        assert (k <> 0) by (assert (n <> 0) by congruence; lia).
        destruct (k =? 0) eqn:E; [lia|].
        destruct (k =? len rest) eqn:E2.
        * left. exists s, (u + 1). split; [reflexivity|apply suffix_cons, suffix_refl].
        * destruct (IH (w ++ take k rest) (u + 1) (drop k rest) Hs') as [(s' & u' & Hd & Hsuf)|(sent & rem & s' & u' & Hd & Hrest & Hrem & Hsuf & Hlen)].
          -- intros Hn. apply (f_equal len) in Hn. rewrite len_drop, len_nil in Hn. lia.
          -- left. exists s', u'. rewrite Hd, <- app_assoc, take_drop.
             split; [reflexivity|apply suffix_cons, Hsuf].
          -- right. exists (take k rest ++ sent), rem, s', u'. rewrite Hd, <- app_assoc.
             repeat split; try assumption.
             ++ rewrite <- app_assoc, <- Hrest. symmetry. apply take_drop.
             ++ apply suffix_cons, Hsuf.
             ++ cbn [length]. lia.
      + right. exists [], rest, s, (u + 1). rewrite app_nil_r.
        repeat split; try assumption. apply suffix_cons, suffix_refl. cbn [length]. lia.
  Qed.

  Definition lsched (st : astate) : nat := length (sched (snd st)).

  Definition ready_inv (R : bytes -> bytes) (st : astate) (D : bytes) : Prop :=
    exists h pend s w u, st = (h ++ pend, WReady, mk_tr s w u) /\ hdr_ok ctx h /\ len pend <= cap
      /\ no_fault s /\ forall rest, R rest = w ++ frags (pend ++ D ++ rest).

  Definition writing_inv (R : bytes -> bytes) (st : astate) (D : bytes) : Prop :=
    exists sent rem consumed s w0 u,
      st = (sent ++ rem, WWriting (len sent) consumed, mk_tr s (w0 ++ sent) u)
      /\ rem <> [] /\ hdr_ok ctx (firstn 12 (sent ++ rem)) /\ consumed <= len D /\ no_fault s
      /\ forall rest, R rest = w0 ++ (sent ++ rem) ++ frags (drop consumed D ++ rest).

  Definition poll_post (R : bytes -> bytes) (n0 : nat) (D : bytes) (r : poll (outcome N) * astate) : Prop :=
    match r with
    | (PReady (Ok n), st') => 0 < n <= len D /\ ready_inv R st' (drop n D) /\ (lsched st' <= n0)%nat
    | (PPending, st') => writing_inv R st' D /\ (lsched st' < n0)%nat
    | _ => False
    end.

  Definition after_drain (d : nat) (n : N) (B buf : bytes) (r : dres * tr) : poll (outcome N) * astate :=
    match r with
    | (DDone, t') =>
        if n =? 0 then
          match d with
          | O => (PReady (Err E_FUEL), (firstn 12 B, WReady, t'))
          | S d' => apoll_ready d' max (firstn 12 B) t' buf
          end
        else (PReady (Ok n), (firstn 12 B, WReady, t'))
    | (DPend rest, t') => (PPending, (B, WWriting (len B - len rest) n, t'))
    | (DErr e, t') => (PReady (Err e), (B, WReady, t'))
    end.

  (** poll_write in state Ready when the input does not fit *)
  Lemma apoll_ready_unfold d h pend t buf :
    hdr_ok ctx h -> len pend <= cap -> max + 6 < 12 + len pend + len buf ->
    apoll_ready d max (h ++ pend) t buf =
      after_drain d (cap - len pend) (enc_pdu ctx (pend ++ take (cap - len pend) buf, false)) buf
        (drain_tr t (enc_pdu ctx (pend ++ take (cap - len pend) buf, false))).
  Proof.
    intros Hh Hp Hbig. pose proof (hdr_ok_len _ _ Hh) as Hl.
    destruct d; cbn [apoll_ready]; rewrite len_app, Hl; unfold total, HDR.
    all: destruct (12 + len pend + len buf <=? max + 6) eqn:E1; [lia|].
    all: destruct (max + 6 <? 12 + len pend) eqn:E4; [unfold cap in Hp; lia|].
    all: replace (max + 6 - (12 + len pend)) with (cap - len pend) by (unfold cap in *; lia).
    all: rewrite <- app_assoc.
    all: rewrite (setup_header_enc ctx h (pend ++ take (cap - len pend) buf) false Hh)
           by (rewrite len_app, len_take; unfold cap in *; lia).
    all: replace (12 <? max + 6) with true by (symmetry; apply N.ltb_lt; lia).
    all: rewrite andb_true_r.
    all: unfold after_drain; reflexivity.
  Qed.

  Lemma apoll_ready_fits d h pend t buf :
    hdr_ok ctx h -> 12 + len pend + len buf <= max + 6 ->
    apoll_ready d max (h ++ pend) t buf = (PReady (Ok (len buf)), ((h ++ pend) ++ buf, WReady, t)).
  Proof.
    intros Hh Hfit. pose proof (hdr_ok_len _ _ Hh) as Hl.
    destruct d; cbn [apoll_ready]; rewrite len_app, Hl; unfold total.
    all: destruct (12 + len pend + len buf <=? max + 6) eqn:E1; [reflexivity|lia].
  Qed.

  Lemma enc_pdu_nonempty d last : enc_pdu ctx (d, last) <> [].
  Proof. destruct (enc_pdu_split ctx d last) as (hh & (a&b&c&d'&e&f&g&i&z&->) & ->). discriminate. Qed.

  (** residual equation of sending the buffer filled up with the first bytes of [buf] *)
  Lemma frags_fill pend buf rest : len pend <= cap -> cap < len pend + len buf ->
    frags (pend ++ buf ++ rest) =
      enc_pdu ctx (pend ++ take (cap - len pend) buf, false) ++ frags (drop (cap - len pend) buf ++ rest).
  Proof.
    intros Hp Hbig. rewrite frags_big by (rewrite !len_app; lia).
    rewrite take_app_r, drop_app_r by lia.
    rewrite take_app_l, drop_app_l by lia. reflexivity.
  Qed.

  (** the part shared by every way of sending a complete PDU [B] *)
  Lemma after_drain_inv d R n B buf s w u :
    no_fault s -> buf <> [] -> n <= len buf -> B <> [] -> hdr_ok ctx (firstn 12 B) ->
    (forall rest, R rest = w ++ B ++ frags (drop n buf ++ rest)) ->
    (n = 0 -> exists d', d = S d' /\
       forall s' u', suffix s' s -> poll_post R (length s') buf (apoll_ready d' max (firstn 12 B) (mk_tr s' (w ++ B) u') buf)) ->
    poll_post R (length s) buf (after_drain d n B buf (drain s w u B)).
  Proof.
    intros Hs Hb Hn HB Hh HR Hrec.
    destruct (drain_nf s w u B Hs HB) as [(s' & u' & -> & Hsuf)|(sent & rem & s' & u' & -> & HBs & Hrem & Hsuf & Hlen)];
      cbn [after_drain].
    - pose proof (suffix_length _ _ Hsuf) as Hle.
      destruct (n =? 0) eqn:E.
      + destruct Hrec as (d' & -> & Hrec); [lia|]. specialize (Hrec s' u' Hsuf).
        destruct (apoll_ready d' max (firstn 12 B) (mk_tr s' (w ++ B) u') buf) as [[[n'|e'|p']|] st']; cbn [poll_post] in *; try contradiction.
        * destruct Hrec as (? & ? & ?). repeat split; try assumption; lia.
        * destruct Hrec as (? & ?). split; [assumption|lia].
      + cbn [poll_post]. split; [lia|]. split; [|unfold lsched; cbn; exact Hle].
        exists (firstn 12 B), [], s', (w ++ B), u'. rewrite app_nil_r.
        repeat split; try assumption.
        * rewrite len_nil; lia.
        * eapply no_fault_suffix; eassumption.
        * intros rest. rewrite HR. cbn [app]. rewrite app_assoc. reflexivity.
    - cbn [poll_post]. split; [|unfold lsched; cbn; lia].
      replace (len B - len rem) with (len sent) by (rewrite HBs, len_app; lia).
      exists sent, rem, n, s', w, u'. rewrite <- HBs.
      repeat split; try assumption.
      eapply no_fault_suffix; eassumption.
  Qed.

  Lemma apoll_ready_inv1 d R h pend s w u buf :
    hdr_ok ctx h -> len pend < cap -> no_fault s -> buf <> [] ->
    (forall rest, R rest = w ++ frags (pend ++ buf ++ rest)) ->
    poll_post R (length s) buf (apoll_ready d max (h ++ pend) (mk_tr s w u) buf).
  Proof.
    intros Hh Hp Hs Hb HR.
    assert (0 < len buf) as Hbl by (destruct buf; [congruence|rewrite len_cons; lia]).
    destruct (12 + len pend + len buf <=? max + 6) eqn:E1.
    - rewrite apoll_ready_fits by (assumption || lia).
      cbn [poll_post]. split; [lia|]. split; [|unfold lsched; cbn; lia].
      exists h, (pend ++ buf), s, w, u. rewrite <- app_assoc.
      repeat split; try assumption; [rewrite len_app; unfold cap; lia|].
      intros rest. rewrite HR, drop_all by lia. rewrite <- app_assoc. reflexivity.
    - rewrite apoll_ready_unfold by (assumption || lia).
      unfold drain_tr; cbn [sched wire used].
      apply after_drain_inv; try assumption.
      + unfold cap in *; lia.
      + apply enc_pdu_nonempty.
      + apply firstn12_enc.
      + intros rest. rewrite HR. rewrite frags_fill by (unfold cap in *; lia). reflexivity.
      + intros; lia.
  Qed.

  Lemma apoll_ready_inv R h pend s w u buf :
    hdr_ok ctx h -> len pend <= cap -> no_fault s -> buf <> [] ->
    (forall rest, R rest = w ++ frags (pend ++ buf ++ rest)) ->
    poll_post R (length s) buf (apoll_ready 1 max (h ++ pend) (mk_tr s w u) buf).
  Proof.
    intros Hh Hp Hs Hb HR.
    assert (0 < len buf) as Hbl by (destruct buf; [congruence|rewrite len_cons; lia]).
    destruct (len pend <? cap) eqn:E; [apply apoll_ready_inv1; assumption || lia|].
    assert (len pend = cap) as Hfull by lia.
    rewrite apoll_ready_unfold by (assumption || unfold cap in *; lia).
    unfold drain_tr; cbn [sched wire used].
    apply after_drain_inv; try assumption.
    - lia.
    - apply enc_pdu_nonempty.
    - apply firstn12_enc.
    - intros rest. rewrite HR. rewrite frags_fill by lia. reflexivity.
    - intros _. exists O. split; [reflexivity|]. intros s' u' Hsuf.
      assert (cap - len pend = 0) as Hz by lia. rewrite Hz.
      set (B := enc_pdu ctx (pend ++ take 0 buf, false)).
      replace (firstn 12 B) with (firstn 12 B ++ []) by apply app_nil_r.
      apply apoll_ready_inv1; try assumption.
      + apply firstn12_enc.
      + rewrite len_nil. unfold cap. lia.
      + eapply no_fault_suffix; eassumption.
      + intros rest. rewrite HR. rewrite frags_fill by lia.
        rewrite Hz, drop_0. cbn [app]. rewrite app_assoc. reflexivity.
  Qed.

  Lemma apoll_write_inv R st D : D <> [] -> ready_inv R st D \/ writing_inv R st D ->
    poll_post R (lsched st) D (apoll_write max st D).
  Proof.
    intros HD [(h & pend & s & w & u & -> & Hh & Hp & Hs & HR)|(sent & rem & consumed & s & w0 & u & -> & Hrem & Hh & Hc & Hs & HR)].
    - cbn [apoll_write]. unfold lsched; cbn [snd sched]. apply apoll_ready_inv; assumption.
    - cbn [apoll_write].
      destruct (len (sent ++ rem) <? len sent) eqn:E; [rewrite len_app in E; lia|].
      rewrite drop_len_app. unfold drain_tr, lsched; cbn [sched wire used snd].
      destruct (drain_nf s (w0 ++ sent) u rem Hs Hrem) as [(s' & u' & -> & Hsuf)|(sent2 & rem2 & s' & u' & -> & Hr2 & Hrem2 & Hsuf & Hlen)].
      + pose proof (suffix_length _ _ Hsuf) as Hle.
        replace (12 <? total max) with true by (symmetry; apply N.ltb_lt; unfold total; lia).
        unfold HDR. replace (12 <? total max) with true by (symmetry; apply N.ltb_lt; unfold total; lia).
        rewrite andb_true_r. rewrite <- app_assoc.
        destruct (consumed =? 0) eqn:E0.
        * assert (consumed = 0) as -> by lia.
          assert (poll_post R (length s') D (apoll_ready 1 max (firstn 12 (sent ++ rem) ++ []) (mk_tr s' (w0 ++ sent ++ rem) u') D)) as Hrec.
          { apply apoll_ready_inv; try assumption.
            - rewrite len_nil; lia.
            - eapply no_fault_suffix; eassumption.
            - intros rest. rewrite HR, drop_0. cbn [app]. rewrite <- !app_assoc. reflexivity. }
          rewrite app_nil_r in Hrec.
          destruct (apoll_ready 1 max (firstn 12 (sent ++ rem)) (mk_tr s' (w0 ++ sent ++ rem) u') D) as [[[n'|e'|p']|] st']; cbn [poll_post] in *; try contradiction.
          -- destruct Hrec as (? & ? & ?). repeat split; try assumption; lia.
          -- destruct Hrec as (? & ?). split; [assumption|lia].
        * cbn [poll_post]. split; [lia|]. split; [|unfold lsched; cbn; exact Hle].
          exists (firstn 12 (sent ++ rem)), [], s', (w0 ++ sent ++ rem), u'. rewrite app_nil_r.
          repeat split; try assumption.
          -- rewrite len_nil; lia.
          -- eapply no_fault_suffix; eassumption.
          -- intros rest. rewrite HR. cbn [app]. rewrite <- !app_assoc. reflexivity.
      + cbn [poll_post]. split; [|unfold lsched; cbn; lia].
        replace (len (sent ++ rem) - len rem2) with (len (sent ++ sent2)) by (rewrite Hr2, !len_app; lia).
        exists (sent ++ sent2), rem2, consumed, s', w0, u'.
        rewrite <- !app_assoc, <- Hr2.
        repeat split; try assumption.
        eapply no_fault_suffix; eassumption.
  Qed.

  Definition wa_post (R : bytes -> bytes) (n0 : nat) (r : poll (outcome unit) * astate * bytes) : Prop :=
    match r with
    | (PReady (Ok _), st', _) => ready_inv R st' [] /\ (lsched st' <= n0)%nat
    | (PPending, st', D') => D' <> [] /\ writing_inv R st' D' /\ (lsched st' < n0)%nat
    | _ => False
    end.

  Lemma wa_poll_inv : forall fuel R st D, (length D < fuel)%nat ->
    ready_inv R st D \/ (D <> [] /\ writing_inv R st D) ->
    wa_post R (lsched st) (wa_poll fuel max st D).
  Proof.
    induction fuel as [|fuel IH]; intros R st D Hf Hinv; [lia|].
    destruct D as [|x D].
    - cbn [wa_poll wa_post]. destruct Hinv as [H|[H _]]; [|congruence]. split; [exact H|lia].
    - cbn [wa_poll].
      assert (poll_post R (lsched st) (x :: D) (apoll_write max st (x :: D))) as Hp.
      { apply apoll_write_inv; [discriminate|]. destruct Hinv as [H|[_ H]]; auto. }
      destruct (apoll_write max st (x :: D)) as [[[n|e|p]|] st']; cbn [poll_post] in Hp; try contradiction.
      + destruct Hp as (Hn & Hr & Hl).
        destruct (len (x :: D) <? n) eqn:E1; [lia|].
        destruct (n =? 0) eqn:E2; [lia|].
        assert (wa_post R (lsched st') (wa_poll fuel max st' (drop n (x :: D)))) as Hrec.
        { apply IH; [|left; exact Hr]. unfold drop. rewrite skipn_length. cbn [length] in *. lia. }
        destruct (wa_poll fuel max st' (drop n (x :: D))) as [[[[[]|e'|p']|] st''] D'']; cbn [wa_post] in *; try contradiction.
        * destruct Hrec. split; [assumption|lia].
        * destruct Hrec as (? & ? & ?). repeat split; try assumption; lia.
      + cbn [wa_post]. destruct Hp. repeat split; try assumption. discriminate.
  Qed.

  Lemma wa_await_inv : forall polls R st D, (lsched st < polls)%nat ->
    ready_inv R st D \/ (D <> [] /\ writing_inv R st D) ->
    exists st', wa_await polls false max st D = (Ok tt, st') /\ ready_inv R st' [] /\ (lsched st' <= lsched st)%nat.
  Proof.
    induction polls as [|polls IH]; intros R st D Hp Hinv; [lia|].
    cbn [wa_await].
    pose proof (wa_poll_inv (S (length D)) R st D (Nat.lt_succ_diag_r _) Hinv) as H.
    destruct (wa_poll (S (length D)) max st D) as [[[[[]|e'|p']|] st'] D']; cbn [wa_post] in H; try contradiction.
    - exists st'. destruct H. repeat split; assumption.
    - destruct H as (HD' & Hw & Hl).
      destruct (IH R st' D') as (st'' & -> & Hr & Hl'); [lia|right; split; assumption|].
      exists st''. repeat split; try assumption. lia.
  Qed.

  Lemma ready_inv_ext R R' st D : (forall rest, R rest = R' rest) -> ready_inv R st D -> ready_inv R' st D.
  Proof.
    intros E (h & pend & s & w & u & -> & Hh & Hp & Hs & HR).
    exists h, pend, s, w, u. repeat split; try assumption. intros rest. rewrite <- E. apply HR.
  Qed.

  Lemma async_ops_ok : forall chunks R st,
    ready_inv R st [] ->
    exists st', async_ops max st (map OpWrite chunks) = (all_ok (length chunks), true, st')
      /\ ready_inv (fun rest => R (concat chunks ++ rest)) st' [].
  Proof.
    induction chunks as [|c chunks IH]; intros R st Hinv.
    - exists st. split; [reflexivity|]. exact Hinv.
    - cbn [map async_ops].
      assert (ready_inv (fun rest => R (c ++ rest)) st c) as Hc.
      { destruct Hinv as (h & pend & s & w & u & -> & Hh & Hp & Hs & HR).
        exists h, pend, s, w, u. repeat split; try assumption.
        intros rest. rewrite HR. reflexivity. }
      destruct (wa_await_inv (S (lsched st)) _ st c (Nat.lt_succ_diag_r _) (or_introl Hc)) as (st' & Hw & Hr & _).
      unfold lsched in Hw. rewrite Hw. cbn [is_okb orb].
      destruct (IH _ st' Hr) as (st'' & -> & Hr'').
      exists st''. split; [reflexivity|].
      eapply ready_inv_ext; [|exact Hr'']. intros rest. cbn beta. cbn [concat]. rewrite <- app_assoc. reflexivity.
  Qed.

  Theorem run_async_ok chunks s : no_fault s ->
    exists u, run_async ctx max (map OpWrite chunks) s true
              = (all_ok (S (length chunks)), enc_all ctx (fragments cap (concat chunks)), u).
  Proof.
    intros Hs. unfold run_async.
    destruct (async_ops_ok chunks (fun rest => frags rest) (initial_buffer ctx, WReady, mk_tr s [] 0)) as (st' & -> & Hr).
    { exists (initial_buffer ctx), [], s, [], 0. rewrite app_nil_r.
      repeat split; try assumption; [apply initial_hdr_ok|rewrite len_nil; lia]. }
    destruct Hr as (h & pend & s1 & w1 & u1 & -> & Hh & Hp & Hs1 & HR).
    cbn [andb afinish_impl].
    destruct (finish_ok h pend s1 w1 u1 Hh Hp Hs1) as (s2 & u2 & -> & Hsuf2).
    cbn [afinish_impl finish_impl snd wire used]. exists u2.
    assert (all_ok (length chunks) ++ [Ok tt] = all_ok (S (length chunks))) as ->.
    { unfold all_ok. replace (S (length chunks)) with (length chunks + 1)%nat by lia.
      rewrite repeat_app. reflexivity. }
    specialize (HR []). cbn beta in HR. cbn [app] in HR. rewrite !app_nil_r in HR. rewrite <- HR. reflexivity.
  Qed.

  (* ---------------------------------------------------------------- arbitrary schedules (C34) *)
  (** [consumed s u t]: transport [t] was reached from schedule [s] / call count
      [u] by delivering only fault-free events *)
  Definition consumed (s : list ev) (u : N) (t : tr) : Prop :=
    exists p, s = p ++ sched t /\ no_fault p /\ used t = u + len p.

  Lemma consumed_refl s w u : consumed s u (mk_tr s w u).
  Proof. exists []. split; [reflexivity|]. split; [constructor|]. cbn [used]. rewrite len_nil. lia. Qed.

  Lemma consumed_trans s u t1 t2 : consumed s u t1 -> consumed (sched t1) (used t1) t2 -> consumed s u t2.
  Proof.
    intros (p & -> & Hp & Hu) (q & Hq & Hqf & Hu2). exists (p ++ q). rewrite Hq, <- app_assoc.
    split; [reflexivity|]. split.
    - unfold no_fault in *. apply Forall_app. auto.
    - rewrite Hu2, Hu, len_app. lia.
  Qed.

  Lemma consumed_step e s u t : (e <> Fail /\ e <> Rdy 0) -> consumed s (u + 1) t -> consumed (e :: s) u t.
  Proof.
    intros He (p & -> & Hp & Hu). exists (e :: p). cbn [app]. split; [reflexivity|]. split.
    - constructor; assumption.
    - rewrite Hu, len_cons. lia.
  Qed.

  Lemma wall_gen s : forall w u data,
    match wall s w u data with
    | (Ok _, t) => wire t = w ++ data /\ consumed s u t
    | (Err _, _) => True
    | (Panic _, _) => False
    end.
  Proof.
    induction s as [|e s IH]; intros w u data.
    - destruct data; cbn [wall wire]; (split; [rewrite ?app_nil_r; reflexivity|apply consumed_refl]).
    - destruct data as [|x d].
      + cbn [wall wire]. split; [rewrite app_nil_r; reflexivity|apply consumed_refl].
      + destruct e as [n| |]; cbn [wall].
        * set (k := N.min n (len (x :: d))).
          destruct (k =? 0) eqn:E; [exact I|].
          specialize (IH (w ++ take k (x :: d)) (u + 1) (drop k (x :: d))).
          destruct (wall s (w ++ take k (x :: d)) (u + 1) (drop k (x :: d))) as [[[]|e'|p'] t]; try assumption.
          destruct IH as (Hw & Hc). split.
          -- rewrite Hw, <- app_assoc, take_drop. reflexivity.
          -- apply consumed_step; [|exact Hc]. split; [discriminate|]. intros Hn. injection Hn as ->. unfold k in E. lia.
        * specialize (IH w (u + 1) (x :: d)).
          destruct (wall s w (u + 1) (x :: d)) as [[[]|e'|p'] t]; try assumption.
          destruct IH as (Hw & Hc). split; [exact Hw|].
          apply consumed_step; [split; discriminate|exact Hc].
        * exact I.
  Qed.

  Definition wstate_post (s : list ev) (u : N) (w : bytes) (pend0 data remaining : bytes) (b' : bytes) (t' : tr) : Prop :=
    exists h' pend', b' = h' ++ pend' /\ hdr_ok ctx h' /\ len pend' <= cap /\ consumed s u t'
      /\ forall rest, w ++ frags (pend0 ++ data ++ rest) = wire t' ++ frags (pend' ++ remaining ++ rest).

  Lemma dispatch_gen h d s w u : hdr_ok ctx h -> len d <= cap ->
    match dispatch (h ++ d) (mk_tr s w u) with
    | (Ok _, h', t') => hdr_ok ctx h' /\ wire t' = w ++ enc_pdu ctx (d, false) /\ consumed s u t'
    | (Err _, _, _) => True
    | (Panic _, _, _) => False
    end.
  Proof.
    intros Hh Hd. unfold dispatch, write_all_tr. cbn [sched wire used].
    rewrite (setup_header_enc ctx h d false Hh) by (unfold cap in *; lia).
    pose proof (wall_gen s w u (enc_pdu ctx (d, false))) as H.
    destruct (wall s w u (enc_pdu ctx (d, false))) as [[[]|e'|p'] t]; try assumption.
    destruct H as (Hw & Hc). split; [apply firstn12_enc|]. split; assumption.
  Qed.

  Lemma pw_write_gen h pend s w u buf : hdr_ok ctx h -> len pend <= cap -> buf <> [] ->
    match pw_write max (h ++ pend) (mk_tr s w u) buf with
    | (Ok n, b', t') => 0 < n <= len buf /\ wstate_post s u w pend buf (drop n buf) b' t'
    | (Err _, _, _) => True
    | (Panic _, _, _) => False
    end.
  Proof.
    intros Hh Hp Hb. pose proof (hdr_ok_len _ _ Hh) as Hl.
    assert (0 < len buf) as Hbl by (destruct buf; [congruence|rewrite len_cons; lia]).
    unfold pw_write. rewrite len_app, Hl. unfold total, HDR.
    destruct (12 + len pend + len buf <=? max + 6) eqn:E1.
    { split; [lia|]. exists h, (pend ++ buf). rewrite <- app_assoc.
      split; [reflexivity|]. split; [assumption|]. split; [rewrite len_app; unfold cap; lia|].
      split; [apply consumed_refl|].
      intros rest. cbn [wire]. rewrite drop_all by lia. rewrite <- app_assoc. reflexivity. }
    destruct ((12 + len pend =? max + 6) && (12 <? max + 6)) eqn:E2.
    { assert (len pend = cap) as Hfull by (unfold cap; lia).
      pose proof (dispatch_gen h pend s w u Hh Hp) as Hd.
      destruct (dispatch (h ++ pend) (mk_tr s w u)) as [[[[]|e1|p1] h1] t1]; try assumption.
      destruct Hd as (Hh1 & Hw1 & Hc1). pose proof (hdr_ok_len _ _ Hh1) as Hl1. rewrite Hl1.
      assert (forall rest, frags (pend ++ buf ++ rest) = enc_pdu ctx (pend, false) ++ frags (buf ++ rest)) as Hres.
      { intros rest. rewrite frags_big by (rewrite !len_app; lia).
        rewrite <- Hfull, take_len_app, drop_len_app. reflexivity. }
      destruct (12 + len buf <=? max + 6) eqn:E3.
      - split; [lia|]. exists h1, buf.
        split; [reflexivity|]. split; [assumption|]. split; [unfold cap; lia|]. split; [assumption|].
        intros rest. rewrite drop_all by lia. rewrite Hres, Hw1, <- app_assoc. reflexivity.
      - unfold write_fill. rewrite Hl1. unfold total.
        destruct (max + 6 <? 12) eqn:E4; [lia|].
        replace (max + 6 - 12) with cap by (unfold cap; lia).
        destruct t1 as [s1 w1 u1]. cbn [wire sched used] in *.
        pose proof (dispatch_gen h1 (take cap buf) s1 w1 u1 Hh1) as Hd2.
        destruct (dispatch (h1 ++ take cap buf) (mk_tr s1 w1 u1)) as [[[[]|e2|p2] h2] t2]; try (apply Hd2; rewrite len_take; lia).
        destruct Hd2 as (Hh2 & Hw2 & Hc2); [rewrite len_take; lia|].
        split; [lia|]. exists h2, []. rewrite app_nil_r.
        split; [reflexivity|]. split; [assumption|]. split; [rewrite len_nil; lia|].
        split; [eapply consumed_trans; [exact Hc1|exact Hc2]|].
        intros rest. rewrite Hres. rewrite frags_big by (rewrite len_app; lia).
        rewrite take_app_l, drop_app_l by lia. rewrite Hw2, Hw1. cbn [app]. rewrite <- !app_assoc. reflexivity. }
    unfold write_fill. rewrite len_app, Hl. unfold total.
    destruct (max + 6 <? 12 + len pend) eqn:E4; [unfold cap in Hp; lia|].
    set (n := max + 6 - (12 + len pend)).
    assert (0 < n /\ n = cap - len pend /\ n < len buf) as (Hn0 & Hn & Hnb) by (unfold n, cap in *; lia).
    rewrite <- app_assoc.
    pose proof (dispatch_gen h (pend ++ take n buf) s w u Hh) as Hd.
    destruct (dispatch (h ++ pend ++ take n buf) (mk_tr s w u)) as [[[[]|e2|p2] h2] t2]; try (apply Hd; rewrite len_app, len_take; lia).
    destruct Hd as (Hh2 & Hw2 & Hc2); [rewrite len_app, len_take; lia|].
    split; [lia|]. exists h2, []. rewrite app_nil_r.
    split; [reflexivity|]. split; [assumption|]. split; [rewrite len_nil; lia|]. split; [assumption|].
    intros rest. rewrite frags_big by (rewrite !len_app; lia).
    rewrite take_app_r, drop_app_r by lia.
    replace (cap - len pend) with n by lia.
    rewrite take_app_l, drop_app_l by lia. rewrite Hw2. cbn [app]. rewrite <- app_assoc. reflexivity.
  Qed.

  Lemma pw_write_all_gen : forall fuel data h pend s w u,
    (length data <= fuel)%nat -> hdr_ok ctx h -> len pend <= cap ->
    match pw_write_all fuel max (h ++ pend) (mk_tr s w u) data with
    | (Ok _, b', t') => wstate_post s u w pend data [] b' t'
    | (Err _, _, _) => True
    | (Panic _, _, _) => False
    end.
  Proof.
    induction fuel as [|fuel IH]; intros data h pend s w u Hf Hh Hp.
    - destruct data; [|cbn in Hf; lia]. cbn [pw_write_all]. exists h, pend.
      split; [reflexivity|]. split; [assumption|]. split; [assumption|]. split; [apply consumed_refl|]. reflexivity.
    - destruct data as [|x data].
      + cbn [pw_write_all]. exists h, pend.
        split; [reflexivity|]. split; [assumption|]. split; [assumption|]. split; [apply consumed_refl|]. reflexivity.
      + cbn [pw_write_all].
        pose proof (pw_write_gen h pend s w u (x :: data) Hh Hp) as Hw.
        destruct (pw_write max (h ++ pend) (mk_tr s w u) (x :: data)) as [[[n|e1|p1] b1] t1]; try (apply Hw; discriminate).
        destruct Hw as (Hn & h1 & pend1 & -> & Hh1 & Hp1 & Hc1 & Hres1); [discriminate|].
        destruct (n =? 0) eqn:E; [lia|].
        destruct t1 as [s1 w1 u1].
        assert (length (drop n (x :: data)) <= fuel)%nat as Hlen
          by (unfold drop; rewrite skipn_length; cbn [length] in *; lia).
        specialize (IH (drop n (x :: data)) h1 pend1 s1 w1 u1 Hlen Hh1 Hp1).
        destruct (pw_write_all fuel max (h1 ++ pend1) (mk_tr s1 w1 u1) (drop n (x :: data))) as [[[[]|e2|p2] b2] t2];
          try assumption.
        destruct IH as (h2 & pend2 & -> & Hh2 & Hp2 & Hc2 & Hres2).
        exists h2, pend2.
        split; [reflexivity|]. split; [assumption|]. split; [assumption|].
        split; [eapply consumed_trans; [exact Hc1|exact Hc2]|].
        intros rest. cbn [wire] in *. rewrite <- Hres2. apply Hres1.
  Qed.

  Definition is_err {A} (o : outcome A) : Prop := match o with Err _ => True | _ => False end.

  Lemma sync_ops_gen : forall chunks h pend s w u,
    hdr_ok ctx h -> len pend <= cap ->
    match sync_ops max (h ++ pend) (mk_tr s w u) (map OpWrite chunks) with
    | (rs, true, b', t') => rs = all_ok (length chunks) /\ wstate_post s u w pend (concat chunks) [] b' t'
    | (rs, false, _, _) => exists k e, rs = all_ok k ++ [Err e]
    end.
  Proof.
    induction chunks as [|c chunks IH]; intros h pend s w u Hh Hp.
    - cbn [map sync_ops]. split; [reflexivity|]. exists h, pend. repeat split; try assumption. apply consumed_refl.
    - cbn [map sync_ops].
      pose proof (pw_write_all_gen (length c) c h pend s w u (le_n _) Hh Hp) as Hw.
      destruct (pw_write_all (length c) max (h ++ pend) (mk_tr s w u) c) as [[[[]|e1|p1] b1] t1]; try contradiction.
      + destruct Hw as (h1 & pend1 & -> & Hh1 & Hp1 & Hc1 & Hres1). cbn [is_okb].
        destruct t1 as [s1 w1 u1]. specialize (IH h1 pend1 s1 w1 u1 Hh1 Hp1).
        destruct (sync_ops max (h1 ++ pend1) (mk_tr s1 w1 u1) (map OpWrite chunks)) as [[[rs ok] b2] t2].
        destruct ok.
        * destruct IH as (-> & h2 & pend2 & -> & Hh2 & Hp2 & Hc2 & Hres2). split; [reflexivity|].
          exists h2, pend2. repeat split; try assumption.
          -- eapply consumed_trans; [exact Hc1|exact Hc2].
          -- intros rest. cbn [concat wire] in *. rewrite <- Hres2. rewrite <- app_assoc. apply Hres1.
        * destruct IH as (k & e & ->). exists (S k), e. reflexivity.
      + cbn [is_okb]. exists O, e1. reflexivity.
  Qed.

  Lemma finish_gen h pend s w u : hdr_ok ctx h -> len pend <= cap ->
    match finish_impl (h ++ pend) (mk_tr s w u) with
    | (Ok _, b', t') => b' = [] /\ wire t' = w ++ frags pend /\ consumed s u t'
    | (Err _, _, _) => True
    | (Panic _, _, _) => False
    end.
  Proof.
    intros Hh Hp. unfold finish_impl.
    destruct (h ++ pend) eqn:E.
    { apply (f_equal len) in E. rewrite len_app, (hdr_ok_len _ _ Hh), len_nil in E. lia. }
    rewrite <- E. rewrite (setup_header_enc ctx h pend true Hh) by (unfold cap in *; lia).
    unfold write_all_tr. cbn [sched wire used].
    pose proof (wall_gen s w u (enc_pdu ctx (pend, true))) as H.
    destruct (wall s w u (enc_pdu ctx (pend, true))) as [[[]|e'|p'] t]; try assumption.
    destruct H as (Hw & Hc). rewrite frags_small by exact Hp. auto.
  Qed.

  (** the sync writer over ANY schedule: no panic; if every operation reported
      Ok then the wire holds the complete message and no fault event was
      delivered (the delivered events are exactly a fault-free prefix) *)
  Theorem run_sync_gen chunks s rs wr u :
    run_sync ctx max (map OpWrite chunks) s true = (rs, wr, u) ->
    Forall (fun r => is_panic r = false) rs /\
    (Forall (fun r => is_okb r = true) rs ->
       rs = all_ok (S (length chunks)) /\ wr = enc_all ctx (fragments cap (concat chunks))
       /\ exists p rest, s = p ++ rest /\ no_fault p /\ u = len p).
  Proof.
    unfold run_sync.
    replace (initial_buffer ctx) with (initial_buffer ctx ++ []) by apply app_nil_r.
    pose proof (sync_ops_gen chunks (initial_buffer ctx) [] s [] 0 (initial_hdr_ok ctx)) as H.
    destruct (sync_ops max (initial_buffer ctx ++ []) (mk_tr s [] 0) (map OpWrite chunks)) as [[[rs1 ok] b1] t1].
    destruct ok.
    - destruct H as (-> & h1 & p1 & -> & Hh1 & Hp1 & Hc1 & Hres1); [rewrite len_nil; lia|].
      cbn [andb]. destruct t1 as [s1 w1 u1].
      pose proof (finish_gen h1 p1 s1 w1 u1 Hh1 Hp1) as Hf.
      destruct (finish_impl (h1 ++ p1) (mk_tr s1 w1 u1)) as [[[[]|e2|p2] b2] t2]; try contradiction.
      + destruct Hf as (-> & Hw2 & Hc2). cbn [finish_impl wire used].
        intros E. injection E as <- <- <-.
        assert (all_ok (length chunks) ++ [Ok tt] = all_ok (S (length chunks))) as Hall.
        { unfold all_ok. replace (S (length chunks)) with (length chunks + 1)%nat by lia.
          rewrite repeat_app. reflexivity. }
        rewrite Hall. split.
        * unfold all_ok. apply Forall_forall. intros r Hr. apply repeat_spec in Hr. subst r. reflexivity.
        * intros _. split; [reflexivity|]. split.
          -- rewrite Hw2. specialize (Hres1 []). cbn [wire app] in Hres1. rewrite !app_nil_r in Hres1. symmetry. exact Hres1.
          -- destruct (consumed_trans _ _ _ _ Hc1 Hc2) as (p & Hs & Hp & Hu).
             exists p, (sched t2). repeat split; try assumption; rewrite Hu; lia.
      + intros E. set (fin2 := finish_impl b2 t2) in E. destruct fin2 as [[r3 b3] t3].
        injection E as <- _ _. split.
        * apply Forall_app. split; [|repeat constructor].
          unfold all_ok. apply Forall_forall. intros r Hr. apply repeat_spec in Hr. subst r. reflexivity.
        * intros Hall. apply Forall_app in Hall. destruct Hall as (_ & Hall). inversion Hall as [|? ? Hbad]. discriminate Hbad.
    - destruct H as (k & e & ->); [rewrite len_nil; lia|]. cbn [andb].
      intros E. set (fin2 := finish_impl b1 t1) in E. destruct fin2 as [[r3 b3] t3].
      injection E as <- _ _. rewrite app_nil_r. split.
      + apply Forall_app. split; [|repeat constructor].
        unfold all_ok. apply Forall_forall. intros r Hr. apply repeat_spec in Hr. subst r. reflexivity.
      + intros Hall. apply Forall_app in Hall. destruct Hall as (_ & Hall). inversion Hall as [|? ? Hbad]. discriminate Hbad.
  Qed.
End Writer.

(* ------------------------------------------------------------------ properties of the fragmentation *)
Lemma frag_concat cap : forall f p, concat (map fst (frag f cap p)) = p.
Proof.
  induction f as [|f IH]; intros p; cbn [frag].
  - cbn. apply app_nil_r.
  - destruct (len p <=? cap); cbn [map concat fst]; [apply app_nil_r|].
    rewrite IH. apply take_drop.
Qed.

Lemma frag_last cap : forall f p, only_last_is_last (frag f cap p).
Proof.
  induction f as [|f IH]; intros p; cbn [frag].
  - cbn. reflexivity.
  - destruct (len p <=? cap).
    + cbn. reflexivity.
    + specialize (IH (drop cap p)).
      destruct (frag f cap (drop cap p)) as [|q qs] eqn:E; [contradiction|].
      change (snd (take cap p, false) = false /\ only_last_is_last (q :: qs)).
      split; [reflexivity|exact IH].
Qed.

Lemma frag_sizes cap : 0 < cap -> forall f p, (length p <= f)%nat ->
  Forall (fun q => len (fst q) <= cap /\ (snd q = false -> len (fst q) = cap)) (frag f cap p).
Proof.
  intros Hc. induction f as [|f IH]; intros p Hf.
  - destruct p; [|cbn in Hf; lia]. cbn [frag]. constructor; [|constructor]. cbn [fst snd]. rewrite len_nil. split; [lia|discriminate].
  - cbn [frag]. destruct (len p <=? cap) eqn:E.
    + constructor; [|constructor]. cbn [fst snd]. split; [lia|discriminate].
    + constructor.
      * cbn [fst snd]. rewrite len_take. split; [lia|intros _; lia].
      * apply IH. unfold drop. rewrite skipn_length. unfold len in E. lia.
Qed.

Lemma frag_nonempty cap f p : frag f cap p <> [].
Proof. destruct f; cbn [frag]; [discriminate|]. destruct (len p <=? cap); discriminate. Qed.

(* ------------------------------------------------------------------ reader *)
Section Reader.
  Variables ctx rmax dflt : N.
  Hypothesis Hrmax : valid_max rmax.
  Hypothesis Hdflt : 0 < dflt.

  Lemma valid_max_check : (rmax <? MINIMUM_PDU_SIZE) || (MAXIMUM_PDU_SIZE <? rmax) = false.
  Proof. unfold valid_max in Hrmax. apply orb_false_iff. split; apply N.ltb_ge; lia. Qed.

  Lemma firstn_app_ge {A} n (a b : list A) : (n <= length a)%nat -> firstn n (a ++ b) = firstn n a.
  Proof. intros. rewrite firstn_app. replace (n - length a)%nat with O by lia. cbn. apply app_nil_r. Qed.

  (** the first six bytes decide: type and PDU length *)
  Lemma rb_head rb x d l tail : rb ++ x = enc_pdu ctx (d, l) ++ tail -> 6 <= len rb ->
    exists rb', rb = [4; 0] ++ be32 (len d + 6) ++ rb'.
  Proof.
    intros E Hl. unfold enc_pdu in E. cbn [fst snd app] in E.
    destruct rb as [|r0 rb]; [unfold len in Hl; cbn in Hl; lia|].
    destruct rb as [|r1 rb]; [unfold len in Hl; cbn in Hl; lia|].
    cbn [app] in E. injection E as E0 E1 E2. subst r0 r1.
    exists (skipn 4 rb). cbn [app]. f_equal. f_equal.
    rewrite <- (firstn_skipn 4 rb) at 1. f_equal.
    assert (4 <= length rb)%nat by (unfold len in Hl; cbn [length] in Hl; lia).
    rewrite <- (firstn_app_ge 4 rb x) by assumption. rewrite E2. reflexivity.
  Qed.

  Lemma be_val_be32 x : x < 2 ^ 32 -> be_val (be32 x) = x.
  Proof. intros. apply be_val_be_bytes_small. exact H. Qed.

  Lemma len_be32 x : len (be32 x) = 4.
  Proof. unfold len, be32. rewrite be_bytes_length. reflexivity. Qed.

  Lemma len_enc d l : len (enc_pdu ctx (d, l)) = len d + 12.
  Proof. destruct (enc_pdu_split ctx d l) as (h & Hh & E). rewrite E, len_app, (hdr_ok_len _ _ Hh). lia. Qed.

  Lemma parse_one d (l : bool) fuel : len d + 6 < 2 ^ 32 -> (0 < fuel)%nat ->
    parse_pdvs fuel (be32 (len d + 2) ++ [ctx; if l then 2 else 0] ++ d) [] None = Some (d, Some l).
  Proof.
    intros Hd Hf. destruct fuel as [|f]; [lia|].
    destruct (be32_four (len d + 2)) as (a & b & c & e & E).
    pose proof (be_val_be32 (len d + 2)) as Hv. rewrite E in *.
    cbn [app parse_pdvs]. rewrite !len_cons.
    destruct (len d + 1 + 1 + 1 + 1 + 1 + 1 <? 6) eqn:E1; [lia|].
    cbn [firstn nth skipn]. rewrite Hv by lia.
    destruct (len d + 2 <? 2) eqn:E2; [lia|].
    replace (len d + 2 - 2) with (len d) by lia.
    destruct (len d <? len d) eqn:E3; [lia|].
    rewrite drop_all, take_all by lia. cbn [app].
    destruct f; cbn [parse_pdvs]; destruct l; reflexivity.
  Qed.

  Lemma read_pdu_shape A Y : A < 2 ^ 32 ->
    read_pdu rmax ([4; 0] ++ be32 A ++ Y) =
      if len Y <? A then RPNone
      else match parse_pdvs (length (take A Y)) (take A Y) [] None with
           | Some (d, l) => RPData d l (6 + A)
           | None => RPErr
           end.
  Proof.
    intros HA. unfold read_pdu. rewrite valid_max_check.
    assert (len ([4; 0] ++ be32 A ++ Y) = len Y + 6) as Hl
      by (rewrite !len_app, len_be32; unfold len at 1; cbn [length]; lia).
    rewrite Hl.
    destruct (len Y + 6 <? 6) eqn:E1; [lia|].
    change (nth 0 ([4; 0] ++ be32 A ++ Y) 0) with 4.
    change (skipn 2 ([4; 0] ++ be32 A ++ Y)) with (be32 A ++ Y).
    change (skipn 6 ([4; 0] ++ be32 A ++ Y)) with (skipn 4 (be32 A ++ Y)).
    rewrite firstn_be_bytes_app, skipn_be_bytes_app, be_val_be32 by exact HA.
    replace (len Y + 6 - 6) with (len Y) by lia.
    destruct (len Y <? A); reflexivity.
  Qed.

  Lemma read_pdu_complete d (l : bool) tail : len d + 6 < 2 ^ 32 ->
    read_pdu rmax (enc_pdu ctx (d, l) ++ tail) = RPData d (Some l) (len d + 12).
  Proof.
    intros Hd. unfold enc_pdu. cbn [fst snd]. rewrite <- !app_assoc.
    rewrite read_pdu_shape by exact Hd.
    assert (len ([ctx; if l then 2 else 0]) = 2) as H2 by reflexivity.
    destruct (len (be32 (len d + 2) ++ [ctx; if l then 2 else 0] ++ d ++ tail) <? len d + 6) eqn:E.
    { rewrite !len_app, len_be32, H2 in E. lia. }
    assert (take (len d + 6) (be32 (len d + 2) ++ [ctx; if l then 2 else 0] ++ d ++ tail)
            = be32 (len d + 2) ++ [ctx; if l then 2 else 0] ++ d) as ->.
    { rewrite !app_assoc. rewrite take_app_l by (rewrite !len_app, len_be32, H2; lia).
      apply take_all. rewrite !len_app, len_be32, H2. lia. }
    rewrite parse_one; [|lia|rewrite !app_length; cbn [length]; lia].
    f_equal. lia.
  Qed.

  Lemma read_pdu_incomplete rb x d (l : bool) tail : len d + 6 < 2 ^ 32 ->
    rb ++ x = enc_pdu ctx (d, l) ++ tail -> len rb < len d + 12 -> read_pdu rmax rb = RPNone.
  Proof.
    intros Hd E Hl.
    destruct (len rb <? 6) eqn:E1.
    { unfold read_pdu. rewrite valid_max_check, E1. reflexivity. }
    destruct (rb_head rb x d l tail E) as (rb' & ->); [lia|].
    rewrite read_pdu_shape by exact Hd.
    rewrite !len_app, len_be32 in Hl. unfold len at 1 in Hl. cbn [length] in Hl.
    destruct (len rb' <? len d + 6) eqn:E2; [reflexivity|lia].
  Qed.

  Lemma app_eq_split {A} (a b c d : list A) : a ++ b = c ++ d -> len c <= len a ->
    exists m, a = c ++ m /\ d = m ++ b.
  Proof.
    revert c. induction a as [|x a IH]; intros c E Hl.
    - destruct c; [|rewrite len_cons, len_nil in Hl; lia]. exists []. cbn in *. auto.
    - destruct c as [|y c].
      + exists (x :: a). cbn in *. auto.
      + cbn [app] in E. injection E as -> E. rewrite !len_cons in Hl.
        destruct (IH c E) as (m & -> & ->); [lia|]. exists m. auto.
  Qed.

  Definition slen (s : src) : nat := length (s_sched s).

  Lemma src_read_nf s : no_fault (s_sched s) -> s_data s <> [] ->
    (exists b s', src_read dflt s = (RBytes b, s') /\ b <> [] /\ s_data s = b ++ s_data s'
        /\ no_fault (s_sched s') /\ (slen s' <= slen s)%nat
        /\ (slen s' + length (s_data s') < slen s + length (s_data s))%nat) \/
    (exists s', src_read dflt s = (RPend, s') /\ s_data s' = s_data s
        /\ no_fault (s_sched s') /\ (slen s' < slen s)%nat).
  Proof.
    intros Hs Hd. unfold src_read, slen.
    assert (0 < len (s_data s)) as Hl by (destruct (s_data s); [congruence|rewrite len_cons; lia]).
    assert (forall n sched' used', 0 < n -> no_fault sched' -> (length sched' <= length (s_sched s))%nat ->
      let k := N.min (N.min n BUF_CAP) (len (s_data s)) in
      exists b s', (RBytes (take k (s_data s)), mk_src sched' (drop k (s_data s)) used' (s_pos s + k)) = (RBytes b, s')
        /\ b <> [] /\ s_data s = b ++ s_data s' /\ no_fault (s_sched s')
        /\ (length (s_sched s') <= length (s_sched s))%nat
        /\ (length (s_sched s') + length (s_data s') < length (s_sched s) + length (s_data s))%nat) as Hsup.
    { intros n sched' used' Hn Hnf Hlen k.
      assert (0 < k <= len (s_data s)) as Hk by (unfold k, BUF_CAP; lia).
      eexists _, _. split; [reflexivity|]. cbn [s_data s_sched].
      repeat split; try assumption.
      - intros E. apply (f_equal len) in E. rewrite len_take, len_nil in E. lia.
      - symmetry. apply take_drop.
      - unfold drop. rewrite skipn_length. unfold len in Hk. lia. }
    destruct (s_sched s) as [|e sch] eqn:Esch.
    - left. apply Hsup; [exact Hdflt|constructor|lia].
    - inversion Hs as [|? ? [Hf Hz] Hs']; subst.
      destruct e as [n| |]; [| |congruence].
      + left. destruct (Hsup n sch (s_used s + 1)) as (b & s' & E & H); [assert (n <> 0) by congruence; lia|exact Hs'|cbn; lia|].
        exists b, s'. split; [exact E|]. cbn [length] in *. repeat split; try tauto; lia.
      + right. eexists. split; [reflexivity|]. cbn [s_data s_sched length]. repeat split; try assumption. lia.
  Qed.

  Lemma fill_ok : forall fuel rb s d (l : bool) tail, len d + 6 < 2 ^ 32 ->
    rb ++ s_data s = enc_pdu ctx (d, l) ++ tail -> no_fault (s_sched s) ->
    (slen s + length (s_data s) < fuel)%nat ->
    (exists rb' s', fill fuel rmax dflt rb s = (FMsg d (Some l), rb', s') /\ rb' ++ s_data s' = tail
        /\ no_fault (s_sched s') /\ (slen s' <= slen s)%nat) \/
    (exists rb' s', fill fuel rmax dflt rb s = (FPend, rb', s') /\ rb' ++ s_data s' = enc_pdu ctx (d, l) ++ tail
        /\ no_fault (s_sched s') /\ (slen s' < slen s)%nat).
  Proof.
    induction fuel as [|fuel IH]; intros rb s d l tail Hd E Hs Hf; [lia|].
    destruct (len d + 12 <=? len rb) eqn:Ec.
    - (* the PDU is complete *)
      destruct (app_eq_split rb (s_data s) (enc_pdu ctx (d, l)) tail E) as (m & -> & ->); [rewrite len_enc; lia|].
      left. exists m, s. cbn [fill]. rewrite read_pdu_complete by exact Hd.
      rewrite <- (len_enc d l), drop_len_app. repeat split; try assumption. lia.
    - cbn [fill]. rewrite (read_pdu_incomplete rb (s_data s) d l tail Hd E) by lia.
      assert (s_data s <> []) as Hne.
      { intros En. rewrite En, app_nil_r in E. apply (f_equal len) in E. rewrite len_app, len_enc in E. lia. }
      destruct (src_read_nf s Hs Hne) as [(b & s' & -> & Hb & Hsd & Hs' & Hl1 & Hl2)|(s' & -> & Hsd & Hs' & Hl1)].
      + destruct b as [|x b]; [congruence|].
        destruct (IH (rb ++ x :: b) s' d l tail Hd) as [(rb' & s'' & -> & Ht & Hs'' & Hl3)|(rb' & s'' & -> & Ht & Hs'' & Hl3)];
          try assumption; try lia.
        * rewrite <- app_assoc, <- Hsd. exact E.
        * left. exists rb', s''. repeat split; try assumption. lia.
        * right. exists rb', s''. repeat split; try assumption. lia.
      + right. exists rb, s'. rewrite Hsd. repeat split; try assumption.
  Qed.

  Definition flags_ok (frs : list (bytes * bool)) : Prop :=
    match frs with [] => True | _ => only_last_is_last frs end.
  Definition data_ok (frs : list (bytes * bool)) : Prop :=
    Forall (fun q => len (fst q) + 6 < 2 ^ 32 /\ (fst q <> [] \/ snd q = true)) frs.

  Definition rinv (frs : list (bytes * bool)) (F : bytes) (st : rstate) : Prop :=
    r_rb st ++ s_data (r_src st) = enc_all ctx frs ++ F /\ no_fault (s_sched (r_src st))
    /\ r_last st = (match frs with [] => true | _ => false end) /\ flags_ok frs /\ data_ok frs.
  Definition pending_data (frs : list (bytes * bool)) (st : rstate) : bytes :=
    r_buf st ++ concat (map fst frs).

  Definition read_post frs F st (r : outcome bytes) st' : Prop :=
    match r with
    | Ok b => exists frs', rinv frs' F st' /\ pending_data frs st = b ++ pending_data frs' st'
                /\ (b = [] -> frs' = [] /\ r_buf st' = [])
    | _ => False
    end.

  Lemma rd_read_ok frs F st sz : 0 < sz -> rinv frs F st ->
    match rd_read rmax dflt st sz with
    | (PReady r, st') => read_post frs F st r st' /\ (slen (r_src st') <= slen (r_src st))%nat
    | (PPending, st') => rinv frs F st' /\ r_buf st' = [] /\ r_buf st = [] /\ (slen (r_src st') < slen (r_src st))%nat
    end.
  Proof.
    intros Hsz (Hrb & Hnf & Hlast & Hfl & Hda).
    destruct st as [pbuf last rb sr]. cbn [r_buf r_last r_rb r_src] in *.
    unfold rd_read. cbn [r_buf r_last r_rb r_src].
    destruct pbuf as [|x pbuf].
    - destruct last.
      + (* end of the message *)
        destruct frs; [|discriminate]. cbn [read_post r_src]. split; [|lia].
        exists []. repeat split; try assumption; try reflexivity.
      + destruct frs as [|[d l] frs1]; [discriminate|].
        unfold enc_all in Hrb. cbn [map concat] in Hrb. rewrite <- app_assoc in Hrb.
        inversion Hda as [|? ? [Hd32 Hne] Hda1]; subst. cbn [fst snd] in *.
        destruct (fill_ok (fill_fuel sr) rb sr d l (concat (map (enc_pdu ctx) frs1) ++ F) Hd32 Hrb Hnf)
          as [(rb' & s' & -> & Ht & Hs' & Hl1)|(rb' & s' & -> & Ht & Hs' & Hl1)];
          [unfold fill_fuel, slen; lia| |].
        * (* a PDU was obtained *)
          cbn [r_buf r_last r_rb r_src]. split; [|exact Hl1]. cbn [read_post].
          exists frs1. unfold pending_data. cbn [r_buf r_last r_rb r_src map concat fst app].
          assert (l = match frs1 with [] => true | _ => false end /\ flags_ok frs1) as (Hl & Hfl1).
          { unfold flags_ok in *. cbn [only_last_is_last] in Hfl. destruct frs1; [split; [exact Hfl|exact I]|].
            destruct Hfl as (Hf1 & Hf2). cbn [snd] in Hf1. split; [exact Hf1|exact Hf2]. }
          split; [repeat split; assumption|]. split.
          -- rewrite app_assoc, take_drop. reflexivity.
          -- intros Hb. assert (d = []) as ->.
             { apply len_zero. apply (f_equal len) in Hb. rewrite len_take, len_nil in Hb. lia. }
             split; [|apply drop_all; rewrite len_nil; lia].
             destruct Hne as [Hne|Hne]; [congruence|]. subst l.
             destruct frs1; [reflexivity|discriminate].
        * cbn [r_buf r_last r_rb r_src]. repeat split; try assumption.
          unfold enc_all. cbn [map concat]. rewrite <- app_assoc. exact Ht.
    - cbn [r_buf r_last r_rb r_src]. split; [|cbn [r_src]; lia]. cbn [read_post].
      exists frs. unfold pending_data. cbn [r_buf r_last r_rb r_src].
      split; [repeat split; assumption|]. split.
      + rewrite app_assoc, take_drop. reflexivity.
      + intros E. apply (f_equal len) in E. rewrite len_take, len_cons, len_nil in E. lia.
  Qed.

  Lemma rd_read_retry_ok : forall polls frs F st sz, 0 < sz -> rinv frs F st ->
    (slen (r_src st) < polls)%nat ->
    exists r st', rd_read_retry polls rmax dflt st sz = (r, st') /\ read_post frs F st r st'.
  Proof.
    induction polls as [|polls IH]; intros frs F st sz Hsz Hinv Hp; [lia|].
    cbn [rd_read_retry]. pose proof (rd_read_ok frs F st sz Hsz Hinv) as H.
    destruct (rd_read rmax dflt st sz) as [[r|] st'].
    - exists r, st'. split; [reflexivity|apply H].
    - destruct H as (Hinv' & Hb' & Hb & Hl).
      destruct (IH frs F st' sz Hsz Hinv') as (r & st'' & -> & Hpost); [lia|].
      exists r, st''. split; [reflexivity|].
      destruct r; cbn [read_post] in *; try contradiction.
      destruct Hpost as (frs' & Hi & Hpd & He). exists frs'. split; [exact Hi|]. split; [|exact He].
      unfold pending_data in *. rewrite Hb. rewrite Hb' in Hpd. exact Hpd.
  Qed.

  Lemma rd_run_ok sizes : sizes <> [] -> Forall (fun z => 0 < z) sizes ->
    forall reads i frs F st, rinv frs F st -> (length (pending_data frs st) < reads)%nat ->
    exists bs st', rd_run reads i rmax dflt sizes st = (map Ok bs ++ [Ok []], st')
      /\ concat bs = pending_data frs st /\ r_rb st' ++ s_data (r_src st') = F.
  Proof.
    intros Hne Hpos. induction reads as [|reads IH]; intros i frs F st Hinv Hlen; [lia|].
    cbn [rd_run].
    assert (0 < nth (i mod length sizes) sizes 0) as Hsz.
    { rewrite Forall_forall in Hpos. apply Hpos. apply nth_In. apply Nat.mod_upper_bound.
      destruct sizes; [congruence|cbn; lia]. }
    destruct (rd_read_retry_ok (S (length (s_sched (r_src st)))) frs F st _ Hsz Hinv) as (r & st1 & -> & Hpost);
      [unfold slen; lia|].
    destruct r as [b| |]; cbn [read_post] in Hpost; try contradiction.
    destruct Hpost as (frs1 & Hinv1 & Hpd & Hend).
    destruct b as [|x b].
    - exists [], st1. destruct (Hend eq_refl) as (-> & Hb1).
      split; [reflexivity|]. split.
      + rewrite Hpd. unfold pending_data. rewrite Hb1. reflexivity.
      + destruct Hinv1 as (Hrb & _). exact Hrb.
    - destruct (IH (S i) frs1 F st1 Hinv1) as (bs & st2 & -> & Hc & HF).
      { rewrite Hpd in Hlen. rewrite app_length in Hlen. cbn [length] in Hlen. lia. }
      exists ((x :: b) :: bs), st2. split; [reflexivity|]. split; [|exact HF].
      cbn [concat]. rewrite Hc, Hpd. reflexivity.
  Qed.
End Reader.

Lemma fragments_flags_ok cap p : flags_ok (fragments cap p).
Proof.
  unfold flags_ok, fragments. pose proof (frag_last cap (length p) p) as H.
  destruct (frag (length p) cap p); [exact I|exact H].
Qed.

Lemma fragments_data_ok cap p : 0 < cap -> cap + 12 <= 2 ^ 32 -> data_ok (fragments cap p).
Proof.
  intros Hc H32. unfold data_ok, fragments.
  pose proof (frag_sizes cap Hc (length p) p (le_n _)) as H.
  eapply Forall_impl; [|exact H]. intros [d l] (H1 & H2). cbn [fst snd] in *.
  split; [lia|]. destruct l; [right; reflexivity|left].
  intros ->. specialize (H2 eq_refl). rewrite len_nil in H2. lia.
Qed.

(** the reader over any fault-free segmentation of a stream that starts with
    the fragments of [payload]: the reads return exactly the payload, then
    end-of-data, and what follows the message is left (read buffer ++ unread) *)
Theorem reader_ok ctx wmax rmax dflt payload following pre rest s sizes u0 p0 reads i :
  6 < wmax -> wmax + 6 < 2 ^ 32 -> valid_max rmax -> 0 < dflt ->
  sizes <> [] -> Forall (fun z => 0 < z) sizes -> no_fault s ->
  pre ++ rest = enc_all ctx (fragments (wmax - 6) payload) ++ following ->
  (length payload < reads)%nat ->
  exists bs st',
    rd_run reads i rmax dflt sizes (mk_rs [] false pre (mk_src s rest u0 p0)) = (map Ok bs ++ [Ok []], st')
    /\ concat bs = payload /\ r_rb st' ++ s_data (r_src st') = following.
Proof.
  intros Hw Hw32 Hr Hd Hne Hpos Hs E Hreads.
  assert (pending_data (fragments (wmax - 6) payload) (mk_rs [] false pre (mk_src s rest u0 p0)) = payload) as Hpd.
  { unfold pending_data, fragments. cbn [r_buf app]. apply frag_concat. }
  destruct (rd_run_ok ctx rmax dflt Hr Hd sizes Hne Hpos reads i (fragments (wmax - 6) payload) following
              (mk_rs [] false pre (mk_src s rest u0 p0))) as (bs & st' & Hrun & Hc & HF).
  - unfold rinv. cbn [r_rb r_src s_data s_sched r_last]. repeat split; try assumption.
    + unfold fragments. pose proof (frag_nonempty (wmax - 6) (length payload) payload).
      destruct (frag (length payload) (wmax - 6) payload); [congruence|reflexivity].
    + apply fragments_flags_ok.
    + apply fragments_data_ok; lia.
  - rewrite Hpd. exact Hreads.
  - exists bs, st'. rewrite Hpd in Hc. auto.
Qed.
