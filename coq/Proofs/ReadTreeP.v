(** The reader on the writer's output for nested data sets (undefined-length
    sequences and items of any depth, encapsulated pixel data): the token
    stream, by mutual structural induction with the delimiter-stack invariant
    of Proofs/ReadStepsP.v. *)
From Coq Require Import ZifyBool ZifyNat ZifyN Sorting.Sorted.
From DicomV Require Import Base.Endian Model.Vr Model.Header Model.Prim Model.Dataset Model.Writer Model.Reader
  Spec.Ps35 Proofs.HeaderP Proofs.PrimP Proofs.WriterP Proofs.ValidP Proofs.FlatP Proofs.ValueP Proofs.ReaderP
  Proofs.RoundTripP Proofs.TotalP Proofs.NestedP Proofs.ReadStepsP Proofs.ReadPixP.
Open Scope N_scope.

(** * Running [next] (with the fuel [read_tokens] gives it) *)
Inductive yields (c : codec) (d : dict_t) : rstate -> list token -> rstate -> Prop :=
| Y_nil st : yields c d st [] st
| Y_cons st tk st1 toks st2 :
    next (S (length (r_src st))) c d st = (RTok tk, st1) -> yields c d st1 toks st2 ->
    yields c d st (tk :: toks) st2.

Lemma yields_app c d st a st1 b st2 : yields c d st a st1 -> yields c d st1 b st2 -> yields c d st (a ++ b) st2.
Proof. induction 1; intros H2; [exact H2|]. cbn. econstructor; [eassumption|]. apply IHyields. exact H2. Qed.

Lemma yields_one c d st tk st1 :
  next (S (length (r_src st))) c d st = (RTok tk, st1) -> yields c d st [tk] st1.
Proof. intros H. econstructor; [exact H | constructor]. Qed.

Lemma yields_read c d st toks st' :
  yields c d st toks st' -> forall fuel toks' e, read_tokens fuel c d st' = (toks', e) ->
  read_tokens (length toks + fuel) c d st = (toks ++ toks', e).
Proof.
  induction 1 as [|st tk st1 toks st2 Hn Hy IH]; intros fuel toks' e R; [exact R|].
  cbn [length Nat.add read_tokens]. rewrite Hn. rewrite (IH fuel toks' e R). reflexivity.
Qed.

(** * The tokens the reader is expected to yield *)
Definition frag_rtoks (f : bytes) : list token :=
  match f with
  | [] => [TItemStart 0; TItemEnd]
  | _ => [TItemStart (blen (pad_even 0 f)); TItemValue (pad_even 0 f); TItemEnd]
  end.
Definition ot_rtoks (ot : list N) : list token :=
  match ot with
  | [] => [TItemStart 0; TItemEnd]
  | _ => [TItemStart (4 * nlen ot); TOffsetTable ot; TItemEnd]
  end.

Fixpoint rtoks (c : codec) (d : dict_t) (e : elem) : list token :=
  match e with
  | EPrim t v _ p =>
      let val := ps35_padded v (raw_value c v p) in
      [TElemHeader t (read_vr c d t v) (blen val); TPrim (readback_prim c (read_vr c d t v) val)]
  | ESeq t _ _ its =>
      [TSeqStart t undef]
        ++ flat_map (fun it : item => [TItemStart undef] ++ flat_map (rtoks c d) (snd it) ++ [TItemEnd]) its
        ++ [TSeqEnd]
  | EPix _ _ _ ot frags => [TPixStart] ++ ot_rtoks ot ++ flat_map frag_rtoks frags ++ [TSeqEnd]
  end.
Definition rtoks_list (c : codec) (d : dict_t) (es : list elem) : list token := flat_map (rtoks c d) es.
Definition rtoks_items (c : codec) (d : dict_t) (its : list item) : list token :=
  flat_map (fun it : item => [TItemStart undef] ++ rtoks_list c d (snd it) ++ [TItemEnd]) its.

(** * Data sets the nested theorem covers *)
Inductive readable (c : codec) (d : dict_t) : elem -> Prop :=
| RdPrim t v l p :
    elem_ok c (fun _ => false) (EPrim t v l p) -> rt_ok c d (EPrim t v l p) -> readable c d (EPrim t v l p)
| RdSeq t l its :
    wf_tag t -> fst t <> 65534 -> t <> pixel_tag ->
    Forall (fun it : item => Forall (readable c d) (snd it) /\ StronglySorted tag_lt (map elem_tag (snd it))) its ->
    readable c d (ESeq t SQ l its)
| RdPix ot frags :
    Forall (fun x => x < 4294967296) ot -> nlen ot < 1073741824 ->
    Forall (fun f : bytes => blen f < 4294967294) frags ->
    readable c d (EPix pixel_tag OB undef ot frags).

(** * Auxiliary facts about the bytes *)
Lemma obind_ok a f b : obind a f = Ok b -> exists x, a = Ok x /\ f x = Ok b.
Proof. destruct a; cbn; intros H; try discriminate. eauto. Qed.

Lemma st_item_header_undef c : st_enc_item_header c undef = ps35_item_header c undef.
Proof. unfold st_enc_item_header. cbn [N.eqb undef]. rewrite N.eqb_refl. apply enc_item_header_ps35. Qed.

Lemma st_item_header_even c len :
  len < 4294967295 -> len mod 2 = 0 -> st_enc_item_header c len = ps35_item_header c len.
Proof.
  intros H E. unfold st_enc_item_header.
  replace (len =? 4294967295) with false by (symmetry; apply N.eqb_neq; lia).
  rewrite even_len_even by assumption. apply enc_item_header_ps35.
Qed.

Lemma st_item_header_frag c (f : bytes) :
  blen f < 4294967294 -> st_enc_item_header c (blen f mod 4294967296) = ps35_item_header c (blen (pad_even 0 f)).
Proof.
  intros H. unfold st_enc_item_header. rewrite N.mod_small by lia.
  replace (blen f =? 4294967295) with false by (symmetry; apply N.eqb_neq; lia).
  change (pad_even 0 f) with (ps35_padded OB f). rewrite ps35_padded_len by lia. apply enc_item_header_ps35.
Qed.

(** * Pixel data *)
Lemma read_fragments c d frags : forall st more stk,
  Forall (fun f : bytes => blen f < 4294967294) frags ->
  pixseq_state st (flat_map (fun f => match f with
                                      | [] => st_enc_item_header c 0
                                      | _ => st_enc_item_header c (blen f mod 4294967296) ++ st_write_bytes f
                                      end) frags ++ more) stk ->
  exists st', yields c d st (flat_map frag_rtoks frags) st' /\ pixseq_state st' more stk.
Proof.
  induction frags as [|fr frags IH]; intros st more stk H S.
  - exists st. split; [constructor | exact S].
  - inversion H as [|? ? Hf Hr]; subst. cbn [flat_map] in S |- *. rewrite <- app_assoc in S.
    destruct fr as [|x fr].
    + (* zero-length fragment *)
      rewrite st_item_header_even in S by (lia || reflexivity).
      destruct (step_pix_item (length (r_src st)) c d st stk 0 _ S ltac:(lia)) as (st1 & N1 & S1).
      pose proof (pixitem_zero_done st1 _ stk false S1 eq_refl) as D1.
      destruct (step_pix_item_end (length (r_src st1)) c d st1 _ stk D1) as (st2 & N2 & S2).
      destruct (IH st2 more stk Hr S2) as (st3 & Y3 & S3).
      exists st3. split; [|exact S3].
      cbn [frag_rtoks app]. econstructor; [exact N1|]. econstructor; [exact N2 | exact Y3].
    + set (b := x :: fr) in *.
      rewrite st_item_header_frag in S by exact Hf. rewrite <- app_assoc in S.
      assert (Lb : blen (pad_even 0 b) < 4294967295).
      { change (pad_even 0 b) with (ps35_padded OB b). pose proof (padded_lt OB b ltac:(lia)). pose proof (padded_ne_undef OB b). lia. }
      destruct (step_pix_item (length (r_src st)) c d st stk _ _ S Lb) as (st1 & N1 & S1).
      unfold st_write_bytes in S1.
      assert (Pos : 0 < blen (pad_even 0 b)).
      { unfold pad_even, blen, b. destruct (Nat.odd _); [rewrite app_length|]; cbn [length]; lia. }
      destruct (step_pix_value (length (r_src st1)) c d st1 stk _ _ S1 Pos) as (st2 & N2 & S2).
      destruct (step_pix_item_end (length (r_src st2)) c d st2 _ stk S2) as (st3 & N3 & S3).
      destruct (IH st3 more stk Hr S3) as (st4 & Y4 & S4).
      exists st4. split; [|exact S4].
      unfold frag_rtoks at 1. fold b. cbn [app].
      econstructor; [exact N1|]. econstructor; [exact N2|]. econstructor; [exact N3 | exact Y4].
Qed.

Definition frag_part (c : codec) (f : bytes) : bytes :=
  match f with
  | [] => st_enc_item_header c 0
  | _ => st_enc_item_header c (blen f mod 4294967296) ++ st_write_bytes f
  end.

Lemma item_header_len8 c len : length (st_enc_item_header c len) = 8%nat.
Proof.
  unfold st_enc_item_header, enc_item_header. rewrite !app_length, !u16_length, u32_length. reflexivity.
Qed.

Lemma frag_tokens_bound c frags :
  (length (flat_map frag_rtoks frags) <= length (flat_map (frag_part c) frags))%nat.
Proof.
  induction frags as [|f frags IH]; [cbn; lia|]. cbn [flat_map]. rewrite !app_length.
  destruct f as [|x f]; cbn [frag_rtoks frag_part]; rewrite ?app_length, item_header_len8; cbn [length]; lia.
Qed.

(** offset-table item *)
Lemma read_offset_table c d ot st more stk v :
  Forall (fun x => x < 4294967296) ot -> nlen ot < 1073741824 ->
  val_state st ((match ot with
                 | [] => st_enc_item_header c 0
                 | _ => st_enc_item_header c ((nlen ot mod 4294967296 * 4) mod 4294967296) ++ st_enc_offset_table c ot
                 end) ++ more) stk (pixel_tag, v, undef) ->
  exists st', yields c d st (ot_rtoks ot) st' /\ pixseq_state st' more stk.
Proof.
  intros Hw Hn S. destruct ot as [|x ot].
  - rewrite st_item_header_even in S by (lia || reflexivity).
    destruct (step_pix_first_item (length (r_src st)) c d st stk v 0 more S ltac:(lia)) as (st1 & N1 & S1).
    pose proof (pixitem_zero_done st1 _ stk _ S1 eq_refl) as D1.
    destruct (step_pix_item_end (length (r_src st1)) c d st1 _ stk D1) as (st2 & N2 & S2).
    exists st2. split; [|exact S2]. cbn [ot_rtoks]. econstructor; [exact N1|]. apply yields_one. exact N2.
  - set (o := x :: ot) in *.
    assert (L : (nlen o mod 4294967296 * 4) mod 4294967296 = 4 * N.of_nat (length o)).
    { unfold nlen in *. rewrite (N.mod_small (N.of_nat (length o))) by lia. rewrite N.mod_small by lia. lia. }
    rewrite L in S. rewrite st_item_header_even in S; [| unfold nlen in Hn; lia | rewrite N.mul_comm; replace (N.of_nat (length o) * 4) with (0 + (N.of_nat (length o) * 2) * 2) by lia; rewrite N.mod_add by discriminate; reflexivity ].
    rewrite <- app_assoc in S.
    destruct (step_pix_first_item (length (r_src st)) c d st stk v _ _ S ltac:(unfold nlen in Hn; lia)) as (st1 & N1 & S1).
    replace (negb (4 * N.of_nat (length o) =? 0)) with true in S1
      by (symmetry; apply negb_true_iff, N.eqb_neq; unfold o; cbn [length]; lia).
    unfold st_enc_offset_table in S1.
    assert (Lraw : length (enc_words c 4 o) = (4 * length o)%nat) by (rewrite enc_words_length; lia).
    destruct (step_pix_offset_table (length (r_src st1)) c d st1 stk (length o) _ more S1 Lraw ltac:(unfold o; cbn; lia))
      as (st2 & N2 & S2).
    destruct (step_pix_item_end (length (r_src st2)) c d st2 _ stk S2) as (st3 & N3 & S3).
    exists st3. split; [|exact S3].
    unfold ot_rtoks. fold o. unfold nlen.
    econstructor; [exact N1|]. econstructor.
    + rewrite N2. f_equal. f_equal. f_equal.
      rewrite <- (List.app_nil_r (enc_words c 4 o)). apply dec_words_enc_words. exact Hw.
    + apply yields_one. exact N3.
Qed.

(** * The main induction *)
Definition reads_ok (c : codec) (d : dict_t) (e : elem) : Prop :=
  forall f b, enc_tree f c e = Ok b ->
  (length (rtoks c d e) <= length b)%nat /\
  forall st rest stk, elem_state st (b ++ rest) stk ->
    exists st', yields c d st (rtoks c d e) st' /\ elem_state st' rest stk.

Lemma read_elems c d es : forall f b,
  Forall (reads_ok c d) es -> enc_trees f c es = Ok b ->
  (length (rtoks_list c d es) <= length b)%nat /\
  forall st rest stk, elem_state st (b ++ rest) stk ->
    exists st', yields c d st (rtoks_list c d es) st' /\ elem_state st' rest stk.
Proof.
  induction es as [|e es IH]; intros f b H E.
  - cbn in E. inversion E; subst b. split; [cbn; lia|]. intros st rest stk S. exists st. split; [constructor | exact S].
  - inversion H as [|? ? He Hes]; subst. cbn [enc_trees] in E.
    apply obind_ok in E. destruct E as (b1 & E1 & E). apply obind_ok in E. destruct E as (b2 & E2 & E).
    inversion E; subst b. destruct (He f b1 E1) as [L1 R1]. destruct (IH f b2 Hes E2) as [L2 R2].
    unfold rtoks_list in *. cbn [flat_map]. split; [rewrite !app_length; lia|].
    intros st rest stk S. rewrite <- app_assoc in S.
    destruct (R1 st (b2 ++ rest) stk S) as (st1 & Y1 & S1).
    destruct (R2 st1 rest stk S1) as (st2 & Y2 & S2).
    exists st2. split; [eapply yields_app; eassumption | exact S2].
Qed.

Lemma read_items c d (Hd : delim_ok c d) its : forall f b,
  Forall (fun it : item => Forall (reads_ok c d) (snd it)) its -> enc_items f c its = Ok b ->
  (length (rtoks_items c d its) <= length b)%nat /\
  forall st rest stk, seq_state st (b ++ rest) stk ->
    exists st', yields c d st (rtoks_items c d its) st' /\ seq_state st' rest stk.
Proof.
  induction its as [|[n es] its IH]; intros f b H E.
  - cbn in E. inversion E; subst b. split; [cbn; lia|]. intros st rest stk S. exists st. split; [constructor | exact S].
  - inversion H as [|? ? Hes Hits]; subst. cbn [snd] in Hes. cbn [enc_items] in E.
    apply obind_ok in E. destruct E as (body & E1 & E). apply obind_ok in E. destruct E as (r & E2 & E).
    inversion E; subst b. destruct (read_elems c d es f body Hes E1) as [L1 R1]. destruct (IH f r Hits E2) as [L2 R2].
    unfold rtoks_items in *. cbn [flat_map snd]. split.
    { rewrite !app_length, item_header_len8. cbn [length]. unfold enc_item_delim. rewrite !app_length, !u16_length. cbn [length]. lia. }
    intros st rest stk S. rewrite st_item_header_undef, enc_item_delim_ps35, <- !app_assoc in S.
    destruct (step_item_start (length (r_src st)) c d st stk _ S) as (st1 & top & N1 & S1 & T1).
    destruct (R1 st1 _ (top :: stk) S1) as (st2 & Y2 & S2).
    assert (Hne : stk <> []) by (destruct S as (_ & _ & _ & Hne & _); exact Hne).
    destruct (step_item_end (length (r_src st2)) c d st2 stk top _ S2 Hne Hd) as (st3 & N3 & S3).
    destruct (R2 st3 rest stk S3) as (st4 & Y4 & S4).
    exists st4. split; [|exact S4].
    cbn [app]. econstructor; [exact N1|]. rewrite <- app_assoc. eapply yields_app; [exact Y2|].
    cbn [app]. econstructor; [exact N3 | exact Y4].
Qed.

Lemma readable_reads_ok c d (Hd : delim_ok c d) : forall e, readable c d e -> reads_ok c d e.
Proof.
  apply (elem_ind_nested (fun e => readable c d e -> reads_ok c d e)).
  - (* primitive *)
    intros t v l p R f b E. inversion R as [? ? ? ? Hok Hrt| |]; subst.
    destruct f as [|f]; [cbn in E; discriminate|]. cbn [enc_tree] in E.
    destruct Hok as (Hpl & Hty & Hwf & Hlen & Htag & Hgrp & _). destruct Hrt as [Hpr Hsq].
    destruct (enc_prim_element_shape c t v p b Hty Hwf Hlen E) as [Sh K].
    set (val := ps35_padded v (raw_value c v p)) in *.
    destruct (back_value_not_sq c (read_vr c d t v) val Hsq) as [q Hq].
    assert (Q : readback_prim c (read_vr c d t v) val = q) by (unfold readback_prim; rewrite Hq; reflexivity).
    assert (Lv : blen val < 4294967295).
    { unfold val. pose proof (padded_lt v (raw_value c v p) Hlen). pose proof (padded_ne_undef v (raw_value c v p)). lia. }
    cbn [rtoks]. fold val. rewrite Q. split.
    { rewrite Sh, app_length. destruct (ps35_header_starts c t v (blen val)) as [tl [Eh Lh]].
      rewrite Eh, app_length, ps35_u16_length. cbn [length]. lia. }
    intros st rest stk S. rewrite Sh, <- app_assoc in S.
    destruct (step_header (length (r_src st)) c d st stk t v val rest S Htag Hgrp Lv K Hsq) as (st1 & N1 & S1).
    destruct (step_value (length (r_src st1)) c d st1 stk t _ val rest q S1 Hpr Lv Hq) as (st2 & N2 & S2).
    exists st2. split; [|exact S2]. econstructor; [exact N1|]. apply yields_one. exact N2.
  - (* encapsulated pixel data *)
    intros t v l ot fr R f b E. inversion R as [| |? ? Hot Hn Hfr]; subst.
    destruct f as [|f]; [cbn in E; discriminate|]. cbn [enc_tree] in E. unfold enc_pix in E.
    rewrite st_enc_header_undef_ob in E. cbn [obind] in E. inversion E; subst b. clear E.
    cbn [rtoks]. split.
    { rewrite !app_length. destruct (ps35_header_starts c pixel_tag OB undef) as [tl [Eh Lh]].
      rewrite Eh, app_length, ps35_u16_length.
      pose proof (frag_tokens_bound c fr) as FB.
      destruct ot; cbn [ot_rtoks]; cbv iota; rewrite ?app_length, ?item_header_len8; cbn [length];
        match goal with |- context [(length (flat_map ?F fr) + length (enc_seq_delim c))%nat] =>
          assert (FB2 : (length (flat_map frag_rtoks fr) <= length (flat_map F fr))%nat) by exact FB end; lia. }
    intros st rest stk S. rewrite <- !app_assoc in S.
    destruct (step_pix_start (length (r_src st)) c d st stk _ S) as (st1 & N1 & S1).
    destruct (read_offset_table c d ot st1 _ stk _ Hot Hn S1) as (st2 & Y2 & S2).
    destruct (read_fragments c d fr st2 _ stk Hfr S2) as (st3 & Y3 & S3).
    rewrite enc_seq_delim_ps35 in S3.
    destruct (step_pix_end (length (r_src st3)) c d st3 stk rest S3) as (st4 & N4 & S4).
    exists st4. split; [|exact S4].
    cbn [app]. econstructor; [exact N1|]. eapply yields_app; [exact Y2|]. eapply yields_app; [exact Y3|].
    apply yields_one. exact N4.
  - (* sequence *)
    intros t v l its IH R f b E. inversion R as [|? ? ? Htag Hgrp Hpx Hits|]; subst.
    assert (A : Forall (fun it : item => Forall (reads_ok c d) (snd it)) its).
    { clear R E. induction its as [|it its IHi]; [constructor|].
      inversion IH as [|? ? I1 I2]; inversion Hits as [|? ? [J1 _] J2]; subst. constructor.
      - clear IHi I2 J2. induction (snd it) as [|x xs IHx]; [constructor|].
        inversion I1; inversion J1; subst. constructor; [auto | auto].
      - apply IHi; assumption. }
    destruct f as [|f]; [cbn in E; discriminate|]. rewrite enc_tree_seq, st_enc_header_undef_sq in E.
    cbn [obind] in E. apply obind_ok in E. destruct E as (body & E1 & E). inversion E; subst b. clear E.
    destruct (read_items c d Hd its f body A E1) as [L1 R1].
    cbn [rtoks]. fold (rtoks_items c d its). split.
    { rewrite !app_length. destruct (ps35_header_starts c t SQ undef) as [tl [Eh Lh]].
      rewrite Eh, app_length, ps35_u16_length. unfold enc_seq_delim. rewrite !app_length, !u16_length.
      cbn [length].
      match goal with |- context [length (flat_map ?F its)] =>
        assert (L1' : (length (flat_map F its) <= length body)%nat) by exact L1 end. lia. }
    intros st rest stk S. rewrite <- !app_assoc in S.
    destruct (step_seq_start (length (r_src st)) c d st stk t _ S Htag Hgrp Hpx) as (st1 & top & N1 & S1 & B1 & I1).
    destruct (R1 st1 _ (top :: stk) S1) as (st2 & Y2 & S2).
    rewrite enc_seq_delim_ps35 in S2.
    destruct (step_seq_end (length (r_src st2)) c d st2 stk top rest S2) as (st3 & N3 & S3).
    exists st3. split; [|exact S3].
    cbn [app]. econstructor; [exact N1|]. eapply yields_app; [exact Y2|]. apply yields_one. exact N3.
Qed.

(** R (tokens): the reader on the writer's output of a nested data set. *)
Lemma read_tokens_tree c d (Hd : delim_ok c d) es b :
  Forall (readable c d) es -> enc_trees (elems_size es) c es = Ok b ->
  read_tokens (S (length b)) c d (r_init b) = (rtoks_list c d es, None).
Proof.
  intros H E.
  assert (A : Forall (reads_ok c d) es) by (eapply Forall_impl; [apply readable_reads_ok; exact Hd | exact H]).
  destruct (read_elems c d es _ b A E) as [L R].
  assert (S0 : elem_state (r_init b) (b ++ []) []).
  { rewrite List.app_nil_r. unfold elem_state, r_init. cbn. repeat split; auto. }
  destruct (R (r_init b) [] [] S0) as (st' & Y & S').
  destruct (step_end (length (r_src st')) c d st' [] S') as [st'' En].
  assert (RT : read_tokens (S (length b - length (rtoks_list c d es))) c d st' = ([], None)).
  { cbn [read_tokens]. rewrite En. reflexivity. }
  pose proof (yields_read c d _ _ _ Y _ _ _ RT) as Q. rewrite List.app_nil_r in Q.
  replace (length (rtoks_list c d es) + S (length b - length (rtoks_list c d es)))%nat with (S (length b)) in Q by lia.
  exact Q.
Qed.
