(** The PDU reader model never panics, on ARBITRARY byte buffers: every [Panic] in
    Model/Pdu.v stands for a [bytes::Buf] read (get_u8/get_u16/get_u32/copy_to_bytes/advance)
    or an arithmetic overflow that would panic in the real reader, guarded exactly as the
    code guards it; this file proves that all of them are unreachable. *)
From DicomV Require Import Base.Prelude Base.Endian Base.Str Model.Pdu Proofs.PduP.
From Coq Require Import ZifyBool ZifyNat ZifyN.
Ltac Zify.zify_post_hook ::= Z.div_mod_to_equations.

Local Arguments take : simpl never.
Local Arguments len : simpl never.
Local Arguments trim : simpl never.

Definition np {A} (o : outcome A) : Prop := forall w, o <> Panic w.

Lemma np_ok {A} (a : A) : np (Ok a). Proof. intros w; discriminate. Qed.
Lemma np_err {A} e : np (@Err A e). Proof. intros w; discriminate. Qed.
Lemma np_ret {A} (a : A) : np (ret a). Proof. apply np_ok. Qed.
Lemma np_rbind {A B} (o : outcome (option A)) (f : A -> outcome (option B)) :
  np o -> (forall a, o = Ok (Some a) -> np (f a)) -> np (rbind o f).
Proof.
  intros Ho Hf w. destruct o as [[a|]| |]; cbn [rbind]; try discriminate.
  - apply Hf. reflexivity.
  - exfalso. exact (Ho _ eq_refl).
Qed.
Lemma np_rbind_inc {A B} (o : option A) (f : A -> outcome (option B)) :
  (forall a, o = Some a -> np (f a)) -> np (rbind (inc o) f).
Proof. intros Hf. destruct o as [a|]; cbn [inc rbind]; [apply Hf; reflexivity|apply np_ok]. Qed.
Lemma np_bind {A B} (o : outcome A) (f : A -> outcome B) :
  np o -> (forall a, o = Ok a -> np (f a)) -> np (bind o f).
Proof.
  intros Ho Hf w. destruct o as [a| |]; cbn [bind]; try discriminate.
  - apply Hf. reflexivity.
  - exfalso. exact (Ho _ eq_refl).
Qed.

(** lengths after the buffer primitives *)
Lemma u8_len b x r : u8 b = Some (x, r) -> len b = 1 + len r.
Proof. destruct b; [discriminate|]. intros [= <- <-]. apply len_cons. Qed.
Lemma u16_len b v r : u16 b = Some (v, r) -> len b = 2 + len r.
Proof. destruct b as [|x [|y b]]; try discriminate. intros [= <- <-]. rewrite !len_cons. lia. Qed.
Lemma u32_len b v r : u32 b = Some (v, r) -> len b = 4 + len r.
Proof. destruct b as [|x [|y [|z [|t b]]]]; try discriminate. intros [= <- <-]. rewrite !len_cons. lia. Qed.
Lemma take_len n b x r : take n b = Some (x, r) -> len b = n + len r /\ len x = n.
Proof. intros H. apply take_some in H as [-> H]. rewrite len_app. lia. Qed.
Lemma take_ok n b : n <= len b -> exists x r, take n b = Some (x, r).
Proof. intros H. unfold take. destruct (len b <? n) eqn:E; [lia|]. eauto. Qed.

Definition sfx (r b : bytes) : Prop := exists p, b = p ++ r.
Lemma sfx_refl b : sfx b b. Proof. exists []. reflexivity. Qed.
Lemma sfx_trans a b c : sfx a b -> sfx b c -> sfx a c.
Proof. intros [p ->] [q ->]. exists (q ++ p). apply app_assoc. Qed.
Lemma sfx_wf r b : sfx r b -> wf_bytes b -> wf_bytes r.
Proof. intros [p ->] H. unfold wf_bytes in *. apply Forall_app in H. tauto. Qed.
Lemma u8_sfx b x r : u8 b = Some (x, r) -> sfx r b.
Proof. destruct b; [discriminate|]. intros [= <- <-]. exists [n]. reflexivity. Qed.
Lemma take_sfx n b x r : take n b = Some (x, r) -> sfx r b.
Proof. intros H. apply take_some in H as [-> _]. exists x. reflexivity. Qed.

(** ** loops without any read that could panic *)
Lemma r_hdr_len b t l r : r_hdr b = Ok (Some (t, l, r)) -> len b = 4 + len r.
Proof.
  unfold r_hdr. destruct b as [|x [|y [|z [|u b]]]]; cbn [u8 u16 inc rbind ret]; try discriminate.
  intros [= <- <- <-]. rewrite !len_cons. lia.
Qed.
Lemma r_hdr_inv b t l r : r_hdr b = Ok (Some (t, l, r)) -> exists x y z, b = t :: x :: y :: z :: r /\ l = be_val [y; z].
Proof.
  unfold r_hdr. destruct b as [|x [|y [|z [|u b]]]]; cbn [u8 u16 inc rbind ret]; try discriminate.
  intros [= <- <- <-]. eauto.
Qed.
Lemma np_r_hdr b : np (r_hdr b).
Proof. unfold r_hdr. destruct b as [|x [|y [|z [|u b]]]]; cbn [u8 u16 inc rbind ret]; apply np_ok. Qed.

Lemma np_pcp_loop fuel : forall b abs ts, np (r_pcp_loop fuel b abs ts).
Proof.
  induction fuel as [|fuel IH]; intros b abs ts; destruct b as [|x b]; cbn [r_pcp_loop]; try apply np_ok; try apply np_err.
  apply np_rbind; [apply np_r_hdr|]. intros [[t l] r] _.
  destruct (t =? 48); [apply np_rbind_inc; intros [s r'] _; apply IH|].
  destruct (t =? 64); [apply np_rbind_inc; intros [s r'] _; apply IH|apply np_err].
Qed.
Lemma np_pc_proposed b : np (r_pc_proposed b).
Proof.
  unfold r_pc_proposed. repeat (apply np_rbind_inc; intros [? ?] _).
  apply np_rbind; [apply np_pcp_loop|]. intros [[a|] ts] _; [apply np_ret|apply np_err].
Qed.
Lemma np_pcr_loop fuel : forall b ts, np (r_pcr_loop fuel b ts).
Proof.
  induction fuel as [|fuel IH]; intros b ts; destruct b as [|x b]; cbn [r_pcr_loop]; try apply np_ok; try apply np_err.
  apply np_rbind; [apply np_r_hdr|]. intros [[t l] r] _.
  destruct (t =? 64); [|apply np_err]. destruct ts; [apply np_err|].
  apply np_rbind_inc; intros [s r'] _; apply IH.
Qed.
Lemma np_pc_result b : np (r_pc_result b).
Proof.
  unfold r_pc_result. repeat (apply np_rbind_inc; intros [? ?] _).
  destruct (pc_reason_of _); [|apply np_err].
  apply np_rbind_inc; intros [? ?] _.
  apply np_rbind; [apply np_pcr_loop|]. intros [s|] _; [apply np_ret|apply np_err].
Qed.

(** ** user information sub-items: the two guarded spots
    (u16 addition [2 + uid_length]; [copy_to_bytes(uid_length)] after the ensure!) *)
Definition good {A} (n : N) (o : outcome (option (A * bytes))) : Prop :=
  match o with
  | Panic _ => False
  | Ok (Some (_, r)) => len r <= n
  | _ => True
  end.
Lemma good_rbind_inc {A C} (o : option (A * bytes)) (f : A * bytes -> outcome (option (C * bytes))) n :
  (forall a r, o = Some (a, r) -> good n (f (a, r))) -> @good C n (rbind (inc o) f).
Proof. intros H. destruct o as [[a r]|]; cbn [inc rbind]; [apply H; reflexivity|exact I]. Qed.

Lemma good_user_sub b : len b <= 65535 -> good (len b) (r_user_sub b).
Proof.
  intros Hb. unfold r_user_sub.
  destruct (r_hdr b) as [[[[t l] b0]|]| |] eqn:Eh; cbn [rbind]; try exact I.
  2:{ exact (np_r_hdr b _ Eh). }
  apply r_hdr_len in Eh.
  destruct (t =? 81).
  { apply good_rbind_inc. intros n r E. apply u32_len in E. cbn [ret good]. lia. }
  destruct (t =? 82).
  { apply good_rbind_inc. intros n r E. apply take_len in E as [E _]. cbn [ret good]. lia. }
  destruct (t =? 84).
  { apply good_rbind_inc. intros ul r1 E1. apply u16_len in E1.
    apply good_rbind_inc. intros uid r2 E2. apply take_len in E2 as [E2 _].
    apply good_rbind_inc. intros scu r3 E3. apply u8_len in E3.
    apply good_rbind_inc. intros scp r4 E4. apply u8_len in E4. cbn [ret good]. lia. }
  destruct (t =? 85).
  { apply good_rbind_inc. intros n r E. apply take_len in E as [E _]. cbn [ret good]. lia. }
  destruct (t =? 86).
  { apply good_rbind_inc. intros ul r1 E1. apply u16_len in E1.
    destruct (len r1 <? ul) eqn:Eul; [exact I|].
    destruct (65535 <? 2 + ul) eqn:Eov; [lia|].
    destruct (l <? 2 + ul); [exact I|].
    destruct (take_ok ul r1) as (uid & r2 & E2); [lia|]. rewrite E2. cbn [must rbind].
    apply take_len in E2 as [E2 _].
    apply good_rbind_inc. intros d r3 E3. apply take_len in E3 as [E3 _]. cbn [ret good]. lia. }
  destruct (t =? 88).
  { apply good_rbind_inc. intros ty r1 E1. apply u8_len in E1.
    apply good_rbind_inc. intros pos r2 E2. apply u8_len in E2.
    apply good_rbind_inc. intros pl r3 E3. apply u16_len in E3.
    apply good_rbind_inc. intros prim r4 E4. apply take_len in E4 as [E4 _].
    apply good_rbind_inc. intros sl r5 E5. apply u16_len in E5.
    apply good_rbind_inc. intros sec r6 E6. apply take_len in E6 as [E6 _].
    destruct (identity_of ty); cbn [ret good]; lia. }
  apply good_rbind_inc. intros d r E. apply take_len in E as [E _]. cbn [ret good]. lia.
Qed.

Lemma np_user_loop fuel : forall b, len b <= 65535 -> np (r_user_loop fuel b).
Proof.
  induction fuel as [|fuel IH]; intros b Hb; destruct b as [|x b]; cbn [r_user_loop]; try apply np_ok; try apply np_err.
  pose proof (good_user_sub (x :: b) Hb) as G.
  destruct (r_user_sub (x :: b)) as [[[vs r]|]| |]; cbn [rbind good] in *; try apply np_ok; try apply np_err; [|contradiction].
  apply np_rbind; [apply IH; lia|]. intros rest _. apply np_ret.
Qed.

(** ** variable items *)
Lemma be_val2_bound x y : x < 256 -> y < 256 -> be_val [x; y] <= 65535.
Proof. intros. unfold be_val. cbn [rev app le_val]. lia. Qed.

Lemma r_var_good b :
  wf_bytes b ->
  match r_var b with
  | Panic _ => False
  | Ok (Some (_, r)) => sfx r b
  | _ => True
  end.
Proof.
  intros Hw. unfold r_var.
  destruct (r_hdr b) as [[[[t l] b0]|]| |] eqn:Eh; cbn [rbind]; try exact I.
  2:{ exact (np_r_hdr b _ Eh). }
  apply r_hdr_inv in Eh as (x & y & z & -> & ->).
  assert (Hl : be_val [y; z] <= 65535).
  { unfold wf_bytes in Hw. inversion Hw as [|? ? _ H1]; subst. inversion H1 as [|? ? _ H2]; subst.
    inversion H2 as [|? ? Hy H3]; subst. inversion H3 as [|? ? Hz _]; subst. apply be_val2_bound; assumption. }
  destruct (take (be_val [y; z]) b0) as [[body rest]|] eqn:Et; cbn [inc rbind]; [|exact I].
  pose proof (take_sfx _ _ _ _ Et) as [p ->]. apply take_len in Et as [_ Elen].
  assert (Hs : sfx rest (t :: x :: y :: z :: p ++ rest)) by (exists (t :: x :: y :: z :: p); reflexivity).
  destruct (t =? 16); [exact Hs|].
  destruct (t =? 32).
  { pose proof (np_pc_proposed body) as Hn. destruct (r_pc_proposed body) as [[q|]| |]; cbn [rbind ret]; auto. exact (Hn _ eq_refl). }
  destruct (t =? 33).
  { pose proof (np_pc_result body) as Hn. destruct (r_pc_result body) as [[q|]| |]; cbn [rbind ret]; auto. exact (Hn _ eq_refl). }
  destruct (t =? 80).
  { assert (Hn : np (r_user_loop (length body) body)) by (apply np_user_loop; lia).
    destruct (r_user_loop (length body) body) as [[q|]| |]; cbn [rbind ret]; auto. exact (Hn _ eq_refl). }
  exact Hs.
Qed.

Lemma np_vars_loop rq fuel : forall b a, wf_bytes b -> np (r_vars_loop rq fuel b a).
Proof.
  induction fuel as [|fuel IH]; intros b a Hw; destruct b as [|x b]; cbn [r_vars_loop]; try apply np_ok; try apply np_err.
  pose proof (r_var_good (x :: b) Hw) as G.
  destruct (r_var (x :: b)) as [[[v r]|]| |]; try apply np_err; [|contradiction].
  pose proof (sfx_wf _ _ G Hw) as Hr.
  destruct v; try apply np_err; try (apply IH; exact Hr); destruct rq; try apply np_err; apply IH; exact Hr.
Qed.

(** ** PDU bodies *)
Lemma wf_take n b x r : take n b = Some (x, r) -> wf_bytes b -> wf_bytes r.
Proof. intros H. apply sfx_wf. eapply take_sfx; exact H. Qed.
Lemma wf_u16 b v r : u16 b = Some (v, r) -> wf_bytes b -> wf_bytes r.
Proof.
  destruct b as [|x [|y b]]; try discriminate. intros [= <- <-]. apply sfx_wf. exists [x; y]. reflexivity.
Qed.

Lemma np_assoc rq b : wf_bytes b -> np (r_assoc rq b).
Proof.
  intros Hw. unfold r_assoc. destruct (len b <? 68) eqn:E68; [apply np_err|].
  destruct (u16 b) as [[ver b1]|] eqn:E1.
  2:{ exfalso. destruct b as [|x [|y b]]; try discriminate; rewrite ?len_cons, ?len_nil in E68; lia. }
  pose proof (u16_len _ _ _ E1) as L1. pose proof (wf_u16 _ _ _ E1 Hw) as W1.
  destruct (take_ok 2 b1) as (x2 & b2 & E2); [lia|]. rewrite E2.
  pose proof (take_len _ _ _ _ E2) as [L2 _]. pose proof (wf_take _ _ _ _ E2 W1) as W2.
  destruct (take_ok 16 b2) as (x3 & b3 & E3); [lia|]. rewrite E3.
  pose proof (take_len _ _ _ _ E3) as [L3 _]. pose proof (wf_take _ _ _ _ E3 W2) as W3.
  destruct (take_ok 16 b3) as (x4 & b4 & E4); [lia|]. rewrite E4.
  pose proof (take_len _ _ _ _ E4) as [L4 _]. pose proof (wf_take _ _ _ _ E4 W3) as W4.
  destruct (take_ok 32 b4) as (x5 & b5 & E5); [lia|]. rewrite E5.
  pose proof (wf_take _ _ _ _ E5 W4) as W5.
  apply np_bind; [apply np_vars_loop; exact W5|]. intros a _.
  destruct (acc_app a); [|apply np_err]. destruct rq; apply np_ok.
Qed.

Lemma np_pdv_loop fuel : forall b, np (r_pdv_loop fuel b).
Proof.
  induction fuel as [|fuel IH]; intros b; destruct b as [|x b]; cbn [r_pdv_loop]; try apply np_ok; try apply np_err.
  destruct (len (x :: b) <? 6) eqn:E6; [apply np_err|].
  destruct b as [|y [|z [|t [|id [|h b]]]]]; try (rewrite ?len_cons, ?len_nil in E6; lia).
  cbn [u32]. destruct (_ <? 2); [apply np_err|].
  destruct (take _ b) as [[d r]|]; [|apply np_err].
  apply np_bind; [apply IH|]. intros rest _. apply np_ok.
Qed.

Lemma np_body t b : wf_bytes b -> np (r_body t b).
Proof.
  intros Hw. unfold r_body.
  destruct (t =? 1); [apply np_assoc; exact Hw|].
  destruct (t =? 2); [apply np_assoc; exact Hw|].
  destruct (t =? 3).
  { destruct b as [|? [|r [|s [|d ?]]]]; try apply np_err.
    destruct (rj_result_of r); [|apply np_err]. destruct (rj_source_of s d); [apply np_ok|apply np_err]. }
  destruct (t =? 4); [apply np_bind; [apply np_pdv_loop|intros; apply np_ok]|].
  destruct (t =? 5); [destruct (_ <? 4); [apply np_err|apply np_ok]|].
  destruct (t =? 6); [destruct (_ <? 4); [apply np_err|apply np_ok]|].
  destruct (t =? 7).
  { destruct b as [|? [|? [|s [|r ?]]]]; try apply np_err.
    destruct (abort_source_of s r); [apply np_ok|apply np_err]. }
  apply np_ok.
Qed.

(** * read_pdu never panics, whatever the bytes, the maximum and the mode *)
Theorem read_pdu_total max strict b : wf_bytes b -> forall w, read_pdu max strict b <> Panic w.
Proof.
  intros Hw. change (np (read_pdu max strict b)). unfold read_pdu.
  destruct (negb (max_ok max)); [apply np_err|].
  destruct b as [|t [|r0 b1]]; try apply np_ok.
  destruct (u32 b1) as [[plen b2]|] eqn:E; [|apply np_ok].
  destruct (strict && (max <? plen)); [apply np_err|].
  destruct (take plen b2) as [[body rest]|] eqn:Et; [|apply np_ok].
  apply np_bind; [|intros; apply np_ok].
  apply np_body.
  assert (W1 : wf_bytes b1) by (apply (sfx_wf b1 (t :: r0 :: b1)); [exists [t; r0]; reflexivity|exact Hw]).
  assert (W2 : wf_bytes b2).
  { destruct b1 as [|x [|y [|z [|u b1]]]]; try discriminate. injection E as _ <-.
    apply (sfx_wf _ (x :: y :: z :: u :: b1)); [exists [x; y; z; u]; reflexivity|exact W1]. }
  apply take_some in Et as [-> _]. unfold wf_bytes in *. apply Forall_app in W2. tauto.
Qed.
