(** PDU reception is independent of the segmentation of the stream (C27):
    invariant "read_buffer ++ what the transport still holds = unconsumed part of
    the stream", from the round trip and the incomplete-prefix theorems of C25. *)
From DicomV Require Import Base.Prelude Base.Endian Model.Pdu Model.Wire Proofs.PduP Proofs.PduReadP.
From Coq Require Import ZifyBool ZifyNat ZifyN.

Lemma app_eq_split {A} (a b c d : list A) :
  a ++ b = c ++ d -> (length c <= length a)%nat -> exists x, a = c ++ x /\ d = x ++ b.
Proof.
  revert c. induction a as [|x a IH]; intros c H Hl.
  - destruct c; [|cbn in Hl; lia]. cbn in H. exists []. auto.
  - destruct c as [|y c].
    + cbn in H. exists (x :: a). auto.
    + cbn in H, Hl. injection H as -> H. destruct (IH c H) as (z & -> & ->); [lia|]. exists z. auto.
Qed.
Lemma app_eq_prefix {A} (a b c d : list A) :
  a ++ b = c ++ d -> (length a < length c)%nat -> a = firstn (length a) c.
Proof.
  revert c. induction a as [|x a IH]; intros c H Hl; [reflexivity|].
  destruct c as [|y c]; [cbn in Hl; lia|]. cbn in H, Hl. injection H as -> H.
  cbn [length firstn]. f_equal. apply IH; [exact H|lia].
Qed.

Definition nonempty (c : bytes) : Prop := c <> [].

(** one call of read_pdu_from_wire(_async) *)
Lemma receive_one max strict p e :
  wf_pdu p = true -> max_ok max = true -> write_pdu p = Ok e ->
  (strict = false \/ len e - 6 <= max) ->
  forall chunks buf rest,
  Forall nonempty chunks -> buf ++ concat chunks = e ++ rest ->
  exists buf' chunks',
    receive max strict buf chunks = (Ok p, buf', chunks')
    /\ buf' ++ concat chunks' = rest /\ Forall nonempty chunks'.
Proof.
  intros Hw Hm He Hs. induction chunks as [|c cs IH]; intros buf rest Hne Heq.
  - cbn [concat] in Heq. rewrite app_nil_r in Heq. subst buf.
    exists rest, []. cbn [receive]. rewrite (read_write_rt max strict p e rest) by assumption.
    repeat split; [apply app_nil_r|constructor].
  - destruct (Nat.le_gt_cases (length e) (length buf)) as [Hl|Hl].
    + destruct (app_eq_split _ _ _ _ Heq Hl) as (x & -> & ->).
      exists x, (c :: cs). cbn [receive]. rewrite (read_write_rt max strict p e x) by assumption. auto.
    + pose proof (app_eq_prefix _ _ _ _ Heq Hl) as Hp.
      cbn [receive]. rewrite Hp, (read_prefix_incomplete max strict p e (length buf)) by assumption.
      rewrite <- Hp. inversion Hne as [|? ? Hc Hcs]; subst.
      destruct c as [|y c]; [exfalso; apply Hc; reflexivity|].
      apply IH; [exact Hcs|]. cbn [concat] in Heq. rewrite <- app_assoc. exact Heq.
Qed.

(** n successive calls *)
Theorem receive_n_segmentation max strict pdus : forall encs chunks buf tail,
  max_ok max = true ->
  Forall (fun p => wf_pdu p = true) pdus ->
  Forall2 (fun p e => write_pdu p = Ok e) pdus encs ->
  (strict = false \/ Forall (fun e => len e - 6 <= max) encs) ->
  Forall nonempty chunks ->
  buf ++ concat chunks = concat encs ++ tail ->
  exists buf' chunks',
    receive_n max strict (length pdus) buf chunks = (map Ok pdus, buf', chunks')
    /\ buf' ++ concat chunks' = tail.
Proof.
  induction pdus as [|p pdus IH]; intros encs chunks buf tail Hm Hw He Hs Hne Heq.
  - inversion He; subst. cbn [concat app] in Heq. exists buf, chunks. auto.
  - inversion He as [|? e ? encs' Hpe Hrest]; subst. inversion Hw as [|? ? Hwp Hwr]; subst.
    cbn [concat] in Heq. rewrite <- app_assoc in Heq.
    assert (Hs1 : strict = false \/ len e - 6 <= max).
    { destruct Hs as [Hs|Hs]; [left; exact Hs|right]. inversion Hs; assumption. }
    assert (Hs2 : strict = false \/ Forall (fun e => len e - 6 <= max) encs').
    { destruct Hs as [Hs|Hs]; [left; exact Hs|right]. inversion Hs; assumption. }
    destruct (receive_one max strict p e Hwp Hm Hpe Hs1 chunks buf _ Hne Heq) as (b1 & c1 & E1 & Eq1 & Hne1).
    destruct (IH encs' c1 b1 tail Hm Hwr Hrest Hs2 Hne1 Eq1) as (b2 & c2 & E2 & Eq2).
    exists b2, c2. cbn [length receive_n map]. rewrite E1, E2. auto.
Qed.

(** the statement of C27: a fresh connection, the stream is exactly the PDUs sent *)
Corollary receive_all max strict pdus encs chunks :
  max_ok max = true ->
  Forall (fun p => wf_pdu p = true) pdus ->
  Forall2 (fun p e => write_pdu p = Ok e) pdus encs ->
  (strict = false \/ Forall (fun e => len e - 6 <= max) encs) ->
  Forall nonempty chunks ->
  concat chunks = concat encs ->
  exists chunks',
    receive_n max strict (length pdus) [] chunks = (map Ok pdus, [], chunks') /\ concat chunks' = [].
Proof.
  intros Hm Hw He Hs Hne Heq.
  destruct (receive_n_segmentation max strict pdus encs chunks [] [] Hm Hw He Hs Hne) as (b & c & E & Eq).
  - cbn [app]. rewrite app_nil_r. exact Heq.
  - apply app_eq_nil in Eq as [-> Hc]. exists c. auto.
Qed.

(** after the last PDU the receiver reports "connection closed" (nothing is invented) *)
Lemma receive_closed max strict : max_ok max = true -> receive max strict [] [] = (Err E_Closed, [], []).
Proof. intros Hm. cbn [receive]. unfold read_pdu. rewrite Hm. reflexivity. Qed.
