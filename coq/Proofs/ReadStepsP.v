(** Single steps of the reader state machine ([next]) on well-formed pieces of a
    stream, for arbitrary benign delimiter stacks (all enclosing sequences and
    items of undefined length). Used by the nested round trip (C01). *)
From Coq Require Import ZifyBool ZifyNat ZifyN.
From DicomV Require Import Base.Endian Model.Vr Model.Header Model.Prim Model.Dataset Model.Reader Spec.Ps35
  Proofs.HeaderP Proofs.PrimP Proofs.ValidP Proofs.ValueP Proofs.ReaderP.
Open Scope N_scope.

(** * State predicates *)
Definition benign (s : seqtok) : Prop := sq_len s = undef /\ sq_pixel s = false.

(* between elements, inside any number of undefined-length sequences/items *)
Definition elem_state (st : rstate) (src : bytes) (stk : list seqtok) : Prop :=
  r_src st = src /\ r_in_seq st = false /\ r_stack st = stk /\ Forall benign stk /\ r_hard st = false /\
  r_last st = None /\ r_signed st = None /\ r_ot_next st = false.
(* after an element header, before its value *)
Definition val_state (st : rstate) (src : bytes) (stk : list seqtok) (h : tag * vr * N) : Prop :=
  r_src st = src /\ r_in_seq st = false /\ r_stack st = stk /\ Forall benign stk /\ r_hard st = false /\
  r_last st = Some h /\ r_signed st = None /\ r_ot_next st = false.
(* inside a sequence, between items *)
Definition seq_state (st : rstate) (src : bytes) (stk : list seqtok) : Prop :=
  r_src st = src /\ r_in_seq st = true /\ r_stack st = stk /\ stk <> [] /\ Forall benign stk /\ r_hard st = false /\
  r_last st = None /\ r_signed st = None /\ r_ot_next st = false.

(** all fields equal except [r_pending] *)
Definition same (a b : rstate) : Prop :=
  r_src a = r_src b /\ r_pos a = r_pos b /\ r_in_seq a = r_in_seq b /\ r_ot_next a = r_ot_next b /\
  r_stack a = r_stack b /\ r_hard a = r_hard b /\ r_last a = r_last b /\ r_signed a = r_signed b.

(* the pending delimiter check does nothing *)
Definition noop_delims (st : rstate) : Prop :=
  match r_stack st with
  | [] => True
  | sd :: _ => sq_len sd = undef \/ (sq_len sd <> undef /\ r_pos st < sq_base sd + sq_len sd)
  end.

Lemma next_via_body f c d st :
  r_hard st = false -> noop_delims st ->
  exists st', same st' st /\
    next (S f) c d st = match next_body c d st' with (RAgain, s) => next f c d s | r => r end.
Proof.
  intros Hh Hn. cbn [next]. rewrite Hh. destruct (r_pending st) eqn:P.
  - unfold update_delims. unfold noop_delims in Hn. destruct (r_stack st) as [|sd rest] eqn:S.
    + exists (upd st (r_in_seq st) (r_ot_next st) false [] (r_last st)). split; [|reflexivity].
      unfold same, upd. cbn. rewrite S. repeat split; reflexivity.
    + destruct Hn as [Hu | [Hu Hlt]].
      * rewrite Hu. cbn [N.eqb undef]. rewrite N.eqb_refl.
        exists (upd st (r_in_seq st) (r_ot_next st) false (sd :: rest) (r_last st)). split; [|reflexivity].
        unfold same, upd. cbn. rewrite S. repeat split; reflexivity.
      * replace (sq_len sd =? undef) with false by (symmetry; apply N.eqb_neq; exact Hu).
        replace (sq_base sd + sq_len sd =? r_pos st) with false by (symmetry; apply N.eqb_neq; lia).
        replace (sq_base sd + sq_len sd <? r_pos st) with false by (symmetry; apply N.ltb_ge; lia).
        exists (upd st (r_in_seq st) (r_ot_next st) false (sd :: rest) (r_last st)). split; [|reflexivity].
        unfold same, upd. cbn. rewrite S. repeat split; reflexivity.
  - exists st. split; [unfold same; repeat split; reflexivity | reflexivity].
Qed.

Lemma benign_noop st : Forall benign (r_stack st) -> noop_delims st.
Proof.
  intros H. unfold noop_delims. destruct (r_stack st) as [|sd rest]; [exact I|].
  inversion H as [|? ? [Hb _] _]; subst. left. exact Hb.
Qed.

(* the second branch of [next_body] (value of a pixel item) is not taken when the top is benign *)
Lemma not_pixel_item {A} (stk : list seqtok) (X : N -> A) (Y : A) :
  Forall benign stk ->
  match stk with
  | {| sq_item := true; sq_len := len; sq_pixel := true |} :: _ => X len
  | _ => Y
  end = Y.
Proof.
  intros H. destruct stk as [|[i l p b] rest]; [reflexivity|].
  inversion H as [|? ? [_ Hp] _]; subst. cbn in Hp. subst p. destruct i; reflexivity.
Qed.

(** * Primitive element: header, then value *)
Lemma step_header f c d st stk t v val rest :
  elem_state st (ps35_header c t v (blen val) ++ val ++ rest) stk ->
  wf_tag t -> fst t <> 65534 -> blen val < 4294967295 ->
  (c <> ILE -> ps35_len16 v = true -> blen val <= 65535) ->
  vr_eqb (read_vr c d t v) SQ = false ->
  exists st1, next (S f) c d st = (RTok (TElemHeader t (read_vr c d t v) (blen val)), st1)
              /\ val_state st1 (val ++ rest) stk (t, read_vr c d t v, blen val).
Proof.
  intros (Hsrc & Hin & Hst & Hb & Hh & Hl & Hsg & Hot) Ht Hg Hlen H16 Hsq.
  assert (Hn : noop_delims st) by (apply benign_noop; rewrite Hst; exact Hb).
  destruct (next_via_body f c d st Hh Hn) as (st' & (E1 & E2 & E3 & E4 & E5 & E6 & E7 & E8) & EN).
  rewrite EN. clear EN.
  unfold next_body. rewrite E3, Hin, E5, Hst, (not_pixel_item stk _ _ Hb), E7, Hl.
  unfold st_decode_header. rewrite E1, Hsrc.
  rewrite dec_header_layout; [| exact Ht | lia | intros _; exact Hg | exact H16].
  rewrite E8, Hsg. fold (read_vr c d t v). rewrite Hsq.
  replace (tag_eqb t (65534, 57357)) with false
    by (symmetry; unfold tag_eqb; cbn; replace (fst t =? 65534) with false by (symmetry; apply N.eqb_neq; exact Hg); reflexivity).
  assert (Hu : (blen val =? undef) = false) by (apply N.eqb_neq; unfold undef; lia).
  unfold is_encaps_header. rewrite Hu, andb_false_r.
  eexists. split; [reflexivity|].
  unfold val_state, upd, set_src. cbn. rewrite E4, E5, E6, E8, Hst. repeat split; auto; try congruence.
Qed.

Lemma step_value f c d st stk t v val rest p :
  val_state st (val ++ rest) stk (t, v, blen val) ->
  t <> (40, 259) -> blen val < 4294967295 -> back_value c v val = Ok p ->
  exists st2, next (S f) c d st = (RTok (TPrim p), st2) /\ elem_state st2 rest stk.
Proof.
  intros (Hsrc & Hin & Hst & Hb & Hh & Hl & Hsg & Hot) Htag Hlen Hbv.
  assert (Hn : noop_delims st) by (apply benign_noop; rewrite Hst; exact Hb).
  destruct (next_via_body f c d st Hh Hn) as (st' & (E1 & E2 & E3 & E4 & E5 & E6 & E7 & E8) & EN).
  rewrite EN. clear EN.
  unfold next_body. rewrite E3, Hin, E5, Hst, (not_pixel_item stk _ _ Hb), E7, Hl.
  assert (Hu : (blen val =? undef) = false) by (apply N.eqb_neq; unfold undef; lia).
  unfold is_encaps_header. rewrite Hu, andb_false_r.
  rewrite E1, Hsrc, (read_value_app c v val rest p Hlen Hbv).
  rewrite (tag_eqb_neq t (40, 259) Htag). cbn [andb].
  assert (X : (if vr_eqb v US || vr_eqb v OW then set_src st' rest (blen val) else set_src st' rest (blen val))
              = set_src st' rest (blen val)) by (destruct (vr_eqb v US || vr_eqb v OW); reflexivity).
  rewrite X. eexists. split; [reflexivity|].
  unfold elem_state, upd, set_src. cbn. rewrite E4, E5, E6, E8, Hst. repeat split; auto; try congruence.
Qed.

(** * Sequences and items of undefined length *)
(** sequence header with undefined length *)
Lemma step_seq_start f c d st stk t rest :
  elem_state st (ps35_header c t SQ undef ++ rest) stk ->
  wf_tag t -> fst t <> 65534 -> t <> pixel_tag ->
  exists st1 top, next (S f) c d st = (RTok (TSeqStart t undef), st1)
              /\ seq_state st1 rest (top :: stk) /\ benign top /\ sq_item top = false.
Proof.
  intros (Hsrc & Hin & Hst & Hb & Hh & Hl & Hsg & Hot) Ht Hg Hpx.
  assert (Hn : noop_delims st) by (apply benign_noop; rewrite Hst; exact Hb).
  destruct (next_via_body f c d st Hh Hn) as (st' & (E1 & E2 & E3 & E4 & E5 & E6 & E7 & E8) & EN).
  rewrite EN. clear EN.
  unfold next_body. rewrite E3, Hin, E5, Hst, (not_pixel_item stk _ _ Hb), E7, Hl.
  unfold st_decode_header. rewrite E1, Hsrc.
  rewrite dec_header_layout; [| exact Ht | unfold undef; lia | intros _; exact Hg | intros _ Hs; discriminate Hs].
  rewrite E8, Hsg. fold (read_vr c d t SQ).
  assert (Htd : tag_eqb t (65534, 57357) = false).
  { unfold tag_eqb; cbn. replace (fst t =? 65534) with false by (symmetry; apply N.eqb_neq; exact Hg). reflexivity. }
  assert (Hen : is_encaps_header t undef = false).
  { unfold is_encaps_header. rewrite (tag_eqb_neq t pixel_tag Hpx). reflexivity. }
  destruct (vr_eqb (read_vr c d t SQ) SQ) eqn:V.
  - (* VR SQ *)
    change (undef =? 0) with false.
    eexists. eexists. split; [reflexivity|].
    unfold seq_state, upd, set_src, push, benign. cbn. rewrite E4, E5, E6, E8, Hst.
    repeat split; auto; try congruence; try discriminate; try (constructor; [split; reflexivity | exact Hb]).
  - (* implicit VR, tag unknown to the dictionary: an undefined length still makes it a sequence *)
    rewrite Htd, Hen. cbn [N.eqb undef]. rewrite N.eqb_refl.
    eexists. eexists. split; [reflexivity|].
    unfold seq_state, upd, set_src, push, benign. cbn. rewrite E4, E5, E6, E8, Hst.
    repeat split; auto; try congruence; try discriminate; try (constructor; [split; reflexivity | exact Hb]).
Qed.

(** item header with undefined length *)
Lemma step_item_start f c d st stk rest :
  seq_state st (ps35_item_header c undef ++ rest) stk ->
  exists st1 top, next (S f) c d st = (RTok (TItemStart undef), st1)
              /\ elem_state st1 rest (top :: stk) /\ sq_item top = true.
Proof.
  intros (Hsrc & Hin & Hst & Hne & Hb & Hh & Hl & Hsg & Hot).
  assert (Hn : noop_delims st) by (apply benign_noop; rewrite Hst; exact Hb).
  destruct (next_via_body f c d st Hh Hn) as (st' & (E1 & E2 & E3 & E4 & E5 & E6 & E7 & E8) & EN).
  rewrite EN. clear EN.
  unfold next_body. rewrite E3, Hin, E1, Hsrc.
  rewrite dec_item_header_item by (unfold undef; lia).
  unfold set_src at 1. cbn [r_stack]. rewrite E5, Hst.
  destruct stk as [|top0 stk0]; [congruence|].
  inversion Hb as [|? ? [_ Hp0] _]; subst.
  change (undef =? 0) with false.
  unfold push, upd, set_src. cbn [r_stack r_pos r_src r_in_seq r_ot_next r_pending r_hard r_last r_signed].
  rewrite E5, Hst, Hp0.
  eexists. eexists. split; [reflexivity|].
  unfold elem_state. cbn. rewrite E4, E6, E7, E8.
  repeat split; auto; try congruence. constructor; [split; reflexivity | exact Hb].
Qed.

(* what the decoder of this codec makes of the item delimiter tag must not be a sequence *)
Definition delim_ok (c : codec) (d : dict_t) : Prop := vr_eqb (read_vr c d (65534, 57357) UN) SQ = false.

(** item delimiter closing an undefined-length item *)
Lemma step_item_end f c d st stk top rest :
  elem_state st (ps35_item_delim c ++ rest) (top :: stk) -> stk <> [] -> delim_ok c d ->
  exists st1, next (S f) c d st = (RTok TItemEnd, st1) /\ seq_state st1 rest stk.
Proof.
  intros (Hsrc & Hin & Hst & Hb & Hh & Hl & Hsg & Hot) Hne Hd.
  assert (Hn : noop_delims st) by (apply benign_noop; rewrite Hst; exact Hb).
  destruct (next_via_body f c d st Hh Hn) as (st' & (E1 & E2 & E3 & E4 & E5 & E6 & E7 & E8) & EN).
  rewrite EN. clear EN.
  unfold next_body. rewrite E3, Hin, E5, Hst, (not_pixel_item (top :: stk) _ _ Hb), E7, Hl.
  unfold st_decode_header. rewrite E1, Hsrc.
  assert (DH : dec_header c (dict_vr d) (ps35_item_delim c ++ rest)
               = Ok ((65534, 57357), read_vr c d (65534, 57357) UN, 0, 8, rest)).
  { unfold ps35_item_delim. rewrite <- !u16_ps35, <- u32_ps35, <- !app_assoc. destruct c.
    - (* implicit: an ordinary 8-byte header *)
      pose proof (dec_header_layout ILE (dict_vr d) (65534, 57357) UN 0 rest) as L.
      unfold ps35_header in L. rewrite <- !u16_ps35, <- u32_ps35, <- !app_assoc in L. cbn [fst snd] in L.
      rewrite L; [reflexivity | split; cbn; lia | lia | congruence | congruence].
    - rewrite dec_header_item_tag by (try discriminate; lia). reflexivity.
    - rewrite dec_header_item_tag by (try discriminate; lia). reflexivity. }
  rewrite DH. rewrite E8, Hsg. unfold delim_ok in Hd. rewrite Hd.
  change (tag_eqb (65534, 57357) (65534, 57357)) with true. cbn [set_src r_stack]. rewrite E5, Hst.
  eexists. split; [reflexivity|].
  inversion Hb as [|? ? _ Hb']; subst.
  unfold seq_state, upd, set_src. cbn. rewrite E4, E6, E8. repeat split; auto; try congruence.
Qed.

(** sequence delimiter closing an undefined-length sequence *)
Lemma step_seq_end f c d st stk top rest :
  seq_state st (ps35_seq_delim c ++ rest) (top :: stk) ->
  exists st1, next (S f) c d st = (RTok TSeqEnd, st1) /\ elem_state st1 rest stk.
Proof.
  intros (Hsrc & Hin & Hst & Hne & Hb & Hh & Hl & Hsg & Hot).
  assert (Hn : noop_delims st) by (apply benign_noop; rewrite Hst; exact Hb).
  destruct (next_via_body f c d st Hh Hn) as (st' & (E1 & E2 & E3 & E4 & E5 & E6 & E7 & E8) & EN).
  rewrite EN. clear EN.
  unfold next_body. rewrite E3, Hin, E1, Hsrc.
  rewrite dec_item_header_seq_delim.
  unfold set_src at 1. cbn [r_stack]. rewrite E5, Hst. cbn [tl].
  eexists. split; [reflexivity|].
  inversion Hb as [|? ? _ Hb']; subst.
  unfold elem_state, upd, set_src. cbn. rewrite E4, E5, E6, E7, E8, Hst. repeat split; auto; try congruence.
Qed.

(** end of input between elements *)
Lemma step_end f c d st stk : elem_state st [] stk -> exists st', next (S f) c d st = (REnd, st').
Proof.
  intros (Hsrc & Hin & Hst & Hb & Hh & Hl & Hsg & Hot).
  assert (Hn : noop_delims st) by (apply benign_noop; rewrite Hst; exact Hb).
  destruct (next_via_body f c d st Hh Hn) as (st' & (E1 & E2 & E3 & E4 & E5 & E6 & E7 & E8) & EN).
  rewrite EN. clear EN.
  unfold next_body. rewrite E3, Hin, E5, Hst, (not_pixel_item stk _ _ Hb), E7, Hl.
  unfold st_decode_header. rewrite E1, Hsrc. destruct c; cbn; eexists; reflexivity.
Qed.
