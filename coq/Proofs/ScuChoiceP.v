(** Lemmas about Model.ScuChoice (C33). *)
From DicomV Require Import Base.Str Model.ScuChoice.

Lemma str_eqb_eq a b : str_eqb a b = true -> a = b.
Proof. apply str_eqb_spec. Qed.

Lemma reg_find_uid reg uid t : reg_find reg uid = Some t -> t_uid t = uid /\ In t reg.
Proof.
  induction reg as [|x reg IH]; cbn; [discriminate|].
  destruct (str_eqb (t_uid x) uid) eqn:E.
  - intros H; inversion H; subst. split; [apply str_eqb_eq; exact E|left; reflexivity].
  - intros H. destruct (IH H) as [H1 H2]. split; [exact H1|right; exact H2].
Qed.

Section ChoiceP.
  Variable reg : registry.
  Variable f : dfile.
  Variable ign never : bool.

  Notation class_ok := (class_ok f ign).
  Notation compatible := (compatible reg f ign).

  Lemma class_ok_abs pc : ign = false -> class_ok pc = true -> pc_abs pc = f_class f.
  Proof. unfold ScuChoice.class_ok. intros -> H. cbn in H. apply str_eqb_eq. exact H. Qed.

  (** every context the search can return is in the list and passes the SOP class test
      (for the Implicit VR LE fallback: only when it is filtered) *)
  Lemma fallback_spec flt pcs pc :
    fallback f ign flt pcs = Some pc ->
    In pc pcs /\ (pc_ts pc = ELE \/ pc_ts pc = ILE) /\ (flt = true -> class_ok pc = true).
  Proof.
    unfold fallback. destruct (find _ pcs) as [p|] eqn:E1.
    - intros H; inversion H; subst. apply find_some in E1. destruct E1 as [Hin Hp].
      apply andb_true_iff in Hp. destruct Hp as [Hc Ht].
      repeat split; [exact Hin|left; apply str_eqb_eq; exact Ht|intros _; exact Hc].
    - intros E2. apply find_some in E2. destruct E2 as [Hin Hp].
      apply andb_true_iff in Hp. destruct Hp as [Hc Ht].
      repeat split; [exact Hin|right; apply str_eqb_eq; exact Ht|].
      intros ->. cbn in Hc. exact Hc.
  Qed.

  (** structure of a successful choice *)
  Lemma choose_gen_ok flt pcs pc ts :
    choose_gen reg f ign never flt pcs = Ok (pc, ts) ->
    exists fts, reg_get reg (f_ts f) = Some fts /\ In pc pcs /\
      ( (class_ok pc = true /\ pc_ts pc = t_uid fts /\ ts = t_uid fts)
        \/ (compatible fts pc = true /\ exists t, reg_get reg (pc_ts pc) = Some t /\ ts = t_uid t)
        \/ (never = false /\ t_decode_all fts = true /\ fallback f ign flt pcs = Some pc
            /\ exists t, reg_get reg (pc_ts pc) = Some t /\ ts = t_uid t) ).
  Proof.
    unfold choose_gen. destruct (reg_get reg (f_ts f)) as [fts|] eqn:Ef; [|discriminate].
    destruct (find (fun pc0 => class_ok pc0 && str_eqb (pc_ts pc0) (t_uid fts)) pcs) as [p|] eqn:E1.
    - intros H; inversion H; subst. apply find_some in E1. destruct E1 as [Hin Hp].
      apply andb_true_iff in Hp. destruct Hp as [Hc Ht]. apply str_eqb_eq in Ht.
      exists fts. repeat split; [exact Hin|]. left. repeat split; assumption.
    - destruct (find (compatible fts) pcs) as [p|] eqn:E2.
      + cbn [bind]. destruct (reg_get reg (pc_ts p)) as [t|] eqn:Et; [|discriminate].
        intros H; inversion H; subst. apply find_some in E2. destruct E2 as [Hin Hp].
        exists fts. repeat split; [exact Hin|]. right. left. split; [exact Hp|]. exists t. split; [exact Et|reflexivity].
      + destruct (never || negb (t_decode_all fts)) eqn:En; [discriminate|].
        apply orb_false_iff in En. destruct En as [Hn Hd]. apply negb_false_iff in Hd.
        destruct (fallback f ign flt pcs) as [p|] eqn:E3; [|discriminate].
        cbn [bind]. destruct (reg_get reg (pc_ts p)) as [t|] eqn:Et; [|discriminate].
        intros H; inversion H; subst. destruct (fallback_spec _ _ _ E3) as [Hin _].
        exists fts. repeat split; [exact Hin|]. right. right.
        repeat split; try assumption. exists t. split; [exact Et|reflexivity].
  Qed.

  Theorem choose_member flt pcs pc ts :
    choose_gen reg f ign never flt pcs = Ok (pc, ts) -> In pc pcs.
  Proof. intros H. destruct (choose_gen_ok _ _ _ _ H) as [fts [_ [Hin _]]]. exact Hin. Qed.

  Theorem choose_abstract pcs pc ts :
    ign = false -> choose reg f ign never pcs = Ok (pc, ts) -> pc_abs pc = f_class f.
  Proof.
    intros Hi H. unfold choose in H. destruct (choose_gen_ok _ _ _ _ H) as [fts [_ [_ Hc]]].
    apply class_ok_abs; [exact Hi|].
    destruct Hc as [[Hc _]|[[Hc _]|[_ [_ [Hf _]]]]].
    - exact Hc.
    - unfold ScuChoice.compatible in Hc. apply andb_true_iff in Hc. apply Hc.
    - destruct (fallback_spec _ _ _ Hf) as [_ [_ Hc]]. apply Hc. reflexivity.
  Qed.

  Theorem choose_ts_legit flt pcs pc ts :
    choose_gen reg f ign never flt pcs = Ok (pc, ts) ->
    exists fts, reg_get reg (f_ts f) = Some fts /\ ts_legit reg never fts pc ts.
  Proof.
    intros H. destruct (choose_gen_ok _ _ _ _ H) as [fts [Ef [_ Hc]]]. exists fts. split; [exact Ef|].
    unfold ts_legit. destruct Hc as [[_ [_ Ht]]|[[Hc [t [Et Hts]]]|[Hn [Hd [Hf [t [Et Hts]]]]]]].
    - left. exact Ht.
    - unfold ScuChoice.compatible in Hc. apply andb_true_iff in Hc. destruct Hc as [_ Hc].
      apply orb_true_iff in Hc. destruct Hc as [Hsame|Hfree].
      + (* same transfer syntax text: the registry entry found for it has that UID *)
        apply str_eqb_eq in Hsame. left. subst ts.
        unfold reg_get in Et, Ef. apply reg_find_uid in Et. apply reg_find_uid in Ef.
        destruct Et as [Et _]. destruct Ef as [Ef _].
        (* t_uid t = trim_uid (pc_ts pc) = trim_uid (t_uid fts) and t_uid fts = trim_uid (f_ts f) *)
        rewrite Et, Hsame, Ef.
        (* trim_uid is idempotent *)
        unfold trim_uid. rewrite rev_involutive.
        assert (Hid : forall l, drop_pad (drop_pad l) = drop_pad l).
        { induction l as [|c l IH]; [reflexivity|]. cbn. destruct (is_ws c || (c =? 0)) eqn:E; [exact IH|].
          cbn. rewrite E. reflexivity. }
        rewrite Hid. reflexivity.
      + right. left. rewrite Et in Hfree. apply andb_true_iff in Hfree. destruct Hfree as [H1 H2].
        exists t. repeat split; [exact Et|symmetry; exact Hts|exact H1|exact H2].
    - right. right. destruct (fallback_spec _ _ _ Hf) as [_ [Hts' _]].
      repeat split; try assumption. exists t. split; [exact Et|symmetry; exact Hts].
  Qed.

  (** an accepted context of the right class with exactly the file's transfer
      syntax is always preferred: no needless conversion *)
  Theorem choose_exact_preferred flt pcs fts pc0 :
    reg_get reg (f_ts f) = Some fts -> In pc0 pcs -> class_ok pc0 = true -> pc_ts pc0 = t_uid fts ->
    exists pc, choose_gen reg f ign never flt pcs = Ok (pc, t_uid fts).
  Proof.
    intros Ef Hin Hc Ht. unfold choose_gen. rewrite Ef.
    destruct (find (fun pc => class_ok pc && str_eqb (pc_ts pc) (t_uid fts)) pcs) as [p|] eqn:E1.
    - apply find_some in E1. destruct E1 as [_ Hp]. apply andb_true_iff in Hp. destruct Hp as [_ Hp].
      apply str_eqb_eq in Hp. exists p. rewrite Hp. reflexivity.
    - exfalso. pose proof (find_none _ _ E1 pc0 Hin) as Hn. cbn in Hn. rewrite Hc, Ht in Hn.
      assert (str_eqb (t_uid fts) (t_uid fts) = true) by (apply str_eqb_spec; reflexivity).
      rewrite H in Hn. discriminate.
  Qed.

  (** nothing usable was accepted whenever the answer is "no presentation context" *)
  Theorem choose_err_no_pc flt pcs :
    choose_gen reg f ign never flt pcs = Err E_NO_PC ->
    exists fts, reg_get reg (f_ts f) = Some fts /\
      forall pc, In pc pcs -> class_ok pc = true ->
        compatible fts pc = false
        /\ (never = true \/ t_decode_all fts = false \/ (pc_ts pc <> ELE /\ (flt = true -> pc_ts pc <> ILE))).
  Proof.
    unfold choose_gen. destruct (reg_get reg (f_ts f)) as [fts|] eqn:Ef; [|discriminate].
    destruct (find (fun pc0 => class_ok pc0 && str_eqb (pc_ts pc0) (t_uid fts)) pcs) as [p|] eqn:E1; [discriminate|].
    destruct (find (compatible fts) pcs) as [p|] eqn:E2.
    { cbn [bind]. destruct (reg_get reg (pc_ts p)); discriminate. }
    intros H. exists fts. split; [reflexivity|]. intros pc Hin Hc.
    split; [apply (find_none _ _ E2 pc Hin)|].
    destruct never; [left; reflexivity|]. destruct (t_decode_all fts); [|right; left; reflexivity].
    right. right. cbn [orb negb] in H.
    destruct (fallback f ign flt pcs) as [p|] eqn:E3.
    { cbn [bind] in H. destruct (reg_get reg (pc_ts p)); discriminate. }
    unfold fallback in E3.
    destruct (find (fun pc0 => class_ok pc0 && str_eqb (pc_ts pc0) ELE) pcs) eqn:E4; [discriminate|].
    split.
    - intros Ht. pose proof (find_none _ _ E4 pc Hin) as Hn. cbn in Hn. rewrite Hc, Ht in Hn.
      assert (str_eqb ELE ELE = true) by (apply str_eqb_spec; reflexivity). rewrite H0 in Hn. discriminate.
    - intros -> Ht. pose proof (find_none _ _ E3 pc Hin) as Hn. cbn in Hn. rewrite Hc, Ht in Hn.
      assert (str_eqb ILE ILE = true) by (apply str_eqb_spec; reflexivity). rewrite H0 in Hn. discriminate.
  Qed.
End ChoiceP.

(** what is put on the wire for a file whose choice succeeded *)
Section SendP.
  Variable DS : Type.
  Variable encode : str -> DS -> bytes.
  Variable decode : str -> bytes -> option DS.
  Hypothesis decode_encode : forall ts ds, decode ts (encode ts ds) = Some ds.

  Theorem send_file_decodes pc ts ds :
    exists data, send_file DS encode (Ok (pc, ts)) ds = Some (pc_id pc, pc_id pc, data) /\ decode ts data = Some ds.
  Proof. exists (encode ts ds). split; [reflexivity|apply decode_encode]. Qed.

  Theorem send_file_nothing e ds : send_file DS encode (Err e) ds = None.
  Proof. reflexivity. Qed.
End SendP.
