(** Lemmas about Model/Utf8.v (property C10): the UTF-8 codec round-trips every scalar value. *)
From Coq Require Import ZifyBool ZifyNat ZifyN.
From DicomV Require Import Model.Utf8.
Open Scope N_scope.

(** complete sweep of [lo, lo + w) for w = 2^k by binary splitting *)
Fixpoint all_range (k : nat) (lo w : N) (f : N -> bool) : bool :=
  match k with
  | O => f lo
  | S k' => let h := N.div2 w in all_range k' lo h f && all_range k' (lo + h) h f
  end.
Lemma all_range_spec k : forall lo w f, w = 2 ^ N.of_nat k -> all_range k lo w f = true ->
  forall n, lo <= n < lo + w -> f n = true.
Proof.
  induction k as [|k IH]; intros lo w f Hw H n Hn.
  - cbn in *. subst w. replace n with lo by lia. exact H.
  - cbn [all_range] in H. cbv zeta in H. apply andb_true_iff in H as [H1 H2].
    assert (E : N.div2 w = 2 ^ N.of_nat k).
    { subst w. rewrite Nat2N.inj_succ, N.pow_succ_r', N.div2_double. reflexivity. }
    assert (E2 : w = N.div2 w + N.div2 w).
    { rewrite E. subst w. rewrite Nat2N.inj_succ, N.pow_succ_r'. lia. }
    destruct (N.lt_ge_cases n (lo + N.div2 w)).
    + apply (IH lo _ f E H1). lia.
    + apply (IH _ _ f E H2). lia.
Qed.

(* ------------------------------------------------------------------ UTF-8 *)
Fixpoint u_fold (s : ustate) (bs : bytes) : ustate * str :=
  match bs with
  | [] => (s, [])
  | b :: r => let '(s', out) := u_step s b in let '(s'', out') := u_fold s' r in (s'', out ++ out')
  end.

Lemma u_run_app s l r : u_run s (l ++ r) = snd (u_fold s l) ++ u_run (fst (u_fold s l)) r.
Proof.
  revert s. induction l as [|b l IH]; intros s; cbn [app u_run u_fold]; [reflexivity|].
  destruct (u_step s b) as [s' out]. rewrite IH. destruct (u_fold s' l) as [s'' out']. cbn [fst snd].
  rewrite app_assoc. reflexivity.
Qed.

Definition ustate_eqb (a b : ustate) : bool :=
  let '(a1, a2, a3) := a in let '(b1, b2, b3) := b in (a1 =? b1) && (a2 =? b2) && (a3 =? b3).

(** what is checked for every scalar value: its encoding runs the decoder from the initial
    state back to the initial state, producing exactly that scalar; and byte 92 occurs in
    the encoding only for the backslash itself *)
Definition utf8_char_ok (c : N) : bool :=
  if is_scalar c then
    let '(s, out) := u_fold u_init (utf8_enc_char c) in
    ustate_eqb s u_init && list_eqb N.eqb out [c]
    && (negb (existsb (N.eqb 92) (utf8_enc_char c)) || (c =? 92))
  else true.

(** complete sweep of [0, 2^20) and [2^20, 2^20 + 2^16), i.e. of 0 .. 0x10FFFF: every scalar value *)
Lemma utf8_sweep_lo : all_range 20 0 1048576 utf8_char_ok = true.
Proof. vm_compute. reflexivity. Qed.
Lemma utf8_sweep_hi : all_range 16 1048576 65536 utf8_char_ok = true.
Proof. vm_compute. reflexivity. Qed.

Lemma utf8_char c : is_scalar c = true ->
  u_fold u_init (utf8_enc_char c) = (u_init, [c]) /\ (In 92 (utf8_enc_char c) -> c = 92).
Proof.
  intros Hs.
  assert (Hc : c < 1114112) by (unfold is_scalar in Hs; lia).
  assert (H : utf8_char_ok c = true).
  { destruct (N.lt_ge_cases c 1048576).
    - apply (all_range_spec 20 0 1048576 utf8_char_ok eq_refl utf8_sweep_lo c). lia.
    - apply (all_range_spec 16 1048576 65536 utf8_char_ok eq_refl utf8_sweep_hi c). lia. }
  unfold utf8_char_ok in H. rewrite Hs in H.
  destruct (u_fold u_init (utf8_enc_char c)) as [[[a1 a2] a3] out].
  apply andb_true_iff in H as [H H3]. apply andb_true_iff in H as [H1 H2].
  unfold ustate_eqb, u_init in H1. repeat (apply andb_true_iff in H1 as [H1 ?]).
  apply (proj1 (list_eqb_spec N.eqb (fun x y => N.eqb_eq x y) _ _)) in H2.
  split.
  - unfold u_init. f_equal; [|exact H2]. f_equal; [f_equal|]; lia.
  - intros Hin. apply orb_true_iff in H3 as [H3|H3]; [|lia].
    apply negb_true_iff in H3. exfalso.
    assert (existsb (N.eqb 92) (utf8_enc_char c) = true); [|congruence].
    apply existsb_exists. exists 92. split; [exact Hin | apply N.eqb_refl].
Qed.

Lemma utf8_run_enc s r : forallb is_scalar s = true ->
  u_run u_init (flat_map utf8_enc_char s ++ r) = s ++ u_run u_init r.
Proof.
  induction s as [|c s IH]; intros H; [reflexivity|].
  cbn [forallb] in H. apply andb_true_iff in H as [Hc Hs].
  cbn [flat_map]. rewrite <- app_assoc, u_run_app.
  destruct (utf8_char c Hc) as [-> _]. cbn [fst snd]. rewrite IH by exact Hs. reflexivity.
Qed.

Lemma utf8_roundtrip s : forallb is_scalar s = true ->
  exists b, utf8_encode s = Ok b /\ utf8_decode b = Ok s.
Proof.
  intros H. unfold utf8_encode. rewrite H. eexists. split; [reflexivity|].
  unfold utf8_decode. rewrite <- (app_nil_r (flat_map utf8_enc_char s)), utf8_run_enc by exact H.
  cbn. rewrite app_nil_r. reflexivity.
Qed.

Lemma utf8_strict s1 c s2 : is_scalar c = false -> utf8_encode (s1 ++ c :: s2) = Err err_encode.
Proof.
  intros Hc. unfold utf8_encode. rewrite forallb_app. cbn [forallb]. rewrite Hc.
  rewrite andb_false_l, andb_false_r. reflexivity.
Qed.

Lemma utf8_no92 s : forallb is_scalar s = true -> ~ In 92 s -> ~ In 92 (flat_map utf8_enc_char s).
Proof.
  induction s as [|c s IH]; cbn [forallb flat_map]; [tauto|]. intros H Hn Hin.
  apply andb_true_iff in H as [Hc Hs]. apply in_app_or in Hin as [Hin|Hin].
  - destruct (utf8_char c Hc) as [_ H92]. apply Hn. left. rewrite (H92 Hin). reflexivity.
  - apply (IH Hs); [|exact Hin]. intros H. apply Hn. right. exact H.
Qed.

Lemma utf8_ascii_byte p : p < 128 -> u_run u_init [p] = [p].
Proof.
  intros Hp. cbn [u_run]. unfold u_step, u_init.
  assert (Hc : u_cat p = 0). { unfold u_cat. destruct (p <? 128) eqn:E; [reflexivity|lia]. }
  rewrite Hc. cbn. reflexivity.
Qed.
